(* Correspondence driver for the Bloom filter: replays a Z-encoded case on the model and
   yields the same observations the Rust harness prints; plus the property oracles (the
   Spec: a set of bit positions per slot, kept as a characteristic vector, written
   independently of the model; the layout decoder of Spec/BloomLayout.v; the generic twin /
   no-panic oracles).  No proofs here.  Op codes: tools/families/bloom.py. *)
From DS Require Import Base.Prelude Base.Oracles Model.Bloom Spec.BloomLayout.
Open Scope Z_scope.

Definition slots := list (option bloom).
Definition get_slot (st : slots) (i : Z) : option bloom := nth (Z.to_nat i) st None.
Definition put_slot (st : slots) (i : Z) (s : bloom) : slots := set_nth (Z.to_nat i) (Some s) st.

(* a = slot :: item :: h0 :: h1 :: _ *)
Definition arg_h0 (a : list Z) : N := zN (nth 2 a 0).
Definition arg_h1 (a : list Z) : N := zN (nth 3 a 0).

(* fpp probe: a = slot :: bound :: (item, h0, h1)* ; number of probes reported as contained *)
Fixpoint count_contained (f : bloom) (l : list Z) (acc : Z) : Z :=
  match l with
  | _ :: h0 :: h1 :: r => count_contained f r (acc + zbool (bf_contains f (zN h0) (zN h1)))
  | _ => acc
  end.

(* an operation addressed to a slot that holds no filter (e.g. after a rejected image) is a
   harness-level no-op observed as EMPTY on both sides *)
(* ops 20 / 21 / 22 are insert / contains / contains_and_insert of an item of another type (a = slot :: kind ::
   h0 :: h1 :: payload): the model consumes the digests, which sit at the same argument positions as in ops 1 / 2 / 3 *)
Definition norm_code (code : Z) : Z :=
  match code with 20 => 1 | 21 => 2 | 22 => 3 | c => c end.

Definition step (st : slots) (o : zop) : slots * list Z :=
  let '(code, a) := o in
  let slot := nth 0 a 0 in
  match norm_code code with
  | 0 => match bf_with_size (zN (nth 1 a 0)) (zN (nth 2 a 0)) (zN (nth 3 a 0)) with
         | Ok f => (put_slot st slot f, [])
         | _ => (st, PANIC) end
  | 1 => match get_slot st slot with
         | Some f => (put_slot st slot (bf_insert f (arg_h0 a) (arg_h1 a)), [])
         | None => (st, EMPTY) end
  | 2 => match get_slot st slot with
         | Some f => (st, [zbool (bf_contains f (arg_h0 a) (arg_h1 a))])
         | None => (st, EMPTY) end
  | 3 => match get_slot st slot with
         | Some f => let '(b, f') := bf_contains_and_insert f (arg_h0 a) (arg_h1 a) in
                     (put_slot st slot f', [zbool b])
         | None => (st, EMPTY) end
  | 4 => match get_slot st slot, get_slot st (nth 1 a 0) with
         | Some f, Some g => match bf_union f g with
                             | Ok f' => (put_slot st slot f', [])
                             | _ => (st, PANIC) end
         | _, _ => (st, EMPTY) end
  | 5 => match get_slot st slot, get_slot st (nth 1 a 0) with
         | Some f, Some g => match bf_intersect f g with
                             | Ok f' => (put_slot st slot f', [])
                             | _ => (st, PANIC) end
         | _, _ => (st, EMPTY) end
  | 6 => match get_slot st slot with
         | Some f => match bf_invert f with
                     | Ok f' => (put_slot st slot f', [])
                     | _ => (st, PANIC) end
         | None => (st, EMPTY) end
  | 7 => match get_slot st slot with
         | Some f => (put_slot st slot (bf_reset f), [])
         | None => (st, EMPTY) end
  | 8 => match get_slot st slot with
         | Some f => (st, [Nz (bf_used f)])
         | None => (st, EMPTY) end
  | 9 => match get_slot st slot with
         | Some f => (st, map Nz (bf_serialize f))
         | None => (st, EMPTY) end
  | 10 => match get_slot st slot with
          | Some f => match bf_deserialize (bf_serialize f) with
                      | Ok f' => (put_slot st slot f', [1])
                      | Err => (st, ERR)
                      | Stuck => (st, PANIC) end
          | None => (st, EMPTY) end
  | 11 => match bf_deserialize (map zN (skipn 1 a)) with
          | Ok f' => (put_slot st slot f', [1])
          | Err => (st, ERR)
          | Stuck => (st, PANIC) end
  | 12 => match get_slot st slot with
          | Some f => (st, [Nz (bf_capacity f); Nz (bf_nh f); Nz (bf_seed f); zbool (bf_is_empty f)])
          | None => (st, EMPTY) end
  | 13 => match get_slot st slot, get_slot st (nth 1 a 0) with
          | Some f, Some g => (st, [zbool (bf_is_compatible f g)])
          | _, _ => (st, EMPTY) end
  | 14 => (* with_accuracy(n, p).seed(seed): a = slot :: n :: p bits :: seed :: num_bits :: num_hashes, the
             last two being the ln-based sizing recomputed by the generator (no Coq counterpart) *)
          match bf_with_size (zN (nth 4 a 0)) (zN (nth 5 a 0)) (zN (nth 3 a 0)) with
          | Ok f => (put_slot st slot f, [Nz (bf_capacity f); Nz (bf_nh f)])
          | _ => (st, PANIC) end
  | 15 => match get_slot st slot with
          | Some f => (st, [count_contained f (skipn 2 a) 0])
          | None => (st, EMPTY) end
  | 16 => (* fork: a = src :: dst; dst := deserialize(serialize(src)), src kept *)
          match get_slot st slot with
          | Some f => match bf_deserialize (bf_serialize f) with
                      | Ok f' => (put_slot st (nth 1 a 0) f', [1])
                      | Err => (st, ERR)
                      | Stuck => (st, PANIC) end
          | None => (st, EMPTY) end
  | 17 => (* parse untrusted bytes: a = slot :: bytes; the slot is cleared first.  The harness counts
             the bytes allocated inside deserialize() and reports a peak above 64 * len + 1 MiB as
             ALLOC (the value is dropped); bf_alloc_bytes is the model's account of the same. *)
          let bs := map zN (skipn 1 a) in
          let st0 := set_nth (Z.to_nat slot) None st in
          if (64 * N.of_nat (length bs) + 1048576 <? bf_alloc_bytes bs)%N then (st0, ALLOC)
          else match bf_deserialize bs with
               | Ok f' => (put_slot st slot f', [1])
               | Err => (st0, ERR)
               | Stuck => (st0, PANIC) end
  | 18 => (* probe: a clone of the filter inserts the item and is then asked for it (the filter itself is
             unchanged).  The answer is 1 by the no-false-negative theorem (Props/C09.v); the digests are not
             needed, so filters with thousands of hash functions cost the model nothing.
             NOTE: this "model" answer is a constant justified by a theorem, i.e. op 18 is a SPEC check on the
             crate (insert then contains = true, and no panic), NOT a model-vs-crate comparison of computed
             positions; the positions of such items are compared only where ops 1-3 / 20-22 are used. *)
          match get_slot st slot with
          | Some f => (st, [1])
          | None => (st, EMPTY) end
  | 19 => (* round-trip check: the crate serializes, deserializes, compares the copy with the original (==) and
             reports [copy == original; image length].  The model answers by the round-trip theorem (Props/C11_bloom.v)
             and the size formula (Props/C18_bloom.v) without building the byte list, so filters of 2^20 bits cost
             it nothing.
             NOTE: as for op 18 this is a SPEC check on the crate (deserialize(serialize f) == f, image length by
             the formula; the length does depend on the model's state), NOT a byte-for-byte model-vs-crate
             comparison; the bytes are compared by ops 9 / 10 / 16 on filters up to 2^16 bits. *)
          match get_slot st slot with
          | Some f => (st, [1; if bf_is_empty f then 24 else 32 + 8 * Z.of_nat (length (bf_words f))])
          | None => (st, EMPTY) end
  | _ => (st, PANIC)
  end.

Fixpoint run_from (st : slots) (ops : list zop) : list (list Z) :=
  match ops with
  | [] => []
  | o :: r => let '(st', ob) := step st o in ob :: run_from st' r
  end.

(* cfg = [number of slots] *)
Definition run (cfg : list Z) (ops : list zop) : list (list Z) :=
  run_from (repeat None (Z.to_nat (nth 0 cfg 8))) ops.

(* ---------- property oracle (the Spec, not the model) ----------
   Per slot: num_hashes, seed and the SET of bit positions as a characteristic vector
   (list bool of length capacity; position p is in the set iff the p-th entry is true).
   The set evolves by the textbook rules (insert adds the item's positions, union = or,
   intersect = and, invert = complement, reset = empty) and every observation of the crate
   is judged against it:
     contains / contains_and_insert  = "all positions of the item are in the set"
                                       (in particular never false for an inserted item)
     bits_used                       = cardinality of the set
     serialize                       : the image's bit array is the set, its count field is
                                       the cardinality; the empty form only for the empty set
     roundtrip                       : succeeds (and the set is unchanged afterwards)
     info                            : capacity = 64 * ceil(num_bits / 64); is_empty iff set empty *)
Record sp := mkSp { sp_nh : Z; sp_seed : Z; sp_set : list bool }.
(* what the Spec knows about a slot: it holds no filter (every operation on it must be observed as EMPTY); it
   holds the filter denoting a known set; or it holds a filter about which nothing is claimed (only after the
   crate accepted an image the layout specification rejects) *)
Inductive sslot := SEmpty | SKnown (s : sp) | SUnknown.
Definition ospec := list sslot.
Definition og (st : ospec) (i : Z) : sslot := nth (Z.to_nat i) st SEmpty.
Definition op_ (st : ospec) (i : Z) (v : sslot) : ospec := set_nth (Z.to_nat i) v st.
Definition is_empty_obs (ob : list Z) : bool := list_eqb Z.eqb ob EMPTY.
Definition is_nil (ob : list Z) : bool := match ob with [] => true | _ => false end.
Definition obs_done (obr : list (list Z)) : bool := match obr with [] => true | _ => false end.

Definition sp_cap (s : sp) : Z := Z.of_nat (length (sp_set s)).
Definition card (v : list bool) : Z := Z.of_nat (length (filter (fun b => b) v)).
Definition mem (v : list bool) (p : Z) : bool := nth (Z.to_nat p) v false.
Definition add (v : list bool) (p : Z) : list bool := set_nth (Z.to_nat p) true v.

(* the property's formula: ((h0 + i*h1) mod 2^64 >> 1) mod capacity, i = 1..num_hashes *)
Definition sp_pos (cap h0 h1 i : Z) : Z := (((h0 + i * h1) mod 18446744073709551616) / 2) mod cap.
Definition sp_positions (s : sp) (h0 h1 : Z) : list Z :=
  map (fun i => sp_pos (sp_cap s) h0 h1 (Z.of_nat i)) (seq 1 (Z.to_nat (sp_nh s))).
Definition sp_contains (s : sp) (h0 h1 : Z) : bool := forallb (mem (sp_set s)) (sp_positions s h0 h1).
Definition sp_insert (s : sp) (h0 h1 : Z) : sp :=
  mkSp (sp_nh s) (sp_seed s) (fold_left add (sp_positions s h0 h1) (sp_set s)).

Fixpoint map2 (g : bool -> bool -> bool) (a b : list bool) : list bool :=
  match a, b with x :: a', y :: b' => g x y :: map2 g a' b' | _, _ => [] end.
Definition sp_compatible (a b : sp) : bool :=
  (sp_cap a =? sp_cap b) && (sp_nh a =? sp_nh b) && (sp_seed a =? sp_seed b).

(* bits of a byte string, least significant bit of each byte first *)
Fixpoint byte_bits (n : nat) (b : Z) : list bool :=
  match n with O => [] | S n' => Z.odd b :: byte_bits n' (b / 2) end.
Definition bits_of_bytes (bs : list Z) : list bool := flat_map (byte_bits 8) bs.
Fixpoint le_valZ (l : list Z) : Z := match l with [] => 0 | b :: r => b + 256 * le_valZ r end.
Definition beqb_list (a b : list bool) : bool := list_eqb Bool.eqb a b.

(* what a serialized image says about the set (Appendix A of DESIGN.md): flags bit 2 = empty form *)
Definition image_empty (bs : list Z) : bool := Z.odd (nth 3 bs 0 / 4).
Definition image_count (bs : list Z) : Z := le_valZ (firstn 8 (skipn 24 bs)).
Definition image_bits (bs : list Z) : list bool := bits_of_bytes (skipn 32 bs).

Definition serialize_ok (s : sp) (bs : list Z) : bool :=
  if image_empty bs then card (sp_set s) =? 0
  else beqb_list (image_bits bs) (sp_set s) && (image_count bs =? card (sp_set s)).

(* a foreign image: the state it denotes according to the layout specification
   (Spec/BloomLayout.v: spec_decode), None when the specification does not accept it *)
Definition sp_of_abs (d : bloom_abs) : sp := mkSp (Nz (a_nh d)) (Nz (a_seed d)) (spec_set (a_words d)).
Definition image_spec (bs : list Z) : option sp :=
  match spec_decode (map zN bs) with Some d => Some (sp_of_abs d) | None => None end.
(* the slot after the crate ACCEPTED an image: the state the specification reads from it *)
Definition image_slot (bs : list Z) : sslot :=
  match image_spec bs with Some s => SKnown s | None => SUnknown end.

(* C12 + C18 on one serialize() observation: the independent layout decoder recovers exactly the
   Spec's state (configuration, bit set, cardinality), and the image has the size the
   configuration dictates: 24 bytes for the empty set, else 32 + 8 bytes per word *)
Definition layout_ok (s : sp) (ob : list Z) : bool :=
  match spec_decode (map zN ob) with
  | Some d => (Nz (a_nh d) =? sp_nh s) && (Nz (a_seed d) =? sp_seed s) && (64 * Nz (a_nw d) =? sp_cap s)
              && beqb_list (spec_set (a_words d)) (sp_set s) && (Nz (a_count d) =? card (sp_set s))
              && (Z.of_nat (length ob) =? (if card (sp_set s) =? 0 then 24 else 32 + sp_cap s / 8))
  | None => false
  end.

Fixpoint count_spec (s : sp) (l : list Z) (acc : Z) : Z :=
  match l with
  | _ :: h0 :: h1 :: r => count_spec s r (acc + zbool (sp_contains s h0 h1))
  | _ => acc
  end.

(* the documented preconditions, as the Spec knows them: the builder's ranges (bloom/builder.rs: MIN/MAX_NUM_BITS =
   1 .. (2^31 - 1 - 4) * 64, MIN/MAX_NUM_HASHES = 1 .. 32767), with_accuracy's (max_items > 0, 0 < fpp <= 1.0: the bit
   patterns of the positive doubles up to 1.0 are 1 .. 0x3FF0000000000000) *)
Definition new_args_ok (num_bits nh : Z) : bool :=
  (1 <=? num_bits) && (num_bits <=? 137438953152) && (1 <=? nh) && (nh <=? 32767).
Definition accuracy_args_ok (n pbits : Z) : bool :=
  (1 <=? n) && (1 <=? pbits) && (pbits <=? 4607182418800017408).

(* [chk] judges a serialize() observation; [strict] additionally demands that every image the layout
   specification accepts is accepted by the crate (C13).
   Every observation is judged, in full: an observation of the wrong shape, an unexplained EMPTY, ops and observations
   of different lengths, and any PANIC the Spec does not predict (it predicts exactly: builder arguments out of range,
   union / intersect of incompatible filters) make the oracle fail.  A predicted PANIC must be the last observation
   (the harness stops a case at its first panic). *)
Fixpoint prop_from (chk : sp -> list Z -> bool) (strict : bool) (st : ospec) (ops : list zop) (obs : list (list Z)) : bool :=
  match ops, obs with
  | [], [] => true
  | (code, a) :: r, ob :: obr =>
      let slot := nth 0 a 0 in
      (* (a thunk: evaluation is strict in the extracted code) *)
      let continue := fun _ : unit => prop_from chk strict st r obr in
      let panics := list_eqb Z.eqb ob PANIC in
      (* an operation on one slot: EMPTY iff the slot holds nothing; [known s] judges it on a known set *)
      let on_slot (known : sp -> bool) : bool :=
        match og st slot with
        | SEmpty => is_empty_obs ob && continue tt
        | SUnknown => negb panics && continue tt
        | SKnown s => negb panics && known s
        end in
      match norm_code code with
      | 0 => if new_args_ok (nth 1 a 0) (nth 2 a 0)
             then is_nil ob &&
                  prop_from chk strict (op_ st slot (SKnown (mkSp (nth 2 a 0) (nth 3 a 0)
                                        (repeat false (Z.to_nat (64 * ((nth 1 a 0 + 63) / 64))))))) r obr
             else panics && obs_done obr
      | 1 => on_slot (fun s => is_nil ob && prop_from chk strict (op_ st slot (SKnown (sp_insert s (nth 2 a 0) (nth 3 a 0)))) r obr)
      | 2 => on_slot (fun s => list_eqb Z.eqb ob [zbool (sp_contains s (nth 2 a 0) (nth 3 a 0))] && continue tt)
      | 3 => on_slot (fun s => list_eqb Z.eqb ob [zbool (sp_contains s (nth 2 a 0) (nth 3 a 0))]
                               && prop_from chk strict (op_ st slot (SKnown (sp_insert s (nth 2 a 0) (nth 3 a 0)))) r obr)
      | 4 | 5 =>
             let g := if norm_code code =? 4 then orb else andb in
             match og st slot, og st (nth 1 a 0) with
             | SEmpty, _ | _, SEmpty => is_empty_obs ob && continue tt
             | SKnown s, SKnown t =>
                 if sp_compatible s t
                 then is_nil ob && prop_from chk strict (op_ st slot (SKnown (mkSp (sp_nh s) (sp_seed s) (map2 g (sp_set s) (sp_set t))))) r obr
                 else panics && obs_done obr                        (* the documented assertion *)
             | _, _ => if panics then obs_done obr else prop_from chk strict (op_ st slot SUnknown) r obr
             end
      | 6 => on_slot (fun s => is_nil ob && prop_from chk strict (op_ st slot (SKnown (mkSp (sp_nh s) (sp_seed s) (map negb (sp_set s))))) r obr)
      | 7 => on_slot (fun s => is_nil ob && prop_from chk strict (op_ st slot (SKnown (mkSp (sp_nh s) (sp_seed s) (map (fun _ => false) (sp_set s))))) r obr)
      | 8 => on_slot (fun s => list_eqb Z.eqb ob [card (sp_set s)] && continue tt)
      | 9 => on_slot (fun s => chk s ob && continue tt)
      | 10 => on_slot (fun s => list_eqb Z.eqb ob [1] && continue tt)
      | 11 => (* deserialize bytes; a rejected image leaves the slot as it was *)
              if list_eqb Z.eqb ob [1] then prop_from chk strict (op_ st slot (image_slot (skipn 1 a))) r obr
              else list_eqb Z.eqb ob ERR &&
                   (if strict then match image_spec (skipn 1 a) with Some _ => false | None => continue tt end else continue tt)
      | 12 => on_slot (fun s => list_eqb Z.eqb ob [sp_cap s; sp_nh s; sp_seed s; zbool (card (sp_set s) =? 0)] && continue tt)
      | 13 => match og st slot, og st (nth 1 a 0) with
              | SEmpty, _ | _, SEmpty => is_empty_obs ob && continue tt
              | SKnown s, SKnown t => list_eqb Z.eqb ob [zbool (sp_compatible s t)] && continue tt
              | _, _ => negb panics && continue tt
              end
      | 14 => (* sizing is transcendental: take the crate's own answer for capacity / num_hashes - but it must be what
                 the builder documents: at least MIN_NUM_BITS rounded up to whole words, 1 <= num_hashes <= 32767 *)
              if accuracy_args_ok (nth 1 a 0) (nth 2 a 0)
              then match ob with
                   | [c; k] => (64 <=? c) && (c mod 64 =? 0) && (1 <=? k) && (k <=? 32767) &&
                               prop_from chk strict (op_ st slot (SKnown (mkSp k (nth 3 a 0) (repeat false (Z.to_nat c))))) r obr
                   | _ => false
                   end
              else panics && obs_done obr
      | 15 => on_slot (fun s => list_eqb Z.eqb ob [count_spec s (skipn 2 a) 0] && (count_spec s (skipn 2 a) 0 <=? nth 1 a 0) && continue tt)
      | 16 => (* fork: the copy denotes the same set; the round trip of a known state must succeed *)
              match og st slot with
              | SEmpty => is_empty_obs ob && continue tt
              | SKnown s => list_eqb Z.eqb ob [1] && prop_from chk strict (op_ st (nth 1 a 0) (SKnown s)) r obr
              | SUnknown => if list_eqb Z.eqb ob [1] then prop_from chk strict (op_ st (nth 1 a 0) SUnknown) r obr
                            else list_eqb Z.eqb ob ERR && continue tt
              end
      | 17 => (* parse with allocation accounting; the slot is cleared first *)
              if list_eqb Z.eqb ob [1] then prop_from chk strict (op_ st slot (image_slot (skipn 1 a))) r obr
              else (list_eqb Z.eqb ob ERR || list_eqb Z.eqb ob ALLOC) &&
                   (if strict && negb (list_eqb Z.eqb ob ALLOC)
                    then match image_spec (skipn 1 a) with Some _ => false | None => prop_from chk strict (op_ st slot SEmpty) r obr end
                    else prop_from chk strict (op_ st slot SEmpty) r obr)
      | 18 => on_slot (fun s => list_eqb Z.eqb ob [1] && continue tt)      (* no false negatives *)
      | 19 => on_slot (fun s => list_eqb Z.eqb ob [1; if card (sp_set s) =? 0 then 24 else 32 + sp_cap s / 8] && continue tt)
      | _ => false
      end
  | _, _ => false
  end.

Definition prop_with (chk : sp -> list Z -> bool) (strict : bool) (c : case) : bool :=
  prop_from chk strict (repeat SEmpty (Z.to_nat (nth 0 (c_cfg c) 8))) (c_ops c) (c_obs c).

(* C09: the position-set Spec *)
Definition prop_ok : case -> bool := prop_with serialize_ok false.

(* C11: deserialize(serialize(f)) behaves exactly as f (twin oracle); new / deserialize / new_with_accuracy /
   parse re-initialise a slot *)
Definition prop_roundtrip : case -> bool := twin_oracle 16 [0; 11; 14; 17].

(* C12 / C18: every emitted image decodes, with the independent layout decoder, to the Spec's state and
   has the size fixed by the configuration *)
Definition prop_layout : case -> bool := prop_with layout_ok false.

(* C14 / C17: no operation panics or allocates out of proportion, and every value the crate holds
   (in particular one it accepted from untrusted bytes) can be re-serialized and read back *)
Fixpoint usable_from (ops : list zop) (obs : list (list Z)) : bool :=
  match ops, obs with
  | [], [] => true
  | (code, _) :: r, ob :: obr =>
      negb (((code =? 10) || (code =? 16)) && list_eqb Z.eqb ob ERR) && usable_from r obr
  | _, _ => false
  end.
Definition no_panic (c : case) : bool := no_panic_oracle c && usable_from (c_ops c) (c_obs c).

(* C13: every image the layout specification accepts is accepted and denotes the encoded state *)
Definition prop_foreign : case -> bool := prop_with layout_ok true.

(* oracles by number (tools/families/bloom.py: ORACLES) *)
Definition oracles : list (Z * (case -> bool)) :=
  [(0, prop_ok); (1, prop_roundtrip); (2, prop_layout); (3, no_panic); (4, prop_foreign)].
