(* Correspondence driver for the theta family: replays a Z-encoded case on the model and
   yields the observations the Rust harness prints (harness/src/theta.rs); plus the property
   oracles (the KMV Spec, kept independently of the model).  No proofs here.

   cfg = [lg_k; resize-factor lg value (0..3); p as f64 bits (an f32 value widened); seed; seed_hash]
   ops (code, args) -> observation
     1 update   [item; h1]        item: i64 hashed by the crate, h1 = reference murmur h1   -> [n; theta; lg_cur]
     2 insert   [h]               hook verif_insert_hash(h)                                 -> [n; theta; lg_cur]
     3 update2  [lo; hi; h1]      crate: update(u128 = hi<<64|lo), a crafted 16-byte preimage of h1 -> [n; theta; lg_cur]
     4 trim     []                                                                          -> [n; theta; lg_cur]
     5 reset    []                                                                          -> [n; theta; lg_cur]
     6 compact  [ordered]         -> [empty; ordered; theta; est bits; seed_hash; sketch.is_empty; sketch est bits;
                                      unordered entries are in table order (1); n; entries (own order if ordered, else sorted)]
     7 dump     []                -> [theta; n; lg_cur; is_empty; is_estimation_mode; est bits; theta() bits; sorted entries]
     8 layout   []                -> [lg_cur; raw slots]        (oracle only: the model's layout after a rebuild is
                                                                 one valid layout, not the crate's; masked from the tie)
     9 layout0  []                -> [1; raw slots] while theta is at its initial value (no rebuild yet), else [0]
    10 ser      [ordered]         -> bytes of compact(ordered).serialize(); [-1] for unordered after a rebuild
    11 ser_c    [ordered]         -> bytes of compact(ordered).serialize_compressed(); [-1] as for 10
    12 deser    [bytes...]        -> CompactThetaSketch::deserialize_with_seed(bytes, seed): ERR, or the dump
                                     [1; empty; ordered; theta; seed_hash; est bits; n; entries in image order];
                                     the value is kept ("the compact slot") and also queried (estimate, bounds)
    13 reser    [compressed]      -> bytes of serialize() / serialize_compressed() of the compact slot; [-996] if none
    14 rt       [ordered; compressed] -> c := compact(ordered); b := c.serialize[_compressed](); d := deserialize(b);
                                     [L; dump c (L ints); dump d (L ints); bytes of d.serialize[_compressed]() ... ; -2; b ...];
                                     d is kept in the compact slot; [-1] for unordered after a rebuild
    15 rt_slot  [compressed]      -> the same fork applied to the compact slot c (a deserialized value): [-996] if none
    17 deser_seed [seed; seed_hash; bytes...] -> deserialize_with_seed(bytes, seed) with an explicit reader seed (seed_hash = its
                                     reference 16-bit seed hash, 0 for an unusable seed): ERR or the dump as for 12; fills the compact slot
    18 try_build [seed; seed_hash] -> [1] if ThetaSketch::builder().seed(seed).build() returns, [0] if seed() panics (documented for
                                     seeds whose seed hash is zero)
    16 bounds   []                -> the crate evaluates theta(), lower_bound / upper_bound (1, 2, 3 std devs) of the sketch and of
                                     compact(false) (ln/sqrt code: not mirrored; only a panic would show); [is_estimation_mode] *)
From DS Require Import Base.Prelude Base.FloatBits Base.ThetaLib Base.BitExp Base.Oracles Model.Theta Model.ThetaCodec Spec.ThetaLayout.
From Coq Require Import Floats FMapPositive.
Open Scope Z_scope.

Definition cfg_of (cfg : list Z) : tcfg :=
  mkCfg (zN (nth 0 cfg 0)) (zN (nth 1 cfg 0)) (nth 2 cfg 0) (zN (nth 4 cfg 0)).

Definition fbits (f : float) : Z := bits_of_float f.
Definition ONE_BITS_Z : Z := 0x3ff0000000000000.

Definition ob_state (s : tsk) : list Z := [Nz (t_n s); Nz (t_theta s); Nz (t_lg_cur s)].

Definition at_initial_theta (s : tsk) : bool := (t_theta s =? starting_theta (c_pbits (t_cfg s)))%N.

Definition ob_compact (s : tsk) (ordered : bool) : list Z :=
  let c := sk_compact s ordered in
  [zbool (ce_empty c); zbool (ce_ordered c); Nz (ce_theta c); fbits (c_estimate c); Nz (ce_seed_hash c);
   zbool (sk_is_empty s); fbits (sk_estimate s); 1; Nz (c_num_retained c)]
  ++ map Nz (if ce_ordered c then ce_entries c else sortN (ce_entries c)).

Definition ob_dump (s : tsk) : list Z :=
  [Nz (t_theta s); Nz (t_n s); Nz (t_lg_cur s); zbool (sk_is_empty s); zbool (sk_is_estimation_mode s);
   fbits (sk_estimate s); fbits (theta_frac (t_theta s))] ++ map Nz (sortN (sk_entries s)).

(* dump of a compact sketch *)
Definition ob_csk (c : csk) : list Z :=
  [1; zbool (ce_empty c); zbool (ce_ordered c); Nz (ce_theta c); Nz (ce_seed_hash c); fbits (c_estimate c);
   Nz (c_num_retained c)] ++ map Nz (ce_entries c).

Definition ser_of (compressed : bool) (c : csk) : outcome (list N) :=
  if compressed then c_serialize_compressed c else Ok (c_serialize c).

(* the sketch and the compact slot *)
Definition cstate := (tsk * option csk)%type.

Definition step_codec (st : cstate) (o : zop) : option cstate * list Z :=
  let '(s, slot) := st in
  let '(code, a) := o in
  let sh := c_seed_hash (t_cfg s) in
  match code with
  | 11 => let ordered := negb (nth 0 a 0 =? 0) in
          if ordered || at_initial_theta s then
            match c_serialize_compressed (sk_compact s ordered) with
            | Ok b => (Some st, map Nz b)
            | _ => (None, PANIC)
            end
          else (Some st, [-1])
  | 12 => match c_deserialize sh (map zN a) with
          | Ok c => (Some (s, Some c), ob_csk c)
          | Err => (Some (s, None), ERR)
          | Stuck => (None, PANIC)
          end
  | 13 => match slot with
          | None => (Some st, [-996])
          | Some c => match ser_of (negb (nth 0 a 0 =? 0)) c with
                      | Ok b => (Some st, map Nz b)
                      | _ => (None, PANIC)
                      end
          end
  | 14 => let ordered := negb (nth 0 a 0 =? 0) in
          let compressed := negb (nth 1 a 0 =? 0) in
          if ordered || at_initial_theta s then
            let c := sk_compact s ordered in
            match ser_of compressed c with
            | Ok b =>
                match c_deserialize sh b with
                | Ok d =>
                    match ser_of compressed d with
                    | Ok b2 => (Some (s, Some d),
                                Z.of_nat (length (ob_csk c)) :: ob_csk c ++ ob_csk d ++ map Nz b2 ++ [-2] ++ map Nz b)
                    | _ => (None, PANIC)
                    end
                | Err => (Some (s, None), ERR)
                | Stuck => (None, PANIC)
                end
            | _ => (None, PANIC)
            end
          else (Some (s, None), [-1])
  | 16 => (Some st, [zbool (sk_is_estimation_mode s)])
  | 17 => match c_deserialize (zN (nth 1 a 0)) (map zN (skipn 2 a)) with
          | Ok c => (Some (s, Some c), ob_csk c)
          | Err => (Some (s, None), ERR)
          | Stuck => (None, PANIC)
          end
  | 18 => (Some st, [zbool (match sk_build (mkCfg 12 3 ONE_BITS_Z (zN (nth 1 a 0))) with Ok _ => true | _ => false end)])
  | 15 => let compressed := negb (nth 0 a 0 =? 0) in
          match slot with
          | None => (Some st, [-996])
          | Some c =>
              match ser_of compressed c with
              | Ok b =>
                  match c_deserialize sh b with
                  | Ok d =>
                      match ser_of compressed d with
                      | Ok b2 => (Some (s, Some d),
                                  Z.of_nat (length (ob_csk c)) :: ob_csk c ++ ob_csk d ++ map Nz b2 ++ [-2] ++ map Nz b)
                      | _ => (None, PANIC)
                      end
                  | Err => (Some (s, None), ERR)
                  | Stuck => (None, PANIC)
                  end
              | _ => (None, PANIC)
              end
          end
  | _ => (None, PANIC)
  end.

Definition step (st : cstate) (o : zop) : option cstate * list Z :=
  let '(s, slot) := st in
  let '(code, a) := o in
  let keep (r : option tsk * list Z) : option cstate * list Z :=
    (match fst r with Some s' => Some (s', slot) | None => None end, snd r) in
  let upd h := match sk_update ascending s h with Ok s' => (Some s', ob_state s') | _ => (None, PANIC) end in
  if 11 <=? code then step_codec st o else keep
  match code with
  | 1 => upd (hash_of_h1 (zN (nth 1 a 0)))
  | 2 => upd (zN (nth 0 a 0))
  | 3 => upd (hash_of_h1 (zN (nth 2 a 0)))
  | 4 => match sk_trim ascending s with Ok s' => (Some s', ob_state s') | _ => (None, PANIC) end
  | 5 => let s' := sk_reset s in (Some s', ob_state s')
  | 6 => (Some s, ob_compact s (negb (nth 0 a 0 =? 0)))
  | 7 => (Some s, ob_dump s)
  | 8 => (Some s, Nz (t_lg_cur s) :: map Nz (sl_raw (t_slots s) (2 ^ t_lg_cur s)))
  | 9 => (Some s, if at_initial_theta s then 1 :: map Nz (sl_raw (t_slots s) (2 ^ t_lg_cur s)) else [0])
  | 10 => let ordered := negb (nth 0 a 0 =? 0) in
          (Some s, if ordered || at_initial_theta s then map Nz (c_serialize (sk_compact s ordered)) else [-1])
  | _ => (None, PANIC)
  end.

Fixpoint run_from (s : option cstate) (ops : list zop) : list (list Z) :=
  match ops with
  | [] => []
  | o :: r =>
      match s with
      | None => PANIC :: run_from None r
      | Some s0 => let '(s', ob) := step s0 o in ob :: run_from s' r
      end
  end.

Definition run (cfg : list Z) (ops : list zop) : list (list Z) :=
  match sk_build (cfg_of cfg) with
  | Ok s => run_from (Some (s, None)) ops
  | _ => run_from None ops
  end.

(* ====================== property oracles (the Spec, not the model) ======================
   KMV: the oracle keeps the set of hashes offered since the last reset and never looks at the
   model.  After every operation the crate's observation must agree with
      retained = { h offered | 0 < h < theta },  theta non-increasing,
      theta < theta0  ->  more than k distinct offered hashes lie in (0, theta0),
      trim: n' = min n k,  reset: initial state,  compact: same set / emptiness / estimate / theta, sorted when ordered,
      is_empty <-> nothing was offered since the last reset (the repaired code, D5),
      estimate = n / (theta / 2^63) in binary64 (so exactly n while theta = 2^63-1),
      n <= 15/16 * 2^(lg_k+1)  and  n < 2^lg_cur. *)
Open Scope N_scope.
Definition hset := PositiveMap.t unit.
Definition hs_empty : hset := PositiveMap.empty unit.
Definition hs_mem (h : N) (s : hset) : bool := match h with N0 => false | Npos p => PositiveMap.mem p s end.
Definition hs_add (h : N) (s : hset) : hset := match h with N0 => s | Npos p => PositiveMap.add p tt s end.
Definition hs_elems (s : hset) : list N := map (fun kv => Npos (fst kv)) (PositiveMap.elements s).
Definition hs_of_list (l : list N) : hset := fold_left (fun s h => hs_add h s) l hs_empty.

Record ospec := mkO {
  o_theta0 : option N;     (* initial theta, learnt from the first observation *)
  o_theta : N;             (* last observed theta *)
  o_set : hset; o_cnt : N;     (* offered hashes in (0, o_theta), distinct *)
  o_all : hset; o_allcnt : N;  (* offered hashes in (0, theta0), distinct *)
  o_off : bool                 (* something was offered since the last reset *)
}.

Definition MAXT : N := 9223372036854775807.
Definition ONE_BITS : Z := 0x3ff0000000000000.

(* restrict the retained set to a smaller theta *)
Definition restrict (st : ospec) (th : N) : ospec :=
  if th <? o_theta st then
    let l := filter (fun h => h <? th) (hs_elems (o_set st)) in
    mkO (o_theta0 st) th (hs_of_list l) (N.of_nat (length l)) (o_all st) (o_allcnt st) (o_off st)
  else st.

Definition offer (st : ospec) (h : N) : ospec :=
  let th0 := match o_theta0 st with Some t => t | None => 0 end in
  let st1 :=
    if (0 <? h) && (h <? th0) && negb (hs_mem h (o_all st))
    then mkO (o_theta0 st) (o_theta st) (o_set st) (o_cnt st) (hs_add h (o_all st)) (o_allcnt st + 1) true
    else mkO (o_theta0 st) (o_theta st) (o_set st) (o_cnt st) (o_all st) (o_allcnt st) true in
  if (0 <? h) && (h <? o_theta st1) && negb (hs_mem h (o_set st1))
  then mkO (o_theta0 st1) (o_theta st1) (hs_add h (o_set st1)) (o_cnt st1 + 1) (o_all st1) (o_allcnt st1) true else st1.

Definition zget (ob : list Z) (i : nat) : N := zN (nth i ob 0%Z).

(* checks shared by every state-changing operation; returns the new spec state *)
Definition after_change (lgk : N) (st : ospec) (ob : list Z) : bool * ospec :=
  let n := zget ob 0 in let th := zget ob 1 in let lg := zget ob 2 in
  let th0 := match o_theta0 st with Some t => t | None => 0 end in
  let mono := th <=? o_theta st in
  let st' := restrict st th in
  let ok := mono && (n =? o_cnt st')
            && ((th0 <=? th) || (2 ^ lgk <? o_allcnt st'))
            && (16 * n <=? 15 * 2 ^ (lgk + 1)) && (n <? 2 ^ lg) in
  (ok, st').

Fixpoint strictly_sorted (l : list N) : bool :=
  match l with
  | a :: ((b :: _) as r) => (a <? b) && strictly_sorted r
  | _ => true
  end.

Definition est_spec (n th : N) : Z :=
  bits_of_float (PrimFloat.div (float_of_Z63 (Nz n)) (PrimFloat.div (float_of_Z63 (Nz th)) (float_of_Z63 (Nz MAXT)))).

(* The tracker: follows the Spec state through a history using only the crate's observations.
   [chk] switches the KMV checks on (oracle kmv_ok); [extra] judges the remaining operations
   (serialized images: oracles layout12_ok, size_ok) against the Spec state. *)
Fixpoint track_from (chk : bool) (extra : list Z -> ospec -> Z -> list Z -> list Z -> bool)
         (cfg : list Z) (st : ospec) (ops : list zop) (obs : list (list Z)) : bool :=
  match ops, obs with
  | (code, a) :: r, ob :: obr =>
      let lgk := zN (nth 0 cfg 0%Z) in
      if list_eqb Z.eqb ob PANIC then true else
      match o_theta0 st, code with
      | None, 7%Z =>
          (* first dump of the fresh sketch: learn theta0 (must be 2^63-1 when p = 1.0), n = 0 *)
          let th := zget ob 0 in
          (7 <=? length ob)%nat && (negb chk || (((negb (nth 2 cfg 0%Z =? ONE_BITS)%Z) || (th =? MAXT)) && (zget ob 1 =? 0)))
          && track_from chk extra cfg (mkO (Some th) th hs_empty 0 hs_empty 0 false) r obr
      | None, _ => false      (* every case must start with a dump of the fresh sketch (op 7) *)
      | Some th0, 1%Z | Some th0, 2%Z | Some th0, 3%Z =>
          let h := match code with 1%Z => zN (nth 1 a 0%Z) / 2 | 2%Z => zN (nth 0 a 0%Z) | _ => zN (nth 2 a 0%Z) / 2 end in
          (* the hash is screened against the theta in force BEFORE the update *)
          let '(ok, st') := after_change lgk (offer st h) ob in
          Nat.eqb (length ob) 3 && (negb chk || ok) && track_from chk extra cfg st' r obr
      | Some th0, 4%Z =>
          let k := 2 ^ lgk in
          let '(ok, st') := after_change lgk st ob in
          (* retained after trim = min(n, k): checked by every oracle built on the tracker (C04 and C18) *)
          Nat.eqb (length ob) 3 && (zget ob 0 =? N.min (o_cnt st) k) && (negb chk || ok) && track_from chk extra cfg st' r obr
      | Some th0, 5%Z =>
          Nat.eqb (length ob) 3 && (negb chk || ((zget ob 0 =? 0) && (zget ob 1 =? th0)))
          && track_from chk extra cfg (mkO (Some th0) th0 hs_empty 0 hs_empty 0 false) r obr
      | Some th0, 6%Z =>
          let ordered_arg := negb (nth 0 a 0 =? 0)%Z in
          let empty := negb (nth 0 ob 0 =? 0)%Z in let ordered := negb (nth 1 ob 0 =? 0)%Z in
          let th := zget ob 2 in let n := zget ob 8 in
          let es := map zN (skipn 9 ob) in
          let want := sortN (hs_elems (o_set st)) in
          (9 <=? length ob)%nat && (negb chk ||
           ((n =? o_cnt st) && (N.of_nat (length es) =? n)
            && list_eqb N.eqb (if ordered then es else sortN es) want
            && (negb ordered || strictly_sorted es)
            && (negb ordered_arg || ordered)
            && Bool.eqb empty (negb (nth 5 ob 0 =? 0)%Z)             (* same emptiness as the sketch *)
            && Bool.eqb empty (negb (o_off st))                      (* empty <-> nothing offered since the last reset *)
            && (nth 3 ob 0 =? nth 6 ob 0)%Z                          (* same estimate as the sketch *)
            && (if empty then th =? MAXT else th =? o_theta st)      (* same theta when non-empty *)
            && (if empty then (nth 3 ob 0 =? 0)%Z else (nth 3 ob 0 =? est_spec n th)%Z)
            && (nth 7 ob 0 =? 1)%Z))
          && track_from chk extra cfg st r obr
      | Some th0, 7%Z =>
          let th := zget ob 0 in let n := zget ob 1 in
          (7 <=? length ob)%nat && (negb chk ||
           ((th =? o_theta st) && (n =? o_cnt st)
            && list_eqb N.eqb (map zN (skipn 7 ob)) (sortN (hs_elems (o_set st)))
            && Bool.eqb (negb (nth 4 ob 0 =? 0)%Z) (th <? MAXT)
            && Bool.eqb (negb (nth 3 ob 0 =? 0)%Z) (negb (o_off st))   (* is_empty <-> nothing offered since the last reset *)
            && (if o_off st then (nth 5 ob 0 =? est_spec n th)%Z else (nth 5 ob 0 =? 0)%Z)
            && (negb (th =? MAXT) || negb (o_off st) || (nth 5 ob 0 =? bits_of_float (float_of_Z63 (Nz n)))%Z)
            && (16 * n <=? 15 * 2 ^ (lgk + 1)) && (n <? 2 ^ zget ob 2)))
          && track_from chk extra cfg st r obr
      | Some _, _ => extra cfg st code a ob && track_from chk extra cfg st r obr
      end
  | [], _ :: _ => false        (* more observations than operations *)
  | _, [] => true              (* operations after a panic are dropped by the harness *)
  end.

Definition kmv_ok (c : case) : bool :=
  track_from true (fun _ _ _ _ _ => true) (c_cfg c) (mkO None 0 hs_empty 0 hs_empty 0 false) (c_ops c) (c_obs c).

(* ---- C12: the bytes the crate emits (ops 10, 11; the image inside op 14), decoded by the independent
   layout decoder Spec/ThetaLayout.v, must be exactly the abstract state the Spec knows the sketch holds:
   the retained set, theta (2^63-1 when empty), emptiness, the seed hash; sorted when ordered ---- *)
Definition is_marker (ob : list Z) : bool :=
  match ob with [x] => (x <? 0)%Z | _ => false end.

Definition abs_matches (cfg : list Z) (st : ospec) (ordered_arg : bool) (d : tabs) : bool :=
  let empty := negb (o_off st) in
  abs_okb d
  && list_eqb N.eqb (sortN (a_entries d)) (sortN (hs_elems (o_set st)))
  && (a_theta d =? (if empty then MAXT else o_theta st))
  && Bool.eqb (a_empty d) empty
  && (a_seed_hash d =? zN (nth 4 cfg 0%Z))
  && (negb ordered_arg || a_ordered d).

(* the image b of op 14: everything after the marker -2 *)
Fixpoint after_marker (l : list Z) : list Z :=
  match l with [] => [] | x :: r => if (x =? -2)%Z then r else after_marker r end.

Definition layout12_extra (cfg : list Z) (st : ospec) (code : Z) (a ob : list Z) : bool :=
  if is_marker ob then true
  else if (code =? 10)%Z || (code =? 11)%Z || (code =? 14)%Z then
    let bytes := map zN (if (code =? 14)%Z then after_marker ob else ob) in
    match dec_spec (zN (nth 4 cfg 0%Z)) bytes with
    | Some d => abs_matches cfg st (negb (nth 0 a 0 =? 0)%Z) d
    | None => false
    end
  else true.

Definition layout12_ok (c : case) : bool :=
  track_from false layout12_extra (c_cfg c) (mkO None 0 hs_empty 0 hs_empty 0 false) (c_ops c) (c_obs c).

(* ---- C18: sizes.  The uncompressed image has 8 * preLongs + 8 * retained bytes with
   retained <= 15/16 * 2^(lg_k+1); the compressed one is never longer ---- *)
Definition size_extra (cfg : list Z) (st : ospec) (code : Z) (a ob : list Z) : bool :=
  if is_marker ob then true
  else
    let lgk := zN (nth 0 cfg 0%Z) in
    let n := o_cnt st in
    let empty := negb (o_off st) in
    let est := negb empty && (o_theta st <? MAXT) in
    let pre := if est then 3 else if empty || (n =? 1) then 1 else 2 in
    let v3len := 8 * pre + 8 * n in
    if (code =? 10)%Z then (N.of_nat (length ob) =? v3len) && (16 * n <=? 15 * 2 ^ (lgk + 1))
    else if (code =? 11)%Z then (N.of_nat (length ob) <=? v3len)
    else true.

Definition size_ok (c : case) : bool :=
  track_from false size_extra (c_cfg c) (mkO None 0 hs_empty 0 hs_empty 0 false) (c_ops c) (c_obs c).

(* ---- C11: ops 14 / 15 fork a compact sketch (compact(ordered) of the sketch / the deserialized value in
   the compact slot) through serialize / deserialize: the copy must answer every query as the original
   and re-serialize to the same bytes ---- *)
Fixpoint before_marker (l : list Z) : list Z :=
  match l with [] => [] | x :: r => if (x =? -2)%Z then [] else x :: before_marker r end.

Fixpoint rt_from (ops : list zop) (obs : list (list Z)) : bool :=
  match ops, obs with
  | (code, a) :: r, ob :: obr =>
      (if ((code =? 14)%Z || (code =? 15)%Z) && negb (list_eqb Z.eqb ob PANIC) && negb (list_eqb Z.eqb ob [(-1)%Z])
          && negb (list_eqb Z.eqb ob [(-996)%Z]) then
         match ob with
         | l :: rest =>
             let L := Z.to_nat l in
             let d1 := firstn L rest in let d2 := firstn L (skipn L rest) in
             let tail := skipn (L + L) rest in
             negb (l <? 0)%Z && list_eqb Z.eqb d1 d2 && list_eqb Z.eqb (before_marker tail) (after_marker tail)
         | [] => false
         end
       else true) && rt_from r obr
  | [], _ :: _ => false
  | _, [] => true
  end.
Definition roundtrip_ok (c : case) : bool := rt_from (c_ops c) (c_obs c).

(* ---- C13: an image that is valid under the format (the independent decoder reads it, the decoded
   state is a theta sketch, the seed hash is the reader's) MUST be accepted and read back to
   exactly that state; then re-serialized (op 13) it must decode to the same state again ---- *)
Definition dump_matches (d : tabs) (ob : list Z) : bool :=
  (7 <=? length ob)%nat && (nth 0 ob 0 =? 1)%Z
  && Bool.eqb (negb (nth 1 ob 0 =? 0)%Z) (a_empty d)
  && ((N.of_nat (length (a_entries d)) <? 2) || Bool.eqb (negb (nth 2 ob 0 =? 0)%Z) (a_ordered d))
  && (zget ob 3 =? a_theta d) && (zget ob 4 =? a_seed_hash d)
  && (zget ob 6 =? N.of_nat (length (a_entries d)))
  && list_eqb N.eqb (map zN (skipn 7 ob)) (a_entries d)
  && (if a_empty d then (nth 5 ob 0 =? 0)%Z else (nth 5 ob 0 =? est_spec (N.of_nat (length (a_entries d))) (a_theta d))%Z).

Fixpoint foreign_from (sh : N) (cur : option tabs) (ops : list zop) (obs : list (list Z)) : bool :=
  match ops, obs with
  | (code, a) :: r, ob :: obr =>
      if list_eqb Z.eqb ob PANIC then true else
      if (code =? 12)%Z then
        match dec_spec sh (map zN a) with
        | Some d =>
            if abs_okb d && (a_seed_hash d =? sh)
            then dump_matches d ob && foreign_from sh (Some d) r obr
            else foreign_from sh None r obr
        | None => foreign_from sh None r obr
        end
      else if (code =? 13)%Z then
        (match cur with
         | Some d =>
             match dec_spec sh (map zN ob) with
             | Some d' => list_eqb N.eqb (a_entries d') (a_entries d) && (a_theta d' =? a_theta d)
                          && Bool.eqb (a_empty d') (a_empty d) && (a_seed_hash d' =? a_seed_hash d)
             | None => false
             end
         | None => true
         end) && foreign_from sh cur r obr
      else if (code =? 14)%Z || (code =? 17)%Z then foreign_from sh None r obr
      else foreign_from sh cur r obr
  | [], _ :: _ => false
  | _, [] => true
  end.
Definition foreign_ok (c : case) : bool := foreign_from (zN (nth 4 (c_cfg c) 0%Z)) None (c_ops c) (c_obs c).

(* ---- C14: no panic, no runaway allocation; whatever deserialize returns as Ok is a theta sketch
   (entries in (0, theta), theta in [1, 2^63-1], ascending when it says ordered, flagged empty only
   without entries and with theta = 2^63-1); and forked through either writer (op 15) it comes back
   unchanged (judged by roundtrip_ok, listed in the C14 leg as well) ---- *)
Definition ok_dump_wf (ob : list Z) : bool :=
  let th := zget ob 3 in let es := map zN (skipn 7 ob) in
  (7 <=? length ob)%nat && (0 <? th) && (th <=? MAXT) && forallb (fun h => (0 <? h) && (h <? th)) es
  && ((nth 2 ob 0 =? 0)%Z || strictly_sorted es) && (zget ob 6 =? N.of_nat (length es))
  && ((nth 1 ob 0 =? 0)%Z || ((zget ob 6 =? 0) && (th =? MAXT))).      (* empty => no entries, theta = 2^63-1 *)

Fixpoint wf_from (ops : list zop) (obs : list (list Z)) : bool :=
  match ops, obs with
  | (code, a) :: r, ob :: obr =>
      (if ((code =? 12)%Z || (code =? 17)%Z) && (nth 0 ob 0 =? 1)%Z then ok_dump_wf ob else true)
      (* a reader seed whose seed hash is zero must be answered with Err; the builder must refuse exactly those seeds *)
      && (if (code =? 17)%Z && (nth 1 a 0 =? 0)%Z then list_eqb Z.eqb ob ERR else true)
      && (if (code =? 18)%Z then list_eqb Z.eqb ob [zbool (negb (nth 1 a 0 =? 0)%Z)] else true)
      && wf_from r obr
  | [], _ :: _ => false
  | _, [] => true
  end.
Definition no_panic (c : case) : bool := no_panic_oracle c && wf_from (c_ops c) (c_obs c).

(* Layout Spec (Appendix B.2 of DESIGN.md), evaluated on the crate's raw slot array: every
   stored key x sits on its own probe path  p_j(x) = (x + j * (2*((x >> lg) & 127) + 1)) mod 2^lg
   and every slot before it on that path is occupied by a different key. *)
Definition slot_map (raw : list N) : slots :=
  snd (fold_left (fun acc v => let '(i, m) := acc in (i + 1, if v =? 0 then m else sl_set m i v)) raw (0, sl_empty)).

Fixpoint path_ok (fuel : nat) (m : slots) (size x stride idx target : N) : bool :=
  match fuel with
  | O => false
  | S f =>
      if idx =? target then true
      else
        let v := sl_get m idx in
        if (v =? 0) || (v =? x) then false
        else path_ok f m size x stride ((idx + stride) mod size) target
  end.

Definition layout_check (lg : N) (raw : list N) : bool :=
  let size := 2 ^ lg in
  let m := slot_map raw in
  (N.of_nat (length raw) =? size) &&
  forallb (fun i =>
    let x := sl_get m i in
    (x =? 0) || path_ok (N.to_nat size) m size x (2 * ((x / 2 ^ lg) mod 128) + 1) (x mod size) i)
    (rangeN (N.to_nat size) 0).

Fixpoint layout_from (ops : list zop) (obs : list (list Z)) : bool :=
  match ops, obs with
  | (code, a) :: r, ob :: obr =>
      (if (code =? 8)%Z && negb (list_eqb Z.eqb ob PANIC)
       then layout_check (zget ob 0) (map zN (skipn 1 ob)) else true)
      && layout_from r obr
  | [], _ :: _ => false
  | _, [] => true
  end.

Definition layout_ok (c : case) : bool := layout_from (c_ops c) (c_obs c).

(* oracles by number (tools/families/theta.py: ORACLES) *)
Definition oracles : list (Z * (case -> bool)) :=
  [(0%Z, kmv_ok); (1%Z, layout_ok); (2%Z, roundtrip_ok); (3%Z, layout12_ok); (4%Z, foreign_ok); (5%Z, no_panic); (6%Z, size_ok)].
