(* Correspondence driver and oracles of the bounds family (property C01).
   Ops and observations: see harness/src/bounds.rs.  The model cannot produce the crate's estimate of an
   out-of-order / merged sketch (ln, powf), so [run] yields no observation of its own; instead
     - [prop_ok]  evaluates the PROPERTY on the crate's observations: no NaN, lb3 <= lb2 <= lb1 <= est <= ub1 <= ub2 <= ub3
                  in every state, an empty sketch estimates 0, a theta sketch in exact mode reports exactly the number of
                  distinct items for estimate and every bound, and a sampling theta sketch that was offered items never
                  reports an upper bound of 0;
     - [tie_ok]   (a tie oracle: a failure is a broken correspondence) recomputes every bound with the model's functions
                  (Model/Bounds.v, the functions the theorems of Props/C01.v are about) from the crate's own estimate and
                  demands bit-for-bit equality, and equality of the estimate itself wherever the model has it. *)
From DS Require Import Base.Prelude Base.FloatBits Model.Bounds.
From DS Require Model.HllEst Model.Composite.
From Coq Require Import Floats.
Open Scope Z_scope.

Definition run (cfg : list Z) (ops : list zop) : list (list Z) := map (fun _ => []) ops.

Definition F (z : Z) : float := float_of_bits z.
Definition not_nan (z : Z) : bool := negb (is_nan_bits z).
Fixpoint chain (l : list Z) : bool :=
  match l with
  | a :: ((b :: _) as r) => PrimFloat.leb (F a) (F b) && chain r
  | _ => true
  end.
(* [est; lb1; lb2; lb3; ub1; ub2; ub3] *)
Definition seven_ok (o : list Z) : bool :=
  match o with
  | [e; l1; l2; l3; u1; u2; u3] => forallb not_nan o && chain [l3; l2; l1; e; u1; u2; u3]
  | _ => false
  end.
Definition is_err (o : list Z) : bool := list_eqb Z.eqb o ERR.
Definition bz (f : float) : Z := bits_of_float f.
Definition all_eq (v : Z) (l : list Z) : bool := forallb (Z.eqb v) l.

Definition prop_op (op : zop) (o : list Z) : bool :=
  let '(code, a) := op in
  match code with
  | 1 => seven_ok o
  | 2 =>
      (* ... and the estimate is never below the number of coupons collected (HIP and ICON, every branch) *)
      seven_ok o && PrimFloat.leb (u2f (zN (nth 3 a 0))) (F (nth 0 o NAN_BITS))
  | 3 =>
      if is_err o then
        (* the crate may reject only a theta outside (0, 1] *)
        match a with [_; th; _] => negb (PrimFloat.ltb 0 (F th) && PrimFloat.leb (F th) 1) | _ => false end
      else
      match o, a with
      | [l1; l2; l3; u1; u2; u3], [n; th; nds] =>
          let e := bz (PrimFloat.div (u2f (zN n)) (F th)) in
          forallb not_nan o &&
          (if nds =? 0 then chain [l3; l2; l1; e; u1; u2; u3] else chain [l3; l2; l1; e] && chain [u1; u2; u3])
      | _, _ => false
      end
  | 7 => forallb not_nan o && PrimFloat.leb 0 (F (nth 2 o 0))
  | 4 =>
      (10 <=? Z.of_nat (length o)) && seven_ok (firstn 7 o) &&
      (* an empty sketch estimates 0 with both bounds 0 *)
      (if nth 7 o 0 =? 0 then true else all_eq 0 (firstn 7 o))
  | 5 =>
      (10 <=? Z.of_nat (length o)) && seven_ok (firstn 7 o) &&
      (if nth 7 o 0 =? 0 then true else all_eq 0 (firstn 7 o)) &&
      PrimFloat.leb (u2f (zN (nth 8 o 0))) (F (nth 0 o NAN_BITS))
  | 10 =>
      (* a CPC image: whatever the reader accepts must report ordered, nested bounds and an estimate >= its coupon count,
         and CpcWrapper must agree with the sketch *)
      if is_err o then true else
      (17 <=? Z.of_nat (length o)) && seven_ok (firstn 7 o) &&
      PrimFloat.leb (u2f (zN (nth 8 o 0))) (F (nth 0 o NAN_BITS)) &&
      list_eqb Z.eqb (firstn 7 o) (firstn 7 (skipn 10 o))
  | 9 =>
      (* HllUnion's own estimate and bounds are ordered and nested, and they are those of its result sketch *)
      (15 <=? Z.of_nat (length o)) && seven_ok (firstn 7 o) && seven_ok (firstn 7 (skipn 7 o)) &&
      list_eqb Z.eqb (firstn 7 o) (firstn 7 (skipn 7 o))
  | 6 =>
      match a with
      | [lgk; n; seed; p; mode] =>
          seven_ok (firstn 7 o) &&
          let nret := nth 7 o 0 in let th := nth 8 o 0 in
          (* exact mode (the sketch reports theta = MAX_THETA, whatever its sampling probability): estimate and every bound
             are exactly the number of distinct items offered *)
          (if (th =? Nz MAX_THETA) then all_eq (bz (u2f (zN n))) (firstn 7 o) && (nret =? n) else true) &&
          (* items were offered to a sampling sketch: the upper bound must not claim "certainly nothing" *)
          (if (0 <? n) && (th <? Nz MAX_THETA) then PrimFloat.ltb 0 (F (nth 4 o 0)) else true)
      | _ => false
      end
  | _ => true
  end.

Fixpoint all2 (f : zop -> list Z -> bool) (ops : list zop) (obs : list (list Z)) : bool :=
  match ops, obs with
  | op :: r, o :: ro => f op o && all2 f r ro
  | [], [] => true
  | _, _ => false          (* an operation without an observation (or vice versa) is never "fine" *)
  end.
Definition prop_ok (c : case) : bool := all2 prop_op (c_ops c) (c_obs c).

(* ---- tie: the model's bound functions applied to the crate's estimate ---- *)
Definition hll_bounds_of (lgk : N) (ooo : bool) (e : float) : list Z :=
  map (fun s => bz (hll_lower lgk ooo s e)) [1; 2; 3]%N ++ map (fun s => bz (hll_upper lgk ooo s e)) [1; 2; 3]%N.
Definition cpc_bounds_of (icon : bool) (lgk c : N) (e : float) : list Z :=
  map (fun s => bz (cpc_lower icon lgk c s e)) [1; 2; 3]%N ++ map (fun s => bz (cpc_upper icon lgk c s e)) [1; 2; 3]%N.
Definition zeqb_list := list_eqb Z.eqb.
Definition opt_eq (m : option float) (z : Z) : bool := match m with Some f => bz f =? z | None => true end.

Definition at_ (o : list Z) (i : N) : Z := nth (N.to_nat i) o (-1).
Definition SDS : list N := [1; 2; 3]%N.

Definition theta_bounds_match (empty : bool) (n th64 : N) (o : list Z) : bool :=
  (* o = [lb1; lb2; lb3; ub1; ub2; ub3] *)
  let th := theta_frac th64 in
  let est_mode := N.ltb th64 MAX_THETA in
  forallb (fun s : N =>
             opt_eq (option_map (fun raw => theta_lower_of n th64 raw) (approx_lb n th s)) (at_ o (s - 1)) &&
             (if est_mode then true else (bz (u2f n) =? at_ o (s - 1)))) SDS &&
  forallb (fun s : N =>
             (if empty && est_mode then (at_ o (s + 2) =? 0)
              else opt_eq (option_map (fun raw => theta_upper_of empty n th64 raw) (approx_ub n th s)) (at_ o (s + 2))) &&
             (if est_mode then true else (bz (u2f n) =? at_ o (s + 2)))) SDS.

Definition tie_op (op : zop) (o : list Z) : bool :=
  let '(code, a) := op in
  match code with
  | 1 =>
      match a, o with
      | [lgk; ooo; hip; _; _; _; _], e :: rest =>
          (if ooo =? 0 then canon_bits hip =? e else true) &&
          zeqb_list rest (hll_bounds_of (zN lgk) (negb (ooo =? 0)) (F e))
      | _, _ => false
      end
  | 2 =>
      match a, o with
      | [mf; hip; lgk; c], e :: rest =>
          (if mf =? 0 then canon_bits hip =? e else opt_eq (icon_estimate (zN lgk) (zN c)) e) &&
          zeqb_list rest (cpc_bounds_of (negb (mf =? 0)) (zN lgk) (zN c) (F e))
      | _, _ => false
      end
  | 3 =>
      if is_err o then true else
      match a with
      | [n; th; nds] =>
          forallb (fun s : N => opt_eq (option_map (fun raw => bb_lower_of (zN n) (F th) raw) (approx_lb (zN n) (F th) s))
                                       (at_ o (s - 1))) SDS &&
          forallb (fun s : N => if nds =? 0
                                then opt_eq (option_map (fun raw => bb_upper_of (zN n) (F th) raw false) (approx_ub (zN n) (F th) s))
                                            (at_ o (s + 2))
                                else at_ o (s + 2) =? 0) SDS
      | _ => false
      end
  | 4 =>
      (* coupon mode: estimate and bounds are functions of the coupon count (hll/container.rs);
         array mode: the bounds are hll_lower / hll_upper of the crate's estimate for the sketch's own out-of-order flag *)
      match a, o with
      | [lgk; _; _; _; _], e :: rest =>
          let mode := nth 7 rest 0 in let x := nth 8 rest 0 in
          let b := firstn 6 rest in
          if mode <? 2 then
            (bz (HllEst.container_estimate (zN x)) =? e) &&
            zeqb_list b (map (fun s => bz (HllEst.container_lower_bound (zN x) s)) SDS ++
                         map (fun s => bz (HllEst.container_upper_bound (zN x) s)) SDS)
          else zeqb_list b (hll_bounds_of (zN lgk) (negb (x =? 0)) (F e))
      | _, _ => false
      end
  | 5 =>
      (* the bounds are those of the estimator the sketch's merge flag selects (HIP / ICON), for its own coupon count;
         the ICON estimate itself is recomputed on the polynomial branch *)
      match a, o with
      | [lgk; _; _; _], e :: rest =>
          let c := nth 7 rest (-1) in
          let icon := negb (nth 8 rest 0 =? 0) in
          (0 <=? c) && zeqb_list (firstn 6 rest) (cpc_bounds_of icon (zN lgk) (zN c) (F e)) &&
          (if icon then opt_eq (icon_estimate (zN lgk) (zN c)) e else true)
      | _, _ => false
      end
  | 6 =>
      match o with
      | e :: rest =>
          let nret := zN (nth 6 rest 0) in let th := zN (nth 7 rest 0) in let empty := negb (nth 8 rest 0 =? 0) in
          (bz (theta_estimate empty nret th) =? e) && theta_bounds_match empty nret th (firstn 6 rest)
      | _ => false
      end
  | 7 =>
      (* raw HLL estimate recomputed from kxq0 + kxq1; composite estimate recomputed from the raw estimate and the crate's
         bitmap estimate (which needs ln and is not modelled) *)
      match a, o with
      | [lgk; q0; q1; _; _], [raw; lin; comp] =>
          (bz (Composite.raw_estimate (zN lgk) (F q0) (F q1)) =? raw) &&
          (bz (Composite.composite_of (zN lgk) (F raw) (F lin)) =? comp)
      | _, _ => false
      end
  | _ => true
  end.
Definition tie_ok (c : case) : bool := all2 tie_op (c_ops c) (c_obs c).

(* ---- Monte Carlo SEARCH oracle (a statistical test, used only to look for a failing configuration after a proof or the
        tie broke; never counted as an obligation): mean relative error within z standard errors (+ a tolerated systematic
        bias) of 0, and the s-sigma interval covering the truth at no less than the nominal rate
        minus 4 binomial standard errors ---- *)
Definition mc_op (z : float) (op : zop) (o : list Z) : bool :=
  let '(code, a) := op in
  if negb (code =? 8) then true else
  match o with
  | [t; sum; sumsq; c1; c2; c3] =>
      if t <? 100 then true else
      let tf := u2f (zN t) in
      let mean := PrimFloat.div (F sum) tf in
      let var := PrimFloat.sub (PrimFloat.div (F sumsq) tf) (PrimFloat.mul mean mean) in
      let se := PrimFloat.sqrt (PrimFloat.div (if PrimFloat.ltb var 0 then 0%float else var) tf) in
      (* tolerated systematic bias of the fitted estimators: 0.2 % + 5 % of 1/sqrt(k) (they are visibly biased at k = 16) *)
      let k := pow2f (zN (nth 1 a 0)) in
      let bias := PrimFloat.add 0x1.0624dd2f1a9fcp-9%float (PrimFloat.div 0x1.999999999999ap-5%float (PrimFloat.sqrt k)) in
      let slack := PrimFloat.add (PrimFloat.mul z se) bias in
      let cov_ok (c : Z) (nominal : float) :=
        let sd := PrimFloat.sqrt (PrimFloat.div (PrimFloat.mul nominal (PrimFloat.sub 1 nominal)) tf) in
        PrimFloat.leb (PrimFloat.sub nominal (PrimFloat.mul z sd)) (PrimFloat.div (u2f (zN c)) tf) in
      PrimFloat.leb (PrimFloat.abs mean) slack &&
      cov_ok c1 0x1.5d8c7e28240b8p-1%float && cov_ok c2 0x1.e8b4395810625p-1%float && cov_ok c3 0x1.fe9e1b089a027p-1%float
  | _ => false
  end.
(* 4 sigma while searching for a failing configuration, 5 sigma for the always-on labelled test *)
Definition mc_ok (c : case) : bool := all2 (mc_op 4) (c_ops c) (c_obs c).
Definition mc_ok5 (c : case) : bool := all2 (mc_op 5) (c_ops c) (c_obs c).

Definition oracles : list (Z * (case -> bool)) := [(0, prop_ok); (1, tie_ok); (2, mc_ok); (3, mc_ok5)].
