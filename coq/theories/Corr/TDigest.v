(* Correspondence driver + oracles for the t-digest family (C10, C15).  No proofs here.

   The crate computes in binary64, the model in exact rationals, and the crate's merge
   decisions depend on ln.  Hence three pieces:
   * [run]     : the EXACT part of the behaviour (k, total_weight, min, max, is_empty, the
                 Ok/Err of deserialize), compared observation by observation (op-code mask);
   * [tie_ok]  : oracle 1 -- the model follows the crate through the whole case: every
                 do_merge pass the crate performs is validated with [valid_merge]
                 (translation validation: centroid dumps before/after), the validated result
                 is adopted, and every rank / quantile / cdf / pmf answer of the crate is
                 compared with the exact Q model within 1e-9 (bits -> exact Q);
   * [prop_ok] : oracle 0 -- property C10 evaluated on the crate's observations alone;
   * [c15_ok]  : oracle 2 -- property C15 (structural part + the measured 2k+30 bound) on
                 the crate's centroid dumps.

   op codes (first argument is always the slot):
     0 new k | 1 update bits | 2 merge src (obs: dump of dst, [] when src is empty)
     3 rank mode v.. | 4 quantile mode q.. | 5 cdf mode s.. | 6 pmf mode s..   (mode 0 = TDigestMut,
       1 = clone().freeze() -> TDigest); answers as f64 bits, None = -2
     7 total_weight | 8 min_value | 9 max_value | 10 is_empty | 17 k
     11 dump (serialize() parsed: compresses) | 12 peek (clone().serialize() parsed)
     14 roundtrip (deserialize(serialize())) | 15 deserialize bytes.. | 16 freeze().unfreeze() (obs: dump)
     18 rq q.. (obs: x1 r1 x2 r2 ..  with x = quantile(q), r = rank(x))
     19 fork src dst (dst := deserialize(serialize(src)); obs [1]) | 20 image (obs: the bytes of serialize())
     21 deserialize_f32 bytes.. (is_f32 = true)
   dump = [k; reverse_merge; n; min; max; mean_0; weight_0; ...] (bits; min = max = -2 when n = 0) *)
From Coq Require Import QArith Qabs.
From DS Require Import Base.Prelude Base.Oracles Base.TDigestBits Model.TDigest Model.TDigestCodec Spec.TDigestSpec Spec.TDigestLayout.
From DS Require Gen.GenTDigest Gen.GenCodec.
Open Scope Z_scope.

Definition NONE : Z := -2.
Definition ONE_BITS : Z := 0x3ff0000000000000.

(* ---------- binary64 bit pattern -> exact rational ---------- *)
Fixpoint strip2 (fuel : nat) (m e : Z) : Z * Z :=
  match fuel with
  | O => (m, e)
  | S f => if (e <? 0) && Z.even m && negb (m =? 0) then strip2 f (m / 2) (e + 1) else (m, e)
  end.

Definition is_nan_b (b : Z) : bool :=
  (Z.land (Z.shiftr b 52) 0x7ff =? 0x7ff) && negb (Z.land b 0xfffffffffffff =? 0).
Definition is_inf_b (b : Z) : bool :=
  (Z.land (Z.shiftr b 52) 0x7ff =? 0x7ff) && (Z.land b 0xfffffffffffff =? 0).

Definition Q_of_bits (b : Z) : option Q :=
  let s := Z.testbit b 63 in
  let e := Z.land (Z.shiftr b 52) 0x7ff in
  let m := Z.land b 0xfffffffffffff in
  if (b <? 0) || (e =? 0x7ff) then None else
  let '(mant, ex) := if e =? 0 then strip2 60 m (-1074) else strip2 60 (m + 0x10000000000000) (e - 1075) in
  let mag := if 0 <=? ex then inject_Z (mant * 2 ^ ex) else Qmake mant (Z.to_pos (2 ^ (- ex))) in
  Some (if s then Qopp mag else mag).

(* total order on bit patterns of non-NaN doubles (for ulp distances) *)
Definition ord_bits (b : Z) : Z := if b <? 0x8000000000000000 then b else - (b - 0x8000000000000000).

Definition qle (a b : Q) : bool := Qle_bool a b.
Definition qeq (a b : Q) : bool := Qeq_bool a b.
Definition EPS : Q := (1 # 1000000000)%Q.
Definition close_to (scale : Q) (a b : Q) : bool :=
  Qle_bool (Qabs (a - b)) (EPS * Qmaxq 1 scale).

Fixpoint all_some {A} (l : list (option A)) : option (list A) :=
  match l with
  | [] => Some []
  | Some x :: r => match all_some r with Some t => Some (x :: t) | None => None end
  | None :: _ => None
  end.

(* ---------- dumps ---------- *)
Record dump := mkDump { d_k : Z; d_rev : bool; d_min : option Q; d_max : option Q; d_cs : list centroid }.

Fixpoint parse_cs (n : nat) (l : list Z) : option (list centroid) :=
  match n with
  | O => match l with [] => Some [] | _ => None end
  | S n' =>
      match l with
      | m :: w :: r =>
          match Q_of_bits m with
          | Some q => if 0 <? w then match parse_cs n' r with Some t => Some ((q, Z.to_pos w) :: t) | None => None end
                      else None
          | None => None
          end
      | _ => None
      end
  end.

Definition parse_dump (ob : list Z) : option dump :=
  match ob with
  | k :: rv :: n :: mn :: mx :: r =>
      match parse_cs (Z.to_nat n) r with
      | Some cs =>
          if n =? 0 then Some (mkDump k (negb (rv =? 0)) None None cs)
          else match Q_of_bits mn, Q_of_bits mx with
               | Some a, Some b => Some (mkDump k (negb (rv =? 0)) (Some a) (Some b) cs)
               | _, _ => None
               end
      | None => None
      end
  | _ => None
  end.

Definition oq_eq (a b : option Q) : bool :=
  match a, b with Some x, Some y => qeq x y | None, None => true | _, _ => false end.
Definition c_eq (a b : centroid) : bool := qeq (fst a) (fst b) && Pos.eqb (snd a) (snd b).

Definition dump_matches (d : td) (D : dump) : bool :=
  (td_k d =? d_k D) && Bool.eqb (td_rev d) (d_rev D) && oq_eq (td_min d) (d_min D) && oq_eq (td_max d) (d_max D)
  && list_eqb c_eq (td_cs d) (d_cs D).

(* ---------- deserialize: the byte-level model (Model/TDigestCodec.v), values read back as rationals ---------- *)
Definition u_le (n : nat) (bs : list Z) (off : nat) : Z :=
  Nz (le_val (map zN (firstn n (skipn off bs)))).

Definition pair_of_bits (c : N * N) : option centroid :=
  match Q_of_bits (Nz (fst c)) with
  | Some q => if (0 <? snd c)%N then Some (q, Z.to_pos (Nz (snd c))) else None
  | None => None
  end.

(* None = a state the rational model cannot hold (infinite min / max) *)
Definition td_of_tdb (s : tdb) : option td :=
  match all_some (map pair_of_bits (b_cs s)), all_some (map (fun b => Q_of_bits (Nz b)) (b_buf s)) with
  | Some cs, Some vals =>
      match b_cs s, b_buf s with
      | [], [] => Some (mkTd (Nz (b_k s)) (b_rev s) None None [] 0 [])
      | _, _ => match Q_of_bits (Nz (b_min s)), Q_of_bits (Nz (b_max s)) with
                | Some mn, Some mx => Some (mkTd (Nz (b_k s)) (b_rev s) (Some mn) (Some mx) cs (Nz (b_cw s)) vals)
                | _, _ => None
                end
      end
  | _, _ => None
  end.

Definition td_deserialize (is_f32 : bool) (bs : list Z) : option (outcome td) :=
  match tdb_dec is_f32 (map zN bs) with
  | Ok s => match td_of_tdb s with Some d => Some (Ok d) | None => None end
  | Err => Some Err
  | Stuck => Some Stuck
  end.

(* =====================================================================================
   [run]: the exact part.  Per slot: k, number of values held, min / max as bit patterns.
   ===================================================================================== *)
Record spec := mkSpec { sp_k : Z; sp_n : Z; sp_min : option Z; sp_max : option Z; sp_inproc : bool }.
Definition sslots := list (option spec).
Definition sget (st : sslots) (i : Z) : option spec := nth (Z.to_nat i) st None.
Definition sput (st : sslots) (i : Z) (s : spec) : sslots := set_nth (Z.to_nat i) (Some s) st.

Definition bits_lt (a b : Z) : bool :=
  match Q_of_bits a, Q_of_bits b with Some x, Some y => Qltb x y | _, _ => false end.
Definition bmin (a : option Z) (x : Z) : option Z :=
  match a with None => Some x | Some m => Some (if bits_lt x m then x else m) end.
Definition bmax (a : option Z) (x : Z) : option Z :=
  match a with None => Some x | Some m => Some (if bits_lt m x then x else m) end.
Definition bmin2 (a b : option Z) := match b with None => a | Some x => bmin a x end.
Definition bmax2 (a b : option Z) := match b with None => a | Some x => bmax a x end.
Definition obits (a : option Z) : list Z := match a with Some b => [b] | None => [NONE] end.

Definition spec_of_image (is_f32 : bool) (bs : list Z) : outcome spec :=
  match tdb_dec is_f32 (map zN bs) with
  | Ok s => let n := Nz (tdb_total s) in
            if n =? 0 then Ok (mkSpec (Nz (b_k s)) 0 None None false)
            else Ok (mkSpec (Nz (b_k s)) n (Some (Nz (b_min s))) (Some (Nz (b_max s))) false)
  | Err => Err
  | Stuck => Stuck
  end.

(* one step of the exact spec: new state, exact observation (meaningful only for the masked ops),
   and [false] when the case must stop being followed (unsupported image) *)
Definition spec_step (st : sslots) (o : zop) : sslots * list Z :=
  let '(code, a) := o in
  let slot := nth 0 a 0 in
  match code with
  | 0 => let k := nth 1 a 0 in
         if k <? MIN_K then (st, PANIC) else (sput st slot (mkSpec k 0 None None true), [])
  | 1 => match sget st slot with
         | Some s => let b := nth 1 a 0 in
                     if is_nan_b b || is_inf_b b then (st, [])
                     else (sput st slot (mkSpec (sp_k s) (sp_n s + 1) (bmin (sp_min s) b) (bmax (sp_max s) b) (sp_inproc s)), [])
         | None => (st, EMPTY) end
  | 2 => match sget st slot, sget st (nth 1 a 0) with
         | Some s, Some o => if sp_n o =? 0 then (st, [])
                             else (sput st slot (mkSpec (sp_k s) (sp_n s + sp_n o) (bmin2 (sp_min s) (sp_min o))
                                                        (bmax2 (sp_max s) (sp_max o)) (sp_inproc s && sp_inproc o)), [])
         | _, _ => (st, EMPTY) end
  | 7 => match sget st slot with Some s => (st, [sp_n s]) | None => (st, EMPTY) end
  | 8 => match sget st slot with Some s => (st, obits (sp_min s)) | None => (st, EMPTY) end
  | 9 => match sget st slot with Some s => (st, obits (sp_max s)) | None => (st, EMPTY) end
  | 10 => match sget st slot with Some s => (st, [zbool (sp_n s =? 0)]) | None => (st, EMPTY) end
  | 17 => match sget st slot with Some s => (st, [sp_k s]) | None => (st, EMPTY) end
  | 14 => match sget st slot with Some s => (st, [1]) | None => (st, EMPTY) end
  | 15 | 21 => match spec_of_image (code =? 21) (skipn 1 a) with
          | Ok s => (sput st slot s, [1])
          | Err => (st, ERR)
          | Stuck => (st, PANIC)
          end
  | 19 => match sget st slot with
          | Some s => (sput st (nth 1 a 0) s, [1])
          | None => (st, EMPTY) end
  | _ => (st, [])
  end.

Fixpoint run_from (st : sslots) (ops : list zop) : list (list Z) :=
  match ops with
  | [] => []
  | o :: r => let '(st', ob) := spec_step st o in ob :: run_from st' r
  end.

Definition run (cfg : list Z) (ops : list zop) : list (list Z) := run_from (repeat None 8) ops.

(* =====================================================================================
   [tie_ok]: the Q model follows the crate (oracle 1)
   ===================================================================================== *)
Record mslot := mkM { m_td : td; m_pend : option (list centroid) }.
Definition mslots := list (option mslot).
Definition mget (st : mslots) (i : Z) : option mslot := nth (Z.to_nat i) st None.
Definition mput (st : mslots) (i : Z) (d : td) (p : option (list centroid)) : mslots :=
  set_nth (Z.to_nat i) (Some (mkM d p)) st.

Definition has_buf (d : td) : bool := match td_buf d with [] => false | _ => true end.

(* the state after compress(), when it can be determined *)
Definition compressed (m : mslot) : option td :=
  if has_buf (m_td m) then
    match m_pend m with Some out => Some (td_compress_with (m_td m) out) | None => None end
  else Some (m_td m).

Definition obs_of_oq (o : option Q) : option Q := o.

(* compare one model answer with one observed value *)
Definition ans_close (scale : Q) (model : option Q) (ob : Z) : bool :=
  match model with
  | None => ob =? NONE
  | Some b => match Q_of_bits ob with Some a => close_to scale a b | None => false end
  end.

Fixpoint all2 {A B} (f : A -> B -> bool) (l : list A) (m : list B) : bool :=
  match l, m with
  | [], [] => true
  | x :: l', y :: m' => f x y && all2 f l' m'
  | _, _ => false
  end.

Definition view_scale (v : view) : Q := Qmaxq (Qabs (v_min v)) (Qabs (v_max v)).

(* TDigestMut::rank over a list of values (mode 0): early returns do not compress *)
Fixpoint rank_mut (m : mslot) (xs : list Q) (obs : list Z) : option (mslot * bool) :=
  match xs, obs with
  | [], [] => Some (m, true)
  | x :: xs', ob :: obs' =>
      match td_rank_pre (m_td m) x with
      | Some r => match rank_mut m xs' obs' with
                  | Some (m', ok) => Some (m', ans_close 1 r ob && ok)
                  | None => None end
      | None =>
          match compressed m with
          | None => None
          | Some d =>
              match rank (td_view d) x with
              | Ok r => match rank_mut (mkM d None) xs' obs' with
                        | Some (m', ok) => Some (m', ans_close 1 r ob && ok)
                        | None => None end
              | _ => Some (m, false)
              end
          end
      end
  | _, _ => Some (m, false)
  end.

Definition answers (f : Q -> outcome (option Q)) (scale : Q) (xs : list Q) (obs : list Z) : bool :=
  all2 (fun x ob => match f x with Ok r => ans_close scale r ob | _ => false end) xs obs.

Definition list_answer (scale : Q) (r : outcome (option (list Q))) (obs : list Z) : bool :=
  match r with
  | Ok None => list_eqb Z.eqb obs [NONE]
  | Ok (Some l) => all2 (fun b ob => ans_close scale (Some b) ob) l obs
  | _ => false
  end.

Definition in01 (q : Q) : bool := qle 0 q && qle q 1.

(* returns None when the oracle cannot follow (generator contract broken) -> reported as failure *)
Definition tie_step (st : mslots) (o : zop) (ob : list Z) : option (mslots * bool) :=
  let '(code, a) := o in
  let slot := nth 0 a 0 in
  let is_panic := list_eqb Z.eqb ob PANIC in
  match code with
  | 0 => match td_new (nth 1 a 0) with
         | Ok d => Some (mput st slot d None, list_eqb Z.eqb ob [])
         | _ => Some (st, is_panic) end
  | 1 => match mget st slot with
         | None => None
         | Some m =>
             let b := nth 1 a 0 in
             match Q_of_bits b with
             | None => Some (st, list_eqb Z.eqb ob [])
             | Some x =>
                 if td_needs_compress_on_update (m_td m) then
                   match m_pend m with
                   | Some out => Some (mput st slot (td_push (td_compress_with (m_td m) out) x) None, list_eqb Z.eqb ob [])
                   | None => None
                   end
                 else Some (mput st slot (td_push (m_td m) x) None, list_eqb Z.eqb ob [])
             end
         end
  | 2 => match mget st slot, mget st (nth 1 a 0) with
         | Some m, Some mo =>
             let d := m_td m in let o := m_td mo in
             if td_is_empty o then Some (st, list_eqb Z.eqb ob [])
             else match parse_dump ob with
                  | None => Some (st, false)
                  | Some D =>
                      let d' := td_merge_with d o (d_cs D) in
                      Some (mput st slot d' None,
                            valid_merge EPS (td_rev d) (merge_input d o) (d_cs D) && dump_matches d' D)
                  end
         | _, _ => None end
  | 3 => match mget st slot with
         | None => None
         | Some m =>
             let mode := nth 1 a 0 in
             match all_some (map Q_of_bits (skipn 2 a)) with
             | None => Some (st, true)                     (* NaN / infinite argument: not followed *)
             | Some xs =>
                 if mode =? 0 then
                   match rank_mut m xs ob with
                   | Some (m', ok) => Some (set_nth (Z.to_nat slot) (Some m') st, ok)
                   | None => None end
                 else
                   match compressed m with
                   | None => None
                   | Some d => Some (st, answers (rank (td_view d)) 1 xs ob)
                   end
             end
         end
  | 4 => match mget st slot with
         | None => None
         | Some m =>
             let mode := nth 1 a 0 in
             match all_some (map Q_of_bits (skipn 2 a)) with
             | None => Some (st, true)
             | Some qs =>
                 if negb (forallb in01 qs) then Some (st, is_panic) else
                 if td_is_empty (m_td m) then Some (st, forallb (Z.eqb NONE) ob && (length ob =? length qs)%nat) else
                 match compressed m with
                 | None => None
                 | Some d =>
                     let v := td_view d in
                     let st' := if (mode =? 0) && negb (match qs with [] => true | _ => false end)
                                then mput st slot d None else st in
                     Some (st', answers (quantile v) (view_scale v) qs ob)
                 end
             end
         end
  | 5 | 6 =>
         match mget st slot with
         | None => None
         | Some m =>
             let mode := nth 1 a 0 in
             match all_some (map Q_of_bits (skipn 2 a)) with
             | None => Some (st, true)
             | Some sp =>
                 if negb (strictly_increasing sp) then Some (st, is_panic) else
                 if td_is_empty (m_td m) then Some (st, list_eqb Z.eqb ob [NONE]) else
                 match compressed m with
                 | None => None
                 | Some d =>
                     let v := td_view d in
                     let st' := if mode =? 0 then mput st slot d None else st in
                     Some (st', list_answer 1 (if code =? 5 then cdf v sp else pmf v sp) ob)
                 end
             end
         end
  | 7 => match mget st slot with Some m => Some (st, list_eqb Z.eqb ob [td_total (m_td m)]) | None => None end
  | 8 => match mget st slot with
         | Some m => Some (st, if td_is_empty (m_td m) then list_eqb Z.eqb ob [NONE]
                               else match ob with [b] => oq_eq (Q_of_bits b) (td_min (m_td m)) | _ => false end)
         | None => None end
  | 9 => match mget st slot with
         | Some m => Some (st, if td_is_empty (m_td m) then list_eqb Z.eqb ob [NONE]
                               else match ob with [b] => oq_eq (Q_of_bits b) (td_max (m_td m)) | _ => false end)
         | None => None end
  | 10 => match mget st slot with Some m => Some (st, list_eqb Z.eqb ob [zbool (td_is_empty (m_td m))]) | None => None end
  | 17 => match mget st slot with Some m => Some (st, list_eqb Z.eqb ob [td_k (m_td m)]) | None => None end
  | 11 | 12 | 16 =>
         match mget st slot, parse_dump ob with
         | Some m, Some D =>
             let d := m_td m in
             if has_buf d then
               let d' := td_compress_with d (d_cs D) in
               let ok := valid_merge EPS (td_rev d) (compress_input d) (d_cs D) && dump_matches d' D in
               if code =? 12 then Some (mput st slot d (Some (d_cs D)), ok)
               else Some (mput st slot d' None, ok)
             else Some (st, dump_matches d D)
         | Some _, None => Some (st, false)
         | None, _ => None
         end
  | 14 => match mget st slot with
          | None => None
          | Some m =>
              match compressed m with
              | None => None
              | Some d =>
                  let d' := if td_is_empty d then mkTd (td_k d) false None None [] 0 [] else d in
                  Some (mput st slot d' None, list_eqb Z.eqb ob [1])
              end
          end
  | 15 | 21 => match td_deserialize (code =? 21) (skipn 1 a) with
          | Some (Ok d) => Some (mput st slot d None, list_eqb Z.eqb ob [1])
          | Some Err => Some (st, list_eqb Z.eqb ob ERR)
          | Some Stuck => Some (st, is_panic)
          | None => None
          end
  | 19 => match mget st slot with
          | None => None
          | Some m =>
              match compressed m with
              | None => None
              | Some d =>
                  let d' := if td_is_empty d then mkTd (td_k d) false None None [] 0 [] else d in
                  Some (mput (mput st slot d None) (nth 1 a 0) d' None, list_eqb Z.eqb ob [1])
              end
          end
  | 20 => match mget st slot with
          | None => None
          | Some m => match compressed m with
                      | None => None
                      | Some d => Some (mput st slot d None, true)
                      end
          end
  | 18 => match mget st slot with
          | None => None
          | Some m =>
              match all_some (map Q_of_bits (skipn 1 a)) with
              | None => Some (st, true)
              | Some qs =>
                  if negb (forallb in01 qs) then Some (st, is_panic) else
                  if td_is_empty (m_td m) then Some (st, true) else
                  match compressed m with
                  | None => None
                  | Some d => Some (match qs with [] => st | _ => mput st slot d None end, true)
                  end
              end
          end
  | _ => Some (st, true)
  end.

Fixpoint tie_from (st : mslots) (ops : list zop) (obs : list (list Z)) : bool :=
  match ops, obs with
  | o :: r, ob :: obr =>
      match tie_step st o ob with
      | Some (st', ok) => ok && (if list_eqb Z.eqb ob PANIC then true else tie_from st' r obr)
      | None => false
      end
  | _, _ => true
  end.

Definition tie_ok (c : case) : bool := tie_from (repeat None 8) (c_ops c) (c_obs c).

(* =====================================================================================
   [prop_ok]: property C10 on the crate's observations alone (oracle 0)
   ===================================================================================== *)
Definition ULPS : Z := 4.
(* non-decreasing up to 4 ulp along a list of answers whose arguments are non-decreasing *)
Fixpoint mono_obs (args : list Q) (obs : list Z) : bool :=
  match args, obs with
  | x :: ((y :: _) as ar), a :: ((b :: _) as br) =>
      (if qle x y then ord_bits a - ord_bits b <=? ULPS else true) && mono_obs ar br
  | _, _ => true
  end.

Definition oq_of_obits (o : option Z) : option Q := match o with Some b => Q_of_bits b | None => None end.

Definition rank_obs_ok (s : spec) (xs : list Q) (obs : list Z) : bool :=
  if sp_n s =? 0 then forallb (Z.eqb NONE) obs && (length obs =? length xs)%nat else
  match oq_of_obits (sp_min s), oq_of_obits (sp_max s) with
  | Some mn, Some mx =>
      all2 (fun x ob => match Q_of_bits ob with
                        | Some r => qle 0 r && qle r 1 &&
                                    (if Qltb x mn then qeq r 0 else true) && (if Qltb mx x then qeq r 1 else true)
                        | None => false end) xs obs
      && mono_obs xs obs
  | _, _ => true
  end.

Definition quantile_obs_ok (s : spec) (qs : list Q) (obs : list Z) : bool :=
  if sp_n s =? 0 then forallb (Z.eqb NONE) obs && (length obs =? length qs)%nat else
  match oq_of_obits (sp_min s), oq_of_obits (sp_max s) with
  | Some mn, Some mx =>
      all2 (fun q ob => match Q_of_bits ob with
                        | Some x => qle mn x && qle x mx &&
                                    (if qeq q 0 then qeq x mn else true) && (if qeq q 1 then qeq x mx else true)
                        | None => false end) qs obs
      && mono_obs qs obs
  | _, _ => true
  end.

Fixpoint qsum (l : list Q) : Q := match l with [] => 0%Q | x :: r => (x + qsum r)%Q end.

Definition cdf_obs_ok (s : spec) (sp : list Q) (obs : list Z) : bool :=
  if sp_n s =? 0 then list_eqb Z.eqb obs [NONE] else
  (length obs =? S (length sp))%nat && (last obs 0 =? ONE_BITS) &&
  forallb (fun ob => match Q_of_bits ob with Some r => qle 0 r && qle r 1 | None => false end) obs &&
  mono_obs (sp ++ [last sp 0%Q]) obs.

Definition pmf_obs_ok (s : spec) (sp : list Q) (obs : list Z) : bool :=
  if sp_n s =? 0 then list_eqb Z.eqb obs [NONE] else
  (length obs =? S (length sp))%nat &&
  match all_some (map Q_of_bits obs) with
  | Some l => forallb (fun x => qle (- EPS)%Q x && qle x (1 + EPS)%Q) l && close_to 1 (qsum l) 1%Q
  | None => false
  end.

(* memory of the last rank / cdf answers, to check cdf = ranks ++ [1] and pmf = differences of cdf *)
Record pmem := mkP { p_rank : option (Z * list Z * list Z); p_cdf : option (Z * list Z * list Z);
                     p_views : list (option view) }.
(* the centroid list a slot is known to hold after its next compression (from the last dump / peek /
   image of the slot; forgotten when an update makes the buffer dirty) *)
Definition vget (m : pmem) (slot : Z) : option view := nth (Z.to_nat slot) (p_views m) None.
Definition vset (m : pmem) (slot : Z) (v : option view) : pmem :=
  mkP (p_rank m) (p_cdf m) (set_nth (Z.to_nat slot) v (p_views m)).
Definition forget_queries (m : pmem) : pmem := mkP None None (p_views m).

Fixpoint strict_means (cs : list centroid) : bool :=
  match cs with
  | a :: ((b :: _) as r) => Qltb (c_mean a) (c_mean b) && strict_means r
  | _ => true
  end.

Definition view_of_dump (D : option dump) : option view :=
  match D with
  | Some (mkDump _ _ (Some mn) (Some mx) ((_ :: _) as cs)) => Some (mkView mn mx cs (sumw cs))
  | _ => None
  end.

Definition view_of_image (is_f32 : bool) (bs : list Z) : option view :=
  match td_deserialize is_f32 bs with
  | Some (Ok d) => match td_buf d, td_cs d, td_min d, td_max d with
                   | [], (_ :: _) as cs, Some mn, Some mx => Some (mkView mn mx cs (sumw cs))
                   | _, _, _, _ => None
                   end
  | _ => None
  end.

(* well-formed with pairwise distinct means: the hypotheses of c10_rank_quantile_consistent *)
Definition wf_strict (v : view) : bool :=
  match v_cs v with
  | [] => false
  | c0 :: _ => strict_means (v_cs v) && qle (v_min v) (c_mean c0) && qle (c_mean (last (v_cs v) c0)) (v_max v)
  end.

Fixpoint sorted_means (cs : list centroid) : bool :=
  match cs with
  | a :: ((b :: _) as r) => qle (c_mean a) (c_mean b) && sorted_means r
  | _ => true
  end.
(* well-formed, means possibly shared: the hypotheses of c10_rank_quantile_consistent_any_means *)
Definition wf_sorted (v : view) : bool :=
  match v_cs v with
  | [] => false
  | c0 :: _ => sorted_means (v_cs v) && qle (v_min v) (c_mean c0) && qle (c_mean (last (v_cs v) c0)) (v_max v)
  end.

Definition RQ_SLACK : Q := (1 # 10000000)%Q.
(* | rank (quantile q) - q | <= resolution v q  (Props/C10.v: c10_rank_quantile_consistent), on the crate's floats *)
Fixpoint rq_bound_ok (v : view) (qs : list Q) (obs : list Z) : bool :=
  match qs, obs with
  | q :: qr, _ :: rb :: obr =>
      match Q_of_bits rb with
      | Some r => Qle_bool (Qabs (r - q)) (resolution v q + RQ_SLACK)%Q && rq_bound_ok v qr obr
      | None => false
      end
  | _, _ => true
  end.

Fixpoint rq_block_bound_ok (v : view) (qs : list Q) (obs : list Z) : bool :=
  match qs, obs with
  | q :: qr, _ :: rb :: obr =>
      match Q_of_bits rb with
      | Some r => Qle_bool (Qabs (r - q)) (block_resolution v q + RQ_SLACK)%Q && rq_block_bound_ok v qr obr
      | None => false
      end
  | _, _ => true
  end.

Definition same_query (m : option (Z * list Z * list Z)) (slot : Z) (args : list Z) : option (list Z) :=
  match m with
  | Some (s, a, ob) => if (s =? slot) && list_eqb Z.eqb a args then Some ob else None
  | None => None
  end.

Fixpoint prefix_eq (a b : list Z) : bool :=
  match a, b with
  | [], _ => true
  | x :: a', y :: b' => (x =? y) && prefix_eq a' b'
  | _, [] => false
  end.

Fixpoint pmf_matches_cdf (prev : option Q) (cdfv pmfv : list Q) : bool :=
  match cdfv, pmfv with
  | [], [] => true
  | c :: cr, p :: pr =>
      close_to 1 p (match prev with Some x => c - x | None => c end)%Q && pmf_matches_cdf (Some c) cr pr
  | _, _ => false
  end.

(* straddling-weights bound for rank(quantile q) (see Props/C10.v: c10_rank_quantile_..):
   checked against the last dump of the slot when one is available; here only range facts *)
Fixpoint rq_pairs_ok (s : spec) (qs : list Q) (obs : list Z) : bool :=
  match qs, obs with
  | [], [] => true
  | q :: qr, xb :: rb :: obr =>
      match Q_of_bits xb, Q_of_bits rb, oq_of_obits (sp_min s), oq_of_obits (sp_max s) with
      | Some x, Some r, Some mn, Some mx => qle mn x && qle x mx && qle 0 r && qle r 1 && rq_pairs_ok s qr obr
      | _, _, _, _ => false
      end
  | _, _ => false
  end.

Definition prop_step (st : sslots) (mem : pmem) (o : zop) (ob : list Z) : pmem * bool :=
  let '(code, a) := o in
  let slot := nth 0 a 0 in
  let is_panic := list_eqb Z.eqb ob PANIC in
  match code with
  | 3 => match sget st slot, all_some (map Q_of_bits (skipn 2 a)) with
         | Some s, Some xs => (mkP (Some (slot, skipn 2 a, ob)) (p_cdf mem) (p_views mem), negb is_panic && rank_obs_ok s xs ob)
         | _, _ => (mem, true) end
  | 4 => match sget st slot, all_some (map Q_of_bits (skipn 2 a)) with
         | Some s, Some qs => if forallb in01 qs then (mem, negb is_panic && quantile_obs_ok s qs ob) else (mem, true)
         | _, _ => (mem, true) end
  | 5 => match sget st slot, all_some (map Q_of_bits (skipn 2 a)) with
         | Some s, Some sp =>
             if strictly_increasing sp then
               (mkP (p_rank mem) (Some (slot, skipn 2 a, ob)) (p_views mem),
                negb is_panic && cdf_obs_ok s sp ob &&
                match same_query (p_rank mem) slot (skipn 2 a) with Some rk => prefix_eq rk ob | None => true end)
             else (mem, true)
         | _, _ => (mem, true) end
  | 6 => match sget st slot, all_some (map Q_of_bits (skipn 2 a)) with
         | Some s, Some sp =>
             if strictly_increasing sp then
               (mem, negb is_panic && pmf_obs_ok s sp ob &&
                     match same_query (p_cdf mem) slot (skipn 2 a) with
                     | Some cd => if sp_n s =? 0 then true else
                                  match all_some (map Q_of_bits cd), all_some (map Q_of_bits ob) with
                                  | Some c, Some p => pmf_matches_cdf None c p
                                  | _, _ => false end
                     | None => true end)
             else (mem, true)
         | _, _ => (mem, true) end
  | 7 | 8 | 9 | 10 | 17 =>
         (mem, is_panic || list_eqb Z.eqb ob (snd (spec_step st o)))
  | 18 => match sget st slot, all_some (map Q_of_bits (skipn 1 a)) with
          | Some s, Some qs =>
              if forallb in01 qs && negb (sp_n s =? 0)
              then (mem, negb is_panic && rq_pairs_ok s qs ob &&
                         match vget mem slot with
                         | Some v => if wf_strict v then rq_bound_ok v qs ob
                                     else if wf_sorted v then rq_block_bound_ok v qs ob else true
                         | None => true
                         end)
              else (mem, true)
          | _, _ => (mem, true) end
  | 1 => (vset (forget_queries mem) slot None, true)
  | 2 => (vset (forget_queries mem) slot (match ob with [] => vget mem slot | _ => view_of_dump (parse_dump ob) end), true)
  | 11 | 16 => (vset (forget_queries mem) slot (view_of_dump (parse_dump ob)), true)
  | 12 => (vset mem slot (view_of_dump (parse_dump ob)), true)
  | 15 | 21 => (vset (forget_queries mem) slot (if list_eqb Z.eqb ob [1] then view_of_image (code =? 21) (skipn 1 a) else None), true)
  | 19 => (vset (forget_queries mem) (nth 1 a 0) (vget mem slot), true)
  | 0 => (vset (forget_queries mem) slot None, true)
  | 14 => (forget_queries mem, true)
  | _ => (mem, true)
  end.

Fixpoint prop_from (st : sslots) (mem : pmem) (ops : list zop) (obs : list (list Z)) : bool :=
  match ops, obs with
  | o :: r, ob :: obr =>
      let '(mem', ok) := prop_step st mem o ob in
      ok && (if list_eqb Z.eqb ob PANIC then true else prop_from (fst (spec_step st o)) mem' r obr)
  | _, _ => true
  end.

Definition prop_ok (c : case) : bool := prop_from (repeat None 8) (mkP None None (repeat None 8)) (c_ops c) (c_obs c).

(* =====================================================================================
   [c15_ok]: property C15 on the centroid dumps (oracle 2)
   ===================================================================================== *)
Fixpoint means_sorted (cs : list centroid) : bool :=
  match cs with
  | a :: ((b :: _) as r) => qle (c_mean a) (c_mean b) && means_sorted r
  | _ => true
  end.

Definition MAX_CENTROIDS (k : Z) : Z := 2 * k + 30.

Definition dump_ok (s : spec) (D : dump) : bool :=
  (sumw (d_cs D) =? sp_n s) &&
  means_sorted (d_cs D) &&
  oq_eq (d_min D) (oq_of_obits (sp_min s)) && oq_eq (d_max D) (oq_of_obits (sp_max s)) &&
  match d_min D, d_max D with
  | Some mn, Some mx => forallb (fun c => qle mn (c_mean c) && qle (c_mean c) mx) (d_cs D)
  | _, _ => match d_cs D with [] => true | _ => false end
  end &&
  (if sp_inproc s then
     (Z.of_nat (length (d_cs D)) <=? MAX_CENTROIDS (sp_k s)) &&
     (* exact-to-one-sample at the extremes: unit first / last centroids sitting on min / max *)
     match d_cs D, d_min D, d_max D with
     | c :: _, Some mn, Some mx =>
         let l := last (d_cs D) c in
         Pos.eqb (snd c) 1 && qeq (c_mean c) mn && Pos.eqb (snd l) 1 && qeq (c_mean l) mx
     | _, _, _ => true
     end
   else true).

Definition c15_step (st : sslots) (o : zop) (ob : list Z) : bool :=
  let '(code, a) := o in
  let slot := nth 0 a 0 in
  if list_eqb Z.eqb ob PANIC then true else
  match code with
  | 2 | 11 | 12 | 16 =>
      let st' := fst (spec_step st o) in
      match sget st' slot with
      | Some s =>
          match ob with
          | [] => true
          | _ => match parse_dump ob with Some D => dump_ok s D | None => false end
          end
      | None => true
      end
  | _ => true
  end.

Fixpoint c15_from (st : sslots) (ops : list zop) (obs : list (list Z)) : bool :=
  match ops, obs with
  | o :: r, ob :: obr =>
      c15_step st o ob && (if list_eqb Z.eqb ob PANIC then true else c15_from (fst (spec_step st o)) r obr)
  | _, _ => true
  end.

Definition c15_ok (c : case) : bool := c15_from (repeat None 8) (c_ops c) (c_obs c).

(* =====================================================================================
   [codec_ok]: C11 / C12 / C18 on the bytes the crate emits (oracle 3).  For every image B the
   crate serializes (op 20): the modelled reader accepts it and the modelled writer re-emits it
   byte for byte; the independent layout decoder (Spec/TDigestLayout.v) reads from it exactly the
   state the history implies (k, total weight, min, max) with sorted means; |B| = 8 | 16 | 32 + 16 n.
   ===================================================================================== *)
Definition nlist_eqb (a b : list N) : bool := list_eqb N.eqb a b.
Definition pair_eqb (a b : N * N) : bool := (fst a =? fst b)%N && (snd a =? snd b)%N.
Definition abs_of_tdb (s : tdb) : td_abs :=
  mkTdAbs (b_k s) (b_rev s) (match b_cs s, b_buf s with [], [] => None | _, _ => Some (b_min s, b_max s) end) (b_cs s) (b_buf s).
Definition omm_eqb (a b : option (N * N)) : bool :=
  match a, b with Some x, Some y => pair_eqb x y | None, None => true | _, _ => false end.
Definition abs_eqb (a b : td_abs) : bool :=
  (a_k a =? a_k b)%N && Bool.eqb (a_rev a) (a_rev b) && omm_eqb (a_minmax a) (a_minmax b) &&
  list_eqb pair_eqb (a_cs a) (a_cs b) && nlist_eqb (a_buf a) (a_buf b).

Definition image_ok (s : spec) (B : list Z) : bool :=
  let bs := map zN B in
  match tdb_dec false bs, spec_decode Double bs with
  | Ok t, Some a =>
      nlist_eqb (tdb_enc t) bs && abs_eqb a (abs_of_tdb t) &&
      (Nz (a_k a) =? sp_k s) && (Nz (sumwN (a_cs a)) =? sp_n s) && match a_buf a with [] => true | _ => false end &&
      match a_minmax a with
      | None => sp_n s =? 0
      | Some (mn, mx) => list_eqb Z.eqb (obits (sp_min s)) [Nz mn] && list_eqb Z.eqb (obits (sp_max s)) [Nz mx]
      end &&
      match all_some (map pair_of_bits (a_cs a)) with Some cs => means_sorted cs | None => false end &&
      (Z.of_nat (length B) =? (if sp_n s =? 0 then 8 else if sp_n s =? 1 then 16 else 32 + 16 * Z.of_nat (length (a_cs a))))
  | _, _ => false
  end.

Definition codec_step (st : sslots) (o : zop) (ob : list Z) : bool :=
  let '(code, a) := o in
  if list_eqb Z.eqb ob PANIC then true else
  match code with
  | 20 => match sget st (nth 0 a 0) with Some s => image_ok s ob | None => true end
  | _ => true
  end.

Fixpoint codec_from (st : sslots) (ops : list zop) (obs : list (list Z)) : bool :=
  match ops, obs with
  | o :: r, ob :: obr =>
      codec_step st o ob && (if list_eqb Z.eqb ob PANIC then true else codec_from (fst (spec_step st o)) r obr)
  | _, _ => true
  end.
Definition codec_ok (c : case) : bool := codec_from (repeat None 8) (c_ops c) (c_obs c).

(* [twin_ok]: C11 on the crate alone (oracle 4): after `fork src dst` every operation applied to src
   and then to dst must give identical observations (Base/Oracles.v) *)
Definition twin_ok (c : case) : bool := twin_oracle 19 [0; 15; 21] c.

(* =====================================================================================
   [foreign_ok]: C13 (oracle 5).  An image that the layout decoder reads as an admissible state must
   be accepted by the crate, and the decoded digest must hold exactly that state: k, total weight,
   min, max, is_empty; its centroids bit for bit when nothing is buffered, and -- buffered values
   being absorbed by the next compression -- a valid merge pass of (buffered values + centroids).
   ===================================================================================== *)
Definition fl_of (is_f32 : bool) : flavour := if is_f32 then Float else Double.
Definition fslots := list (option td_abs).
Definition fget (st : fslots) (i : Z) : option td_abs := nth (Z.to_nat i) st None.

Definition unitsN (l : list N) : list (N * N) := map (fun b => (b, 1%N)) l.

Definition foreign_step (st : fslots) (o : zop) (ob : list Z) : fslots * bool :=
  let '(code, a) := o in
  let slot := nth 0 a 0 in
  match code with
  | 15 | 21 =>
      match spec_decode_any (fl_of (code =? 21)) (map zN (skipn 1 a)) with
      | Some x => if abs_admissible x then (set_nth (Z.to_nat slot) (Some x) st, list_eqb Z.eqb ob [1])
                  else (set_nth (Z.to_nat slot) None st, true)
      | None => (set_nth (Z.to_nat slot) None st, true)
      end
  | 17 => match fget st slot with Some x => (st, list_eqb Z.eqb ob [Nz (a_k x)]) | None => (st, true) end
  | 7 => match fget st slot with
         | Some x => (st, list_eqb Z.eqb ob [Nz (sumwN (a_cs x) + N.of_nat (length (a_buf x)))]) | None => (st, true) end
  | 8 => match fget st slot with
         | Some x => (st, list_eqb Z.eqb ob (match a_minmax x with Some (mn, _) => [Nz mn] | None => [NONE] end)) | None => (st, true) end
  | 9 => match fget st slot with
         | Some x => (st, list_eqb Z.eqb ob (match a_minmax x with Some (_, mx) => [Nz mx] | None => [NONE] end)) | None => (st, true) end
  | 10 => match fget st slot with
          | Some x => (st, list_eqb Z.eqb ob [zbool (match a_minmax x with None => true | Some _ => false end)]) | None => (st, true) end
  | 12 => match fget st slot, parse_dump ob with
          | Some x, Some D =>
              (st,
               (d_k D =? Nz (a_k x)) &&
               match a_buf x with
               | [] => Bool.eqb (d_rev D) (a_rev x) &&
                       match all_some (map pair_of_bits (a_cs x)) with
                       | Some cs => list_eqb c_eq cs (d_cs D)
                       | None => false end
               | _ => match all_some (map pair_of_bits (unitsN (a_buf x) ++ a_cs x)) with
                      | Some input => valid_merge EPS (a_rev x) input (d_cs D)
                      | None => false end
               end)
          | Some _, None => (st, false)
          | None, _ => (st, true)
          end
  | 1 | 2 | 11 | 14 | 16 | 19 | 0 => (set_nth (Z.to_nat slot) None st, true)
  | _ => (st, true)
  end.

Fixpoint foreign_from (st : fslots) (ops : list zop) (obs : list (list Z)) : bool :=
  match ops, obs with
  | o :: r, ob :: obr =>
      let '(st', ok) := foreign_step st o ob in
      ok && (if list_eqb Z.eqb ob PANIC then true else foreign_from st' r obr)
  | _, _ => true
  end.
Definition foreign_ok (c : case) : bool := foreign_from (repeat None 8) (c_ops c) (c_obs c).

(* [no_panic]: C14 / C17 (oracle 6): no observation is a panic or a runaway-allocation marker *)
Definition no_panic (c : case) : bool := no_panic_oracle c.

(* oracles by number (tools/families/tdigest.py: ORACLES) *)
Definition oracles : list (Z * (case -> bool)) :=
  [(0, prop_ok); (1, tie_ok); (2, c15_ok); (3, codec_ok); (4, twin_ok); (5, foreign_ok); (6, no_panic)].
