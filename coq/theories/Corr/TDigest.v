(* Correspondence driver + oracles for the t-digest family (C10, C15).  No proofs here.

   The crate computes in binary64, the model in exact rationals, and the crate's merge
   decisions depend on ln.  Hence three pieces:
   * [run]     : the EXACT part of the behaviour (k, total_weight, min, max, is_empty, the
                 Ok/Err of deserialize), compared observation by observation (op-code mask);
   * [tie_ok]  : oracle 1 -- the model follows the crate through the whole case: every
                 do_merge pass the crate performs is validated with [valid_merge]
                 (translation validation: centroid dumps before/after), the validated result
                 is adopted, and every rank / quantile / cdf / pmf answer of the crate is
                 compared with the exact Q model within 1e-9 (bits -> exact Q) -- quantile answers
                 only for ranks q whose product q * total is exact in binary64 (see exact_product);
   * [prop_ok] : oracle 0 -- property C10 evaluated on the crate's observations alone;
   * [c15_ok]  : oracle 2 -- property C15 (structural part + the 2k+30 threshold test) on
                 the crate's centroid dumps;
   * [acc_ok]  : oracle 7 -- the accuracy half of C15 as a labelled threshold test (cluster sizes
                 against the k2 scale function, rank against the exact empirical rank);
   * oracles 3..6: codec_ok, twin_ok, foreign_ok, no_panic (C11..C14, C17, C18 parts).
   Every oracle answers false when the numbers of operations and observations differ or a field
   it needs is missing; an unset slot is answered EMPTY by the harness and expected as such.

   op codes (first argument is always the slot):
     0 new k | 1 update bits | 2 merge src (obs: dump of dst, [] when src is empty)
     3 rank mode v.. | 4 quantile mode q.. | 5 cdf mode s.. | 6 pmf mode s..   (mode 0 = TDigestMut,
       1 = clone().freeze() -> TDigest); answers as f64 bits, None = -2
     7 total_weight | 8 min_value | 9 max_value | 10 is_empty | 17 k
     11 dump (serialize() parsed: compresses) | 12 peek (clone().serialize() parsed)
     14 roundtrip (deserialize(serialize())) | 15 deserialize bytes.. | 16 freeze().unfreeze() (obs: dump)
     18 rq q.. (obs: x1 r1 x2 r2 ..  with x = quantile(q), r = rank(x))
     19 fork src dst (dst := deserialize(serialize(src)); obs [1]) | 20 image (obs: the bytes of serialize())
     21 deserialize_f32 bytes.. (is_f32 = true)
   dump = [k; reverse_merge; n; min; max; mean_0; weight_0; ...] (bits; min = max = -2 when n = 0) *)
From Coq Require Import QArith Qabs.
From DS Require Import Base.Prelude Base.Oracles Base.TDigestBits Model.TDigest Model.TDigestCodec Model.TDigestBridge Spec.TDigestSpec Spec.TDigestLayout.
From DS Require Gen.GenTDigest Gen.GenCodec.
Open Scope Z_scope.

Definition NONE : Z := -2.
Definition ONE_BITS : Z := 0x3ff0000000000000.

(* binary64 bit pattern -> exact rational: Q_of_bits, is_nan_b, is_inf_b (Model/TDigestBridge.v) *)

(* total order on bit patterns of non-NaN doubles (for ulp distances) *)
Definition ord_bits (b : Z) : Z := if b <? 0x8000000000000000 then b else - (b - 0x8000000000000000).

Definition qle (a b : Q) : bool := Qle_bool a b.
Definition qeq (a b : Q) : bool := Qeq_bool a b.
Definition EPS : Q := (1 # 1000000000)%Q.
Definition close_to (scale : Q) (a b : Q) : bool :=
  Qle_bool (Qabs (a - b)) (EPS * Qmaxq 1 scale).

(* ---------- dumps ---------- *)
Record dump := mkDump { d_k : Z; d_rev : bool; d_min : option Q; d_max : option Q; d_cs : list centroid }.

Fixpoint parse_cs (n : nat) (l : list Z) : option (list centroid) :=
  match n with
  | O => match l with [] => Some [] | _ => None end
  | S n' =>
      match l with
      | m :: w :: r =>
          match Q_of_bits m with
          | Some q => if 0 <? w then match parse_cs n' r with Some t => Some ((q, Z.to_pos w) :: t) | None => None end
                      else None
          | None => None
          end
      | _ => None
      end
  end.

Definition parse_dump (ob : list Z) : option dump :=
  match ob with
  | k :: rv :: n :: mn :: mx :: r =>
      match parse_cs (Z.to_nat n) r with
      | Some cs =>
          if n =? 0 then Some (mkDump k (negb (rv =? 0)) None None cs)
          else match Q_of_bits mn, Q_of_bits mx with
               | Some a, Some b => Some (mkDump k (negb (rv =? 0)) (Some a) (Some b) cs)
               | _, _ => None
               end
      | None => None
      end
  | _ => None
  end.

Definition oq_eq (a b : option Q) : bool :=
  match a, b with Some x, Some y => qeq x y | None, None => true | _, _ => false end.
Definition c_eq (a b : centroid) : bool := qeq (fst a) (fst b) && Pos.eqb (snd a) (snd b).

Definition dump_matches (d : td) (D : dump) : bool :=
  (td_k d =? d_k D) && Bool.eqb (td_rev d) (d_rev D) && oq_eq (td_min d) (d_min D) && oq_eq (td_max d) (d_max D)
  && list_eqb c_eq (td_cs d) (d_cs D).

(* ---------- deserialize: the byte-level model (Model/TDigestCodec.v), values read back as rationals ---------- *)
Definition u_le (n : nat) (bs : list Z) (off : nat) : Z :=
  Nz (le_val (map zN (firstn n (skipn off bs)))).

(* pair_of_bits, td_of_tdb: Model/TDigestBridge.v (None = a state the rational model cannot hold) *)
Definition td_deserialize (is_f32 : bool) (bs : list Z) : option (outcome td) :=
  match tdb_dec is_f32 (map zN bs) with
  | Ok s => match td_of_tdb s with Some d => Some (Ok d) | None => None end
  | Err => Some Err
  | Stuck => Some Stuck
  end.

(* =====================================================================================
   [run]: the exact part.  Per slot: k, number of values held, min / max as bit patterns.
   ===================================================================================== *)
Record spec := mkSpec { sp_k : Z; sp_n : Z; sp_min : option Z; sp_max : option Z; sp_inproc : bool }.
Definition sslots := list (option spec).
Definition sget (st : sslots) (i : Z) : option spec := nth (Z.to_nat i) st None.
Definition sput (st : sslots) (i : Z) (s : spec) : sslots := set_nth (Z.to_nat i) (Some s) st.

(* a < b as doubles (f64::min / f64::max keep the current extreme on a tie; NaN never reaches here).
   ord_bits is monotone in the value, so no conversion to Q is needed (1e308 is a 1024-bit integer). *)
Definition bits_lt (a b : Z) : bool :=
  if is_nan_b a || is_nan_b b then false else ord_bits a <? ord_bits b.
Definition bmin (a : option Z) (x : Z) : option Z :=
  match a with None => Some x | Some m => Some (if bits_lt x m then x else m) end.
Definition bmax (a : option Z) (x : Z) : option Z :=
  match a with None => Some x | Some m => Some (if bits_lt m x then x else m) end.
Definition bmin2 (a b : option Z) := match b with None => a | Some x => bmin a x end.
Definition bmax2 (a b : option Z) := match b with None => a | Some x => bmax a x end.
Definition obits (a : option Z) : list Z := match a with Some b => [b] | None => [NONE] end.

Definition spec_of_image (is_f32 : bool) (bs : list Z) : outcome spec :=
  match tdb_dec is_f32 (map zN bs) with
  | Ok s => let n := Nz (tdb_total s) in
            if n =? 0 then Ok (mkSpec (Nz (b_k s)) 0 None None false)
            else Ok (mkSpec (Nz (b_k s)) n (Some (Nz (b_min s))) (Some (Nz (b_max s))) false)
  | Err => Err
  | Stuck => Stuck
  end.

(* one step of the exact spec: new state, exact observation (meaningful only for the masked ops),
   and [false] when the case must stop being followed (unsupported image) *)
Definition spec_step (st : sslots) (o : zop) : sslots * list Z :=
  let '(code, a) := o in
  let slot := nth 0 a 0 in
  match code with
  | 0 => let k := nth 1 a 0 in
         if k <? MIN_K then (st, PANIC) else (sput st slot (mkSpec k 0 None None true), [])
  | 1 => match sget st slot with
         | Some s => let b := nth 1 a 0 in
                     if is_nan_b b || is_inf_b b then (st, [])
                     else (sput st slot (mkSpec (sp_k s) (sp_n s + 1) (bmin (sp_min s) b) (bmax (sp_max s) b) (sp_inproc s)), [])
         | None => (st, EMPTY) end
  | 2 => match sget st slot, sget st (nth 1 a 0) with
         | Some s, Some o => if sp_n o =? 0 then (st, [])
                             else (sput st slot (mkSpec (sp_k s) (sp_n s + sp_n o) (bmin2 (sp_min s) (sp_min o))
                                                        (bmax2 (sp_max s) (sp_max o)) (sp_inproc s && sp_inproc o)), [])
         | _, _ => (st, EMPTY) end
  | 7 => match sget st slot with Some s => (st, [sp_n s]) | None => (st, EMPTY) end
  | 8 => match sget st slot with Some s => (st, obits (sp_min s)) | None => (st, EMPTY) end
  | 9 => match sget st slot with Some s => (st, obits (sp_max s)) | None => (st, EMPTY) end
  | 10 => match sget st slot with Some s => (st, [zbool (sp_n s =? 0)]) | None => (st, EMPTY) end
  | 17 => match sget st slot with Some s => (st, [sp_k s]) | None => (st, EMPTY) end
  | 14 => match sget st slot with Some s => (st, [1]) | None => (st, EMPTY) end
  | 15 | 21 => match spec_of_image (code =? 21) (skipn 1 a) with
          | Ok s => (sput st slot s, [1])
          | Err => (st, ERR)
          | Stuck => (st, PANIC)
          end
  | 19 => match sget st slot with
          | Some s => (sput st (nth 1 a 0) s, [1])
          | None => (st, EMPTY) end
  | _ => (st, [])
  end.

Fixpoint run_from (st : sslots) (ops : list zop) : list (list Z) :=
  match ops with
  | [] => []
  | o :: r => let '(st', ob) := spec_step st o in ob :: run_from st' r
  end.

Definition run (cfg : list Z) (ops : list zop) : list (list Z) := run_from (repeat None 8) ops.

(* =====================================================================================
   [tie_ok]: the Q model follows the crate (oracle 1)
   ===================================================================================== *)
Record mslot := mkM { m_td : td; m_pend : option (list centroid) }.
Definition mslots := list (option mslot).
Definition mget (st : mslots) (i : Z) : option mslot := nth (Z.to_nat i) st None.
Definition mput (st : mslots) (i : Z) (d : td) (p : option (list centroid)) : mslots :=
  set_nth (Z.to_nat i) (Some (mkM d p)) st.

Definition has_buf (d : td) : bool := match td_buf d with [] => false | _ => true end.

(* the state after compress(), when it can be determined *)
Definition compressed (m : mslot) : option td :=
  if has_buf (m_td m) then
    match m_pend m with Some out => Some (td_compress_with (m_td m) out) | None => None end
  else Some (m_td m).

Definition obs_of_oq (o : option Q) : option Q := o.

(* compare one model answer with one observed value *)
Definition ans_close (scale : Q) (model : option Q) (ob : Z) : bool :=
  match model with
  | None => ob =? NONE
  | Some b => match Q_of_bits ob with Some a => close_to scale a b | None => false end
  end.

Fixpoint all2 {A B} (f : A -> B -> bool) (l : list A) (m : list B) : bool :=
  match l, m with
  | [], [] => true
  | x :: l', y :: m' => f x y && all2 f l' m'
  | _, _ => false
  end.

Definition view_scale (v : view) : Q := Qmaxq (Qabs (v_min v)) (Qabs (v_max v)).

(* TDigestMut::rank over a list of values (mode 0): early returns do not compress *)
Fixpoint rank_mut (m : mslot) (xs : list Q) (obs : list Z) : option (mslot * bool) :=
  match xs, obs with
  | [], [] => Some (m, true)
  | x :: xs', ob :: obs' =>
      match td_rank_pre (m_td m) x with
      | Some r => match rank_mut m xs' obs' with
                  | Some (m', ok) => Some (m', ans_close 1 r ob && ok)
                  | None => None end
      | None =>
          match compressed m with
          | None => None
          | Some d =>
              match rank (td_view d) x with
              | Ok r => match rank_mut (mkM d None) xs' obs' with
                        | Some (m', ok) => Some (m', ans_close 1 r ob && ok)
                        | None => None end
              | _ => Some (m, false)
              end
          end
      end
  | _, _ => Some (m, false)
  end.

Definition answers (f : Q -> outcome (option Q)) (scale : Q) (xs : list Q) (obs : list Z) : bool :=
  all2 (fun x ob => match f x with Ok r => ans_close scale r ob | _ => false end) xs obs.

(* quantile(q) starts with weight = q * total in binary64 and then branches on it; the function has
   genuine jumps (weight = 1, weight = total - 1, around unit-weight centroids), so when that product is
   ROUNDED the crate may legitimately sit on the other side of a jump than the exact model evaluated at
   the same double q.  The exact comparison is therefore made only when q * total is exactly
   representable (odd part of the numerator below 2^53, denominator a power of two: always the case for
   the dyadic grids); for every other q only the PROPERTY oracle (prop_ok: range, end values,
   monotonicity, rank(quantile q) bound) speaks. *)
Definition exact_product (q : Q) (total : Z) : bool :=
  let p := Qred (q * inject_Z total) in
  let n := Z.abs (Qnum p) in
  let d := Zpos (Qden p) in
  (Z.land d (d - 1) =? 0) && ((n =? 0) || (n / Z.land n (- n) <? 2 ^ 53)).

Definition answers_where (sel : Q -> bool) (f : Q -> outcome (option Q)) (scale : Q) (xs : list Q) (obs : list Z) : bool :=
  all2 (fun x ob => if sel x then match f x with Ok r => ans_close scale r ob | _ => false end
                    else negb (ob =? NONE)) xs obs.

Definition list_answer (scale : Q) (r : outcome (option (list Q))) (obs : list Z) : bool :=
  match r with
  | Ok None => list_eqb Z.eqb obs [NONE]
  | Ok (Some l) => all2 (fun b ob => ans_close scale (Some b) ob) l obs
  | _ => false
  end.

Definition in01 (q : Q) : bool := qle 0 q && qle q 1.

(* returns None when the oracle cannot follow (generator contract broken) -> reported as failure *)
Definition tie_step (st : mslots) (o : zop) (ob : list Z) : option (mslots * bool) :=
  let '(code, a) := o in
  let slot := nth 0 a 0 in
  let is_panic := list_eqb Z.eqb ob PANIC in
  match code with
  | 0 => match td_new (nth 1 a 0) with
         | Ok d => Some (mput st slot d None, list_eqb Z.eqb ob [])
         | _ => Some (st, is_panic) end
  | 1 => match mget st slot with
         | None => None
         | Some m =>
             (* Model/TDigest.v td_update_with through td_update_bits: NaN / +-inf are ignored by the MODEL *)
             let b := nth 1 a 0 in
             let ignored := match Q_of_bits b with None => true | Some _ => false end in
             if negb ignored && td_needs_compress_on_update (m_td m) && (match m_pend m with None => true | Some _ => false end)
             then None
             else
               let out := match m_pend m with Some o => o | None => [] end in
               Some (mput st slot (td_update_bits (m_td m) b out) (if ignored then m_pend m else None), list_eqb Z.eqb ob [])
         end
  | 2 => match mget st slot, mget st (nth 1 a 0) with
         | Some m, Some mo =>
             let d := m_td m in let o := m_td mo in
             if td_is_empty o then Some (st, list_eqb Z.eqb ob [])
             else match parse_dump ob with
                  | None => Some (st, false)
                  | Some D =>
                      let d' := td_merge_with d o (d_cs D) in
                      Some (mput st slot d' None,
                            valid_merge EPS (td_rev d) (merge_input d o) (d_cs D) && dump_matches d' D)
                  end
         | _, _ => None end
  | 3 => match mget st slot with
         | None => None
         | Some m =>
             let mode := nth 1 a 0 in
             match all_some (map Q_of_bits (skipn 2 a)) with
             | None => Some (st, true)                     (* NaN / infinite argument: not followed *)
             | Some xs =>
                 if mode =? 0 then
                   match rank_mut m xs ob with
                   | Some (m', ok) => Some (set_nth (Z.to_nat slot) (Some m') st, ok)
                   | None => None end
                 else
                   match compressed m with
                   | None => None
                   | Some d => Some (st, answers (rank (td_view d)) 1 xs ob)
                   end
             end
         end
  | 4 => match mget st slot with
         | None => None
         | Some m =>
             let mode := nth 1 a 0 in
             match all_some (map Q_of_bits (skipn 2 a)) with
             | None => Some (st, true)
             | Some qs =>
                 if negb (forallb in01 qs) then Some (st, is_panic) else
                 if td_is_empty (m_td m) then Some (st, forallb (Z.eqb NONE) ob && (length ob =? length qs)%nat) else
                 match compressed m with
                 | None => None
                 | Some d =>
                     let v := td_view d in
                     let st' := if (mode =? 0) && negb (match qs with [] => true | _ => false end)
                                then mput st slot d None else st in
                     Some (st', answers_where (fun q => exact_product q (v_total v)) (quantile v) (view_scale v) qs ob)
                 end
             end
         end
  | 5 | 6 =>
         match mget st slot with
         | None => None
         | Some m =>
             let mode := nth 1 a 0 in
             match all_some (map Q_of_bits (skipn 2 a)) with
             | None => Some (st, true)
             | Some sp =>
                 if negb (strictly_increasing sp) then Some (st, is_panic) else
                 if td_is_empty (m_td m) then Some (st, list_eqb Z.eqb ob [NONE]) else
                 match compressed m with
                 | None => None
                 | Some d =>
                     let v := td_view d in
                     let st' := if mode =? 0 then mput st slot d None else st in
                     Some (st', list_answer 1 (if code =? 5 then cdf v sp else pmf v sp) ob)
                 end
             end
         end
  | 7 => match mget st slot with Some m => Some (st, list_eqb Z.eqb ob [td_total (m_td m)]) | None => None end
  | 8 => match mget st slot with
         | Some m => Some (st, if td_is_empty (m_td m) then list_eqb Z.eqb ob [NONE]
                               else match ob with [b] => oq_eq (Q_of_bits b) (td_min (m_td m)) | _ => false end)
         | None => None end
  | 9 => match mget st slot with
         | Some m => Some (st, if td_is_empty (m_td m) then list_eqb Z.eqb ob [NONE]
                               else match ob with [b] => oq_eq (Q_of_bits b) (td_max (m_td m)) | _ => false end)
         | None => None end
  | 10 => match mget st slot with Some m => Some (st, list_eqb Z.eqb ob [zbool (td_is_empty (m_td m))]) | None => None end
  | 17 => match mget st slot with Some m => Some (st, list_eqb Z.eqb ob [td_k (m_td m)]) | None => None end
  | 11 | 12 | 16 =>
         match mget st slot, parse_dump ob with
         | Some m, Some D =>
             let d := m_td m in
             if has_buf d then
               let d' := td_compress_with d (d_cs D) in
               let ok := valid_merge EPS (td_rev d) (compress_input d) (d_cs D) && dump_matches d' D in
               if code =? 12 then Some (mput st slot d (Some (d_cs D)), ok)
               else Some (mput st slot d' None, ok)
             else Some (st, dump_matches d D)
         | Some _, None => Some (st, false)
         | None, _ => None
         end
  | 14 => match mget st slot with
          | None => None
          | Some m =>
              match compressed m with
              | None => None
              | Some d =>
                  let d' := if td_is_empty d then mkTd (td_k d) false None None [] 0 [] else d in
                  Some (mput st slot d' None, list_eqb Z.eqb ob [1])
              end
          end
  | 15 | 21 => match td_deserialize (code =? 21) (skipn 1 a) with
          | Some (Ok d) => Some (mput st slot d None, list_eqb Z.eqb ob [1])
          | Some Err => Some (st, list_eqb Z.eqb ob ERR)
          | Some Stuck => Some (st, is_panic)
          | None => None
          end
  | 19 => match mget st slot with
          | None => None
          | Some m =>
              match compressed m with
              | None => None
              | Some d =>
                  let d' := if td_is_empty d then mkTd (td_k d) false None None [] 0 [] else d in
                  Some (mput (mput st slot d None) (nth 1 a 0) d' None, list_eqb Z.eqb ob [1])
              end
          end
  | 20 => match mget st slot with
          | None => None
          | Some m => match compressed m with
                      | None => None
                      | Some d => Some (mput st slot d None, true)
                      end
          end
  | 18 => match mget st slot with
          | None => None
          | Some m =>
              match all_some (map Q_of_bits (skipn 1 a)) with
              | None => Some (st, true)
              | Some qs =>
                  if negb (forallb in01 qs) then Some (st, is_panic) else
                  if td_is_empty (m_td m) then Some (st, true) else
                  match compressed m with
                  | None => None
                  | Some d => Some (match qs with [] => st | _ => mput st slot d None end, true)
                  end
              end
          end
  | _ => Some (st, true)
  end.

Fixpoint tie_from (st : mslots) (ops : list zop) (obs : list (list Z)) : bool :=
  match ops, obs with
  | o :: r, ob :: obr =>
      match tie_step st o ob with
      | Some (st', ok) => ok && (if list_eqb Z.eqb ob PANIC then true else tie_from st' r obr)
      | None => false
      end
  | [], [] => true
  | _, _ => false
  end.

Definition tie_ok (c : case) : bool := tie_from (repeat None 8) (c_ops c) (c_obs c).

(* =====================================================================================
   [prop_ok]: property C10 on the crate's observations alone (oracle 0)
   ===================================================================================== *)
Definition ULPS : Z := 4.
(* non-decreasing up to 4 ulp along a list of answers whose arguments are non-decreasing *)
Fixpoint mono_obs (args : list Q) (obs : list Z) : bool :=
  match args, obs with
  | x :: ((y :: _) as ar), a :: ((b :: _) as br) =>
      (if qle x y then ord_bits a - ord_bits b <=? ULPS else true) && mono_obs ar br
  | [], [] | [_], [_] => true
  | _, _ => false                                  (* lengths differ *)
  end.

(* the slot's min / max as rationals: None = the spec has no extreme although values are held (false);
   Some None = an extreme is infinite (legal in a foreign image: the rational oracle cannot follow, true) *)
Definition bounds_of (s : spec) : option (option (Q * Q)) :=
  match sp_min s, sp_max s with
  | Some a, Some b => Some (match Q_of_bits a, Q_of_bits b with Some x, Some y => Some (x, y) | _, _ => None end)
  | _, _ => None
  end.

Definition oq_of_obits (o : option Z) : option Q := match o with Some b => Q_of_bits b | None => None end.

Definition rank_obs_ok (s : spec) (xs : list Q) (obs : list Z) : bool :=
  if sp_n s =? 0 then forallb (Z.eqb NONE) obs && (length obs =? length xs)%nat else
  match bounds_of s with
  | Some (Some (mn, mx)) =>
      all2 (fun x ob => match Q_of_bits ob with
                        | Some r => qle 0 r && qle r 1 &&
                                    (if Qltb x mn then qeq r 0 else true) && (if Qltb mx x then qeq r 1 else true)
                        | None => false end) xs obs
      && mono_obs xs obs
  | Some None => true
  | None => false
  end.

Definition quantile_obs_ok (s : spec) (qs : list Q) (obs : list Z) : bool :=
  if sp_n s =? 0 then forallb (Z.eqb NONE) obs && (length obs =? length qs)%nat else
  match bounds_of s with
  | Some (Some (mn, mx)) =>
      all2 (fun q ob => match Q_of_bits ob with
                        | Some x => qle mn x && qle x mx &&
                                    (if qeq q 0 then qeq x mn else true) && (if qeq q 1 then qeq x mx else true)
                        | None => false end) qs obs
      && mono_obs qs obs
  | Some None => true
  | None => false
  end.

Fixpoint qsum (l : list Q) : Q := match l with [] => 0%Q | x :: r => (x + qsum r)%Q end.

Definition cdf_obs_ok (s : spec) (sp : list Q) (obs : list Z) : bool :=
  if sp_n s =? 0 then list_eqb Z.eqb obs [NONE] else
  (length obs =? S (length sp))%nat && (last obs 0 =? ONE_BITS) &&
  forallb (fun ob => match Q_of_bits ob with Some r => qle 0 r && qle r 1 | None => false end) obs &&
  mono_obs (sp ++ [last sp 0%Q]) obs.

Definition pmf_obs_ok (s : spec) (sp : list Q) (obs : list Z) : bool :=
  if sp_n s =? 0 then list_eqb Z.eqb obs [NONE] else
  (length obs =? S (length sp))%nat &&
  match all_some (map Q_of_bits obs) with
  | Some l => forallb (fun x => qle (- EPS)%Q x && qle x (1 + EPS)%Q) l && close_to 1 (qsum l) 1%Q
  | None => false
  end.

(* memory of the last rank / cdf answers, to check cdf = ranks ++ [1] and pmf = differences of cdf *)
Record pmem := mkP { p_rank : option (Z * list Z * list Z); p_cdf : option (Z * list Z * list Z);
                     p_views : list (option view) }.
(* the centroid list a slot is known to hold after its next compression (from the last dump / peek /
   image of the slot; forgotten when an update makes the buffer dirty) *)
Definition vget (m : pmem) (slot : Z) : option view := nth (Z.to_nat slot) (p_views m) None.
Definition vset (m : pmem) (slot : Z) (v : option view) : pmem :=
  mkP (p_rank m) (p_cdf m) (set_nth (Z.to_nat slot) v (p_views m)).
Definition forget_queries (m : pmem) : pmem := mkP None None (p_views m).

Fixpoint strict_means (cs : list centroid) : bool :=
  match cs with
  | a :: ((b :: _) as r) => Qltb (c_mean a) (c_mean b) && strict_means r
  | _ => true
  end.

Definition view_of_dump (D : option dump) : option view :=
  match D with
  | Some (mkDump _ _ (Some mn) (Some mx) ((_ :: _) as cs)) => Some (mkView mn mx cs (sumw cs))
  | _ => None
  end.

Definition view_of_image (is_f32 : bool) (bs : list Z) : option view :=
  match td_deserialize is_f32 bs with
  | Some (Ok d) => match td_buf d, td_cs d, td_min d, td_max d with
                   | [], (_ :: _) as cs, Some mn, Some mx => Some (mkView mn mx cs (sumw cs))
                   | _, _, _, _ => None
                   end
  | _ => None
  end.

(* well-formed with pairwise distinct means: the hypotheses of c10_rank_quantile_consistent *)
Definition wf_strict (v : view) : bool :=
  match v_cs v with
  | [] => false
  | c0 :: _ => strict_means (v_cs v) && qle (v_min v) (c_mean c0) && qle (c_mean (last (v_cs v) c0)) (v_max v)
  end.

(* well-formed, means possibly shared: the hypotheses of c10_rank_quantile_consistent_any_means *)
Definition wf_sorted (v : view) : bool :=
  match v_cs v with
  | [] => false
  | c0 :: _ => sorted_means (v_cs v) && qle (v_min v) (c_mean c0) && qle (c_mean (last (v_cs v) c0)) (v_max v)
  end.

Definition RQ_SLACK : Q := (1 # 10000000)%Q.
(* | rank (quantile q) - q | <= resolution v q  (Props/C10.v: c10_rank_quantile_consistent), on the crate's floats *)
Fixpoint rq_bound_ok (v : view) (qs : list Q) (obs : list Z) : bool :=
  match qs, obs with
  | q :: qr, _ :: rb :: obr =>
      match Q_of_bits rb with
      | Some r => Qle_bool (Qabs (r - q)) (resolution v q + RQ_SLACK)%Q && rq_bound_ok v qr obr
      | None => false
      end
  | [], [] => true
  | _, _ => false
  end.

Fixpoint rq_block_bound_ok (v : view) (qs : list Q) (obs : list Z) : bool :=
  match qs, obs with
  | q :: qr, _ :: rb :: obr =>
      match Q_of_bits rb with
      | Some r => Qle_bool (Qabs (r - q)) (block_resolution v q + RQ_SLACK)%Q && rq_block_bound_ok v qr obr
      | None => false
      end
  | [], [] => true
  | _, _ => false
  end.

Definition same_query (m : option (Z * list Z * list Z)) (slot : Z) (args : list Z) : option (list Z) :=
  match m with
  | Some (s, a, ob) => if (s =? slot) && list_eqb Z.eqb a args then Some ob else None
  | None => None
  end.

Fixpoint prefix_eq (a b : list Z) : bool :=
  match a, b with
  | [], _ => true
  | x :: a', y :: b' => (x =? y) && prefix_eq a' b'
  | _, [] => false
  end.

Fixpoint pmf_matches_cdf (prev : option Q) (cdfv pmfv : list Q) : bool :=
  match cdfv, pmfv with
  | [], [] => true
  | c :: cr, p :: pr =>
      close_to 1 p (match prev with Some x => c - x | None => c end)%Q && pmf_matches_cdf (Some c) cr pr
  | _, _ => false
  end.

(* straddling-weights bound for rank(quantile q) (see Props/C10.v: c10_rank_quantile_..):
   checked against the last dump of the slot when one is available; here only range facts *)
Fixpoint rq_pairs_ok (s : spec) (qs : list Q) (obs : list Z) : bool :=
  match qs, obs with
  | [], [] => true
  | q :: qr, xb :: rb :: obr =>
      match Q_of_bits xb, Q_of_bits rb, bounds_of s with
      | Some x, Some r, Some (Some (mn, mx)) => qle mn x && qle x mx && qle 0 r && qle r 1 && rq_pairs_ok s qr obr
      | Some x, Some r, Some None => qle 0 r && qle r 1 && rq_pairs_ok s qr obr
      | _, _, _ => false
      end
  | _, _ => false
  end.

Definition prop_step (st : sslots) (mem : pmem) (o : zop) (ob : list Z) : pmem * bool :=
  let '(code, a) := o in
  let slot := nth 0 a 0 in
  let is_panic := list_eqb Z.eqb ob PANIC in
  match code with
  | 3 => match sget st slot, all_some (map Q_of_bits (skipn 2 a)) with
         | Some s, Some xs => (mkP (Some (slot, skipn 2 a, ob)) (p_cdf mem) (p_views mem), negb is_panic && rank_obs_ok s xs ob)
         | None, _ => (mem, list_eqb Z.eqb ob EMPTY)        (* unset slot: the harness says so *)
         | Some _, None => (mem, true) end                 (* NaN / infinite argument: not followed *)
  | 4 => match sget st slot, all_some (map Q_of_bits (skipn 2 a)) with
         | Some s, Some qs => if forallb in01 qs then (mem, negb is_panic && quantile_obs_ok s qs ob) else (mem, true)
         | None, _ => (mem, list_eqb Z.eqb ob EMPTY)
         | Some _, None => (mem, true) end
  | 5 => match sget st slot, all_some (map Q_of_bits (skipn 2 a)) with
         | Some s, Some sp =>
             if strictly_increasing sp then
               (mkP (p_rank mem) (Some (slot, skipn 2 a, ob)) (p_views mem),
                negb is_panic && cdf_obs_ok s sp ob &&
                match same_query (p_rank mem) slot (skipn 2 a) with Some rk => prefix_eq rk ob | None => true end)
             else (mem, true)
         | None, _ => (mem, list_eqb Z.eqb ob EMPTY)
         | Some _, None => (mem, true) end
  | 6 => match sget st slot, all_some (map Q_of_bits (skipn 2 a)) with
         | Some s, Some sp =>
             if strictly_increasing sp then
               (mem, negb is_panic && pmf_obs_ok s sp ob &&
                     match same_query (p_cdf mem) slot (skipn 2 a) with
                     | Some cd => if sp_n s =? 0 then true else
                                  match all_some (map Q_of_bits cd), all_some (map Q_of_bits ob) with
                                  | Some c, Some p => pmf_matches_cdf None c p
                                  | _, _ => false end
                     | None => true end)
             else (mem, true)
         | None, _ => (mem, list_eqb Z.eqb ob EMPTY)
         | Some _, None => (mem, true) end
  | 7 | 8 | 9 | 10 | 17 =>
         (mem, is_panic || list_eqb Z.eqb ob (snd (spec_step st o)))
  | 18 => match sget st slot, all_some (map Q_of_bits (skipn 1 a)) with
          | Some s, Some qs =>
              if forallb in01 qs && negb (sp_n s =? 0)
              then (mem, negb is_panic && rq_pairs_ok s qs ob &&
                         match vget mem slot with
                         | Some v => if wf_strict v then rq_bound_ok v qs ob
                                     else if wf_sorted v then rq_block_bound_ok v qs ob else true
                         | None => true
                         end)
              else (mem, true)
          | None, _ => (mem, list_eqb Z.eqb ob EMPTY)
          | Some _, None => (mem, true) end
  | 1 => (vset (forget_queries mem) slot None, true)
  | 2 => (vset (forget_queries mem) slot (match ob with [] => vget mem slot | _ => view_of_dump (parse_dump ob) end), true)
  | 11 | 16 => (vset (forget_queries mem) slot (view_of_dump (parse_dump ob)), true)
  | 12 => (vset mem slot (view_of_dump (parse_dump ob)), true)
  | 15 | 21 => (vset (forget_queries mem) slot (if list_eqb Z.eqb ob [1] then view_of_image (code =? 21) (skipn 1 a) else None), true)
  | 19 => (vset (forget_queries mem) (nth 1 a 0) (vget mem slot), true)
  | 0 => (vset (forget_queries mem) slot None, true)
  | 14 => (forget_queries mem, true)
  | _ => (mem, true)
  end.

Fixpoint prop_from (st : sslots) (mem : pmem) (ops : list zop) (obs : list (list Z)) : bool :=
  match ops, obs with
  | o :: r, ob :: obr =>
      let '(mem', ok) := prop_step st mem o ob in
      ok && (if list_eqb Z.eqb ob PANIC then true else prop_from (fst (spec_step st o)) mem' r obr)
  | [], [] => true
  | _, _ => false
  end.

Definition prop_ok (c : case) : bool := prop_from (repeat None 8) (mkP None None (repeat None 8)) (c_ops c) (c_obs c).

(* =====================================================================================
   [c15_ok]: property C15 on the centroid dumps (oracle 2)
   ===================================================================================== *)
Fixpoint means_sorted (cs : list centroid) : bool :=
  match cs with
  | a :: ((b :: _) as r) => qle (c_mean a) (c_mean b) && means_sorted r
  | _ => true
  end.

Definition MAX_CENTROIDS (k : Z) : Z := 2 * k + 30.

Definition dump_ok (s : spec) (D : dump) : bool :=
  (sumw (d_cs D) =? sp_n s) &&
  means_sorted (d_cs D) &&
  oq_eq (d_min D) (oq_of_obits (sp_min s)) && oq_eq (d_max D) (oq_of_obits (sp_max s)) &&
  match d_min D, d_max D with
  | Some mn, Some mx => forallb (fun c => qle mn (c_mean c) && qle (c_mean c) mx) (d_cs D)
  | _, _ => match d_cs D with [] => true | _ => false end
  end &&
  (if sp_inproc s then
     (Z.of_nat (length (d_cs D)) <=? MAX_CENTROIDS (sp_k s)) &&
     (* exact-to-one-sample at the extremes: unit first / last centroids sitting on min / max *)
     match d_cs D, d_min D, d_max D with
     | c :: _, Some mn, Some mx =>
         let l := last (d_cs D) c in
         Pos.eqb (snd c) 1 && qeq (c_mean c) mn && Pos.eqb (snd l) 1 && qeq (c_mean l) mx
     | [], _, _ => true
     | _ :: _, _, _ => false                          (* centroids without min / max *)
     end
   else true).

Definition c15_step (st : sslots) (o : zop) (ob : list Z) : bool :=
  let '(code, a) := o in
  let slot := nth 0 a 0 in
  if list_eqb Z.eqb ob PANIC then true else
  match code with
  | 2 | 11 | 12 | 16 =>
      let st' := fst (spec_step st o) in
      if list_eqb Z.eqb ob EMPTY then
        (* the harness found an unset slot: the destination, or the source of a merge *)
        match sget st slot with
        | None => true
        | Some _ => (code =? 2) && (match sget st (nth 1 a 0) with None => true | Some _ => false end)
        end
      else
      match sget st' slot with
      | Some s =>
          match ob with
          | [] => code =? 2                            (* only merge(empty source) answers nothing *)
          | _ => match parse_dump ob with Some D => dump_ok s D | None => false end
          end
      | None => false
      end
  | _ => true
  end.

Fixpoint c15_from (st : sslots) (ops : list zop) (obs : list (list Z)) : bool :=
  match ops, obs with
  | o :: r, ob :: obr =>
      c15_step st o ob && (if list_eqb Z.eqb ob PANIC then true else c15_from (fst (spec_step st o)) r obr)
  | [], [] => true
  | _, _ => false
  end.

Definition c15_ok (c : case) : bool := c15_from (repeat None 8) (c_ops c) (c_obs c).

(* =====================================================================================
   [codec_ok]: C11 / C12 / C18 on the bytes the crate emits (oracle 3).  For every image B the
   crate serializes (op 20): the modelled reader accepts it and the modelled writer re-emits it
   byte for byte; the independent layout decoder (Spec/TDigestLayout.v) reads from it exactly the
   state the history implies (k, total weight, min, max) with sorted means; |B| = 8 | 16 | 32 + 16 n.
   ===================================================================================== *)
Definition nlist_eqb (a b : list N) : bool := list_eqb N.eqb a b.
Definition pair_eqb (a b : N * N) : bool := (fst a =? fst b)%N && (snd a =? snd b)%N.
Definition abs_of_tdb (s : tdb) : td_abs :=
  mkTdAbs (b_k s) (b_rev s) (match b_cs s, b_buf s with [], [] => None | _, _ => Some (b_min s, b_max s) end) (b_cs s) (b_buf s).
Definition omm_eqb (a b : option (N * N)) : bool :=
  match a, b with Some x, Some y => pair_eqb x y | None, None => true | _, _ => false end.
Definition abs_eqb (a b : td_abs) : bool :=
  (a_k a =? a_k b)%N && Bool.eqb (a_rev a) (a_rev b) && omm_eqb (a_minmax a) (a_minmax b) &&
  list_eqb pair_eqb (a_cs a) (a_cs b) && nlist_eqb (a_buf a) (a_buf b).

Definition image_obs_ok (s : spec) (B : list Z) : bool :=
  let bs := map zN B in
  match tdb_dec false bs, spec_decode Double bs with
  | Ok t, Some a =>
      nlist_eqb (tdb_enc t) bs && abs_eqb a (abs_of_tdb t) &&
      (Nz (a_k a) =? sp_k s) && (Nz (sumwN (a_cs a)) =? sp_n s) && match a_buf a with [] => true | _ => false end &&
      match a_minmax a with
      | None => sp_n s =? 0
      | Some (mn, mx) => list_eqb Z.eqb (obits (sp_min s)) [Nz mn] && list_eqb Z.eqb (obits (sp_max s)) [Nz mx]
      end &&
      match all_some (map pair_of_bits (a_cs a)) with Some cs => sorted_means cs | None => false end &&
      (* single-value form: one sample that is min and max at once (bit for bit) *)
      (Z.of_nat (length B) =? (if sp_n s =? 0 then 8
                               else if (sp_n s =? 1) && list_eqb Z.eqb (obits (sp_min s)) (obits (sp_max s)) then 16
                               else 32 + 16 * Z.of_nat (length (a_cs a))))
  | _, _ => false
  end.

Definition codec_step (st : sslots) (o : zop) (ob : list Z) : bool :=
  let '(code, a) := o in
  if list_eqb Z.eqb ob PANIC then true else
  match code with
  | 20 => match sget st (nth 0 a 0) with Some s => image_obs_ok s ob | None => list_eqb Z.eqb ob EMPTY end
  | _ => true
  end.

Fixpoint codec_from (st : sslots) (ops : list zop) (obs : list (list Z)) : bool :=
  match ops, obs with
  | o :: r, ob :: obr =>
      codec_step st o ob && (if list_eqb Z.eqb ob PANIC then true else codec_from (fst (spec_step st o)) r obr)
  | [], [] => true
  | _, _ => false
  end.
Definition codec_ok (c : case) : bool := codec_from (repeat None 8) (c_ops c) (c_obs c).

(* [twin_ok]: C11 on the crate alone (oracle 4): after `fork src dst` every operation applied to src
   and then to dst must give identical observations (Base/Oracles.v) *)
Definition twin_ok (c : case) : bool := twin_oracle 19 [0; 15; 21] c.

(* =====================================================================================
   [foreign_ok]: C13 (oracle 5).  An image that the layout decoder reads as an admissible state must
   be accepted by the crate, and the decoded digest must hold exactly that state: k, total weight,
   min, max, is_empty; its centroids bit for bit when nothing is buffered, and -- buffered values
   being absorbed by the next compression -- a valid merge pass of (buffered values + centroids).
   ===================================================================================== *)
Definition fl_of (is_f32 : bool) : flavour := if is_f32 then Float else Double.
Definition fslots := list (option td_abs).
Definition fget (st : fslots) (i : Z) : option td_abs := nth (Z.to_nat i) st None.

Definition unitsN (l : list N) : list (N * N) := map (fun b => (b, 1%N)) l.

Definition foreign_step (st : fslots) (o : zop) (ob : list Z) : fslots * bool :=
  let '(code, a) := o in
  let slot := nth 0 a 0 in
  match code with
  | 15 | 21 =>
      match spec_decode_any (fl_of (code =? 21)) (map zN (skipn 1 a)) with
      | Some x => if abs_admissible x then (set_nth (Z.to_nat slot) (Some x) st, list_eqb Z.eqb ob [1])
                  else (set_nth (Z.to_nat slot) None st, true)
      | None => (set_nth (Z.to_nat slot) None st, true)
      end
  | 17 => match fget st slot with Some x => (st, list_eqb Z.eqb ob [Nz (a_k x)]) | None => (st, true) end
  | 7 => match fget st slot with
         | Some x => (st, list_eqb Z.eqb ob [Nz (sumwN (a_cs x) + N.of_nat (length (a_buf x)))]) | None => (st, true) end
  | 8 => match fget st slot with
         | Some x => (st, list_eqb Z.eqb ob (match a_minmax x with Some (mn, _) => [Nz mn] | None => [NONE] end)) | None => (st, true) end
  | 9 => match fget st slot with
         | Some x => (st, list_eqb Z.eqb ob (match a_minmax x with Some (_, mx) => [Nz mx] | None => [NONE] end)) | None => (st, true) end
  | 10 => match fget st slot with
          | Some x => (st, list_eqb Z.eqb ob [zbool (match a_minmax x with None => true | Some _ => false end)]) | None => (st, true) end
  | 12 => match fget st slot, parse_dump ob with
          | Some x, Some D =>
              (st,
               (d_k D =? Nz (a_k x)) &&
               match a_buf x with
               | [] => Bool.eqb (d_rev D) (a_rev x) &&
                       match all_some (map pair_of_bits (a_cs x)) with
                       | Some cs => list_eqb c_eq cs (d_cs D)
                       | None => false end
               | _ => match all_some (map pair_of_bits (unitsN (a_buf x) ++ a_cs x)) with
                      | Some input => valid_merge EPS (a_rev x) input (d_cs D)
                      | None => false end
               end)
          | Some _, None => (st, false)
          | None, _ => (st, true)
          end
  | 1 | 2 | 11 | 14 | 16 | 19 | 0 => (set_nth (Z.to_nat slot) None st, true)
  | _ => (st, true)
  end.

Fixpoint foreign_from (st : fslots) (ops : list zop) (obs : list (list Z)) : bool :=
  match ops, obs with
  | o :: r, ob :: obr =>
      let '(st', ok) := foreign_step st o ob in
      ok && (if list_eqb Z.eqb ob PANIC then true else foreign_from st' r obr)
  | [], [] => true
  | _, _ => false
  end.
Definition foreign_ok (c : case) : bool := foreign_from (repeat None 8) (c_ops c) (c_obs c).

(* [no_panic]: C14 / C17 (oracle 6): no observation is a panic or a runaway-allocation marker *)
Definition no_panic (c : case) : bool := no_panic_oracle c.

(* =====================================================================================
   [acc_ok]: the ACCURACY half of C15 as a LABELLED TEST (oracle 7).  No theorem stands behind
   it: the constants are calibrated on the unchanged crate (tools/props/C15.py quotes the measured
   worst cases) and the test only detects regressions.  Two checks on the crate's observations:
   (B) cluster size -- on every centroid dump of an in-process digest (compression k; after a merge
       the smaller k of the two), every centroid of weight w >= 2 covering the cumulative weights
       [W, W + w] of n satisfies
          w - 1 <= ACC_SIZE_C * max (W (n - W), (W + w) (n - W - w)) / n * Z / (2 k),
       Z = 4 ln (n / 2k) + 24 (the crate's k2 scale function; ln bounded above by 0.7 * log2_up),
       i.e. ACC_SIZE_C times the weight limit q (1 - q) / normalizer the merge pass enforces;
   (A) rank against the data -- on every rank query of a never-merged in-process digest whose whole
       multiset of values is known (n values) and whose centroids are known from the last dump:
          | rank v - (#{x < v} + #{x = v} / 2) / n | <= 1 / (2n) + ACC_NEIGH_F * S / n + 1e-9,
       S = the weight of the centroids around v: two below, those with mean = v, two above.
   Together: the rank error is at most 1 / (2n) plus ACC_NEIGH_F * (4 + ties) cluster weights, each at
   most 1 + ACC_SIZE_C * n q (1 - q) Z / (2k).  Values and means are compared through ord_bits.
   ===================================================================================== *)
Definition ACC_SIZE_C : Z := 2.
Definition ACC_NEIGH_F : Z := 4.

Record aslot := mkA { as_k : Z; as_vals : option (list Z); as_single : bool; as_cent : option (list (Z * Z)); as_inproc : bool }.
Definition aslots := list (option aslot).
Definition aget (st : aslots) (i : Z) : option aslot := nth (Z.to_nat i) st None.
Definition aput (st : aslots) (i : Z) (x : aslot) : aslots := set_nth (Z.to_nat i) (Some x) st.

(* the centroids of a dump [k; rev; n; min; max; mean_0; w_0; ...] as (ord_bits mean, weight) *)
Fixpoint cent_pairs (fuel : nat) (l : list Z) : list (Z * Z) :=
  match fuel, l with
  | S f, m :: w :: r => (ord_bits m, w) :: cent_pairs f r
  | _, _ => []
  end.
Definition cent_of_dump (ob : list Z) : option (list (Z * Z)) :=
  match ob with
  | _ :: _ :: n :: _ :: _ :: r => if (Z.of_nat (length r) =? 2 * n) then Some (cent_pairs (Z.to_nat n) r) else None
  | _ => None
  end.
Definition cent_weight (c : list (Z * Z)) : Z := fold_right (fun p a => snd p + a) 0 c.

(* (B) *)
Definition z10 (n k : Z) : Z := 28 * Z.log2_up ((n + 2 * k - 1) / (2 * k)) + 240.      (* 10 * Z, from above *)
Fixpoint sizes_ok (n k W : Z) (c : list (Z * Z)) : bool :=
  match c with
  | [] => true
  | (_, w) :: r =>
      (if w <? 2 then true
       else (w - 1) * 2 * k * n * 10 <=? ACC_SIZE_C * Z.max (W * (n - W)) ((W + w) * (n - W - w)) * z10 n k)
      && sizes_ok n k (W + w) r
  end.
Definition cluster_sizes_ok (k : Z) (c : list (Z * Z)) : bool :=
  let n := cent_weight c in (k <? 10) || sizes_ok n k 0 c.

(* (A) *)
Definition count_if (f : Z -> bool) (l : list Z) : Z := fold_left (fun a x => if f x then a + 1 else a) l 0.
Definition neigh_weight (c : list (Z * Z)) (v : Z) : Z :=
  let cl := count_if (fun m => m <? v) (map fst c) in
  let cle := count_if (fun m => m <=? v) (map fst c) in
  let lo := Z.max 0 (cl - 2) in
  cent_weight (firstn (Z.to_nat (cle + 2 - lo)) (skipn (Z.to_nat lo) c)).
Definition rank_point_ok (vals : list Z) (c : list (Z * Z)) (vb rb : Z) : bool :=
  if is_nan_b vb || is_inf_b vb then true else
  match Q_of_bits rb with
  | None => false
  | Some r =>
      let v := ord_bits vb in
      let n := Z.of_nat (length vals) in
      let lt := count_if (fun x => x <? v) vals in
      let eq := count_if (fun x => x =? v) vals in
      let cw := cent_weight c in
      if (n <=? 0) || (cw <=? 0) then false else
      let mid := Qmake (2 * lt + eq) (Z.to_pos (2 * n)) in
      Qle_bool (Qabs (r - mid))
               (Qmake 1 (Z.to_pos (2 * n)) + Qmake (ACC_NEIGH_F * neigh_weight c v) (Z.to_pos cw) + EPS)%Q
  end.

Definition acc_step (st : aslots) (o : zop) (ob : list Z) : aslots * bool :=
  let '(code, a) := o in
  let slot := nth 0 a 0 in
  if list_eqb Z.eqb ob EMPTY then (st, true) else
  match code with
  | 0 => (aput st slot (mkA (nth 1 a 0) (Some []) true None true), true)
  | 1 => match aget st slot with
         | Some x => let b := nth 1 a 0 in
                     if is_nan_b b || is_inf_b b then (st, true)
                     else (aput st slot (mkA (as_k x) (match as_vals x with Some l => Some (ord_bits b :: l) | None => None end)
                                              (as_single x) None (as_inproc x)), true)
         | None => (st, true) end
  | 2 => match aget st slot, aget st (nth 1 a 0), ob with
         | Some x, Some y, _ :: _ =>
             let k := Z.min (as_k x) (as_k y) in
             let inproc := as_inproc x && as_inproc y in
             let c := cent_of_dump ob in
             (aput st slot (mkA k (match as_vals x, as_vals y with Some l, Some m => Some (m ++ l) | _, _ => None end) false c inproc),
              if inproc then match c with Some cs => cluster_sizes_ok k cs | None => false end else true)
         | _, _, _ => (st, true) end
  | 11 | 12 | 16 =>
         match aget st slot with
         | Some x => let c := cent_of_dump ob in
                     (aput st slot (mkA (as_k x) (as_vals x) (as_single x) c (as_inproc x)),
                      if as_inproc x then match c with Some cs => cluster_sizes_ok (as_k x) cs | None => false end else true)
         | None => (st, true) end
  | 15 | 21 => if list_eqb Z.eqb ob [1] then (aput st slot (mkA 0 None false None false), true) else (st, true)
  | 19 => match aget st slot with
          | Some x => (aput st (nth 1 a 0) x, true)
          | None => (st, true) end
  | 3 => match aget st slot with
         | Some x =>
             match as_vals x, as_cent x with
             | Some ((_ :: _) as vals), Some c =>
                 if as_single x && as_inproc x
                 then (st, all2 (rank_point_ok vals c) (skipn 2 a) ob)
                 else (st, true)
             | _, _ => (st, true)
             end
         | None => (st, true) end
  | _ => (st, true)
  end.

Fixpoint acc_from (st : aslots) (ops : list zop) (obs : list (list Z)) : bool :=
  match ops, obs with
  | o :: r, ob :: obr =>
      if list_eqb Z.eqb ob PANIC then true else
      let '(st', ok) := acc_step st o ob in ok && acc_from st' r obr
  | [], [] => true
  | _, _ => false
  end.
Definition acc_ok (c : case) : bool := acc_from (repeat None 8) (c_ops c) (c_obs c).

(* oracles by number (tools/families/tdigest.py: ORACLES) *)
Definition oracles : list (Z * (case -> bool)) :=
  [(0, prop_ok); (1, tie_ok); (2, c15_ok); (3, codec_ok); (4, twin_ok); (5, foreign_ok); (6, no_panic); (7, acc_ok)].
