(* Correspondence driver for the hashers (C16). *)
From DS Require Import Base.Prelude Model.Murmur Model.XxHash Model.Derive.
Open Scope Z_scope.

(* a = seed :: n :: len_1 .. len_n ++ bytes  ->  (seed, chunks) *)
Fixpoint split_chunks (lens : list Z) (bytes : list N) : list (list N) :=
  match lens with
  | [] => []
  | l :: r => firstn (Z.to_nat l) bytes :: split_chunks r (skipn (Z.to_nat l) bytes)
  end.
Definition chunks_of (a : list Z) : list (list N) :=
  let n := Z.to_nat (nth 0 a 0) in
  split_chunks (firstn n (skipn 1 a)) (map zN (skipn (S n) a)).

(* items: kind 0 = i64/u64 (8 LE bytes, one write); kind 1 = str (bytes, then 0xff: two writes);
   kind 2 = (u64, u64) (two writes of 8 bytes) ; a = kind :: payload *)
Definition item_chunks (a : list Z) : list (list N) :=
  match nth 0 a 0 with
  | 0 => [le_bytes 8 (zN (nth 1 a 0 mod 18446744073709551616))]
  | 1 => [map zN (skipn 1 a); [255%N]]
  | _ => [le_bytes 8 (zN (nth 1 a 0)); le_bytes 8 (zN (nth 2 a 0))]
  end.

Fixpoint positions (h0 h1 cap : N) (n : nat) (i : N) : list N :=
  match n with
  | O => []
  | S n' => bloom_position h0 h1 i cap :: positions h0 h1 cap n' (i + 1)%N
  end.

Fixpoint insert_sorted (x : N) (l : list N) : list N :=
  match l with
  | [] => [x]
  | y :: r => if (x <? y)%N then x :: l else if (x =? y)%N then l else y :: insert_sorted x r
  end.
Definition sort_dedup (l : list N) : list N := fold_right insert_sorted [] l.

(* every op carries the generator's reference answer (tools/pyref.py) in front:
   a = m :: expected_1 .. expected_m ++ real arguments *)
Definition expected (a : list Z) : list Z := firstn (Z.to_nat (nth 0 a 0)) (skipn 1 a).
Definition strip (a : list Z) : list Z := skipn (S (Z.to_nat (nth 0 a 0))) a.

Definition step (o : zop) : list Z :=
  let '(code, a0) := o in
  let a := strip a0 in
  match code with
  | 1 => let '(h1, h2) := m_hash_chunks (zN (nth 0 a 0)) (chunks_of (skipn 1 a)) in [Nz h1; Nz h2]
  | 2 => [Nz (x_hash_chunks (zN (nth 0 a 0)) (chunks_of (skipn 1 a)))]
  | 3 => [Nz (x_hash_u64 (zN (nth 0 a 0)) (zN (nth 1 a 0)))]
  | 4 => [Nz (seed_hash (zN (nth 0 a 0)))]
  | 5 => [Nz (hll_coupon (item_chunks a))]
  | 6 => (* theta: seed :: item ; retained hash, or nothing when h = 0 *)
         let h := theta_hash (zN (nth 0 a 0)) (item_chunks (skipn 1 a)) in
         if (h =? 0)%N then [] else [Nz h]
  | 7 => (* count-min: seed nh nb :: item -> bucket per row *)
         let seed := zN (nth 0 a 0) in let nh := Z.to_nat (nth 1 a 0) in let nb := zN (nth 2 a 0) in
         map (fun r => Nz (cm_bucket seed (N.of_nat r) nb (item_chunks (skipn 3 a)))) (seq 0 nh)
  | 8 => (* bloom: seed num_bits num_hashes :: item -> sorted distinct positions *)
         let seed := zN (nth 0 a 0) in let nbits := zN (nth 1 a 0) in let nh := Z.to_nat (nth 2 a 0) in
         let cap := (((nbits + 63) / 64) * 64)%N in
         let '(h0, h1) := bloom_h0h1 seed (item_chunks (skipn 3 a)) in
         map Nz (sort_dedup (positions h0 h1 cap nh 1))
  | 9 => (* cpc: seed lg_k :: item -> the (row, col) pair of the single update *)
         [Nz (cpc_row_col (zN (nth 1 a 0)) (zN (nth 0 a 0)) (item_chunks (skipn 2 a)))]
  | _ => PANIC
  end.

Definition run (cfg : list Z) (ops : list zop) : list (list Z) := map step ops.

(* Oracle (independent of the model): the crate's answer equals the reference answer computed
   by the generator's own transcription of the published algorithms, and consecutive ops with
   equal (seed, bytes) but different chunkings give equal digests. *)
Definition same_input (a b : list Z) : bool :=
  let na := Z.to_nat (nth 1 a 0) in let nb := Z.to_nat (nth 1 b 0) in
  Z.eqb (nth 0 a 0) (nth 0 b 0) && list_eqb Z.eqb (skipn (S (S na)) a) (skipn (S (S nb)) b).

Fixpoint chunk_indep (prev : option (Z * list Z * list Z)) (ops : list zop) (obs : list (list Z)) : bool :=
  match ops, obs with
  | (code, a0) :: r, ob :: obr =>
      let a := strip a0 in
      list_eqb Z.eqb ob (expected a0) &&
      (if (code =? 1) || (code =? 2) then
        let ok := match prev with
                  | Some (pc, pa, pob) => if (pc =? code) && same_input pa a then list_eqb Z.eqb pob ob else true
                  | None => true
                  end in
        ok && chunk_indep (Some (code, a, ob)) r obr
      else chunk_indep None r obr)
  | [], [] => true
  | _, _ => false       (* an operation without an observation (or vice versa) is never fine *)
  end.

Definition prop_ok (c : case) : bool := chunk_indep None (c_ops c) (c_obs c).

Definition oracles : list (Z * (case -> bool)) := [(0, prop_ok)].
