(* Correspondence driver for Count-Min: replays a Z-encoded case on the model and
   yields the same observations the Rust harness prints; plus the property oracle used
   by the search when the tie breaks.  (No proofs here.) *)
From DS Require Import Base.Prelude Base.FloatBits Base.Oracles Model.CountMin Spec.CountMinLayout.
From Coq Require Import Floats.
Open Scope Z_scope.

(* cfg = [type; num_hashes; num_buckets; seed; seed_hash] *)
Definition ty_max (ty : Z) : N :=
  zN (match ty with
  | 0 => 255 | 1 => 65535 | 2 => 4294967295 | 3 => 18446744073709551615
  | 4 => 127 | 5 => 32767 | 6 => 2147483647 | _ => 9223372036854775807
  end).

Definition ty_size (ty : Z) : N :=
  zN (match ty with 0 | 4 => 1 | 1 | 5 => 2 | 2 | 6 => 4 | _ => 8 end).

(* `x as f64` for a u64 x: round to nearest even.  Below 2^63 this is of_uint63; above, the value
   is halved with a sticky low bit (more than 10 spare bits, so the rounding is unchanged) and doubled. *)
Definition float_of_u64 (z : Z) : float :=
  if z <? 9223372036854775808 then float_of_Z63 z
  else PrimFloat.mul (float_of_Z63 (Z.lor (z / 2) (z mod 2))) (float_of_Z63 2).

(* the float part of c.decay(d): (c as f64 * d).trunc() as T; the crate then clamps: .min(c) (Model: decay_clamp) *)
Definition decay_fn (mx : N) (dbits : Z) (c : N) : N :=
  zN (Z_of_float_trunc_sat 0 (Nz mx) (PrimFloat.mul (float_of_u64 (Nz c)) (float_of_bits dbits))).

(* the error term of upper_bound: T::from_f64(relative_error() * total_weight as f64),
   relative_error() = std::f64::consts::E / num_buckets as f64 *)
Definition E_bits : Z := 4613303445314885481.   (* std::f64::consts::E = 2.718281828459045 *)
Definition err_fn (mx nb total : N) : N :=
  zN (Z_of_float_trunc_sat 0 (Nz mx)
        (PrimFloat.mul (PrimFloat.div (float_of_bits E_bits) (float_of_u64 (Nz nb))) (float_of_u64 (Nz total)))).

Definition slots := list (option cm).
Definition get_slot (st : slots) (i : Z) : option cm := nth (Z.to_nat i) st None.
Definition put_slot (st : slots) (i : Z) (s : cm) : slots := set_nth (Z.to_nat i) (Some s) st.

(* one step: returns the new state and the observation; None state = case aborted by a panic *)
Definition step (cfg : list Z) (st : slots) (o : zop) : slots * list Z :=
  let ty := nth 0 cfg 0 in let nh := zN (nth 1 cfg 0) in let nb := zN (nth 2 cfg 0) in
  let sh := zN (nth 4 cfg 0) in let mx := ty_max ty in
  let '(code, a) := o in
  let slot := nth 0 a 0 in
  match code with
  | 0 => match cm_new nh nb mx sh with Ok s => (put_slot st slot s, []) | _ => (st, PANIC) end
  | 1 => match get_slot st slot with
         | Some s => match cm_update s (zN (nth 2 a 0)) (map zN (skipn 3 a)) with
                     | Ok s' => (put_slot st slot s', [])
                     | _ => (st, PANIC) end
         | None => (st, EMPTY) end
  | 2 => match get_slot st slot with
         | Some s => (st, [Nz (cm_estimate s (map zN (skipn 2 a)))])
         | None => (st, EMPTY) end
  | 3 => match get_slot st slot with
         | Some s => (st, map Nz (cm_serialize s))
         | None => (st, EMPTY) end
  | 4 => match get_slot st slot, get_slot st (nth 1 a 0) with
         | Some s, Some o => match cm_merge s o with
                             | Ok s' => (put_slot st slot s', [])
                             | _ => (st, PANIC) end
         | _, _ => (st, EMPTY) end
  | 5 => match get_slot st slot with
         | Some s => (put_slot st slot (cm_halve s), [])
         | None => (st, EMPTY) end
  | 6 => match get_slot st slot with
         | Some s => (put_slot st slot (cm_decay (decay_fn mx (nth 1 a 0)) s), [])
         | None => (st, EMPTY) end
  | 7 => match get_slot st slot with
         | Some s => match cm_deserialize mx sh (cm_serialize s) with
                     | Ok s' => (put_slot st slot s', [1])
                     | _ => (st, ERR) end
         | None => (st, EMPTY) end
  | 8 => match get_slot st slot with
         | Some s => (st, [Nz (cm_total s)])
         | None => (st, EMPTY) end
  | 9 => (* deserialize arbitrary bytes into a slot: a = slot :: bytes.  The crate allocates the
            table of [entries] cells as soon as the header is accepted; the harness flags a peak
            allocation above 64*len + 1 MiB as ALLOC and drops the result. *)
         let bs := map zN (skipn 1 a) in
         match cm_parse_header sh bs with
         | Ok (_, _, flags, entries) =>
             let present := negb (N.eqb (N.land flags 1) 0) ||
                            negb (N.of_nat (length bs) <? 16 + (entries + 1) * 8)%N in
             if present && (64 * N.of_nat (length bs) + 1048576 <? entries * ty_size ty)%N
             then (set_nth (Z.to_nat slot) None st, ALLOC)
             else match cm_deserialize_sg (4 <=? ty) mx sh bs with
                  | Ok (Some s') => (put_slot st slot s', [1])
                  | Ok None => (set_nth (Z.to_nat slot) None st, [2])   (* accepted, holds negative counters: dropped *)
                  | Err => (set_nth (Z.to_nat slot) None st, ERR)
                  | Stuck => (st, PANIC) end
         | Err => (set_nth (Z.to_nat slot) None st, ERR)
         | Stuck => (st, PANIC)
         end
  | 10 => (* fork: dst := deserialize(serialize(src)), src kept *)
         match get_slot st slot with
         | Some s => match cm_deserialize mx sh (cm_serialize s) with
                     | Ok s' => (put_slot st (nth 1 a 0) s', [1])
                     | _ => (st, ERR) end
         | None => (st, EMPTY) end
  | 11 => (* bounds: [lower_bound; upper_bound] of an item (a = slot :: item :: buckets) *)
         match get_slot st slot with
         | Some s => let bk := map zN (skipn 2 a) in
                     (st, [Nz (cm_lower_bound s bk); Nz (cm_upper_bound s bk (err_fn mx (cm_nb s) (cm_total s)))])
         | None => (st, EMPTY) end
  | _ => (st, PANIC)
  end.

Fixpoint run_from (cfg : list Z) (st : slots) (ops : list zop) : list (list Z) :=
  match ops with
  | [] => []
  | o :: r => let '(st', ob) := step cfg st o in ob :: run_from cfg st' r
  end.

(* ops 12 / 13 / 14 = update / estimate / bounds of an item that is not an i64 (string, tuple, u128,
   byte slice: std's Hash impl makes several writes or one long write).  Their arguments are
   slot :: id :: [weight ::] buckets (num_hashes of them) :: kind :: payload; only the crate looks at
   the payload, the model and the oracles see the item's id and its reference buckets, i.e. the
   ops 1 / 2 / 11. *)
Definition norm_op (cfg : list Z) (o : zop) : zop :=
  let nh := Z.to_nat (nth 1 cfg 0) in
  let '(code, a) := o in
  match code with
  | 12 => (1, firstn (3 + nh) a)
  | 13 => (2, firstn (2 + nh) a)
  | 14 => (11, firstn (2 + nh) a)
  | _ => o
  end.
Definition norm_case (c : case) : case := mkCase (c_cfg c) (map (norm_op (c_cfg c)) (c_ops c)) (c_obs c).

Definition run (cfg : list Z) (ops : list zop) : list (list Z) :=
  run_from cfg (repeat None 8) (map (norm_op cfg) ops).

(* ---------- property oracle (the Spec, not the model) ----------
   Tracks, per slot, the exact (scaled) truth of every item as an association list and
   the exact total; an [est] observation must satisfy truth <= est <= total, and a
   [total] observation must equal the exact total. *)
Definition truth_map := list (Z * N).
Fixpoint tm_add (m : truth_map) (x : Z) (w : N) : truth_map :=
  match m with
  | [] => [(x, w)]
  | (y, v) :: r => if x =? y then (y, (v + w)%N) :: r else (y, v) :: tm_add r x w
  end.
Fixpoint tm_get (m : truth_map) (x : Z) : N :=
  match m with [] => 0%N | (y, v) :: r => if x =? y then v else tm_get r x end.
Fixpoint tm_merge (a b : truth_map) : truth_map :=
  match b with [] => a | (y, v) :: r => tm_merge (tm_add a y v) r end.

Definition ospec := list (option (truth_map * N)).   (* per slot: truths, total *)
Definition og (st : ospec) (i : Z) : option (truth_map * N) := nth (Z.to_nat i) st None.
Definition op_ (st : ospec) (i : Z) (v : option (truth_map * N)) : ospec := set_nth (Z.to_nat i) v st.

(* observations of exactly one / two fields (anything else is not the shape the op produces) *)
Definition ob1 (ob : list Z) : option Z := match ob with [x] => Some x | _ => None end.
Definition ob2 (ob : list Z) : option (Z * Z) := match ob with [x; y] => Some (x, y) | _ => None end.
Definition is_unit_ob (ob : list Z) : bool := match ob with [] => true | _ => false end.

(* the assumption of c08_decay_is_admissible_scaling, checked on every value the oracle sees: the float part of
   decay is monotone on them (and, redundantly with the clamp, the clamped function never grows a value) *)
Fixpoint nodupN (l : list N) : list N :=
  match l with [] => [] | x :: r => if existsb (N.eqb x) r then nodupN r else x :: nodupN r end.
Definition mono_on (f : N -> N) (vals : list N) : bool :=
  let l := nodupN vals in
  forallb (fun a => forallb (fun b => (b <? a)%N || (f a <=? f b)%N) l) l &&
  forallb (fun a => (decay_clamp f a <=? a)%N) l.

(* per slot: None = no sketch / history unknown (after a deserialize of foreign bytes), nothing is judged *)
Fixpoint prop_from (cfg : list Z) (st : ospec) (ops : list zop) (obs : list (list Z)) : bool :=
  match ops, obs with
  | [], [] => true
  | (code, a) :: r, ob :: obr =>
      let slot := nth 0 a 0 in let mx := ty_max (nth 0 cfg 0) in
      (* no generator of this family makes a call that may panic: a panic is never what the property allows *)
      if list_eqb Z.eqb ob PANIC then false else
      match code with
      | 0 => is_unit_ob ob && prop_from cfg (op_ st slot (Some ([], 0%N))) r obr
      | 1 => match og st slot with
             | Some (m, t) => is_unit_ob ob &&
                 prop_from cfg (op_ st slot (Some (tm_add m (nth 1 a 0) (zN (nth 2 a 0)), N.add t (zN (nth 2 a 0))))) r obr
             | None => prop_from cfg st r obr end
      | 2 => match og st slot with
             | Some (m, t) =>
                 match ob1 ob with
                 | Some e => (0 <=? e) && N.leb (tm_get m (nth 1 a 0)) (zN e) && N.leb (zN e) t && prop_from cfg st r obr
                 | None => false end
             | None => prop_from cfg st r obr end
      | 4 => match og st slot, og st (nth 1 a 0) with
             | Some (m, t), Some (m2, t2) => is_unit_ob ob && prop_from cfg (op_ st slot (Some (tm_merge m m2, (t + t2)%N))) r obr
             | _, _ => prop_from cfg (op_ st slot None) r obr end
      | 5 => match og st slot with
             | Some (m, t) => is_unit_ob ob &&
                 prop_from cfg (op_ st slot (Some (map (fun p => (fst p, (snd p / 2)%N)) m, (t / 2)%N))) r obr
             | None => prop_from cfg st r obr end
      | 6 => match og st slot with
             | Some (m, t) => let f := decay_fn mx (nth 1 a 0) in let g := decay_clamp f in
                 is_unit_ob ob && mono_on f (t :: map snd m) &&
                 prop_from cfg (op_ st slot (Some (map (fun p => (fst p, g (snd p))) m, g t))) r obr
             | None => prop_from cfg st r obr end
      | 8 => match og st slot with
             | Some (m, t) => match ob1 ob with Some v => (Nz t =? v) && prop_from cfg st r obr | None => false end
             | None => prop_from cfg st r obr end
      | 11 => match og st slot with
              | Some (m, t) =>
                  match ob2 ob with
                  | Some (lo, hi) =>
                      (* truth <= lower_bound <= upper_bound <= T::MAX (an upper bound below the estimate is D15's symptom) *)
                      (0 <=? lo) && N.leb (tm_get m (nth 1 a 0)) (zN lo) && (lo <=? hi) && (hi <=? Nz mx) && prop_from cfg st r obr
                  | None => false end
              | None => prop_from cfg st r obr end
      | 9 => (* arbitrary image: the slot's history is unknown from here on; the other slots are still judged *)
             prop_from cfg (op_ st slot None) r obr
      | 10 => prop_from cfg (op_ st (nth 1 a 0) (og st slot)) r obr
      | _ => prop_from cfg st r obr
      end
  | _, _ => false
  end.

Definition prop_ok (c : case) : bool :=
  prop_from (c_cfg c) (repeat None 8) (map (norm_op (c_cfg c)) (c_ops c)) (c_obs c).

(* ---------- C11: deserialize(serialize(s)) behaves exactly as s (twin oracle) ---------- *)
Definition prop_roundtrip : case -> bool := twin_oracle 10 [0; 9].

(* ---------- C12 / C18: the emitted bytes decode, with the independent layout decoder, to the
   exact table the Spec computes from the history; image size is fixed by the configuration ---- *)
Definition spec_state := (N * list N)%type.     (* total, row-major exact table *)
Fixpoint spec_add (nb w row : N) (bk : list N) (t : list N) : list N :=
  match bk with
  | [] => t
  | b :: r => let i := (row * nb + b)%N in spec_add nb w (row + 1)%N r (set_nthN i (nthN t i 0 + w)%N t)
  end.
Definition sg (st : list (option spec_state)) (i : Z) := nth (Z.to_nat i) st None.
Definition sp (st : list (option spec_state)) (i : Z) v := set_nth (Z.to_nat i) v st.

(* exact estimate from the exact table: min over the rows of the item's cells (starting from T::MAX) *)
Fixpoint spec_min (nb row : N) (bk : list N) (t : list N) (acc : N) : N :=
  match bk with
  | [] => acc
  | b :: r => spec_min nb (row + 1)%N r t (N.min acc (nthN t (row * nb + b)%N 0%N))
  end.

(* [strict] (C13): a deserialize op whose image is valid under the format (the independent decoder
   reads it and the decoded state is admissible for the counter type) MUST be accepted, and from
   then on the slot holds exactly the decoded table. *)
Fixpoint layout_from (strict : bool) (cfg : list Z) (st : list (option spec_state)) (ops : list zop) (obs : list (list Z)) : bool :=
  match ops, obs with
  | (code, a) :: r, ob :: obr =>
      let nh := zN (nth 1 cfg 0) in let nb := zN (nth 2 cfg 0) in let sh := zN (nth 4 cfg 0) in
      let mx := ty_max (nth 0 cfg 0) in
      let slot := nth 0 a 0 in
      if list_eqb Z.eqb ob PANIC then false else
      match code with
      | 0 => layout_from strict cfg (sp st slot (Some (0%N, repeat 0%N (N.to_nat (nh * nb))))) r obr
      | 1 => match sg st slot with
             | Some (t, tab) => let w := zN (nth 2 a 0) in
                 layout_from strict cfg (sp st slot (Some (N.add t w, spec_add nb w 0 (map zN (skipn 3 a)) tab))) r obr
             | None => layout_from strict cfg st r obr end
      | 2 => match sg st slot with
             | Some (t, tab) => (match ob1 ob with Some e => Nz (spec_min nb 0 (map zN (skipn 2 a)) tab mx) =? e | None => false end)
                                && layout_from strict cfg st r obr
             | None => layout_from strict cfg st r obr end
      | 3 => match sg st slot with
             | Some (t, tab) =>
                 let bytes := map zN ob in
                 (match spec_decode bytes with
                  | Some d => N.eqb (a_nb d) nb && N.eqb (a_nh d) nh && N.eqb (a_sh d) sh && N.eqb (a_total d) t &&
                              list_eqb N.eqb (a_cells d) tab
                  | None => false end) &&
                 (* C18: the size is fixed by the configuration *)
                 Nat.eqb (length ob) (if N.eqb t 0 then 16 else 16 + 8 + 8 * N.to_nat (nh * nb)) &&
                 layout_from strict cfg st r obr
             | None => layout_from strict cfg st r obr end
      | 4 => match sg st slot, sg st (nth 1 a 0) with
             | Some (t, tab), Some (t2, tab2) =>
                 layout_from strict cfg (sp st slot (Some (N.add t t2, map (fun p => N.add (fst p) (snd p)) (combine tab tab2)))) r obr
             | _, _ => layout_from strict cfg (sp st slot None) r obr end
      | 5 => match sg st slot with
             | Some (t, tab) => layout_from strict cfg (sp st slot (Some (N.div t 2, map (fun c => N.div c 2) tab))) r obr
             | None => layout_from strict cfg st r obr end
      | 6 => match sg st slot with
             | Some (t, tab) => let f := decay_fn mx (nth 1 a 0) in let g := decay_clamp f in
                 mono_on f (t :: tab) && layout_from strict cfg (sp st slot (Some (g t, map g tab))) r obr
             | None => layout_from strict cfg st r obr end
      | 8 => match sg st slot with
             | Some (t, tab) => (match ob1 ob with Some v => Nz t =? v | None => false end) && layout_from strict cfg st r obr
             | None => layout_from strict cfg st r obr end
      | 9 => if strict then
               match spec_decode (map zN (skipn 1 a)) with
               | Some d =>
                   if abs_okb mx sh d && N.eqb (a_nb d) nb && N.eqb (a_nh d) nh then
                     (* valid under the format: must be read back to exactly this state *)
                     list_eqb Z.eqb ob [1] && layout_from strict cfg (sp st slot (Some (a_total d, a_cells d))) r obr
                   else layout_from strict cfg (sp st slot None) r obr
               | None => layout_from strict cfg (sp st slot None) r obr
               end
             else layout_from strict cfg (sp st slot None) r obr      (* arbitrary image: unknown history *)
      | 10 => layout_from strict cfg (sp st (nth 1 a 0) (sg st slot)) r obr
      | 11 => match sg st slot with
              | Some (t, tab) => let e := spec_min nb 0 (map zN (skipn 2 a)) tab mx in
                  (* lower_bound is the exact minimum; upper_bound never falls below it nor exceeds T::MAX *)
                  (match ob2 ob with Some (lo, hi) => (Nz e =? lo) && (Nz e <=? hi) && (hi <=? Nz mx) | None => false end)
                  && layout_from strict cfg st r obr
              | None => layout_from strict cfg st r obr end
      | _ => layout_from strict cfg st r obr
      end
  | [], [] => true
  | _, _ => false
  end.
Definition prop_layout (c : case) : bool :=
  layout_from false (c_cfg c) (repeat None 8) (map (norm_op (c_cfg c)) (c_ops c)) (c_obs c).
(* C13: every image valid under the format is read back to the state it encodes *)
Definition prop_foreign (c : case) : bool :=
  layout_from true (c_cfg c) (repeat None 8) (map (norm_op (c_cfg c)) (c_ops c)) (c_obs c).

Definition no_panic : case -> bool := no_panic_oracle.

(* oracles by number (tools/families/countmin.py: ORACLES) *)
Definition oracles : list (Z * (case -> bool)) :=
  [(0, prop_ok); (1, prop_roundtrip); (2, prop_layout); (3, no_panic); (4, prop_foreign)].
