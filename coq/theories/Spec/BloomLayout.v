(* The Bloom filter image layout, written from the format description (DESIGN.md Appendix A),
   NOT from the Rust code and not from the model: the "independent decoder" of C12 and the
   "independent encoder" of C13.  Every constant below is a literal of the format.
   Definitions only.

   Bloom image (serial version 1), all multi-byte fields little-endian:
     byte 0      preamble longs: 3 for the short (empty) form, 4 for the long form
     byte 1      serial version = 1
     byte 2      family id = 21
     byte 3      flags; bit 2 (mask 4) = EMPTY: no bit count and no bit array follow
     bytes 4-5   number of hash functions, u16 (a positive Java short: 1 .. 32767)
     bytes 6-7   unused
     bytes 8-15  hash seed, u64
     bytes 16-19 length of the bit array in 64-bit words, i32, positive
     bytes 20-23 unused
   long form only:
     bytes 24-31 number of bits set, u64; 0xFFFFFFFFFFFFFFFF (-1) = "dirty": the reader recounts
     bytes 32-   the words of the bit array; bit i of the filter is bit (i mod 64) of word (i / 64)
   Doubt recorded rather than turned into an alarm: whether a reader insists on preamble longs
   = 3 exactly for the short form and 4 exactly for the long form; the decoder takes 3 or 4 for
   either. *)
From DS Require Import Base.Prelude.
Open Scope N_scope.

Record bloom_abs := mkAbs {
  a_nh    : N;        (* number of hash functions *)
  a_seed  : N;        (* hash seed *)
  a_nw    : N;        (* number of 64-bit words of the bit array *)
  a_words : list N;   (* the bit set, as the words of the array *)
  a_count : N         (* number of elements of the bit set *)
}.

(* cardinality of the set: ones among the 64 low bits of every word, counted bit by bit *)
Definition spec_bits64 : list N := map N.of_nat (seq 0 64).
Definition spec_popcount (w : N) : N := N.of_nat (length (filter (N.testbit w) spec_bits64)).
Fixpoint spec_count (ws : list N) : N :=
  match ws with [] => 0 | w :: r => spec_popcount w + spec_count r end.

(* membership of position p in the set *)
Definition spec_mem (ws : list N) (p : N) : bool := N.testbit (nthN ws (p / 64) 0) (p mod 64).

(* the set as a characteristic vector: entry 64*j + i is bit i of word j *)
Definition spec_set (ws : list N) : list bool := flat_map (fun w => map (N.testbit w) spec_bits64) ws.

Fixpoint spec_words (n : nat) (bs : list N) : option (list N) :=
  match n with
  | O => Some []
  | S n' => if (length bs <? 8)%nat then None
            else match spec_words n' (skipn 8 bs) with
                 | Some r => Some (le_val (firstn 8 bs) :: r)
                 | None => None
                 end
  end.

Definition spec_decode (bs : list N) : option bloom_abs :=
  if (length bs <? 24)%nat then None else
  let pre := nth 0 bs 0 in
  if negb (((pre =? 3) || (pre =? 4)) && (nth 1 bs 0 =? 1) && (nth 2 bs 0 =? 21)) then None else
  let nh := le_val (firstn 2 (skipn 4 bs)) in
  let seed := le_val (firstn 8 (skipn 8 bs)) in
  let nw := le_val (firstn 4 (skipn 16 bs)) in
  if (nh =? 0) || (32767 <? nh) then None else
  if (nw =? 0) || (2147483647 <? nw) then None else
  if N.testbit (nth 3 bs 0) 2 then Some (mkAbs nh seed nw (repeat 0 (N.to_nat nw)) 0)
  else
    (* the count and the whole array must be present *)
    if N.of_nat (length bs) <? 32 + 8 * nw then None else
    let c := le_val (firstn 8 (skipn 24 bs)) in
    match spec_words (N.to_nat nw) (skipn 32 bs) with
    | Some ws =>
        if c =? 18446744073709551615 then Some (mkAbs nh seed nw ws (spec_count ws))
        else if c =? spec_count ws then Some (mkAbs nh seed nw ws c)
        else None
    | None => None
    end.

(* ---------- the images a conforming (Java / C++) writer can emit for an abstract state ----------
   short form: only for the empty set (Java and C++ write empty filters in the short form);
   long form with the exact count; long form with the "dirty" marker -1 in the count field (a
   writer whose cached count is stale).  The two unused fields and the seven undefined flag bits are
   written as 0 by the known writers; a reader must ignore them, so they are parameters here. *)
Inductive form := FShort | FLongExact | FLongDirty.
(* v_flags: the flags byte a writer emits apart from bit 2.  Only bit 2 (EMPTY) is defined by the format; the known
   writers leave the other seven bits 0, a reader must not look at them: they are arbitrary here. *)
Record variant := mkVar { v_form : form; v_pad16 : N; v_pad32 : N; v_flags : N }.

Definition is_short (v : variant) : bool := match v_form v with FShort => true | _ => false end.

(* the flags byte: bit 2 set exactly in the short form, every other bit as the writer pleases *)
Definition flags_byte (v : variant) : N := N.lor (N.ldiff (v_flags v) 4) (if is_short v then 4 else 0).

Definition enc_spec (v : variant) (a : bloom_abs) : list N :=
  [ (if is_short v then 3 else 4); 1; 21; flags_byte v ]
  ++ le_bytes 2 (a_nh a) ++ le_bytes 2 (v_pad16 v)
  ++ le_bytes 8 (a_seed a)
  ++ le_bytes 4 (a_nw a) ++ le_bytes 4 (v_pad32 v)
  ++ match v_form v with
     | FShort => []
     | FLongExact => le_bytes 8 (a_count a) ++ flat_map (le_bytes 8) (a_words a)
     | FLongDirty => le_bytes 8 18446744073709551615 ++ flat_map (le_bytes 8) (a_words a)
     end.

(* the short form can only denote the empty set *)
Definition variant_ok (v : variant) (a : bloom_abs) : Prop := v_form v = FShort -> a_count a = 0.

(* abstract states of the format *)
Record abs_wf (a : bloom_abs) : Prop := mkAbsWf {
  aw_nh    : 1 <= a_nh a <= 32767;
  aw_seed  : a_seed a < 18446744073709551616;
  aw_nw    : 1 <= a_nw a <= 2147483647;
  aw_len   : length (a_words a) = N.to_nat (a_nw a);
  aw_words : Forall (fun w => w < 18446744073709551616) (a_words a);
  aw_count : a_count a = spec_count (a_words a)
}.
