(* The t-digest image layouts, written from the format description (DESIGN.md Appendix A), NOT from
   the Rust code: the "independent decoder" of C12 and the foreign-image encoder of C13.
   Definitions only.

   DataSketches t-digest image (little-endian):
     byte 0  preamble longs: 1 (empty or single value) / 2        byte 1  serial version = 1
     byte 2  family id = 20                                       bytes 3-4  k (u16)
     byte 5  flags: bit 0 EMPTY, bit 1 SINGLE_VALUE, bit 2 REVERSE_MERGE      bytes 6-7  unused
     empty:  nothing more
     single: the value at byte 8 (f64; f32 in the float flavour)
     else:   num_centroids u32 @8, num_buffered u32 @12, min, max, then num_centroids pairs
             (mean, weight) -- (f64, u64) or, in the float flavour, (f32, u32) --, then num_buffered values.
   Reference implementation (tdunning/t-digest), big-endian, recognised by three leading zero bytes:
     i32 type = 1 (asBytes):      f64 min, f64 max, f64 compression, i32 n, then n pairs (f64 weight, f64 mean)
     i32 type = 2 (asSmallBytes): f64 min, f64 max, f32 compression, i16 + i16 (buffer sizes, unused),
                                  i16 n, then n pairs (f32 weight, f32 mean)
   The sketch itself holds doubles: f32 fields denote their exact f64 value. *)
From DS Require Import Base.Prelude Base.TDigestBits.
Open Scope N_scope.

(* what an image says: k, the REVERSE_MERGE flag, min/max (None for an empty digest), centroids
   (mean as f64 bits, integer weight), buffered values (f64 bits) *)
Record td_abs := mkTdAbs {
  a_k : N; a_rev : bool; a_minmax : option (N * N); a_cs : list (N * N); a_buf : list N }.

Inductive flavour := Double | Float.
Definition vsize (f : flavour) : nat := match f with Double => 8%nat | Float => 4%nat end.
Definition value_of (f : flavour) (raw : N) : N := match f with Double => raw | Float => f64_of_f32 raw end.

Definition field (off n : nat) (bs : list N) : N := le_val (firstn n (skipn off bs)).
Definition field_be (off n : nat) (bs : list N) : N := le_val (rev (firstn n (skipn off bs))).

Fixpoint spec_pairs (f : flavour) (n : nat) (off : nat) (bs : list N) : list (N * N) :=
  match n with
  | O => []
  | S n' => (value_of f (field off (vsize f) bs), field (off + vsize f) (vsize f) bs)
            :: spec_pairs f n' (off + vsize f + vsize f) bs
  end.

Fixpoint spec_values (f : flavour) (n : nat) (off : nat) (bs : list N) : list N :=
  match n with
  | O => []
  | S n' => value_of f (field off (vsize f) bs) :: spec_values f n' (off + vsize f) bs
  end.

Definition spec_decode (f : flavour) (bs : list N) : option td_abs :=
  if (length bs <? 8)%nat then None else
  if negb ((nth 1 bs 0 =? 1) && (nth 2 bs 0 =? 20)) then None else
  let k := field 3 2 bs in
  let flags := nth 5 bs 0 in
  let rv := N.testbit flags 2 in
  if N.testbit flags 0 then
    (if nth 0 bs 0 =? 1 then Some (mkTdAbs k false None [] []) else None)   (* REVERSE_MERGE has no meaning without centroids *)
  else if N.testbit flags 1 then
    if negb (nth 0 bs 0 =? 1) || (length bs <? 8 + vsize f)%nat then None else
    let v := value_of f (field 8 (vsize f) bs) in
    Some (mkTdAbs k rv (Some (v, v)) [(v, 1)] [])
  else
    if negb (nth 0 bs 0 =? 2) || (length bs <? 16 + 2 * vsize f)%nat then None else
    let nc := N.to_nat (field 8 4 bs) in
    let nb := N.to_nat (field 12 4 bs) in
    let start := (16 + 2 * vsize f)%nat in
    if (length bs <? start + nc * (2 * vsize f) + nb * vsize f)%nat then None else
    Some (mkTdAbs k rv
            (Some (value_of f (field 16 (vsize f) bs), value_of f (field (16 + vsize f) (vsize f) bs)))
            (spec_pairs f nc start bs)
            (spec_values f nb (start + nc * (2 * vsize f)) bs)).

(* reference implementation: (weight, mean) pairs, weights stored as floating point numbers *)
Fixpoint spec_ref_pairs (f : flavour) (n : nat) (off : nat) (bs : list N) : list (N * N) :=
  match n with
  | O => []
  | S n' => (value_of f (field_be (off + vsize f) (vsize f) bs),
             uint_of_f64 U64MAX (value_of f (field_be off (vsize f) bs)))
            :: spec_ref_pairs f n' (off + vsize f + vsize f) bs
  end.

Definition spec_decode_ref (bs : list N) : option td_abs :=
  if (length bs <? 4)%nat then None else
  let ty := field_be 0 4 bs in
  if ty =? 1 then
    if (length bs <? 32)%nat then None else
    let n := N.to_nat (field_be 28 4 bs) in
    if (length bs <? 32 + n * 16)%nat then None else
    Some (mkTdAbs (uint_of_f64 U16MAX (field_be 20 8 bs)) false (Some (field_be 4 8 bs, field_be 12 8 bs))
            (spec_ref_pairs Double n 32 bs) [])
  else if ty =? 2 then
    if (length bs <? 30)%nat then None else
    let n := N.to_nat (field_be 28 2 bs) in
    if (length bs <? 30 + n * 8)%nat then None else
    Some (mkTdAbs (uint_of_f64 U16MAX (f64_of_f32 (field_be 20 4 bs))) false (Some (field_be 4 8 bs, field_be 12 8 bs))
            (spec_ref_pairs Float n 30 bs) [])
  else None.

(* ---------------- C13: admissible contents ---------------- *)
(* what a conforming writer (Java, C++, the reference implementation) can hold: k in the range every
   implementation accepts (10 ..= 65535), finite values, positive integer weights whose total fits
   64 bits, min / max present (and not NaN) exactly when there is data *)
Definition fin64 (b : N) : bool := negb (is_nan64 b) && negb (is_inf64 b).
Definition no_items (a : td_abs) : bool := match a_cs a, a_buf a with [], [] => true | _, _ => false end.
Definition abs_weight (a : td_abs) : N := fold_right (fun c acc => snd c + acc) 0 (a_cs a).
Definition abs_admissible (a : td_abs) : bool :=
  (10 <=? a_k a) &&
  forallb (fun c => fin64 (fst c) && (1 <=? snd c)) (a_cs a) &&
  forallb fin64 (a_buf a) &&
  (abs_weight a + N.of_nat (length (a_buf a)) <? 18446744073709551616) &&
  match a_minmax a with
  | None => no_items a
  | Some (mn, mx) => negb (is_nan64 mn) && negb (is_nan64 mx) && negb (no_items a)
  end.

Definition is_ref_image (bs : list N) : bool := (nth 0 bs 1 =? 0) && (nth 1 bs 1 =? 0) && (nth 2 bs 1 =? 0).
Definition spec_decode_any (f : flavour) (bs : list N) : option td_abs :=
  if is_ref_image bs then spec_decode_ref bs else spec_decode f bs.
