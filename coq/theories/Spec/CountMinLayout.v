(* The Count-Min image layout, written from the format description (NOT from the Rust code):
   the "independent decoder" of C12.  Definitions only. *)
From DS Require Import Base.Prelude.
Open Scope N_scope.

(* Count-Min image (C++ layout): byte 0 preamble longs = 2, byte 1 serial version = 1, byte 2
   family id = 18, byte 3 flags (bit 0 = empty), bytes 4..7 unused; u32 num_buckets @8, u8
   num_hashes @12, u16 seed hash @13, byte 15 unused; if not empty: total weight (8 bytes LE) @16,
   then num_hashes * num_buckets cells of 8 bytes LE, row-major. *)
Record cm_abs := mkAbs { a_nb : N; a_nh : N; a_sh : N; a_total : N; a_cells : list N }.

Fixpoint spec_cells (n : nat) (bs : list N) : option (list N) :=
  match n with
  | O => Some []
  | S n' => if (length bs <? 8)%nat then None
            else match spec_cells n' (skipn 8 bs) with
                 | Some r => Some (le_val (firstn 8 bs) :: r)
                 | None => None
                 end
  end.

Definition spec_decode (bs : list N) : option cm_abs :=
  if (length bs <? 16)%nat then None else
  if negb ((nth 0 bs 0 =? 2) && (nth 1 bs 0 =? 1) && (nth 2 bs 0 =? 18)) then None else
  let nb := le_val (firstn 4 (skipn 8 bs)) in
  let nh := nth 12 bs 0 in
  let sh := le_val (firstn 2 (skipn 13 bs)) in
  if N.testbit (nth 3 bs 0) 0 then Some (mkAbs nb nh sh 0 (repeat 0 (N.to_nat (nh * nb))))
  else match spec_cells (S (N.to_nat (nh * nb))) (skipn 16 bs) with
       | Some (t :: cs) => Some (mkAbs nb nh sh t cs)
       | _ => None
       end.

