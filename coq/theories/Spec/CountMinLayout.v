(* The Count-Min image layout, written from the format description (NOT from the Rust code):
   the "independent decoder" of C12.  Definitions only. *)
From DS Require Import Base.Prelude.
Open Scope N_scope.

(* Count-Min image (C++ layout): byte 0 preamble longs = 2, byte 1 serial version = 1, byte 2
   family id = 18, byte 3 flags (bit 0 = empty), bytes 4..7 unused; u32 num_buckets @8, u8
   num_hashes @12, u16 seed hash @13, byte 15 unused; if not empty: total weight (8 bytes LE) @16,
   then num_hashes * num_buckets cells of 8 bytes LE, row-major. *)
Record cm_abs := mkAbs { a_nb : N; a_nh : N; a_sh : N; a_total : N; a_cells : list N }.

Fixpoint spec_cells (n : nat) (bs : list N) : option (list N) :=
  match n with
  | O => Some []
  | S n' => if (length bs <? 8)%nat then None
            else match spec_cells n' (skipn 8 bs) with
                 | Some r => Some (le_val (firstn 8 bs) :: r)
                 | None => None
                 end
  end.

Definition spec_decode (bs : list N) : option cm_abs :=
  if (length bs <? 16)%nat then None else
  if negb ((nth 0 bs 0 =? 2) && (nth 1 bs 0 =? 1) && (nth 2 bs 0 =? 18)) then None else
  let nb := le_val (firstn 4 (skipn 8 bs)) in
  let nh := nth 12 bs 0 in
  let sh := le_val (firstn 2 (skipn 13 bs)) in
  if N.testbit (nth 3 bs 0) 0 then Some (mkAbs nb nh sh 0 (repeat 0 (N.to_nat (nh * nb))))
  else match spec_cells (S (N.to_nat (nh * nb))) (skipn 16 bs) with
       | Some (t :: cs) => Some (mkAbs nb nh sh t cs)
       | _ => None
       end.


(* ---------- C13: the images a foreign (C++) writer can emit ----------
   Count-Min exists in C++ only (count_min_sketch<W>::serialize, W = 8-byte weights).  The writer
   fills the unused fields with zeros, but they are *unused*: a conforming reader must ignore
   whatever they hold, so the variant carries their contents.  An empty sketch (total weight 0)
   is written as the 16-byte header with flag bit 0 set and no table. *)
Record cm_variant := mkVar {
  v_unused32 : N;      (* bytes 4..7  *)
  v_unused8  : N;      (* byte 15     *)
  v_flag_hi  : N       (* flag bits 1..7 (undefined by the format), as a multiple of 2 *)
}.

Definition variant_ok (v : cm_variant) : Prop :=
  v_unused32 v < 4294967296 /\ v_unused8 v < 256 /\ v_flag_hi v < 256 /\ v_flag_hi v mod 2 = 0.

Definition canonical_variant : cm_variant := mkVar 0 0 0.

Definition spec_encode (v : cm_variant) (a : cm_abs) : list N :=
  [2; 1; 18; (if a_total a =? 0 then 1 else 0) + v_flag_hi v]
  ++ le_bytes 4 (v_unused32 v)
  ++ le_bytes 4 (a_nb a) ++ [a_nh a] ++ le_bytes 2 (a_sh a) ++ [v_unused8 v]
  ++ (if a_total a =? 0 then []
      else le_bytes 8 (a_total a) ++ flat_map (le_bytes 8) (a_cells a)).

(* abstract states a writer can hold for a counter type with maximum mx and seed hash sh *)
Definition abs_ok (mx sh : N) (a : cm_abs) : Prop :=
  1 <= a_nh a < 256 /\ 3 <= a_nb a < 4294967296 /\ a_nh a * a_nb a < 1073741824 /\
  a_sh a = sh /\ sh < 65536 /\ mx < 18446744073709551616 /\
  a_total a <= mx /\ Forall (fun c => c <= mx) (a_cells a) /\
  (* a table built by updates and merges: no counter exceeds the total weight *)
  Forall (fun c => c <= a_total a) (a_cells a) /\
  length (a_cells a) = N.to_nat (a_nh a * a_nb a) /\
  (a_total a = 0 -> a_cells a = repeat 0 (N.to_nat (a_nh a * a_nb a))).

(* boolean version, for the oracle of the correspondence check *)
Definition abs_okb (mx sh : N) (a : cm_abs) : bool :=
  (1 <=? a_nh a) && (a_nh a <? 256) && (3 <=? a_nb a) && (a_nb a <? 4294967296) &&
  (a_nh a * a_nb a <? 1073741824) && (a_sh a =? sh) && (a_total a <=? mx) &&
  forallb (fun c => c <=? mx) (a_cells a) && forallb (fun c => c <=? a_total a) (a_cells a) &&
  Nat.eqb (length (a_cells a)) (N.to_nat (a_nh a * a_nb a)) &&
  (negb (a_total a =? 0) || forallb (fun c => c =? 0) (a_cells a)).
