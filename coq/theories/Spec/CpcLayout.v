(* The CPC sketch image layout, written from the format description (DESIGN.md Appendix A and the published
   Java/C++ preamble layout), NOT from the Rust code and not from the model: the "independent decoder" of
   C12.  Every constant below is a literal of the format.  Definitions only.

   CPC image (serial version 1, compressed form only), all multi-byte fields little-endian, an "int" is 4 bytes:
     byte 0      preamble ints (see the table below)
     byte 1      serial version = 1
     byte 2      family id = 16
     byte 3      lgK (4 .. 26)
     byte 4      first interesting column (0 .. 63)
     byte 5      flags: bit 1 COMPRESSED (always set), bit 2 HAS_HIP, bit 3 HAS_SV (surprising-value table),
                 bit 4 HAS_WINDOW
     bytes 6-7   seed hash, u16
   The three flag bits HIP, SV, WINDOW select one of eight formats; the number of preamble ints is a FIXED
   function of the format (this table is the format's, it is not derived from any helper of the crate):
     format = HIP + 2*SV + 4*WINDOW      preamble ints     ints 2.. of the preamble
       0 EMPTY_MERGED                         2
       1 EMPTY_HIP                            2
       2 SPARSE_HYBRID_MERGED                 4            numCoupons, svLengthInts
       3 SPARSE_HYBRID_HIP                    8            numCoupons, svLengthInts, kxp (f64), hipAccum (f64)
       4 PINNED_SLIDING_MERGED_NOSV           4            numCoupons, wLengthInts
       5 PINNED_SLIDING_HIP_NOSV              8            numCoupons, wLengthInts, kxp, hipAccum
       6 PINNED_SLIDING_MERGED                6            numCoupons, numSV, svLengthInts, wLengthInts
       7 PINNED_SLIDING_HIP                  10            numCoupons, numSV, kxp, hipAccum, svLengthInts, wLengthInts
   After the preamble: the window stream (wLengthInts ints) if present, then the surprising-value stream
   (svLengthInts ints) if present.  The image is exactly 4 * (preamble ints + wLengthInts + svLengthInts) bytes.
   Without a window the number of surprising values is numCoupons.
   The compressed streams themselves are opaque here (their coders are the subject of C11). *)
From DS Require Import Base.Prelude.
Open Scope N_scope.

Record cpc_abs := mkCA {
  ca_lgk : N;
  ca_fic : N;
  ca_seedhash : N;
  ca_hip : option (N * N);        (* Some (kxp bits, hipAccum bits) in the HIP formats, None when merged *)
  ca_num : N;                     (* number of coupons *)
  ca_sv : option (N * list N);    (* Some (number of surprising values, stream words) iff HAS_SV *)
  ca_win : option (list N)        (* Some (stream words) iff HAS_WINDOW *)
}.

Definition spec_preints : list N := [2; 2; 4; 8; 4; 8; 6; 10].

Definition u32_at (bs : list N) (i : N) : N := le_val (firstn 4 (skipn (N.to_nat (4 * i)) bs)).
Definition u64_at (bs : list N) (i : N) : N := le_val (firstn 8 (skipn (N.to_nat (4 * i)) bs)).

Fixpoint spec_words (n : nat) (bs : list N) : list N :=
  match n with
  | O => []
  | S n' => le_val (firstn 4 bs) :: spec_words n' (skipn 4 bs)
  end.

Definition words_at (bs : list N) (i n : N) : list N := spec_words (N.to_nat n) (skipn (N.to_nat (4 * i)) bs).

Definition spec_decode (bs : list N) : option cpc_abs :=
  if (length bs <? 8)%nat then None else
  let pre := nth 0 bs 0 in
  let lgk := nth 3 bs 0 in
  let fic := nth 4 bs 0 in
  let flags := nth 5 bs 0 in
  let sh := le_val (firstn 2 (skipn 6 bs)) in
  if negb ((nth 1 bs 0 =? 1) && (nth 2 bs 0 =? 16)) then None else
  if negb (N.testbit flags 1) then None else                       (* only the compressed form exists *)
  if negb ((4 <=? lgk) && (lgk <=? 26) && (fic <=? 63)) then None else
  let hip := N.testbit flags 2 in
  let sv := N.testbit flags 3 in
  let win := N.testbit flags 4 in
  let fmt := (if hip then 1 else 0) + (if sv then 2 else 0) + (if win then 4 else 0) in
  if negb (pre =? nthN spec_preints fmt 0) then None else
  let total (w s : N) := N.of_nat (length bs) =? 4 * (pre + w + s) in
  match fmt with
  | 0 => if total 0 0 then Some (mkCA lgk fic sh None 0 None None) else None
  | 1 => if total 0 0 then Some (mkCA lgk fic sh (Some (0, 0)) 0 None None) else None
        (* an empty HIP sketch carries no registers in the image: kxp = K and hipAccum = 0 are implied;
           the abstract state records (0, 0) for "not stored" *)
  | _ =>
    if (N.of_nat (length bs) <? 4 * pre) then None else
    let num := u32_at bs 2 in
    if num =? 0 then None else
    match fmt with
    | 2 => let sl := u32_at bs 3 in
           if total 0 sl then Some (mkCA lgk fic sh None num (Some (num, words_at bs pre sl)) None) else None
    | 3 => let sl := u32_at bs 3 in
           if total 0 sl then Some (mkCA lgk fic sh (Some (u64_at bs 4, u64_at bs 6)) num (Some (num, words_at bs pre sl)) None)
           else None
    | 4 => let wl := u32_at bs 3 in
           if total wl 0 then Some (mkCA lgk fic sh None num None (Some (words_at bs pre wl))) else None
    | 5 => let wl := u32_at bs 3 in
           if total wl 0 then Some (mkCA lgk fic sh (Some (u64_at bs 4, u64_at bs 6)) num None (Some (words_at bs pre wl)))
           else None
    | 6 => let nsv := u32_at bs 3 in let sl := u32_at bs 4 in let wl := u32_at bs 5 in
           if total wl sl
           then Some (mkCA lgk fic sh None num (Some (nsv, words_at bs (pre + wl) sl)) (Some (words_at bs pre wl)))
           else None
    | _ => let nsv := u32_at bs 3 in let sl := u32_at bs 8 in let wl := u32_at bs 9 in
           if total wl sl
           then Some (mkCA lgk fic sh (Some (u64_at bs 4, u64_at bs 6)) num (Some (nsv, words_at bs (pre + wl) sl))
                           (Some (words_at bs pre wl)))
           else None
    end
  end.

(* ---------- the image a conforming writer emits for an abstract state ---------- *)
Definition fmt_of (a : cpc_abs) : N :=
  (match ca_hip a with Some _ => 1 | None => 0 end) + (match ca_sv a with Some _ => 2 | None => 0 end)
  + (match ca_win a with Some _ => 4 | None => 0 end).

Definition enc_words (ws : list N) : list N := flat_map (le_bytes 4) ws.
Definition lenN {A} (l : list A) : N := N.of_nat (length l).

Definition enc_spec (a : cpc_abs) : list N :=
  let fmt := fmt_of a in
  let flags := 2 + (match ca_hip a with Some _ => 4 | None => 0 end) + (match ca_sv a with Some _ => 8 | None => 0 end)
               + (match ca_win a with Some _ => 16 | None => 0 end) in
  [nthN spec_preints fmt 0; 1; 16; ca_lgk a; ca_fic a; flags] ++ le_bytes 2 (ca_seedhash a) ++
  match ca_sv a, ca_win a with
  | None, None => []
  | Some (nsv, sw), None =>
      le_bytes 4 (ca_num a) ++ le_bytes 4 (lenN sw) ++
      (match ca_hip a with Some (k, h) => le_bytes 8 k ++ le_bytes 8 h | None => [] end) ++ enc_words sw
  | None, Some ww =>
      le_bytes 4 (ca_num a) ++ le_bytes 4 (lenN ww) ++
      (match ca_hip a with Some (k, h) => le_bytes 8 k ++ le_bytes 8 h | None => [] end) ++ enc_words ww
  | Some (nsv, sw), Some ww =>
      le_bytes 4 (ca_num a) ++ le_bytes 4 nsv ++
      (match ca_hip a with Some (k, h) => le_bytes 8 k ++ le_bytes 8 h | None => [] end) ++
      le_bytes 4 (lenN sw) ++ le_bytes 4 (lenN ww) ++ enc_words ww ++ enc_words sw
  end.

(* abstract states of the format *)
Definition words_ok (ws : list N) : Prop := Forall (fun w => w < 4294967296) ws /\ lenN ws < 4294967296.

Record abs_wf (a : cpc_abs) : Prop := mkAbsWf {
  aw_lgk : 4 <= ca_lgk a <= 26;
  aw_fic : ca_fic a <= 63;
  aw_sh : ca_seedhash a < 65536;
  aw_num : ca_num a < 4294967296;
  aw_hip : match ca_hip a with Some (k, h) => k < 18446744073709551616 /\ h < 18446744073709551616 | None => True end;
  aw_empty : ca_num a = 0 <-> (ca_sv a = None /\ ca_win a = None);
  aw_empty_hip : ca_num a = 0 -> match ca_hip a with Some (k, h) => k = 0 /\ h = 0 | None => True end;
  aw_sv : match ca_sv a with
          | Some (nsv, sw) => nsv < 4294967296 /\ words_ok sw /\ (ca_win a = None -> nsv = ca_num a)
          | None => True end;
  aw_win : match ca_win a with Some ww => words_ok ww | None => True end
}.
