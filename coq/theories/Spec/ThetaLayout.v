(* The compact theta image as the DataSketches Java/C++ libraries define it, written from the
   format description (DESIGN.md Appendix A), NOT from the Rust code: an independent decoder
   [dec_spec] from bytes to the abstract compact sketch, and the encoder [enc_spec] of every
   variant a foreign writer uses.  Constants are literals of the specification; that the
   constants translated from the Rust source are the same is a separate theorem
   (Props/C12_theta.v).  Definitions only.

   All multi-byte fields little-endian.
   byte 0 preamble longs, 1 serial version, 2 family id (3), 6..8 seed hash (u16).
   serVer 3: byte 5 flags (bit1 READ_ONLY 2, bit2 EMPTY 4, bit3 COMPACT 8, bit4 ORDERED 16,
             bit5 SINGLE_ITEM 32: set by Java for one-entry sketches, never by C++/Rust);
             preLongs 1: empty, or a single entry at 8; preLongs 2: count u32 @8, entries @16;
             preLongs 3: count u32 @8, theta u64 @16, entries @24.
   serVer 4 (compressed, ordered): byte 3 entry_bits (1..63), byte 4 num_entries_bytes (1..4),
             byte 5 flags (ORDERED set, EMPTY clear); preLongs 1 exact / 2 estimating (theta u64 @8); then the count in
             num_entries_bytes bytes; then the deltas of the ascending entries, entry_bits bits
             each, as ONE big-endian bit stream (the first delta is the first entry).
   serVer 2: preLongs 1 empty / 2 exact / 3 estimating; count u32 @8; theta @16 (preLongs 3);
             entries; always ordered; empty iff no entries and theta = 2^63-1.
   serVer 1: 24-byte preamble always; count u32 @8; theta u64 @16; no seed hash; entries @24. *)
From DS Require Import Base.Prelude Base.BitExp.
Open Scope N_scope.

Definition S_MAX_THETA : N := 9223372036854775807.
Definition S_FAMILY_THETA : N := 3.
Definition S_READ_ONLY : N := 2.
Definition S_EMPTY : N := 4.
Definition S_COMPACT : N := 8.
Definition S_ORDERED : N := 16.
Definition S_SINGLE_ITEM : N := 32.

(* the abstract compact theta sketch *)
Record tabs := mkAbs {
  a_entries : list N;      (* retained hashes, in image order *)
  a_theta : N;
  a_seed_hash : N;
  a_ordered : bool;
  a_empty : bool
}.

Fixpoint asc (l : list N) : bool :=
  match l with
  | a :: ((b :: _) as r) => (a <? b) && asc r
  | _ => true
  end.

(* what an abstract state must satisfy to be a theta sketch at all *)
Definition abs_okb (a : tabs) : bool :=
  forallb (fun h => (0 <? h) && (h <? a_theta a)) (a_entries a)
  && (0 <? a_theta a) && (a_theta a <=? S_MAX_THETA)
  && (negb (a_empty a) || (match a_entries a with [] => true | _ => false end && (a_theta a =? S_MAX_THETA)))
  && (negb (a_ordered a) || asc (a_entries a))
  && (a_seed_hash a <? 65536)
  && (N.of_nat (length (a_entries a)) <? 4294967296).

(* ---------- reading ---------- *)
Definition u (n off : nat) (bs : list N) : N := le_val (firstn n (skipn off bs)).
Definition has (n : nat) (bs : list N) : bool := (n <=? length bs)%nat.
Definition flag (flags mask : N) : bool := negb (N.land flags mask =? 0).

Definition hashes (cnt off : nat) (bs : list N) : list N := map (fun i => u 8 (off + 8 * i) bs) (seq 0 cnt).

(* bit p (0 = first) of a byte string read as a big-endian bit stream *)
Definition stream_bit (bs : list N) (p : nat) : bool := N.testbit (nth (p / 8) bs 0) (N.of_nat (7 - p mod 8)).
(* the i-th w-bit field of the stream, most significant bit first *)
Definition field (w : nat) (bs : list N) (i : nat) : N :=
  N_of_bits (fun b => stream_bit bs (i * w + (w - 1 - b))) w.

(* the same fields read sequentially (what a decoder does; equal to [field], Proofs/ThetaLayoutProofs.v):
   the bits of the bytes, first stream bit first; consecutive w-bit groups, most significant bit first *)
Definition byte_bits (b : N) : list bool := map (fun t => N.testbit b (N.of_nat (7 - t))) (seq 0 8).
Fixpoint bits_of (bs : list N) : list bool :=
  match bs with [] => [] | b :: r => byte_bits b ++ bits_of r end.
Fixpoint msb_val (acc : N) (l : list bool) : N :=
  match l with [] => acc | b :: r => msb_val (2 * acc + (if b then 1 else 0)) r end.
Fixpoint fields_seq (cnt w : nat) (bits : list bool) : list N :=
  match cnt with
  | O => []
  | S c => msb_val 0 (firstn w bits) :: fields_seq c w (skipn w bits)
  end.

Fixpoint prefix_sums (acc : N) (ds : list N) : list N :=
  match ds with [] => [] | d :: r => (acc + d) :: prefix_sums (acc + d) r end.

Definition dec_v3 (bs : list N) : option tabs :=
  let pre := nth 0 bs 0 in
  let flags := nth 5 bs 0 in
  let seed := u 2 6 bs in
  let ordered := flag flags S_ORDERED in
  if flag flags S_EMPTY then Some (mkAbs [] S_MAX_THETA seed ordered true)
  else if pre =? 1 then
    if has 16 bs then Some (mkAbs [u 8 8 bs] S_MAX_THETA seed ordered false) else None
  else if pre =? 2 then
    let cnt := N.to_nat (u 4 8 bs) in
    if has (16 + 8 * cnt) bs then Some (mkAbs (hashes cnt 16 bs) S_MAX_THETA seed ordered false) else None
  else if pre =? 3 then
    let cnt := N.to_nat (u 4 8 bs) in
    if has (24 + 8 * cnt) bs then Some (mkAbs (hashes cnt 24 bs) (u 8 16 bs) seed ordered false) else None
  else None.

(* the compressed form exists only for ordered sketches with entries: ORDERED must be set, EMPTY clear *)
Definition dec_v4 (bs : list N) : option tabs :=
  let pre := nth 0 bs 0 in
  let w := N.to_nat (nth 3 bs 0) in
  let neb := N.to_nat (nth 4 bs 0) in
  let flags := nth 5 bs 0 in
  let seed := u 2 6 bs in
  if flag flags S_EMPTY || negb (flag flags S_ORDERED) then None
  else if negb ((1 <=? w) && (w <=? 63))%nat then None
  else if negb ((1 <=? neb) && (neb <=? 4))%nat then None
  else if negb ((pre =? 1) || (pre =? 2)) then None
  else
    let off := if pre =? 2 then 16%nat else 8%nat in
    let theta := if pre =? 2 then u 8 8 bs else S_MAX_THETA in
    if negb (has (off + neb) bs) then None
    else
      let cnt := N.to_nat (u neb off bs) in
      let data := skipn (off + neb) bs in
      if negb (has ((cnt * w + 7) / 8) data) then None
      else Some (mkAbs (prefix_sums 0 (fields_seq cnt w (bits_of data))) theta seed true false).

Definition dec_v2 (bs : list N) : option tabs :=
  let pre := nth 0 bs 0 in
  let seed := u 2 6 bs in
  if pre =? 1 then Some (mkAbs [] S_MAX_THETA seed true true)
  else if pre =? 2 then
    let cnt := N.to_nat (u 4 8 bs) in
    if has (16 + 8 * cnt) bs then Some (mkAbs (hashes cnt 16 bs) S_MAX_THETA seed true (Nat.eqb cnt 0)) else None
  else if pre =? 3 then
    let cnt := N.to_nat (u 4 8 bs) in
    let theta := u 8 16 bs in
    if has (24 + 8 * cnt) bs
    then Some (mkAbs (hashes cnt 24 bs) theta seed true (Nat.eqb cnt 0 && (theta =? S_MAX_THETA))) else None
  else None.

(* serVer 1 images carry no seed hash: [sh] is the reader's *)
Definition dec_v1 (sh : N) (bs : list N) : option tabs :=
  if negb (has 24 bs) then None
  else
    let cnt := N.to_nat (u 4 8 bs) in
    let theta := u 8 16 bs in
    if has (24 + 8 * cnt) bs
    then Some (mkAbs (hashes cnt 24 bs) theta sh true (Nat.eqb cnt 0 && (theta =? S_MAX_THETA))) else None.

Definition dec_spec_body (sh : N) (bs : list N) : option tabs :=
  if negb (has 8 bs) then None
  else if negb (nth 2 bs 0 =? S_FAMILY_THETA) then None
  else
    let ver := nth 1 bs 0 in
    if ver =? 3 then dec_v3 bs
    else if ver =? 4 then dec_v4 bs
    else if ver =? 2 then dec_v2 bs
    else if ver =? 1 then dec_v1 sh bs
    else None.

(* the preamble-longs byte of a theta image is 1, 2 or 3 in every serial version *)
Definition dec_spec (sh : N) (bs : list N) : option tabs :=
  let pre := nth 0 bs 0 in
  if (1 <=? pre) && (pre <=? 3) then dec_spec_body sh bs else None.

(* ---------- writing: every variant a foreign writer uses ---------- *)
Inductive variant :=
| V1                      (* serVer 1 *)
| V2                      (* serVer 2: empty / exact / estimating by the state *)
| V3 (single_flag : bool) (* serVer 3; Java sets SINGLE_ITEM on one-entry exact sketches *)
| V3L (pre : N)           (* serVer 3 written with MORE preamble longs than necessary: a non-empty sketch with
                             preLongs 2 (one entry, count field present) or 3 (exact mode, theta = 2^63-1 stored) *)
| V4.                     (* serVer 4: ordered sketches with at least one entry *)

Definition est (a : tabs) : bool := a_theta a <? S_MAX_THETA.
Definition cnt_of (a : tabs) : N := N.of_nat (length (a_entries a)).
Definition entry_bytes (a : tabs) : list N := flat_map (le_bytes 8) (a_entries a).

Definition enc_v1 (a : tabs) : list N :=
  [3; 1; S_FAMILY_THETA; 0; 0; 0; 0; 0] ++ le_bytes 4 (cnt_of a) ++ [0; 0; 0; 0] ++ le_bytes 8 (a_theta a) ++ entry_bytes a.

Definition enc_v2 (a : tabs) : list N :=
  let pre := if est a then 3 else if a_empty a then 1 else 2 in
  [pre; 2; S_FAMILY_THETA; 0; 0; 0] ++ le_bytes 2 (a_seed_hash a)
  ++ (if pre =? 1 then [] else le_bytes 4 (cnt_of a) ++ [0; 0; 0; 0])
  ++ (if pre =? 3 then le_bytes 8 (a_theta a) else [])
  ++ entry_bytes a.

Definition is_single (a : tabs) : bool := (cnt_of a =? 1) && negb (est a) && negb (a_empty a).

Definition enc_v3 (single_flag : bool) (a : tabs) : list N :=
  let pre := if a_empty a then 1 else if est a then 3 else if is_single a then 1 else 2 in
  let flags := S_READ_ONLY + S_COMPACT + (if a_empty a then S_EMPTY else 0) + (if a_ordered a then S_ORDERED else 0)
               + (if single_flag && is_single a then S_SINGLE_ITEM else 0) in
  [pre; 3; S_FAMILY_THETA; 0; 0; flags] ++ le_bytes 2 (a_seed_hash a)
  ++ (if a_empty a then []
      else (if pre =? 1 then [] else le_bytes 4 (cnt_of a) ++ [0; 0; 0; 0])
           ++ (if pre =? 3 then le_bytes 8 (a_theta a) else [])
           ++ entry_bytes a).

Definition enc_v3_long (pre : N) (a : tabs) : list N :=
  let flags := S_READ_ONLY + S_COMPACT + (if a_ordered a then S_ORDERED else 0) in
  [pre; 3; S_FAMILY_THETA; 0; 0; flags] ++ le_bytes 2 (a_seed_hash a)
  ++ le_bytes 4 (cnt_of a) ++ [0; 0; 0; 0]
  ++ (if pre =? 3 then le_bytes 8 (a_theta a) else [])
  ++ entry_bytes a.

(* the big-endian bit stream of w-bit fields *)
Definition field_bit (w : nat) (vs : list N) (p : nat) : bool :=
  N.testbit (nth (p / w) vs 0) (N.of_nat (w - 1 - p mod w)).
Definition stream_byte (w : nat) (vs : list N) (j : nat) : N :=
  N_of_bits (fun t => field_bit w vs (8 * j + (7 - t))) 8.
Definition pack_stream (w : nat) (vs : list N) : list N :=
  map (stream_byte w vs) (seq 0 ((length vs * w + 7) / 8)).

Fixpoint deltas (prev : N) (es : list N) : list N :=
  match es with [] => [] | e :: r => (e - prev) :: deltas e r end.

Definition width_of (ds : list N) : nat := N.to_nat (N.size (fold_left N.lor ds 0)).
Definition count_bytes (n : N) : nat := N.to_nat ((N.size n + 7) / 8).

Definition enc_v4 (a : tabs) : list N :=
  let ds := deltas 0 (a_entries a) in
  let w := width_of ds in
  let neb := count_bytes (cnt_of a) in
  let pre := if est a then 2 else 1 in
  [pre; 4; S_FAMILY_THETA; N.of_nat w; N.of_nat neb; S_READ_ONLY + S_COMPACT + S_ORDERED]
  ++ le_bytes 2 (a_seed_hash a)
  ++ (if est a then le_bytes 8 (a_theta a) else [])
  ++ le_bytes neb (cnt_of a)
  ++ pack_stream w ds.

Definition enc_spec (v : variant) (a : tabs) : list N :=
  match v with V1 => enc_v1 a | V2 => enc_v2 a | V3 sf => enc_v3 sf a | V3L pre => enc_v3_long pre a | V4 => enc_v4 a end.

(* which abstract states a variant can express *)
Definition expressible (v : variant) (a : tabs) : bool :=
  match v with
  | V1 | V2 => a_ordered a && Bool.eqb (a_empty a) ((cnt_of a =? 0) && negb (est a))
  | V3 _ => true
  | V3L pre => negb (a_empty a) && (((pre =? 2) && negb (est a)) || (pre =? 3))
  | V4 => a_ordered a && negb (cnt_of a =? 0) && negb (a_empty a) && (negb (cnt_of a =? 1) || est a)
  end.
