(* The theta update sketch as a pure set machine (the KMV Spec of DESIGN.md section 5, C04):
   no hash table, no probing -- the state is the current table size exponent, theta, the ascending
   list of retained hashes and the emptiness flag; theta is DEFINED by the rebuild rule
   (the (k+1)-th smallest of the set that overflowed).  Proofs/ThetaSpecRefine.v proves that the
   model of the crate (Model/Theta.v), for every rebuild order, refines this machine.
   Definitions only. *)
From DS Require Import Base.Prelude Base.ThetaLib Model.Theta.
Open Scope N_scope.

Record kst := mkK {
  k_lg : N;             (* lg of the table size (only decides when the set overflows) *)
  k_theta : N;
  k_set : list N;       (* retained hashes, ascending *)
  k_empty : bool
}.

(* capacity of a table of 2^lg slots: half below the nominal size, 15/16 above *)
Definition spec_cap (c : tcfg) (lg : N) : N :=
  if lg <=? c_lg_nom c then 2 ^ lg / 2 else 15 * 2 ^ lg / 16.

Definition spec_init (c : tcfg) : kst := mkK (init_lg_cur c) (starting_theta (c_pbits c)) [] true.

(* keep the k smallest; theta := the (k+1)-th smallest *)
Definition spec_rebuild (c : tcfg) (lg : N) (set : list N) (e : bool) : kst :=
  let k := N.to_nat (2 ^ c_lg_nom c) in mkK lg (nth k set 0) (firstn k set) e.

Definition spec_update (c : tcfg) (k : kst) (h : N) : kst :=
  if (h =? 0) || (k_theta k <=? h) || existsb (N.eqb h) (k_set k)
  then mkK (k_lg k) (k_theta k) (k_set k) false
  else
    let set' := sortN (h :: k_set k) in
    if spec_cap c (k_lg k) <? N.of_nat (length set') then
      if k_lg k <=? c_lg_nom c
      then mkK (N.min (k_lg k + c_rf c) (c_lg_nom c + 1)) (k_theta k) set' false
      else spec_rebuild c (k_lg k) set' false
    else mkK (k_lg k) (k_theta k) set' false.

Definition spec_trim (c : tcfg) (k : kst) : kst :=
  if 2 ^ c_lg_nom c <? N.of_nat (length (k_set k)) then spec_rebuild c (k_lg k) (k_set k) (k_empty k) else k.
