(* The Frequent Items image layout (i64 / "longs" items), written from the format description
   (DESIGN.md Appendix A), NOT from the Rust code: the "independent decoder" of C12 and the
   "foreign writer" of C13.  Definitions only; constants are literals on purpose.

   byte 0  preamble longs in the low six bits (1 = empty form, 4 = full form); the two top bits
           are not part of the field (readers mask with 0x3F)
   byte 1  serial version = 1
   byte 2  family id = 10 (FREQUENCY)
   byte 3  lg_max_map_size
   byte 4  lg_cur_map_size
   byte 5  flags: the sketch is empty iff bit 0 or bit 2 is set (mask 5; writers have used 1, 4, 5)
   bytes 6..7 unused -- the first preamble long is always 8 bytes, also in the empty form
   full form only:
   u32 active_items @8, u32 unused @12, u64 stream_weight @16, u64 offset @24,
   then active_items counts (u64 LE), then active_items items (i64 LE), in the same order. *)
From DS Require Import Base.Prelude.
Open Scope N_scope.

Record fi_abs := mkFA {
  a_lg_max : N;
  a_lg_cur : N;
  a_weight : N;                 (* stream weight *)
  a_offset : N;                 (* maximum error *)
  a_counters : list (Z * N)     (* (item, count), a finite map: order is not part of the state *)
}.

Definition spec_i64 (n : N) : Z :=
  if n <? 9223372036854775808 then Z.of_N n else (Z.of_N n - 18446744073709551616)%Z.
Definition spec_u64 (z : Z) : N := Z.to_N (z mod 18446744073709551616)%Z.

(* n little-endian 64-bit words, and what follows them *)
Fixpoint spec_longs (n : nat) (bs : list N) : option (list N * list N) :=
  match n with
  | O => Some ([], bs)
  | S n' => if (length bs <? 8)%nat then None
            else match spec_longs n' (skipn 8 bs) with
                 | Some (r, rest) => Some (le_val (firstn 8 bs) :: r, rest)
                 | None => None
                 end
  end.

Definition spec_decode (bs : list N) : option fi_abs :=
  if (length bs <? 8)%nat then None else
  let pre := nth 0 bs 0 mod 64 in
  if negb ((nth 1 bs 0 =? 1) && (nth 2 bs 0 =? 10)) then None else
  let lgm := nth 3 bs 0 in let lgc := nth 4 bs 0 in let flags := nth 5 bs 0 in
  if N.testbit flags 0 || N.testbit flags 2 then
    if pre =? 1 then Some (mkFA lgm lgc 0 0 []) else None
  else
    if negb (pre =? 4) then None else
    if (length bs <? 32)%nat then None else
    let n := N.to_nat (le_val (firstn 4 (skipn 8 bs))) in
    let w := le_val (firstn 8 (skipn 16 bs)) in
    let off := le_val (firstn 8 (skipn 24 bs)) in
    match spec_longs n (skipn 32 bs) with
    | Some (counts, rest) =>
        match spec_longs n rest with
        | Some (items, _) => Some (mkFA lgm lgc w off (combine (map spec_i64 items) counts))
        | None => None
        end
    | None => None
    end.

(* ---- the images foreign writers produce (C13) ----
   What a writer is free to choose: the two top bits of byte 0, which of the empty-flag bits it
   sets (and any other flag bits, as long as it does not claim "empty" for a non-empty sketch),
   the contents of the unused fields, whether a sketch without stream weight is written in the
   short or in the full form (the full form with active_items = 0 is legal), and the order of the
   counters (the order of [a_counters]). *)
Record variant := mkV {
  v_hibits : N;          (* 0..3 : top two bits of byte 0 *)
  v_flags : N;           (* the flags byte; must be consistent with the form, see [variant_ok] *)
  v_unused16 : N;        (* bytes 6..7 *)
  v_unused32 : N;        (* bytes 12..15 *)
  v_short : bool         (* use the one-long form when the sketch has no stream weight *)
}.

Definition use_short (v : variant) (a : fi_abs) : bool := v_short v && (a_weight a =? 0).

Definition variant_ok (v : variant) (a : fi_abs) : Prop :=
  v_hibits v < 4 /\ v_flags v < 256 /\ v_unused16 v < 65536 /\ v_unused32 v < 4294967296 /\
  (if use_short v a then N.land (v_flags v) 5 <> 0 else N.land (v_flags v) 5 = 0).

Definition enc_spec (v : variant) (a : fi_abs) : list N :=
  if use_short v a then
    [ 1 + 64 * v_hibits v; 1; 10; a_lg_max a; a_lg_cur a; v_flags v ] ++ le_bytes 2 (v_unused16 v)
  else
    [ 4 + 64 * v_hibits v; 1; 10; a_lg_max a; a_lg_cur a; v_flags v ] ++ le_bytes 2 (v_unused16 v)
    ++ le_bytes 4 (N.of_nat (length (a_counters a))) ++ le_bytes 4 (v_unused32 v)
    ++ le_bytes 8 (a_weight a) ++ le_bytes 8 (a_offset a)
    ++ flat_map (fun p => le_bytes 8 (snd p)) (a_counters a)
    ++ flat_map (fun p => le_bytes 8 (spec_u64 (fst p))) (a_counters a).

(* the capacity of a map of 2^lg slots: three quarters *)
Definition spec_capacity (lg : N) : N := 3 * 2 ^ lg / 4.

(* the size of the image of a sketch with n counters and stream weight w *)
Definition spec_size (w : N) (n : nat) : nat := if w =? 0 then 8%nat else (32 + 16 * n)%nat.
