(* What the t-digest properties (C10, C15) talk about: well-formed views, i.e. EVERY valid image
   (not only the digests the in-process algorithm produces), and in-process histories.
   Definitions only. *)
From Coq Require Import QArith Qabs.
From DS Require Import Base.Prelude Model.TDigest.
Open Scope Q_scope.

(* means non-decreasing along the list *)
Fixpoint sortedP (cs : list centroid) : Prop :=
  match cs with
  | a :: ((b :: _) as r) => c_mean a <= c_mean b /\ sortedP r
  | _ => True
  end.

(* means strictly increasing (no two centroids share a mean) *)
Fixpoint strictP (cs : list centroid) : Prop :=
  match cs with
  | a :: ((b :: _) as r) => c_mean a < c_mean b /\ strictP r
  | _ => True
  end.

Definition firstc (cs : list centroid) : centroid := nthc cs 0.
Definition lastc (cs : list centroid) : centroid := nthc cs (length cs - 1).

(* a valid view: >= 1 centroid, means sorted, (weights are [positive], hence > 0),
   min <= first mean, last mean <= max, total = sum of the weights *)
Record wf_view (v : view) : Prop := mkWf {
  wf_ne : v_cs v <> [];
  wf_sorted : sortedP (v_cs v);
  wf_min : v_min v <= c_mean (firstc (v_cs v));
  wf_max : c_mean (lastc (v_cs v)) <= v_max v;
  wf_total : v_total v = sumw (v_cs v)
}.

(* a first (last) centroid of weight 1 is one sample, so it IS the minimum (maximum).
   Every in-process digest satisfies this (Proofs: inproc_unit_ends); an image need not
   (known finding tdigest-D17) *)
Definition unit_ends_tight (v : view) : Prop :=
  (snd (firstc (v_cs v)) = 1%positive -> v_min v == c_mean (firstc (v_cs v))) /\
  (snd (lastc (v_cs v)) = 1%positive -> c_mean (lastc (v_cs v)) == v_max v).

(* cumulative weight up to the CENTRE of centroid i: sum_{j<i} w_j + w_i / 2 *)
Definition Wbefore (cs : list centroid) (i : nat) : Z := sumw (firstn i cs).
Definition centre (cs : list centroid) (i : nat) : Q := inject_Z (Wbefore cs i) + c_w (nthc cs i) / 2.

(* the weights of the centroids whose centres straddle the target weight q * total:
   w_0 before the first centre, w_{n-1} from the last centre on, w_i + w_{i+1} in between.
   [straddle_from cs acc2 weight]: acc2 = 2 * centre of the head of cs *)
Fixpoint straddle_from (cs : list centroid) (acc2 : Z) (weight : Q) : Z :=
  match cs with
  | ci :: ((cj :: _) as r) =>
      let next2 := (acc2 + c_wz ci + c_wz cj)%Z in
      if Qltb weight (inject_Z next2 / 2) then (c_wz ci + c_wz cj)%Z else straddle_from r next2 weight
  | [ci] => c_wz ci
  | [] => 0%Z
  end.
Definition straddle (v : view) (q : Q) : Z :=
  match v_cs v with
  | [] => 0%Z
  | c0 :: _ =>
      let weight := q * tq v in
      if Qltb weight (c_w c0 / 2) then c_wz c0 else straddle_from (v_cs v) (c_wz c0) weight
  end.

(* the resolution of the digest at q: half the straddling weights, as a fraction of the total *)
Definition resolution (v : view) (q : Q) : Q := inject_Z (straddle v q) / (2 * tq v).

(* ---- the same for views whose centroids may share a mean (blocks of equal means) ---- *)
(* number of means < y, and number of means <= y (partition points of the sorted list) *)
Definition pl (cs : list centroid) (y : Q) : nat := part_point (fun c => Qltb (c_mean c) y) cs.
Definition pu (cs : list centroid) (y : Q) : nat := part_point (fun c => negb (Qltb y (c_mean c))) cs.
(* weight of the centroids whose mean equals y: those with mean <= y minus those with mean < y *)
Definition blockw (cs : list centroid) (y : Q) : Z := (Wbefore cs (pu cs y) - Wbefore cs (pl cs y))%Z.

(* indices of the two centroids whose centres straddle the target weight: (0,0) before the first
   centre, (n-1,n-1) from the last centre on, (i,i+1) in between *)
Fixpoint straddle_idx_from (cs : list centroid) (i : nat) (acc2 : Z) (weight : Q) : nat * nat :=
  match cs with
  | ci :: ((cj :: _) as r) =>
      let next2 := (acc2 + c_wz ci + c_wz cj)%Z in
      if Qltb weight (inject_Z next2 / 2) then (i, S i) else straddle_idx_from r (S i) next2 weight
  | _ => (i, i)
  end.
Definition straddle_idx (v : view) (q : Q) : nat * nat :=
  match v_cs v with
  | [] => (0%nat, 0%nat)
  | c0 :: _ => let weight := q * tq v in
               if Qltb weight (c_w c0 / 2) then (0%nat, 0%nat) else straddle_idx_from (v_cs v) 0 (c_wz c0) weight
  end.
(* the weight of ALL centroids sharing a mean with one of the two straddling centroids, as a fraction of
   the total (for pairwise distinct means this is twice [resolution]) *)
Definition block_resolution (v : view) (q : Q) : Q :=
  let ma := c_mean (nthc (v_cs v) (fst (straddle_idx v q))) in
  let mb := c_mean (nthc (v_cs v) (snd (straddle_idx v q))) in
  inject_Z (blockw (v_cs v) ma + (if Qeq_bool ma mb then 0 else blockw (v_cs v) mb)) / tq v.

(* ---------------- histories ---------------- *)
Inductive hist : Type :=
| HNew (k : Z)
| HImage (d0 : td)                 (* a digest deserialized from a valid image (state d0) *)
| HUpd (h : hist) (x : Q)          (* update with a finite value (NaN / infinities are ignored: Model td_update_with) *)
| HCompress (h : hist)             (* any operation that compresses: query, serialize, freeze *)
| HMerge (h1 h2 : hist).

(* the finite values offered by update, merges included (an image contributes its own total, below) *)
Fixpoint values (h : hist) : list Q :=
  match h with
  | HNew _ | HImage _ => []
  | HUpd h x => values h ++ [x]
  | HCompress h => values h
  | HMerge h1 h2 => values h1 ++ values h2
  end.
(* total weight brought in by the images of a history *)
Fixpoint image_weight (h : hist) : Z :=
  match h with
  | HNew _ => 0
  | HImage d0 => td_total d0
  | HUpd h _ | HCompress h => image_weight h
  | HMerge h1 h2 => image_weight h1 + image_weight h2
  end%Z.
(* in-process: built from TDigestMut::new only *)
Fixpoint inprocess (h : hist) : Prop :=
  match h with
  | HNew _ => True
  | HImage _ => False
  | HUpd h _ | HCompress h => inprocess h
  | HMerge h1 h2 => inprocess h1 /\ inprocess h2
  end.

Definition le_all (m : Q) (l : list Q) : Prop := forall x, In x l -> m <= x.
Definition ge_all (m : Q) (l : list Q) : Prop := forall x, In x l -> x <= m.
Definition InQ (m : Q) (l : list Q) : Prop := exists x, In x l /\ x == m.
(* m is the exact minimum (maximum) of l; None for the empty list *)
Definition is_min (o : option Q) (l : list Q) : Prop :=
  match o with None => l = [] | Some m => InQ m l /\ le_all m l end.
Definition is_max (o : option Q) (l : list Q) : Prop :=
  match o with None => l = [] | Some m => InQ m l /\ ge_all m l end.

(* a valid decoded image: what deserialize accepts AND the format promises (sorted means inside
   [min, max], consistent weights); heavy end centroids and any number of buffered values allowed *)
Definition in_range (d : td) (x : Q) : Prop :=
  match td_min d, td_max d with Some mn, Some mx => mn <= x /\ x <= mx | _, _ => False end.
Record image_ok (d0 : td) : Prop := mkImageOk {
  io_k : (10 <= td_k d0)%Z;
  io_cw : td_cw d0 = sumw (td_cs d0);
  io_sorted : sortedP (td_cs d0);
  io_cs : forall c, In c (td_cs d0) -> in_range d0 (c_mean c);
  io_buf : forall x, In x (td_buf d0) -> in_range d0 x;
  io_empty : td_cs d0 = [] -> td_buf d0 = [] -> td_min d0 = None /\ td_max d0 = None
}.

(* [reach h d]: the model of TDigestMut can be in state d after history h, where every merge
   pass (whose decisions depend on ln and are not recomputed) may produce ANY output allowed
   by the exact merge relation [merge_rel 0] *)
Inductive reach : hist -> td -> Prop :=
| R_new k d : td_new k = Ok d -> reach (HNew k) d
| R_image d0 : image_ok d0 -> reach (HImage d0) d0
| R_upd_room h d x :
    reach h d -> td_needs_compress_on_update d = false -> reach (HUpd h x) (td_push d x)
| R_upd_full h d x out :
    reach h d -> td_needs_compress_on_update d = true ->
    merge_rel 0 (td_rev d) (compress_input d) out ->
    reach (HUpd h x) (td_push (td_compress_with d out) x)
| R_compress_nop h d : reach h d -> td_buf d = [] -> reach (HCompress h) d
| R_compress h d out :
    reach h d -> td_buf d <> [] -> merge_rel 0 (td_rev d) (compress_input d) out ->
    reach (HCompress h) (td_compress_with d out)
| R_merge_empty h1 h2 d o : reach h1 d -> reach h2 o -> td_is_empty o = true -> reach (HMerge h1 h2) d
| R_merge h1 h2 d o out :
    reach h1 d -> reach h2 o -> td_is_empty o = false ->
    merge_rel 0 (td_rev d) (merge_input d o) out ->
    reach (HMerge h1 h2) (td_merge_with d o out).

(* histories whose constructor calls meet their preconditions *)
Fixpoint hist_ok (h : hist) : Prop :=
  match h with
  | HNew k => (10 <= k)%Z
  | HImage d0 => image_ok d0
  | HUpd h _ | HCompress h => hist_ok h
  | HMerge h1 h2 => hist_ok h1 /\ hist_ok h2
  end.

(* sum of a list of rationals; non-decreasing lists *)
Fixpoint qsum (l : list Q) : Q := match l with [] => 0 | x :: r => x + qsum r end.
Fixpoint nondecr (l : list Q) : Prop :=
  match l with
  | a :: ((b :: _) as r) => a <= b /\ nondecr r
  | _ => True
  end.
