(* The cross-language HLL image layout, written from the format description (DESIGN.md Appendix A:
   my reading of the published Java/C++ layout), NOT from the Rust code and not from Model/*.
   [hll_spec_decode] is the "independent decoder written from the format specification";
   [hll_spec_encode] writes every variant the Java/C++ writers use.  No dependency on Model. *)
From DS Require Import Base.Prelude.
Open Scope N_scope.

(* constants of the format *)
Definition L_SER_VER : N := 1.
Definition L_FAMILY : N := 7.
Definition L_PRE_LIST : N := 2.
Definition L_PRE_SET : N := 3.
Definition L_PRE_HLL : N := 10.
Definition L_FLAG_EMPTY : N := 4.
Definition L_FLAG_COMPACT : N := 8.
Definition L_FLAG_OOO : N := 16.
Definition L_MODE_LIST : N := 0.
Definition L_MODE_SET : N := 1.
Definition L_MODE_HLL : N := 2.
Definition L_KEY_BITS : N := 26.
Definition L_AUX_TOKEN : N := 15.

(* the abstract content of an image *)
Record himage := mkImg {
  im_lgk : N; im_type : N (* 0 HLL4, 1 HLL6, 2 HLL8 *); im_mode : N (* 0 list, 1 set, 2 hll *);
  im_ooo : bool;
  im_coupons : list N;            (* list / set: the stored coupons, in image order *)
  im_regs : list N;               (* hll: the k register values *)
  im_hip : N; im_kxq0 : N; im_kxq1 : N;   (* hll: binary64 bit patterns *)
  im_cur_min : N; im_num_at_cur_min : N;
  im_aux : list (N * N)           (* HLL4: (slot, value) exceptions in image order *)
}.

Fixpoint lseq (s : N) (n : nat) : list N := match n with O => [] | S n' => s :: lseq (s + 1) n' end.

Definition sub (bs : list N) (off len : N) : list N := firstn (N.to_nat len) (skipn (N.to_nat off) bs).
Definition u32_at (bs : list N) (off : N) : N := le_val (sub bs off 4).
Definition u64_at (bs : list N) (off : N) : N := le_val (sub bs off 8).
Definition byte_at (bs : list N) (off : N) : N := nth (N.to_nat off) bs 0.
Definition has (bs : list N) (n : N) : bool := n <=? N.of_nat (length bs).
Definition flag (flags m : N) : bool := negb (N.land flags m =? 0).

Definition u32_list (bs : list N) (off : N) (n : N) : list N := map (fun i => u32_at bs (off + 4 * i)) (lseq 0 (N.to_nat n)).

(* HLL4: even slot = low nibble, odd slot = high nibble *)
Definition nibble (bs : list N) (off s : N) : N :=
  let b := byte_at bs (off + s / 2) in if s mod 2 =? 0 then b mod 16 else b / 16.
(* HLL6: slot s occupies bits [6s, 6s+6) of the register block read as a little-endian bit string *)
Definition six_bits (bs : list N) (off s : N) : N :=
  let bit := 6 * s in
  let two := byte_at bs (off + bit / 8) + 256 * byte_at bs (off + bit / 8 + 1) in
  (two / 2 ^ (bit mod 8)) mod 64.

Definition aux_lookup (aux : list (N * N)) (s : N) : option N :=
  match find (fun p => fst p =? s) aux with Some p => Some (snd p) | None => None end.

Definition hll_spec_decode (bs : list N) : option himage :=
  if negb (has bs 8) then None else
  let pre := byte_at bs 0 in let lgk := byte_at bs 3 in let lg_arr := byte_at bs 4 in
  let flags := byte_at bs 5 in let b6 := byte_at bs 6 in let b7 := byte_at bs 7 in
  let mode := b7 mod 4 in let typ := (b7 / 4) mod 4 in
  let compact := flag flags L_FLAG_COMPACT in
  if negb ((byte_at bs 1 =? L_SER_VER) && (byte_at bs 2 =? L_FAMILY) && (4 <=? lgk) && (lgk <=? 21) && (typ <? 3)) then None
  else if mode =? L_MODE_LIST then
    if negb (pre =? L_PRE_LIST) then None else
    let n := if compact then b6 else 2 ^ lg_arr in
    if flag flags L_FLAG_EMPTY then Some (mkImg lgk typ mode false [] [] 0 0 0 0 0 [])
    else if negb (has bs (8 + 4 * n)) then None
    else Some (mkImg lgk typ mode false (filter (fun c => negb (c =? 0)) (u32_list bs 8 n)) [] 0 0 0 0 0 [])
  else if mode =? L_MODE_SET then
    if negb (pre =? L_PRE_SET) || negb (has bs 12) then None else
    let count := u32_at bs 8 in
    let n := if compact then count else 2 ^ lg_arr in
    if negb (has bs (12 + 4 * n)) then None
    else Some (mkImg lgk typ mode false (filter (fun c => negb (c =? 0)) (u32_list bs 12 n)) [] 0 0 0 0 0 [])
  else if mode =? L_MODE_HLL then
    if negb (pre =? L_PRE_HLL) || negb (has bs 40) then None else
    let k := 2 ^ lgk in
    let ooo := flag flags L_FLAG_OOO in
    let hip := u64_at bs 8 in let q0 := u64_at bs 16 in let q1 := u64_at bs 24 in
    let num := u32_at bs 32 in let auxc := u32_at bs 36 in
    if typ =? 2 then
      if negb (has bs (40 + k)) then None
      else Some (mkImg lgk typ mode ooo [] (map (fun s => byte_at bs (40 + s)) (lseq 0 (N.to_nat k))) hip q0 q1 0 num [])
    else if typ =? 1 then
      if negb (has bs (40 + (3 * k) / 4 + 1)) then None
      else Some (mkImg lgk typ mode ooo [] (map (six_bits bs 40) (lseq 0 (N.to_nat k))) hip q0 q1 0 num [])
    else
      let auxoff := 40 + k / 2 in
      (* compact: auxCount (value << 26 | slot) pairs; updatable: a table of 1 << lgArr ints, 0 = empty *)
      let nints := if compact then auxc else (if auxc =? 0 then 0 else 2 ^ lg_arr) in
      if negb (has bs (auxoff + 4 * nints)) then None
      else
        let ents := filter (fun c => negb (c =? 0)) (u32_list bs auxoff nints) in
        let aux := map (fun c => ((c mod 2 ^ L_KEY_BITS) mod k, c / 2 ^ L_KEY_BITS)) ents in
        let cur_min := b6 in
        let regs := map (fun s => let nb := nibble bs 40 s in
                                  if nb =? L_AUX_TOKEN then match aux_lookup aux s with Some v => v | None => cur_min + nb end
                                  else cur_min + nb) (lseq 0 (N.to_nat k)) in
        Some (mkImg lgk typ mode ooo [] regs hip q0 q1 cur_min num aux)
  else None.

(* ---------- the spec encoder: every variant of the writers ---------- *)
Definition mode_b (mode typ : N) : N := mode + 4 * typ.
Definition u32l (l : list N) : list N := flat_map (le_bytes 4) l.

(* list: compact (count coupons) or updatable (1 << lgArr slots, zeros empty; lgArr = 3) *)
Definition enc_list (compact : bool) (lgk typ : N) (cs : list N) : list N :=
  let n := N.of_nat (length cs) in
  [L_PRE_LIST; L_SER_VER; L_FAMILY; lgk; 3;
   (if n =? 0 then L_FLAG_EMPTY else 0) + (if compact then L_FLAG_COMPACT else 0); n; mode_b L_MODE_LIST typ]
  ++ (if compact then u32l cs else u32l (cs ++ repeat 0 (8 - length cs))).

(* set: compact (count coupons, any order) or updatable (the table, as given: zeros empty) *)
Definition enc_set (compact : bool) (lgk typ lg_arr : N) (count : N) (slots : list N) : list N :=
  [L_PRE_SET; L_SER_VER; L_FAMILY; lgk; lg_arr; (if compact then L_FLAG_COMPACT else 0); 0; mode_b L_MODE_SET typ]
  ++ le_bytes 4 count ++ u32l slots.

Definition enc_hll_pre (compact ooo : bool) (lgk typ lg_arr cur_min hip q0 q1 num auxc : N) : list N :=
  [L_PRE_HLL; L_SER_VER; L_FAMILY; lgk; lg_arr;
   (if compact then L_FLAG_COMPACT else 0) + (if ooo then L_FLAG_OOO else 0); cur_min; mode_b L_MODE_HLL typ]
  ++ le_bytes 8 hip ++ le_bytes 8 q0 ++ le_bytes 8 q1 ++ le_bytes 4 num ++ le_bytes 4 auxc.

(* register blocks *)
Fixpoint pack_nibbles (vs : list N) : list N :=
  match vs with
  | a :: b :: r => (a + 16 * b) :: pack_nibbles r
  | [a] => [a]
  | [] => []
  end.
Definition six_pack (vs : list N) : list N :=
  let total := fold_right (fun v acc => v + 64 * acc) 0 vs in
  le_bytes (Nat.div (3 * length vs) 4 + 1) total.
