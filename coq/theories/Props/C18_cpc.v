(* C18 (CPC part) -- size bounded by configuration: the deterministic facts about a CPC image.
   Statements only; proofs in Proofs/CpcSize.v (on top of the C11 table sweeps and the C12 framing).
   "CPC images exceed max_serialized_bytes no more than 0.1 % of the time" is an empirical percentile and has
   no theorem (DESIGN.md section 5, C18). *)
From DS Require Import Base.Prelude Model.Cpc Model.CpcFrame Model.CpcCodec Proofs.CpcCodec Proofs.CpcSize.
Open Scope N_scope.

(* the preamble never exceeds 10 ints (40 bytes = MAX_PREAMBLE_SIZE_BYTES) *)
Theorem c18_cpc_preamble_ints_le_10 : forall num hip tab win, 2 <= make_preamble_ints num hip tab win <= 10.
Proof. exact preamble_ints_le_10. Qed.

(* the image is exactly 4 * (preamble ints + window words + table words) bytes *)
Theorem c18_cpc_image_length : forall s sh kxp hip c,
  (c_num s = 0 <-> cp_table c = None /\ cp_window c = None) ->
  N.of_nat (length (cpc_frame s sh kxp hip c)) =
  4 * (make_preamble_ints (c_num s) (negb (c_merge s))
         (match cp_table c with Some _ => true | None => false end)
         (match cp_window c with Some _ => true | None => false end)
       + N.of_nat (length (match cp_window c with Some w => w | None => [] end))
       + N.of_nat (length (match cp_table c with Some (_, w) => w | None => [] end))).
Proof. exact frame_length. Qed.

(* cpc_window_words: with any of the 22 tables the K window bytes take between K and 12 K bits ... *)
Theorem c18_cpc_window_bits : forall p bytes, p < 22 -> Forall (fun b => b < 256) bytes ->
  N.of_nat (length bytes) <= huff_bits p bytes <= 12 * N.of_nat (length bytes).
Proof. exact huffman_stream_bits. Qed.

(* ... so the padded stream fits the ceil((12 K + 11) / 32) words that safe_length_for_compressed_window_buf allots *)
Theorem c18_cpc_window_words : forall p bytes, p < 22 -> Forall (fun b => b < 256) bytes ->
  (huff_bits p bytes + 11 + 31) / 32 <= (12 * N.of_nat (length bytes) + 11 + 31) / 32.
Proof. exact window_stream_words. Qed.

(* the empirical max_serialized_bytes table (translated on this run) has the shape sizes must have: strictly
   increasing, each entry less than twice its predecessor (the streams double with K, the header does not), at
   most 1.5 K bytes (12 bits per window byte), and at lg_k = 19 within 0.1 % of the 0.6 K rule used beyond it *)
Theorem c18_cpc_max_size_table_shape :
  length Gen.GenCpc.EMPIRICAL_MAX_SIZE_BYTES = 16%nat /\
  (forall i, i < 15 -> size_entry i < size_entry (i + 1) < 2 * size_entry i) /\
  (forall i, i < 16 -> 1 <= size_entry i /\ 8 * size_entry i <= 12 * 2 ^ (i + 4)) /\
  3 * 2 ^ 19 <= 5 * size_entry 15 /\ 1000 * (5 * size_entry 15 - 3 * 2 ^ 19) <= 3 * 2 ^ 19.
Proof. exact max_size_table_shape. Qed.

(* max_serialized_bytes (table, then the binary64 product 0.6 * K truncated, plus 40) is defined, strictly
   increasing and less than doubling over the whole range lg_k 4..=26 *)
Theorem c18_cpc_max_serialized_bytes_monotone : forall l, 4 <= l <= 25 ->
  exists a b, max_serialized_bytes l = Ok a /\ max_serialized_bytes (l + 1) = Ok b /\ a < b < 2 * a.
Proof. exact max_serialized_bytes_monotone. Qed.

Example c18_cpc_example :
  huff_bits 16 [0; 255; 7] = 22 /\ make_preamble_ints 40 true false true = 8 /\
  max_serialized_bytes 14 = Ok 10008 /\ max_serialized_bytes 20 = Ok 629185.
Proof. repeat split; vm_compute; reflexivity. Qed.
