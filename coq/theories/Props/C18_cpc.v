(* C18 (CPC part) -- size bounded by configuration: the deterministic facts about a CPC image.
   Statements only; proofs in Proofs/CpcSize.v (on top of the C11 table sweeps and the C12 framing).
   "CPC images exceed max_serialized_bytes no more than 0.1 % of the time" is an empirical percentile and has
   no theorem (DESIGN.md section 5, C18). *)
From DS Require Import Base.Prelude Model.Cpc Model.CpcFrame Model.CpcCodec Proofs.CpcCodec Proofs.CpcSize.
Open Scope N_scope.

(* the preamble never exceeds 10 ints (40 bytes = MAX_PREAMBLE_SIZE_BYTES) *)
Theorem c18_cpc_preamble_ints_le_10 : forall num hip tab win, 2 <= make_preamble_ints num hip tab win <= 10.
Proof. exact preamble_ints_le_10. Qed.

(* the image is exactly 4 * (preamble ints + window words + table words) bytes *)
Theorem c18_cpc_image_length : forall s sh kxp hip c,
  (c_num s = 0 <-> cp_table c = None /\ cp_window c = None) ->
  N.of_nat (length (cpc_frame s sh kxp hip c)) =
  4 * (make_preamble_ints (c_num s) (negb (c_merge s))
         (match cp_table c with Some _ => true | None => false end)
         (match cp_window c with Some _ => true | None => false end)
       + N.of_nat (length (match cp_window c with Some w => w | None => [] end))
       + N.of_nat (length (match cp_table c with Some (_, w) => w | None => [] end))).
Proof. exact frame_length. Qed.

(* cpc_window_words: with any of the 22 tables the K window bytes take between K and 12 K bits ... *)
Theorem c18_cpc_window_bits : forall p bytes, p < 22 -> Forall (fun b => b < 256) bytes ->
  N.of_nat (length bytes) <= huff_bits p bytes <= 12 * N.of_nat (length bytes).
Proof. exact huffman_stream_bits. Qed.

(* ... so the padded stream fits the ceil((12 K + 11) / 32) words that safe_length_for_compressed_window_buf allots *)
Theorem c18_cpc_window_words : forall p bytes, p < 22 -> Forall (fun b => b < 256) bytes ->
  (huff_bits p bytes + 11 + 31) / 32 <= (12 * N.of_nat (length bytes) + 11 + 31) / 32.
Proof. exact window_stream_words. Qed.

Example c18_cpc_example : huff_bits 16 [0; 255; 7] = 22 /\ make_preamble_ints 40 true false true = 8.
Proof. split; vm_compute; reflexivity. Qed.
