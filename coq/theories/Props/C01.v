(* C01 -- Cardinality estimates and their confidence bounds: lower_bound(s) <= estimate <= upper_bound(s) in every
   state, with the intervals nested in s; a theta sketch in exact mode reports exactly the number of distinct items.
   Statements only; proofs are in Proofs/BoundsProofs.v, Proofs/BoundsFloat.v, Base/FloatLemmas.v.

   Reading guide.  All values are IEEE-754 binary64 numbers (Coq primitive floats = Rust f64, round to nearest even);
   [fle x y] is the f64 comparison x <= y, [fnn x] "finite and >= 0", [fpos x] "finite and > 0", [FR x] the real value.
   [chain7 b3 b2 b1 e a1 a2 a3] is  b3 <= b2 <= b1 <= e <= a1 <= a2 <= a3  (each link an f64 comparison).
   The bound functions are those of Model/Bounds.v (hll/estimator.rs get_rel_err/lower_bound/upper_bound,
   cpc/estimator.rs {hip,icon}_confidence_{lb,ub}, common/binomial_bounds.rs lower_bound/upper_bound) over the tables
   the translator re-reads from the Rust source on every run; they are tied to the crate bit-for-bit by the
   correspondence check (tie oracle of Corr/Bounds.v), which applies them to the crate's own estimate.

   No theorem (see DESIGN.md section 9): absence of bias, the advertised RSE and the nominal coverage of the
   intervals over random item sets are statements about fitted constants and a real hash function. *)
From Coq Require Import NArith ZArith Reals List.
From Flocq Require Import Core.Raux.
From Coq Require Import Floats.
From DS Require Import Base.Prelude Base.FloatBits Base.FloatLemmas Model.Bounds Model.HllEst Proofs.BoundsFloat Proofs.BoundsProofs Proofs.BoundsCeil Proofs.BoundsTheta
  Proofs.CouponSweepDefs Proofs.CouponSweep Model.Composite Proofs.CompositeProofs Proofs.RefTablesMatch Proofs.Martingale.
From Coq Require Import QArith.
From DS Require Spec.RefTables Gen.GenBoundsHll Gen.GenBoundsComposite Gen.GenBoundsCpc Gen.GenBoundsTheta Gen.GenHll.
Open Scope N_scope.

(* ---- binary64 division, the engine of every bound: monotone in the dividend, antitone in a positive divisor,
        also when the quotient overflows to +infinity ---- *)
Theorem c01_fdiv_monotone :
  forall e1 d1 e2 d2, fnn e1 -> fpos d1 -> fnn e2 -> fpos d2 ->
  (FR e1 / FR d1 <= FR e2 / FR d2)%R -> fle (PrimFloat.div e1 d1) (PrimFloat.div e2 d2).
Proof. exact fdiv_mono. Qed.

(* ---- HLL (HllSketch and HllUnion; HIP and composite/out-of-order estimators; lg_k 4..21): for EVERY finite
        non-negative estimate  lb3 <= lb2 <= lb1 <= estimate <= ub1 <= ub2 <= ub3 ---- *)
Theorem c01_hll_bounds_ordered_and_nested :
  forall lgk ooo est, 4 <= lgk <= 21 -> fnn est ->
  chain7 (hll_lower lgk ooo 3 est) (hll_lower lgk ooo 2 est) (hll_lower lgk ooo 1 est) est
         (hll_upper lgk ooo 1 est) (hll_upper lgk ooo 2 est) (hll_upper lgk ooo 3 est).
Proof. exact hll_bounds_nested. Qed.

(* the intervals tighten as k grows (a table row swapped with its neighbour breaks this even if each row is nested) *)
Theorem c01_hll_bounds_tighten_with_k :
  forall lgk ooo s est, 4 <= lgk <= 20 -> 1 <= s <= 3 -> fnn est ->
  fle (hll_lower lgk ooo s est) (hll_lower (lgk + 1) ooo s est) /\
  fle (hll_upper (lgk + 1) ooo s est) (hll_upper lgk ooo s est).
Proof. exact hll_bounds_tighten_with_k. Qed.

(* the two transcriptions of get_rel_err in this development (Model/HllEst.v, tied bit-for-bit by C02; Model/Bounds.v,
   the one the theorems above are about) are the same function on the whole domain *)
Theorem c01_hll_rel_err_models_agree :
  forall lgk up s, 4 <= lgk <= 21 -> 1 <= s <= 3 ->
  bits_of_float (HllEst.get_rel_err_hip lgk up s) = bits_of_float (hll_rel_err lgk up false s).
Proof. exact hll_rel_err_models_agree. Qed.

(* ---- HLL in coupon mode (list / hash set; at most 196608 coupons for lg_k <= 21): for EVERY coupon count the
        cubic-interpolation estimate is finite and at least the count, the bounds are ordered and nested, and even the
        widest lower bound is at least the count.  [coupon_ok] spells this out as f64 comparisons (CouponSweepDefs.v);
        the proof is an exhaustive kernel computation over the translated X_ARR / Y_ARR ---- *)
Theorem c01_hll_coupon_mode_bounds :
  forall len, len <= 196608 ->
  let e := container_estimate len in
  let l := fun s => container_lower_bound len s in
  let u := fun s => container_upper_bound len s in
  (PrimFloat.is_finite e && PrimFloat.leb (float_of_Z63 (Nz len)) e &&
   PrimFloat.leb (l 3) (l 2) && PrimFloat.leb (l 2) (l 1) && PrimFloat.leb (l 1) e &&
   PrimFloat.leb e (u 1) && PrimFloat.leb (u 1) (u 2) && PrimFloat.leb (u 2) (u 3) && PrimFloat.is_finite (u 3) &&
   PrimFloat.leb (float_of_Z63 (Nz len)) (l 3))%bool = true.
Proof. exact coupon_estimator_ok. Qed.

(* ---- CPC (HIP and ICON estimators; lg_k 4..26): for every finite estimate that is at least the number of coupons.
        cpc_upper rounds up with the model's f64::ceil (2^52 trick), which is proved to be the ceiling ---- *)
Theorem c01_cpc_bounds_ordered_and_nested :
  forall icon lgk c est, 4 <= lgk <= 26 -> 0 < c ->
  fnn est -> fnn (u2f c) -> (FR (u2f c) <= FR est)%R ->
  chain7 (cpc_lower icon lgk c 3 est) (cpc_lower icon lgk c 2 est) (cpc_lower icon lgk c 1 est) est
         (cpc_upper icon lgk c 1 est) (cpc_upper icon lgk c 2 est) (cpc_upper icon lgk c 3 est).
Proof. exact (fun icon lgk c est => cpc_bounds_nested fceil icon lgk c est fceil_spec). Qed.

(* f64::ceil as modelled: on every non-negative argument below 2^52 it is exactly the integer ceiling, above it the
   identity (such numbers are integers), +infinity stays +infinity *)
Theorem c01_ceil_is_ceiling :
  forall x, fnn_inf x ->
  (pinf x /\ fceil x = x) \/
  (fnn x /\ (P52 <= FR x)%R /\ fceil x = x) \/
  (fnn x /\ (FR x < P52)%R /\ fin (fceil x) /\ FR (fceil x) = IZR (Zceil (FR x))).
Proof. exact fceil_cases. Qed.

(* the hypothesis "estimate >= number of coupons" holds for both estimators:
   ICON by construction of icon_estimate ... *)
Theorem c01_cpc_icon_estimate_ge_coupons :
  forall lgk c e, icon_estimate lgk c = Some e -> fnn (u2f c) -> fle (u2f c) e.
Proof. exact icon_estimate_ge_coupons. Qed.

(* ... and HIP because every increment k / kxp of update_hip is at least 1 while 0 < kxp <= k: after n novel coupons
   the accumulator is +infinity or a finite number >= n, for ANY kxp sequence and any n < 2^53 *)
Theorem c01_cpc_hip_accumulator_ge_coupons :
  forall k kxps, fnn k -> Forall (fun x => fpos x /\ (FR x <= FR k)%R) kxps ->
  (Z.of_nat (length kxps) < 2 ^ 53)%Z -> ge_count (hip_run k kxps 0%float) (Z.of_nat (length kxps)).
Proof. exact hip_ge_count. Qed.

(* coupon counts convert to f64 exactly (so the comparison with the count is the real comparison) *)
Theorem c01_count_as_f64_exact :
  forall n : N, n <= 2 ^ 53 -> fnn (u2f n) /\ FR (u2f n) = IZR (Z.of_N n).
Proof. exact u2f_exact. Qed.

(* ---- Theta (ThetaSketch and CompactThetaSketch): whatever the binomial approximation returns (NaN included),
        lower_bound <= estimate <= upper_bound, for every retained count and every theta in (0, 1] ---- *)
Theorem c01_theta_bounds_ordered :
  forall n theta raw_lb raw_ub, fnn (u2f n) -> fpos theta ->
  let est := PrimFloat.div (u2f n) theta in
  fle (bb_lower_of n theta raw_lb) est /\ fle est (bb_upper_of n theta raw_ub false).
Proof. exact theta_bounds_ordered. Qed.

(* the same at the level of the sketch accessors (ThetaSketch / CompactThetaSketch estimate, lower_bound, upper_bound):
   every retained count, every theta64 in [1, MAX_THETA], empty or not (an empty sketch retains nothing) *)
Theorem c01_theta_sketch_bounds_ordered :
  forall empty n th raw_lb raw_ub, n < 2 ^ 63 -> 1 <= th <= MAX_THETA -> (empty = true -> n = 0) ->
  let est := theta_estimate empty n th in
  fle (theta_lower_of n th raw_lb) est /\ fle est (theta_upper_of empty n th raw_ub).
Proof. exact theta_sketch_bounds_ordered. Qed.

(* exact mode: the estimate and both bounds are exactly the retained count
   (= the number of distinct items offered: property C04) *)
Theorem c01_theta_exact_mode :
  forall n raw_lb raw_ub empty, fin (u2f n) ->
  theta_estimate false n MAX_THETA = u2f n /\
  theta_lower_of n MAX_THETA raw_lb = u2f n /\ theta_upper_of empty n MAX_THETA raw_ub = u2f n.
Proof. exact theta_exact_mode. Qed.

(* ---- HLL out-of-order (composite) estimator: hll/cubic_interpolation.rs find_straddle returns, for EVERY table of finite
        numbers and every finite x with xs[0] <= x < xs[last], an index i with xs[i] <= x < xs[i+1] ... ---- *)
Theorem c01_find_straddle_correct :
  forall xs x, all_fin xs -> fin x -> (2 <= length xs)%nat ->
  PrimFloat.leb (HllEst.fnth xs 0) x = true -> PrimFloat.ltb x (HllEst.fnth xs (N.of_nat (length xs) - 1)) = true ->
  let i := find_straddle xs x in
  i + 1 < N.of_nat (length xs) /\
  PrimFloat.leb (HllEst.fnth xs i) x = true /\ PrimFloat.ltb x (HllEst.fnth xs (i + 1)) = true.
Proof. exact find_straddle_correct. Qed.

(* ... and the 18 translated composite x-arrays (lg_k 4..21) have 257 finite, positive, strictly increasing entries and a
   positive y stride, so for every finite raw estimate inside a table the interpolation uses a straddling index *)
Theorem c01_composite_tables_increasing : forall lgk, 4 <= lgk <= 21 -> table_ok lgk = true.
Proof. exact composite_tables_ok. Qed.

Theorem c01_composite_straddle :
  forall lgk raw, 4 <= lgk <= 21 -> fin raw ->
  let xs := X_ARRAY lgk in
  PrimFloat.leb (HllEst.fnth xs 0) raw = true -> PrimFloat.ltb raw (HllEst.fnth xs 256) = true ->
  let i := find_straddle xs raw in
  i + 1 < 257 /\ PrimFloat.leb (HllEst.fnth xs i) raw = true /\ PrimFloat.ltb raw (HllEst.fnth xs (i + 1)) = true.
Proof. exact composite_straddle. Qed.

(* ---- the empirically fitted tables and constants of every estimator (HLL relative-error tables and RSE factors, raw-estimate
        correction factors, composite x-arrays / y strides / crossover constants, harmonic numbers, coupon interpolation
        arrays, CPC ICON polynomial and confidence tables, theta binomial equivalence tables and tail probabilities), as
        re-read from the Rust source on this run, equal the frozen reference of Spec/RefTables.v, a snapshot of the
        tables of the pinned source tree (it proves "unchanged since the pin", the published upstream files not being
        available offline).  These fits have no derivation to be proved against: their values are the specification of
        "unbiased, RSE as advertised";
        a change makes the check search for a configuration with significant bias or under-coverage (Monte Carlo) ---- *)
Theorem c01_estimator_tables_are_reference :
  GenBoundsHll.HIP_LB = RefTables.GenBoundsHll.HIP_LB /\
  GenBoundsHll.HIP_UB = RefTables.GenBoundsHll.HIP_UB /\
  GenBoundsHll.NON_HIP_LB = RefTables.GenBoundsHll.NON_HIP_LB /\
  GenBoundsHll.NON_HIP_UB = RefTables.GenBoundsHll.NON_HIP_UB /\
  GenBoundsHll.FLIT_get_rel_err = RefTables.GenBoundsHll.FLIT_get_rel_err /\
  GenBoundsHll.FLIT_get_raw_estimate = RefTables.GenBoundsHll.FLIT_get_raw_estimate /\
  GenBoundsHll.FLIT_get_composite_estimate = RefTables.GenBoundsHll.FLIT_get_composite_estimate /\
  GenBoundsComposite.ARRAYS = RefTables.GenBoundsComposite.ARRAYS /\
  GenBoundsComposite.Y_STRIDES = RefTables.GenBoundsComposite.Y_STRIDES /\
  GenBoundsComposite.EXACT_HARMONIC = RefTables.GenBoundsComposite.EXACT_HARMONIC /\
  GenBoundsComposite.EULER_MASCHERONI_bits = RefTables.GenBoundsComposite.EULER_MASCHERONI_bits /\
  GenHll.X_ARR = RefTables.GenHll.X_ARR /\ GenHll.Y_ARR = RefTables.GenHll.Y_ARR /\
  GenHll.COUPON_RSE_FACTOR_bits = RefTables.GenHll.COUPON_RSE_FACTOR_bits /\
  GenBoundsCpc.ICON_POLYNOMIAL_COEFFICIENTS = RefTables.GenBoundsCpc.ICON_POLYNOMIAL_COEFFICIENTS /\
  GenBoundsCpc.FLIT_icon_estimate = RefTables.GenBoundsCpc.FLIT_icon_estimate /\
  GenBoundsCpc.ICON_LOW_SIDE_DATA = RefTables.GenBoundsCpc.ICON_LOW_SIDE_DATA /\
  GenBoundsCpc.ICON_HIGH_SIDE_DATA = RefTables.GenBoundsCpc.ICON_HIGH_SIDE_DATA /\
  GenBoundsCpc.HIP_LOW_SIDE_DATA = RefTables.GenBoundsCpc.HIP_LOW_SIDE_DATA /\
  GenBoundsCpc.HIP_HIGH_SIDE_DATA = RefTables.GenBoundsCpc.HIP_HIGH_SIDE_DATA /\
  GenBoundsCpc.ICON_ERROR_CONSTANT_bits = RefTables.GenBoundsCpc.ICON_ERROR_CONSTANT_bits /\
  GenBoundsCpc.HIP_ERROR_CONSTANT_bits = RefTables.GenBoundsCpc.HIP_ERROR_CONSTANT_bits /\
  GenBoundsTheta.LB_EQUIV_TABLE = RefTables.GenBoundsTheta.LB_EQUIV_TABLE /\
  GenBoundsTheta.UB_EQUIV_TABLE = RefTables.GenBoundsTheta.UB_EQUIV_TABLE /\
  GenBoundsTheta.DELTA_OF_NUM_STD_DEVS = RefTables.GenBoundsTheta.DELTA_OF_NUM_STD_DEVS.
Proof.
  pose proof estimator_tables_are_reference as H.
  repeat split;
    first [ exact ref_GenBoundsHll_HIP_LB | exact ref_GenBoundsHll_HIP_UB | exact ref_GenBoundsHll_NON_HIP_LB
          | exact ref_GenBoundsHll_NON_HIP_UB | exact ref_GenBoundsHll_FLIT_get_rel_err | exact ref_GenBoundsHll_FLIT_get_raw_estimate
          | exact ref_GenBoundsHll_FLIT_get_composite_estimate | exact ref_GenBoundsComposite_ARRAYS | exact ref_GenBoundsComposite_Y_STRIDES
          | exact ref_GenBoundsComposite_EXACT_HARMONIC | exact ref_GenBoundsComposite_EULER_MASCHERONI_bits
          | exact ref_GenHll_X_ARR | exact ref_GenHll_Y_ARR | exact ref_GenHll_COUPON_RSE_FACTOR_bits
          | exact ref_GenBoundsCpc_ICON_POLYNOMIAL_COEFFICIENTS | exact ref_GenBoundsCpc_FLIT_icon_estimate
          | exact ref_GenBoundsCpc_ICON_LOW_SIDE_DATA | exact ref_GenBoundsCpc_ICON_HIGH_SIDE_DATA
          | exact ref_GenBoundsCpc_HIP_LOW_SIDE_DATA | exact ref_GenBoundsCpc_HIP_HIGH_SIDE_DATA
          | exact ref_GenBoundsCpc_ICON_ERROR_CONSTANT_bits | exact ref_GenBoundsCpc_HIP_ERROR_CONSTANT_bits
          | exact ref_GenBoundsTheta_LB_EQUIV_TABLE | exact ref_GenBoundsTheta_UB_EQUIV_TABLE
          | exact ref_GenBoundsTheta_DELTA_OF_NUM_STD_DEVS ].
Qed.

(* ---- statistical half, IDEALISED model only (uniform hashing; exact rationals; nothing about rounding or a real hash):
        the HIP update rules  hip += k / kxq  (HLL, before the registers move) and  hip += k / kxp  (CPC) have expected
        increment exactly 1 per distinct item in every state, i.e. the accumulator is an unbiased martingale ---- *)
Theorem c01_hll_hip_martingale_idealised : forall rs : list nat, rs <> nil -> (expected_hip_increment rs == 1)%Q.
Proof. exact hll_hip_martingale. Qed.

Theorem c01_cpc_hip_martingale_idealised :
  forall (k : Q) (cols : list nat), (0 < k)%Q -> cols <> nil -> (expected_cpc_increment k cols == 1)%Q.
Proof. exact cpc_hip_martingale. Qed.

(* non-vacuity: concrete bounds of an lg_k = 12 HLL sketch and an lg_k = 11 CPC sketch (1000 coupons, HIP 1003.7) *)
Example c01_example :
  fnn 1000%float /\ fle (hll_lower 12 false 2 1000) 1000 /\ fle 1000 (hll_upper 12 false 2 1000) /\
  PrimFloat.ltb (hll_lower 12 false 2 1000) 1000 = true /\
  fnn (u2f 1000) /\ PrimFloat.ltb (cpc_lower false 11 1000 2 1003.75) 1003.75 = true /\
  PrimFloat.ltb 1003.75 (cpc_upper false 11 1000 2 1003.75) = true.
Proof.
  split; [apply fnn_of_bool; vm_compute; reflexivity|].
  split; [vm_compute; reflexivity|]. split; [vm_compute; reflexivity|]. split; [vm_compute; reflexivity|].
  split; [apply fnn_of_bool; vm_compute; reflexivity|]. split; vm_compute; reflexivity.
Qed.

(* non-vacuity of the hypotheses of the theorems above, each instantiated on a concrete state *)
Example c01_example_theta :
  let '(lo, up) := (theta_lower_of 100 (2 ^ 62) 90%float, theta_upper_of false 100 (2 ^ 62) 230%float) in
  fle lo (theta_estimate false 100 (2 ^ 62)) /\ fle (theta_estimate false 100 (2 ^ 62)) up /\
  PrimFloat.ltb lo up = true.
Proof.
  cbv zeta. destruct (theta_sketch_bounds_ordered false 100 (2 ^ 62) 90%float 230%float) as [A B];
    [lia|unfold MAX_THETA; lia|discriminate|].
  split; [exact A|]. split; [exact B|]. vm_compute. reflexivity.
Qed.

Example c01_example_hip_accumulator :
  ge_count (hip_run 16 [16; 15.5; 15.25; 14.25]%float 0%float) 4.
Proof.
  apply (hip_ge_count 16%float [16; 15.5; 15.25; 14.25]%float).
  - apply fnn_of_bool; vm_compute; reflexivity.
  - repeat (apply Forall_cons; [split; [apply fpos_of_bool; vm_compute; reflexivity|apply FR_le_of_bool; vm_compute; reflexivity]|]).
    apply Forall_nil.
  - cbn. lia.
Qed.

Example c01_example_composite_straddle :
  let xs := X_ARRAY 10 in let raw := 5000%float in
  let i := find_straddle xs raw in
  PrimFloat.leb (HllEst.fnth xs i) raw = true /\ PrimFloat.ltb raw (HllEst.fnth xs (i + 1)) = true.
Proof.
  cbv zeta. destruct (composite_straddle 10 5000%float ltac:(lia)) as (_ & A & B).
  - apply fin_of_bool. vm_compute. reflexivity.
  - vm_compute. reflexivity.
  - vm_compute. reflexivity.
  - split; assumption.
Qed.
