(* C17, Frequent Items -- no valid sequence of public API calls panics (debug or release).
   Statements only; proofs in Proofs/FreqSafe.v (slot level) and Proofs/FreqProofs.v (abstract level).

   Slot level.  [fc_ok c] is the bookkeeping invariant of the concrete sketch of Model/Freq.v PART B
   (ReversePurgeItemHashMap slot by slot): table length 2^lg, num_active = number of occupied slots
   <= current capacity, capacities and sample size as the constructor computes them,
   3 <= lg_cur <= lg_max <= 62.  The modelled panic sites are: `assert!(max_map_size.is_power_of_two())`,
   `assert!(lg_cur <= lg_max)` and the usize overflow of `(1 << lg_max) * 3` in with_lg_map_sizes; the empty
   sample of `select_nth_unstable`; the index underflow of keep_only_positive_counts when no slot is empty;
   `panic!("purge did not reduce number of active items")`.  None is reachable: every operation of a
   sketch satisfying [fc_ok] returns Ok and preserves [fc_ok] -- for ANY hashes (no assumption on the hash
   function) and ANY merge partner.  Preconditions: max_map_size a power of two <= 2^62 (2^63 overflows the
   capacity computation in debug builds) and a total stream weight below 2^64 (u64 additions of weights are
   not modelled as panics; they are bounded by the second block of theorems). *)
From DS Require Import Base.Prelude Model.Freq Proofs.FreqProofs Proofs.FreqTable Proofs.FreqCodec Proofs.FreqSafe.
Open Scope N_scope.

Theorem c17_freq_new_ok :
  forall lg, lg <= 62 -> exists c, fc_new (2 ^ lg) = Ok c /\ fc_ok c /\ fc_lg_max c = N.max lg LG_MIN.
Proof. exact new_ok. Qed.

Theorem c17_freq_update_never_stuck :
  forall c k h w, fc_ok c -> exists c' tr, fc_update c k h w = Ok (c', tr) /\ fc_ok c' /\ fc_lg_max c' = fc_lg_max c.
Proof. exact update_ok. Qed.

Theorem c17_freq_merge_never_stuck :
  forall c o, fc_ok c -> exists c' tr, fc_merge c o = Ok (c', tr) /\ fc_ok c' /\ fc_lg_max c' = fc_lg_max c.
Proof. exact merge_ok. Qed.

Theorem c17_freq_reset_never_stuck :
  forall c, fc_ok c -> exists c', fc_reset c = Ok c' /\ fc_ok c' /\ fc_lg_max c' = fc_lg_max c.
Proof. exact reset_ok. Qed.

(* every program of updates, merges (any partners, hence any merge tree) and resets *)
Theorem c17_freq_programs_never_stuck :
  forall ops c, fc_ok c -> exists c', fc_run c ops = Ok c' /\ fc_ok c' /\ fc_lg_max c' = fc_lg_max c.
Proof. exact run_ok. Qed.

(* the pieces: keep_only_positive_counts finds an empty slot whenever one exists, keeps the bookkeeping,
   and removes at least one entry when some count is zero; a purge always has a zero (the median is one of
   the sampled counts), so it reduces the number of active items *)
Theorem c17_freq_purge_reduces :
  forall t ss, rp_ok t -> 0 < ss -> 0 < rp_active t -> (occ (rp_tab t) < length (rp_tab t))%nat ->
  exists t' m, rp_purge t ss = Ok (t', m) /\ rp_ok t' /\ rp_lg t' = rp_lg t /\ rp_thr t' = rp_thr t /\
               rp_active t' + 1 <= rp_active t.
Proof. exact purge_ok. Qed.

(* values accepted by deserialize and round-trip copies are such sketches (C14: Ok => usable) *)
Theorem c17_freq_wellformed_is_ok : forall H c, fc_wf H c -> fc_ok c.
Proof. exact wf_fc_ok. Qed.

(* Abstract level (all purge samples, all merge orders -- C07's [runs]): when the total stream weight of a
   history fits u64, so does every quantity the crate computes in u64: stream_weight, offset, every counter,
   and the sums count + offset of estimate / upper_bound / frequent_items (offset + all counters <= weight) *)
Theorem c17_freq_no_u64_overflow :
  forall h s, runs h s -> weight h < M64 ->
  fi_weight s < M64 /\ fi_offset s + cs_sum (fi_cs s) <= fi_weight s /\
  (forall x, fi_upper s x <= fi_weight s /\ fi_estimate s x <= fi_weight s /\ fi_lower s x <= fi_weight s).
Proof. exact no_overflow. Qed.

(* the capacity invariant that makes `panic!("purge did not reduce ...")` unreachable, abstract level *)
Theorem c17_freq_active_le_capacity :
  forall h s, runs h s -> fi_num_active s <= fi_cur_cap s /\ fi_cur_cap s <= fi_max_cap s.
Proof. exact fi_capacity. Qed.

(* non-vacuity: map size 8, seven distinct items of weight 5: the seventh insert purges every counter *)
Example c17_freq_example :
  exists c0 c, fc_new 8 = Ok c0 /\ fc_ok c0 /\
    fc_run c0 [OUpdate 1 11 5; OUpdate 2 12 5; OUpdate 3 13 5; OUpdate 4 14 5; OUpdate 5 15 5; OUpdate 6 16 5; OUpdate 7 17 5] = Ok c /\
    fc_offset c = 5 /\ fc_weight c = 35 /\ rp_active (fc_map c) = 0.
Proof. exact run_example. Qed.
