(* C17 (CPC part) -- no valid API sequence panics: the CPC models never reach a modelled panic site, and the
   fixed-width arithmetic of the k-scaled thresholds is exact.  Statements only; proofs in Proofs/CpcMain.v,
   Proofs/CpcUnionProofs.v, Proofs/CpcOverflow.v.

   determine_flavor / determine_pseudo_phase are the REPAIRED code (/repo "fix: cpc determine_flavor /
   determine_pseudo_phase computed k-scaled thresholds in u32", known_findings.d/c17-cpc-flavor-phase-u32.json):
   [determine_flavor_w W], [determine_pseudo_phase_w W] (Model/CpcPhase.v) compute in an unsigned type of W
   values with the debug profile's overflow check as [Stuck]; W = 2^64 is the crate now, W = 2^32 the crate before. *)
From DS Require Import Base.Prelude Model.Cpc Model.CpcUnion Model.CpcPhase Proofs.CpcSpec Proofs.CpcStep Proofs.CpcMain
  Proofs.CpcUnionSpec Proofs.CpcUnionProofs Proofs.CpcOverflow Proofs.CpcCodec.
Open Scope N_scope.

(* update path: new, any stream of valid pairs in the domain (offset <= 56, surprising values within the table's
   capacity: cpc_fits, see Props/C05.v), build_bit_matrix, validate.  Modelled panic sites: every debug_assert!/
   assert!/expect/index of cpc/sketch.rs on this path and the capacity asserts of PairTable::rebuild. *)
Theorem c17_cpc_update_no_stuck : forall lgk cs,
  4 <= lgk <= 26 -> Forall (valid lgk) cs -> 8 * distinct cs < 475 * 2 ^ lgk -> cpc_fits lgk cs ->
  exists s, cpc_run lgk cs = Ok s /\ (exists m, build_bit_matrix s = Ok m) /\ cpc_validate s = Ok true.
Proof. exact cpc_no_stuck. Qed.

(* both limits are real: outside the capacity the model is Stuck exactly where the crate panics (replayed) *)
Theorem c17_cpc_table_capacity_needed :
  Forall (valid 4) overflow_stream /\ 8 * distinct overflow_stream < 475 * 2 ^ 4 /\ cpc_run 4 overflow_stream = Stuck.
Proof. exact table_capacity_needed. Qed.

(* union path: any sequence of valid sketches whose result is in the domain; update and to_sketch
   (usteps_fit / result_fits: the table-capacity conditions of Props/C06.v) *)
Theorem c17_cpc_union_no_stuck : forall lg0 l,
  4 <= lg0 <= 26 -> Forall (fun x => Vin (fst (fst x)) (snd (fst x)) (snd x)) l ->
  dom (uspec lg0 (ins_of l)) ->
  usteps_fit (lg0, mzero) (ins_of l) -> result_fits (fst (uspec lg0 (ins_of l))) (snd (uspec lg0 (ins_of l))) ->
  exists u s, union_of lg0 (map (fun x => fst (fst x)) l) = Ok u /\ union_to_sketch u = Ok s.
Proof. exact cpc_union_no_stuck. Qed.

(* the repaired u64 determine_flavor: no overflow, equal to the unbounded thresholds, for every lg_k and every u32 count *)
Theorem c17_cpc_flavor_u64_exact : forall lgk c, lgk <= 26 -> c < 2 ^ 32 ->
  determine_flavor_w (2 ^ 64) lgk c = Ok (determine_flavor lgk c).
Proof. exact flavor_u64_exact. Qed.

(* the repaired u64 determine_pseudo_phase: equal to the unbounded thresholds ... *)
Theorem c17_cpc_pseudo_phase_u64_exact : forall lgk c, lgk <= 26 -> c < 2 ^ 32 ->
  determine_pseudo_phase_w (2 ^ 64) lgk c = determine_pseudo_phase lgk c.
Proof. exact pseudo_phase_u64_exact. Qed.

(* ... never panics for lg_k in 4..=26, and indexes one of the 22 coding tables *)
Theorem c17_cpc_pseudo_phase_no_stuck : forall lgk c, 4 <= lgk <= 26 -> c < 2 ^ 32 ->
  exists p, determine_pseudo_phase_w (2 ^ 64) lgk c = Ok p /\ p < 22.
Proof. exact pseudo_phase_no_stuck. Qed.

(* serialization path (CpcSketch::serialize / deserialize at every lg_k, incl. lg_k >= 21 with a window): the
   compressor has no full Coq model; its modelled panic sites are the table indices - the pseudo phase indexes one of
   the 22 coding tables (above) and, in the Sliding flavor, one of the 16 column permutations: *)
Theorem c17_cpc_sliding_phase_lt_16 : forall lgk c, 4 <= lgk -> 27 * 2 ^ lgk <= 8 * c ->
  exists p, determine_pseudo_phase lgk c = Ok p /\ p < 16.
Proof. exact sliding_phase_lt_16. Qed.

(* HISTORICAL (the code before the repair, kept to document the defect): the u32 arithmetic was exact only below
   2^27 coupons / lg_k <= 20 and 1000 C < 2^32 ... *)
Theorem c17_cpc_flavor_u32_exact_partial : forall lgk c, lgk <= 26 -> c < 2 ^ 27 ->
  determine_flavor_w (2 ^ 32) lgk c = Ok (determine_flavor lgk c).
Proof. exact flavor_u32_exact_small. Qed.

Theorem c17_cpc_pseudo_phase_u32_exact_partial : forall lgk c, lgk <= 20 -> 1000 * c < 2 ^ 32 ->
  determine_pseudo_phase_w (2 ^ 32) lgk c = determine_pseudo_phase lgk c.
Proof. exact pseudo_phase_u32_exact_small. Qed.

(* HISTORICAL: ... and wrong beyond: lg_k 26 with 2^27 coupons was reported Sparse instead of Pinned (serialize() then divided
   by zero, also in release builds); lg_k 21 with 1 049 576 coupons: multiply overflow in debug, table 8 instead of
   16 in release; lg_k 17 with 4 400 000 coupons: multiply overflow.  All three replayed on the crate. *)
Theorem c17_cpc_flavor_u32_refuted : exists lgk c, lgk <= 26 /\ c < 2 ^ 32 /\
  determine_flavor_w (2 ^ 32) lgk c = Ok SPARSE /\ determine_flavor lgk c = PINNED.
Proof. exact flavor_u32_refuted. Qed.

Theorem c17_cpc_pseudo_phase_u32_refuted :
  (exists lgk c, 4 <= lgk <= 26 /\ c < 2 ^ 32 /\ determine_pseudo_phase_w (2 ^ 32) lgk c = Stuck /\
                 determine_pseudo_phase_wrap (2 ^ 32) lgk c = Ok 8 /\ determine_pseudo_phase lgk c = Ok 16) /\
  (exists lgk c, 4 <= lgk <= 20 /\ c < 2 ^ 32 /\ determine_pseudo_phase_w (2 ^ 32) lgk c = Stuck).
Proof. exact pseudo_phase_u32_refuted. Qed.

(* the literals of determine_pseudo_phase, as translated on this run *)
Theorem c17_cpc_phase_literals : Gen.GenCpcPhase.LIT_determine_pseudo_phase =
  [1; 1000; 2375; 4; 3; 16; 10; 11; 16; 1; 100; 132; 16; 2; 3; 5; 16; 3; 1000; 1965; 16; 4; 1000; 2275; 16; 5; 6; 4; 4; 15]%Z.
Proof. exact phase_literals. Qed.

(* non-vacuity: the largest configuration, more than 2^27 coupons *)
Example c17_cpc_example :
  determine_flavor_w (2 ^ 64) 26 (2 ^ 27 + 5) = Ok PINNED /\
  determine_pseudo_phase_w (2 ^ 64) 26 (2 ^ 27 + 5) = Ok 21 /\
  determine_pseudo_phase_w (2 ^ 64) 21 5000000 = Ok 6.
Proof. repeat split; vm_compute; reflexivity. Qed.
