(* C07 -- Frequent Items: the bounds bracket the true count across updates and merges.
   Statements only; proofs are in Proofs/FreqProofs.v.

   Reading guide.  [hist] is a history / merge tree:
       HNew lg | HUpd h x w | HMerge h1 h2 | HReset h
   [truth h x] is the exact frequency of item x in h (sum of its weights; a merge adds the
   two sides) and [weight h] the exact total weight -- this is the Spec.
   [runs h s] says the model of frequencies/sketch.rs (Model/Freq.v PART A) can be in state s
   after h.  Everything the hash-table layout decides is left open in [runs]: each purge may
   look at ANY sample (any sub-multiset of the counters that has the length the crate uses)
   and each merge may replay the partner's counters in ANY order.  The theorems therefore
   hold whatever ReversePurgeItemHashMap's layout is; the crate's actual choices are checked
   to be instances by the correspondence run (Corr/Freq.v, lock step).

   merge is the REPAIRED code (/repo "fix: frequencies merge must not skip a partner whose
   purge removed every counter", known_findings.d/c07-fi-merge-purge-emptied.json). *)
From DS Require Import Base.Prelude Model.Freq Proofs.FreqProofs.
From Coq Require Import Permutation.
Open Scope N_scope.

(* lower_bound(x) <= true frequency(x) <= upper_bound(x), for EVERY item, tracked or not *)
Theorem c07_bounds_bracket_truth :
  forall h s, runs h s -> forall x, fi_lower s x <= truth h x /\ truth h x <= fi_upper s x.
Proof. exact fi_bounds. Qed.

(* upper_bound - lower_bound <= maximum_error (any state, any item) *)
Theorem c07_width_le_maximum_error :
  forall s x, fi_upper s x - fi_lower s x <= fi_max_error s.
Proof. exact fi_width. Qed.

(* estimate lies between the bounds (any state, any item) *)
Theorem c07_estimate_between_bounds :
  forall s x, fi_lower s x <= fi_estimate s x /\ fi_estimate s x <= fi_upper s x.
Proof. exact fi_estimate_between. Qed.

(* total_weight is the exact stream weight *)
Theorem c07_total_weight_exact :
  forall h s, runs h s -> fi_total s = weight h.
Proof. exact fi_total_exact. Qed.

(* the potential argument:  maximum_error * hmin + (sum of all counters) <= N, where hmin is the
   smallest [half_sample] among the sketches of the tree: ceil(L/2) for the sample length
   L = min(1024, 0.75 * map size) *)
Theorem c07_potential :
  forall h s, runs h s -> fi_max_error s * hmin h + cs_sum (fi_cs s) <= weight h.
Proof. exact fi_potential. Qed.

(* one map size M = 2^lg <= 1024 in the whole tree:  maximum_error <= (3.5 / M) * total_weight,
   written without division as  2 * M * maximum_error <= 7 * N   (EPSILON_FACTOR = 3.5 = 7/2) *)
Theorem c07_epsilon_upto_1024 :
  forall lg h s, runs h s -> uniform lg h -> lg <= 10 ->
  2 * 2 ^ lg * fi_max_error s <= 7 * weight h.
Proof. exact fi_epsilon. Qed.

(* Full statement for map size 2048 would be  2 * 2048 * maximum_error <= 7 * N ; the code does
   not give it (sample capped at 1024 of 1537 counters).  The witness is a run of the ABSTRACT model
   (the purge may look at any admissible sample).  Replayed on the crate (tools/families/freq.py
   gen_eps2048, part of every C07 check): with the witness's own items 0..1536 the crate's table order
   puts only about a third of the heavy counters among the first 1024, the median is 1 and
   maximum_error = 1; with 1537 items chosen for their hashes (the 514 heavy ones first in table
   order) the crate takes exactly the witness's sample: maximum_error = 100 > 3.5/2048 * 52423 = 89.6,
   in debug and release.  The property text claims epsilon only up to map size 1024, so this is not a
   violation of C07; it does contradict the crate's module documentation ("(UB - LB) <= W * epsilon,
   epsilon = 3.5/M ... applies to arbitrary inputs"), recorded as known_findings.d/C07-freq-epsilon-2048.json.
   The oracle checks what c07_epsilon_from_2048_partial proves for these sizes (maximum_error <= N/512). *)
Theorem c07_epsilon_2048_refuted :
  exists h s, runs h s /\ uniform 11 h /\ 7 * weight h < 2 * 2 ^ 11 * fi_max_error s.
Proof. exact eps_2048_refuted. Qed.

(* what does hold for map sizes >= 2048:  maximum_error <= N / 512  (= 4/M * N at M = 2048) *)
Theorem c07_epsilon_from_2048_partial :
  forall lg h s, runs h s -> uniform lg h -> 11 <= lg -> 512 * fi_max_error s <= weight h.
Proof. exact fi_epsilon_large. Qed.

(* frequent_items(NoFalsePositives [, threshold]): every returned item has a true count above
   the effective threshold max(threshold, maximum_error), and its row brackets the truth *)
Theorem c07_no_false_positives :
  forall h s thr r, runs h s -> In r (fi_frequent_thr true thr s) ->
  N.max thr (fi_max_error s) < truth h (row_item r) /\
  row_lb r <= truth h (row_item r) /\ truth h (row_item r) <= row_ub r.
Proof. exact fi_nfp. Qed.

(* frequent_items(NoFalseNegatives [, threshold]): every item whose true count exceeds the
   effective threshold is returned *)
Theorem c07_no_false_negatives :
  forall h s thr x, runs h s -> N.max thr (fi_max_error s) < truth h x ->
  exists r, In r (fi_frequent_thr false thr s) /\ row_item r = x /\
            row_lb r <= truth h x /\ truth h x <= row_ub r.
Proof. exact fi_nfn. Qed.

(* active items <= current capacity <= 0.75 * max map size after every operation
   (so the crate's `panic!("purge did not reduce number of active items")` is unreachable) *)
Theorem c07_capacity :
  forall h s, runs h s -> fi_num_active s <= fi_cur_cap s /\ fi_cur_cap s <= fi_max_cap s.
Proof. exact fi_capacity. Qed.

(* the semantics is not empty: from every reachable state every update and every merge has an
   admissible choice (so the theorems above are not vacuous for any history) *)
Theorem c07_update_always_possible :
  forall h s x w, runs h s -> exists tape s', fi_update tape s x w = Some (s', []).
Proof. exact update_progress. Qed.

Theorem c07_merge_always_possible :
  forall h1 h2 s o, runs h1 s -> runs h2 o -> exists tape s', fi_merge tape (fi_cs o) s o = Some (s', []).
Proof. exact merge_progress. Qed.

(* non-vacuity, concretely: map size 8, seven items; the 7th insert purges with median 5; then
   the sketch is merged with itself *)
Example c07_example :
  let h := hist_updates (HNew 3) c07_example_script in
  let s := mkFi 3 3 5 28 [(3%Z, 4); (6%Z, 2)] in
  runs h s /\ truth h 3 = 9 /\ fi_lower s 3 = 4 /\ fi_upper s 3 = 9 /\
  truth h 4 = 1 /\ fi_lower s 4 = 0 /\ fi_upper s 4 = 5 /\
  runs (HMerge h h) (mkFi 3 3 10 56 [(3%Z, 8); (6%Z, 4)]).
Proof.
  cbv zeta.
  assert (R : runs (hist_updates (HNew 3) c07_example_script) (mkFi 3 3 5 28 [(3%Z, 4); (6%Z, 2)])).
  { apply (exec_runs _ (HNew 3) (fi_new_lg 3)); [apply R_new|reflexivity]. }
  repeat split; try exact R; try reflexivity.
  apply (R_merge _ _ _ _ [(3%Z, 4); (6%Z, 2)] [] _ [] R R); [apply Permutation_refl|reflexivity].
Qed.

(* non-vacuity of the frequent_items theorems: after one more update (item 3, weight 10) the
   sketch reports item 3 with NoFalsePositives (lower bound 14 > maximum_error 5; true count 19)
   and items 3 and 6 with NoFalseNegatives (upper bounds 19 and 7 > 5; true counts 19 and 7);
   item 1 (true count 5, not above the threshold 5) is in neither; with threshold 7 only item 3 *)
Example c07_frequent_example :
  let h := HUpd (hist_updates (HNew 3) c07_example_script) 3 10 in
  let s := mkFi 3 3 5 38 [(3%Z, 14); (6%Z, 2)] in
  runs h s /\ truth h 3 = 19 /\ truth h 6 = 7 /\ truth h 1 = 5 /\
  fi_frequent true s = [(3%Z, 19, 19, 14)] /\
  fi_frequent false s = [(3%Z, 19, 19, 14); (6%Z, 7, 7, 2)] /\
  fi_frequent_thr false 7 s = [(3%Z, 19, 19, 14)].
Proof.
  cbv zeta.
  assert (R : runs (hist_updates (HNew 3) c07_example_script) (mkFi 3 3 5 28 [(3%Z, 4); (6%Z, 2)])).
  { apply (exec_runs _ (HNew 3) (fi_new_lg 3)); [apply R_new|reflexivity]. }
  split; [|repeat split; reflexivity].
  apply (R_upd _ _ 3 10 [] _ [] R). reflexivity.
Qed.
