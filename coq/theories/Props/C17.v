(* C17 — no valid sequence of public API calls panics, in debug or release builds.
   Statements only.  Per family: the model, with the crate's fixed-width arithmetic written out
   where the crate uses narrow types, never reaches a modelled panic site (Stuck) under the
   documented preconditions.  This file holds the Count-Min statements; the other families are
   in Props/C17_<family>.v. *)
From DS Require Import Base.Prelude Model.CountMin Proofs.CountMinProofs Proofs.CountMinCodec Proofs.CountMinApi.
Open Scope N_scope.

(* ---------------- Count-Min (every counter type: mx = T::MAX; [tadd] = T's `+` with the overflow check) ----------------
   a program = any expression over new / update_with_weight / merge (of two programs) / halve /
   decay (any monotone g, g 0 = 0, g c <= c) / serialize-then-deserialize; valid = configuration in the
   constructor's range and the weight fed in fits the counter type *)
Theorem c17_countmin_no_valid_program_is_stuck :
  forall nh nb mx sh, 1 <= nh < 256 -> 3 <= nb < 4294967296 -> nh * nb < zN Gen.GenCountMin.MAX_TABLE_ENTRIES ->
  0 < sh < 65536 -> mx < M64 ->
  forall bucket : N -> N -> N, (forall x r, bucket x r < nb) ->
  forall p : prog, pok nh nb mx sh p -> pweight mx sh p <= mx -> ~ has_image p ->
  exists s, eval nh nb mx sh bucket p = Ok s /\ LB nh nb mx sh bucket s (ptruth p) /\ cm_total s <= pweight mx sh p /\ wfc mx sh s /\
            (* the implicit panic sites `counts[row * num_buckets + bucket]` (the model's nthN / set_nthN are total):
               every index update and estimate compute lies inside the table *)
            (forall x r, r < nh -> (N.to_nat (r * nb + bucket x r) < length (cm_counts s))%nat).
Proof. exact api_no_stuck. Qed.

(* ... and when a program also uses sketches deserialized from ARBITRARY bytes (leaf PImage bs; its weight is
   the accepted image's total weight, its configuration the program's): still never stuck - either it runs
   to completion, or an image leaf was rejected with Err *)
Theorem c17_countmin_no_valid_program_with_images_is_stuck :
  forall nh nb mx sh, 1 <= nh < 256 -> 3 <= nb < 4294967296 -> nh * nb < zN Gen.GenCountMin.MAX_TABLE_ENTRIES ->
  0 < sh < 65536 -> mx < M64 ->
  forall bucket : N -> N -> N, (forall x r, bucket x r < nb) ->
  forall p : prog, pok nh nb mx sh p -> pweight mx sh p <= mx ->
  (exists s, eval nh nb mx sh bucket p = Ok s /\ LB nh nb mx sh bucket s (ptruth p) /\ cm_total s <= pweight mx sh p /\ wfc mx sh s) \/
  (eval nh nb mx sh bucket p = Err /\ has_image p).
Proof. exact api_no_stuck_general. Qed.

(* the constructor panics exactly outside its documented ranges (num_hashes 0, num_buckets < 3, table too large,
   a seed whose hash is zero); the crate's decay is the clamped scaling c -> min(f c, c), admissible in a program
   (pok) as soon as its float part f is monotone (g 0 = 0 and g c <= c hold by the clamp) *)
Theorem c17_countmin_constructor_panics_outside_range :
  forall nh nb mx sh, nh = 0 \/ nb < 3 \/ zN Gen.GenCountMin.MAX_TABLE_ENTRIES <= nh * nb \/ sh = 0 -> cm_new nh nb mx sh = Stuck.
Proof. exact cm_new_stuck. Qed.

Theorem c17_countmin_decay_is_admissible :
  forall f : N -> N, (forall a b, a <= b -> f a <= f b) -> sop_ok (SScale (decay_clamp f)).
Proof. exact decay_clamp_ok. Qed.

(* the queries of a valid program's sketch: lower_bound = estimate <= total weight, and the
   (repaired, saturating) upper_bound lies between the estimate and T::MAX, for every error term *)
Theorem c17_countmin_queries_ordered :
  forall nh nb mx sh, 1 <= nh < 256 -> 3 <= nb < 4294967296 -> nh * nb < zN Gen.GenCountMin.MAX_TABLE_ENTRIES ->
  0 < sh < 65536 -> mx < M64 ->
  forall bucket : N -> N -> N, (forall x r, bucket x r < nb) ->
  forall p s x err, pok nh nb mx sh p -> pweight mx sh p <= mx -> eval nh nb mx sh bucket p = Ok s ->
  cm_lower_bound s (bk_of nh bucket x) <= cm_total s /\
  cm_lower_bound s (bk_of nh bucket x) <= cm_upper_bound s (bk_of nh bucket x) err /\
  cm_upper_bound s (bk_of nh bucket x) err <= mx.
Proof. exact api_queries_ordered. Qed.

(* upper_bound >= estimate in the fixed-width model, for ANY state and error term (D15 repaired) *)
Theorem c17_countmin_upper_bound_ge_estimate :
  forall s bk err,
  cm_lower_bound s bk <= cm_upper_bound s bk err /\ cm_upper_bound s bk err <= cm_max s /\
  (cm_estimate s bk + err <= cm_max s -> cm_upper_bound s bk err = cm_estimate s bk + err) /\
  (cm_max s < cm_estimate s bk + err -> cm_upper_bound s bk err = cm_max s).
Proof. exact upper_bound_sound. Qed.

(* the code before the repair (T's plain `+`) was stuck exactly when the sum leaves the type,
   which a valid use reaches: CountMinSketch::<u8>::new(1, 3) after one update of weight 200 *)
Theorem c17_countmin_upper_bound_before_fix_refuted :
  exists s, cm_update (cm_fresh 1 3 255 0) 200 [0] = Ok s /\ cm_total s = 200 /\
            cm_upper_bound_before_fix s [0] 181 = Stuck /\ cm_upper_bound s [0] 181 = 255.
Proof. exact upper_bound_before_fix_refuted. Qed.

(* non-vacuity: a merge tree with a round trip, a halving and a decay at the 1 x 3 extreme of a u8
   sketch filled to exactly T::MAX *)
Example c17_countmin_example :
  let bucket := fun x r => (x + r) mod 3 in
  let p := PScale (fun c => c / 3) (PHalve (PRound (PMerge (PUpd (PUpd PNew 1 200) 2 0) (PUpd PNew 4 55)))) in
  pok 1 3 255 7 p /\ pweight 255 7 p = 255 /\
  exists s, eval 1 3 255 7 bucket p = Ok s /\ cm_total s = 42 /\ cm_upper_bound s [1] 38 = 80.
Proof.
  split; [|split; [reflexivity|eexists; split; [vm_compute; reflexivity|split; reflexivity]]].
  cbn [pok]. repeat split; auto. intros a b Hab. apply N.div_le_mono; lia. intros c. apply N.div_le_upper_bound; lia.
Qed.
