(* C13 — every image variant Java/C++ can emit is read back to the state it encodes.
   Statements only.  Per family: for every admissible abstract state a and every variant v of the
   format (Spec/*Layout.v: [spec_encode], written from the format description), the modelled reader
   accepts the image and yields a sketch whose abstraction is a.  This file holds the Count-Min
   statements; the other families are in Props/C13_<family>.v. *)
From DS Require Import Base.Prelude Model.CountMin Spec.CountMinLayout Proofs.CountMinCodec.
Open Scope N_scope.

(* ---------------- Count-Min (C++ only; every counter type: mx is the type's maximum) ----------------
   variants: arbitrary contents of the unused fields (bytes 4..7, byte 15) and of the undefined
   flag bits 1..7; the empty form (16 bytes, flag bit 0) and the full form *)
Theorem c13_countmin_reads_every_variant :
  forall mx sh v a, variant_ok v -> abs_ok mx sh a ->
  exists s, cm_deserialize mx sh (spec_encode v a) = Ok s /\ abs_of s = a /\ wfc mx sh s /\
            (* re-serialization is the canonical image of the same state *)
            cm_serialize s = spec_encode canonical_variant a.
Proof. exact foreign_read_full. Qed.

(* the layout specification is self-consistent on every variant *)
Theorem c13_countmin_spec_decoder_inverts_encoder :
  forall mx sh v a, variant_ok v -> abs_ok mx sh a -> spec_decode (spec_encode v a) = Some a.
Proof. exact spec_decode_encode. Qed.

(* the admissibility test the oracle evaluates on the crate's inputs is the theorem's hypothesis *)
Theorem c13_countmin_oracle_admissible :
  forall mx sh a, sh < 65536 -> mx < 18446744073709551616 -> abs_okb mx sh a = true -> abs_ok mx sh a.
Proof. exact abs_okb_ok. Qed.

(* non-vacuity: a 2 x 3 u8 table with the unused fields and undefined flag bits filled with junk *)
Example c13_countmin_example :
  let a := mkAbs 3 2 7 8 [5; 0; 3; 0; 7; 1] in
  let v := mkVar 4294967295 255 254 in
  variant_ok v /\ abs_ok 255 7 a /\
  cm_deserialize 255 7 (spec_encode v a) = Ok (mkCm 2 3 255 7 8 [5; 0; 3; 0; 7; 1]).
Proof.
  split; [vm_compute; repeat split; discriminate|]. split; [|vm_compute; reflexivity].
  apply (abs_okb_ok 255 7); [reflexivity | reflexivity | vm_compute; reflexivity].
Qed.
