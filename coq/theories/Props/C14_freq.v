(* C14, Frequent Items (i64 items) -- malformed bytes yield an error, never a panic.
   Statements only; proofs in Proofs/FreqCodec.v.  The reader is the REPAIRED deserialize
   (/repo "fix: frequencies deserialize rejects an lg_max_map_size whose map size is not
   representable", "... checks the payload length and the map capacity before allocating",
   "... rejects counters and offset that exceed the stream weight"): [fc_parse] is everything it
   does before the map is built, [fc_build] builds the map and runs the update loop. *)
From DS Require Import Base.Prelude Model.Freq Proofs.FreqProofs Proofs.FreqTable Proofs.FreqCodec.
Open Scope N_scope.

(* total and never at a panic site: for ANY list of bytes and ANY list of hashes *)
Theorem c14_freq_never_stuck : forall bs hashes, fc_deserialize bs hashes <> Stuck.
Proof. exact deserialize_never_stuck. Qed.

(* Ok => well-formed: lg sizes in range (no shift or capacity overflow), bookkeeping consistent,
   distinct keys with positive counts that fit the current capacity, offset + counters <= stream
   weight < 2^64 (so no bound count + offset overflows), the table satisfies the probe invariant,
   and it has exactly the 2^max(lg_cur, 3) slots the image announces.  [fc_items bs] are the items
   of the image; the crate hashes them itself ([H]). *)
Theorem c14_freq_ok_is_wellformed :
  forall H bs c, bytes_ok bs = true -> fc_deserialize bs (map H (fc_items bs)) = Ok c ->
  fc_wf H c /\ tinv H (fc_map c) /\ rp_len (fc_map c) = fc_deser_table_slots bs.
Proof. exact deserialize_ok_wf. Qed.

(* a well-formed value can be used: its lookups are finite-map lookups (c11_freq_lookup_is_finite_map),
   it re-serializes and reads back (c11_freq_roundtrip), and count + offset <= stream weight *)
Theorem c14_freq_ok_roundtrips :
  forall H c, fc_wf H c ->
  exists c', fc_deserialize (fc_serialize c) (map e_hash (active_entries (fc_map c))) = Ok c' /\
             fc_same H c c' /\ fc_wf H c' /\ tinv H (fc_map c').
Proof. exact roundtrip. Qed.

(* allocation: the two vectors (8 bytes per announced counter each) are requested only after the
   payload is known to hold the counters, so they take at most twice the input length ... *)
Theorem c14_freq_vectors_bounded_by_input : forall bs, fc_deser_vec_bytes bs <= 2 * N.of_nat (length bs).
Proof. exact deser_vec_bytes_bound. Qed.

(* ... and the table is built only for an image that passed validation (a rejected image costs
   nothing); its 2^max(lg_cur, 3) slots are what byte 4 announces -- inherent in the format, not
   proportional to the input: known finding C14-freq-table-alloc *)
Theorem c14_freq_rejected_builds_nothing : forall bs hashes, fc_parse bs = Err -> fc_deserialize bs hashes = Err.
Proof. exact rejected_builds_nothing. Qed.

Example c14_freq_example :
  (* lg_max = 200 (shift overflow before the fix), active_items = u32::MAX on a 32-byte image, counts that
     overflow u64, an offset beyond the stream weight: all Err; a valid image: Ok *)
  fc_deserialize [1; 1; 10; 200; 3; 5; 0; 0] [] = Err /\
  fc_deserialize ([4; 1; 10; 3; 3; 0; 0; 0; 255; 255; 255; 255; 0; 0; 0; 0] ++ le_bytes 8 10 ++ le_bytes 8 0) [] = Err /\
  fc_deserialize ([4; 1; 10; 3; 3; 0; 0; 0; 2; 0; 0; 0; 0; 0; 0; 0] ++ le_bytes 8 10 ++ le_bytes 8 0
                  ++ le_bytes 8 18446744073709551615 ++ le_bytes 8 18446744073709551615 ++ le_bytes 8 1 ++ le_bytes 8 2) [0; 0] = Err /\
  fc_deserialize ([4; 1; 10; 3; 3; 0; 0; 0; 1; 0; 0; 0; 0; 0; 0; 0] ++ le_bytes 8 10 ++ le_bytes 8 18446744073709551615
                  ++ le_bytes 8 5 ++ le_bytes 8 1) [0] = Err /\
  exists c, fc_deserialize ([4; 1; 10; 3; 3; 0; 0; 0; 1; 0; 0; 0; 0; 0; 0; 0] ++ le_bytes 8 10 ++ le_bytes 8 3
                            ++ le_bytes 8 5 ++ le_bytes 8 1) [0] = Ok c /\ fc_weight c = 10 /\ fc_offset c = 3.
Proof. repeat split; try (vm_compute; reflexivity). eexists. vm_compute. repeat split. Qed.
