(* C13, HLL part -- every image variant Java/C++ can emit is read back to the state it encodes.
   Statements only; proofs in Proofs/HllCodecProofs.v.  Spec/HllLayout.v holds the spec encoders
   (written from the format description, independent of the model).
   PARTIAL: proved for the two LIST variants (compact: `count` coupons; updatable: all 1 << lgArr
   slots, zeros empty) and for the Hll8 array variants of the SPEC encoder enc_hll_pre (COMPACT flag
   set or not, OUT_OF_ORDER set or not, any lgArr byte, any curMin byte, any numAtCurMin / auxCount
   fields, trailing bytes) whose estimator fields are finite and non-negative.
   For the other variants (set compact in any order / updatable table; Hll4 and Hll6 arrays with
   either flag) the statement
       hll_deserialize (spec_encode v a) = Ok s /\ abstraction of s = a
   is not proved; it is checked by the foreign-image oracle (Corr/Hll.v foreign_ok) on images built by
   the generator's independent encoder: the decoded sketch is dumped, its estimate and bounds are
   compared with the model's, it is re-serialized, updated further and merged into a union, all in
   lock step with the model.  NOT read back (known finding C13-hll-updatable-hll4-aux): updatable Hll4
   images whose exceptions are stored as a hash table. *)
From DS Require Import Base.Prelude Base.FloatBits Model.Hll Model.HllUnion Model.HllCodec Spec.HllLayout Proofs.HllBase Proofs.HllSet Proofs.HllCodecProofs.
From Coq Require Import Floats.
Open Scope N_scope.

Theorem c13_hll_list_variants_partial :
  forall compact lgk t cs, 4 <= lgk <= 21 -> NoDup cs -> Forall valid cs -> (length cs < 8)%nat ->
  hll_deserialize (enc_list compact lgk (tgt_num t) cs) = Ok (mkSketch lgk (MList (list_of_coupons cs) t)).
Proof. exact list_variants_read_back. Qed.

(* the sketch read back is the well-formed 8-slot list holding exactly cs in order *)
Theorem c13_hll_list_is_wellformed :
  forall cs, NoDup cs -> Forall valid cs -> (length cs < 8)%nat -> ListInv (list_of_coupons cs) cs.
Proof. exact list_of_coupons_inv. Qed.

(* every Hll8 array image of the spec encoder is read back: the registers are the k bytes of the
   register block whatever the COMPACT flag says (repaired defect D4), num_zeros is recomputed, the
   out-of-order flag is the flag bit, kxq0 / kxq1 are the encoded binary64 values and the HIP
   accumulator is the encoded one unless the image is out of order (then 0) *)
Theorem c13_hll_hll8_variants_partial :
  forall compact ooo lgk lg_arr cm hipv q0 q1 num auxc regs tail,
  4 <= lgk <= 21 -> hipv < 2 ^ 64 -> q0 < 2 ^ 64 -> q1 < 2 ^ 64 ->
  length regs = N.to_nat (2 ^ lgk) -> (forall v, In v regs -> v <= 63) ->
  image_field_ok (float_of_bits (Nz hipv)) = true -> image_field_ok (float_of_bits (Nz q0)) = true ->
  image_field_ok (float_of_bits (Nz q1)) = true ->
  exists a, hll_deserialize (enc_hll_pre compact ooo lgk 2 lg_arr cm hipv q0 q1 num auxc ++ regs ++ tail)
            = Ok (mkSketch lgk (MArr8 a)) /\
    a8_lgk a = lgk /\ (forall j, a8_get a j = if j <? 2 ^ lgk then nth (N.to_nat j) regs 0 else 0) /\
    a8_nz a = N.of_nat (length (filter (fun v => v =? 0) regs)) /\
    h_ooo (a8_est a) = ooo /\ h_kxq0 (a8_est a) = float_of_bits (Nz q0) /\ h_kxq1 (a8_est a) = float_of_bits (Nz q1) /\
    h_accum (a8_est a) = if ooo then 0%float else float_of_bits (Nz hipv).
Proof. exact hll8_variants_read_back. Qed.

(* array images carrying the COMPACT flag (what toCompactByteArray emits; defect D4) and images
   without it are read alike: the model's reader does not consult the flag for the register block *)
Example c13_hll_compact_flag_example :
  let img (flags : N) := [10; 1; 7; 4; 0; flags; 0; 10] ++ repeat 0 24 ++ le_bytes 4 15 ++ le_bytes 4 0
                         ++ [5; 0; 0; 0; 0; 0; 0; 0; 0; 0; 0; 0; 0; 0; 0; 0] in
  exists a a', hll_deserialize (img 8) = Ok (mkSketch 4 (MArr8 a)) /\ hll_deserialize (img 0) = Ok (mkSketch 4 (MArr8 a')) /\
    a8_get a 0 = 5 /\ a8_get a' 0 = 5 /\ a8_nz a = 15 /\ a8_nz a' = 15.
Proof. vm_compute. eexists. eexists. repeat split; reflexivity. Qed.
