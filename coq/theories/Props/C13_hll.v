(* C13, HLL part -- every image variant Java/C++ can emit is read back to the state it encodes.
   Statements only; proofs in Proofs/HllCodecProofs.v.  Spec/HllLayout.v holds the spec encoders
   (written from the format description).
   PARTIAL: proved for the two LIST variants (compact: `count` coupons; updatable: all 1 << lgArr
   slots, zeros empty).  For the other variants (set compact in any order / updatable table; Hll4,
   Hll6, Hll8 arrays with or without the COMPACT flag, out-of-order flag, cur_min > 0, compact aux
   list with either lgArr byte) the statement
       hll_deserialize (spec_encode v a) = Ok s /\ abstraction of s = a
   is not proved; it is checked by the foreign-image oracle (Corr/Hll.v foreign_ok) on images built by
   the generator's independent encoder.  NOT read back (known finding C13-hll-updatable-hll4-aux):
   updatable Hll4 images whose exceptions are stored as a hash table. *)
From DS Require Import Base.Prelude Model.Hll Model.HllCodec Spec.HllLayout Proofs.HllBase Proofs.HllSet Proofs.HllCodecProofs.
Open Scope N_scope.

Theorem c13_hll_list_variants_partial :
  forall compact lgk t cs, 4 <= lgk <= 21 -> NoDup cs -> Forall valid cs -> (length cs < 8)%nat ->
  hll_deserialize (enc_list compact lgk (tgt_num t) cs) = Ok (mkSketch lgk (MList (list_of_coupons cs) t)).
Proof. exact list_variants_read_back. Qed.

(* the sketch read back is the well-formed 8-slot list holding exactly cs in order *)
Theorem c13_hll_list_is_wellformed :
  forall cs, NoDup cs -> Forall valid cs -> (length cs < 8)%nat -> ListInv (list_of_coupons cs) cs.
Proof. exact list_of_coupons_inv. Qed.

(* array images carrying the COMPACT flag (what toCompactByteArray emits; defect D4) and images
   without it are read alike: the model's reader does not consult the flag for the register block *)
Example c13_hll_compact_flag_example :
  let img (flags : N) := [10; 1; 7; 4; 0; flags; 0; 10] ++ repeat 0 24 ++ le_bytes 4 15 ++ le_bytes 4 0
                         ++ [5; 0; 0; 0; 0; 0; 0; 0; 0; 0; 0; 0; 0; 0; 0; 0] in
  exists a a', hll_deserialize (img 8) = Ok (mkSketch 4 (MArr8 a)) /\ hll_deserialize (img 0) = Ok (mkSketch 4 (MArr8 a')) /\
    a8_get a 0 = 5 /\ a8_get a' 0 = 5 /\ a8_nz a = 15 /\ a8_nz a' = 15.
Proof. vm_compute. eexists. eexists. repeat split; reflexivity. Qed.
