(* C14, theta part -- malformed bytes: the modelled reader (the REPAIRED code) is total, never
   reaches a modelled panic site for ANY byte string, returns only usable values, and what it
   returns is justified by the input length.  Statements only; proofs in Proofs/ThetaCodec.v.

   Modelled panic sites ([Stuck]): the asserts / `unreachable!()` of pack_bits_block and
   unpack_bits_block (width outside 1..=63, block length), index out of bounds and shift >= 64 in
   BitPacker / BitUnpacker, `entry - previous` underflow in compute_entry_bits / serialize_v4; running
   out of fuel in the block loops of the model is Stuck as well (excluded by the same theorems). *)
From DS Require Import Base.Prelude Base.BitExp Model.Theta Model.ThetaCodec Spec.ThetaLayout.
From DS Require Import Proofs.ThetaCodec.
Open Scope N_scope.

(* dec_total_no_stuck *)
Theorem c14_theta_never_stuck :
  forall sh bs, bytes_lt bs -> c_deserialize sh bs <> Stuck.
Proof. exact ep_never_stuck. Qed.

(* a seed whose 16-bit seed hash is zero (e.g. 50541) is answered with Err, whatever the bytes
   (the unrepaired crate panicked in compute_seed_hash: known_findings.d/theta-zero-seed-hash-panic.json) *)
Theorem c14_theta_zero_seed_hash_is_err : forall bs, c_deserialize 0 bs = Err.
Proof. exact deser_zero_seed. Qed.

(* dec_ok_wf + dec_alloc_linear: entries in (0, theta), theta in [1, 2^63-1], ascending when it says
   ordered; at most 8 * |input| entries (64 bytes of u64 per input byte at one bit per entry) *)
Theorem c14_theta_ok_is_usable :
  forall sh bs c, bytes_lt bs -> c_deserialize sh bs = Ok c ->
  c_safe c /\ (length (ce_entries c) <= 8 * length bs)%nat.
Proof. exact ep_ok_safe. Qed.

(* dec_ok_wf in full: the value is well-formed for both writers (entries in (0, theta), theta in
   [1, 2^63-1], ascending when ordered, EMPTY only without entries and with theta = 2^63-1, seed hash the
   reader's unless empty, fewer than 2^32 entries), hence survives serialize / serialize_compressed
   followed by deserialize unchanged (Props/C11_theta.v) *)
Theorem c14_theta_ok_is_wf :
  forall sh bs c, sh < 65536 -> bytes_lt bs -> c_deserialize sh bs = Ok c -> sh <> 0 /\ c_wf sh c.
Proof. exact ep_ok_wf. Qed.

(* allocation, independently of the outcome: the reader allocates in two places only, each behind a
   length test -- Vec::with_capacity(num_entries) in read_entries, vec![0u64; num_entries] in
   deserialize_v4 -- and whenever the test in front of it has passed (whatever happens afterwards, Ok or
   Err) the request is bounded by the bytes that remain: 8 * num_entries <= len resp. num_entries <= 8 * len.
   (The model has no allocator; these are the two guards as they appear in Model/ThetaCodec.v, and the
   harness's counting allocator observes every outcome.) *)
Theorem c14_theta_read_entries_guard :
  forall num_entries len, (len / 8 <? num_entries) = false -> 8 * num_entries <= len.
Proof. exact read_entries_guard. Qed.

Theorem c14_theta_v4_guard :
  forall cnt eb len, 1 <= eb -> (len <? cnt / 8 * eb + (cnt mod 8 * eb + 7) / 8) = false -> cnt <= 8 * len.
Proof. exact v4_guard. Qed.

(* wf_ops_safe: a usable value re-serializes both ways without reaching a panic site (D12).
   Queries: estimate/theta/is_empty/iter have no panic site; lower_bound()/upper_bound() contain
   `.expect("compact theta should always be valid")` on binomial_bounds, whose only Err exit is theta outside
   (0, 1]: excluded by 0 < theta <= 2^63-1 of c_safe; the ln/sqrt code of binomial_bounds itself is NOT
   modelled (trusted; the harness calls the bounds on every accepted value in both profiles).
   c_safe / c_wf do not include distinctness of the entries (unordered images with repeated hashes are
   accepted, as by the C++ reader). *)
Theorem c14_theta_usable_reserializes :
  forall c, c_safe c -> exists bs, c_serialize_compressed c = Ok bs.
Proof. exact safe_serializable. Qed.

(* non-vacuity: the inputs that made the unrepaired crate panic or abort are rejected *)
Example c14_theta_example :
  (* D14: entry_bits 0 with 8 entries; 9 entry-count bytes *)
  c_deserialize 12345 [1; 4; 3; 0; 1; 26; 57; 48; 8] = Err /\
  c_deserialize 12345 [1; 4; 3; 10; 9; 26; 57; 48; 0; 0; 0; 0; 0; 0; 0; 0; 0] = Err /\
  (* D12: ORDERED with unsorted entries [200; 100] *)
  c_deserialize 12345 ([2; 3; 3; 0; 0; 26; 57; 48; 2; 0; 0; 0; 0; 0; 0; 0] ++ le_bytes 8 200 ++ le_bytes 8 100) = Err /\
  (* theta = 0 *)
  c_deserialize 12345 [3; 3; 3; 0; 0; 26; 57; 48; 0; 0; 0; 0; 0; 0; 0; 0; 0; 0; 0; 0; 0; 0; 0; 0] = Err /\
  (* a count of 2^32-1 entries with 8 bytes of payload *)
  c_deserialize 12345 ([2; 3; 3; 0; 0; 10; 57; 48; 255; 255; 255; 255; 0; 0; 0; 0] ++ le_bytes 8 5) = Err /\
  (* serVer 4 flagged EMPTY with two entries (entry_bits 7, entries 100 and 127) *)
  c_deserialize 12345 [1; 4; 3; 7; 1; 30; 57; 48; 2; 200; 216] = Err /\
  (* and a valid image is accepted *)
  c_deserialize 12345 ([2; 3; 3; 0; 0; 26; 57; 48; 2; 0; 0; 0; 0; 0; 0; 0] ++ le_bytes 8 100 ++ le_bytes 8 200)
    = Ok (mkC [100; 200] MAX_THETA 12345 true false).
Proof. vm_compute. repeat split; reflexivity. Qed.
