(* C05 -- the CPC sketch state is exactly the set of distinct (row, column) coupons seen.
   Statements only; proofs are in Proofs/Cpc{Bits,Spec,Proofs,Inv,Step,Update,Main}.v.

   Reading guide.
   * A pair is the u32 the crate passes to row_col_update:  rc = (row << 6) | col = row * 64 + col.
     [valid lgk rc]: the row exists (rc / 64 < 2^lgk) and rc is not u32::MAX, the surprising-value
     table's empty-slot marker (CpcSketch::update never produces it: row_col_of_hash flips a row bit).
   * Spec (Proofs/CpcSpec.v):  [spec cs] is the matrix  row -> 64-bit word  obtained by OR-ing the bit
     (row, col) for every pair of the stream [cs];  [rows_of M K] lists its first K rows;
     [pop_rows M K] counts their set bits;  [distinct cs] is the number of distinct pairs.
   * Model (Model/Cpc.v): one Gallina function per Rust function of cpc/sketch.rs and cpc/mod.rs;
     [cpc_run lgk cs] is CpcSketch::new(lgk) followed by row_col_update for every pair (the public
     update() is row_col_update after hashing, [row_col_of_hash]).  Every debug_assert!/assert!/expect/
     index of the crate on this path is a [Stuck] outcome of the model.
   * Domain: lg_k in 4..=26;  8 C < 475 K  (C < 59.375 K of the 64 K possible coupons: beyond it the correct
     window offset exceeds 56 and the crate, like Java/C++, asserts);  and [cpc_fits lgk cs]: after every pair
     the surprising values the matrix needs (all coupons while sparse; afterwards the zeros before and the ones
     after the window, [load], at the offset before the pair and at the correct offset after it) fit the
     surprising-value table, whose capacity is 3/4 * 2^min(26, lg_k + 5) pairs (24 K for lg_k <= 21):
     PairTable::rebuild asserts beyond it.  The limit is modelled ([tbl_full], Stuck in tbl_insert / from_matrix);
     c05_table_capacity_needed shows a crafted stream inside 8C < 475K that hits it (the crate panics there too).
     Hashing reaches neither limit (surprising values are rare).
   * Not verified (trusted, see tools/props/C05.py): PairTable's slot layout; the model keeps the
     surprising values as a duplicate-free list (a finite set) with the table's capacity. *)
From DS Require Import Base.Prelude Model.Cpc Proofs.CpcBits Proofs.CpcSpec Proofs.CpcProofs Proofs.CpcInv
  Proofs.CpcStep Proofs.CpcUpdate Proofs.CpcMain.
Open Scope N_scope.

(* The refinement theorem: for every lg_k and every stream of valid pairs inside the domain the sketch
   does not panic and afterwards
     - build_bit_matrix (verif_bit_matrix) returns exactly the Spec matrix of the pairs seen,
     - num_coupons is its population count = the number of distinct pairs,
     - window_offset = determine_correct_offset(lg_k, num_coupons), and it is <= 56,
     - the sliding window is absent iff the flavor is Empty or Sparse,
     - first_interesting_column <= offset and every column below it is completely set in the matrix
       (so the speed shortcut in row_col_update never drops a new coupon),
     - validate() returns true. *)
Theorem c05_cpc_refines : forall lgk cs,
  4 <= lgk <= 26 -> Forall (valid lgk) cs -> 8 * distinct cs < 475 * 2 ^ lgk -> cpc_fits lgk cs ->
  exists s, cpc_run lgk cs = Ok s /\
    build_bit_matrix s = Ok (rows_of (spec cs) (Knat lgk)) /\
    c_num s = pop_rows (spec cs) (Knat lgk) /\
    c_num s = distinct cs /\
    c_off s = determine_correct_offset lgk (c_num s) /\
    (c_win s = [] <-> cpc_flavor s <= SPARSE) /\
    fic_ok lgk s (spec cs) /\
    c_off s <= 56 /\
    cpc_validate s = Ok true.
Proof. exact cpc_refines. Qed.

(* abs (from_matrix M w) = M for every window offset w <= 56: the window bytes, the surprising values
   (inverted in the early zone) and the first interesting column derived from ANY k x 64 matrix by the
   loop of move_window / CpcUnion::to_sketch describe exactly that matrix again (three column zones).
   [255] are the two 0xFF literals of the loop; the side condition excludes the one pair the table
   cannot store. *)
Theorem c05_from_matrix_abs : forall lgk m off C fic0 mg kxp hip,
  length m = Knat lgk -> Forall (fun w => w < 2 ^ 64) m -> off <= 56 -> C <> 0 ->
  (forall r c, r < 2 ^ lgk -> c < 64 -> N.testbit (nthN m r 0) c = true -> r * 64 + c <> U32MAX) ->
  tbl_full lgk (load lgk (fun r => nthN m r 0) true off) = false ->
  exists win tab fic,
    from_matrix lgk 255 255 off m = Ok (win, tab, fic) /\
    build_bit_matrix (mkCpc lgk fic0 C (Some tab) off win mg kxp hip) = Ok m /\
    fic <= off /\ (forall r c, r < 2 ^ lgk -> c < fic -> N.testbit (nthN m r 0) c = true).
Proof. exact from_matrix_abs. Qed.

(* the two literals really are 0xFF in the translated source of move_window *)
Theorem c05_move_window_literals : MW_FF = 255 /\ MW_FF2 = 255.
Proof. exact move_window_literals. Qed.

(* Window moves happen exactly at the thresholds: one more pair either leaves the offset alone
   (and then 8 C' < (27 + 8 w) K still holds) or moves the window by exactly one column, which happens
   iff 8 C' >= (27 + 8 w) K; either way the offset is determine_correct_offset of the new count. *)
Theorem c05_cpc_flavor_thresholds : forall lgk cs rc s,
  4 <= lgk <= 26 -> Forall (valid lgk) cs -> valid lgk rc -> 8 * distinct (cs ++ [rc]) < 475 * 2 ^ lgk ->
  cpc_fits lgk (cs ++ [rc]) ->
  cpc_run lgk cs = Ok s ->
  exists s', row_col_update s rc = Ok s' /\
    (c_num s' = c_num s \/ c_num s' = c_num s + 1) /\
    ((c_off s' = c_off s + 1 /\ (27 + 8 * c_off s) * 2 ^ lgk <= 8 * c_num s') \/
     (c_off s' = c_off s /\ 8 * c_num s' < (27 + 8 * c_off s) * 2 ^ lgk)) /\
    c_off s' = determine_correct_offset lgk (c_num s').
Proof. exact cpc_flavor_thresholds. Qed.

(* determine_flavor is the position of C among 1, 3K/32, K/2, 27K/8 (unbounded arithmetic; the u32
   arithmetic of the compiled function is the subject of C17) *)
Theorem c05_cpc_flavor_spec : forall lgk C,
  (determine_flavor lgk C = EMPTY <-> C = 0) /\
  (determine_flavor lgk C = SPARSE <-> 0 < C /\ 32 * C < 3 * 2 ^ lgk) /\
  (determine_flavor lgk C = HYBRID <-> 3 * 2 ^ lgk <= 32 * C /\ 2 * C < 2 ^ lgk) /\
  (determine_flavor lgk C = PINNED <-> 2 ^ lgk <= 2 * C /\ 8 * C < 27 * 2 ^ lgk) /\
  (determine_flavor lgk C = SLIDING <-> 27 * 2 ^ lgk <= 8 * C).
Proof. exact cpc_flavor_spec. Qed.

(* inside the domain determine_correct_offset is floor((8C - 19K) / 8K), 0 below 19K/8, without u8 truncation *)
Theorem c05_correct_offset_spec : forall lgk C, 8 * C < 475 * 2 ^ lgk ->
  determine_correct_offset lgk C = coff (2 ^ lgk) C /\ coff (2 ^ lgk) C <= 56.
Proof. exact correct_offset_spec. Qed.

(* no panic: no debug_assert!/assert!/expect/index on the update path fires, build_bit_matrix and
   validate succeed (lg_k 4..=26, unbounded arithmetic) *)
Theorem c05_cpc_no_stuck : forall lgk cs,
  4 <= lgk <= 26 -> Forall (valid lgk) cs -> 8 * distinct cs < 475 * 2 ^ lgk -> cpc_fits lgk cs ->
  exists s, cpc_run lgk cs = Ok s /\ (exists m, build_bit_matrix s = Ok m) /\ cpc_validate s = Ok true.
Proof. exact cpc_no_stuck. Qed.

(* the public update(): the pair derived from ANY 128-bit hash is valid, so every stream of items is covered *)
Theorem c05_hashed_pairs_valid : forall lgk h1 h2, 4 <= lgk <= 26 -> valid lgk (row_col_of_hash lgk h1 h2).
Proof. exact row_col_of_hash_valid. Qed.

Theorem c05_cpc_update_no_stuck : forall lgk hs,
  4 <= lgk <= 26 ->
  8 * distinct (map (fun h => row_col_of_hash lgk (fst h) (snd h)) hs) < 475 * 2 ^ lgk ->
  cpc_fits lgk (map (fun h => row_col_of_hash lgk (fst h) (snd h)) hs) ->
  exists s, cpc_run lgk (map (fun h => row_col_of_hash lgk (fst h) (snd h)) hs) = Ok s.
Proof. exact cpc_update_no_stuck. Qed.

(* the capacity hypothesis is needed: lg_k = 4, the 24 rightmost columns of every row (384 coupons, 8C = 3072 < 7600)
   need more surprising values than a lg_k-4 table can hold; the model is Stuck exactly where the crate panics
   (PairTable::rebuild; replayed, tools/families/cpc.py kind "overflow") *)
Theorem c05_table_capacity_needed :
  Forall (valid 4) overflow_stream /\ 8 * distinct overflow_stream < 475 * 2 ^ 4 /\ cpc_run 4 overflow_stream = Stuck.
Proof. exact table_capacity_needed. Qed.

(* the number of table entries of any represented state is the number of surprising values of its matrix *)
Theorem c05_table_load : forall s M, Rep s M ->
  N.of_nat (length (tlist s)) = load (c_lgk s) M (windowed s) (c_off s).
Proof. exact table_load. Qed.

(* the constants of the Rust function bodies the model is written over, as translated on this run *)
Theorem c05_literals_manifest :
  Gen.GenCpc.LIT_update = [1; 63; 63; 1; 6; 1; 6]%Z /\
  Gen.GenCpc.LIT_row_col_update = [63; 0; 2; 6]%Z /\
  Gen.GenCpc.LIT_update_hip = [1; 63; 1]%Z /\
  Gen.GenCpc.LIT_update_sparse = [1; 5; 3; 1; 5; 3]%Z /\
  Gen.GenCpc.LIT_promote_sparse_to_windowed = [0; 1; 5; 3; 4; 3; 0; 2; 6; 63; 8; 6; 1]%Z /\
  Gen.GenCpc.LIT_update_windowed = [56; 1; 5; 3; 3; 3; 27; 63; 8; 6; 1; 1; 3; 27; 56; 3; 27]%Z /\
  Gen.GenCpc.LIT_move_window = [1; 56; 1; 7; 0; 255; 1; 1; 0; 255; 0; 1; 6]%Z /\
  Gen.GenCpc.LIT_refresh_kxp = [8; 255; 8; 8]%Z /\
  Gen.GenCpc.LIT_build_bit_matrix = [1; 56; 1; 1; 0; 63; 6; 1]%Z /\
  Gen.GenCpc.LIT_determine_flavor = [1; 1; 3; 5; 0; 3; 27]%Z /\
  Gen.GenCpc.LIT_determine_correct_offset = [1; 3; 19; 0; 0; 3]%Z /\
  Gen.GenCpc.MIN_LG_K = 4%Z /\ Gen.GenCpc.MAX_LG_K = 26%Z.
Proof. exact literals_manifest. Qed.

(* non-vacuity: lg_k = 4; column 0 without the pair (row 15, col 0), columns 1 and 2, two surprising ones far to the
   right, a duplicate, part of column 3: one window move (offset 1), a surprising ZERO in the early zone
   (15*64+0 = 960 in the table), surprising ones 5*64+40 = 360 and 7*64+9 = 457; all hypotheses of
   c05_cpc_refines hold for this stream *)
Definition c05_ex_colfill (cols rows : list N) : list N :=
  flat_map (fun c => map (fun r => r * 64 + c) rows) cols.
Definition c05_ex_stream : list N :=
  c05_ex_colfill [0] (map N.of_nat (seq 0 15)) ++ c05_ex_colfill [1; 2] (map N.of_nat (seq 0 16)) ++
  [5 * 64 + 40; 7 * 64 + 9; 5 * 64 + 40] ++ c05_ex_colfill [3] (map N.of_nat (seq 0 11)).

Example c05_example :
  Forall (valid 4) c05_ex_stream /\ 8 * distinct c05_ex_stream < 475 * 2 ^ 4 /\ cpc_fits 4 c05_ex_stream /\
  exists s, cpc_run 4 c05_ex_stream = Ok s /\ c_num s = 60 /\ c_off s = 1 /\ c_fic s = 0 /\
            c_table s = Some [360; 457; 960] /\ nthN (c_win s) 7 0 = 7 /\
            build_bit_matrix s = Ok [15; 15; 15; 15; 15; 1099511627791; 15; 527; 15; 15; 15; 7; 7; 7; 7; 6].
Proof.
  split; [|split; [|split]].
  - unfold valid. repeat constructor; vm_compute; congruence.
  - vm_compute. reflexivity.
  - apply fits_streamb_sound. vm_compute. reflexivity.
  - eexists. split; [vm_compute; reflexivity|]. repeat split; vm_compute; reflexivity.
Qed.
