From DS Require Import Base.Prelude Model.Cpc Proofs.CpcProofs.
Open Scope N_scope.
Theorem c05_new_ok : forall lgk, 4 <= lgk <= 26 -> exists s, cpc_new lgk = Ok s /\ c_num s = 0.
Proof. exact cpc_new_ok. Qed.
