(* C14, HLL part -- malformed bytes: HllSketch::deserialize returns Ok or Err, never panics, and
   what it returns as Ok is well formed.  Statements only; proofs in Proofs/HllCodecProofs.v.
   [hll_deserialize] (Model/HllCodec.v) mirrors the REPAIRED reader (/repo fix: commits efc0a54,
   5fdcb41, 24bc284, 2b49a48, 56e3cfb, 3700a36, 08d9c35, 2f7e0d8) field by field with [Stuck] at the
   panic sites it can reach: HashSet::update's "HashSet full", AuxMap's three unreachable!()s, the
   expect()s of Array4.  (The list, Hll6 and Hll8 reader paths contain no panic site in the crate
   after the repairs -- lg_arr is range-checked before `1 << lg_arr` -- so the totality theorem is
   non-trivial only for the set and Hll4-aux paths.)
   The usability clause of the property ("an Ok value can be queried, updated, merged, re-serialized
   without panicking"):
     updated / merged -- PROVED for canonical images through the bridge c14_hll_ok_is_source: the
       result is a well-formed source (SrcOK), so c11_hll_source_updates (updates never stuck) and
       c03 / c17_hll_union_never_stuck (merges never stuck) apply;
     re-serialized -- hll_serialize has no panic site (total function of the model);
     queried -- NO THEOREM: estimate() / upper_bound() / lower_bound() run the composite estimator
       (cubic interpolation over tables, with debug assertions) which the model does not contain.
       What is proved is c14_hll_ok_estimator_fields: an accepted array image has finite,
       non-negative hip_accum / kxq0 / kxq1 (before fix 08d9c35 a NaN kxq0 with the OUT_OF_ORDER flag
       was accepted and estimate() failed the debug assertion of cubic_interpolation).  The malformed
       leg calls estimate and the three bounds on every accepted image, debug and release, with
       panic_is_violation.
     non-canonical accepted images (set with fewer than 8 coupons; Hll4 with no register at cur_min)
       -- outside the theorems; exercised by the oracle only. *)
From DS Require Import Base.Prelude Model.Hll Model.HllCodec Proofs.HllBase Proofs.HllSet Proofs.HllAux Proofs.HllArray4
  Proofs.HllRefine Proofs.HllUnionProofs Proofs.HllCodecProofs.
Open Scope N_scope.

(* for EVERY byte string (any list of numbers, even non-bytes): Ok or Err, never a panic site *)
Theorem c14_hll_deserialize_total : forall bs, hll_deserialize bs <> Stuck.
Proof. exact hll_deserialize_total. Qed.

(* a value returned as Ok is well formed ([image_wf]): lg_k in 4..21;
   list: the list invariant of C02 -- 8 slots, the coupons first, all distinct, all valid (value
        1..63), the count field equal to the number of occupied slots and < 8, so the next update is
        never dropped (defect D1, and fix 2f7e0d8: images whose occupied slots disagree with the
        count, duplicates and value-0 coupons are rejected);
   set: lg_k >= 8, 5 <= lg size <= lg_k - 3, the table satisfies the open-addressing invariant with
        len = number of stored coupons = the announced count, all coupons valid, load <= 3/4 (so
        HashSet::update cannot hit "HashSet full");
   Hll4: the full Array4 invariant of C02 (nibbles / aux map / cur_min / num_at_cur_min consistent,
        every exception listed once on an AUX_TOKEN slot) for a register file <= 63;
   Hll6: a byte array (so every register read is < 64), num_zeros exact;
   Hll8: registers <= 63, num_zeros exact, nothing beyond k;
   arrays: hip_accum, kxq0, kxq1 finite and non-negative. *)
Theorem c14_hll_ok_is_wellformed : forall bs s, BOK bs -> hll_deserialize bs = Ok s -> image_wf s.
Proof. exact hll_deserialize_ok_wf. Qed.

(* the bridge to C02 / C03 / C11 / C17: a canonical Ok value (set: >= 8 coupons; Hll4: some register
   at cur_min) is a well-formed source sketch *)
Theorem c14_hll_ok_is_source :
  forall bs s, BOK bs -> hll_deserialize bs = Ok s -> image_canonical s ->
  exists cs, SrcOK (sk_lgk s) (tag_flag (sk_tag s)) cs s.
Proof. exact hll_deserialize_src_ok. Qed.

(* the estimator fields of an accepted array image *)
Theorem c14_hll_ok_estimator_fields :
  forall d1 d2 d3 ooo, image_fields_ok d1 d2 d3 = true -> est_wf (est_of_image d1 d2 d3 ooo).
Proof. exact est_of_image_wf. Qed.

(* the pieces: the set reader and the aux reader never reach the unreachable!()s *)
Theorem c14_hll_set_reader :
  forall bs lg compact,
  set_deserialize bs lg compact <> Stuck /\
  forall st, set_deserialize bs lg compact = Ok st ->
    hs_lg st = lg /\ (exists S, SetRep lg st S /\ (forall c, In c S -> c <> 0 /\ get_value c <> 0) /\
                       (BOK bs -> forall c, In c S -> c < 2 ^ 32)) /\ 4 * hs_len st <= 3 * 2 ^ lg.
Proof. exact set_deserialize_spec. Qed.

Theorem c14_hll_array4_reader :
  forall bs cm lgk ooo a, BOK bs -> 4 <= lgk <= 21 -> a4_deserialize bs cm lgk ooo = Ok a ->
  (exists regs, Inv4 lgk regs a /\ (forall j, j < 2 ^ lgk -> regs j <= 63)) /\ est_wf (a4_est a).
Proof. exact a4_deserialize_ok. Qed.

Theorem c14_hll_list_reader :
  forall bs count empty compact l, BOK bs -> list_deserialize bs LG_LIST_SIZE count empty compact = Ok l ->
  exists ds, ListInv l ds /\ (length ds < 8)%nat /\ Forall valid ds.
Proof. exact list_deserialize_ok. Qed.

(* non-vacuity: a 12-byte list image with one coupon is accepted; an image announcing lg_arr 200
   (defect D13), a truncated one, an updatable list image whose 8 slots are all occupied while it
   announces 3 coupons (fix 2f7e0d8) and an Hll8 image with OUT_OF_ORDER and kxq0 = NaN (fix 08d9c35)
   are rejected, none is stuck *)
Example c14_hll_example :
  (exists s, hll_deserialize [2; 1; 7; 10; 3; 8; 1; 8; 5; 0; 0; 4] = Ok s) /\
  hll_deserialize [2; 1; 7; 10; 200; 8; 1; 8; 5; 0; 0; 4] = Err /\
  hll_deserialize [10; 1; 7; 21; 0; 8; 0; 10] = Err /\
  hll_deserialize ([2; 1; 7; 10; 3; 0; 3; 8] ++ flat_map (fun i => [i; 0; 0; 4]) [1; 2; 3; 4; 5; 6; 7; 8]) = Err /\
  hll_deserialize ([10; 1; 7; 4; 0; 24; 0; 10] ++ repeat 0 8 ++ [0; 0; 0; 0; 0; 0; 248; 127] ++ repeat 0 8
                   ++ le_bytes 4 16 ++ le_bytes 4 0 ++ repeat 0 16) = Err /\
  (exists s, hll_deserialize ([10; 1; 7; 4; 0; 24; 0; 10] ++ repeat 0 8 ++ [0; 0; 0; 0; 0; 0; 48; 64] ++ repeat 0 8
                   ++ le_bytes 4 16 ++ le_bytes 4 0 ++ repeat 0 16) = Ok s).
Proof. vm_compute. split; [eexists; reflexivity|]. repeat (split; [reflexivity|]). eexists; reflexivity. Qed.
