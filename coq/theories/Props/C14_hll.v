(* C14, HLL part -- malformed bytes: HllSketch::deserialize returns Ok or Err, never panics, and
   what it returns as Ok is well formed.  Statements only; proofs in Proofs/HllCodecProofs.v.
   [hll_deserialize] (Model/HllCodec.v) mirrors the REPAIRED reader (/repo fix: commits efc0a54,
   5fdcb41, 24bc284, 2b49a48, 56e3cfb, 3700a36) field by field with [Stuck] at every panic site it can
   reach: `1 << lg_arr`, HashSet::update's "HashSet full", AuxMap's three unreachable!()s, the
   expect()s of Array4. *)
From DS Require Import Base.Prelude Model.Hll Model.HllCodec Proofs.HllBase Proofs.HllSet Proofs.HllAux Proofs.HllArray4
  Proofs.HllCodecProofs.
Open Scope N_scope.

(* for EVERY byte string (any list of numbers, even non-bytes): Ok or Err, never a panic site *)
Theorem c14_hll_deserialize_total : forall bs, hll_deserialize bs <> Stuck.
Proof. exact hll_deserialize_total. Qed.

(* a value returned as Ok is well formed ([image_wf]): lg_k in 4..21;
   list: 8 slots, fewer than 8 coupons (so the next update is never dropped: defect D1);
   set: lg_k >= 8, 5 <= lg size <= lg_k - 3, the table satisfies the open-addressing invariant with
        len = number of stored coupons and load <= 3/4 (so HashSet::update cannot hit "HashSet full");
   Hll4: the full Array4 invariant of C02 (nibbles / aux map / cur_min / num_at_cur_min consistent,
        every exception listed once on an AUX_TOKEN slot) for a register file <= 63 -- hence by
        c02_array4_inv_update every further update is panic-free when some register is at cur_min;
   Hll8: registers <= 63, num_zeros exact.
   PARTIAL: for Hll6 only lg_k is claimed (the padding byte of the register block is not
   constrained by the reader; it is never read by the crate); for Hll4 images in which no register
   equals cur_min (num_at_cur_min = 0, never written by any implementation) the update theorem of C02
   does not apply as stated; list/set coupons may carry a value field 0 (harmless no-ops in array
   mode, outside C02's [valid]). *)
Theorem c14_hll_ok_is_wellformed : forall bs s, BOK bs -> hll_deserialize bs = Ok s -> image_wf s.
Proof. exact hll_deserialize_ok_wf. Qed.

(* the pieces: the set reader and the aux reader never reach the unreachable!()s *)
Theorem c14_hll_set_reader :
  forall bs lg compact,
  set_deserialize bs lg compact <> Stuck /\
  forall st, set_deserialize bs lg compact = Ok st ->
    hs_lg st = lg /\ (exists S, SetRep lg st S) /\ 4 * hs_len st <= 3 * 2 ^ lg.
Proof. exact set_deserialize_spec. Qed.

Theorem c14_hll_array4_reader :
  forall bs cm lgk ooo a, BOK bs -> 4 <= lgk <= 21 -> a4_deserialize bs cm lgk ooo = Ok a ->
  exists regs, Inv4 lgk regs a /\ (forall j, j < 2 ^ lgk -> regs j <= 63).
Proof. exact a4_deserialize_ok. Qed.

(* non-vacuity: a 12-byte list image with one coupon is accepted; an image announcing lg_arr 200
   (defect D13) and a truncated one are rejected, none is stuck *)
Example c14_hll_example :
  (exists s, hll_deserialize [2; 1; 7; 10; 3; 8; 1; 8; 5; 0; 0; 4] = Ok s) /\
  hll_deserialize [2; 1; 7; 10; 200; 8; 1; 8; 5; 0; 0; 4] = Err /\
  hll_deserialize [10; 1; 7; 21; 0; 8; 0; 10] = Err.
Proof. vm_compute. split; [eexists; reflexivity|split; reflexivity]. Qed.
