(* C11, HLL part -- serialize then deserialize is lossless.  Statements only; proofs in
   Proofs/HllCodecProofs.v (and Proofs/HllUnionProofs.v for the update steps).
   [hll_serialize] / [hll_deserialize] (Model/HllCodec.v) mirror HllSketch::serialize / deserialize
   byte by byte (List, HashSet, Array4 with its aux list, Array6, Array8), the REPAIRED reader
   (/repo fix: efc0a54 list capacity, 2f7e0d8 list/set count consistency, 08d9c35 estimator fields).
   [SrcOK lg_k arr cs s]: s is a well-formed sketch representing the coupon list cs (C03): what
   HllSketch::new + updates build (c03_stream_is_source), what HllUnion::to_sketch returns
   (c03_to_sketch_type_independent) and what the reader returns for a canonical image
   (c11_hll_deserialized_is_source below).
   [est_ok s] -- HYPOTHESIS of the round-trip theorems: the three estimator fields of an array-mode
   sketch, written and decoded again, are finite and non-negative (the reader rejects the image
   otherwise, fix 08d9c35).  True of every sketch the crate builds (sums of non-negative terms) but
   NOT proved (needs an analysis of the binary64 sums); c11_hll_example exhibits it on concrete
   array-mode sketches of all three types, and the correspondence run deserializes every image.
   [rt_ok lg_k cs s s'] says what the copy s' is:
     list  -- the IDENTICAL list (8 slots, the same coupons in the same order) and type;
     set   -- same type, lg size and count; the rebuilt table holds exactly the coupons cs and
              satisfies the open-addressing invariant (the slot layout is not carried by the image);
     Hll4  -- the Array4 invariant of C02 for the SAME register file, same cur_min and
              num_at_cur_min (the aux map is rebuilt: same exceptions as a finite map);
     Hll6 / Hll8 -- the same registers, the same num_zeros (Hll6: again a byte array);
     arrays -- estimator = [est_reread] of the original's: kxq0, kxq1 are the 8-byte patterns decoded
              again, the out-of-order flag is kept, and the HIP accumulator is the decoded pattern
              for an in-order sketch and ZERO for an out-of-order one (the reader's
              set_out_of_order(true)).  That float_of_bits (bits_of_float f) = f is NOT proved (tied
              by the correspondence run, which compares hip/kxq0/kxq1 bit for bit).
   NOT proved: byte-identical re-serialization serialize(deserialize(serialize s)) = serialize s in
   general (it needs the bit-cast identity, and for out-of-order sketches a zero accumulator: the
   crate guarantees the latter since fix e763c00 -- before it a union copy of an in-order Hll8 source
   was out of order with a non-zero accumulator and its image changed on a round trip).  It is
   checked by the twin oracle on every sketch and union result, and exhibited by c11_hll_example. *)
From DS Require Import Base.Prelude Model.Hll Model.HllCodec Proofs.HllBase Proofs.HllSet Proofs.HllArray4 Proofs.HllRefine
  Proofs.HllUnionProofs Proofs.HllCodecProofs.
Open Scope N_scope.

(* any well-formed sketch (built, merged, deserialized; any type, mode) *)
Theorem c11_hll_roundtrip :
  forall lgk arrf cs s, SrcOK lgk arrf cs s -> est_ok s ->
  exists s', hll_deserialize (hll_serialize s) = Ok s' /\ rt_ok lgk cs s s'.
Proof. exact hll_roundtrip. Qed.

(* every state reachable by updates (all lg_k, types, streams) *)
Theorem c11_hll_roundtrip_of_stream :
  forall lgk t cs, 4 <= lgk <= 21 -> Forall valid cs ->
  exists s, run_stream hip_new hip_update hip_carry lgk t cs = Ok s /\
    (est_ok s -> exists s', hll_deserialize (hll_serialize s) = Ok s' /\ rt_ok lgk cs s s').
Proof. exact hll_roundtrip_of_stream. Qed.

(* the copy is a well-formed representation of the same abstract state (all modes, Hll6 included):
   the theorems of C02 / C03 stated over SrcOK apply to it exactly as to the original *)
Theorem c11_hll_copy_is_wellformed :
  forall lgk arrf cs s s', SrcOK lgk arrf cs s -> rt_ok lgk cs s s' -> SrcOK lgk arrf cs s'.
Proof. exact rt_src_ok. Qed.

(* "the copy behaves identically under further updates": the original and its deserialized copy, fed
   the same further coupons, are never stuck and keep the same lg_k, mode, count, coupon set and
   register file.  (The estimator state is not compared: see est_reread above.) *)
Theorem c11_hll_copy_same_under_updates :
  forall lgk arrf cs s us, SrcOK lgk arrf cs s -> est_ok s -> Forall valid us ->
  exists s' r r', hll_deserialize (hll_serialize s) = Ok s' /\
    update_all hip_new hip_update hip_carry us s = Ok r /\ update_all hip_new hip_update hip_carry us s' = Ok r' /\
    sk_lgk r = sk_lgk r' /\ sk_tag r = sk_tag r' /\ sk_len r = sk_len r' /\
    (forall c, In c (sk_coupons r) <-> In c (sk_coupons r')) /\
    (forall j, j < 2 ^ lgk -> sk_reg r j = sk_reg r' j).
Proof. exact copy_same_under_updates. Qed.

(* the update step on ANY well-formed source (not only on sketches built from scratch): never stuck,
   again a well-formed source of the same type, representing the old coupons plus the new ones *)
Theorem c11_hll_source_updates :
  forall lgk arrf cs s us, SrcOK lgk arrf cs s -> Forall valid us ->
  exists s', update_all hip_new hip_update hip_carry us s = Ok s' /\
    SrcOK lgk (tag_flag (sk_tag s')) (rev us ++ cs) s' /\ sk_tgt s' = sk_tgt s /\
    (arrf = true -> sk_tag s' = TagArray).
Proof. exact src_updates. Qed.

(* a list- / set-mode source after further updates shows the Spec state of its coupons plus the new
   ones (mode by the distinct count, coupon set or registers): C02's statement, from any source *)
Theorem c11_hll_source_updates_abs :
  forall lgk cs s us, SrcOK lgk false cs s -> Forall valid us ->
  exists s', update_all hip_new hip_update hip_carry us s = Ok s' /\ hll_abs_ok lgk (sk_tgt s) (rev us ++ cs) s'.
Proof. exact src_updates_abs. Qed.

(* the bridge: what the reader returns as Ok for a canonical image (set: at least 8 coupons; Hll4:
   some register at cur_min -- every image written by the crate / Java / C++ is canonical) is a
   well-formed source.  Non-canonical accepted images are outside these theorems (oracle only). *)
Theorem c11_hll_deserialized_is_source :
  forall bs s, BOK bs -> hll_deserialize bs = Ok s -> image_canonical s ->
  exists cs, SrcOK (sk_lgk s) (tag_flag (sk_tag s)) cs s.
Proof. exact hll_deserialize_src_ok. Qed.

(* the list case in full: the copy is the original (this is what defect D1 broke) *)
Theorem c11_hll_list_identical :
  forall lgk t (l : hlist) ds, 4 <= lgk <= 21 -> ListInv l ds -> (length ds < 8)%nat ->
  Forall valid ds -> hll_deserialize (list_serialize l lgk t) = Ok (mkSketch lgk (MList l t)).
Proof. exact list_roundtrip. Qed.

(* non-vacuity: array-mode sketches of all three types built from a 200-coupon stream satisfy est_ok,
   their images are accepted and the copies re-serialize to the identical bytes *)
Example c11_hll_example :
  (exists s s', run_stream hip_new hip_update hip_carry 8 T4 Proofs.HllC02.ex_stream2 = Ok s /\ sk_tag s = TagArray /\ est_ok s /\
    hll_deserialize (hll_serialize s) = Ok s' /\ hll_serialize s' = hll_serialize s) /\
  (exists s s', run_stream hip_new hip_update hip_carry 8 T6 Proofs.HllC02.ex_stream2 = Ok s /\ sk_tag s = TagArray /\ est_ok s /\
    hll_deserialize (hll_serialize s) = Ok s' /\ hll_serialize s' = hll_serialize s) /\
  (exists s s', run_stream hip_new hip_update hip_carry 9 T8 Proofs.HllC02.ex_stream2 = Ok s /\ sk_tag s = TagArray /\ est_ok s /\
    hll_deserialize (hll_serialize s) = Ok s' /\ hll_serialize s' = hll_serialize s).
Proof. exact rt_example. Qed.
