(* C11, HLL part -- serialize then deserialize is lossless.  Statements only; proofs in
   Proofs/HllCodecProofs.v.
   [hll_serialize] / [hll_deserialize] (Model/HllCodec.v) mirror HllSketch::serialize / deserialize
   byte by byte (List, HashSet, Array4 with its aux list, Array6, Array8), the REPAIRED reader
   (defect D1: a list image was read into a list sized by its coupon count; /repo fix efc0a54).
   [SrcOK lg_k arr cs s]: s represents the coupon list cs (C03).  [rt_ok lg_k cs s s'] says what
   the copy s' is:
     list  -- the IDENTICAL list (8 slots, the same coupons in the same order) and type;
     set   -- same type, lg size and count; the rebuilt table holds exactly the coupons cs and
              satisfies the open-addressing invariant (the slot layout is not carried by the image);
     Hll4  -- the Array4 invariant of C02 for the SAME register file, same cur_min and
              num_at_cur_min (the aux map is rebuilt: same exceptions as a finite map);
     Hll6 / Hll8 -- the same registers, the same num_zeros;
     arrays -- the estimator fields are the 8-byte patterns decoded again ([est_reread]): that
              float_of_bits (bits_of_float f) = f is NOT proved (tied by the correspondence run,
              which compares hip/kxq0/kxq1 bit for bit); the out-of-order flag is kept. *)
From DS Require Import Base.Prelude Model.Hll Model.HllCodec Proofs.HllBase Proofs.HllSet Proofs.HllArray4
  Proofs.HllUnionProofs Proofs.HllCodecProofs.
Open Scope N_scope.

(* any well-formed sketch (built, merged, deserialized; any type, mode, estimator state) *)
Theorem c11_hll_roundtrip :
  forall lgk arrf cs s, SrcOK lgk arrf cs s -> list_lg_ok s ->
  exists s', hll_deserialize (hll_serialize s) = Ok s' /\ rt_ok lgk cs s s'.
Proof. exact hll_roundtrip. Qed.

(* every state reachable by updates (all lg_k, types, streams) *)
Theorem c11_hll_roundtrip_of_stream :
  forall lgk t cs, 4 <= lgk <= 21 -> Forall valid cs ->
  exists s s', run_stream hip_new hip_update hip_carry lgk t cs = Ok s /\
    hll_deserialize (hll_serialize s) = Ok s' /\ rt_ok lgk cs s s'.
Proof. exact hll_roundtrip_of_stream. Qed.

(* the copy is a well-formed representation of the same abstract state: the theorems of C02 (further
   updates) and C03 (merges) apply to it exactly as to the original.
   PARTIAL for Hll6: the copy has the same registers and num_zeros, but SrcOK also speaks about reads
   beyond slot k (the padding byte), which the image does not constrain. *)
Theorem c11_hll_copy_is_wellformed_partial :
  forall lgk arrf cs s s', SrcOK lgk arrf cs s -> rt_ok lgk cs s s' ->
  (forall a, sk_mode s <> MArr6 a) -> SrcOK lgk arrf cs s'.
Proof. exact rt_src_ok. Qed.

(* the list case in full: the copy is the original (this is what defect D1 broke) *)
Theorem c11_hll_list_identical :
  forall lgk t (l : hlist) ds, 4 <= lgk <= 21 -> ListInv l ds -> hl_lg l = 3 -> (length ds < 8)%nat ->
  Forall valid ds -> hll_deserialize (list_serialize l lgk t) = Ok (mkSketch lgk (MList l t)).
Proof. exact list_roundtrip. Qed.

(* non-vacuity: the example streams of C02 are valid inputs *)
Example c11_hll_example : Forall valid Proofs.HllC02.ex_stream /\ Forall valid Proofs.HllC02.ex_stream2.
Proof. exact Proofs.HllC02.ex_stream_valid. Qed.
