(* C13, theta part -- every compact theta image variant Java/C++ can emit is read back to the state
   it encodes.  Statements only; proofs in Proofs/ThetaLayoutProofs.v.

   [enc_spec v a] (Spec/ThetaLayout.v) writes the abstract compact sketch [a] as serVer 1, serVer 2
   (empty / exact / estimating), serVer 3 (empty, single item with or without the SINGLE_ITEM flag,
   exact, estimating -- also with zero entries --, ordered or unordered; and, variant V3L, the same
   states written with MORE preamble longs than necessary: one entry with a count field (preLongs 2),
   exact mode with theta = 2^63-1 stored (preLongs 3)) or serVer 4 (every entry_bits width); [expressible v a] says the variant can express the state; [abs_okb a] that it
   is a theta sketch (entries in (0, theta), theta in [1, 2^63-1], ascending when ordered, ...; it does NOT
   demand distinct entries in an unordered image -- neither the crate's reader nor the C++ one checks that).
   sh <> 0: the reader's seed must have a non-zero seed hash (otherwise deserialize_with_seed returns Err).
   The crate has no theta set operations, so that clause of C13 has nothing to apply to.
   The reader is the REPAIRED code: serVer 2 exact images are no longer decoded
   as empty (D11, /repo d004b42). *)
From DS Require Import Base.Prelude Base.BitExp Model.Theta Model.ThetaCodec Spec.ThetaLayout.
From DS Require Import Proofs.ThetaCodec Proofs.ThetaLayoutProofs.
Open Scope N_scope.

(* dec_reads_spec: the reader returns exactly the encoded state (entries in image order, theta,
   seed hash, ordering, emptiness): every query and re-serialization then follows from C11/C12 *)
Theorem c13_theta_reads_every_variant :
  forall sh v a, sh <> 0 -> abs_okb a = true -> expressible v a = true -> a_seed_hash a = sh ->
  c_deserialize sh (enc_spec v a) = Ok (conc a) /\ abs_of (conc a) = a.
Proof. exact ep_reads_every_variant. Qed.

(* an EMPTY serVer 3 image is accepted whatever its seed hash (as Java/C++ do) *)
Theorem c13_theta_reads_v3 :
  forall sh sf a, sh <> 0 -> abs_okb a = true -> (a_empty a = false -> a_seed_hash a = sh) ->
  c_deserialize sh (enc_v3 sf a) = Ok (conc a).
Proof. exact ep_reads_v3. Qed.

(* the value read can be used: it is well-formed for both writers (so C11 and C12 apply to it) *)
Theorem c13_theta_read_value_wf :
  forall sh a, abs_okb a = true -> (a_empty a = false -> a_seed_hash a = sh) -> c_wf sh (conc a).
Proof. exact conc_wf. Qed.

(* non-vacuity: the serVer 2 exact form (D11), an unordered serVer 3 image, a Java single-item image *)
Example c13_theta_example :
  let a2 := mkAbs [100; 200] S_MAX_THETA 12345 true false in
  let a3 := mkAbs [200; 100; 150] 1000 12345 false false in
  let a1 := mkAbs [77] S_MAX_THETA 12345 true false in
  expressible V2 a2 = true /\ abs_okb a2 = true /\ abs_okb a3 = true /\
  c_deserialize 12345 (enc_spec V2 a2) = Ok (conc a2) /\ ce_empty (conc a2) = false /\
  c_deserialize 12345 (enc_spec (V3 false) a3) = Ok (conc a3) /\
  c_deserialize 12345 (enc_spec (V3 true) a1) = Ok (conc a1) /\ nth 5 (enc_spec (V3 true) a1) 0 = 58 /\
  expressible (V3L 2) a1 = true /\ c_deserialize 12345 (enc_spec (V3L 2) a1) = Ok (conc a1) /\
  expressible (V3L 3) a2 = true /\ c_deserialize 12345 (enc_spec (V3L 3) a2) = Ok (conc a2).
Proof. vm_compute. repeat split; reflexivity. Qed.
