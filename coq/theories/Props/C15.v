(* C15 -- t-digest stays small and accurate: the STRUCTURAL half (see tools/props/C15.py: the
   2k+30 centroid bound and the rank-error claims have no theorem; they are measured as labelled
   tests only).  Statements only; proofs are in Proofs/TDigestProofs{Sort,Merge,Inproc}.v.

   Reading guide.  do_merge's decisions (which neighbour is absorbed) depend on ln through the k2
   scale function and are not recomputed in Coq.  [merge_rel eps rev input output] (Model/TDigest.v)
   is the relation EVERY decision sequence satisfies: with s = the stable sort of the input by mean
   (reversed on alternate passes), the output is a partition of s into contiguous non-empty groups,
   the first and the last group being singletons (index 1 never joins group 0, index len-1 never
   joins its predecessor), and each output centroid carries the summed weight and, within
   eps * max(1,|means|), the weighted mean of its group.  The theorems are for eps = 0 (exact
   arithmetic); [valid_merge] is the boolean checker the harness runs on every real pass with
   eps = 1e-9.  [lbP lo l] / [ubP hi l]: every mean of l is >= lo / <= hi. *)
From Coq Require Import QArith Qabs.
From DS Require Import Base.Prelude Model.TDigest Spec.TDigestSpec.
From DS Require Import Proofs.TDigestProofsBase Proofs.TDigestProofsSort Proofs.TDigestProofsMerge Proofs.TDigestProofsInproc.
Open Scope Q_scope.

(* the checker is sound: whatever it accepts is an instance of the relation (any eps) *)
Theorem c15_valid_merge_sound : forall eps rv input out, valid_merge eps rv input out = true -> merge_rel eps rv input out.
Proof. exact valid_merge_sound. Qed.

Theorem c15_merge_weights : forall rv input out, merge_rel 0 rv input out -> sumw out = sumw input.
Proof. exact merge_weights. Qed.

Theorem c15_merge_sorted : forall rv input out, merge_rel 0 rv input out -> sortedP out.
Proof. exact merge_sorted. Qed.

Theorem c15_merge_in_range : forall rv input out lo hi, merge_rel 0 rv input out ->
  lbP lo input -> ubP hi input -> lbP lo out /\ ubP hi out.
Proof. exact merge_in_range. Qed.

(* the first (last) output centroid has the weight and the mean of a minimal (maximal) input element *)
Theorem c15_merge_extremes : forall rv input out, merge_rel 0 rv input out ->
  (exists c, In c input /\ lbP (c_mean c) input /\ snd (firstc out) = snd c /\ c_mean (firstc out) == c_mean c) /\
  (exists c, In c input /\ ubP (c_mean c) input /\ snd (lastc out) = snd c /\ c_mean (lastc out) == c_mean c).
Proof. exact merge_extremes. Qed.

(* in-process digests ([reach] over a history without a decoded image, Spec/TDigestSpec.v): centroid
   weights (plus buffered values) sum to total_weight, means sorted, every mean inside [min, max] *)
Theorem c15_inprocess_structure : forall h d, reach h d -> inprocess h ->
  (sumw (td_cs d) + Z.of_nat (length (td_buf d)))%Z = td_total d /\ sortedP (td_cs d) /\
  (forall c, In c (td_cs d) -> exists mn mx, td_min d = Some mn /\ td_max d = Some mx /\ mn <= c_mean c /\ c_mean c <= mx).
Proof. exact inproc_structure. Qed.

(* once compressed, the first mean IS min and the last mean IS max (exact to one sample at the
   extremes; the tail branches of rank / quantile are dead code for in-process digests).  Digests
   continued from a decoded image keep sortedness and the [min, max] range (c10_reachable_views_are_wellformed,
   Props/C10.v) but not this: an image may carry heavy or loose end centroids *)
Theorem c15_inprocess_extremes : forall h d, reach h d -> inprocess h -> td_buf d = [] -> td_cs d <> [] ->
  wf_view (td_view d) /\ unit_ends_tight (td_view d) /\
  v_min (td_view d) == c_mean (firstc (td_cs d)) /\ c_mean (lastc (td_cs d)) == v_max (td_view d).
Proof. exact inproc_view_wf. Qed.

(* the buffer never holds more than BUFFER_MULTIPLIER * (2k + fudge) values; the constants are the
   translated ones (Gen/GenTDigest.v) *)
Theorem c15_buffer_bound : forall h d, reach h d -> inprocess h -> (Z.of_nat (length (td_buf d)) <= buf_limit (td_k d))%Z.
Proof. exact buffer_bound. Qed.

Theorem c15_buffer_limit_value : forall k, buf_limit k = (4 * (2 * k + (if (k <? 30)%Z then 30 else 10)))%Z.
Proof. exact buf_limit_eq. Qed.

(* ---------------- non-vacuity ---------------- *)
(* a digest k = 100 after update 3, 1, 2, 2, 5 and a compression that merged the two 2s:
   centroids (1,1) (2,2) (3,1) (5,1) -- accepted by the checker, hence reachable *)
Example c15_example :
  let out := [(1, 1%positive); (2, 2%positive); (3, 1%positive); (5, 1%positive)] in
  let h := HCompress (HUpd (HUpd (HUpd (HUpd (HUpd (HNew 100) 3) 1) 2) 2) 5) in
  exists d, reach h d /\ td_cs d = out /\ td_total d = 5%Z /\ td_min d = Some 1 /\ td_max d = Some 5 /\ td_buf d = [].
Proof.
  cbv zeta.
  assert (R0 : reach (HNew 100) (mkTd 100 false None None [] 0 [])) by (apply R_new; reflexivity).
  pose proof (R_upd_room _ _ 3 R0 eq_refl) as R1.
  pose proof (R_upd_room _ _ 1 R1 eq_refl) as R2.
  pose proof (R_upd_room _ _ 2 R2 eq_refl) as R3.
  pose proof (R_upd_room _ _ 2 R3 eq_refl) as R4.
  pose proof (R_upd_room _ _ 5 R4 eq_refl) as R5.
  eexists. split.
  - eapply (R_compress _ _ [(1, 1%positive); (2, 2%positive); (3, 1%positive); (5, 1%positive)] R5).
    + cbn. discriminate.
    + apply valid_merge_sound. vm_compute. reflexivity.
  - vm_compute. repeat split; reflexivity.
Qed.
