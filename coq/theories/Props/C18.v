(* C18 — sketch size is bounded by configuration, not by stream length.  Statements only. *)
From DS Require Import Base.Prelude Model.CountMin Proofs.CountMinCodec.
Open Scope N_scope.

(* ---------------- Count-Min: the image size is a function of (num_hashes, num_buckets) only ---------------- *)
Theorem c18_countmin_image_size :
  forall s, length (cm_counts s) = N.to_nat (cm_nh s * cm_nb s) ->
  length (cm_serialize s) = if cm_is_empty s then 16%nat else (16 + 8 + 8 * N.to_nat (cm_nh s * cm_nb s))%nat.
Proof. exact image_size. Qed.

(* non-vacuity: a 2 x 3 sketch: 16 bytes when empty, 16 + 8 + 8 * 6 = 72 bytes otherwise, whatever its counters *)
Example c18_countmin_example :
  length (cm_serialize (mkCm 2 3 255 7 0 [0; 0; 0; 0; 0; 0])) = 16%nat /\
  length (cm_serialize (mkCm 2 3 255 7 8 [5; 0; 3; 0; 7; 1])) = 72%nat /\
  length (cm_serialize (mkCm 2 3 255 7 255 [255; 0; 255; 0; 255; 0])) = 72%nat.
Proof. vm_compute. repeat split. Qed.
