(* C12 — emitted bytes follow the cross-language layout: the independent spec decoder
   (Spec/*Layout.v, written from the format description) recovers exactly the abstract state
   from the bytes the modelled writer emits.  Statements only. *)
From DS Require Import Base.Prelude Model.CountMin Spec.CountMinLayout Proofs.CountMinCodec.
Open Scope N_scope.

(* ---------------- Count-Min ---------------- *)
Theorem c12_countmin_writer_conforms :
  forall mx sh s, wfc mx sh s -> spec_decode (cm_serialize s) = Some (abs_of s).
Proof. exact writer_conforms. Qed.

(* the constants the crate uses (re-read from the source on this run) are the specification's *)
Theorem c12_countmin_constants :
  zN Gen.GenCountMin.PREAMBLE_LONGS_SHORT = 2 /\ zN Gen.GenCountMin.SERIAL_VERSION = 1 /\
  zN Gen.GenCodec.FAMILY_COUNTMIN_ID = 18 /\ zN Gen.GenCountMin.FLAGS_IS_EMPTY = 1 /\ zN Gen.GenCountMin.LONG_SIZE_BYTES = 8.
Proof. exact layout_constants. Qed.

(* non-vacuity: a well-formed 2 x 3 u8 sketch; its image is the documented 72 bytes and decodes to its state *)
Example c12_countmin_example :
  let s := mkCm 2 3 255 7 8 [5; 0; 3; 0; 7; 1] in
  length (cm_serialize s) = 72%nat /\
  spec_decode (cm_serialize s) = Some (mkAbs 3 2 7 8 [5; 0; 3; 0; 7; 1]).
Proof. split; vm_compute; reflexivity. Qed.
