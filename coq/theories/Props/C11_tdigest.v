(* C11, t-digest part -- serialize then deserialize is lossless.  Statements only; proofs in
   Proofs/TDigestCodec.v.  Model/TDigestCodec.v is the byte-level model of TDigestMut::serialize /
   deserialize (floats as their bit patterns).  [wfb s]: a state serialize() can be applied to after
   its own compress(): empty buffer, k in 10..65535, finite means, weights in 1..2^64-1 with
   centroids_weight = their sum < 2^64, fewer than 2^32 centroids, min / max not NaN; an empty digest is
   TDigestMut::new(k).  Nothing is assumed about a digest of total weight 1: when its one sample is not min,
   max and the centroid at once (possible only after deserializing such an image) the REPAIRED writer
   uses the general form (tdb_is_single, Model/TDigestCodec.v; the unrepaired one wrote min alone and the
   round trip changed the digest: fixed defect tdigest-C11-one-sample-form). *)
From DS Require Import Base.Prelude Base.TDigestBits Model.TDigestCodec Proofs.TDigestCodec.
Open Scope N_scope.

Theorem c11_tdigest_roundtrip : forall s, wfb s -> tdb_dec false (tdb_enc s) = Ok s.
Proof. exact tdb_roundtrip. Qed.

(* the same state comes back, so re-serialization is byte-identical *)
Theorem c11_tdigest_reserialize : forall s s', wfb s -> tdb_dec false (tdb_enc s) = Ok s' -> tdb_enc s' = tdb_enc s.
Proof. exact tdb_reserialize. Qed.

(* non-vacuity: k = 100, reverse_merge set, centroids (1.0, w1) (2.5, w7) (4.0, w1), min 1.0, max 4.0 *)
(* c11_example_state (Proofs/TDigestCodec.v): k = 100, reverse_merge, centroids (1.0,w1) (2.5,w7) (4.0,w1) *)
Example c11_tdigest_example :
  wfb c11_example_state /\ length (tdb_enc c11_example_state) = 80%nat /\
  tdb_dec false (tdb_enc c11_example_state) = Ok c11_example_state.
Proof.
  split; [|split; vm_compute; reflexivity].
  constructor; unfold c11_example_state; cbn [b_k b_rev b_min b_max b_cs b_cw b_buf].
  - split; [apply (proj1 (N.leb_le _ _))|apply (proj1 (N.ltb_lt _ _))]; vm_compute; reflexivity.
  - reflexivity.
  - repeat constructor; cbn [fst snd];
      first [apply (proj1 (N.ltb_lt _ _)); vm_compute; reflexivity | apply (proj1 (N.leb_le _ _)); vm_compute; reflexivity | vm_compute; reflexivity].
  - apply (proj1 (N.ltb_lt _ _)); vm_compute; reflexivity.
  - split; [vm_compute; reflexivity|apply (proj1 (N.ltb_lt _ _)); vm_compute; reflexivity].
  - split; [apply (proj1 (N.ltb_lt _ _)); vm_compute; reflexivity|vm_compute; reflexivity].
  - split; [apply (proj1 (N.ltb_lt _ _)); vm_compute; reflexivity|vm_compute; reflexivity].
  - discriminate.
Qed.
