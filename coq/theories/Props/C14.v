(* C14 — malformed bytes yield an error, never a panic: the modelled readers are total
   functions that never reach a modelled panic site (Stuck), and whatever they accept is
   well-shaped (so it can be used) with allocation justified by the input.  Statements only. *)
From DS Require Import Base.Prelude Model.CountMin Proofs.CountMinCodec.
Open Scope N_scope.

(* ---------------- Count-Min ---------------- *)
Theorem c14_countmin_never_stuck : forall mx sh bs, cm_deserialize mx sh bs <> Stuck.
Proof. exact deserialize_never_stuck. Qed.

Theorem c14_countmin_ok_is_wellshaped :
  forall mx sh bs s, cm_deserialize mx sh bs = Ok s ->
  cm_nh s <> 0 /\ 3 <= cm_nb s /\ cm_nh s * cm_nb s < zN Gen.GenCountMin.MAX_TABLE_ENTRIES /\
  length (cm_counts s) = N.to_nat (cm_nh s * cm_nb s) /\ Forall (fun c => c <= mx) (cm_counts s) /\
  cm_total s <= mx /\ cm_max s = mx /\ cm_seed_hash s = sh /\
  (cm_total s <> 0 -> (16 + 8 * (1 + N.to_nat (cm_nh s * cm_nb s)) <= length bs)%nat).
Proof. exact deserialize_ok_shape. Qed.
