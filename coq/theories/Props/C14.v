(* C14 — malformed bytes yield an error, never a panic: the modelled readers are total
   functions that never reach a modelled panic site (Stuck), and whatever they accept is
   well-shaped (so it can be used) with allocation justified by the input.  Statements only. *)
From DS Require Import Base.Prelude Model.CountMin Proofs.CountMinCodec.
Open Scope N_scope.

(* ---------------- Count-Min ---------------- *)
Theorem c14_countmin_never_stuck : forall mx sh bs, cm_deserialize mx sh bs <> Stuck.
Proof. exact deserialize_never_stuck. Qed.

Theorem c14_countmin_ok_is_wellshaped :
  forall mx sh bs s, cm_deserialize mx sh bs = Ok s ->
  cm_nh s <> 0 /\ 3 <= cm_nb s /\ cm_nh s * cm_nb s < zN Gen.GenCountMin.MAX_TABLE_ENTRIES /\
  length (cm_counts s) = N.to_nat (cm_nh s * cm_nb s) /\ Forall (fun c => c <= mx) (cm_counts s) /\
  cm_total s <= mx /\ cm_max s = mx /\ cm_seed_hash s = sh /\
  (cm_total s <> 0 -> (16 + 8 * (1 + N.to_nat (cm_nh s * cm_nb s)) <= length bs)%nat).
Proof. exact deserialize_ok_shape. Qed.

(* non-vacuity: a 40-byte u8 image of a 1 x 3 table is accepted; its truncation, a counter above the total
   weight and a counter outside the type's range are rejected (Err, not Stuck) *)
Example c14_countmin_example :
  let hdr := [2; 1; 18; 0; 0; 0; 0; 0; 3; 0; 0; 0; 1; 7; 0; 0] in
  let cell v := [v; 0; 0; 0; 0; 0; 0; 0] in
  cm_deserialize 255 7 (hdr ++ cell 9 ++ cell 5 ++ cell 0 ++ cell 4) = Ok (mkCm 1 3 255 7 9 [5; 0; 4]) /\
  cm_deserialize 255 7 (hdr ++ cell 9 ++ cell 5 ++ cell 0) = Err /\
  cm_deserialize 255 7 (hdr ++ cell 9 ++ cell 10 ++ cell 0 ++ cell 4) = Err /\
  cm_deserialize 255 7 (hdr ++ cell 9 ++ [5; 1; 0; 0; 0; 0; 0; 0] ++ cell 0 ++ cell 4) = Err.
Proof. vm_compute. repeat split. Qed.
