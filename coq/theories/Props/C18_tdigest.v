(* C18, t-digest part -- the serialized size is a function of the number of centroids, and the
   buffer is bounded by the configuration.  The bound on the number of centroids itself (2k + 30) is
   the analytic half of C15: measured, no theorem.  Statements only. *)
From Coq Require Import QArith.
From DS Require Import Base.Prelude Base.TDigestBits Model.TDigest Model.TDigestCodec Spec.TDigestSpec.
From DS Require Import Proofs.TDigestCodec Proofs.TDigestProofsInproc Proofs.TDigestProofsReach.

Theorem c18_tdigest_image_size : forall s, b_buf s = [] ->
  length (tdb_enc s) =
  if tdb_is_empty s then 8%nat else if tdb_is_single s then 16%nat else (32 + 16 * length (b_cs s))%nat.
Proof. exact tdb_image_size. Qed.

(* in process (histories not started from a decoded image, whose buffer is whatever the image says),
   the buffer never exceeds BUFFER_MULTIPLIER * (2k + fudge) values (constants translated
   from the source) *)
Theorem c18_tdigest_buffer_bound : forall h d, reach h d -> inprocess h -> (Z.of_nat (length (td_buf d)) <= buf_limit (td_k d))%Z.
Proof. exact buffer_bound. Qed.

(* ... and after ANY update the bound holds again, whatever the history started from: a decoded image may
   announce more buffered values than the capacity (image_ok allows any buffer length); the first update
   compresses it (repair 5ca8d9c: update used `==` and never compressed such a buffer) *)
Theorem c18_tdigest_buffer_bound_after_update : forall h x d, reach (HUpd h x) d ->
  (Z.of_nat (length (td_buf d)) <= buf_limit (td_k d))%Z.
Proof. exact buffer_bound_after_update. Qed.

Example c18_tdigest_example : buf_limit 200 = 1640%Z /\ buf_limit 10 = 200%Z.
Proof. split; reflexivity. Qed.
