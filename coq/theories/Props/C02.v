(* C02 -- HLL sketch holds exactly the per-slot maximum of every item it was fed.
   Statements only; proofs are in Proofs/Hll*.v.  (Being extended.) *)
From DS Require Import Base.Prelude Model.Hll Proofs.HllBase Proofs.HllArray8 Proofs.HllArray6.
Open Scope N_scope.

(* Array6: the 16-bit window read/write is a correct packed array of 6-bit cells *)
Theorem c02_array6_get_put :
  forall b s v, WFb b -> v < 64 ->
  a6_get_raw (a6_put_raw b s v) s = v /\
  (forall s', s' <> s -> a6_get_raw (a6_put_raw b s v) s' = a6_get_raw b s') /\
  WFb (a6_put_raw b s v).
Proof.
  intros b s v W Hv. split; [now apply a6_get_put_same|]. split; [|now apply a6_put_WF].
  intros s' Hs. now apply a6_get_put_other.
Qed.
