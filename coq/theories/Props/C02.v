(* C02 -- HLL sketch holds exactly the per-slot maximum of every item it was fed.
   Statements only; proofs are in Proofs/Hll*.v.

   Reading guide.
   Model (Model/Hll*.v, one definition per Rust function of hll/{sketch,list,hash_set,container,
   array4,aux_map,array6,array8}.rs): [run_stream einit eupd ecarry lg_k t cs] is a fresh
   HllSketch::new(lg_k, t) fed the coupon list [cs] through update_with_coupon; it is generic
   in the estimator (einit = HipEstimator::new, eupd lg_k old new = HipEstimator::update,
   ecarry len = set_hip_accum(container.estimate())), Model/Hll.v instantiates it with the HIP
   estimator over primitive floats.  A result [Stuck] is a panic site of the crate
   (unreachable!/expect/underflow/"HashSet full"/"AuxMap full").
   Spec (Proofs/HllBase.v): [cslot lg_k c] / [cvalue c] = slot and value of a coupon;
   [spec_regs lg_k cs j] = max value over the coupons of cs mapped to slot j (0 if none);
   [distinct cs] = number of distinct coupons; [spec_mode lg_k d] = List | Set | Array as a
   function of (lg_k, d) only.  [valid c] : the value field is in 1..63 (what coupon() makes).
   [hll_abs_ok lg_k t cs s] (Proofs/HllRefine.v): sketch s has lg_k, type t, the mode
   spec_mode lg_k (distinct cs); in list/set mode Container::iter is duplicate-free and holds
   exactly the coupons of cs and Container::len = distinct cs; in array mode
   Array{4,6,8}::get j = spec_regs lg_k cs j for every slot. *)
From DS Require Import Base.Prelude Model.Hll Proofs.HllBase Proofs.HllArray8 Proofs.HllArray6
  Proofs.HllOpenAddr Proofs.HllSet Proofs.HllAux Proofs.HllArray4 Proofs.HllRefine Proofs.HllC02.
Open Scope N_scope.

(* ---- the sketch refines the textbook model: for ALL lg_k in 4..21, all three types, all
   coupon streams (hence after every prefix): never a panic, and the observable state is the
   Spec's -- through list -> set -> growth -> array promotion, cur_min shifts, aux exceptions *)
Theorem c02_hll_refines :
  forall (E : Type) (einit : N -> E) (eupd : N -> N -> N -> E -> E) (ecarry : N -> E -> E) lgk t cs,
  4 <= lgk <= 21 -> Forall valid cs ->
  exists s, run_stream einit eupd ecarry lgk t cs = Ok s /\ hll_abs_ok lgk t cs s.
Proof. exact hll_refines. Qed.

(* ---- order and multiplicity do not matter: two streams with the same set of coupons give
   the same mode, the same coupon set / the same registers *)
Theorem c02_hll_set_determined :
  forall (E : Type) (einit : N -> E) (eupd : N -> N -> N -> E -> E) (ecarry : N -> E -> E) lgk t cs cs',
  4 <= lgk <= 21 -> Forall valid cs -> Forall valid cs' -> same_set cs cs' ->
  exists s s', run_stream einit eupd ecarry lgk t cs = Ok s /\ run_stream einit eupd ecarry lgk t cs' = Ok s' /\
    sk_tag s = sk_tag s' /\ sk_len s = sk_len s' /\
    (forall c, In c (sk_coupons s) <-> In c (sk_coupons s')) /\
    (forall j, j < 2 ^ lgk -> sk_reg s j = sk_reg s' j).
Proof. exact hll_set_determined. Qed.

(* ---- Hll4, Hll6, Hll8 fed the same stream hand the SAME state to ANY estimator: equal
   estimator value after identical (old, new) transitions, equal number of unhit registers,
   equal mode and container length (the coupon-mode estimate is a function of the length) *)
Theorem c02_hll_types_same_estimator :
  forall (E : Type) (einit : N -> E) (eupd : N -> N -> N -> E -> E) (ecarry : N -> E -> E) lgk cs,
  4 <= lgk <= 21 -> Forall valid cs ->
  exists s4 s6 s8,
    run_stream einit eupd ecarry lgk T4 cs = Ok s4 /\ run_stream einit eupd ecarry lgk T6 cs = Ok s6 /\
    run_stream einit eupd ecarry lgk T8 cs = Ok s8 /\
    sk_est_inputs s4 = sk_est_inputs s8 /\ sk_est_inputs s6 = sk_est_inputs s8 /\
    sk_tag s4 = sk_tag s8 /\ sk_tag s6 = sk_tag s8 /\ sk_len s4 = sk_len s8 /\ sk_len s6 = sk_len s8.
Proof. exact hll_types_same_estimator. Qed.

(* ... in particular with the HIP estimator over binary64: estimate, upper and lower bounds
   (any number of standard deviations) are bit-identical across the three types *)
Theorem c02_hll_types_same_estimates :
  forall lgk cs, 4 <= lgk <= 21 -> Forall valid cs ->
  exists s4 s6 s8, run_stream hip_new hip_update hip_carry lgk T4 cs = Ok s4 /\
    run_stream hip_new hip_update hip_carry lgk T6 cs = Ok s6 /\
    run_stream hip_new hip_update hip_carry lgk T8 cs = Ok s8 /\
    hll_estimate s4 = hll_estimate s8 /\ hll_estimate s6 = hll_estimate s8 /\
    (forall nsd, hll_upper_bound s4 nsd = hll_upper_bound s8 nsd /\ hll_upper_bound s6 nsd = hll_upper_bound s8 nsd /\
                 hll_lower_bound s4 nsd = hll_lower_bound s8 nsd /\ hll_lower_bound s6 nsd = hll_lower_bound s8 nsd).
Proof. exact hll_types_same_estimates. Qed.

(* ---- Array4: the invariant of DESIGN.md B.4.  [Inv4 lg_k regs a] (Proofs/HllArray4.v) for a
   true register file [regs]: nibble < 15 -> regs j = cur_min + nibble; nibble = 15 <-> slot j is
   in the aux map, and then regs j = aux value >= cur_min + 15; num_at_cur_min = #{j | regs j =
   cur_min}; the aux table satisfies the open-addressing invariant with load <= 3/4. *)
Theorem c02_array4_inv_new :
  forall E lgk (e : E), Inv4 lgk (fun _ => 0) (a4_new lgk e) /\ 0 < a4_num (a4_new lgk e).
Proof. exact array4_inv_new. Qed.

(* preserved by Array4::update (all four branches, the decrement and the shift loop); the
   register file becomes the per-slot maximum; the estimator sees (old, new) iff the register grows *)
Theorem c02_array4_inv_update :
  forall E (eupd : N -> N -> N -> E -> E) lgk regs a c,
  4 <= lgk <= 21 -> Inv4 lgk regs a -> 0 < a4_num a -> (forall j, j < 2 ^ lgk -> regs j <= 63) -> valid c ->
  exists a', a4_update eupd a c = Ok a' /\
    Inv4 lgk (upd_regs regs (cslot lgk c) (cvalue c)) a' /\ 0 < a4_num a' /\
    a4_est a' = (if regs (cslot lgk c) <? cvalue c then eupd lgk (regs (cslot lgk c)) (cvalue c) (a4_est a) else a4_est a).
Proof. exact array4_inv_update. Qed.

(* preserved by one shift_to_bigger_cur_min (same register file, cur_min + 1, rebuilt aux map) *)
Theorem c02_array4_inv_shift :
  forall E lgk regs (a : arr4 E), 4 <= lgk <= 21 -> Inv4 lgk regs a -> a4_num a = 0 ->
  exists a', a4_shift_to_bigger_cur_min a = Ok a' /\ Inv4 lgk regs a' /\
             a4_cur_min a' = a4_cur_min a + 1 /\ a4_est a' = a4_est a.
Proof. exact array4_inv_shift. Qed.

(* the `while num_at_cur_min == 0` loop terminates: 64 - cur_min rounds always suffice *)
Theorem c02_array4_shift_loop_terminates :
  forall E lgk regs, 4 <= lgk <= 21 -> (forall j, j < 2 ^ lgk -> regs j <= 63) ->
  forall fuel (a : arr4 E), Inv4 lgk regs a -> 64 <= N.of_nat fuel + a4_cur_min a ->
  exists a', a4_shift_loop fuel a = Ok a' /\ Inv4 lgk regs a' /\ 0 < a4_num a' /\ a4_est a' = a4_est a /\
             a4_cur_min a <= a4_cur_min a'.
Proof. exact array4_shift_loop_terminates. Qed.

(* Array4::get returns the true value *)
Theorem c02_array4_get_value :
  forall E lgk regs (a : arr4 E) j, Inv4 lgk regs a -> j < 2 ^ lgk -> a4_get a j = Ok (regs j).
Proof. exact array4_get_value. Qed.

(* nibble packing (bytes = any array of u8 values) *)
Theorem c02_array4_nibble_get_put :
  forall b s v, WFb b -> v <= 15 ->
  a4_get_raw (a4_put_raw b s v) s = v /\
  (forall s', s' <> s -> a4_get_raw (a4_put_raw b s v) s' = a4_get_raw b s') /\ WFb (a4_put_raw b s v).
Proof. exact array4_nibble_get_put. Qed.

(* ---- Array6: the 16-bit window read/write is a correct packed array of 6-bit cells *)
Theorem c02_array6_get_put :
  forall b s v, WFb b -> v < 64 ->
  a6_get_raw (a6_put_raw b s v) s = v /\
  (forall s', s' <> s -> a6_get_raw (a6_put_raw b s v) s' = a6_get_raw b s') /\ WFb (a6_put_raw b s v).
Proof. exact array6_get_put. Qed.

(* ---- open addressing without deletion (coupon hash set, aux map), generic in key/start/stride.
   pos x n = (start x + n * stride x) mod 2^lg.  Odd stride: the probe sequence of x is a
   permutation of the table. *)
Theorem c02_openaddr_probe_permutation :
  forall lg (start stride : N -> N),
  (forall x, start x < 2 ^ lg) -> (forall x, N.odd (stride x) = true) ->
  forall x,
    (forall n m, n < 2 ^ lg -> m < 2 ^ lg -> pos lg start stride x n = pos lg start stride x m -> n = m) /\
    (forall i, i < 2 ^ lg -> exists n, n < 2 ^ lg /\ pos lg start stride x n = i).
Proof. exact oa_probe_permutation. Qed.

(* with at least one empty cell, the probe loop (the code of HashSet::update / AuxMap::find) is
   never stuck and returns the cell of key x, or the first empty cell on x's path when absent *)
Theorem c02_openaddr_find :
  forall lg (key start stride : N -> N),
  (forall x, start x < 2 ^ lg) -> (forall x, N.odd (stride x) = true) ->
  forall tab x, OAInv lg key start stride tab -> has_empty lg tab ->
  exists i, i < 2 ^ lg /\
    ((aget tab i = 0 /\ find lg key start stride tab x = Ok (i, false) /\
      (forall j, j < 2 ^ lg -> aget tab j <> 0 -> key (aget tab j) <> x) /\
      exists n1, n1 < 2 ^ lg /\ pos lg start stride x n1 = i /\
        forall m, m < n1 -> aget tab (pos lg start stride x m) <> 0 /\ key (aget tab (pos lg start stride x m)) <> x)
     \/ (aget tab i <> 0 /\ key (aget tab i) = x /\ find lg key start stride tab x = Ok (i, true))).
Proof. exact oa_find_spec. Qed.

(* writing into that empty cell keeps the invariant; no key is ever stored twice *)
Theorem c02_openaddr_insert :
  forall lg (key start stride : N -> N),
  (forall x, start x < 2 ^ lg) -> (forall x, N.odd (stride x) = true) ->
  forall tab x e n1, OAInv lg key start stride tab -> n1 < 2 ^ lg -> aget tab (pos lg start stride x n1) = 0 ->
  (forall m, m < n1 -> aget tab (pos lg start stride x m) <> 0 /\ key (aget tab (pos lg start stride x m)) <> x) ->
  e <> 0 -> key e = x -> OAInv lg key start stride (aset tab (pos lg start stride x n1) e).
Proof. exact oa_insert_keeps_inv. Qed.

Theorem c02_openaddr_no_duplicates :
  forall lg (key start stride : N -> N) tab i j,
  OAInv lg key start stride tab -> i < 2 ^ lg -> j < 2 ^ lg -> aget tab i <> 0 -> aget tab j <> 0 ->
  key (aget tab i) = key (aget tab j) -> i = j.
Proof. exact oa_no_duplicate_keys. Qed.

(* instance: HashSet::update on a table that represents the coupon set S, not full *)
Theorem c02_hashset_update :
  forall lg st S c, SetRep lg st S -> hs_len st < 2 ^ lg -> c <> 0 ->
  exists st', set_update st c = Ok st' /\ SetRep lg st' (c :: S) /\
    (In c S -> st' = st) /\ (~ In c S -> hs_len st' = hs_len st + 1).
Proof. exact hashset_update_spec. Qed.

(* instance: AuxMap insert (with check_grow / grow), replace, get, against the finite map
   [amaps m slot value] the table represents; none of the three unreachable!()s is reached *)
Theorem c02_auxmap_insert :
  forall lgk m j v, AuxInv lgk m -> j < 2 ^ lgk -> (forall v', ~ amaps m j v') -> v <> 0 ->
  exists m', aux_insert m j v = Ok m' /\ AuxInv lgk m' /\
    forall j' v', amaps m' j' v' <-> (j' = j /\ v' = v) \/ amaps m j' v'.
Proof. exact aux_insert_spec. Qed.

Theorem c02_auxmap_replace :
  forall lgk m j v0 v, AuxInv lgk m -> amaps m j v0 -> v <> 0 ->
  exists m', aux_replace m j v = Ok m' /\ AuxInv lgk m' /\
    forall j' v', amaps m' j' v' <-> (j' = j /\ v' = v) \/ (j' <> j /\ amaps m j' v').
Proof. exact aux_replace_spec. Qed.

Theorem c02_auxmap_get :
  forall lgk m j v, AuxInv lgk m -> amaps m j v -> aux_get m j = Ok (Some v).
Proof. exact aux_get_some. Qed.

(* ---- non-vacuity: the hypotheses are met by concrete non-trivial streams.
   ex_stream (lg_k 4, Hll4): cur_min shifts 0 -> 3 with two live aux exceptions;
   ex_stream2 (lg_k 10): 200 distinct coupons through list -> set(5) -> set(7) -> array *)
Example c02_example_streams_valid : Forall valid ex_stream /\ Forall valid ex_stream2.
Proof. exact ex_stream_valid. Qed.

Example c02_example_array4_state :
  exists a m, urun 4 T4 ex_stream = Ok (mkSketch 4 (MArr4 a)) /\
  a4_cur_min a = 3 /\ a4_num a = 14 /\ a4_aux a = Some m /\ length (aux_pairs m) = 2%nat.
Proof. exact ex_stream_state. Qed.

Example c02_example_modes :
  (exists st t, urun 10 T6 (firstn 20 ex_stream2) = Ok (mkSketch 10 (MSet st t)) /\ hs_lg st = 5 /\ hs_len st = 20) /\
  (exists st t, urun 10 T6 (firstn 60 ex_stream2) = Ok (mkSketch 10 (MSet st t)) /\ hs_lg st = 7 /\ hs_len st = 60) /\
  (exists a, urun 10 T6 ex_stream2 = Ok (mkSketch 10 (MArr6 a)) /\ a6_nz a = 824).
Proof. exact ex_stream2_modes. Qed.
