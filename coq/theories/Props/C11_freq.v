(* C11, Frequent Items (i64 items) -- serialize then deserialize is lossless.  Statements only;
   proofs in Proofs/FreqCodec.v and Proofs/FreqTable.v.

   Reading guide.  [fc] is the concrete sketch of Model/Freq.v PART B: the scalar fields and the
   ReversePurgeItemHashMap slot by slot.  [kv t] is the list of active (item, count) pairs of a
   table in slot order -- the sketch as a finite map; [fi_of_fc c] has exactly these counters.
   [H] is the hash function (MurmurHash3 of the item; C16): table entries remember the hash they
   were inserted with, [fc_deserialize] receives the hashes of the image's items.
   [fc_wf H c]: the sketch is serializable -- lg sizes in range, bookkeeping fields consistent,
   distinct i64 keys with positive counts, no more active items than the current capacity (and
   fewer than 2^32: active_items is a u32 in the image), offset + counters <= stream weight < 2^64.
   [tinv H t]: the probe-path invariant of the linear-probing table (every key is reachable from
   its home slot over occupied slots), under which lookups are finite-map lookups.

   The image carries the counters in slot order but not the slot layout: the reader re-inserts
   them into a fresh table.  A cluster that wraps around the end of the table is rebuilt in a
   different order, so the copy is equal as a finite map but not slot by slot
   ([c11_freq_layout_not_carried]; known finding C11-freq-layout-not-carried: the next purge samples
   the first [capacity] of [capacity + 1] counters in slot order). *)
From DS Require Import Base.Prelude Model.Freq Proofs.FreqProofs Proofs.FreqTable Proofs.FreqCodec.
From Coq Require Import Permutation.
Open Scope N_scope.

(* deserialize(serialize(c)) succeeds; the copy has the same lg sizes, capacities, offset, stream
   weight, sample size, number of active items, the same counters as a finite map (a permutation
   of the pairs, and every lookup in the rebuilt table returns c's count), and is itself
   well-formed with a table satisfying the probe invariant (so it can be serialized again, with
   the same result as a finite map) *)
Theorem c11_freq_roundtrip :
  forall H c, fc_wf H c ->
  exists c', fc_deserialize (fc_serialize c) (map e_hash (active_entries (fc_map c))) = Ok c' /\
             fc_same H c c' /\ fc_wf H c' /\ tinv H (fc_map c').
Proof. exact roundtrip. Qed.

(* under the probe invariant (and one empty slot) hash_map.get is the finite map's lookup, hence
   estimate / lower_bound / upper_bound of the copy are those of the abstract counters *)
Theorem c11_freq_lookup_is_finite_map :
  forall H t k, tinv H t -> room t -> rp_get t k (H k) = cs_get (kv t) k.
Proof. exact get_spec. Qed.

(* adjust_or_put_value preserves the probe invariant and is cs_add on the finite map: further
   updates of the copy (until the next purge) behave as the abstract model prescribes *)
Theorem c11_freq_put_is_cs_add :
  forall H t k v, tinv H t -> N.of_nat (length (active_entries t)) + 1 < rp_len t ->
  let t' := rp_adjust_or_put t k (H k) v in
  tinv H t' /\ Permutation (kv t') (cs_add (kv t) k v) /\
  rp_lg t' = rp_lg t /\ rp_thr t' = rp_thr t /\ rp_len t' = rp_len t.
Proof. exact put_spec. Qed.

(* Reachable => well-formed.  Full statement: for every concrete sketch c reached by the crate's
   operations, fc_wf H c.  Proved here: every ABSTRACT state a history can produce (any purge
   samples, any merge orders: C07's [runs]) satisfies the list-level conditions, and a concrete
   sketch whose abstract view satisfies them and whose bookkeeping fields are consistent
   ([fc_shape]) is well-formed.  That the crate's table maintains [fc_shape] through purges
   (hash_delete) is checked by the lock-step correspondence run, not proved (DESIGN.md section 10:
   the slot layout is modelled, not verified); for tables built by deserialize it is proved
   (c11_freq_roundtrip, c14_freq_ok_is_wellformed). *)
Theorem c11_freq_reachable_wf_partial :
  forall h s, runs h s -> weight h < M64 -> lgm h <= 62 -> (forall x, 0 < truth h x -> i64_ok x) -> fi_wf s.
Proof. exact reachable_fi_wf. Qed.

Theorem c11_freq_wf_of_abstract :
  forall H c, fi_wf (fi_of_fc c) -> fc_shape H c -> fc_wf H c.
Proof. exact wf_of_abstract. Qed.

(* non-vacuity, and the limit of the format: a well-formed sketch (map size 8, six counters, one
   cluster wrapping around the table end) whose copy is the same finite map ([fc_same]) in a
   different slot layout; one further update (a seventh item) purges the original with median 4
   and the copy with median 5 *)
Example c11_freq_layout_not_carried :
  fc_wf ex_hash ex_fc /\
  exists c' c1 c1' tr tr',
    fc_deserialize (fc_serialize ex_fc) (map e_hash (active_entries (fc_map ex_fc))) = Ok c' /\
    fc_same ex_hash ex_fc c' /\ rp_tab (fc_map c') <> ex_tab /\
    fc_update ex_fc 7 (ex_hash 7) 6 = Ok (c1, tr) /\ fc_update c' 7 (ex_hash 7) 6 = Ok (c1', tr') /\
    fc_offset c1 = 4 /\ fc_offset c1' = 5.
Proof. exact ex_layout_not_carried. Qed.
