(* C17, theta part -- no valid sequence of public ThetaSketch / CompactThetaSketch calls reaches a panic
   site of the model.  Statements only; proofs in Proofs/ThetaKmv.v, ThetaCodecReach.v, ThetaCodec.v.

   Modelled panic sites: the `unreachable!()` after find_in_entries (try_insert, resize, rebuild), the
   assert_eq!s of try_insert and rebuild, select_nth_unstable's index bound, the builder's asserts, the
   asserts / indexing / shifts of the bit packers, `entry - previous` in serialize_compressed.
   The model is the repaired code: a sampling probability below 2^-63 no longer gives theta = 0
   (known_findings.d/theta-tiny-p-theta-zero.json: lower_bound()/upper_bound() panicked). *)
From DS Require Import Base.Prelude Base.FloatBits Base.ThetaLib Model.Theta Model.ThetaCodec.
From DS Require Import Proofs.ThetaProofs Proofs.ThetaKmv Proofs.ThetaCodec Proofs.ThetaCodecReach.
From Coq Require Import Floats.
Open Scope N_scope.

(* every history of update(any hash) / trim / reset / compact on every valid configuration runs to the end *)
Theorem c17_theta_ops_no_stuck :
  forall reorder, reorder_ok reorder -> forall c ops, cfg_ok c -> exists s, reach reorder c ops s.
Proof. exact no_stuck. Qed.

(* the builder accepts every documented configuration: lg_k 5..26, p in (0, 1], a seed whose 16-bit seed
   hash is not zero (seed() panics otherwise, documented: the repaired code, where the unusable seed used to
   surface as a panic inside compact() - known_findings.d/theta-zero-seed-hash-panic.json) *)
Theorem c17_theta_build_ok :
  forall c, cfg_ok c ->
  PrimFloat.ltb 0%float (float_of_bits (c_pbits c)) = true ->
  PrimFloat.leb (float_of_bits (c_pbits c)) 1%float = true ->
  PrimFloat.leb 0%float (float_of_bits (c_pbits c)) = true ->
  c_seed_hash c <> 0 ->
  sk_build c = Ok (sk_new c).
Proof. exact build_ok. Qed.

(* compact() followed by serialize() / serialize_compressed() never reaches a panic site *)
Theorem c17_theta_compact_serialize_no_stuck :
  forall reorder, reorder_ok reorder -> forall c ops s ordered, cfg_ok c -> reach reorder c ops s ->
  c_seed_hash c < 65536 ->
  exists bs, c_serialize_compressed (sk_compact s ordered) = Ok bs.
Proof. exact compact_serializable. Qed.

(* theta is always a valid sampling threshold, 0 < theta <= 2^63-1: the precondition under which
   binomial_bounds::{lower,upper}_bound return Ok, i.e. the `.expect("theta should always be valid")`
   of lower_bound()/upper_bound() cannot fire *)
Theorem c17_theta_theta_valid :
  forall reorder, reorder_ok reorder -> forall c ops s, cfg_ok c -> reach reorder c ops s ->
  0 < t_theta s /\ t_theta s <= MAX_THETA.
Proof. exact theta_valid. Qed.

Theorem c17_theta_starting_theta_valid : forall c, 0 < theta0 c /\ theta0 c <= MAX_THETA.
Proof. intros c. split; [apply theta0_pos|apply theta0_le_max]. Qed.

(* non-vacuity: p = 2^-64 (f32), the case that used to start with theta = 0 *)
Example c17_theta_example :
  let c := mkCfg 5 3 0x3bf0000000000000 37836 in
  cfg_ok c /\ theta0 c = 1 /\
  exists s, reach ascending c [OUpdate 12345; OUpdate 0; OTrim; OCompact true] s /\
            t_theta s = 1 /\ t_n s = 0 /\ sk_is_empty s = false /\
            exists bs, c_serialize_compressed (sk_compact s true) = Ok bs /\ length bs = 24%nat.
Proof.
  cbv zeta. split; [unfold cfg_ok; cbn; lia|]. split; [vm_compute; reflexivity|].
  eexists. split; [vm_compute; reflexivity|]. repeat split; try (vm_compute; reflexivity).
  eexists. split; vm_compute; reflexivity.
Qed.
