(* C17 (Bloom part) - no valid sequence of public API calls panics.  The model returns Stuck at every
   panic site of bloom/sketch.rs and bloom/builder.rs it covers: the builder's two range assertions,
   the compatibility assertion of union / intersect, the subtraction in invert (overflow checks).  The
   implicit sites (indexing bit_array, % capacity, num_bits_set += 1) are covered by the last three
   conjuncts of c17_bloom_ops_safe.  Statements only. *)
From DS Require Import Base.Prelude Model.Bloom Proofs.BloomProofs Proofs.BloomCodec.
Open Scope N_scope.

(* every history of calls whose documented preconditions hold (size_ok: builder arguments in range; the
   operands of union / intersect inside one history share the configuration, i.e. are compatible)
   evaluates to Ok: never Stuck, never Err - in particular the round trip through the codec *)
Theorem c17_bloom_history_never_stuck :
  forall num_bits nh seed, size_ok num_bits nh seed ->
  forall h : hist, exists f, eval num_bits nh seed h = Ok f /\ wf f.
Proof. exact hist_never_stuck. Qed.

(* operation-wise, for ANY well-formed filter (reachable, or accepted by deserialize: C14_bloom) *)
Theorem c17_bloom_ops_safe :
  forall f, wf f ->
  (forall h0 h1, wf (bf_insert f h0 h1) /\ same_cfg f (bf_insert f h0 h1)) /\
  (forall h0 h1, wf (snd (bf_contains_and_insert f h0 h1)) /\ same_cfg f (snd (bf_contains_and_insert f h0 h1))) /\
  (wf (bf_reset f) /\ same_cfg f (bf_reset f)) /\
  (exists g, bf_invert f = Ok g /\ wf g /\ same_cfg f g) /\
  (forall g, wf g -> bf_is_compatible f g = true ->
     (exists u, bf_union f g = Ok u /\ wf u /\ same_cfg f u) /\ (exists i, bf_intersect f g = Ok i /\ wf i /\ same_cfg f i)) /\
  bf_deserialize (bf_serialize f) = Ok f /\
  bf_used f + 1 < 2 ^ 64 /\ 0 < bf_capacity f /\
  (forall h0 h1 p, In p (item_positions f h0 h1) -> p / 64 < N.of_nat (length (bf_words f))).
Proof. exact wf_ops_safe. Qed.

(* the builder accepts exactly its documented ranges *)
Theorem c17_bloom_builder_in_range :
  forall num_bits nh seed, size_ok num_bits nh seed ->
  bf_with_size num_bits nh seed = Ok (fresh num_bits nh seed) /\
  Rep (fresh num_bits nh seed) (fun _ => False) /\
  bf_capacity (fresh num_bits nh seed) = 64 * div_ceil num_bits 64.
Proof. exact with_size_rep. Qed.

(* non-vacuity: the extremes - 1 bit with 32767 hash functions and seed 2^64-1: filled by one insert, inverted, round-tripped *)
Example c17_bloom_example :
  size_ok 1 32767 18446744073709551615 /\
  exists f, eval 1 32767 18446744073709551615 (HRoundtrip (HInvert (HInsert HNew 5 3))) = Ok f /\ bf_capacity f = 64.
Proof.
  split; [vm_compute; repeat split; discriminate|].
  destruct (hist_never_stuck 1 32767 18446744073709551615) with (h := HRoundtrip (HInvert (HInsert HNew 5 3))) as (f & E & Hwf).
  { vm_compute; repeat split; discriminate. }
  exists f. split; [exact E|].
  destruct (hist_refines_set 1 32767 18446744073709551615) with (h := HRoundtrip (HInvert (HInsert HNew 5 3))) as (f' & E' & _ & _ & _ & _ & Hc).
  { vm_compute; repeat split; discriminate. }
  rewrite E in E'. injection E' as <-. rewrite Hc. reflexivity.
Qed.
