(* C13, Frequent Items (i64 items) -- every image variant Java/C++ can emit is read back to the
   state it encodes.  Statements only; proofs in Proofs/FreqCodec.v.

   [enc_spec v a] (Spec/FreqLayout.v, written from the format description) is the image a foreign
   writer produces for the abstract state [a] = (lg_max, lg_cur, stream weight, offset, counters)
   using the liberties [v]: the two top bits of byte 0 (readers mask the preamble-longs field with
   0x3F), any flags byte that sets bit 0 or bit 2 (1, 4, 5, ...) for the one-long empty form and
   any that clears both for the four-long form, arbitrary contents of the unused fields, the
   four-long form with active_items = 0 for a sketch without stream weight, lg_cur < lg_max, and
   the counters in any order (the order of the list).
   [abs_wf a]: 3 <= lg_cur <= lg_max <= 62, distinct i64 items with positive counts, no more
   counters than 3/4 * 2^lg_cur (so no resize or purge runs while loading) and fewer than 2^32,
   offset + counters <= stream weight < 2^64. *)
From DS Require Import Base.Prelude Model.Freq Spec.FreqLayout Proofs.FreqProofs Proofs.FreqTable Proofs.FreqCodec.
From Coq Require Import Permutation.
Open Scope N_scope.

(* the reader accepts the image and the sketch holds exactly the encoded state: same lg sizes,
   weight, offset, the same counters as a finite map (a permutation of the pairs; every lookup
   returns the encoded count, hence estimate / lower_bound / upper_bound), and it is well-formed
   (so it re-serializes, round-trips and merges as that state requires: C11, C12) *)
Theorem c13_freq_reads_spec :
  forall H v a, abs_wf a -> variant_ok v a ->
  exists s, fc_deserialize (enc_spec v a) (map H (map fst (a_counters a))) = Ok s /\
            abs_same a (abs_fc s) /\ fc_wf H s /\ tinv H (fc_map s) /\
            (forall k, rp_get (fc_map s) k (H k) = cs_get (a_counters a) k).
Proof. exact reads_spec. Qed.

(* and the layout decoder reads the same image back to the same state (the two readers agree) *)
Theorem c13_freq_spec_reads_spec :
  forall v a, abs_wf a -> variant_ok v a -> spec_decode (enc_spec v a) = Some a.
Proof. exact spec_decode_enc_spec. Qed.

(* non-vacuity: top bits set, flag 4 only, garbage in the unused fields; and the four-long form
   with active_items = 0 for a sketch that has weight and offset but no counters *)
Example c13_freq_example :
  let a := mkFA 5 3 40 2 [(7%Z, 30); ((-1)%Z, 8)] in
  let v := mkV 3 0xFA 0xBEEF 0xDEADBEEF true in
  abs_wf a /\ variant_ok v a /\
  (exists s, fc_deserialize (enc_spec v a) [12; 11] = Ok s /\ abs_fc s = mkFA 5 3 40 2 [((-1)%Z, 8); (7%Z, 30)]) /\
  let a0 := mkFA 4 4 35 5 [] in
  abs_wf a0 /\ variant_ok (mkV 1 0 0 0 true) a0 /\
  exists s, fc_deserialize (enc_spec (mkV 1 0 0 0 true) a0) [] = Ok s /\ abs_fc s = a0.
Proof. exact ex_foreign. Qed.
