(* C12 theta part -- being written *)
From DS Require Import Base.Prelude Model.Theta Model.ThetaCodec Spec.ThetaLayout.
