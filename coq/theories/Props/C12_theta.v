(* C12, theta part -- the compact theta images follow the cross-language layout.  Statements only;
   proofs in Proofs/ThetaLayoutProofs.v.

   Spec/ThetaLayout.v is the format as the Java/C++ libraries define it (DESIGN.md Appendix A),
   written independently of the Rust code: [dec_spec sh bytes] the decoder to the abstract compact
   sketch [tabs], [enc_spec v a] the encoder of every variant (V1, V2, V3 with/without the
   SINGLE_ITEM flag, V4: one big-endian bit stream of entry_bits-bit deltas).  [dec_spec] rejects a
   preamble-longs byte outside 1..3 (as the crate does), then reads the image ([dec_spec_body]). *)
From DS Require Import Base.Prelude Base.BitExp Model.Theta Model.ThetaCodec Spec.ThetaLayout.
From DS Require Import Proofs.ThetaCodec Proofs.ThetaLayoutProofs.
Open Scope N_scope.

(* model_enc_conforms: the independent decoder recovers exactly the abstract state from what the
   writers emit *)
Theorem c12_theta_writer_conforms :
  forall sh c, c_wf sh c -> dec_spec sh (c_serialize c) = Some (abs_of c).
Proof. exact ep_writer_conforms. Qed.

Theorem c12_theta_compressed_writer_conforms :
  forall sh c bs, c_wf sh c -> c_serialize_compressed c = Ok bs -> dec_spec sh bs = Some (abs_of c).
Proof. exact ep_compressed_writer_conforms. Qed.

(* more precisely the emitted bytes ARE the specification's encoding: the blocks of 8 deltas
   (unrolled packers) followed by the BitPacker tail are one continuous bit stream *)
Theorem c12_theta_v3_bytes_are_spec :
  forall sh c, c_wf sh c -> c_serialize c = enc_v3 false (abs_of c).
Proof. exact model_v3_is_spec. Qed.

Theorem c12_theta_v4_bytes_are_spec :
  forall sh c, c_wf sh c -> c_is_suitable_for_compression c = true -> c_serialize_v4 c = Ok (enc_v4 (abs_of c)).
Proof. exact model_v4_is_spec. Qed.

(* dec_spec_enc_spec: the specification is consistent (its decoder inverts its encoder) *)
Theorem c12_theta_spec_roundtrip_v3 :
  forall sh sf a, abs_okb a = true -> dec_spec_body sh (enc_v3 sf a) = Some a.
Proof. exact spec_roundtrip_v3. Qed.

Theorem c12_theta_spec_roundtrip_v4 :
  forall sh a, abs_okb a = true -> expressible V4 a = true -> dec_spec_body sh (enc_v4 a) = Some a.
Proof. exact spec_roundtrip_v4. Qed.

(* ... for every variant (serVer 1 and 2 included) *)
Theorem c12_theta_spec_roundtrip :
  forall sh v a, abs_okb a = true -> expressible v a = true -> a_seed_hash a = sh ->
  dec_spec sh (enc_spec v a) = Some a.
Proof. exact ep_spec_roundtrip. Qed.

(* the sequential reading of the bit stream (what dec_spec executes) is the positional one *)
Theorem c12_theta_fields_seq_field :
  forall cnt w bs, (cnt * w <= 8 * length bs)%nat -> fields_seq cnt w (bits_of bs) = map (field w bs) (seq 0 cnt).
Proof. exact fields_seq_field. Qed.

(* layout_glue: the constants the crate uses (re-read from the source on this run) are the specification's *)
Theorem c12_theta_constants :
  S_MAX_THETA = MAX_THETA /\ S_FAMILY_THETA = zN Gen.GenCodec.FAMILY_THETA_ID /\
  S_READ_ONLY = zN Gen.GenTheta.FLAGS_IS_READ_ONLY /\ S_EMPTY = zN Gen.GenTheta.FLAGS_IS_EMPTY /\
  S_COMPACT = zN Gen.GenTheta.FLAGS_IS_COMPACT /\ S_ORDERED = zN Gen.GenTheta.FLAGS_IS_ORDERED /\
  zN Gen.GenTheta.UNCOMPRESSED_SERIAL_VERSION = 3 /\ zN Gen.GenTheta.COMPRESSED_SERIAL_VERSION = 4 /\
  zN Gen.GenCodec.FAMILY_THETA_MIN_PRE_LONGS = 1 /\ zN Gen.GenCodec.FAMILY_THETA_MAX_PRE_LONGS = 3 /\
  zN Gen.GenTheta.V2_PREAMBLE_EMPTY = 1 /\ zN Gen.GenTheta.V2_PREAMBLE_PRECISE = 2 /\ zN Gen.GenTheta.V2_PREAMBLE_ESTIMATE = 3 /\
  BLOCK_WIDTH = 8.
Proof. exact layout_constants. Qed.

Example c12_theta_example :
  let c := mkC [5; 100; 1000; 70000; 70001; 9000000000; 9000000001; 9000000002; 9000000007;
                2305843009213693952; 2305843009213693953] 4611686018427387904 12345 true false in
  c_serialize_v4 c = Ok (enc_v4 (abs_of c)) /\ dec_spec 12345 (enc_v4 (abs_of c)) = Some (abs_of c) /\
  nth 3 (enc_v4 (abs_of c)) 0 = 61 /\ abs_okb (abs_of c) = true.
Proof. vm_compute. repeat split; reflexivity. Qed.
