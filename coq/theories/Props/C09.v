(* C09 - Bloom filter: no false negatives; the bits are exactly the reference hash positions;
   bits_used is the population count; the codec round-trips.
   Statements only; proofs are in Proofs/BloomProofs.v (and Proofs/BloomBits.v).

   Setting.  The model (Model/Bloom.v) takes the two XXH64 digests (h0, h1) of an item as
   inputs; the theorems quantify over ARBITRARY digests, so they hold for the crate's
   h0 = XXH64(item, seed), h1 = XXH64(item, h0) in particular (the hasher is C16's subject;
   the correspondence check feeds the items to the crate and the reference digests to the
   model).  A filter is created by with_size(num_bits, nh).seed(seed) in the builder's ranges
   ([size_ok]); its capacity is [cap num_bits] = 64 * ceil(num_bits / 64).

   "All histories": [hist] is the type of expressions built from a fresh filter by insert,
   contains_and_insert, union, intersect (both operands are histories again), invert, reset
   and serialize-then-deserialize.  [eval] runs a history on the model; [denote] is the Spec:
   the SET of bit positions the history stands for; [member] lists the items whose
   membership a history guarantees (inserted; in either operand of a union; in both
   operands of an intersect; nothing survives invert / reset).

   The statistical claim of C09 (measured false-positive rate near p for with_accuracy(n, p))
   has no theorem: it is a statement about the distribution of XXH64 outputs and about the
   ln-based sizing.  It is only measured (tools/families/bloom.py, bloom-fpp cases). *)
From DS Require Import Base.Prelude Model.Bloom Proofs.BloomProofs.
Open Scope N_scope.

(* (d) every index computed by compute_bit_index lies inside the array *)
Theorem c09_position_range :
  forall cap nh h0 h1 p, 0 < cap -> In p (positions cap nh h0 h1) -> p < cap.
Proof. exact positions_range. Qed.

(* ... and the indices are the property's formula ((h0 + i*h1) mod 2^64 >> 1) mod capacity, i = 1..num_hashes *)
Theorem c09_positions_formula :
  forall cap nh h0 h1 p,
  In p (positions cap nh h0 h1) <->
  exists i, 1 <= i <= nh /\ p = ((h0 + i * h1) mod 2 ^ 64 / 2) mod cap.
Proof. exact positions_formula. Qed.

(* every history runs (no panic, no error) and yields a well-formed filter of the configured shape
   whose bits are exactly the history's position set *)
Theorem c09_history_refines_set :
  forall num_bits nh seed, size_ok num_bits nh seed ->
  forall h : hist, exists f,
    eval num_bits nh seed h = Ok f /\
    (forall p, get_bit (bf_words f) p = true <-> denote num_bits nh h p) /\
    wf f /\ bf_nh f = nh /\ bf_seed f = seed /\ bf_capacity f = cap num_bits.
Proof. exact hist_refines_set. Qed.

(* (a) plain streams: after ANY sequence of insert / contains_and_insert calls (the boolean says
   which of the two was used) the set bits are exactly the positions of the items of the stream *)
Theorem c09_bits_exact :
  forall num_bits nh seed, size_ok num_bits nh seed ->
  forall items : list (bool * (N * N)),
  let f := fold_left stream_step items (fresh num_bits nh seed) in
  forall p, get_bit (bf_words f) p = true <->
            exists cai h0 h1, In (cai, (h0, h1)) items /\ In p (pos_of num_bits nh h0 h1).
Proof. exact stream_bits_exact. Qed.

(* contains answers exactly "all positions of the item are in the set" (the empty shortcut included) *)
Theorem c09_contains_exact :
  forall num_bits nh seed, size_ok num_bits nh seed ->
  forall h f h0 h1, eval num_bits nh seed h = Ok f ->
  (bf_contains f h0 h1 = true <-> forall p, In p (pos_of num_bits nh h0 h1) -> denote num_bits nh h p).
Proof. exact hist_contains. Qed.

(* (b) no false negatives: inserted items are contained - also items inserted into either operand of a
   union, items inserted into both operands of an intersect, and after serialize/deserialize *)
Theorem c09_no_false_negatives :
  forall num_bits nh seed, size_ok num_bits nh seed ->
  forall h f h0 h1, eval num_bits nh seed h = Ok f -> member h (h0, h1) -> bf_contains f h0 h1 = true.
Proof. exact hist_no_false_negative. Qed.

(* (c) after every history bits_used is the number of set positions of the array (counted position by
   position through get_bit) and equals the word-wise popcount; (e) the filter survives the codec *)
Theorem c09_bits_used_is_popcount :
  forall num_bits nh seed, size_ok num_bits nh seed ->
  forall h f, eval num_bits nh seed h = Ok f ->
  bf_used f = N.of_nat (length (filter (get_bit (bf_words f)) (all_positions f))) /\
  bf_used f = popcount_words (bf_words f) /\
  bf_deserialize (bf_serialize f) = Ok f.
Proof. exact hist_bits_used. Qed.

(* (c) invert: bits_used becomes capacity - bits_used *)
Theorem c09_invert_bits_used :
  forall num_bits nh seed, size_ok num_bits nh seed ->
  forall h f g, eval num_bits nh seed h = Ok f -> eval num_bits nh seed (HInvert h) = Ok g ->
  bf_used g = cap num_bits - bf_used f.
Proof. exact hist_invert_used. Qed.

(* (e) round trip for EVERY filter satisfying the codec's side conditions (not only reachable ones:
   fields in range and the count equal to the word-wise popcount, which the reader verifies) ... *)
Theorem c09_roundtrip :
  forall f, codec_ok f -> bf_deserialize (bf_serialize f) = Ok f.
Proof. exact roundtrip. Qed.

(* ... which every well-formed filter satisfies *)
Theorem c09_wf_codec_ok : forall f, wf f -> codec_ok f.
Proof. exact wf_codec_ok. Qed.

(* the single-operation refinement steps the history theorem is composed of (usable on any
   well-formed filters, e.g. deserialized ones) *)
Theorem c09_union_is_set_union :
  forall a b S T, Rep a S -> Rep b T -> bf_is_compatible a b = true ->
  exists c, bf_union a b = Ok c /\ Rep c (fun p => S p \/ T p) /\ same_cfg a c.
Proof. exact union_rep. Qed.

Theorem c09_intersect_is_set_intersection :
  forall a b S T, Rep a S -> Rep b T -> bf_is_compatible a b = true ->
  exists c, bf_intersect a b = Ok c /\ Rep c (fun p => S p /\ T p) /\ same_cfg a c.
Proof. exact intersect_rep. Qed.

(* contains_and_insert reports the membership BEFORE the insertion and then inserts *)
Theorem c09_contains_and_insert_result :
  forall f S h0 h1, Rep f S ->
  let '(b, f') := bf_contains_and_insert f h0 h1 in
  (b = true <-> forall p, In p (item_positions f h0 h1) -> S p) /\
  Rep f' (fun p => S p \/ In p (item_positions f h0 h1)) /\ same_cfg f f'.
Proof. exact contains_and_insert_rep. Qed.

(* non-vacuity: a concrete history over a 100-bit request (capacity 128, 3 hashes) with a collision
   between two items (position 16), a union, a round trip; and one with invert *)
Example c09_example :
  let h := HRoundtrip (HUnion (HInsert (HInsert HNew 11 7) 5 9) (HContainsAndInsert HNew 100 3)) in
  size_ok 100 3 9001 /\
  exists f, eval 100 3 9001 h = Ok f /\ bf_capacity f = 128 /\ bf_used f = 8 /\
            bf_contains f 11 7 = true /\ bf_contains f 100 3 = true /\ bf_contains f 1 1 = false /\
            exists g, eval 100 3 9001 (HInvert h) = Ok g /\ bf_used g = 120 /\ bf_contains g 11 7 = false.
Proof.
  split; [vm_compute; repeat split; discriminate|].
  eexists. split; [vm_compute; reflexivity|]. repeat split.
  eexists. split; [vm_compute; reflexivity|]. repeat split.
Qed.
