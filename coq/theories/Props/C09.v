(* C09 - Bloom filter.  Statements only; proofs are in Proofs/BloomProofs.v. *)
From DS Require Import Base.Prelude Model.Bloom Proofs.BloomProofs.
Open Scope N_scope.

Theorem c09_position_range :
  forall cap nh h0 h1 p, 0 < cap -> In p (positions cap nh h0 h1) -> p < cap.
Proof. exact positions_range. Qed.
