(* C14, Count-Min part — "any value returned as Ok can be queried, updated, merged and re-serialized
   without panicking".  Statements only (the totality / shape statements are in Props/C14.v). *)
From DS Require Import Base.Prelude Model.CountMin Proofs.CountMinProofs Proofs.CountMinCodec Proofs.CountMinApi.
Open Scope N_scope.

(* whatever the (repaired) reader accepts has every counter bounded by its total weight: the
   invariant under which updates and merges cannot overflow the counter type while the total fits *)
Theorem c14_countmin_ok_counters_bounded :
  forall mx sh bs s, cm_deserialize mx sh bs = Ok s -> Forall (fun c => c <= cm_total s) (cm_counts s).
Proof. exact deserialize_ok_bounded. Qed.

(* hence ANY valid program (updates, merges, halve, decay, round trips, queries) over sketches deserialized
   from ARBITRARY bytes (leaf PImage bs; compatible = the accepted image has the program's configuration;
   the weights fed in, counting every accepted image's total weight, fit the counter type) never reaches a
   panic site: an image leaf may be rejected (Err), nothing is ever Stuck *)
Theorem c14_countmin_ok_value_is_usable :
  forall nh nb mx sh, 1 <= nh < 256 -> 3 <= nb < 4294967296 -> nh * nb < zN Gen.GenCountMin.MAX_TABLE_ENTRIES ->
  sh < 65536 -> mx < M64 ->
  forall bucket : N -> N -> N, (forall x r, bucket x r < nb) ->
  forall p : prog, pok nh nb mx sh p -> pweight mx sh p <= mx -> eval nh nb mx sh bucket p <> Stuck.
Proof. exact api_never_stuck. Qed.

(* non-vacuity: the u8 image with total weight 1 and a counter of 255 (accepted before the repair; the next
   update of weight 1 then overflowed the counter) is rejected; the same table with total 255 is accepted and
   a program using it runs *)
Example c14_countmin_example :
  let hdr := [2; 1; 18; 0; 0; 0; 0; 0; 3; 0; 0; 0; 1; 7; 0; 0] in
  let cell v := [v; 0; 0; 0; 0; 0; 0; 0] in
  cm_deserialize 255 7 (hdr ++ cell 1 ++ cell 255 ++ cell 0 ++ cell 0) = Err /\
  exists s, eval 1 3 255 7 (fun x r => (x + r) mod 3) (PHalve (PUpd (PImage (hdr ++ cell 255 ++ cell 255 ++ cell 0 ++ cell 0)) 4 0)) = Ok s /\
            cm_total s = 127.
Proof. split; [vm_compute; reflexivity|]. eexists. split; [vm_compute; reflexivity|reflexivity]. Qed.
