(* C14, Count-Min part — "any value returned as Ok can be queried, updated, merged and re-serialized
   without panicking".  Statements only (the totality / shape statements are in Props/C14.v). *)
From DS Require Import Base.Prelude Model.CountMin Proofs.CountMinProofs Proofs.CountMinCodec Proofs.CountMinApi.
Open Scope N_scope.

(* whatever the (repaired) reader accepts has every counter bounded by its total weight: the
   invariant under which updates and merges cannot overflow the counter type while the total fits *)
Theorem c14_countmin_ok_counters_bounded :
  forall mx sh bs s, cm_deserialize mx sh bs = Ok s -> Forall (fun c => c <= cm_total s) (cm_counts s).
Proof. exact deserialize_ok_bounded. Qed.

(* hence ANY valid program (updates, merges, halve, decay, round trips, queries) over sketches deserialized
   from ARBITRARY bytes (leaf PImage bs; compatible = the accepted image has the program's configuration;
   the weights fed in, counting every accepted image's total weight, fit the counter type) never reaches a
   panic site: an image leaf may be rejected (Err), nothing is ever Stuck *)
Theorem c14_countmin_ok_value_is_usable :
  forall nh nb mx sh, 1 <= nh < 256 -> 3 <= nb < 4294967296 -> nh * nb < zN Gen.GenCountMin.MAX_TABLE_ENTRIES ->
  0 < sh < 65536 -> mx < M64 ->
  forall bucket : N -> N -> N, (forall x r, bucket x r < nb) ->
  forall p : prog, pok nh nb mx sh p -> pweight mx sh p <= mx -> eval nh nb mx sh bucket p <> Stuck.
Proof. exact api_never_stuck. Qed.

(* the reader of the SIGNED counter types (cells are i64; [cm_deserialize_sg true]): total for any bytes, never
   Stuck; what it keeps is exactly what the plain reader returns, and conversely (T::MAX < 2^63); images it
   accepts but that hold a negative counter are reported as [Ok None] (outside the model, dropped by the harness);
   a counter equal to T::MIN is always rejected (|T::MIN| exceeds every total weight) *)
Theorem c14_countmin_signed_reader_never_stuck :
  forall sg mx sh bs, cm_deserialize_sg sg mx sh bs <> Stuck.
Proof. exact deserialize_sg_never_stuck. Qed.

Theorem c14_countmin_signed_reader_agrees :
  forall sg mx sh bs s, (sg = true -> mx < 9223372036854775808) ->
  (cm_deserialize_sg sg mx sh bs = Ok (Some s) <-> cm_deserialize mx sh bs = Ok s).
Proof. exact deserialize_sg_agrees. Qed.

Theorem c14_countmin_unsigned_reader_same :
  forall mx sh bs,
  cm_deserialize_sg false mx sh bs = match cm_deserialize mx sh bs with Ok s => Ok (Some s) | Err => Err | Stuck => Stuck end.
Proof. exact deserialize_sg_unsigned. Qed.

(* non-vacuity: the u8 image with total weight 1 and a counter of 255 (accepted before the repair; the next
   update of weight 1 then overflowed the counter) is rejected; the same table with total 255 is accepted and
   a program using it runs *)
Example c14_countmin_example :
  let hdr := [2; 1; 18; 0; 0; 0; 0; 0; 3; 0; 0; 0; 1; 7; 0; 0] in
  let cell v := [v; 0; 0; 0; 0; 0; 0; 0] in
  cm_deserialize 255 7 (hdr ++ cell 1 ++ cell 255 ++ cell 0 ++ cell 0) = Err /\
  exists s, eval 1 3 255 7 (fun x r => (x + r) mod 3) (PHalve (PUpd (PImage (hdr ++ cell 255 ++ cell 255 ++ cell 0 ++ cell 0)) 4 0)) = Ok s /\
            cm_total s = 127.
Proof. split; [vm_compute; reflexivity|]. eexists. split; [vm_compute; reflexivity|reflexivity]. Qed.

(* i8: a counter cell of T::MIN = -128 (pattern 0x..ff80) is rejected even with total weight T::MAX; -127 is
   accepted with total 127 but holds a negative counter (outside the model); without it the image is kept *)
Example c14_countmin_signed_example :
  let hdr := [2; 1; 18; 0; 0; 0; 0; 0; 3; 0; 0; 0; 1; 7; 0; 0] in
  let cell v := [v; 0; 0; 0; 0; 0; 0; 0] in
  let neg v := [v; 255; 255; 255; 255; 255; 255; 255] in
  cm_deserialize_sg true 127 7 (hdr ++ cell 127 ++ neg 128 ++ cell 0 ++ cell 0) = Err /\
  cm_deserialize_sg true 127 7 (hdr ++ cell 127 ++ neg 129 ++ cell 0 ++ cell 0) = Ok None /\
  cm_deserialize_sg true 127 7 (hdr ++ cell 127 ++ cell 127 ++ cell 0 ++ cell 0) = Ok (Some (mkCm 1 3 127 7 127 [127; 0; 0])).
Proof. vm_compute. repeat split. Qed.
