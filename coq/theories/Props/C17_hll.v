(* C17, HLL part -- no valid sequence of public API calls panics (debug or release).
   Statements only; proofs in Proofs/HllSafe.v (restatements of the C02 / C03 / C11 / C14 theorems).
   The models return [Stuck] at every panic site they can reach: the assert of HllSketch::new /
   HllUnion::new (lg_k outside 4..=21), HashSet::update's unreachable!("HashSet full"), AuxMap's three
   unreachable!()s, Array4::update's expect()s / unreachable!() / num_at_cur_min underflow, the
   debug_assert!s of shift_to_bigger_cur_min (repaired defect D10: the assertion was inverted), the
   shift loop running out of its 64 rounds, the asserts and unreachable!()s of the union's merge
   helpers.  Fixed-width arithmetic is not modelled: every quantity is bounded by the proved
   invariants (register values <= 63, counts <= 2^21) far below u8/u32.
   NOT COVERED by any theorem: estimate() / upper_bound() / lower_bound() of HllSketch and of
   HllUnion.  Their panic sites (the debug_assert!s of cubic_interpolation, the slice indexing of
   composite_interpolation / harmonic_numbers, get_rel_err's table lookups) have no Stuck counterpart:
   the model's hll_estimate is a total function and the composite estimator is not modelled.  They
   are exercised by the correspondence run only (estimate and the three bounds after every phase of
   the extremes leg, lg_k 4 and 21, all types, debug and release, panic_is_violation).
   Sketches obtained from the reader are covered through the bridge (canonical images only). *)
From DS Require Import Base.Prelude Model.Hll Model.HllUnion Model.HllCodec Proofs.HllBase Proofs.HllArray4 Proofs.HllRefine
  Proofs.HllUnionProofs Proofs.HllCodecProofs Proofs.HllSafe.
Open Scope N_scope.

(* the one documented panic: new() outside 4..=21 *)
Theorem c17_hll_new_precondition : forall lgk t, hll_new lgk t = Stuck <-> ~ (4 <= lgk <= 21).
Proof. exact new_stuck_iff. Qed.

(* updates never panic: every lg_k in 4..21 (the extremes included), every type, every coupon stream *)
Theorem c17_hll_updates_never_stuck :
  forall lgk t cs, 4 <= lgk <= 21 -> Forall valid cs ->
  exists s, run_stream hip_new hip_update hip_carry lgk t cs = Ok s.
Proof. exact updates_never_stuck. Qed.

(* the shift loop of Array4 (and its debug assertions) under the invariant *)
Theorem c17_hll_array4_shift_never_stuck :
  forall E lgk regs (a : arr4 E), 4 <= lgk <= 21 -> Inv4 lgk regs a -> a4_num a = 0 ->
  exists a', a4_shift_to_bigger_cur_min a = Ok a' /\ Inv4 lgk regs a' /\
             a4_cur_min a' = a4_cur_min a + 1 /\ a4_est a' = a4_est a.
Proof. exact Proofs.HllC02.array4_inv_shift. Qed.

(* unions: update with any well-formed sketch (any lg_k, type, mode, in or out of order), update_value,
   reset in any order, then to_sketch(t) *)
Theorem c17_hll_union_never_stuck :
  forall lg_max ops t, 4 <= lg_max <= 21 -> Forall uop_ok ops ->
  exists u0 u r, union_new lg_max = Ok u0 /\ uops_run ops u0 = Ok u /\ union_to_sketch u t = Ok r.
Proof. exact union_never_stuck. Qed.

(* serialize and deserialize: never a panic site; the image of a reachable sketch is accepted whenever
   its estimator fields pass the reader's finiteness check (est_ok: a hypothesis, see C11_hll.v) *)
Theorem c17_hll_roundtrip_never_stuck :
  forall lgk t cs, 4 <= lgk <= 21 -> Forall valid cs ->
  exists s, run_stream hip_new hip_update hip_carry lgk t cs = Ok s /\ hll_deserialize (hll_serialize s) <> Stuck /\
    (est_ok s -> exists s', hll_deserialize (hll_serialize s) = Ok s').
Proof. exact roundtrip_never_stuck. Qed.

(* what the reader returns (canonical images) can be updated further and merged: never stuck *)
Theorem c17_hll_deserialized_updates_never_stuck :
  forall bs s us, BOK bs -> hll_deserialize bs = Ok s -> image_canonical s -> Forall valid us ->
  exists s', update_all hip_new hip_update hip_carry us s = Ok s'.
Proof. exact deserialized_updates_never_stuck. Qed.

Theorem c17_hll_deserialized_is_union_input :
  forall bs s, BOK bs -> hll_deserialize bs = Ok s -> image_canonical s -> exists i, uop_ok (UMerge i s).
Proof. exact deserialized_is_union_input. Qed.

Theorem c17_hll_deserialize_never_stuck : forall bs, hll_deserialize bs <> Stuck.
Proof. exact hll_deserialize_total. Qed.

(* non-vacuity: lg_k 4 and lg_k 21 are in range, the example streams are valid *)
Example c17_hll_example : 4 <= 4 <= 21 /\ 4 <= 21 <= 21 /\ Forall valid Proofs.HllC02.ex_stream.
Proof. split; [lia|]. split; [lia|]. exact (proj1 Proofs.HllC02.ex_stream_valid). Qed.
