(* C03 -- HLL union = sketch of the combined streams.  Statements only (being built). *)
From DS Require Import Base.Prelude Model.Hll Model.HllUnion.
Open Scope N_scope.
