(* C03 -- HLL union equals the sketch of the combined streams, whatever the input shapes.
   Statements only; proofs are in Proofs/HllUnionProofs.v.

   Reading guide.
   Model/HllUnion.v mirrors hll/union.rs function by function (update dispatch, copy_or_downsample,
   merge_array_same_lgk / with_downsample, gadget shrink, promote-and-merge, to_sketch with
   convert_array8_to_type, reset, update_value) and the Array8 bulk functions of hll/array8.rs
   (rebuild_cached_values ...) over the HIP estimator state (hip_accum, kxq0, kxq1, out-of-order).
   It models the REPAIRED code: /repo commits "fix: HllUnion reported estimate 0 after copying an
   out-of-order Hll4/Hll6 sketch" (D3) and "fix: HllUnion::to_sketch(Hll4/Hll6) dropped the
   gadget's out-of-order flag and estimator state" (D2); known_findings.d/D3-*, D2-*; and e763c00 (the copy of
   an in-order Hll8 source kept a HIP accumulator although out of order; C11-hll-union-copy-hip-accum).

   An abstract input [ainput] = (lg_k, array-mode flag, coupon list).  [SrcOK lg_k arr cs s]: the
   source sketch s represents it -- in list/set mode its container holds exactly the coupons of cs
   (with the C02 invariants), in array mode (Hll4, Hll6 or Hll8) register j = spec_regs lg_k cs j;
   ANY estimator state (in order or out of order).  SrcOK is PROVED for: sketches built by
   HllSketch::new + updates (c03_stream_is_source), their out-of-order copies
   (c03_estimator_state_irrelevant), results of HllUnion::to_sketch
   (c03_to_sketch_type_independent) and sketches returned by HllSketch::deserialize for canonical
   images, i.e. every image the crate / Java / C++ writes (c03_deserialized_is_source).  NOT covered:
   accepted NON-canonical images (a set image with fewer than 8 coupons, an Hll4 image with no
   register at cur_min) -- merged by the oracle only.  [uop] = UMerge i s | UValue c | UReset.
   Spec: [spec_run lg_max ops] = (harr, lg, cs) since the last reset: harr = some non-empty
   array-mode input was merged; lg = min (lg_max, lg_k of those inputs); cs = all coupons merged.
   [union_shows lg_max harr lg cs g]: gadget g (always Hll8) has lg_k = lg; it is in array mode iff
   harr or the number of distinct coupons passed the promotion threshold of lg_max, and then
   register j = max value over the coupons of cs folded to slot j mod 2^lg; otherwise lg = lg_max
   and its container holds exactly the distinct coupons of cs. *)
From DS Require Import Base.Prelude Model.Hll Model.HllUnion Model.HllCodec Proofs.HllBase Proofs.HllRefine Proofs.HllUnionProofs Proofs.HllUnionAssoc
  Proofs.HllCodecProofs.
Open Scope N_scope.

(* ---- union_refines, with update_value and reset interleaved (union_interleave): for all lg_max
   in 4..21 and all sequences of operations on well-formed inputs the union never reaches a panic
   site and shows exactly the Spec state (to_sketch is a pure function of that state) *)
Theorem c03_union_refines :
  forall lg_max ops, 4 <= lg_max <= 21 -> Forall uop_ok ops ->
  exists u0 u, union_new lg_max = Ok u0 /\ uops_run ops u0 = Ok u /\
    let '(harr, lg, cs) := spec_run lg_max ops (false, lg_max, []) in
    union_shows lg_max harr lg cs (un_gadget u) /\ un_lg_max u = lg_max.
Proof. exact union_refines. Qed.

(* ---- commutative, idempotent: two unions fed sketches of the same SET of abstract inputs -- in
   any order, with any repetition, each input represented by any sketch (any type, in or out of
   order) -- show the same lg_k, mode, coupon set / registers *)
Theorem c03_union_order_independent :
  forall lg_max l l', 4 <= lg_max <= 21 ->
  Forall uop_ok (merges l) -> Forall uop_ok (merges l') ->
  (forall i, In i (map fst l) <-> In i (map fst l')) ->
  exists u0 u u', union_new lg_max = Ok u0 /\ uops_run (merges l) u0 = Ok u /\ uops_run (merges l') u0 = Ok u' /\
    sk_lgk (un_gadget u) = sk_lgk (un_gadget u') /\ sk_tag (un_gadget u) = sk_tag (un_gadget u') /\
    sk_len (un_gadget u) = sk_len (un_gadget u') /\
    (forall c, In c (sk_coupons (un_gadget u)) <-> In c (sk_coupons (un_gadget u'))) /\
    (forall j, j < 2 ^ sk_lgk (un_gadget u) -> sk_reg (un_gadget u) j = sk_reg (un_gadget u') j).
Proof. exact union_order_independent. Qed.

(* ---- to_sketch(t) does not depend on t: same lg_k, mode, coupons / registers and the SAME
   estimator inputs (hip_accum, kxq0, kxq1, out-of-order flag, number of unhit registers), hence
   bit-identical estimate and bounds; and the result is a well-formed source representing the
   union's Spec state (associativity: a union's result can be merged into another union and
   c03_union_refines applies to it) *)
Theorem c03_to_sketch_type_independent :
  forall lg_max ops t, 4 <= lg_max <= 21 -> Forall uop_ok ops ->
  exists u0 u r r8, union_new lg_max = Ok u0 /\ uops_run ops u0 = Ok u /\
    union_to_sketch u t = Ok r /\ union_to_sketch u T8 = Ok r8 /\ sk_tgt r = t /\
    sk_lgk r = sk_lgk r8 /\ sk_tag r = sk_tag r8 /\ sk_len r = sk_len r8 /\
    sk_est_inputs r = sk_est_inputs r8 /\
    (forall c, In c (sk_coupons r) <-> In c (sk_coupons r8)) /\
    (forall j, j < 2 ^ sk_lgk r -> sk_reg r j = sk_reg r8 j) /\
    let '(harr, lg, cs) := spec_run lg_max ops (false, lg_max, []) in
    SrcOK lg (match sk_tag (un_gadget u) with TagArray => true | _ => false end) cs r.
Proof. exact to_sketch_type_independent. Qed.

(* ---- associative: the result of a union over A, taken with to_sketch(t) for ANY t and merged into a
   fresh union followed by the operations B, shows the same lg_k, mode, coupons / registers as one union
   fed A then B (the result sketch represents the first union's Spec state: it is a well-formed input) *)
Theorem c03_union_associative :
  forall lg_max A B t, 4 <= lg_max <= 21 -> Forall uop_ok A -> Forall uop_ok B ->
  exists u0 uA r uAB u2, union_new lg_max = Ok u0 /\ uops_run A u0 = Ok uA /\ union_to_sketch uA t = Ok r /\
    uops_run (A ++ B) u0 = Ok uAB /\
    (let '(hA, lA, cA) := spec_run lg_max A (false, lg_max, []) in
     uop_ok (UMerge (mkIn lA (tag_flag (sk_tag (un_gadget uA))) cA) r) /\
     uops_run (UMerge (mkIn lA (tag_flag (sk_tag (un_gadget uA))) cA) r :: B) u0 = Ok u2) /\
    sk_lgk (un_gadget uAB) = sk_lgk (un_gadget u2) /\ sk_tag (un_gadget uAB) = sk_tag (un_gadget u2) /\
    sk_len (un_gadget uAB) = sk_len (un_gadget u2) /\
    (forall c, In c (sk_coupons (un_gadget uAB)) <-> In c (sk_coupons (un_gadget u2))) /\
    (forall j, j < 2 ^ sk_lgk (un_gadget uAB) -> sk_reg (un_gadget uAB) j = sk_reg (un_gadget u2) j).
Proof. exact union_associative. Qed.

(* ---- union_nonzero.  Full statement (NOT proved; it needs positivity of a sum of binary64 HIP
   increments and of the ln-based composite estimator, which is not modelled):
       some merged input is non-empty -> estimate of the union > 0.
   Proved part: merging a non-empty OUT-OF-ORDER array-mode sketch (any type) always leaves an
   out-of-order Array8 gadget with a non-zero register, i.e. the estimate is the composite estimate
   of a non-empty register file, never the zeroed HIP accumulator of the source (defect D3). *)
Theorem c03_union_nonzero_partial :
  forall lg_max ops i s se, 4 <= lg_max <= 21 -> Forall uop_ok ops ->
  uop_ok (UMerge i s) -> in_active i = true -> mode_est (sk_mode s) = Ok se -> h_ooo se = true ->
  exists u0 u u' a, union_new lg_max = Ok u0 /\ uops_run ops u0 = Ok u /\ union_update u s = Ok u' /\
    sk_mode (un_gadget u') = MArr8 a /\ h_ooo (a8_est a) = true /\ a8_nz a < 2 ^ a8_lgk a.
Proof. exact union_nonzero_partial. Qed.

(* ---- sketches built by HllSketch::new + updates are well-formed inputs (so are their
   out-of-order copies: the estimator state is unconstrained in SrcOK) *)
Theorem c03_stream_is_source :
  forall lgk t cs, 4 <= lgk <= 21 -> Forall valid cs ->
  exists s, run_stream hip_new hip_update hip_carry lgk t cs = Ok s /\ SrcOK lgk (tag_flag (sk_tag s)) cs s.
Proof. exact stream_is_source. Qed.

(* ---- what the reader returns for a canonical image (set: at least 8 coupons; Hll4: some register
   at cur_min) is a well-formed input: foreign and deserialized sketches can be merged *)
Theorem c03_deserialized_is_source :
  forall bs s, BOK bs -> hll_deserialize bs = Ok s -> image_canonical s ->
  exists cs, SrcOK (sk_lgk s) (tag_flag (sk_tag s)) cs s.
Proof. exact hll_deserialize_src_ok. Qed.

Theorem c03_estimator_state_irrelevant :
  forall f lgk arrf cs s, SrcOK lgk arrf cs s -> SrcOK lgk arrf cs (with_est f s).
Proof. exact with_est_src_ok. Qed.

(* ---- non-vacuity: lg_max 10; an out-of-order Hll6 array (lg_k 10, 200 coupons), an Hll4 array of
   lg_k 8, a 5-coupon list and one update_value: all hypotheses hold, the gadget ends as an array
   folded to lg_k 8 *)
Example c03_example :
  exists s1 s2 s3,
  hrun 10 T6 (in_cs ex_in1) = Ok s1 /\ hrun 8 T4 (in_cs ex_in2) = Ok s2 /\ hrun 10 T8 (in_cs ex_in3) = Ok s3 /\
  Forall uop_ok [UMerge ex_in1 (with_est (hip_set_ooo true) s1); UMerge ex_in2 s2; UMerge ex_in3 s3; UValue (pack_coupon 77 9)] /\
  exists u0 u, union_new 10 = Ok u0 /\
  uops_run [UMerge ex_in1 (with_est (hip_set_ooo true) s1); UMerge ex_in2 s2; UMerge ex_in3 s3; UValue (pack_coupon 77 9)] u0 = Ok u /\
  sk_lgk (un_gadget u) = 8 /\ sk_tag (un_gadget u) = TagArray.
Proof. exact union_example. Qed.
