(* C11 (CPC part) -- serialize o deserialize is lossless: the entropy coders of the CPC serializer decode what
   they encode, at the symbol level, for the tables translated from cpc/compression_data.rs on this run.
   Statements only; proofs (finite table sweeps by vm_compute, then induction over the bit stream) are in
   Proofs/CpcCodec.v; the symbol-level model is Model/CpcCodec.v.

   Reading guide.  An encoding-table entry is (code_len = info >> 12, code_val = info & 0xfff); a decoding
   table is indexed by the next 12 bits of the stream and yields (length = lookup >> 8, symbol = lookup & 0xff).
   A bit stream is a natural number read from its low end, exactly like the crate's u64 bit buffer.
   What is NOT proved here (tied by the correspondence run only: deserialize(serialize(s)) reproduces the whole
   state, kxp / HIP bit-for-bit, and behaves identically under further updates, all flavors): the split of the
   stream into u32 words, the exact buffer sizes, the hybrid merge, the order PairTable yields its items. *)
From DS Require Import Base.Prelude Model.Cpc Model.CpcPhase Model.CpcCodec Proofs.CpcCodec.
Open Scope N_scope.

(* huffman_prefix: for each of the 22 tables and each byte b, every 12-bit window whose low bits are b's code
   word decodes to (length of the code word, b).  Hence the codes are prefix-free and dec inverts enc. *)
Theorem c11_cpc_huffman_symbol : forall p b, p < 22 -> b < 256 ->
  1 <= code_len (huff_enc p b) <= 12 /\ code_val (huff_enc p b) < 2 ^ code_len (huff_enc p b) /\
  forall hi, hi < 2 ^ (12 - code_len (huff_enc p b)) ->
    huff_dec p (code_val (huff_enc p b) + hi * 2 ^ code_len (huff_enc p b)) = code_len (huff_enc p b) * 256 + b.
Proof. exact huffman_symbol. Qed.

(* cpc_window_roundtrip: any byte sequence coded with any table and followed by anything decodes to itself,
   leaving exactly the rest of the stream *)
Theorem c11_cpc_window_roundtrip : forall p bytes rest, p < 22 -> Forall (fun b => b < 256) bytes ->
  huff_decode p (length bytes) (huff_stream p bytes rest) = (bytes, rest).
Proof. exact huffman_stream_roundtrip. Qed.

(* unary65_prefix: the length-limited unary code of the column deltas 0..64 *)
Theorem c11_cpc_unary65_symbol : forall x, x <= 64 ->
  1 <= code_len (unary_enc x) <= 12 /\ code_val (unary_enc x) < 2 ^ code_len (unary_enc x) /\
  forall hi, hi < 2 ^ (12 - code_len (unary_enc x)) ->
    unary_dec (code_val (unary_enc x) + hi * 2 ^ code_len (unary_enc x)) = code_len (unary_enc x) * 256 + x.
Proof. exact unary65_symbol. Qed.

(* cpc_pairs_roundtrip (symbol level): one pair's column delta (<= 64) and row delta, the latter split into a
   unary high part and ANY number of Golomb base bits, followed by anything, decodes to itself *)
Theorem c11_cpc_pair_roundtrip : forall nbb xd yd rest, xd <= 64 ->
  pair_decode nbb (pair_stream nbb xd yd rest) = (xd, yd, rest).
Proof. exact pair_symbol_roundtrip. Qed.

(* perm_inverse: the 16 column permutations and their inverses, both ways, stay below 56 *)
Theorem c11_cpc_perm_inverse : forall p c, p < 16 -> c < 56 ->
  perm_enc p c < 56 /\ perm_dec p (perm_enc p c) = c /\ perm_dec p c < 56 /\ perm_enc p (perm_dec p c) = c.
Proof. exact perm_inverse. Qed.

(* Sliding flavor: rotating a column outside the window to the canonical position, permuting, un-permuting and
   rotating back returns the column, for every offset <= 56 *)
Theorem c11_cpc_slide_col_roundtrip : forall p off col, p < 16 -> off <= 56 -> col < 64 ->
  (col < off \/ off + 8 <= col) ->
  slide_enc_col p off col < 56 /\ slide_dec_col p off (slide_enc_col p off col) = col.
Proof. exact slide_col_roundtrip. Qed.

(* the Sliding flavor's pseudo phase always indexes one of the 16 permutations *)
Theorem c11_cpc_sliding_phase_lt_16 : forall lgk c, 4 <= lgk -> 27 * 2 ^ lgk <= 8 * c ->
  exists p, determine_pseudo_phase lgk c = Ok p /\ p < 16.
Proof. exact sliding_phase_lt_16. Qed.

(* non-vacuity: table 16 codes the bytes 0, 255, 7 in 1 + 12 + 9 bits ... *)
Example c11_cpc_example :
  huff_stream 16 [0; 255; 7] 5 = 21954558 /\ huff_decode 16 3 21954558 = ([0; 255; 7], 5) /\
  pair_decode 3 (pair_stream 3 5 77 9) = (5, 77, 9) /\ slide_dec_col 3 20 (slide_enc_col 3 20 41) = 41.
Proof. repeat split; vm_compute; reflexivity. Qed.
