(* C11, theta part -- serialize then deserialize is lossless for compact theta sketches, through
   the uncompressed (serVer 3) and the compressed (serVer 4) writer.  Statements only; proofs in
   Proofs/ThetaCodec.v, ThetaCodecReach.v, ThetaBitSym.v, ThetaBitPack.v.

   [csk] = CompactThetaSketch {entries, theta, seed_hash, ordered, empty} (Model/Theta.v);
   [c_serialize], [c_serialize_v4], [c_serialize_compressed], [c_deserialize sh] model
   serialize / serialize_v4 / serialize_compressed / deserialize_with_seed (sh = the reader's seed
   hash) of theta/sketch.rs, byte for byte (Model/ThetaCodec.v); the reader is the REPAIRED code
   (known_findings.d/theta-*.json).  [c_wf sh c]: entries in (0, theta), 0 < theta <= 2^63-1,
   ordered => strictly ascending, empty => no entries and theta = 2^63-1, fewer than 2^32 entries,
   seed hash = sh unless empty.  Distinctness of the entries is NOT part of it: the crate's reader (like
   the C++ one) does not look for repeated hashes in an unordered image; for ordered values it follows
   from strict ascent.  [c_deserialize sh] first rejects sh = 0 (a seed whose 16-bit seed hash is zero
   is unusable: the repaired deserialize_with_seed returns Err for it).  Equality [Ok c] is equality of the whole value, so every query
   (estimate, theta, bounds, emptiness, order, iteration) and every re-serialization coincide. *)
From DS Require Import Base.Prelude Base.BitExp Base.ThetaLib Model.Theta Model.ThetaCodec Spec.ThetaLayout.
From DS Require Import Proofs.ThetaProofs Proofs.ThetaKmv Proofs.ThetaBitSym Proofs.ThetaBitPack Proofs.ThetaCodec Proofs.ThetaCodecReach.
Open Scope N_scope.

Theorem c11_theta_roundtrip_uncompressed :
  forall sh c, sh <> 0 -> c_wf sh c -> c_deserialize sh (c_serialize c) = Ok c.
Proof. exact ep_roundtrip_v3. Qed.

(* serVer 4: every ordered sketch with entries (delta widths 1..63, any length incl. every length mod 8) *)
Theorem c11_theta_roundtrip_v4 :
  forall sh c, sh <> 0 -> c_wf sh c -> c_is_suitable_for_compression c = true ->
  exists bs, c_serialize_v4 c = Ok bs /\ c_deserialize sh bs = Ok c.
Proof. exact ep_roundtrip_v4. Qed.

Theorem c11_theta_roundtrip_compressed :
  forall sh c, sh <> 0 -> c_wf sh c -> exists bs, c_serialize_compressed c = Ok bs /\ c_deserialize sh bs = Ok c.
Proof. exact ep_roundtrip_compressed. Qed.

(* the round trips also apply to everything the (repaired) reader returns: whatever it accepts is
   well-formed -- in particular an image flagged EMPTY that carries entries is rejected
   (known_findings.d/theta-v4-empty-flag-with-entries.json) *)
Theorem c11_theta_deserialized_wf :
  forall sh bs c, sh < 65536 -> bytes_lt bs -> c_deserialize sh bs = Ok c -> sh <> 0 /\ c_wf sh c.
Proof. exact ep_ok_wf. Qed.

Theorem c11_theta_deserialized_roundtrips :
  forall sh bs c, sh < 65536 -> bytes_lt bs -> c_deserialize sh bs = Ok c ->
  c_deserialize sh (c_serialize c) = Ok c /\
  exists bs', c_serialize_compressed c = Ok bs' /\ c_deserialize sh bs' = Ok c.
Proof. exact ep_deserialized_roundtrips. Qed.

(* reachable_wf: whatever compact(ordered) returns for a sketch reached by any history of
   update/trim/reset is well-formed, for every configuration and EVERY sampling probability: the starting
   theta `(2^63 as f64 * p) as u64` is at most 2^63-1 for every f64 p < 1 (Flocq), and at least 1 in the
   repaired code (/repo fix 1188107) *)
Theorem c11_theta_reachable_wf :
  forall reorder, reorder_ok reorder -> forall c ops s ordered, cfg_ok c -> reach reorder c ops s ->
  c_seed_hash c < 65536 ->
  c_wf (c_seed_hash c) (sk_compact s ordered).
Proof. exact compact_wf. Qed.

(* ---- the bit packers: reflection over the functions translated from theta/bit_pack.rs ---- *)
(* the symbolic evaluator is sound for every environment *)
Theorem c11_theta_sym_sound :
  forall vw rho e l, (forall i, rho i < 2 ^ N.of_nat vw) -> sym vw e = Some l -> agrees rho (den rho e) l.
Proof. exact sym_sound. Qed.

(* bitpack_gen_correct: for every width 1..63 and ALL u64 values / bytes, the translated
   pack_bits_w and unpack_bits_w are the big-endian bit stream of the format *)
Theorem c11_theta_bitpack_gen_correct_pack :
  forall w vs, (1 <= w <= 63)%nat -> length vs = 8%nat -> Forall (fun x => x < 2 ^ 64) vs ->
  pack_bits_block vs (N.of_nat w) = Ok (pack_stream w vs).
Proof. exact pack_block_correct. Qed.

Theorem c11_theta_bitpack_gen_correct_unpack :
  forall w bs, (1 <= w <= 63)%nat -> length bs = w -> Forall (fun x => x < 2 ^ 8) bs ->
  unpack_bits_block bs (N.of_nat w) = Ok (map (field w bs) (seq 0 8)).
Proof. exact unpack_block_correct. Qed.

(* BitPacker / BitUnpacker (the tail of fewer than 8 values) *)
Theorem c11_theta_bitpacker_correct :
  forall w vs, (1 <= w <= 63)%nat -> (1 <= length vs <= 7)%nat -> Forall (fun x => x < 2 ^ 64) vs ->
  pack_tail (N.of_nat w) vs = Ok (pack_stream w vs).
Proof. exact pack_tail_correct. Qed.

Theorem c11_theta_bitunpacker_correct :
  forall w r bs, (1 <= w <= 63)%nat -> (1 <= r <= 7)%nat -> Forall (fun x => x < 2 ^ 8) bs ->
  unpack_tail (N.of_nat w) r bs = Ok (map (field w bs) (seq 0 r)).
Proof. exact unpack_tail_correct. Qed.

(* pack_unpack_generic: the fields of the packed stream are the values modulo 2^w *)
Theorem c11_theta_pack_unpack_generic :
  forall w vs, (1 <= w)%nat ->
  map (field w (pack_stream w vs)) (seq 0 (length vs)) = map (fun v => v mod 2 ^ N.of_nat w) vs.
Proof. exact pack_unpack_generic. Qed.

(* non-vacuity: 11 entries (one block of 8 and a tail of 3), 61-bit deltas, estimation mode *)
Example c11_theta_example :
  let c := mkC [5; 100; 1000; 70000; 70001; 9000000000; 9000000001; 9000000002; 9000000007;
                2305843009213693952; 2305843009213693953] 4611686018427387904 12345 true false in
  c_wf 12345 c /\ c_is_suitable_for_compression c = true /\
  (exists bs, c_serialize_compressed c = Ok bs /\ length bs = 101%nat /\ c_deserialize 12345 bs = Ok c) /\
  c_deserialize 12345 (c_serialize c) = Ok c.
Proof.
  cbv zeta. split.
  - constructor; cbn [ce_entries ce_theta ce_seed_hash ce_ordered ce_empty].
    + repeat constructor; reflexivity.
    + split; reflexivity || (vm_compute; discriminate).
    + split; [reflexivity|reflexivity].
    + reflexivity.
    + discriminate.
    + reflexivity.
  - split; [reflexivity|]. split; [eexists; split; [vm_compute; reflexivity|split; vm_compute; reflexivity]|vm_compute; reflexivity].
Qed.
