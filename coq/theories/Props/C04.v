(* C04 — placeholder while the proofs are being written *)
From DS Require Import Base.Prelude Base.ThetaLib Model.Theta Proofs.ThetaProofs.
Open Scope N_scope.
Theorem c04_placeholder : forall a b, starting_sub_multiple a b 0 = if a <=? b then b else a.
Proof. intros. unfold starting_sub_multiple. destruct (a <=? b); reflexivity. Qed.
