(* C04 -- Theta sketch retains exactly the distinct hashes below theta (KMV invariant).
   Statements only; proofs are in Proofs/ThetaKmv.v (from the invariant of Proofs/ThetaProofs.v and
   the open-addressing lemmas of Proofs/ThetaOpenAddr.v).

   Reading guide.
   [tcfg] = (lg_k, resize factor lg 0..3, sampling probability as f64 bits, seed hash);
   [cfg_ok c]: 5 <= lg_k <= 26 (MIN_LG_K/MAX_LG_K re-read from the source) and a resize factor of
   the enum; NO condition on the sampling probability: [theta0 c] is whatever the crate's float
   expression gives for it.
   An operation history is a list of  OUpdate h | OTrim | OReset | OCompact ordered  where h is
   ANY value offered as the 63-bit hash (the model takes hashes as input; the hashers are C16).
   [reach reorder c ops s]: running [ops] on a fresh sketch of configuration c in the model of
   theta/{hash_table,sketch}.rs (Model/Theta.v: slot array, odd-stride probing, resize, rebuild)
   ends in state s without reaching any panic site.
   [offered ops]: the hashes offered since the last reset.  [sk_entries s]: the non-zero slots in
   slot order (what iter() yields).  [kept th l]: the distinct elements of l in (0, th).
   [reorder] is the order in which rebuild() re-inserts the k smallest entries, which
   `select_nth_unstable` leaves unspecified: every theorem holds for EVERY [reorder] returning a
   permutation ([reorder_ok]), hence for the crate's whatever std does.

   The model is the REPAIRED code: is_empty() is a flag cleared by the first offered value
   (/repo "fix: theta sketch whose updates were all screened out by theta reported itself empty",
   known_findings.d/theta-D5-screened-empty.json). *)
From DS Require Import Base.Prelude Base.FloatBits Base.ThetaLib Model.Theta.
From DS Require Import Spec.ThetaKmv Proofs.ThetaOpenAddr Proofs.ThetaProofs Proofs.ThetaKmv Proofs.ThetaSpecRefine.
From Coq Require Import Permutation Sorted Floats.
Open Scope N_scope.

(* theta_inv: at every point the retained entries are exactly the distinct offered hashes h with
   0 < h < theta (no duplicates, nothing missing, nothing else), and num_entries is their number *)
Theorem c04_theta_inv :
  forall reorder, reorder_ok reorder -> forall c ops s, cfg_ok c -> reach reorder c ops s ->
  NoDup (sk_entries s) /\
  (forall x, In x (sk_entries s) <-> In x (offered ops) /\ 0 < x /\ x < t_theta s) /\
  Permutation (sk_entries s) (kept (t_theta s) (offered ops)) /\
  t_n s = N.of_nat (length (sk_entries s)).
Proof. exact kmv. Qed.

(* theta_monotone: theta never increases (between resets), and never exceeds its initial value *)
Theorem c04_theta_monotone :
  forall reorder, reorder_ok reorder -> forall c ops1 ops2 s1 s2, cfg_ok c ->
  reach reorder c ops1 s1 -> reach reorder c (ops1 ++ ops2) s2 ->
  Forall (fun o => o <> OReset) ops2 -> t_theta s2 <= t_theta s1.
Proof. exact monotone. Qed.

Theorem c04_theta_le_initial :
  forall reorder, reorder_ok reorder -> forall c ops s, cfg_ok c -> reach reorder c ops s -> t_theta s <= theta0 c.
Proof. exact theta_le_initial. Qed.

(* theta_initial_until_k: theta is below its initial value only after MORE than k = 2^lg_k
   distinct hashes in (0, theta0) were offered *)
Theorem c04_theta_initial_until_k :
  forall reorder, reorder_ok reorder -> forall c ops s, cfg_ok c -> reach reorder c ops s ->
  t_theta s < theta0 c -> 2 ^ c_lg_nom c < N.of_nat (length (qual c (offered ops))).
Proof. exact initial_until_k. Qed.

(* theta_estimate_exact: while theta is at its initial value the sketch retains every distinct
   offered hash of (0, theta0) -- num_retained is exactly their number -- and theta stays there as
   long as no more than k of them were offered *)
Theorem c04_theta_exact_mode :
  forall reorder, reorder_ok reorder -> forall c ops s, cfg_ok c -> reach reorder c ops s ->
  (t_theta s = theta0 c ->
     Permutation (sk_entries s) (qual c (offered ops)) /\ t_n s = N.of_nat (length (qual c (offered ops)))) /\
  (N.of_nat (length (qual c (offered ops))) <= 2 ^ c_lg_nom c -> t_theta s = theta0 c).
Proof. exact exact_mode. Qed.

(* ... and the f64 estimate `num_retained as f64 / (theta as f64 / MAX_THETA as f64)` is then exactly
   the count (p = 1.0: theta = MAX_THETA = 2^63 - 1), in IEEE-754 binary64 arithmetic *)
Theorem c04_theta_estimate_exact :
  forall s, t_theta s = MAX_THETA -> sk_is_empty s = false -> sk_estimate s = float_of_Z63 (Nz (t_n s)).
Proof. exact estimate_exact. Qed.

(* in every mode (estimation mode included) the estimate of a non-empty sketch is a FINITE f64 and never
   below the retained count: theta stays in [1, 2^63-1], so theta/2^63 is a positive float <= 1 (Flocq).
   (How close n / (theta/2^63) is to the real quotient is the rounding of two correctly rounded divisions;
   no error bound is stated.) *)
Theorem c04_theta_estimate_finite :
  forall reorder, reorder_ok reorder -> forall c ops s, cfg_ok c -> reach reorder c ops s ->
  sk_is_empty s = false ->
  PrimFloat.is_finite (sk_estimate s) = true /\
  PrimFloat.leb (float_of_Z63 (Nz (t_n s))) (sk_estimate s) = true.
Proof. exact estimate_finite. Qed.

(* trim_k_smallest: trim() leaves min(n, k) entries: nothing changes when n <= k, otherwise exactly
   the k smallest stay and theta becomes the (k+1)-th smallest *)
Theorem c04_trim_k_smallest :
  forall reorder, reorder_ok reorder -> forall c ops s, cfg_ok c -> reach reorder c ops s ->
  exists s', sk_trim reorder s = Ok s' /\ reach reorder c (ops ++ [OTrim]) s' /\
    t_n s' = N.min (t_n s) (2 ^ c_lg_nom c) /\
    (t_n s <= 2 ^ c_lg_nom c -> s' = s) /\
    (2 ^ c_lg_nom c < t_n s ->
       Permutation (firstn (N.to_nat (2 ^ c_lg_nom c)) (sortN (sk_entries s))) (sk_entries s') /\
       t_theta s' = nth (N.to_nat (2 ^ c_lg_nom c)) (sortN (sk_entries s)) 0).
Proof. exact trim_spec. Qed.

(* reset_init: reset() restores the initial state (table size, theta, emptiness) *)
Theorem c04_reset_init :
  forall reorder, reorder_ok reorder -> forall c ops s, cfg_ok c -> reach reorder c ops s ->
  sk_reset s = sk_new c /\ reach reorder c (ops ++ [OReset]) (sk_new c).
Proof. exact reset_spec. Qed.

(* emptiness: is_empty() <-> nothing was offered since the last reset; an empty sketch retains nothing *)
Theorem c04_empty_iff :
  forall reorder, reorder_ok reorder -> forall c ops s, cfg_ok c -> reach reorder c ops s ->
  (sk_is_empty s = true <-> offered ops = []) /\ (sk_is_empty s = true -> sk_entries s = [] /\ t_n s = 0).
Proof. exact empty_iff. Qed.

(* compact_same_set: compact(ordered) describes the same set: same entries, count, emptiness and
   estimate (bit-identical f64); the same theta when non-empty (MAX_THETA when empty); ordered is
   honoured, and whenever the result says it is ordered its entries are strictly increasing *)
Theorem c04_compact_same_set :
  forall reorder, reorder_ok reorder -> forall c ops s ordered, cfg_ok c -> reach reorder c ops s ->
  let k := sk_compact s ordered in
  Permutation (ce_entries k) (sk_entries s) /\
  c_num_retained k = sk_num_retained s /\
  ce_empty k = sk_is_empty s /\
  c_estimate k = sk_estimate s /\
  (sk_is_empty s = false -> ce_theta k = t_theta s) /\
  (sk_is_empty s = true -> ce_theta k = MAX_THETA /\ ce_entries k = []) /\
  (ordered = true -> ce_ordered k = true) /\
  (ce_ordered k = true -> StronglySorted N.lt (ce_entries k)) /\
  ce_seed_hash k = c_seed_hash c.
Proof. exact compact_spec. Qed.

(* theta_no_stuck: no operation history reaches a panic site of the model (the unreachable!() after
   find_in_entries in try_insert/resize/rebuild, the assert_eq!s, select_nth_unstable's bound) ... *)
Theorem c04_theta_no_stuck :
  forall reorder, reorder_ok reorder -> forall c ops, cfg_ok c -> exists s, reach reorder c ops s.
Proof. exact no_stuck. Qed.

(* ... because the probe loop always finds the key or an empty slot: the table is a valid
   open-addressing layout with num_entries <= capacity < size *)
Theorem c04_find_always_succeeds :
  forall reorder, reorder_ok reorder -> forall c ops s h, cfg_ok c -> reach reorder c ops s -> h <> 0 ->
  exists idx, find_in_entries (t_slots s) h (t_lg_cur s) = Some idx /\ idx < 2 ^ t_lg_cur s /\
              (sl_get (t_slots s) idx = h \/ sl_get (t_slots s) idx = 0).
Proof. exact find_succeeds. Qed.

Theorem c04_layout :
  forall reorder, reorder_ok reorder -> forall c ops s, cfg_ok c -> reach reorder c ops s -> OA (t_lg_cur s) (t_slots s).
Proof. exact layout_inv. Qed.

(* theta_capacity: n <= 15/16 * 2^(lg_k+1), n < table size, table size between 32 and 2k *)
Theorem c04_theta_capacity :
  forall reorder, reorder_ok reorder -> forall c ops s, cfg_ok c -> reach reorder c ops s ->
  16 * t_n s <= 15 * 2 ^ (c_lg_nom c + 1) /\ t_n s < 2 ^ t_lg_cur s /\
  5 <= t_lg_cur s /\ t_lg_cur s <= c_lg_nom c + 1.
Proof. exact capacity. Qed.

(* the capacity expression `(fraction * entries.len() as f64) as usize` of the crate is exactly
   size/2 resp. 15*size/16 for every table size a valid configuration can have (binary64 sweep) *)
Theorem c04_capacity_float_exact :
  forall c lg, cfg_ok c -> lg_wf c lg ->
  get_capacity lg (c_lg_nom c) = if lg <=? c_lg_nom c then 2 ^ lg / 2 else 15 * 2 ^ lg / 16.
Proof. exact get_capacity_exact. Qed.

(* the builder accepts every documented configuration (the seed's 16-bit seed hash must not be zero:
   seed() panics otherwise, documented) *)
Theorem c04_build_ok :
  forall c, cfg_ok c ->
  PrimFloat.ltb 0%float (float_of_bits (c_pbits c)) = true ->
  PrimFloat.leb (float_of_bits (c_pbits c)) 1%float = true ->
  PrimFloat.leb 0%float (float_of_bits (c_pbits c)) = true ->
  c_seed_hash c <> 0 ->
  sk_build c = Ok (sk_new c).
Proof. exact build_ok. Qed.

(* kmv_spec: refinement.  Spec/ThetaKmv.v is the sketch as a pure set machine (state: table size
   exponent, theta, the ascending list of retained hashes, emptiness; theta DEFINED by the rebuild rule:
   when the set outgrows 15/16 of the largest table, or on trim, keep the k smallest and let theta be the
   (k+1)-th smallest).  After every history the model's abstract state [k_abs s] -- (lg_cur, theta,
   sorted entries, is_empty) -- is exactly the Spec's *)
Theorem c04_refines_kmv_spec :
  forall reorder, reorder_ok reorder -> forall c ops s, cfg_ok c -> reach reorder c ops s ->
  k_abs s = spec_run c ops.
Proof. exact run_refines. Qed.

(* hence nothing observable depends on the order in which rebuild re-inserts the surviving entries
   (which `select_nth_unstable` leaves unspecified): two admissible orders reach the same table size,
   theta, emptiness, count and SET of entries *)
Theorem c04_rebuild_order_irrelevant :
  forall r1 r2, reorder_ok r1 -> reorder_ok r2 ->
  forall c ops s1 s2, cfg_ok c -> reach r1 c ops s1 -> reach r2 c ops s2 ->
  t_lg_cur s1 = t_lg_cur s2 /\ t_theta s1 = t_theta s2 /\ t_empty s1 = t_empty s2 /\
  t_n s1 = t_n s2 /\ Permutation (sk_entries s1) (sk_entries s2).
Proof. exact order_irrelevant. Qed.

(* the executable instance used by the correspondence check is one of the admitted orders *)
Theorem c04_ascending_ok : reorder_ok ascending.
Proof. exact ascending_ok. Qed.

(* non-vacuity: lg_k = 5, resize factor X2, p = 1.0; the hashes 1..61 are offered: the table grows
   32 -> 64 slots, the 61st insert exceeds 15/16 * 64 = 60 and rebuilds: theta = 33 (the 33rd
   smallest), the 32 smallest stay; one further hash above theta is screened out *)
Example c04_example :
  let c := mkCfg 5 1 0x3ff0000000000000 37836 in
  let ops := map OUpdate (rangeN 61 1) ++ [OCompact true; OUpdate 40] in
  cfg_ok c /\ theta0 c = MAX_THETA /\
  exists s, reach ascending c ops s /\ t_theta s = 33 /\ t_n s = 32 /\ t_lg_cur s = 6 /\
            sortN (sk_entries s) = rangeN 32 1 /\ sk_is_empty s = false /\
            ce_entries (sk_compact s true) = rangeN 32 1 /\
            spec_run c ops = mkK 6 33 (rangeN 32 1) false.
Proof.
  cbv zeta. split; [unfold cfg_ok; cbn; lia|]. split; [vm_compute; reflexivity|].
  eexists. split; [vm_compute; reflexivity|]. vm_compute. repeat split; reflexivity.
Qed.

(* ... and trim / reset: 50 hashes (more than k = 32, fewer than the rebuild threshold 60), trim() keeps
   the 32 smallest with theta = 33; reset() and one more update give a fresh sketch holding that hash *)
Example c04_example_trim_reset :
  let c := mkCfg 5 1 0x3ff0000000000000 37836 in
  let ops := map OUpdate (rangeN 50 1) in
  exists s1 s2 s3,
    reach ascending c ops s1 /\ t_n s1 = 50 /\ t_theta s1 = MAX_THETA /\
    reach ascending c (ops ++ [OTrim]) s2 /\ t_n s2 = 32 /\ t_theta s2 = 33 /\ sortN (sk_entries s2) = rangeN 32 1 /\
    reach ascending c (ops ++ [OTrim; OReset; OUpdate 7]) s3 /\ t_n s3 = 1 /\ t_theta s3 = MAX_THETA /\
    sk_entries s3 = [7] /\ t_lg_cur s3 = 5.
Proof.
  cbv zeta. eexists. eexists. eexists.
  split; [vm_compute; reflexivity|]. split; [vm_compute; reflexivity|]. split; [vm_compute; reflexivity|].
  split; [vm_compute; reflexivity|]. split; [vm_compute; reflexivity|]. split; [vm_compute; reflexivity|].
  split; [vm_compute; reflexivity|]. split; [vm_compute; reflexivity|].
  vm_compute. repeat split; reflexivity.
Qed.
