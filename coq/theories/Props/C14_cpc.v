(* C14 (CPC part, partial) -- malformed bytes: Err, never a panic.  The CPC reader itself has no Coq model
   (its "never panics" half is observed by the harness on mutated images); what is proved is the second half
   of the property: a value returned as Ok is well formed and can be used like any sketch.  The C14 oracle
   runs the executable check [inv_check] (Model/CpcCheck.v) on every Ok value the crate returns.
   Statements only; proofs in Proofs/CpcCheckProofs.v. *)
From DS Require Import Base.Prelude Model.Cpc Model.CpcCheck Proofs.CpcSpec Proofs.CpcStep Proofs.CpcUnionSpec
  Proofs.CpcUnionProofs Proofs.CpcCheckProofs.
Open Scope N_scope.

(* dec_ok_wf, via the check: a state that passes inv_check satisfies the C05 invariant (Proofs/CpcStep.v, Inv)
   with respect to the bit matrix it represents, whose rows are 64-bit words *)
Theorem c14_cpc_check_sound : forall s, inv_check s = true ->
  exists m, build_bit_matrix s = Ok m /\
            Inv (c_lgk s) s (fun r => nthN m r 0) /\ Mw64 (c_lgk s) (fun r => nthN m r 0).
Proof. exact inv_check_sound. Qed.

(* wf_ops_safe: such a state validates, is a valid union input (so C06 applies), and accepts every further
   valid pair inside the domain (offset <= 56, table capacity: fits, see Props/C05.v) without reaching a modelled
   panic site *)
Theorem c14_cpc_checked_state_usable : forall s, inv_check s = true ->
  cpc_validate s = Ok true /\
  (exists M, Vin s (c_lgk s) M) /\
  (forall rc M, Vin s (c_lgk s) M -> valid (c_lgk s) rc -> 8 * (c_num s + 1) < 475 * 2 ^ c_lgk s ->
     fits (c_lgk s) (spec_update M rc) (pop_rows (spec_update M rc) (Knat (c_lgk s))) ->
     exists s', row_col_update s rc = Ok s').
Proof. exact checked_state_usable. Qed.

(* non-vacuity: a pinned lg_k-4 state (C = 10: nine window bits in columns 0..1, one surprising one) passes the check;
   the same state with a wrong coupon count does not *)
Example c14_cpc_example :
  let s := mkCpc 4 0 10 (Some [3 * 64 + 20]) 0 [1; 1; 1; 1; 1; 1; 1; 3; 0; 0; 0; 0; 0; 0; 0; 0] false PrimFloat.zero PrimFloat.zero in
  inv_check s = true /\ inv_check (set_num s 11) = false.
Proof. split; vm_compute; reflexivity. Qed.
