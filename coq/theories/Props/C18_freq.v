(* C18, Frequent Items -- the sketch size is bounded by the configuration, not by the stream.
   Statements only; proofs in Proofs/FreqProofs.v (capacity, C07) and Proofs/FreqCodec.v. *)
From DS Require Import Base.Prelude Model.Freq Spec.FreqLayout Proofs.FreqProofs Proofs.FreqTable Proofs.FreqCodec.
Open Scope N_scope.

(* after every operation of every history (any purge samples, any merge orders) the number of
   active items is at most the current capacity, which is at most maximum_map_capacity =
   3/4 * max_map_size *)
Theorem c18_freq_active_le_capacity :
  forall h s, runs h s -> fi_num_active s <= fi_cur_cap s /\ fi_cur_cap s <= fi_max_cap s.
Proof. exact fi_capacity. Qed.

(* the image is 8 bytes (no stream weight) or 32 + 16 bytes per active item *)
Theorem c18_freq_image_size :
  forall c, rp_active (fc_map c) = N.of_nat (length (active_entries (fc_map c))) ->
  length (fc_serialize c) = spec_size (fc_weight c) (length (active_entries (fc_map c))).
Proof. exact image_size. Qed.

(* hence at most 32 + 16 * maximum_map_capacity bytes, whatever the stream *)
Theorem c18_freq_image_size_bound :
  forall H c, fc_wf H c -> (length (fc_serialize c) <= 32 + 16 * N.to_nat (cap_of_lg (fc_lg_max c)))%nat.
Proof. exact image_size_bound. Qed.

Example c18_freq_example :
  fc_wf ex_hash ex_fc /\ length (fc_serialize ex_fc) = (32 + 16 * 6)%nat /\ cap_of_lg (fc_lg_max ex_fc) = 6.
Proof. split; [exact ex_fc_wf|split; vm_compute; reflexivity]. Qed.
