(* C18 (Bloom part) - the size of a Bloom filter is fixed at construction.  Statements only. *)
From DS Require Import Base.Prelude Model.Bloom Proofs.BloomProofs Proofs.BloomCodec.
Open Scope N_scope.

(* the image of ANY filter: 24 bytes in the short (empty) form, else 32 + 8 bytes per word *)
Theorem c18_bloom_image_size :
  forall f, length (bf_serialize f) = if bf_is_empty f then 24%nat else (32 + 8 * length (bf_words f))%nat.
Proof. exact image_size. Qed.

(* however many items are offered and whatever else is done (any history): the word count is the
   constructor argument rounded up to whole words, so the image never exceeds 32 + 8 * ceil(num_bits / 64) *)
Theorem c18_bloom_size_fixed_by_constructor :
  forall num_bits nh seed, size_ok num_bits nh seed ->
  forall h f, eval num_bits nh seed h = Ok f ->
  length (bf_words f) = N.to_nat (div_ceil num_bits 64) /\
  length (bf_serialize f) = (if bf_is_empty f then 24 else 32 + 8 * N.to_nat (div_ceil num_bits 64))%nat /\
  (length (bf_serialize f) <= 32 + 8 * N.to_nat (div_ceil num_bits 64))%nat.
Proof. exact hist_image_size. Qed.

Example c18_bloom_example :
  size_ok 100 3 9001 /\
  exists f, eval 100 3 9001 (HInsert (HInsert (HInsert HNew 11 7) 5 9) 100 3) = Ok f /\ length (bf_serialize f) = 48%nat.
Proof.
  split; [vm_compute; repeat split; discriminate|].
  eexists. split; [vm_compute; reflexivity|]. reflexivity.
Qed.
