(* C18, HLL part -- an HLL image has exactly the size its mode and lg_k dictate.
   Statements only; proofs in Proofs/HllCodecProofs.v.
   [hll_serialize] (Model/HllCodec.v) mirrors HllSketch::serialize byte by byte; [SrcOK] is the
   well-formedness of C03 (what HllSketch::new + updates, unions and the reader produce). *)
From DS Require Import Base.Prelude Model.Hll Model.HllCodec Proofs.HllBase Proofs.HllArray4 Proofs.HllRefine
  Proofs.HllUnionProofs Proofs.HllCodecProofs.
Open Scope N_scope.

(* any well-formed sketch (built, merged or deserialized): 8 + 4c | 12 + 4c | 40 + k/2 + 4 aux |
   40 + 3k/4 + 1 | 40 + k bytes *)
Theorem c18_hll_image_size :
  forall lgk arrf cs s, SrcOK lgk arrf cs s -> N.of_nat (length (hll_serialize s)) = hll_image_size s.
Proof. exact image_size. Qed.

(* for EVERY stream: the size is the property's formula, with c = number of distinct coupons <= 7 in
   list mode, 4c <= 3 * 2^(lg_k - 3) in set mode, and in Hll4 array mode as many exceptions as there
   are registers >= cur_min + 15 (at most k): bounded by the configuration, not by the stream *)
Theorem c18_hll_image_size_of_stream :
  forall lgk t cs, 4 <= lgk <= 21 -> Forall valid cs ->
  exists s, run_stream hip_new hip_update hip_carry lgk t cs = Ok s /\
    let n := N.of_nat (length (hll_serialize s)) in
    let k := 2 ^ lgk in
    match sk_mode s with
    | MList l _ => n = 8 + 4 * distinct cs /\ distinct cs <= 7
    | MSet st _ => n = 12 + 4 * distinct cs /\ 4 * distinct cs <= 3 * 2 ^ (lgk - 3)
    | MArr4 a => exists aux, n = 40 + k / 2 + 4 * aux /\ aux <= k /\
                             aux = count_regs k (fun j => a4_cur_min a + 15 <=? spec_regs lgk cs j)
    | MArr6 _ => n = 40 + 3 * k / 4 + 1
    | MArr8 _ => n = 40 + k
    end.
Proof. exact hll_image_size_of_stream. Qed.

(* the number of exceptions is determined by the register file *)
Theorem c18_hll_aux_count :
  forall lgk regs (a : arr4 hip), Inv4 lgk regs a ->
  N.of_nat (length (match a4_aux a with Some m => aux_pairs m | None => [] end))
  = count_regs (2 ^ lgk) (fun j => a4_cur_min a + 15 <=? regs j).
Proof. exact aux_pairs_count. Qed.

(* non-vacuity: the streams of C02's examples are valid *)
Example c18_hll_example : Forall valid Proofs.HllC02.ex_stream /\ Forall valid Proofs.HllC02.ex_stream2.
Proof. exact Proofs.HllC02.ex_stream_valid. Qed.
