(* C13 (Bloom part) - every image variant a Java / C++ writer can emit is read back to the state it
   encodes.  [enc_spec v a] (Spec/BloomLayout.v) is the specification's encoder: short form (empty set
   only), long form with the exact count, long form with the "dirty" marker -1 in the count field;
   the two unused fields and the seven undefined bits of the flags byte (all but bit 2) carry arbitrary
   values.  Statements only. *)
From DS Require Import Base.Prelude Model.Bloom Spec.BloomLayout Proofs.BloomProofs Proofs.BloomCodec.
Open Scope N_scope.

Theorem c13_bloom_reader_accepts :
  forall v a, abs_wf a -> variant_ok v a ->
  exists s, bf_deserialize (enc_spec v a) = Ok s /\ abs_of s = a.
Proof. exact reader_accepts. Qed.

(* ... and what it returns is well formed, so that queries, set operations and re-serialization behave as
   the encoded state requires (C09's single-step refinement theorems and C17_bloom apply to it) *)
Theorem c13_bloom_accepted_is_wf :
  forall bs f, bytes_ok bs = true -> bf_deserialize bs = Ok f ->
  wf f /\ (24 <= length bs)%nat /\
  (long_form bs -> (32 + 8 * length (bf_words f) <= length bs)%nat) /\
  (~ long_form bs -> bf_used f = 0 /\ Forall (fun w => w = 0) (bf_words f)) /\
  bf_alloc_bytes bs = 8 * N.of_nat (length (bf_words f)).
Proof. exact deserialize_ok_wf. Qed.

(* non-vacuity: the dirty variant of a 1-word state with junk in the unused fields and every undefined flag bit set
   (flags byte 0xfb): the count is recomputed *)
Example c13_bloom_example :
  let a := mkAbs 5 9001 1 [255] 8 in
  let v := mkVar FLongDirty 4660 3735928559 255 in
  abs_wf a /\ variant_ok v a /\
  bf_deserialize (enc_spec v a) = Ok (mkBloom 9001 5 8 [255]).
Proof.
  intros a v. split; [|split; [intros H; discriminate|vm_compute; reflexivity]].
  constructor; cbn [a a_nh a_seed a_nw a_words a_count length]; try lia; try reflexivity.
  repeat constructor.
Qed.
