(* C13, t-digest part -- every image variant Java / C++ / the reference implementation can emit is
   read back to the state it encodes.  Stated for ALL byte strings rather than per writer variant:
   (soundness) whatever the modelled reader accepts, it reads exactly what the layout decoder says;
   (completeness) every image whose layout content is admissible -- k >= 10, finite values, weights
   >= 1 with total < 2^64, min / max not NaN and present exactly when there is data -- is accepted and
   yields exactly that content.  Covers the double and float flavours (f32 fields denote their exact
   f64 value: Base/TDigestBits.v f64_of_f32), empty / single / general forms with buffered values,
   any contents of the unused bytes and undefined flag bits, and the two big-endian formats of the
   reference implementation (weights and compression stored as floating point numbers).
   There is NO theorem about a layout-level ENCODER (none is defined): "every image a foreign writer can
   emit" is approximated by "every byte string the layout decoder reads as an admissible state".
   The bit-level float functions (Base/TDigestBits.v: f64_of_f32, uint_of_f64, is_nan64) are shared by the
   model and the layout decoder: they are trusted, tied to the crate only by the correspondence leg.
   Statements only; proofs in Proofs/TDigestLayoutProofs.v. *)
From DS Require Import Base.Prelude Base.TDigestBits Model.TDigestCodec Spec.TDigestLayout Proofs.TDigestCodec Proofs.TDigestLayoutProofs.
Open Scope N_scope.

(* DataSketches images (family byte 20); [fl is_f32] = Float / Double *)
Theorem c13_tdigest_reads_what_the_layout_says : forall is_f32 bs s, nth 2 bs 0 = FAMID -> tdb_dec is_f32 bs = Ok s ->
  exists a, spec_decode (fl is_f32) bs = Some a /\ a_k a = b_k s /\ a_cs a = b_cs s /\ a_buf a = b_buf s /\
            (tdb_is_empty s = false -> a = abs_of s).
Proof. exact dec_reads_layout. Qed.

Theorem c13_tdigest_admissible_images_accepted : forall is_f32 bs a,
  nth 2 bs 0 = FAMID -> spec_decode (fl is_f32) bs = Some a -> abs_admissible a = true ->
  exists s, tdb_dec is_f32 bs = Ok s /\ abs_of s = a.
Proof. exact layout_accepted. Qed.

(* reference-implementation images (three leading zero bytes), whatever is_f32 says *)
Theorem c13_tdigest_ref_reads_what_the_layout_says : forall is_f32 bs s,
  (3 <= length bs)%nat -> is_ref_image bs = true -> tdb_dec is_f32 bs = Ok s ->
  exists a, spec_decode_ref bs = Some a /\ a_k a = b_k s /\ a_cs a = b_cs s /\ a_buf a = b_buf s /\
            (tdb_is_empty s = false -> a = abs_of s).
Proof. exact ref_reads_layout. Qed.

Theorem c13_tdigest_ref_admissible_images_accepted : forall is_f32 bs a,
  is_ref_image bs = true -> spec_decode_ref bs = Some a -> abs_admissible a = true ->
  exists s, tdb_dec is_f32 bs = Ok s /\ abs_of s = a.
Proof. exact ref_accepted. Qed.

(* non-vacuity: a float-flavour image with one centroid (2.5f, w 3), one buffered value 1.0f, min 1.0f,
   max 4.0f, garbage in the unused bytes and in the undefined flag bits: the layout decoder reads a, a is
   admissible, and the modelled reader run on the bytes returns exactly that state; and a reference asSmallBytes
   image with two centroids of (float) weight 1 and 2 *)
Example c13_tdigest_example :
  let img := [2; 1; 20; 200; 0; 0xf8; 0xab; 0xcd;  1; 0; 0; 0;  1; 0; 0; 0;  0; 0; 0x80; 0x3f;  0; 0; 0x80; 0x40;
              0; 0; 0x20; 0x40;  3; 0; 0; 0;  0; 0; 0x80; 0x3f] in
  let a := mkTdAbs 200 false (Some (0x3ff0000000000000, 0x4010000000000000)) [(0x4004000000000000, 3)] [0x3ff0000000000000] in
  spec_decode Float img = Some a /\ abs_admissible a = true /\
  tdb_dec true img = Ok (mkTdb 200 false 0x3ff0000000000000 0x4010000000000000 [(0x4004000000000000, 3)] 3 [0x3ff0000000000000]) /\
  abs_of (mkTdb 200 false 0x3ff0000000000000 0x4010000000000000 [(0x4004000000000000, 3)] 3 [0x3ff0000000000000]) = a /\
  let ref := [0; 0; 0; 2;  0x3f; 0xf0; 0; 0; 0; 0; 0; 0;  0x40; 0x10; 0; 0; 0; 0; 0; 0;  0x42; 0xc8; 0; 0;  0; 0xd2; 4; 0x1a;  0; 2;
              0x3f; 0x80; 0; 0;  0x3f; 0x80; 0; 0;   0x40; 0; 0; 0;  0x40; 0x80; 0; 0] in
  spec_decode_ref ref = Some (mkTdAbs 100 false (Some (0x3ff0000000000000, 0x4010000000000000))
                                [(0x3ff0000000000000, 1); (0x4010000000000000, 2)] []).
Proof.
  cbv zeta. repeat split; vm_compute; reflexivity.
Qed.
