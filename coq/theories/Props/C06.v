(* placeholder: filled below *)
From DS Require Import Base.Prelude Model.Cpc Model.CpcUnion.
Open Scope N_scope.
Example c06_placeholder : TS_FF = 255 /\ TS_FF2 = 255.
Proof. split; reflexivity. Qed.
