(* C06 -- CpcUnion = OR of the inputs' bit matrices, rows folded modulo the smallest lg_k.
   Statements only; proofs are in Proofs/CpcUnion{Spec,Lemmas,Proofs,Laws}.v (on top of the C05 development).

   Reading guide.
   * Spec (Proofs/CpcUnionSpec.v).  A matrix is a function row -> 64-bit word; an input is (lg_k, matrix) and
     is empty when its first 2^lg_k rows have no bit set.  [mfold lf lt M] folds the 2^lf rows of M modulo
     2^lt (row r of the result = OR of the rows r, r + 2^lt, r + 2*2^lt, ...);  [mor] is the row-wise OR.
     [uspec lg0 ins] applies the inputs one by one: an empty input is ignored, otherwise both sides are folded
     to the smaller lg_k and OR-ed.  Its closed form (c06_spec_closed_form) is
     ( lgmin = the smallest lg_k among the union and the NON-EMPTY inputs,  OR of every non-empty input folded to lgmin ).
     [mbelow K A B]: A and B agree on the rows below K (all a K-row sketch can see).
   * Model (Model/CpcUnion.v): union_new / union_update (reduce_k, cases A-D) / union_to_sketch mirror
     cpc/union.rs;  [union_of lg0 sks] is CpcUnion::new(lg0) followed by update(sk) for every sketch of the list.
   * [Vin s lg M]: s is a valid sketch of lg_k = lg representing M: the C05 invariant (Proofs/CpcStep.v, Inv)
     plus 64-bit rows.  Every sketch reachable by updates is one (c06_reachable_sketches_are_valid_inputs), and
     so is every union result (c06_cpc_union_refines returns Vin again), so unions of unions are covered.
   * Domain: the RESULT satisfies 8 C < 475 K ([dom]); folding can only raise C/K, so every intermediate union is
     then in the domain too (dom_fold_back).  Folding several dense sketches onto few rows can leave the domain:
     the crate then builds a sketch with window offset > 56 (outside the property, as in C05).
     Table capacity (as in C05: PairTable holds at most 3/4 * 2^min(26, lg_k + 5) pairs and asserts beyond):
     [usteps_fit]: the two table walks an update can contain - reduce_k re-inserting a non-empty sparse accumulator,
     case A merging a sparse source into the sparse accumulator - never outgrow the accumulator's table, in
     whatever order the pairs are visited ([fits_any]; nothing is asked once the union holds a bit matrix);
     [result_fits]: the surprising values of a dense result fit the table to_sketch builds.  Real (hashed) data is
     far from these limits; crafted inputs can reach them, and the crate then panics (model: Stuck).
   * Not verified (trusted, see tools/props/C06.py): PairTable's slot layout, hence the order in which
     walk_table_updating_sketch visits the source pairs (the theorems hold for EVERY order: the source table is an
     arbitrary duplicate-free list).  merge is on one seed. *)
From DS Require Import Base.Prelude Model.Cpc Model.CpcUnion Proofs.CpcBits Proofs.CpcSpec Proofs.CpcProofs Proofs.CpcInv
  Proofs.CpcStep Proofs.CpcUpdate Proofs.CpcMain Proofs.CpcUnionSpec Proofs.CpcUnionLemmas Proofs.CpcUnionProofs
  Proofs.CpcUnionLaws.
From Coq Require Import Permutation.
Open Scope N_scope.

(* The refinement theorem.  For every union lg_k and every sequence of valid input sketches (any lg_k, any
   flavor) whose result is inside the domain: no panic; the union's lg_k and num_coupons() are those of the
   Spec; to_sketch() yields a sketch s that is again a valid sketch (Vin) of exactly the Spec matrix:
   build_bit_matrix s = the Spec rows, num_coupons = its popcount, offset = determine_correct_offset <= 56,
   window present iff flavor > Sparse, first interesting column sound, validate() = true, and s is marked as
   merged (also when it is empty: repaired, known_findings.d/c06-cpc-empty-union-not-merged.json). *)
Theorem c06_cpc_union_refines : forall lg0 l,
  4 <= lg0 <= 26 -> Forall (fun x => Vin (fst (fst x)) (snd (fst x)) (snd x)) l ->
  dom (uspec lg0 (ins_of l)) ->
  usteps_fit (lg0, mzero) (ins_of l) -> result_fits (fst (uspec lg0 (ins_of l))) (snd (uspec lg0 (ins_of l))) ->
  exists u, union_of lg0 (map (fun x => fst (fst x)) l) = Ok u /\
    u_lgk u = fst (uspec lg0 (ins_of l)) /\
    union_num_coupons u = pop_rows (snd (uspec lg0 (ins_of l))) (Knat (fst (uspec lg0 (ins_of l)))) /\
    exists s, union_to_sketch u = Ok s /\
      Vin s (fst (uspec lg0 (ins_of l))) (snd (uspec lg0 (ins_of l))) /\
      build_bit_matrix s = Ok (rows_of (snd (uspec lg0 (ins_of l))) (Knat (fst (uspec lg0 (ins_of l))))) /\
      c_lgk s = fst (uspec lg0 (ins_of l)) /\
      c_num s = pop_rows (snd (uspec lg0 (ins_of l))) (Knat (fst (uspec lg0 (ins_of l)))) /\
      c_off s = determine_correct_offset (fst (uspec lg0 (ins_of l))) (c_num s) /\
      c_off s <= 56 /\
      (c_win s = [] <-> cpc_flavor s <= SPARSE) /\
      fic_ok (fst (uspec lg0 (ins_of l))) s (snd (uspec lg0 (ins_of l))) /\
      cpc_validate s = Ok true /\
      c_merge s = true.
Proof. exact cpc_union_refines. Qed.

(* the step-by-step Spec is the closed form of the property text: smallest lg_k among the union and the
   non-empty inputs, OR of the non-empty inputs folded to it *)
Theorem c06_spec_closed_form : forall lg0 ins,
  fst (uspec lg0 ins) = lgmin lg0 ins /\
  mbelow (2 ^ lgmin lg0 ins) (snd (uspec lg0 ins)) (or_spec lg0 ins).
Proof. exact uspec_closed. Qed.

(* one update, for a union in any represented state (accumulator or bit matrix): reduce_k and the cases A-D *)
Theorem c06_union_update_refines : forall u lg M si lgi Mi,
  Urep u lg M -> Vin si lgi Mi ->
  8 * pop_rows (snd (uspec_step (lg, M) (lgi, Mi))) (Knat (fst (uspec_step (lg, M) (lgi, Mi)))) <
    475 * 2 ^ fst (uspec_step (lg, M) (lgi, Mi)) ->
  ustep_fits lg M lgi Mi ->
  exists u', union_update u si = Ok u' /\
             Urep u' (fst (uspec_step (lg, M) (lgi, Mi))) (snd (uspec_step (lg, M) (lgi, Mi))).
Proof. exact union_update_ok. Qed.

(* to_sketch of any represented union state: the result is a valid sketch of the same matrix *)
Theorem c06_cpc_union_result_wf : forall u lg M, Urep u lg M -> 8 * pop_rows M (Knat lg) < 475 * 2 ^ lg ->
  result_fits lg M ->
  exists s, union_to_sketch u = Ok s /\ Inv lg s M /\ c_merge s = true.
Proof. exact union_to_sketch_ok. Qed.

(* a union result stays a valid sketch under further updates (C05's run_inv for any valid starting sketch): every
   further stream of valid pairs inside the domain and the table capacity is absorbed without panic, and the
   sketch then represents the OR-ed matrix plus the new pairs *)
Theorem c06_union_result_updatable : forall s lg M cs,
  Vin s lg M -> Forall (valid lg) cs ->
  8 * pop_rows (fold_left spec_update cs M) (Knat lg) < 475 * 2 ^ lg -> fits_stream lg M cs ->
  exists s', run_from s cs = Ok s' /\ Vin s' lg (fold_left spec_update cs M).
Proof. exact union_result_updatable. Qed.

(* a union in the BitMatrix state always holds at least 3K/32 coupons (the code relies on it silently:
   to_sketch always builds a window) *)
Theorem c06_union_bitmatrix_not_sparse : forall u lg M m, Urep u lg M -> u_st u = UMat m ->
  3 * 2 ^ lg <= 32 * count_bits_set_in_matrix m.
Proof. exact union_bitmatrix_not_sparse. Qed.

(* commutativity and associativity: any reordering of the inputs gives the same lg_k, coupon count, matrix,
   offset and flavor *)
Theorem c06_cpc_union_order_irrelevant : forall lg0 l l',
  4 <= lg0 <= 26 -> Forall (fun x => Vin (fst (fst x)) (snd (fst x)) (snd x)) l -> Permutation l l' ->
  dom (uspec lg0 (ins_of l)) ->
  usteps_fit (lg0, mzero) (ins_of l) -> usteps_fit (lg0, mzero) (ins_of l') ->
  result_fits (fst (uspec lg0 (ins_of l))) (snd (uspec lg0 (ins_of l))) ->
  exists u u' s s',
    union_of lg0 (map (fun x => fst (fst x)) l) = Ok u /\ union_of lg0 (map (fun x => fst (fst x)) l') = Ok u' /\
    union_to_sketch u = Ok s /\ union_to_sketch u' = Ok s' /\
    u_lgk u' = u_lgk u /\ union_num_coupons u' = union_num_coupons u /\
    build_bit_matrix s' = build_bit_matrix s /\ c_lgk s' = c_lgk s /\ c_num s' = c_num s /\ c_off s' = c_off s /\
    cpc_flavor s' = cpc_flavor s.
Proof. exact cpc_union_order_irrelevant. Qed.

(* idempotence: an input fed a second time changes nothing *)
Theorem c06_cpc_union_repetition_irrelevant : forall lg0 l x,
  4 <= lg0 <= 26 -> Forall (fun x => Vin (fst (fst x)) (snd (fst x)) (snd x)) l -> In x l ->
  dom (uspec lg0 (ins_of l)) ->
  usteps_fit (lg0, mzero) (ins_of l) -> usteps_fit (lg0, mzero) (ins_of (l ++ [x])) ->
  result_fits (fst (uspec lg0 (ins_of l))) (snd (uspec lg0 (ins_of l))) ->
  exists u u' s s',
    union_of lg0 (map (fun x => fst (fst x)) l) = Ok u /\ union_of lg0 (map (fun x => fst (fst x)) (l ++ [x])) = Ok u' /\
    union_to_sketch u = Ok s /\ union_to_sketch u' = Ok s' /\
    u_lgk u' = u_lgk u /\ union_num_coupons u' = union_num_coupons u /\
    build_bit_matrix s' = build_bit_matrix s /\ c_lgk s' = c_lgk s /\ c_num s' = c_num s /\ c_off s' = c_off s /\
    cpc_flavor s' = cpc_flavor s.
Proof. exact cpc_union_repetition_irrelevant. Qed.

(* the same laws on the Spec itself *)
Theorem c06_spec_order_irrelevant : forall lg0 ins ins', Permutation ins ins' ->
  fst (uspec lg0 ins) = fst (uspec lg0 ins') /\
  mbelow (2 ^ fst (uspec lg0 ins)) (snd (uspec lg0 ins)) (snd (uspec lg0 ins')).
Proof. exact uspec_perm. Qed.

Theorem c06_spec_idempotent : forall lg0 ins i, In i ins ->
  fst (uspec lg0 (ins ++ [i])) = fst (uspec lg0 ins) /\
  mbelow (2 ^ fst (uspec lg0 ins)) (snd (uspec lg0 (ins ++ [i]))) (snd (uspec lg0 ins)).
Proof. exact uspec_idem. Qed.

(* fold lemmas *)
Theorem c06_fold_fold : forall l1 l2 l3 M, l3 <= l2 -> l2 <= l1 ->
  mbelow (2 ^ l3) (mfold l2 l3 (mfold l1 l2 M)) (mfold l1 l3 M).
Proof. exact mfold_fold. Qed.

Theorem c06_fold_or : forall lf lt A B r, mfold lf lt (mor A B) r = mor (mfold lf lt A) (mfold lf lt B) r.
Proof. exact mfold_or. Qed.

(* C_folded >= C / f *)
Theorem c06_fold_popcount : forall lf lt M, lt <= lf ->
  pop_rows M (Knat lf) <= 2 ^ (lf - lt) * pop_rows (mfold lf lt M) (Knat lt).
Proof. exact pop_fold'. Qed.

(* every sketch reachable by updates (C05) is a valid union input *)
Theorem c06_reachable_sketches_are_valid_inputs : forall lgk cs s,
  4 <= lgk <= 26 -> Forall (valid lgk) cs -> 8 * distinct cs < 475 * 2 ^ lgk -> cpc_fits lgk cs ->
  cpc_run lgk cs = Ok s -> Vin s lgk (spec cs).
Proof. exact cpc_run_vin. Qed.

(* the two 0xFF literals of to_sketch, as translated on this run *)
Theorem c06_to_sketch_literals : TS_FF = 255 /\ TS_FF2 = 255.
Proof. exact (conj eq_refl eq_refl). Qed.

(* non-vacuity: union (lg_k 6) of a pinned lg_k-5 sketch, an empty lg_k-4 sketch and a sparse lg_k-5 sketch;
   the empty input does not lower lg_k (result lg_k 5), the union ends in the bit-matrix state,
   23 coupons, and the result sketch reproduces the Spec matrix *)
Definition c06_ex_s1 : list N := map (fun r => r * 64) (map N.of_nat (seq 0 20)) ++ [3 * 64 + 1; 3 * 64 + 9].
Definition c06_ex_s3 : list N := [31 * 64 + 2; 3 * 64 + 1].

Example c06_example :
  exists s1 s2 s3,
    cpc_run 5 c06_ex_s1 = Ok s1 /\ cpc_run 4 [] = Ok s2 /\ cpc_run 5 c06_ex_s3 = Ok s3 /\
    let l := [(s1, 5, spec c06_ex_s1); (s2, 4, spec []); (s3, 5, spec c06_ex_s3)] in
    Forall (fun x => Vin (fst (fst x)) (snd (fst x)) (snd x)) l /\
    dom (uspec 6 (ins_of l)) /\ fst (uspec 6 (ins_of l)) = 5 /\
    usteps_fit (6, mzero) (ins_of l) /\ result_fits (fst (uspec 6 (ins_of l))) (snd (uspec 6 (ins_of l))) /\
    exists u s, union_of 6 [s1; s2; s3] = Ok u /\ union_num_coupons u = 23 /\
                (exists m, u_st u = UMat m) /\
                union_to_sketch u = Ok s /\ c_num s = 23 /\ c_merge s = true /\
                build_bit_matrix s = Ok (rows_of (snd (uspec 6 (ins_of l))) 32).
Proof.
  eexists. eexists. eexists. split; [vm_compute; reflexivity|]. split; [vm_compute; reflexivity|]. split; [vm_compute; reflexivity|].
  split.
  { constructor; [|constructor; [|constructor; [|constructor]]]; cbn [fst snd].
    - apply cpc_run_vin; [lia| |vm_compute; reflexivity|apply fits_streamb_sound; vm_compute; reflexivity|vm_compute; reflexivity].
      unfold valid. repeat constructor; vm_compute; congruence.
    - apply cpc_run_vin; [lia|constructor|vm_compute; reflexivity|exact I|vm_compute; reflexivity].
    - apply cpc_run_vin; [lia| |vm_compute; reflexivity|apply fits_streamb_sound; vm_compute; reflexivity|vm_compute; reflexivity].
      unfold valid. repeat constructor; vm_compute; congruence. }
  split; [vm_compute; reflexivity|]. split; [vm_compute; reflexivity|].
  split.
  { (* the only table walk is reduce_k of the still empty accumulator; afterwards the union holds a bit matrix *)
    cbn [usteps_fit ins_of map fst snd]. split; [|split; [|split; [|exact I]]].
    - split.
      + intros _ _. apply fits_any_nil. intros r c _. rewrite mfold_zero. apply N.bits_0.
      + intros H. exfalso. vm_compute in H. discriminate.
    - split.
      + intros _ H. exfalso. vm_compute in H. discriminate.
      + intros _ H. exfalso. vm_compute in H. discriminate.
    - split.
      + intros H. exfalso. vm_compute in H. discriminate.
      + intros _ H. exfalso. vm_compute in H. discriminate. }
  split; [intros _; vm_compute; reflexivity|].
  eexists. eexists. split; [vm_compute; reflexivity|]. split; [vm_compute; reflexivity|].
  split; [eexists; vm_compute; reflexivity|]. split; [vm_compute; reflexivity|].
  split; [vm_compute; reflexivity|]. split; [vm_compute; reflexivity|]. vm_compute. reflexivity.
Qed.

(* the walk hypothesis of c06_cpc_union_refines (usteps_fit, made of fits_any) is dischargeable beyond the empty source:
   if the union of the accumulator's and the source's matrices is still in the sparse range (C < 3K/32), no visiting order
   of the source's pairs can outgrow the accumulator's table (in sparse mode the table holds exactly the coupons, and
   3K/32 is below every table's capacity).  [load lg A false 0] is the number of set positions of A: the hypothesis on A
   holds for every concrete matrix by computation, and for the all-zero matrix by c06_load_zero. *)
Theorem c06_fits_any_sparse : forall lg A B, lg <= 26 ->
  load lg A false 0 <= pop_rows A (Knat lg) ->
  32 * pop_rows (mor A B) (Knat lg) < 3 * 2 ^ lg ->
  fits_any lg A B.
Proof. exact fits_any_sparse. Qed.

Theorem c06_load_zero : forall lg M wd, (forall r c, N.testbit (M r) c = false) -> wd = false -> load lg M wd 0 = 0.
Proof. exact load_zero. Qed.

(* non-vacuity through merge case A (a sparse source walked into the sparse accumulator): two overlapping sparse
   lg_k-6 sketches into a lg_k-6 union; the union stays an accumulator with the 5 distinct coupons *)
Definition c06_ex_a1 : list N := [3 * 64 + 1; 7 * 64; 50 * 64 + 5].
Definition c06_ex_a2 : list N := [3 * 64 + 1; 9 * 64 + 2; 63 * 64 + 40].

Example c06_example_case_a :
  exists s1 s2,
    cpc_run 6 c06_ex_a1 = Ok s1 /\ cpc_run 6 c06_ex_a2 = Ok s2 /\
    let l := [(s1, 6, spec c06_ex_a1); (s2, 6, spec c06_ex_a2)] in
    Forall (fun x => Vin (fst (fst x)) (snd (fst x)) (snd x)) l /\
    dom (uspec 6 (ins_of l)) /\
    usteps_fit (6, mzero) (ins_of l) /\ result_fits (fst (uspec 6 (ins_of l))) (snd (uspec 6 (ins_of l))) /\
    exists u s, union_of 6 [s1; s2] = Ok u /\ union_num_coupons u = 5 /\
                (exists a, u_st u = UAcc a) /\
                union_to_sketch u = Ok s /\ c_num s = 5 /\ c_merge s = true.
Proof.
  eexists. eexists. split; [vm_compute; reflexivity|]. split; [vm_compute; reflexivity|].
  split.
  { constructor; [|constructor; [|constructor]]; cbn [fst snd].
    - apply cpc_run_vin; [lia| |vm_compute; reflexivity|apply fits_streamb_sound; vm_compute; reflexivity|vm_compute; reflexivity].
      unfold valid. repeat constructor; vm_compute; congruence.
    - apply cpc_run_vin; [lia| |vm_compute; reflexivity|apply fits_streamb_sound; vm_compute; reflexivity|vm_compute; reflexivity].
      unfold valid. repeat constructor; vm_compute; congruence. }
  split; [vm_compute; reflexivity|].
  split.
  { cbn [usteps_fit ins_of map fst snd]. split; [|split; [|exact I]].
    - split; [intros H; exfalso; vm_compute in H; discriminate|].
      intros _ _. apply fits_any_sparse; [vm_compute; congruence| |vm_compute; reflexivity].
      rewrite load_zero; [apply N.le_0_l| |reflexivity]. intros r c. rewrite mfold_zero. apply N.bits_0.
    - split; [intros H; exfalso; vm_compute in H; discriminate|].
      intros _ _. apply fits_any_sparse; [vm_compute; congruence| |vm_compute; reflexivity].
      apply N.leb_le. vm_compute. reflexivity. }
  split; [intros H; exfalso; vm_compute in H; apply H; reflexivity|].
  eexists. eexists. split; [vm_compute; reflexivity|]. split; [vm_compute; reflexivity|].
  split; [eexists; vm_compute; reflexivity|]. split; [vm_compute; reflexivity|].
  split; vm_compute; reflexivity.
Qed.
