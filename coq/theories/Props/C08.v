(* C08 — Count-Min never under-counts; its table is the exact sum of hashed weights.
   Statements only; proofs are in Proofs/CountMinProofs.v.  The bucket function is
   ARBITRARY (any function into [0, nb)), so the theorems hold for the crate's
   MurmurHash-derived buckets in particular (tied by the correspondence check and C16). *)
From DS Require Import Base.Prelude Model.CountMin Proofs.CountMinProofs Proofs.CountMinCodec Proofs.CountMinApi.
Open Scope N_scope.

(* Any update stream whose total weight fits the counter type: no panic, total_weight is
   the exact sum, every cell is the exact sum of the weights hashed to it, and for EVERY
   item (seen or not)  truth <= estimate <= total_weight. *)
Theorem c08_stream_table_exact_and_no_undercount :
  forall nh nb mx sh (bucket : N -> N -> N),
  nh <> 0 -> 0 < nb -> (forall x r, bucket x r < nb) ->
  forall h : hist, weight h <= mx ->
  exists s, run_updates nh bucket (cm_fresh nh nb mx sh) h = Ok s /\
    cm_total s = weight h /\
    (forall r b, r < nh -> b < nb -> cell nb (cm_counts s) r b = cell_spec bucket h r b) /\
    (forall x, truth h x <= cm_estimate s (bk_of nh bucket x) /\ cm_estimate s (bk_of nh bucket x) <= cm_total s).
Proof. exact stream_exact. Qed.

(* merge adds tables and totals element-wise: the merged sketch holds exactly the
   concatenated history (so all of the above holds for it again). *)
Theorem c08_merge_adds :
  forall nh nb mx sh, 0 < nb -> forall (bucket : N -> N -> N), (forall x r, bucket x r < nb) ->
  forall s o h1 h2, Rep nh nb mx sh bucket s h1 -> Rep nh nb mx sh bucket o h2 ->
  weight h1 + weight h2 <= mx ->
  exists s', cm_merge s o = Ok s' /\ Rep nh nb mx sh bucket s' (h1 ++ h2).
Proof. exact merge_rep. Qed.

Theorem c08_rep_gives_bounds :
  forall nh nb mx sh, 0 < nb -> forall (bucket : N -> N -> N), (forall x r, bucket x r < nb) ->
  forall s h x, Rep nh nb mx sh bucket s h -> nh <> 0 -> weight h <= mx ->
  truth h x <= cm_estimate s (bk_of nh bucket x) /\ cm_estimate s (bk_of nh bucket x) <= cm_total s.
Proof. exact estimate_bounds. Qed.

(* halve / decay: for any interleaving of updates, halve and decay by ANY monotone
   scaling g with g 0 = 0 and g c <= c, the estimate stays >= the correspondingly scaled
   truth (the same operations applied to the item's own weight). *)
Theorem c08_halve_decay_one_sided :
  forall nh nb mx sh (bucket : N -> N -> N),
  nh <> 0 -> 0 < nb -> (forall x r, bucket x r < nb) ->
  forall ops, Forall sop_ok ops -> sum_w ops <= mx ->
  exists s, run_sops nh bucket (cm_fresh nh nb mx sh) ops = Ok s /\
    forall x, truth_sops (fun _ => 0) ops x <= cm_estimate s (bk_of nh bucket x) /\
              cm_estimate s (bk_of nh bucket x) <= cm_total s.
Proof. exact mixed_one_sided. Qed.

(* merges INTERLEAVED with halve / decay (any merge tree whose operands were themselves halved or decayed,
   round trips included): for every item, its correspondingly scaled true weight [ptruth p x] (the same
   operations applied to the item's own weight) <= estimate <= total weight.  [pweight p] is the sum of ALL
   weights ever fed into the program (merged partners included): the hypothesis pweight p <= T::MAX is
   stronger than "the final total fits" when halve / decay shrank the total in between. *)
Theorem c08_programs_one_sided :
  forall nh nb mx sh, 1 <= nh < 256 -> 3 <= nb < 4294967296 -> nh * nb < zN Gen.GenCountMin.MAX_TABLE_ENTRIES ->
  0 < sh < 65536 -> mx < M64 ->
  forall bucket : N -> N -> N, (forall x r, bucket x r < nb) ->
  forall p s x, pok nh nb mx sh p -> pweight mx sh p <= mx -> eval nh nb mx sh bucket p = Ok s ->
  ptruth p x <= cm_estimate s (bk_of nh bucket x) /\ cm_estimate s (bk_of nh bucket x) <= cm_total s.
Proof. exact api_one_sided. Qed.

(* the crate's (repaired) decay is c -> min(f c, c) with f c = trunc(c as f64 * d): an admissible scaling
   (monotone, 0 -> 0, never growing) as soon as the float part f is monotone; the clamp gives the other two
   for ANY f.  Monotonicity of f (IEEE round-to-nearest is monotone) is an assumption, checked on every run
   by the oracle on all counter values it sees (Corr/CountMin.v, layout_from op 6). *)
Theorem c08_decay_is_admissible_scaling :
  forall f : N -> N, (forall a b, a <= b -> f a <= f b) -> sop_ok (SScale (decay_clamp f)).
Proof. exact decay_clamp_ok. Qed.

Theorem c08_decay_never_grows : forall (f : N -> N) c, decay_clamp f c <= c.
Proof. exact decay_clamp_le. Qed.

(* the constructor in its documented range yields the fresh sketch the theorems start from *)
Theorem c08_new_in_range :
  forall nh nb mx sh, nh <> 0 -> 3 <= nb -> nh * nb < zN Gen.GenCountMin.MAX_TABLE_ENTRIES -> sh <> 0 ->
  cm_new nh nb mx sh = Ok (cm_fresh nh nb mx sh).
Proof. exact cm_new_fresh. Qed.

(* non-vacuity: a concrete two-row sketch with colliding items *)
Example c08_example :
  let bucket := fun x r => (x + r) mod 3 in
  exists s, run_updates 2 bucket (cm_fresh 2 3 255 7) [(1, 5); (4, 2); (2, 1)] = Ok s /\
            cm_estimate s (bk_of 2 bucket 1) = 7 /\ cm_total s = 8.
Proof. eexists. split; [vm_compute; reflexivity|]. split; reflexivity. Qed.

(* non-vacuity of the program theorem: a merge whose left operand was halved and whose right operand was
   decayed by c -> min(c * 3 / 4, c); item 1 was fed 10 (-> 5) on the left and 8 (-> 6) on the right *)
Example c08_program_example :
  let bucket := fun x r => (x + r) mod 3 in
  let p := PMerge (PHalve (PUpd (PUpd PNew 1 10) 4 3)) (PScale (decay_clamp (fun c => c * 3 / 4)) (PUpd PNew 1 8)) in
  ptruth p 1 = 11 /\
  exists s, eval 2 3 255 7 bucket p = Ok s /\ cm_estimate s (bk_of 2 bucket 1) = 12 /\ cm_total s = 12.
Proof. split; [reflexivity|]. eexists. split; [vm_compute; reflexivity|]. split; reflexivity. Qed.
