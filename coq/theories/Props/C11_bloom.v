(* C11 (Bloom part) - serialize then deserialize is lossless.  Statements only; proofs in
   Proofs/BloomCodec.v and Proofs/BloomProofs.v.

   [wf] (Proofs/BloomProofs.v): 1 <= num_hashes <= 32767, seed < 2^64, 0 < words < 2^31, every word
   < 2^64, num_bits_set = number of set positions of the array.  [hist] / [eval]: every expression over
   new, insert, contains_and_insert, union, intersect, invert, reset and the round trip itself. *)
From DS Require Import Base.Prelude Model.Bloom Proofs.BloomProofs Proofs.BloomCodec.
Open Scope N_scope.

(* deserialize(serialize f) is f itself - so every query (contains, bits_used, capacity, is_empty ...),
   the re-serialized bytes and the behaviour under all further operations coincide *)
Theorem c11_bloom_roundtrip : forall f, wf f -> bf_deserialize (bf_serialize f) = Ok f.
Proof. exact roundtrip_wf. Qed.

Theorem c11_bloom_roundtrip_same :
  forall f f', wf f -> bf_deserialize (bf_serialize f) = Ok f' -> f' = f /\ bf_serialize f' = bf_serialize f.
Proof. exact roundtrip_same. Qed.

(* every state reachable through the public API (any configuration in the builder's ranges, any history,
   any digests) is well formed, hence survives the round trip *)
Theorem c11_bloom_reachable_roundtrip :
  forall num_bits nh seed, size_ok num_bits nh seed ->
  forall h : hist, exists f, eval num_bits nh seed h = Ok f /\ wf f /\ bf_deserialize (bf_serialize f) = Ok f.
Proof. exact reachable_roundtrip. Qed.

(* non-vacuity: a 2-word filter after two inserts, a union and an invert is well formed (so the theorem
   applies) and round-trips *)
Example c11_bloom_example :
  let h := HInvert (HUnion (HInsert (HInsert HNew 11 7) 5 9) (HContainsAndInsert HNew 100 3)) in
  size_ok 100 3 9001 /\
  exists f, eval 100 3 9001 h = Ok f /\ bf_used f = 120 /\ length (bf_serialize f) = 48%nat /\
            bf_deserialize (bf_serialize f) = Ok f.
Proof.
  split; [vm_compute; repeat split; discriminate|].
  eexists. split; [vm_compute; reflexivity|]. repeat split.
Qed.
