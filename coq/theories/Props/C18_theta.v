(* C18, theta part -- a theta sketch retains at most 15/16 * 2k entries (k after trim), and its
   compact image has 8 * preamble_longs + 8 * retained bytes.  Statements only; proofs in
   Proofs/ThetaKmv.v (capacity), Proofs/ThetaCodec.v, Proofs/ThetaCodecReach.v. *)
From DS Require Import Base.Prelude Base.ThetaLib Model.Theta Model.ThetaCodec.
From DS Require Import Proofs.ThetaProofs Proofs.ThetaKmv Proofs.ThetaCodec Proofs.ThetaCodecReach.
Open Scope N_scope.

(* theta_retained_bound: n <= 15/16 * 2^(lg_k+1) after every operation of every history *)
Theorem c18_theta_retained_bound :
  forall reorder, reorder_ok reorder -> forall c ops s, cfg_ok c -> reach reorder c ops s ->
  16 * sk_num_retained s <= 15 * 2 ^ (c_lg_nom c + 1).
Proof. exact retained_bound. Qed.

(* ... and exactly min(n, k) after trim() *)
Theorem c18_theta_retained_after_trim :
  forall reorder, reorder_ok reorder -> forall c ops s, cfg_ok c -> reach reorder c ops s ->
  exists s', reach reorder c (ops ++ [OTrim]) s' /\ sk_num_retained s' = N.min (sk_num_retained s) (2 ^ c_lg_nom c).
Proof. exact retained_after_trim. Qed.

(* the uncompressed image: 8 * preamble_longs + 8 * entries bytes, for any compact sketch *)
Theorem c18_theta_image_size :
  forall c, length (c_serialize c) = (8 * N.to_nat (c_preamble_longs c) + 8 * length (ce_entries c))%nat.
Proof. exact serialize_size. Qed.

(* hence bounded by the configuration: at most 24 + 8 * 15/16 * 2^(lg_k+1) bytes (written times 16) *)
Theorem c18_theta_image_size_bound :
  forall reorder, reorder_ok reorder -> forall c ops s ordered, cfg_ok c -> reach reorder c ops s ->
  let k := sk_compact s ordered in
  length (c_serialize k) = (8 * N.to_nat (c_preamble_longs k) + 8 * N.to_nat (sk_num_retained s))%nat /\
  (N.to_nat (c_preamble_longs k) <= 3)%nat /\
  16 * N.of_nat (length (c_serialize k)) <= 16 * 24 + 8 * (15 * 2 ^ (c_lg_nom c + 1)).
Proof. exact image_size_bound. Qed.

Example c18_theta_example :
  let c := mkCfg 5 1 0x3ff0000000000000 37836 in
  exists s, reach ascending c (map OUpdate (rangeN 60 1)) s /\ sk_num_retained s = 60 /\
            16 * 60 = 15 * 2 ^ (5 + 1) /\ length (c_serialize (sk_compact s true)) = (16 + 8 * 60)%nat.
Proof. eexists. split; [vm_compute; reflexivity|]. vm_compute. repeat split; reflexivity. Qed.
