(* C12, t-digest part -- the emitted bytes follow the cross-language layout: the independent layout
   decoder (Spec/TDigestLayout.v, written from the format description with literal constants)
   recovers exactly the abstract state from the bytes the modelled writer emits.  Statements only;
   proofs in Proofs/TDigestLayoutProofs.v. *)
From DS Require Import Base.Prelude Base.TDigestBits Model.TDigestCodec Spec.TDigestLayout Proofs.TDigestCodec Proofs.TDigestLayoutProofs.
Open Scope N_scope.

(* [abs_of s]: k, reverse_merge, (min, max) unless empty, centroids, buffered values *)
Theorem c12_tdigest_writer_conforms : forall s, wfb s -> spec_decode Double (tdb_enc s) = Some (abs_of s).
Proof. exact writer_conforms. Qed.

(* the constants the crate uses (translated from the source on this run) are the specification's *)
Theorem c12_tdigest_constants :
  PRE1 = 1 /\ PRE2 = 2 /\ SERVER = 1 /\ FAMID = 20 /\ F_EMPTY = 1 /\ F_SINGLE = 2 /\ F_REV = 4 /\
  COMPAT_DOUBLE = 1 /\ COMPAT_FLOAT = 2 /\ MINK = 10.
Proof. exact layout_constants. Qed.

Example c12_tdigest_example :
  spec_decode Double [2; 1; 20; 100; 0; 4; 0; 0;  1; 0; 0; 0;  0; 0; 0; 0;  0; 0; 0; 0; 0; 0; 0xf0; 0x3f;  0; 0; 0; 0; 0; 0; 0x10; 0x40;
                      0; 0; 0; 0; 0; 0; 4; 0x40;  2; 0; 0; 0; 0; 0; 0; 0]
  = Some (mkTdAbs 100 true (Some (0x3ff0000000000000, 0x4010000000000000)) [(0x4004000000000000, 2)] []).
Proof. vm_compute. reflexivity. Qed.
