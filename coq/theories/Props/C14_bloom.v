(* C14 (Bloom part) - malformed bytes yield an error, never a panic or runaway allocation: the modelled
   reader is a total function that reaches no modelled panic site (Stuck) for ANY byte list, whatever it
   accepts is well formed (so every later operation is safe: C17_bloom), and the array it allocates is
   backed by input bytes unless the image carries the EMPTY flag.  Statements only. *)
From DS Require Import Base.Prelude Model.Bloom Proofs.BloomProofs Proofs.BloomCodec.
Open Scope N_scope.

Theorem c14_bloom_never_stuck : forall bs, bf_deserialize bs <> Stuck.
Proof. exact deserialize_never_stuck. Qed.

(* long_form bs: bit 2 of the flags byte is clear.  bf_alloc_bytes: what deserialize() allocates for the bit array. *)
Theorem c14_bloom_ok_is_wf :
  forall bs f, bytes_ok bs = true -> bf_deserialize bs = Ok f ->
  wf f /\ (24 <= length bs)%nat /\
  (long_form bs -> (32 + 8 * length (bf_words f) <= length bs)%nat) /\
  (~ long_form bs -> bf_used f = 0 /\ Forall (fun w => w = 0) (bf_words f)) /\
  bf_alloc_bytes bs = 8 * N.of_nat (length (bf_words f)).
Proof. exact deserialize_ok_wf. Qed.

(* for ANY bytes, accepted or not: a long-form image never makes the reader allocate more than the input holds.
   (The short form legitimately denotes an all-zero array of the announced size: known finding C14-bloom-empty-alloc.) *)
Theorem c14_bloom_alloc_justified :
  forall bs, long_form bs -> bf_alloc_bytes bs + 32 <= N.of_nat (length bs) \/ bf_alloc_bytes bs = 0.
Proof. exact alloc_justified. Qed.

(* bf_alloc_bytes is not a free-standing cost function: the instrumented reader bf_deserialize_cost (Model/Bloom.v)
   follows deserialize()'s control flow and records the request vec![0u64; num_words] where it happens; its outcome IS
   bf_deserialize's and what it requests IS bf_alloc_bytes *)
Theorem c14_bloom_cost_is_reader :
  forall bs, fst (bf_deserialize_cost bs) = bf_deserialize bs /\ snd (bf_deserialize_cost bs) = bf_alloc_bytes bs.
Proof. exact deserialize_cost_spec. Qed.

(* ... so, on the reader's own path and whatever the outcome (Ok, Err before or after the allocation): *)
Theorem c14_bloom_reader_alloc_justified :
  forall bs, long_form bs ->
  snd (bf_deserialize_cost bs) + 32 <= N.of_nat (length bs) \/ snd (bf_deserialize_cost bs) = 0.
Proof. exact reader_alloc_justified. Qed.

(* the known exception, as a witness: a short-form image exists on which the allocation is out of proportion *)
Theorem c14_bloom_known_empty_alloc :
  ~ long_form empty_alloc_image /\ length empty_alloc_image = 24%nat /\
  bf_alloc_bytes empty_alloc_image = 536870912 /\ 64 * 24 + 1048576 < bf_alloc_bytes empty_alloc_image.
Proof. exact empty_alloc_witness. Qed.

(* a value returned as Ok can be queried, updated, inverted, merged and re-serialized without reaching a panic site *)
Theorem c14_bloom_ok_is_usable :
  forall f, wf f ->
  (forall h0 h1, wf (bf_insert f h0 h1) /\ same_cfg f (bf_insert f h0 h1)) /\
  (forall h0 h1, wf (snd (bf_contains_and_insert f h0 h1)) /\ same_cfg f (snd (bf_contains_and_insert f h0 h1))) /\
  (wf (bf_reset f) /\ same_cfg f (bf_reset f)) /\
  (exists g, bf_invert f = Ok g /\ wf g /\ same_cfg f g) /\
  (forall g, wf g -> bf_is_compatible f g = true ->
     (exists u, bf_union f g = Ok u /\ wf u /\ same_cfg f u) /\ (exists i, bf_intersect f g = Ok i /\ wf i /\ same_cfg f i)) /\
  bf_deserialize (bf_serialize f) = Ok f /\
  bf_used f + 1 < 2 ^ 64 /\ 0 < bf_capacity f /\
  (forall h0 h1 p, In p (item_positions f h0 h1) -> p / 64 < N.of_nat (length (bf_words f))).
Proof. exact wf_ops_safe. Qed.

(* non-vacuity: an accepted 40-byte image (1 word, dirty count); a 32-byte image announcing 2^31-1 words
   is rejected without being charged any allocation; a stale count is rejected *)
Example c14_bloom_example :
  let img := [4; 1; 21; 0; 3; 0; 0; 0; 41; 35; 0; 0; 0; 0; 0; 0; 1; 0; 0; 0; 0; 0; 0; 0] in
  bf_deserialize (img ++ [255; 255; 255; 255; 255; 255; 255; 255; 7; 0; 0; 0; 0; 0; 0; 0]) = Ok (mkBloom 9001 3 3 [7]) /\
  bf_deserialize (img ++ [64; 0; 0; 0; 0; 0; 0; 0; 0; 0; 0; 0; 0; 0; 0; 0]) = Err /\
  let big := [4; 1; 21; 0; 3; 0; 0; 0; 41; 35; 0; 0; 0; 0; 0; 0; 255; 255; 255; 127; 0; 0; 0; 0; 0; 0; 0; 0; 0; 0; 0; 0] in
  bf_deserialize big = Err /\ bf_alloc_bytes big = 0.
Proof. vm_compute. repeat split. Qed.
