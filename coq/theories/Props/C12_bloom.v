(* C12 (Bloom part) - emitted bytes follow the cross-language layout: the independent decoder of
   Spec/BloomLayout.v (written from the format description, literal constants only) recovers exactly
   the abstract state from the bytes the modelled writer emits.  Statements only. *)
From DS Require Import Base.Prelude Model.Bloom Spec.BloomLayout Proofs.BloomProofs Proofs.BloomCodec.
Open Scope N_scope.

(* abs_of f = (num_hashes, seed, number of words, the words, num_bits_set) *)
Theorem c12_bloom_writer_conforms :
  forall f, wf f -> spec_decode (bf_serialize f) = Some (abs_of f).
Proof. exact writer_conforms. Qed.

(* the writer's output IS the specification's encoding: short form for the empty filter, long form with
   the exact count otherwise, zeros in the unused fields *)
Theorem c12_bloom_writer_is_spec_encoding :
  forall f, bf_serialize f = enc_spec (writer_variant f) (abs_of f).
Proof. exact serialize_is_enc_spec. Qed.

(* decoder and encoder of the specification agree on every variant *)
Theorem c12_bloom_spec_decode_enc_spec :
  forall v a, abs_wf a -> variant_ok v a -> spec_decode (enc_spec v a) = Some a.
Proof. exact spec_decode_enc_spec. Qed.

(* the constants the crate uses (re-read from the source on this run) are the specification's *)
Theorem c12_bloom_constants :
  zN Gen.GenBloom.SERIAL_VERSION = 1 /\ zN Gen.GenBloom.EMPTY_FLAG_MASK = 4 /\ zN Gen.GenCodec.FAMILY_BLOOMFILTER_ID = 21 /\
  zN Gen.GenCodec.FAMILY_BLOOMFILTER_MIN_PRE_LONGS = 3 /\ zN Gen.GenCodec.FAMILY_BLOOMFILTER_MAX_PRE_LONGS = 4 /\
  zN Gen.GenBloom.DIRTY_BITS_VALUE = 18446744073709551615.
Proof. exact layout_constants. Qed.

(* non-vacuity: a well-formed 2-word filter with bits 0, 1 and 64 set; its image is the documented 48 bytes *)
Example c12_bloom_example :
  let f := mkBloom 9001 3 3 [3; 1] in
  abs_wf (abs_of f) /\
  bf_serialize f = [4; 1; 21; 0;  3; 0;  0; 0;  41; 35; 0; 0; 0; 0; 0; 0;  2; 0; 0; 0;  0; 0; 0; 0;
                    3; 0; 0; 0; 0; 0; 0; 0;  3; 0; 0; 0; 0; 0; 0; 0;  1; 0; 0; 0; 0; 0; 0; 0] /\
  spec_decode (bf_serialize f) = Some (mkAbs 3 9001 2 [3; 1] 3).
Proof.
  intros f. split; [|split; vm_compute; reflexivity].
  constructor; cbn [f abs_of a_nh a_seed a_nw a_words a_count bf_nh bf_seed bf_used bf_words length];
    try (change (N.of_nat 2) with 2); try lia; try reflexivity.
  repeat constructor.
Qed.
