(* C14 t-digest part -- being written *)
From DS Require Import Base.Prelude Model.TDigestCodec Spec.TDigestLayout.
