(* C14, t-digest part -- malformed bytes yield an error, never a panic: the modelled readers
   (TDigestMut::deserialize with both flavours and deserialize_compat, REPAIRED code: payload-length
   check before the allocations, checked weight sums) are total and never reach a panic site for
   ANY byte string; whatever they accept is well-shaped, and the image-sized allocations are
   covered by the input.  Statements only; proofs in Proofs/TDigestCodec.v. *)
From DS Require Import Base.Prelude Base.TDigestBits Model.TDigestCodec Proofs.TDigestCodec.
Open Scope N_scope.

Theorem c14_tdigest_never_stuck : forall is_f32 bs, tdb_dec is_f32 bs <> Stuck.
Proof. exact tdb_dec_never_stuck. Qed.

(* [shaped s n]: k >= 10; every mean and buffered value finite; every weight >= 1; centroids_weight is
   their sum; total_weight() = centroids_weight + buffered fits u64 (no overflow when it is evaluated);
   min / max are not NaN unless the digest is empty; and 8 * #centroids + 4 * #buffered <= n: every
   item the digest holds was present in the n input bytes *)
Theorem c14_tdigest_ok_is_wellshaped : forall is_f32 bs s, tdb_dec is_f32 bs = Ok s -> shaped s (length bs).
Proof. exact tdb_dec_shape. Qed.

(* Vec::with_capacity(num_centroids) / (num_buffered): at most 2 bytes requested per input byte *)
Theorem c14_tdigest_alloc_linear : forall is_f32 bs, tdb_requests is_f32 bs <= 2 * N.of_nat (length bs).
Proof. exact tdb_requests_linear. Qed.

(* non-vacuity: the 32-byte image announcing 2^32-1 centroids (known_findings.d/tdigest-C14-centroid-alloc)
   is rejected without any image-sized request; an image whose weights sum past u64 is rejected *)
Example c14_tdigest_example :
  let huge := [2; 1; 20; 100; 0; 0; 0; 0;  255; 255; 255; 255;  0; 0; 0; 0;  0; 0; 0; 0; 0; 0; 0; 0;  0; 0; 0; 0; 0; 0; 0xf0; 0x3f] in
  tdb_dec false huge = Err /\ tdb_requests false huge = 0 /\
  tdb_dec false ([2; 1; 20; 100; 0; 0; 0; 0;  2; 0; 0; 0;  0; 0; 0; 0;  0; 0; 0; 0; 0; 0; 0; 0;  0; 0; 0; 0; 0; 0; 0xf0; 0x3f;
                  0; 0; 0; 0; 0; 0; 0; 0;  255; 255; 255; 255; 255; 255; 255; 255;   0; 0; 0; 0; 0; 0; 0xf0; 0x3f;  2; 0; 0; 0; 0; 0; 0; 0]) = Err.
Proof. cbv zeta. repeat split; vm_compute; reflexivity. Qed.
