(* C14, t-digest part -- malformed bytes yield an error, never a panic.  Model/TDigestCodec.v models
   TDigestMut::deserialize (both flavours) and deserialize_compat of the REPAIRED code (payload-length
   check before the allocations, checked weight sums, no-items normalisation in make).

   What [Stuck] stands for in this model, plainly: the ONE explicit panic site on the readers' path,
   `assert!(k >= 10)` in TDigestMut::make ([tdb_make]), which every Ok exit goes through -- so
   c14_tdigest_never_stuck says that the readers' own k check always precedes it.  The other sites
   that would panic are modelled as the absence of overflow, not as Stuck: cursor reads are total
   functions returning Err on short input (as SketchSlice does), and the weight sums are the checked
   ones.  Beyond that the theorem is totality of the model; arithmetic overflow, slice indexing and
   allocation failure in the real reader are observed by the harness (debug + release builds, the
   allocation-cap marker), not proved.
   Statements only; proofs in Proofs/TDigestCodec.v. *)
From DS Require Import Base.Prelude Base.TDigestBits Model.TDigestCodec Proofs.TDigestCodec.
Open Scope N_scope.

Theorem c14_tdigest_never_stuck : forall is_f32 bs, tdb_dec is_f32 bs <> Stuck.
Proof. exact tdb_dec_never_stuck. Qed.

(* [shaped s n]: k >= 10; every mean and buffered value finite; every weight >= 1; centroids_weight is
   their sum; total_weight() = centroids_weight + buffered fits u64 (no overflow when it is evaluated);
   min / max are not NaN unless the digest is empty; and 8 * #centroids + 4 * #buffered <= n: every
   item the digest holds was present in the n input bytes *)
Theorem c14_tdigest_ok_is_wellshaped : forall is_f32 bs s, tdb_dec is_f32 bs = Ok s -> shaped s (length bs).
Proof. exact tdb_dec_shape. Qed.

(* The image-sized allocation requests, RETURNED BY THE MODELLED READER ITSELF: [tdb_dec_req] is the
   reader instrumented at every Vec::with_capacity / vec![] whose size comes from the image (16 bytes
   per announced centroid, 8 per announced buffered value, after the payload-length check; for the
   reference float format, whose count is a u16, 16 * n is requested BEFORE any length check: at most
   1,048,560 bytes whatever the input length -- the additive constant below).  Its outcome is the
   reader's, and the requested bytes are linear in the input.  [bytes_ok]: every element is a byte. *)
Theorem c14_tdigest_instrumented_reader_is_the_reader : forall is_f32 bs, fst (tdb_dec_req is_f32 bs) = tdb_dec is_f32 bs.
Proof. exact tdb_dec_req_outcome. Qed.

Theorem c14_tdigest_alloc_linear : forall is_f32 bs, bytes_ok bs = true ->
  tdb_requests is_f32 bs <= 2 * N.of_nat (length bs) + 16 * 65535.
Proof. exact tdb_requests_linear. Qed.

(* non-vacuity: the 32-byte image announcing 2^32-1 centroids (known_findings.d/tdigest-C14-centroid-alloc)
   is rejected without any image-sized request; an image whose weights sum past u64 is rejected; the
   30-byte reference float image announcing 65535 centroids requests 1,048,560 bytes and is rejected *)
Example c14_tdigest_example :
  let huge := [2; 1; 20; 100; 0; 0; 0; 0;  255; 255; 255; 255;  0; 0; 0; 0;  0; 0; 0; 0; 0; 0; 0; 0;  0; 0; 0; 0; 0; 0; 0xf0; 0x3f] in
  tdb_dec false huge = Err /\ tdb_requests false huge = 0 /\
  tdb_dec false ([2; 1; 20; 100; 0; 0; 0; 0;  2; 0; 0; 0;  0; 0; 0; 0;  0; 0; 0; 0; 0; 0; 0; 0;  0; 0; 0; 0; 0; 0; 0xf0; 0x3f;
                  0; 0; 0; 0; 0; 0; 0; 0;  255; 255; 255; 255; 255; 255; 255; 255;   0; 0; 0; 0; 0; 0; 0xf0; 0x3f;  2; 0; 0; 0; 0; 0; 0; 0]) = Err /\
  let reff := [0; 0; 0; 2;  0x3f; 0xf0; 0; 0; 0; 0; 0; 0;  0x40; 0x10; 0; 0; 0; 0; 0; 0;  0x42; 0xc8; 0; 0;  0; 0; 0; 0;  0xff; 0xff] in
  tdb_dec false reff = Err /\ tdb_requests false reff = 1048560.
Proof. cbv zeta. repeat split; vm_compute; reflexivity. Qed.
