(* C12, HLL part -- emitted bytes follow the cross-language layout.  Statements only; proofs in
   Proofs/HllLayoutProofs.v.
   Spec/HllLayout.v holds the layout written from the format description (independent of the
   model): constants, [hll_spec_decode], the spec encoders.
   [image_shows lg_k cs s im] (Proofs/HllLayoutProofs.v): the decoded image im has lg_k, the target
   type of s, the mode of s and the out-of-order flag of s (false in list / set mode); it holds
   exactly the coupons of cs (list / set mode, no duplicates) or, in array mode and for ALL three
   types, the k register values spec_regs lg_k cs j (read through the Hll4 nibbles + exception list,
   the Hll6 bit string, the Hll8 bytes), a cur_min byte that is a lower bound of the registers (0 for
   Hll6 / Hll8) and a num_at_cur_min field equal to the number of registers at cur_min.
   NOT covered by image_shows: the three binary64 fields hip_accum / kxq0 / kxq1 of the preamble (the
   decoder returns their bit patterns; they are compared bit for bit by the oracle layout_ok, not by a
   theorem) and, outside Hll4, the aux count field.
   The writer modelled is the REPAIRED one (COMPACT flag on array images:
   known_findings.d/C12-hll-array-compact-flag). *)
From DS Require Import Base.Prelude Model.Hll Model.HllCodec Spec.HllLayout Proofs.HllBase Proofs.HllArray4 Proofs.HllRefine
  Proofs.HllUnionProofs Proofs.HllCodecProofs Proofs.HllLayoutProofs.
From DS Require Gen.GenHll Gen.GenCodec.
Open Scope N_scope.

(* model_enc_conforms: the independent decoder applied to the image of ANY well-formed sketch (built,
   merged, deserialized; any type / mode / estimator state) recovers its abstract state *)
Theorem c12_hll_image_conforms :
  forall lgk arrf cs s, SrcOK lgk arrf cs s ->
  exists im, hll_spec_decode (hll_serialize s) = Some im /\ image_shows lgk cs s im.
Proof. exact hll_image_conforms. Qed.

(* for EVERY stream (all lg_k, types): the image of the reached sketch decodes to the Spec state of the
   stream -- mode = function of the number of distinct coupons, coupon set / per-slot maxima *)
Theorem c12_hll_image_conforms_of_stream :
  forall lgk t cs, 4 <= lgk <= 21 -> Forall valid cs ->
  exists s im, run_stream hip_new hip_update hip_carry lgk t cs = Ok s /\
    hll_spec_decode (hll_serialize s) = Some im /\ image_shows lgk cs s im /\
    sk_tag s = spec_mode lgk (distinct cs) /\ sk_tgt s = t.
Proof. exact hll_image_conforms_of_stream. Qed.

(* Hll4 in detail: registers through nibbles and exceptions, cur_min, num_at_cur_min, the aux list *)
Theorem c12_hll_array4_image :
  forall lgk regs (a : arr4 hip), 4 <= lgk <= 21 -> Inv4 lgk regs a -> (forall j, j < 2 ^ lgk -> regs j <= 63) ->
  exists im, hll_spec_decode (a4_serialize a lgk) = Some im /\ im_lgk im = lgk /\ im_type im = 0 /\ im_mode im = 2 /\
    im_ooo im = h_ooo (a4_est a) /\ im_regs im = map regs (Nseq 0 (N.to_nat (2 ^ lgk))) /\
    im_cur_min im = a4_cur_min a /\ im_num_at_cur_min im = a4_num a /\
    im_aux im = match a4_aux a with Some m => aux_pairs m | None => [] end.
Proof. exact a4_image_conforms. Qed.

(* the constants translated from the Rust sources are the specification's: changing a flag bit,
   a preamble size, a mode/type code or the family id on both the writer and the reader side of the
   crate (which every round-trip test survives) breaks here *)
Theorem c12_hll_layout_glue :
  zN GenHll.SERIAL_VERSION = L_SER_VER /\ zN GenCodec.FAMILY_HLL_ID = L_FAMILY /\
  zN GenHll.LIST_PREINTS = L_PRE_LIST /\ zN GenHll.HASH_SET_PREINTS = L_PRE_SET /\ zN GenHll.HLL_PREINTS = L_PRE_HLL /\
  zN GenHll.LIST_PREAMBLE_SIZE = 4 * L_PRE_LIST /\ zN GenHll.SET_PREAMBLE_SIZE = 4 * L_PRE_SET /\
  zN GenHll.HLL_PREAMBLE_SIZE = 4 * L_PRE_HLL /\
  zN GenHll.EMPTY_FLAG_MASK = L_FLAG_EMPTY /\ zN GenHll.COMPACT_FLAG_MASK = L_FLAG_COMPACT /\
  zN GenHll.OUT_OF_ORDER_FLAG_MASK = L_FLAG_OOO /\
  zN GenHll.CUR_MODE_LIST = L_MODE_LIST /\ zN GenHll.CUR_MODE_SET = L_MODE_SET /\ zN GenHll.CUR_MODE_HLL = L_MODE_HLL /\
  zN GenHll.TGT_HLL4 = 0 /\ zN GenHll.TGT_HLL6 = 1 /\ zN GenHll.TGT_HLL8 = 2 /\
  zN GenHll.KEY_BITS_26 = L_KEY_BITS /\ zN GenHll.AUX_TOKEN = L_AUX_TOKEN /\ zN GenHll.COUPON_SIZE_BYTES = 4.
Proof. exact layout_glue. Qed.

(* the mode byte of the writer is the specification's curMode | tgtType << 2 *)
Theorem c12_hll_mode_byte :
  forall cur t, cur < 4 -> mode_byte cur t = mode_b cur (tgt_num t).
Proof. exact mode_byte_spec. Qed.

(* non-vacuity / sanity of the decoder: it inverts the spec encoder on a concrete list image and
   reads a concrete compact Hll4 image with one exception *)
Example c12_hll_example :
  (exists im, hll_spec_decode (enc_list true 10 2 [67108865; 134217731]) = Some im /\ im_coupons im = [67108865; 134217731] /\
              im_mode im = 0 /\ im_type im = 2 /\ im_lgk im = 10) /\
  (exists im, hll_spec_decode (enc_hll_pre true false 4 0 0 1 0 0 0 1 1 ++ [0xF1; 0x11; 0x11; 0x11; 0x11; 0x11; 0x11; 0x11]
                               ++ le_bytes 4 (20 * 67108864 + 1)) = Some im /\
              im_regs im = [2; 20; 2; 2; 2; 2; 2; 2; 2; 2; 2; 2; 2; 2; 2; 2] /\ im_aux im = [(1, 20)]).
Proof. exact decoder_example. Qed.
