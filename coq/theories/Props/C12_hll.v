(* C12, HLL part -- statements only (being built). *)
From DS Require Import Base.Prelude Model.Hll Model.HllCodec.
Open Scope N_scope.
