(* C12, Frequent Items (i64 items) -- the emitted bytes follow the cross-language layout.
   Statements only; proofs in Proofs/FreqCodec.v.  [spec_decode] (Spec/FreqLayout.v) is the
   independent decoder written from the format description (DESIGN.md Appendix A) with literal
   constants; [abs_fc c] is the abstract state of a concrete sketch: lg sizes, stream weight,
   offset and the (item, count) pairs in slot order. *)
From DS Require Import Base.Prelude Model.Freq Spec.FreqLayout Proofs.FreqProofs Proofs.FreqTable Proofs.FreqCodec.
Open Scope N_scope.

(* the modelled writer emits a conforming image: the layout decoder recovers exactly the state *)
Theorem c12_freq_writer_conforms :
  forall H c, fc_wf H c -> spec_decode (fc_serialize c) = Some (abs_fc c).
Proof. exact writer_conforms. Qed.

(* the constants the crate uses (re-read from the source on this run) are the specification's:
   preamble longs 1 / 4, serial version 1, family id 10, empty-flag mask 5 (bits 0 and 2), minimal
   lg map size 3, load factor 3/4 *)
Theorem c12_freq_constants :
  zN Gen.GenFreq.PREAMBLE_LONGS_EMPTY = 1 /\ zN Gen.GenFreq.PREAMBLE_LONGS_NONEMPTY = 4 /\ zN Gen.GenFreq.SERIAL_VERSION = 1 /\
  zN Gen.GenCodec.FAMILY_FREQUENCY_ID = 10 /\ zN Gen.GenFreq.EMPTY_FLAG_MASK = 5 /\
  LG_MIN = 3 /\ LOAD_NUM = 3 /\ LOAD_DEN = 4.
Proof. exact layout_constants. Qed.

(* the mask test of the code is the bit test of the specification, for every flags byte *)
Theorem c12_freq_empty_flag_bits :
  forall f, f < 256 -> (N.land f 5 =? 0) = negb (N.testbit f 0 || N.testbit f 2).
Proof. exact flag_bits. Qed.

(* the specification is self-consistent: its decoder inverts its encoder for every variant *)
Theorem c12_freq_spec_decode_enc_spec :
  forall v a, abs_wf a -> variant_ok v a -> spec_decode (enc_spec v a) = Some a.
Proof. exact spec_decode_enc_spec. Qed.

Example c12_freq_example :
  fc_wf ex_hash ex_fc /\
  spec_decode (fc_serialize ex_fc) = Some (mkFA 3 3 25 0 [(2%Z, 1); (3%Z, 2); (4%Z, 3); (5%Z, 4); (6%Z, 5); (1%Z, 10)]) /\
  length (fc_serialize ex_fc) = 128%nat.
Proof. split; [exact ex_fc_wf|split; vm_compute; reflexivity]. Qed.
