(* C11 — serialize then deserialize is lossless.  Statements only. *)
From DS Require Import Base.Prelude Model.CountMin Proofs.CountMinProofs Proofs.CountMinCodec.
Open Scope N_scope.

(* ---------------- Count-Min (every counter type: mx is the type's maximum) ---------------- *)
Theorem c11_countmin_roundtrip :
  forall mx sh s, wfc mx sh s -> cm_deserialize mx sh (cm_serialize s) = Ok s.
Proof. exact roundtrip. Qed.

(* every state reachable by updates/merges (any bucket function) is well-formed *)
Theorem c11_countmin_reachable_wf :
  forall nh nb mx sh (bucket : N -> N -> N) s h,
  1 <= nh < 256 -> 3 <= nb < 4294967296 -> nh * nb < zN Gen.GenCountMin.MAX_TABLE_ENTRIES ->
  sh < 65536 -> mx < M64 -> weight h <= mx -> (forall x r, bucket x r < nb) ->
  Rep nh nb mx sh bucket s h -> wfc mx sh s.
Proof. exact reachable_wfc. Qed.

Example c11_countmin_example :
  let s := mkCm 2 3 255 7 8 [5; 0; 3; 0; 7; 1] in
  cm_deserialize 255 7 (cm_serialize s) = Ok s.
Proof. vm_compute. reflexivity. Qed.
