(* C10 -- t-digest: rank and quantile are monotone, in range and mutually consistent.
   Statements only; proofs are in Proofs/TDigestProofs*.v.

   Reading guide.  Model/TDigest.v transcribes TDigestView::{rank, quantile, cdf, pmf},
   check_split_points and weighted_average of tdigest/sketch.rs (the REPAIRED code, see
   known_findings.d/tdigest-*.json) branch by branch over exact rationals Q.  A [view] is
   (min, max, centroids : list (mean * positive weight), total).  Results are [outcome]s:
   [Ok (Some r)] = Some(r), [Ok None] = None, [Stuck] = a panic site.
   [wf_view] (Spec/TDigestSpec.v) = EVERY valid image: >= 1 centroid, means non-decreasing,
   weights > 0, min <= first mean, last mean <= max, total = sum of weights -- including heavy
   first / last centroids that the in-process algorithm never produces.
   [unit_ends_tight] = a first (last) centroid of weight 1 has mean = min (max); needed exactly
   where stated (see c10_rank_mono_without_tight_ends_refuted).  [strictP] = pairwise distinct means.
   Equality of rationals is [==] (Qeq). *)
From Coq Require Import QArith Qabs.
From DS Require Import Base.Prelude Model.TDigest Spec.TDigestSpec.
From DS Require Import Proofs.TDigestProofsBase Proofs.TDigestProofsRank Proofs.TDigestProofsQuantile
  Proofs.TDigestProofsConsist Proofs.TDigestProofsBlocks Proofs.TDigestProofsCdf Proofs.TDigestProofsMerge Proofs.TDigestProofsInproc.
Open Scope Q_scope.

(* ---------------- rank ---------------- *)
(* rank never reaches a panic site (the two assert_ne! of the binary search, the usize
   underflow of `lower -= 1`) and answers Some for every non-empty well-formed view *)
Theorem c10_rank_total : forall v, wf_view v -> forall x, exists r, rank v x = Ok (Some r).
Proof. exact rank_total. Qed.

Theorem c10_rank_range : forall v, wf_view v -> forall x r, rank v x = Ok (Some r) -> 0 <= r /\ r <= 1.
Proof. exact rank_range. Qed.

Theorem c10_rank_below_min : forall v, wf_view v -> forall x, x < v_min v -> rank v x = Ok (Some 0).
Proof. exact rank_below_min. Qed.

Theorem c10_rank_above_max : forall v, wf_view v -> forall x, v_max v < x -> rank v x = Ok (Some 1).
Proof. exact rank_above_max. Qed.

Theorem c10_rank_mono : forall v, wf_view v -> unit_ends_tight v ->
  forall x y r r', x <= y -> rank v x = Ok (Some r) -> rank v y = Ok (Some r') -> r <= r'.
Proof. exact rank_mono. Qed.

(* Full statement would be c10_rank_mono without [unit_ends_tight]; the faithful model refutes it
   (known finding tdigest-D17: image min 0, max 40, centroids (10,w1) (20,w1) (30,w10):
   rank 0.5 = 0.08125 > rank 5 = 0.0625).  No data set has such a summary. *)
Theorem c10_rank_mono_without_tight_ends_refuted :
  exists v x y r r', wf_view v /\ x <= y /\ rank v x = Ok (Some r) /\ rank v y = Ok (Some r') /\ r' < r.
Proof. exact rank_mono_without_tight_ends_refuted. Qed.

(* ---------------- quantile ---------------- *)
Theorem c10_quantile_total : forall v, wf_view v -> forall q, exists x, quantile v q = Ok (Some x).
Proof. exact quantile_total. Qed.

Theorem c10_quantile_range : forall v, wf_view v -> forall q x, quantile v q = Ok (Some x) -> v_min v <= x /\ x <= v_max v.
Proof. exact quantile_range. Qed.

Theorem c10_quantile_0 : forall v, wf_view v -> quantile v 0 = Ok (Some (v_min v)).
Proof. exact quantile_0. Qed.

Theorem c10_quantile_1 : forall v, wf_view v -> quantile v 1 = Ok (Some (v_max v)).
Proof. exact quantile_1. Qed.

Theorem c10_quantile_mono : forall v, wf_view v ->
  forall q q' x x', q <= q' -> quantile v q = Ok (Some x) -> quantile v q' = Ok (Some x') -> x <= x'.
Proof. exact quantile_mono. Qed.

(* ---------------- cdf / pmf ---------------- *)
Theorem c10_cdf_accepts_empty_split_list : forall v, v_cs v <> [] -> cdf v [] = Ok (Some [1]) /\ pmf v [] = Ok (Some [1]).
Proof. exact cdf_pmf_empty_splits. Qed.

(* every strictly increasing split list is accepted; cdf = ranks of the split points, then 1 *)
Theorem c10_cdf_is_ranks_then_one : forall v, wf_view v -> forall sp, strictly_increasing sp = true ->
  exists l, cdf v sp = Ok (Some (l ++ [1])) /\ Forall2 (fun p r => rank v p = Ok (Some r)) sp l.
Proof. exact cdf_ok. Qed.

Theorem c10_cdf_shape : forall v, wf_view v -> forall sp c, strictly_increasing sp = true -> cdf v sp = Ok (Some c) ->
  length c = S (length sp) /\ last c 0 = 1 /\ Forall (fun r => 0 <= r /\ r <= 1) c.
Proof. exact cdf_shape. Qed.

Theorem c10_pmf_sums_to_one : forall v, wf_view v -> forall sp, strictly_increasing sp = true ->
  exists l, pmf v sp = Ok (Some l) /\ length l = S (length sp) /\ qsum l == 1.
Proof. exact pmf_sums_to_one. Qed.

Theorem c10_cdf_nondecreasing : forall v, wf_view v -> unit_ends_tight v ->
  forall sp c, strictly_increasing sp = true -> cdf v sp = Ok (Some c) -> nondecr c.
Proof. exact cdf_nondecr. Qed.

Theorem c10_pmf_nonnegative : forall v, wf_view v -> unit_ends_tight v ->
  forall sp l, strictly_increasing sp = true -> pmf v sp = Ok (Some l) -> Forall (fun d => 0 <= d) l.
Proof. exact pmf_nonneg. Qed.

(* the documented panic: split points that are not unique and increasing *)
Theorem c10_cdf_rejects_unsorted : forall v sp, strictly_increasing sp = false -> cdf v sp = Stuck /\ pmf v sp = Stuck.
Proof. exact cdf_rejects_unsorted. Qed.

(* ---------------- rank (quantile q) ~ q ---------------- *)
(* [resolution v q] = (sum of the weights of the centroids whose centres straddle q * total) / (2 * total):
   w_0 before the first centre, w_(n-1) from the last centre on, w_i + w_(i+1) in between
   (Spec/TDigestSpec.v: straddle).  The constant is 1/2 of the straddling weights; it never exceeds 1/2. *)
Theorem c10_rank_quantile_consistent : forall v, wf_view v -> strictP (v_cs v) ->
  forall q x rho, 0 <= q -> q <= 1 -> quantile v q = Ok (Some x) -> rank v x = Ok (Some rho) ->
  Qabs (rho - q) <= resolution v q.
Proof. exact rank_quantile_consistent. Qed.

(* EVERY well-formed view, centroids sharing a mean included (no strictP): the error is at most the weight
   of ALL centroids that share a mean with one of the two straddling centroids, over the total
   ([block_resolution], Spec/TDigestSpec.v; constant 1).  The constant 1/2 of the theorem above does not
   survive duplicate means: centroids (5,w10) (5,w1) with min = 5 give rank (quantile 0) = 7.75/total. *)
Theorem c10_rank_quantile_consistent_any_means : forall v, wf_view v ->
  forall q x rho, 0 <= q -> q <= 1 -> quantile v q = Ok (Some x) -> rank v x = Ok (Some rho) ->
  Qabs (rho - q) <= block_resolution v q.
Proof. exact consist_blocks. Qed.

Theorem c10_resolution_at_most_half : forall v, wf_view v -> forall q, resolution v q <= 1 # 2.
Proof. exact resolution_le_half. Qed.

(* non-vacuity of the duplicate-means bound, and the 1/2 constant failing there: total 12,
   quantile 0 = 5, rank 5 = 7.75/12, block_resolution = 11/12, half of it would be 5.5/12 *)
(* dup_view (Proofs/TDigestProofsBlocks.v) = min 5, max 9, centroids (5,w10) (5,w1) (9,w1) *)
Example c10_example_duplicate_means :
  wf_view dup_view /\ ~ strictP (v_cs dup_view) /\
  exists x rho, quantile dup_view 0 = Ok (Some x) /\ rank dup_view x = Ok (Some rho) /\
                rho == 31 # 48 /\ block_resolution dup_view 0 == 11 # 12 /\ (1 # 2) * block_resolution dup_view 0 < Qabs (rho - 0).
Proof.
  split; [constructor; cbn; try discriminate; try reflexivity; repeat split; apply Qle_bool_iff; reflexivity|].
  split; [cbn; intros [H _]; revert H; apply Qle_not_lt; apply Qle_bool_iff; reflexivity|].
  eexists. eexists. split; [vm_compute; reflexivity|]. split; [vm_compute; reflexivity|].
  split; [reflexivity|]. split; [vm_compute; reflexivity|]. vm_compute. reflexivity.
Qed.

(* ---------------- total_weight, min, max of in-process digests ---------------- *)
(* [reach h d] (Spec/TDigestSpec.v): d is a state of TDigestMut after history h (update / any
   compressing operation / merge), every merge pass being ANY output allowed by the exact merge
   relation (C15: the crate's passes are checked against it at run time).  [values h] = the finite
   values offered, merges included. *)
Theorem c10_td_total : forall h d, reach h d -> td_total d = Z.of_nat (length (values h)).
Proof. exact td_total_exact. Qed.

Theorem c10_td_minmax : forall h d, reach h d -> is_min (td_min d) (values h) /\ is_max (td_max d) (values h).
Proof. exact td_minmax_exact. Qed.

(* every compressed in-process digest is a well-formed view with tight ends: all of the above applies *)
Theorem c10_inprocess_views_are_wellformed : forall h d, reach h d -> td_buf d = [] -> td_cs d <> [] ->
  wf_view (td_view d) /\ unit_ends_tight (td_view d) /\
  v_min (td_view d) == c_mean (firstc (td_cs d)) /\ c_mean (lastc (td_cs d)) == v_max (td_view d).
Proof. exact inproc_view_wf. Qed.

(* ---------------- non-vacuity ---------------- *)
(* an image with heavy first and last centroids (never produced in process): well-formed, tight,
   distinct means; rank 9 = 23/105 (the repaired left tail), quantile (33/42) = 31.25 (the repaired
   right tail), and rank (quantile (1/2)) = 1/2 *)
(* heavy_view (Proofs/TDigestProofsBlocks.v) = min 0, max 40, centroids (10,w10) (20,w1) (30,w10) *)
Example c10_example :
  wf_view heavy_view /\ unit_ends_tight heavy_view /\ strictP (v_cs heavy_view) /\
  (exists r, rank heavy_view 9 = Ok (Some r) /\ r == 23 # 105) /\ (exists x, quantile heavy_view (33 # 42) = Ok (Some x) /\ x == 125 # 4) /\
  (exists x r, quantile heavy_view (1 # 2) = Ok (Some x) /\ rank heavy_view x = Ok (Some r) /\ r == 1 # 2).
Proof.
  split; [constructor; cbn; try discriminate; try reflexivity; repeat split; apply Qle_bool_iff; reflexivity|].
  split; [split; cbn; discriminate|].
  split; [cbn; repeat split; reflexivity|].
  split; [eexists; split; [vm_compute; reflexivity|reflexivity]|].
  split; [eexists; split; [vm_compute; reflexivity|reflexivity]|].
  eexists; eexists; split; [vm_compute; reflexivity|]. split; [vm_compute; reflexivity|reflexivity].
Qed.
