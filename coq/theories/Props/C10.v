(* C10 -- t-digest: rank and quantile are monotone, in range and mutually consistent.
   Statements only; proofs are in Proofs/TDigestProofs*.v.

   Reading guide.  Model/TDigest.v transcribes TDigestView::{rank, quantile, cdf, pmf},
   check_split_points and weighted_average of tdigest/sketch.rs (the REPAIRED code, see
   known_findings.d/tdigest-*.json) branch by branch over exact rationals Q.  A [view] is
   (min, max, centroids : list (mean * positive weight), total).  Results are [outcome]s:
   [Ok (Some r)] = Some(r), [Ok None] = None, [Stuck] = a panic site.
   [wf_view] (Spec/TDigestSpec.v) = EVERY valid image: >= 1 centroid, means non-decreasing,
   weights > 0, min <= first mean, last mean <= max, total = sum of weights -- including heavy
   first / last centroids that the in-process algorithm never produces.
   [unit_ends_tight] = a first (last) centroid of weight 1 has mean = min (max): true of every
   in-process digest, NOT needed by any theorem below since the repair 30e007d of the rank tails
   (the former known finding tdigest-D17; see c10_example_unit_ends).  [strictP] = pairwise
   distinct means.  Equality of rationals is [==] (Qeq). *)
From Coq Require Import QArith Qabs.
From DS Require Import Base.Prelude Model.TDigest Spec.TDigestSpec.
From DS Require Import Proofs.TDigestProofsBase Proofs.TDigestProofsRank Proofs.TDigestProofsQuantile
  Proofs.TDigestProofsConsist Proofs.TDigestProofsBlocks Proofs.TDigestProofsCdf Proofs.TDigestProofsMerge Proofs.TDigestProofsInproc
  Proofs.TDigestProofsReach.
Open Scope Q_scope.

(* ---------------- rank ---------------- *)
(* rank never reaches a panic site (the two assert_ne! of the binary search, the usize
   underflow of `lower -= 1`) and answers Some for every non-empty well-formed view *)
Theorem c10_rank_total : forall v, wf_view v -> forall x, exists r, rank v x = Ok (Some r).
Proof. exact rank_total. Qed.

Theorem c10_rank_range : forall v, wf_view v -> forall x r, rank v x = Ok (Some r) -> 0 <= r /\ r <= 1.
Proof. exact rank_range. Qed.

Theorem c10_rank_below_min : forall v, wf_view v -> forall x, x < v_min v -> rank v x = Ok (Some 0).
Proof. exact rank_below_min. Qed.

Theorem c10_rank_above_max : forall v, wf_view v -> forall x, v_max v < x -> rank v x = Ok (Some 1).
Proof. exact rank_above_max. Qed.

(* EVERY well-formed view: heavy ends, unit-weight end centroids away from min / max (decoded images,
   and what update makes of them) included *)
Theorem c10_rank_mono : forall v, wf_view v ->
  forall x y r r', x <= y -> rank v x = Ok (Some r) -> rank v y = Ok (Some r') -> r <= r'.
Proof. exact rank_mono. Qed.

(* non-vacuity of c10_rank_mono where it used to fail (known finding tdigest-D17, fixed by 30e007d):
   d17_view = image min 0, max 40, centroids (10,w1) (20,w1) (30,w10): a weight-1 first centroid
   whose mean is not min; the unrepaired code answered rank 0.5 = 0.08125 > rank 5 = 0.0625.
   after_update_view = the valid heavy-end image of c10_example after update(5) and a compression:
   (5,w1) (10,w10) (20,w1) (30,w10), min still 0.  Ranks are now flat at half the unit weight. *)
Example c10_example_unit_ends :
  wf_view d17_view /\ ~ unit_ends_tight d17_view /\
  (exists r0 r1 r2 r3, rank d17_view 0 = Ok (Some r0) /\ rank d17_view (1 # 2) = Ok (Some r1) /\ rank d17_view 5 = Ok (Some r2) /\
     rank d17_view 10 = Ok (Some r3) /\ r0 == 1 # 48 /\ r1 == 1 # 24 /\ r2 == 1 # 24 /\ r3 == 1 # 24) /\
  wf_view after_update_view /\ ~ unit_ends_tight after_update_view /\
  (exists r1 r2 r3, rank after_update_view (1 # 2) = Ok (Some r1) /\ rank after_update_view 4 = Ok (Some r2) /\
     rank after_update_view 5 = Ok (Some r3) /\ r1 == 1 # 44 /\ r2 == 1 # 44 /\ r3 == 1 # 44).
Proof. exact unit_end_examples. Qed.

(* ---------------- quantile ---------------- *)
Theorem c10_quantile_total : forall v, wf_view v -> forall q, exists x, quantile v q = Ok (Some x).
Proof. exact quantile_total. Qed.

Theorem c10_quantile_range : forall v, wf_view v -> forall q x, quantile v q = Ok (Some x) -> v_min v <= x /\ x <= v_max v.
Proof. exact quantile_range. Qed.

Theorem c10_quantile_0 : forall v, wf_view v -> quantile v 0 = Ok (Some (v_min v)).
Proof. exact quantile_0. Qed.

Theorem c10_quantile_1 : forall v, wf_view v -> quantile v 1 = Ok (Some (v_max v)).
Proof. exact quantile_1. Qed.

Theorem c10_quantile_mono : forall v, wf_view v ->
  forall q q' x x', q <= q' -> quantile v q = Ok (Some x) -> quantile v q' = Ok (Some x') -> x <= x'.
Proof. exact quantile_mono. Qed.

(* ---------------- cdf / pmf ---------------- *)
Theorem c10_cdf_accepts_empty_split_list : forall v, v_cs v <> [] -> cdf v [] = Ok (Some [1]) /\ pmf v [] = Ok (Some [1]).
Proof. exact cdf_pmf_empty_splits. Qed.

(* every strictly increasing split list is accepted; cdf = ranks of the split points, then 1 *)
Theorem c10_cdf_is_ranks_then_one : forall v, wf_view v -> forall sp, strictly_increasing sp = true ->
  exists l, cdf v sp = Ok (Some (l ++ [1])) /\ Forall2 (fun p r => rank v p = Ok (Some r)) sp l.
Proof. exact cdf_ok. Qed.

Theorem c10_cdf_shape : forall v, wf_view v -> forall sp c, strictly_increasing sp = true -> cdf v sp = Ok (Some c) ->
  length c = S (length sp) /\ last c 0 = 1 /\ Forall (fun r => 0 <= r /\ r <= 1) c.
Proof. exact cdf_shape. Qed.

Theorem c10_pmf_sums_to_one : forall v, wf_view v -> forall sp, strictly_increasing sp = true ->
  exists l, pmf v sp = Ok (Some l) /\ length l = S (length sp) /\ qsum l == 1.
Proof. exact pmf_sums_to_one. Qed.

Theorem c10_cdf_nondecreasing : forall v, wf_view v ->
  forall sp c, strictly_increasing sp = true -> cdf v sp = Ok (Some c) -> nondecr c.
Proof. exact cdf_nondecr. Qed.

Theorem c10_pmf_nonnegative : forall v, wf_view v ->
  forall sp l, strictly_increasing sp = true -> pmf v sp = Ok (Some l) -> Forall (fun d => 0 <= d) l.
Proof. exact pmf_nonneg. Qed.

(* the documented panic: split points that are not unique and increasing *)
Theorem c10_cdf_rejects_unsorted : forall v sp, strictly_increasing sp = false -> cdf v sp = Stuck /\ pmf v sp = Stuck.
Proof. exact cdf_rejects_unsorted. Qed.

(* ---------------- rank (quantile q) ~ q ---------------- *)
(* [resolution v q] = (sum of the weights of the centroids whose centres straddle q * total) / (2 * total):
   w_0 before the first centre, w_(n-1) from the last centre on, w_i + w_(i+1) in between
   (Spec/TDigestSpec.v: straddle).  The constant is 1/2 of the straddling weights; it never exceeds 1/2. *)
Theorem c10_rank_quantile_consistent : forall v, wf_view v -> strictP (v_cs v) ->
  forall q x rho, 0 <= q -> q <= 1 -> quantile v q = Ok (Some x) -> rank v x = Ok (Some rho) ->
  Qabs (rho - q) <= resolution v q.
Proof. exact rank_quantile_consistent. Qed.

(* EVERY well-formed view, centroids sharing a mean included (no strictP): the error is at most the weight
   of ALL centroids that share a mean with one of the two straddling centroids, over the total
   ([block_resolution], Spec/TDigestSpec.v; constant 1).  The constant 1/2 of the theorem above does not
   survive duplicate means: centroids (5,w10) (5,w1) with min = 5 give rank (quantile 0) = 7.75/total. *)
Theorem c10_rank_quantile_consistent_any_means : forall v, wf_view v ->
  forall q x rho, 0 <= q -> q <= 1 -> quantile v q = Ok (Some x) -> rank v x = Ok (Some rho) ->
  Qabs (rho - q) <= block_resolution v q.
Proof. exact consist_blocks. Qed.

Theorem c10_resolution_at_most_half : forall v, wf_view v -> forall q, resolution v q <= 1 # 2.
Proof. exact resolution_le_half. Qed.

(* non-vacuity of the duplicate-means bound, and the 1/2 constant failing there: total 12,
   quantile 0 = 5, rank 5 = 7.75/12, block_resolution = 11/12, half of it would be 5.5/12 *)
(* dup_view (Proofs/TDigestProofsBlocks.v) = min 5, max 9, centroids (5,w10) (5,w1) (9,w1) *)
Example c10_example_duplicate_means :
  wf_view dup_view /\ ~ strictP (v_cs dup_view) /\
  exists x rho, quantile dup_view 0 = Ok (Some x) /\ rank dup_view x = Ok (Some rho) /\
                rho == 31 # 48 /\ block_resolution dup_view 0 == 11 # 12 /\ (1 # 2) * block_resolution dup_view 0 < Qabs (rho - 0).
Proof.
  split; [constructor; cbn; try discriminate; try reflexivity; repeat split; apply Qle_bool_iff; reflexivity|].
  split; [cbn; intros [H _]; revert H; apply Qle_not_lt; apply Qle_bool_iff; reflexivity|].
  eexists. eexists. split; [vm_compute; reflexivity|]. split; [vm_compute; reflexivity|].
  split; [reflexivity|]. split; [vm_compute; reflexivity|]. vm_compute. reflexivity.
Qed.

(* ---------------- total_weight, min, max; which states the theorems above cover ---------------- *)
(* [reach h d] (Spec/TDigestSpec.v): d is a state of TDigestMut after history h.  A history starts
   from new(k) or from a DECODED IMAGE d0 satisfying [image_ok] (k >= 10, weights consistent, means
   sorted, everything inside [min, max]; heavy or loose end centroids and buffered values allowed --
   Props/C17_tdigest.v derives image_ok for the digests the modelled reader returns), and continues
   with update / any compressing operation / merge.  Every merge pass may produce ANY output allowed
   by the EXACT merge relation [merge_rel 0] (C15).  The crate's passes are checked at run time with
   the boolean [valid_merge] at tolerance 1e-9 (binary64 means), so the correspondence leg links the
   crate to [reach] only up to that tolerance; this is stated in the level note.
   [values h] = the finite values offered (merges included); [image_weight h] = the weight of the
   images the history started from; [inprocess h] = no image. *)
Theorem c10_td_total : forall h d, reach h d -> inprocess h -> td_total d = Z.of_nat (length (values h)).
Proof. exact td_total_exact. Qed.

Theorem c10_td_total_any_start : forall h d, reach h d ->
  td_total d = (image_weight h + Z.of_nat (length (values h)))%Z.
Proof. exact reach_total. Qed.

Theorem c10_td_minmax : forall h d, reach h d -> inprocess h -> is_min (td_min d) (values h) /\ is_max (td_max d) (values h).
Proof. exact td_minmax_exact. Qed.

(* every compressed non-empty state of every history -- started in process or from a decoded image --
   is a well-formed view: all rank / quantile / cdf / pmf theorems above apply to it *)
Theorem c10_reachable_views_are_wellformed : forall h d, reach h d -> td_buf d = [] -> td_cs d <> [] ->
  wf_view (td_view d).
Proof. exact reach_view_wf. Qed.

(* in process the ends are moreover tight: first / last mean ARE min / max *)
Theorem c10_inprocess_views_are_wellformed : forall h d, reach h d -> inprocess h -> td_buf d = [] -> td_cs d <> [] ->
  wf_view (td_view d) /\ unit_ends_tight (td_view d) /\
  v_min (td_view d) == c_mean (firstc (td_cs d)) /\ c_mean (lastc (td_cs d)) == v_max (td_view d).
Proof. exact inproc_view_wf. Qed.

(* progress: [reach] is not vacuous -- every history whose constructor calls meet their preconditions
   (new: k >= 10; image: image_ok) has a reachable state (a legal merge pass always exists) *)
Theorem c10_reach_progress : forall h, hist_ok h -> exists d, reach h d.
Proof. exact reach_progress. Qed.

(* non-vacuity of the image start: the heavy-end image of c10_example (k = 100) is image_ok; update(5)
   and a compression that keeps the new value as its own centroid reach exactly after_update_view
   (a weight-1 first centroid whose mean 5 is not min 0: the shape of c10_example_unit_ends) *)
Example c10_example_image_then_update :
  let d0 := mkTd 100 false (Some 0) (Some 40) [(10, 10%positive); (20, 1%positive); (30, 10%positive)] 21 [] in
  image_ok d0 /\ exists d, reach (HCompress (HUpd (HImage d0) 5)) d /\ td_view d = after_update_view.
Proof.
  cbv zeta.
  assert (I0 : image_ok (mkTd 100 false (Some 0) (Some 40) [(10, 10%positive); (20, 1%positive); (30, 10%positive)] 21 [])).
  { constructor; cbn [td_k td_cw td_cs td_buf td_min td_max]; try reflexivity; try discriminate.
    - repeat split; apply Qle_bool_iff; reflexivity.
    - intros c [<-|[<-|[<-|[]]]]; split; apply Qle_bool_iff; reflexivity.
    - intros x []. }
  split; [exact I0|].
  pose proof (R_upd_room _ _ 5 (R_image _ I0) eq_refl) as R1.
  eexists. split.
  - eapply (R_compress _ _ [(5, 1%positive); (10, 10%positive); (20, 1%positive); (30, 10%positive)] R1).
    + cbn. discriminate.
    + apply valid_merge_sound. vm_compute. reflexivity.
  - vm_compute. reflexivity.
Qed.

(* ---------------- non-vacuity ---------------- *)
(* an image with heavy first and last centroids (never produced in process): well-formed, tight,
   distinct means; rank 9 = 23/105 (the repaired left tail), quantile (33/42) = 31.25 (the repaired
   right tail), and rank (quantile (1/2)) = 1/2 *)
(* heavy_view (Proofs/TDigestProofsBlocks.v) = min 0, max 40, centroids (10,w10) (20,w1) (30,w10) *)
Example c10_example :
  wf_view heavy_view /\ unit_ends_tight heavy_view /\ strictP (v_cs heavy_view) /\
  (exists r, rank heavy_view 9 = Ok (Some r) /\ r == 23 # 105) /\ (exists x, quantile heavy_view (33 # 42) = Ok (Some x) /\ x == 125 # 4) /\
  (exists x r, quantile heavy_view (1 # 2) = Ok (Some x) /\ rank heavy_view x = Ok (Some r) /\ r == 1 # 2).
Proof.
  split; [constructor; cbn; try discriminate; try reflexivity; repeat split; apply Qle_bool_iff; reflexivity|].
  split; [split; cbn; discriminate|].
  split; [cbn; repeat split; reflexivity|].
  split; [eexists; split; [vm_compute; reflexivity|reflexivity]|].
  split; [eexists; split; [vm_compute; reflexivity|reflexivity]|].
  eexists; eexists; split; [vm_compute; reflexivity|]. split; [vm_compute; reflexivity|reflexivity].
Qed.
