(* C12 (CPC part) -- the emitted bytes follow the cross-language layout: the independent decoder of
   Spec/CpcLayout.v (written from the format description: the eight formats selected by the HIP / SV / WINDOW
   flag bits, each with its FIXED number of preamble ints and field positions; literal constants only)
   recovers the image's fields from the bytes CpcSketch::serialize frames.  The two compressed streams are
   opaque word lists at this level (their coders: C11).  Statements only; proofs in Proofs/CpcLayoutProofs.v. *)
From DS Require Import Base.Prelude Model.Cpc Model.CpcFrame Spec.CpcLayout Proofs.CpcLayoutProofs.
Open Scope N_scope.

(* the framing of serialize() (Model/CpcFrame.v, mirrors cpc/sketch.rs + make_preamble_ints), for every sketch
   header, every pair of register bit patterns and every pair of compressed streams, decodes to exactly the
   fields it was given *)
Theorem c12_cpc_writer_conforms : forall s sh kxp hip c, frame_wf s sh kxp hip c ->
  spec_decode (cpc_frame s sh kxp hip c) = Some (frame_abs s sh kxp hip c).
Proof. exact writer_conforms. Qed.

(* the writer's output IS the specification's encoding *)
Theorem c12_cpc_writer_is_spec_encoding : forall s sh kxp hip c,
  (c_num s = 0 <-> cp_table c = None /\ cp_window c = None) ->
  cpc_frame s sh kxp hip c = enc_spec (frame_abs s sh kxp hip c).
Proof. exact frame_is_enc_spec. Qed.

(* decoder and encoder of the specification agree on every abstract image *)
Theorem c12_cpc_spec_decode_enc_spec : forall a, abs_wf a -> spec_decode (enc_spec a) = Some a.
Proof. exact spec_decode_enc_spec. Qed.

(* make_preamble_ints (the crate's helper, translated literals) equals the format's fixed table
   [2; 2; 4; 8; 4; 8; 6; 10] on every flag combination a sketch can have - including a window WITHOUT
   surprising values (formats 4 and 5) *)
Theorem c12_cpc_preamble_ints_table : forall num hip tab win,
  (num = 0 -> tab = false /\ win = false) -> (num <> 0 -> tab = true \/ win = true) ->
  make_preamble_ints num hip tab win = nthN spec_preints (fmt_num hip tab win) 0.
Proof. exact preamble_ints_table. Qed.

(* the constants the crate uses (re-read from the source on this run) are the specification's *)
Theorem c12_cpc_constants :
  zN Gen.GenCpcSer.SERIAL_VERSION = 1 /\ zN Gen.GenCodec.FAMILY_CPC_ID = 16 /\
  zN Gen.GenCpcSer.FLAG_COMPRESSED = 1 /\ zN Gen.GenCpcSer.FLAG_HAS_HIP = 2 /\
  zN Gen.GenCpcSer.FLAG_HAS_TABLE = 3 /\ zN Gen.GenCpcSer.FLAG_HAS_WINDOW = 4 /\
  Gen.GenCpcSer.LIT_make_preamble_ints = [2; 0; 1; 4; 1; 1; 1]%Z.
Proof. exact layout_constants. Qed.

(* non-vacuity: a pinned HIP sketch of lg_k 4 with a 3-word window stream and no surprising values
   (format 5, 8 preamble ints, 44 bytes) *)
Example c12_cpc_example :
  let s := mkCpc 4 2 40 (Some []) 0 (repeat 7 16) false PrimFloat.one PrimFloat.one in
  let c := mkComp None (Some [1; 2; 3]) in
  frame_wf s 9001 4607182418800017408 4630826316843712512 c /\
  cpc_frame s 9001 4607182418800017408 4630826316843712512 c =
    [8; 1; 16; 4; 2; 22; 41; 35;  40; 0; 0; 0;  3; 0; 0; 0;  0; 0; 0; 0; 0; 0; 240; 63;  0; 0; 0; 0; 0; 0; 68; 64;
     1; 0; 0; 0;  2; 0; 0; 0;  3; 0; 0; 0] /\
  spec_decode (cpc_frame s 9001 4607182418800017408 4630826316843712512 c) =
    Some (mkCA 4 2 9001 (Some (4607182418800017408, 4630826316843712512)) 40 None (Some [1; 2; 3])).
Proof.
  intros s c. split; [|split; vm_compute; reflexivity].
  constructor; cbn; try lia; try exact I.
  - split; [intros H; discriminate|intros [_ H]; discriminate].
  - split; [repeat constructor; lia|cbn; lia].
Qed.
