(* C16 — hashes are bit-exact MurmurHash3-x64-128 / XXH64 and independent of write chunking.
   Statements only; proofs in Proofs/HashProofs.v, generic block lemmas in Base/Absorb.v. *)
From DS Require Import Base.Prelude Model.Murmur Model.XxHash Model.Derive Proofs.HashProofs.
Open Scope N_scope.

(* For EVERY seed and EVERY way of splitting a byte string into successive `write` calls
   (any number of chunks, any lengths, including empty ones) the streaming hasher returns
   the one-shot reference digest of the concatenation. *)
Theorem c16_murmur_chunking :
  forall (seed : N) (chunks : list (list N)),
  m_hash_chunks seed chunks = murmur3_x64_128 seed (concat chunks).
Proof. exact murmur_chunking. Qed.

Theorem c16_xxh64_chunking :
  forall (seed : N) (chunks : list (list N)),
  x_hash_chunks seed chunks = xxh64 seed (concat chunks).
Proof. exact xxh64_chunking. Qed.

(* the specialised 8-byte path equals XXH64 of the 8 little-endian bytes *)
Theorem c16_hash_u64 :
  forall input seed, input < M64 -> x_hash_u64 input seed = xxh64 seed (le_bytes 8 input).
Proof. exact xxh64_hash_u64. Qed.

(* the derived quantities are in range for every digest *)
Theorem c16_hll_coupon_range :
  forall h, let c := hll_coupon_of h in c mod 2 ^ 26 < 2 ^ 26 /\ 1 <= c / 2 ^ 26 <= 63.
Proof. exact hll_coupon_range. Qed.

Theorem c16_hll_coupon_fields :
  forall h, let c := hll_coupon_of h in
  c mod 2 ^ 26 = fst h mod 2 ^ 26 /\ c / 2 ^ 26 = N.min (lz64 (snd h)) 62 + 1.
Proof. exact hll_coupon_fields. Qed.

Theorem c16_theta_hash_range : forall h, fst h < M64 -> theta_hash_of h < 2 ^ 63.
Proof. exact theta_hash_range. Qed.

Theorem c16_cpc_row_col_range :
  forall lg_k h, lg_k <= 26 ->
  let rc := cpc_row_col_of lg_k h in rc <> 0xffffffff /\ rc mod 64 <= 63 /\ rc / 64 < 2 ^ lg_k.
Proof. exact cpc_row_col_range. Qed.

Theorem c16_cm_bucket_range : forall seed row nb item, nb <> 0 -> cm_bucket seed row nb item < nb.
Proof. exact cm_bucket_range. Qed.

Theorem c16_bloom_position_range : forall h0 h1 i cap, cap <> 0 -> bloom_position h0 h1 i cap < cap.
Proof. exact bloom_position_range. Qed.

(* the constants and inline literals of the Rust hashers, as re-read from the source on this
   run by the translator, are the ones of the published algorithms used by the model *)
Theorem c16_source_literals : hash_literals_ok.
Proof. exact hash_literals. Qed.

(* published test vectors: the reference functions are the published algorithms *)
Example c16_vectors :
  murmur3_x64_128 0 (map N.of_nat [84;104;101;32;113;117;105;99;107;32;98;114;111;119;110;32;102;111;120;32;106;117;109;112;115;32;111;118;101;114;32;116;104;101;32;108;97;122;121;32;100;111;103]%nat)
    = (0xe34bbc7bbc071b6c, 0x7a433ca9c49a9347) /\
  xxh64 0 [] = 0xEF46DB3751D8E999 /\
  xxh64 0x9E3779B1 [] = 0xAC75FDA2929B17EF /\
  seed_hash 9001 = 37836 /\
  m_hash_chunks 0 [[1;2;3]; []; [4;5;6;7;8;9;10;11;12;13;14;15;16;17]; [18]] =
    murmur3_x64_128 0 [1;2;3;4;5;6;7;8;9;10;11;12;13;14;15;16;17;18].
Proof. vm_compute. repeat split; reflexivity. Qed.

(* xxHash's published sanity-check vectors (buffer bytes = high byte of PRIME32 * PRIME64^i; lengths 1, 32, 33, 100:
   one tail byte, exactly one stripe, stripe + tail, three stripes + 4-byte tail), seeds 0 and PRIME32 *)
Definition XXH_SANITY : list N := [0; 82; 146; 155; 183; 50; 163; 36; 45; 0; 175; 149; 14; 236; 184; 147; 227; 223; 239; 147; 170; 214; 205; 42; 83; 139; 92; 63; 84; 90; 111; 213; 89; 192; 255; 252; 143; 133; 185; 51; 29; 171; 116; 247; 182; 5; 147; 39; 176; 112; 132; 179; 103; 124; 159; 118; 72; 0; 114; 237; 123; 152; 23; 232; 221; 72; 94; 12; 12; 203; 208; 101; 63; 173; 178; 143; 17; 176; 108; 232; 141; 176; 241; 134; 8; 97; 89; 86; 108; 142; 78; 120; 19; 99; 189; 171; 157; 50; 115; 9; 234].
Example c16_xxh64_sanity_vectors :
  xxh64 0 (firstn 1 XXH_SANITY) = 0xE934A84ADB052768 /\
  xxh64 0 (firstn 32 XXH_SANITY) = 0x18B216492BB44B70 /\
  xxh64 0 (firstn 33 XXH_SANITY) = 0x55C8DC3E578F5B59 /\
  xxh64 0 (firstn 100 XXH_SANITY) = 0x4BFE019CD91D9EA4 /\
  xxh64 0x9E3779B1 (firstn 1 XXH_SANITY) = 0x5014607643A9B4C3 /\
  xxh64 0x9E3779B1 (firstn 32 XXH_SANITY) = 0xB3F33BDF93ADE409 /\
  xxh64 0x9E3779B1 (firstn 100 XXH_SANITY) = 0x4853706DC9625CAE.
Proof. vm_compute. repeat split; reflexivity. Qed.

(* ---- consequently: the quantity a sketch derives for an item is a function of the item's hashed byte sequence only --
   however std's Hash impl splits the item into write calls, the derived HLL coupon, theta hash, CPC (row, col), Count-Min
   bucket and Bloom digests equal the reference derivation applied to the one-shot digest of the concatenated bytes ---- *)
Theorem c16_hll_coupon_of_bytes :
  forall chunks, hll_coupon chunks = hll_coupon_of (murmur3_x64_128 9001 (concat chunks)).
Proof. intros. unfold hll_coupon. now rewrite murmur_chunking. Qed.

Theorem c16_theta_hash_of_bytes :
  forall seed chunks, theta_hash seed chunks = theta_hash_of (murmur3_x64_128 seed (concat chunks)).
Proof. intros. unfold theta_hash. now rewrite murmur_chunking. Qed.

Theorem c16_cpc_row_col_of_bytes :
  forall lg_k seed chunks, cpc_row_col lg_k seed chunks = cpc_row_col_of lg_k (murmur3_x64_128 seed (concat chunks)).
Proof. intros. unfold cpc_row_col. now rewrite murmur_chunking. Qed.

Theorem c16_cm_bucket_of_bytes :
  forall seed row nb chunks,
  cm_bucket seed row nb chunks = fst (murmur3_x64_128 (cm_row_seed seed row) (concat chunks)) mod nb.
Proof. intros. unfold cm_bucket. now rewrite murmur_chunking. Qed.

Theorem c16_bloom_digests_of_bytes :
  forall seed chunks,
  bloom_h0h1 seed chunks = (xxh64 seed (concat chunks), xxh64 (xxh64 seed (concat chunks)) (concat chunks)).
Proof. intros. unfold bloom_h0h1. now rewrite !xxh64_chunking. Qed.
