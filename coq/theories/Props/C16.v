(* C16 — hashes are bit-exact MurmurHash3-x64-128 / XXH64 and independent of write chunking.
   Statements only; proofs in Proofs/HashProofs.v, generic block lemmas in Base/Absorb.v. *)
From DS Require Import Base.Prelude Model.Murmur Model.XxHash Model.Derive Proofs.HashProofs.
Open Scope N_scope.

(* For EVERY seed and EVERY way of splitting a byte string into successive `write` calls
   (any number of chunks, any lengths, including empty ones) the streaming hasher returns
   the one-shot reference digest of the concatenation. *)
Theorem c16_murmur_chunking :
  forall (seed : N) (chunks : list (list N)),
  m_hash_chunks seed chunks = murmur3_x64_128 seed (concat chunks).
Proof. exact murmur_chunking. Qed.

Theorem c16_xxh64_chunking :
  forall (seed : N) (chunks : list (list N)),
  x_hash_chunks seed chunks = xxh64 seed (concat chunks).
Proof. exact xxh64_chunking. Qed.

(* the specialised 8-byte path equals XXH64 of the 8 little-endian bytes *)
Theorem c16_hash_u64 :
  forall input seed, input < M64 -> x_hash_u64 input seed = xxh64 seed (le_bytes 8 input).
Proof. exact xxh64_hash_u64. Qed.

(* the derived quantities are in range for every digest *)
Theorem c16_hll_coupon_range :
  forall h, let c := hll_coupon_of h in c mod 2 ^ 26 < 2 ^ 26 /\ 1 <= c / 2 ^ 26 <= 63.
Proof. exact hll_coupon_range. Qed.

Theorem c16_theta_hash_range : forall h, fst h < M64 -> theta_hash_of h < 2 ^ 63.
Proof. exact theta_hash_range. Qed.

Theorem c16_cpc_row_col_range :
  forall lg_k h, lg_k <= 26 ->
  let rc := cpc_row_col_of lg_k h in rc <> 0xffffffff /\ rc mod 64 <= 63 /\ rc / 64 < 2 ^ lg_k.
Proof. exact cpc_row_col_range. Qed.

Theorem c16_cm_bucket_range : forall seed row nb item, nb <> 0 -> cm_bucket seed row nb item < nb.
Proof. exact cm_bucket_range. Qed.

Theorem c16_bloom_position_range : forall h0 h1 i cap, cap <> 0 -> bloom_position h0 h1 i cap < cap.
Proof. exact bloom_position_range. Qed.

(* the constants and inline literals of the Rust hashers, as re-read from the source on this
   run by the translator, are the ones of the published algorithms used by the model *)
Theorem c16_source_literals : hash_literals_ok.
Proof. exact hash_literals. Qed.

(* published test vectors: the reference functions are the published algorithms *)
Example c16_vectors :
  murmur3_x64_128 0 (map N.of_nat [84;104;101;32;113;117;105;99;107;32;98;114;111;119;110;32;102;111;120;32;106;117;109;112;115;32;111;118;101;114;32;116;104;101;32;108;97;122;121;32;100;111;103]%nat)
    = (0xe34bbc7bbc071b6c, 0x7a433ca9c49a9347) /\
  xxh64 0 [] = 0xEF46DB3751D8E999 /\
  xxh64 0x9E3779B1 [] = 0xAC75FDA2929B17EF /\
  seed_hash 9001 = 37836 /\
  m_hash_chunks 0 [[1;2;3]; []; [4;5;6;7;8;9;10;11;12;13;14;15;16;17]; [18]] =
    murmur3_x64_128 0 [1;2;3;4;5;6;7;8;9;10;11;12;13;14;15;16;17;18].
Proof. vm_compute. repeat split; reflexivity. Qed.
