(* C17, t-digest part -- no valid sequence of public API calls panics.  The models return Stuck at the
   panic sites of tdigest/sketch.rs they cover: TDigestMut::new (k < 10), the two assert_ne! of the
   binary search and the usize underflow of `lower -= 1` in rank, unreachable!() in cdf,
   check_split_points, and every site of the readers.  The merge pass is a relation (C15), not a
   function: its sites (buffer[0] on the non-empty contract, Centroid::add's checked weight, the u64
   weight counter, 2 * k -- the last one was a defect, tdigest-C17-two-k-u16-overflow) are observed by
   the harness in debug and release builds, not modelled.  Statements only. *)
From Coq Require Import QArith.
From DS Require Import Base.Prelude Base.TDigestBits Model.TDigest Model.TDigestCodec Spec.TDigestSpec.
From DS Require Import Proofs.TDigestProofsBase Proofs.TDigestProofsRank Proofs.TDigestProofsQuantile Proofs.TDigestProofsCdf
  Proofs.TDigestProofsInproc Proofs.TDigestCodec.
Open Scope Q_scope.

Theorem c17_tdigest_new : forall k, (10 <= k)%Z -> exists d, td_new k = Ok d.
Proof. exact td_new_ok. Qed.

(* queries on any well-formed view (hence on any image C14 accepts with sorted means, and on every
   in-process digest): Ok, never Stuck; split lists only need to be strictly increasing ([] included) *)
Theorem c17_tdigest_queries_never_stuck : forall v, wf_view v ->
  (forall x, exists r, rank v x = Ok (Some r)) /\
  (forall q, exists x, quantile v q = Ok (Some x)) /\
  (forall sp, strictly_increasing sp = true -> exists c p, cdf v sp = Ok (Some c) /\ pmf v sp = Ok (Some p)).
Proof. exact queries_never_stuck. Qed.

(* every compressed non-empty in-process digest presents such a view *)
Theorem c17_tdigest_inprocess_views : forall h d, reach h d -> td_buf d = [] -> td_cs d <> [] -> wf_view (td_view d).
Proof. exact inproc_wf_view. Qed.

(* the readers never reach a panic site, and serialize -> deserialize of a serializable state is Ok *)
Theorem c17_tdigest_codec_never_stuck :
  (forall is_f32 bs, tdb_dec is_f32 bs <> Stuck) /\ (forall s, wfb s -> tdb_dec false (tdb_enc s) = Ok s).
Proof. split; [exact tdb_dec_never_stuck|exact tdb_roundtrip]. Qed.

(* non-vacuity: the documented extreme k = 10; a single-centroid view answers every query *)
Example c17_tdigest_example :
  (exists d, td_new 10 = Ok d) /\ td_new 9 = Stuck /\
  rank (mkView 3 3 [(3, 1%positive)] 1) 3 = Ok (Some (1 # 2)) /\ cdf (mkView 3 3 [(3, 1%positive)] 1) [] = Ok (Some [1]).
Proof. repeat split; try reflexivity. eexists; reflexivity. Qed.
