(* C17, t-digest part -- no valid sequence of public API calls panics.

   What is and is not a theorem here, plainly.  There is NO program-level theorem "for all sequences of
   API calls": the merge pass (do_merge) is a RELATION (C15: merge_rel), not a function, because its
   decisions depend on ln, so a sequence of calls has no single modelled execution.  What is proved:
   * the FUNCTIONS of the model never return Stuck on the states the relation allows.  Stuck is
     returned at these panic sites of tdigest/sketch.rs: TDigestMut::new (assert k >= 10), the
     assert!(k >= 10) of TDigestMut::make on the readers' path, the two assert_ne! of the binary
     search and the usize underflow of `lower -= 1` in rank, unreachable!() in cdf, check_split_points
     (the documented assertions on ARGUMENTS -- rank(NaN), quantile outside [0, 1] -- are the caller's
     preconditions: not in the model, the driver expects the documented panic there);
   * every state [reach]able by ANY legal outcome of the merge passes -- from new(k) or from a decoded
     image -- presents, once compressed, a well-formed view, on which all queries are Ok;
   * a digest returned by the modelled reader, read as a rational state ([td_of_tdb]), is a legal
     start of a history ([image_ok]) PROVIDED its means are sorted and everything lies inside
     [min, max] ([ordered_b]): the crate's reader checks neither.  Images violating [ordered_b] are
     accepted by the crate; what queries do on them is outside every theorem and only exercised by the
     harness (malformed / foreign legs, no_panic oracle).
   NOT modelled, observed by the harness in debug and release builds only: the sites inside the merge
   pass (buffer[0] on the non-empty contract, Centroid::add's checked weight, the u64 weight counter,
   2 * k -- the last one was a defect, tdigest-C17-two-k-u16-overflow; the weight counter is the known
   finding tdigest-C14-weight-capacity), arithmetic overflow and slice indexing in general.
   [reach] uses the EXACT relation merge_rel 0; the harness validates the crate's passes with
   valid_merge at tolerance 1e-9, so crate executions are instances of [reach] only up to that
   tolerance.  Statements only. *)
From Coq Require Import QArith.
From DS Require Import Base.Prelude Base.TDigestBits Model.TDigest Model.TDigestCodec Model.TDigestBridge Spec.TDigestSpec.
From DS Require Import Proofs.TDigestProofsBase Proofs.TDigestProofsRank Proofs.TDigestProofsQuantile Proofs.TDigestProofsCdf
  Proofs.TDigestProofsInproc Proofs.TDigestProofsReach Proofs.TDigestCodec Proofs.TDigestBridge.
Open Scope Q_scope.

Theorem c17_tdigest_new : forall k, (10 <= k)%Z -> exists d, td_new k = Ok d.
Proof. exact td_new_ok. Qed.

(* queries on any well-formed view: Ok, never Stuck; split lists only need to be strictly increasing
   ([] included) *)
Theorem c17_tdigest_queries_never_stuck : forall v, wf_view v ->
  (forall x, exists r, rank v x = Ok (Some r)) /\
  (forall q, exists x, quantile v q = Ok (Some x)) /\
  (forall sp, strictly_increasing sp = true -> exists c p, cdf v sp = Ok (Some c) /\ pmf v sp = Ok (Some p)).
Proof. exact queries_never_stuck. Qed.

(* every compressed non-empty reachable state presents such a view, whatever the merge passes chose and
   whether the history started from new(k) or from a decoded image *)
Theorem c17_tdigest_reachable_views : forall h d, reach h d -> td_buf d = [] -> td_cs d <> [] -> wf_view (td_view d).
Proof. exact reach_view_wf. Qed.

(* every history whose constructor calls meet their preconditions can be continued: a legal merge
   pass always exists *)
Theorem c17_tdigest_progress : forall h, hist_ok h -> exists d, reach h d.
Proof. exact reach_progress. Qed.

(* "Ok values are usable": the link between the byte-level reader and the rational model.  A digest
   the reader returns, whose means are sorted and whose contents lie inside [min, max], is a legal
   history start; with nothing buffered it is itself a well-formed view *)
Theorem c17_tdigest_decoded_is_a_history_start : forall is_f32 bs s d,
  tdb_dec is_f32 bs = Ok s -> td_of_tdb s = Some d -> ordered_b d = true -> image_ok d.
Proof. exact decoded_image_ok. Qed.

Theorem c17_tdigest_decoded_view : forall is_f32 bs s d,
  tdb_dec is_f32 bs = Ok s -> td_of_tdb s = Some d -> ordered_b d = true ->
  td_buf d = [] -> td_cs d <> [] -> wf_view (td_view d).
Proof. exact decoded_view_wf. Qed.

(* the readers never reach a panic site, and serialize -> deserialize of a serializable state is Ok *)
Theorem c17_tdigest_codec_never_stuck :
  (forall is_f32 bs, tdb_dec is_f32 bs <> Stuck) /\ (forall s, wfb s -> tdb_dec false (tdb_enc s) = Ok s).
Proof. split; [exact tdb_dec_never_stuck|exact tdb_roundtrip]. Qed.

(* non-vacuity: the documented extreme k = 10; a single-centroid view answers every query; the
   image of Props/C11_tdigest.v (k = 100, centroids (1.0,w1) (2.5,w7) (4.0,w1)) is decoded to a
   rational state that passes ordered_b *)
Example c17_tdigest_example :
  (exists d, td_new 10 = Ok d) /\ td_new 9 = Stuck /\
  rank (mkView 3 3 [(3, 1%positive)] 1) 3 = Ok (Some (1 # 2)) /\ cdf (mkView 3 3 [(3, 1%positive)] 1) [] = Ok (Some [1]) /\
  exists d, td_of_tdb c11_example_state = Some d /\ ordered_b d = true /\ td_total d = 9%Z.
Proof.
  split; [eexists; reflexivity|]. split; [reflexivity|]. split; [reflexivity|]. split; [reflexivity|].
  eexists. split; [vm_compute; reflexivity|]. split; vm_compute; reflexivity.
Qed.
