(* The invariant of the CPC sketch and its preservation by row_col_update (all flavors, window moves). *)
From DS Require Import Base.Prelude Model.Cpc Proofs.CpcBits Proofs.CpcSpec Proofs.CpcProofs Proofs.CpcInv.
From Coq Require Import ZifyBool ZifyNat ZifyN.
Ltac Zify.zify_post_hook ::= Z.div_mod_to_equations.
Open Scope N_scope.

(* a pair the sketch can be offered: its row exists, and it is not the table's empty-slot marker
   (CpcSketch::update never produces u32::MAX: it flips the low row bit of that pair) *)
Definition valid (lgk rc : N) : Prop := rc / 64 < 2 ^ lgk /\ rc <> U32MAX.

Definition Mnomax (lgk : N) (M : matrix) : Prop :=
  forall r c, r < 2 ^ lgk -> c < 64 -> N.testbit (M r) c = true -> r * 64 + c <> U32MAX.

Record Inv (lgk : N) (s : cpc) (M : matrix) : Prop := {
  inv_rep : Rep s M;
  inv_lgk : c_lgk s = lgk;
  inv_range : 4 <= lgk <= 26;
  inv_off : c_off s = coff (2 ^ lgk) (c_num s);
  inv_win : windowed s = true <-> 3 * 2 ^ lgk <= 32 * c_num s;
  inv_fic_le : c_fic s <= c_off s;
  inv_fic : forall r c, r < 2 ^ lgk -> c < c_fic s -> N.testbit (M r) c = true;
  inv_nomax : Mnomax lgk M
}.

Lemma memN_iff : forall x l l', (In x l <-> In x l') -> memN x l = memN x l'.
Proof.
  intros x l l' H. destruct (memN x l') eqn:E.
  - apply memN_In. apply H. apply memN_In. exact E.
  - apply memN_false. intros H'. apply H in H'. apply memN_In in H'. congruence.
Qed.

Lemma Mnomax_update : forall lgk M rc, Mnomax lgk M -> rc <> U32MAX -> Mnomax lgk (spec_update M rc).
Proof.
  intros lgk M rc H Hrc r c Hr Hc Hb. rewrite spec_update_bit in Hb.
  apply orb_true_iff in Hb. destruct Hb as [Hb|Hb]; [apply (H r c Hr Hc Hb)|].
  intros E. apply Hrc. rewrite <- E. lia.
Qed.

Lemma spec_update_mono : forall M rc r c, N.testbit (M r) c = true -> N.testbit (spec_update M rc r) c = true.
Proof. intros M rc r c H. rewrite spec_update_bit, H. reflexivity. Qed.

(* the pair is already recorded *)
Lemma inv_dup : forall lgk s M rc, Inv lgk s M -> rc / 64 < 2 ^ lgk ->
  N.testbit (M (rc / 64)) (rc mod 64) = true -> rc <> U32MAX -> Inv lgk s (spec_update M rc).
Proof.
  intros lgk s M rc I Hr Hb Hrc. destruct I as [R Hl Hrg Hoff Hwin Hfl Hfic Hnm].
  constructor; try assumption.
  - apply rep_dup; [exact R|rewrite Hl; exact Hr|].
    rewrite (rep_bits s M R) by (rewrite ?Hl; try exact Hr; lia). exact Hb.
  - intros r c Hr' Hc. apply spec_update_mono. apply Hfic; assumption.
  - apply Mnomax_update; assumption.
Qed.

(* ---------- the empty sketch ---------- *)
Lemma new_inv : forall lgk, 4 <= lgk <= 26 ->
  exists s, cpc_new lgk = Ok s /\ Inv lgk s (fun _ => 0).
Proof.
  intros lgk H. unfold cpc_new. consts.
  assert ((4 <=? lgk) && (lgk <=? 26) = true) as -> by lia.
  eexists. split; [reflexivity|].
  pose proof (pow_pos lgk) as HK.
  constructor; proj.
  - constructor.
    + constructor; unfold tlist, windowed; proj; try (intros; try contradiction; try discriminate; try reflexivity; lia).
      * constructor.
      * intros _. split; reflexivity.
    + intros r c _ _. unfold sk_bit, windowed, tlist. proj. cbn. rewrite ?N.bits_0. reflexivity.
    + proj. symmetry. apply pop_rows_zero.
  - reflexivity.
  - exact H.
  - symmetry. apply coff_small. lia.
  - unfold windowed. proj. split; [discriminate|lia].
  - lia.
  - intros r c _ Hc. lia.
  - intros r c _ _ Hb. rewrite N.bits_0 in Hb. discriminate.
Qed.

(* promote EMPTY to SPARSE: allocating the table changes nothing the invariant sees *)
Lemma inv_alloc : forall lgk s M, Inv lgk s M -> c_num s = 0 -> Inv lgk (set_table s (Some [])) M.
Proof.
  intros lgk s M I HC. destruct I as [R Hl Hrg Hoff Hwin Hfl Hfic Hnm].
  destruct R as [W Hbits Hnum]. destruct (wf_empty s W HC) as [Ht Hw].
  constructor; proj; try assumption.
  constructor; proj.
  - destruct W. constructor; unfold tlist, windowed in *; proj; try assumption;
      try (intros; try contradiction; try discriminate; assumption).
    + constructor.
    + intros _. split; [reflexivity|]. exact Hw.
  - intros r c Hr Hc. rewrite <- (Hbits r c Hr Hc). unfold sk_bit, windowed, tlist in *. proj. rewrite Ht. reflexivity.
  - exact Hnum.
Qed.

(* ---------- promote_sparse_to_windowed ---------- *)
Lemma nthN_repeat0 : forall n r, nthN (repeat 0 n) r 0 = 0.
Proof.
  intros n r. unfold nthN. generalize (N.to_nat r). clear.
  induction n as [|n IH]; intros [|i]; cbn; try reflexivity. apply IH.
Qed.

Lemma promote_ok : forall s M t,
  Rep s M -> windowed s = false -> c_table s = Some t -> c_num s <> 0 ->
  (32 * c_num s = 3 * 2 ^ c_lgk s \/ (c_lgk s = 4 /\ 3 * 2 ^ c_lgk s < 32 * c_num s)) ->
  exists s', promote_sparse_to_windowed s = Ok s' /\ Rep s' M /\ windowed s' = true /\
     c_lgk s' = c_lgk s /\ c_num s' = c_num s /\ c_off s' = 0 /\ c_fic s' = c_fic s.
Proof.
  intros s M t R Hw Ht HC Hcond. destruct R as [W Hbits Hnum].
  pose proof (wf_sparse_off s W Hw) as Hoff0.
  assert (Htl : tlist s = t) by (unfold tlist; rewrite Ht; reflexivity).
  unfold promote_sparse_to_windowed. consts. rewrite Hoff0, Ht.
  change (0 =? 0) with true. cbn [negb].
  assert (((c_num s * 32 =? 3 * 2 ^ c_lgk s) || ((c_lgk s =? 4) && (3 * 2 ^ c_lgk s <? c_num s * 32))) = true) as -> by lia.
  cbn [negb].
  destruct (fold_left promote_step t (repeat 0 (N.to_nat (2 ^ c_lgk s)), [])) as [win' t'] eqn:Ef.
  eexists. split; [reflexivity|].
  apply (promote_fold (Knat (c_lgk s))) in Ef.
  - destruct Ef as [H1 [H2 [H3 [H4 H5]]]].
    assert (Hwin' : win' <> []) by (apply length_nonempty; rewrite H1; apply Knat_pos).
    assert (Hwd : windowed (set_win (set_table s (Some t')) win') = true) by (apply windowed_true; proj; exact Hwin').
    split; [|split; [exact Hwd|repeat split; proj; try reflexivity; exact Hoff0]].
    constructor; proj.
    + constructor; rewrite ?Hwd; unfold tlist; proj.
      * exact H3.
      * intros x Hx. apply H4 in Hx. destruct Hx as [[]|[Hx _]]. apply (wf_rows s W). rewrite Htl. exact Hx.
      * intros x Hx. apply H4 in Hx. destruct Hx as [[]|[Hx _]]. apply (wf_nomax s W). rewrite Htl. exact Hx.
      * intros _ x Hx. apply H4 in Hx. destruct Hx as [[]|[_ Hx]]. right. lia.
      * intros _. split; assumption.
      * discriminate.
      * lia.
      * discriminate.
      * intros H. contradiction.
    + intros r c Hr Hc. rewrite <- (Hbits r c Hr Hc). unfold sk_bit at 1. rewrite Hwd. unfold tlist. proj.
      rewrite Hoff0. assert (c <? 0 = false) as -> by lia. unfold sk_bit. rewrite Hw, Htl.
      destruct (c <? 0 + 8) eqn:E.
      * rewrite N.sub_0_r, H5 by (rewrite ?Knat_N; lia). rewrite nthN_repeat0, N.bits_0. reflexivity.
      * apply memN_iff. rewrite H4. cbn [In]. rewrite rc_mod by exact Hc. split.
        -- intros [[]|[H _]]. exact H.
        -- intros H. right. split; [exact H|lia].
    + exact Hnum.
  - intros x Hx. rewrite Knat_N. apply (wf_rows s W). rewrite Htl. exact Hx.
  - intros x Hx. apply (wf_nomax s W). rewrite Htl. exact Hx.
  - rewrite <- Htl. apply (wf_nodup s W).
  - apply repeat_length.
  - apply Forall_forall. intros b Hb. apply repeat_spec in Hb. subst. lia.
  - constructor.
  - intros x [].
Qed.

(* ---------- the surprising-value table never outgrows its capacity ---------- *)
(* what a stream must satisfy at the matrix M' reached after one more pair, C' = its number of coupons:
   while the sketch is (still) sparse, the C' coupons fit the table; afterwards the surprising values of M' fit it
   both at the window offset before the pair (where a new surprising one is inserted) and at the correct offset of
   C' (where move_window rebuilds the table) *)
Definition fits (lgk : N) (M' : matrix) (C' : N) : Prop :=
  (32 * C' < 3 * 2 ^ lgk + 32 -> tbl_full lgk (load lgk M' false 0) = false) /\
  (3 * 2 ^ lgk <= 32 * C' ->
     tbl_full lgk (load lgk M' true (coff (2 ^ lgk) (C' - 1))) = false /\
     tbl_full lgk (load lgk M' true (coff (2 ^ lgk) C')) = false).

Fixpoint fits_stream (lgk : N) (M : matrix) (cs : list N) : Prop :=
  match cs with
  | [] => True
  | x :: r => fits lgk (spec_update M x) (pop_rows (spec_update M x) (Knat lgk)) /\ fits_stream lgk (spec_update M x) r
  end.

(* boolean form, for checking concrete streams by computation *)
Definition fitsb (lgk : N) (M' : matrix) (C' : N) : bool :=
  (negb (32 * C' <? 3 * 2 ^ lgk + 32) || negb (tbl_full lgk (load lgk M' false 0))) &&
  (negb (3 * 2 ^ lgk <=? 32 * C') ||
   (negb (tbl_full lgk (load lgk M' true (coff (2 ^ lgk) (C' - 1)))) &&
    negb (tbl_full lgk (load lgk M' true (coff (2 ^ lgk) C'))))).

Fixpoint fits_streamb (lgk : N) (M : matrix) (cs : list N) : bool :=
  match cs with
  | [] => true
  | x :: r => fitsb lgk (spec_update M x) (pop_rows (spec_update M x) (Knat lgk)) && fits_streamb lgk (spec_update M x) r
  end.

Lemma fitsb_sound : forall lgk M C, fitsb lgk M C = true -> fits lgk M C.
Proof.
  intros lgk M C H. unfold fitsb in H. apply andb_true_iff in H. destruct H as [H1 H2]. split.
  - intros L. assert (E : 32 * C <? 3 * 2 ^ lgk + 32 = true) by lia. rewrite E in H1. cbn [negb orb] in H1.
    destruct (tbl_full lgk (load lgk M false 0)); [discriminate|reflexivity].
  - intros L. assert (E : 3 * 2 ^ lgk <=? 32 * C = true) by lia. rewrite E in H2. cbn [negb orb] in H2.
    apply andb_true_iff in H2. destruct H2 as [A B].
    split; [destruct (tbl_full lgk (load lgk M true (coff (2 ^ lgk) (C - 1)))); [discriminate|reflexivity]|
            destruct (tbl_full lgk (load lgk M true (coff (2 ^ lgk) C))); [discriminate|reflexivity]].
Qed.

Lemma fits_streamb_sound : forall lgk cs M, fits_streamb lgk M cs = true -> fits_stream lgk M cs.
Proof.
  intros lgk cs. induction cs as [|x cs IH]; intros M H; cbn [fits_stream fits_streamb] in *; [exact I|].
  apply andb_true_iff in H. destruct H as [H1 H2]. split; [apply fitsb_sound; exact H1|apply IH; exact H2].
Qed.
