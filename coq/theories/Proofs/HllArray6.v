(* HLL proofs, part 3: Array6.  The 16-bit window get_raw/put_raw, bit by bit:
   get (put b s v) s = v, other slots are untouched, bytes stay bytes; then the refinement. *)
From DS Require Import Base.Prelude Model.Hll Proofs.HllBase Proofs.HllArray8.
From Coq Require Import ZifyBool ZifyNat ZifyN.
Open Scope N_scope.
Ltac Zify.zify_post_hook ::= Z.div_mod_to_equations.

(* ---------- bit helpers ---------- *)
Lemma testbit_small : forall x n m, x < 2 ^ n -> n <= m -> N.testbit x m = false.
Proof. intros x n m H L. rewrite <- (N.mod_small x (2 ^ n) H). now apply N.mod_pow2_bits_high. Qed.

Lemma lt_pow2_of_bits : forall x n, (forall m, n <= m -> N.testbit x m = false) -> x < 2 ^ n.
Proof.
  intros x n H. assert (E : x = x mod 2 ^ n).
  { apply N.bits_inj. intros m. destruct (N.ltb_spec m n) as [L|L].
    - now rewrite N.mod_pow2_bits_low.
    - rewrite N.mod_pow2_bits_high by assumption. now apply H. }
  rewrite E. apply N.mod_lt. apply N.pow_nonzero. lia.
Qed.

Lemma testbit_63 : forall i, N.testbit 63 i = (i <? 6).
Proof.
  intros i. change 63 with (N.ones 6). destruct (N.ltb_spec i 6) as [L|L].
  - now apply N.ones_spec_low.
  - now apply N.ones_spec_high.
Qed.

(* ---------- the byte array as a bit string ---------- *)
Definition WFb (b : arr) : Prop := forall i, aget b i < 256.
Definition bitof (b : arr) (n : N) : bool := N.testbit (aget b (n / 8)) (n mod 8).
Definition two (b : arr) (bi : N) : N := N.lor (aget b bi) (N.shiftl (aget b (bi + 1)) 8).

Lemma WFb_empty : WFb aempty.
Proof. intros i. rewrite aget_empty. lia. Qed.

Lemma two_testbit : forall b bi m, WFb b ->
  N.testbit (two b bi) m = if m <? 8 then N.testbit (aget b bi) m else N.testbit (aget b (bi + 1)) (m - 8).
Proof.
  intros b bi m W. unfold two. rewrite N.lor_spec. destruct (N.ltb_spec m 8) as [L|L].
  - rewrite N.shiftl_spec_low by assumption. apply orb_false_r.
  - rewrite (testbit_small (aget b bi) 8 m (W bi) L). rewrite N.shiftl_spec_high' by assumption. reflexivity.
Qed.

Lemma two_bitof : forall b bi m, WFb b -> m < 16 -> N.testbit (two b bi) m = bitof b (8 * bi + m).
Proof.
  intros b bi m W Hm. rewrite two_testbit by assumption. unfold bitof.
  destruct (N.ltb_spec m 8) as [L|L].
  - replace ((8 * bi + m) / 8) with bi by lia. replace ((8 * bi + m) mod 8) with m by lia. reflexivity.
  - replace ((8 * bi + m) / 8) with (bi + 1) by lia. replace ((8 * bi + m) mod 8) with (m - 8) by lia. reflexivity.
Qed.

Lemma two_lt : forall b bi, WFb b -> two b bi < 2 ^ 16.
Proof.
  intros b bi W. apply lt_pow2_of_bits. intros m Hm. rewrite two_testbit by assumption.
  destruct (N.ltb_spec m 8) as [L|L]; [lia|].
  apply (testbit_small _ 8); [apply W|lia].
Qed.

(* window position of a slot *)
Lemma window_pos : forall s, 8 * N.shiftr (s * 6) 3 + N.land (s * 6) 7 = 6 * s /\ N.land (s * 6) 7 < 8.
Proof.
  intros s. rewrite shiftr_div. change 7 with (2 ^ 3 - 1). rewrite land_mask. change (2 ^ 3) with 8. lia.
Qed.

(* ---------- get_raw, bit by bit ---------- *)
Lemma a6_get_bits : forall b s i, WFb b ->
  N.testbit (a6_get_raw b s) i = if i <? 6 then bitof b (6 * s + i) else false.
Proof.
  intros b s i W. unfold a6_get_raw. fold (two b (N.shiftr (s * 6) 3)).
  change VAL_MASK_6 with 63. rewrite N.land_spec, testbit_63.
  destruct (N.ltb_spec i 6) as [L|L]; [|apply andb_false_r].
  rewrite andb_true_r, N.shiftr_spec'.
  destruct (window_pos s) as [Hw Hs].
  rewrite two_bitof by (assumption || lia). f_equal. lia.
Qed.

Lemma a6_get_lt : forall b s, WFb b -> a6_get_raw b s < 64.
Proof.
  intros b s W. change 64 with (2 ^ 6). apply lt_pow2_of_bits. intros m Hm.
  rewrite a6_get_bits by assumption. destruct (N.ltb_spec m 6); [lia|reflexivity].
Qed.

(* ---------- put_raw, bit by bit ---------- *)
Definition new_two (b : arr) (s v : N) : N :=
  N.lor (N.ldiff (two b (N.shiftr (s * 6) 3)) (N.shiftl 63 (N.land (s * 6) 7)))
        (N.shiftl (N.land v 63) (N.land (s * 6) 7)).

Lemma new_two_testbit : forall b s v m, WFb b -> m < 16 ->
  N.testbit (new_two b s v) m =
  if (N.land (s * 6) 7 <=? m) && (m <? N.land (s * 6) 7 + 6) then N.testbit v (m - N.land (s * 6) 7)
  else bitof b (8 * N.shiftr (s * 6) 3 + m).
Proof.
  intros b s v m W Hm. unfold new_two. set (sh := N.land (s * 6) 7). set (bi := N.shiftr (s * 6) 3).
  rewrite N.lor_spec, N.ldiff_spec. rewrite two_bitof by assumption.
  destruct (N.leb_spec sh m) as [L|L].
  - rewrite !N.shiftl_spec_high' by assumption. rewrite N.land_spec, testbit_63.
    destruct (N.ltb_spec (m - sh) 6) as [L2|L2].
    + replace (m <? sh + 6) with true by lia. cbn [negb andb]. rewrite andb_false_r, andb_true_r. reflexivity.
    + replace (m <? sh + 6) with false by lia. cbn [negb andb]. rewrite andb_true_r, andb_false_r, orb_false_r. reflexivity.
  - rewrite !N.shiftl_spec_low by assumption. cbn [negb andb]. rewrite andb_true_r, orb_false_r. reflexivity.
Qed.

Lemma new_two_lt : forall b s v, WFb b -> new_two b s v < 2 ^ 16.
Proof.
  intros b s v W. apply lt_pow2_of_bits. intros m Hm. unfold new_two.
  rewrite N.lor_spec, N.ldiff_spec.
  rewrite (testbit_small _ 16 m (two_lt b _ W) Hm). cbn [andb orb].
  destruct (window_pos s) as [_ Hs].
  rewrite N.shiftl_spec_high' by lia. rewrite N.land_spec, testbit_63.
  replace (m - N.land (s * 6) 7 <? 6) with false by lia. apply andb_false_r.
Qed.

Lemma a6_put_unfold : forall b s v,
  a6_put_raw b s v = aset (aset b (N.shiftr (s * 6) 3) (N.land (new_two b s v) 255))
                          (N.shiftr (s * 6) 3 + 1) (N.shiftr (new_two b s v) 8).
Proof. reflexivity. Qed.

Lemma a6_put_WF : forall b s v, WFb b -> WFb (a6_put_raw b s v).
Proof.
  intros b s v W i. rewrite a6_put_unfold. rewrite !aget_aset.
  destruct (N.eqb_spec (N.shiftr (s * 6) 3 + 1) i).
  - rewrite shiftr_div. pose proof (new_two_lt b s v W). change (2 ^ 16) with 65536 in H. change (2 ^ 8) with 256. lia.
  - destruct (N.eqb_spec (N.shiftr (s * 6) 3) i); [|apply W].
    change 255 with (2 ^ 8 - 1). rewrite land_mask. change (2 ^ 8) with 256. lia.
Qed.

Lemma a6_put_bits : forall b s v n, WFb b ->
  bitof (a6_put_raw b s v) n =
  if (6 * s <=? n) && (n <? 6 * s + 6) then N.testbit v (n - 6 * s) else bitof b n.
Proof.
  intros b s v n W. destruct (window_pos s) as [Hw Hs].
  set (bi := N.shiftr (s * 6) 3) in *. set (sh := N.land (s * 6) 7) in *.
  unfold bitof at 1. rewrite a6_put_unfold. fold bi. rewrite !aget_aset.
  destruct (N.eqb_spec (bi + 1) (n / 8)) as [E1|E1].
  - (* high byte of the window *)
    rewrite N.shiftr_spec'. rewrite new_two_testbit by (assumption || lia). fold sh bi.
    replace (8 * bi + (n mod 8 + 8)) with n by lia.
    replace (n mod 8 + 8 - sh) with (n - 6 * s) by lia.
    destruct (N.leb_spec sh (n mod 8 + 8)), (N.ltb_spec (n mod 8 + 8) (sh + 6)),
             (N.leb_spec (6 * s) n), (N.ltb_spec n (6 * s + 6)); cbn [andb]; try reflexivity; lia.
  - destruct (N.eqb_spec bi (n / 8)) as [E0|E0].
    + (* low byte *)
      change 255 with (N.ones 8). rewrite N.land_spec, N.ones_spec_low by lia. rewrite andb_true_r.
      rewrite new_two_testbit by (assumption || lia). fold sh bi.
      replace (8 * bi + n mod 8) with n by lia.
      replace (n mod 8 - sh) with (n - 6 * s) by lia.
      destruct (N.leb_spec sh (n mod 8)), (N.ltb_spec (n mod 8) (sh + 6)),
               (N.leb_spec (6 * s) n), (N.ltb_spec n (6 * s + 6)); cbn [andb]; try reflexivity; lia.
    + (* outside the window *)
      fold (bitof b n).
      destruct (N.leb_spec (6 * s) n), (N.ltb_spec n (6 * s + 6)); cbn [andb]; try reflexivity; lia.
Qed.

(* ---------- the two laws of the packed array ---------- *)
Theorem a6_get_put_same : forall b s v, WFb b -> v < 64 -> a6_get_raw (a6_put_raw b s v) s = v.
Proof.
  intros b s v W Hv. apply N.bits_inj. intros i.
  rewrite a6_get_bits by (now apply a6_put_WF). destruct (N.ltb_spec i 6) as [L|L].
  - rewrite a6_put_bits by assumption.
    replace ((6 * s <=? 6 * s + i) && (6 * s + i <? 6 * s + 6)) with true by lia.
    f_equal. lia.
  - symmetry. apply (testbit_small v 6); [exact Hv|assumption].
Qed.

Theorem a6_get_put_other : forall b s s' v, WFb b -> s' <> s -> a6_get_raw (a6_put_raw b s v) s' = a6_get_raw b s'.
Proof.
  intros b s s' v W Hs. apply N.bits_inj. intros i.
  rewrite !a6_get_bits by (assumption || now apply a6_put_WF). destruct (N.ltb_spec i 6) as [L|L]; [|reflexivity].
  rewrite a6_put_bits by assumption.
  replace ((6 * s <=? 6 * s' + i) && (6 * s' + i <? 6 * s + 6)) with false by lia. reflexivity.
Qed.

Lemma a6_get_empty : forall s, a6_get_raw aempty s = 0.
Proof.
  intros. apply N.bits_inj_0. intros i. rewrite a6_get_bits by apply WFb_empty.
  destruct (i <? 6); [|reflexivity]. unfold bitof. rewrite aget_empty. apply N.bits_0.
Qed.

(* ---------- refinement ---------- *)
Section Est.
Variable E : Type.
Variable eupd : N -> N -> N -> E -> E.

Definition Rep6 (lgk : N) (seen : list N) (a : arr6 E) (e : E) : Prop :=
  a6_lgk a = lgk /\ WFb (a6_bytes a) /\ (forall j, j < 2 ^ lgk -> a6_get a j = spec_regs lgk seen j) /\
  a6_nz a = spec_zeros lgk seen /\ a6_est a = e.

Lemma rep6_new : forall lgk e, Rep6 lgk [] (a6_new lgk e) e.
Proof.
  intros. unfold Rep6, a6_new, a6_get. cbn [a6_lgk a6_bytes a6_nz a6_est spec_regs].
  split; [reflexivity|]. split; [apply WFb_empty|]. split; [intros; apply a6_get_empty|].
  split; [now rewrite spec_zeros_nil|reflexivity].
Qed.

Lemma rep6_step : forall lgk seen a e c, Forall valid (c :: seen) -> Rep6 lgk seen a e ->
  Rep6 lgk (c :: seen) (a6_update eupd a c) (est_step eupd lgk seen c e).
Proof.
  intros lgk seen a e c Hv (Hk & W & Hr & Hz & He). unfold a6_update, est_step.
  rewrite Hk, slot_of_cslot, get_value_div, Hr by apply cslot_lt.
  destruct (N.ltb_spec (spec_regs lgk seen (cslot lgk c)) (cvalue c)) as [Hlt|Hge].
  - unfold Rep6, a6_get. cbn [a6_lgk a6_bytes a6_nz a6_est].
    split; [reflexivity|]. split; [now apply a6_put_WF|]. split; [|split].
    + intros j Hj. destruct (N.eq_dec (cslot lgk c) j) as [Ej|Ej].
      * rewrite (spec_regs_cons_same lgk seen c j Ej) by (rewrite <- Ej; assumption).
        rewrite <- Ej. apply a6_get_put_same; [assumption|].
        inversion Hv as [|? ? [_ Hc] _]. lia.
      * rewrite spec_regs_cons_other by assumption. rewrite a6_get_put_other by (assumption || congruence). now apply Hr.
    + destruct (spec_zeros_grow lgk seen c Hlt) as [Hs _]. rewrite Hs, Hz. reflexivity.
    + now rewrite He.
  - unfold Rep6. split; [assumption|]. split; [assumption|]. split; [|split; [|assumption]].
    + intros j Hj. rewrite spec_regs_cons_noop by assumption. now apply Hr.
    + rewrite Hz. unfold spec_zeros. apply count_regs_ext. intros j _.
      now rewrite spec_regs_cons_noop by assumption.
Qed.

Lemma rep6_fold : forall lgk cs seen a e, Forall valid cs -> Forall valid seen -> Rep6 lgk seen a e ->
  Rep6 lgk (rev cs ++ seen) (fold_left (a6_update eupd) cs a) (spec_est eupd lgk seen cs e).
Proof.
  induction cs; intros seen a0 e Hc Hs H; cbn [fold_left spec_est rev app]; [assumption|].
  rewrite <- app_assoc. cbn [app]. inversion Hc; subst. apply IHcs; [assumption|now constructor|].
  apply rep6_step; [now constructor|assumption].
Qed.

End Est.
Arguments Rep6 {E}.
