(* Lemmas about the small library Base/ThetaLib.v: slot arrays, index ranges, binary-fuel
   iteration, merge sort and order statistics of duplicate-free N lists. *)
From Coq Require Import List PArith Pnat NArith Nnat Bool Lia Orders Mergesort FMapPositive Sorted Permutation PeanoNat.
From DS Require Import Base.ThetaLib.
Import ListNotations.
Open Scope N_scope.

(* ---------- slot arrays ---------- *)
Lemma succ_pos_inj : forall a b, N.succ_pos a = N.succ_pos b -> a = b.
Proof.
  intros a b H. apply (f_equal Npos) in H. rewrite !N.succ_pos_spec in H. lia.
Qed.

Lemma sl_get_empty : forall i, sl_get sl_empty i = 0.
Proof. intros. unfold sl_get, sl_empty. rewrite PositiveMap.gempty. reflexivity. Qed.

Lemma sl_get_set_same : forall t i v, sl_get (sl_set t i v) i = v.
Proof. intros. unfold sl_get, sl_set. rewrite PositiveMap.gss. reflexivity. Qed.

Lemma sl_get_set_other : forall t i j v, i <> j -> sl_get (sl_set t i v) j = sl_get t j.
Proof.
  intros. unfold sl_get, sl_set. rewrite PositiveMap.gso; [reflexivity|].
  intro E. apply succ_pos_inj in E. congruence.
Qed.

(* ---------- ranges ---------- *)
Lemma rangeN_In : forall n s i, In i (rangeN n s) <-> s <= i /\ i < s + N.of_nat n.
Proof.
  induction n as [|n IH]; intros s i; cbn [rangeN].
  - split; [intros []|]. cbn. lia.
  - cbn [In]. rewrite IH. lia.
Qed.

Lemma rangeN_NoDup : forall n s, NoDup (rangeN n s).
Proof.
  induction n as [|n IH]; intros s; cbn [rangeN]; constructor.
  - rewrite rangeN_In. lia.
  - apply IH.
Qed.

Lemma rangeN_length : forall n s, length (rangeN n s) = n.
Proof. induction n as [|n IH]; intros; cbn [rangeN length]; [reflexivity|]. now rewrite IH. Qed.

Lemma rangeN0_In : forall size i, In i (rangeN (N.to_nat size) 0) <-> i < size.
Proof. intros. rewrite rangeN_In. rewrite N2Nat.id. lia. Qed.

(* ---------- values of a slot array ---------- *)
Lemma sl_values_In : forall t size x,
  In x (sl_values t size) <-> x <> 0 /\ exists i, i < size /\ sl_get t i = x.
Proof.
  intros t size x. unfold sl_values. rewrite filter_In, in_map_iff. split.
  - intros [[i [E Hi]] Hnz]. apply rangeN0_In in Hi. split.
    + intro Z. subst x. rewrite Z in Hnz. discriminate.
    + exists i. auto.
  - intros [Hnz [i [Hi E]]]. split.
    + exists i. split; [exact E|]. now apply rangeN0_In.
    + destruct (N.eqb_spec x 0); [contradiction|reflexivity].
Qed.

Lemma NoDup_filter_map : forall (f : N -> N) (l : list N),
  NoDup l ->
  (forall a b, In a l -> In b l -> f a = f b -> f a <> 0 -> a = b) ->
  NoDup (filter (fun v => negb (v =? 0)) (map f l)).
Proof.
  induction l as [|a l IH]; intros ND Hinj; cbn [map filter]; [constructor|].
  inversion ND as [|? ? Hnotin ND']; subst.
  assert (IHl : NoDup (filter (fun v => negb (v =? 0)) (map f l))).
  { apply IH; [exact ND'|]. intros x y Hx Hy. apply Hinj; now right. }
  destruct (N.eqb_spec (f a) 0) as [Z|NZ]; cbn [negb]; [exact IHl|].
  constructor; [|exact IHl].
  rewrite filter_In, in_map_iff. intros [[b [E Hb]] _].
  assert (b = a). { apply Hinj; [now right|now left|exact E|congruence]. }
  subst b. contradiction.
Qed.

Lemma filter_length_lt_ex : forall (A : Type) (f : A -> bool) (l : list A),
  (length (filter f l) < length l)%nat -> exists x, In x l /\ f x = false.
Proof.
  induction l as [|a l IH]; cbn [filter length]; intros H; [lia|].
  destruct (f a) eqn:E.
  - cbn [length] in H. destruct IH as [x [Hx Fx]]; [lia|]. exists x. split; [now right|exact Fx].
  - exists a. split; [now left|exact E].
Qed.

(* fewer non-zero values than slots: some slot is empty *)
Lemma sl_values_free_slot : forall t size,
  N.of_nat (length (sl_values t size)) < size -> exists i, i < size /\ sl_get t i = 0.
Proof.
  intros t size H. unfold sl_values in H.
  destruct (filter_length_lt_ex _ (fun v => negb (v =? 0)) (map (sl_get t) (rangeN (N.to_nat size) 0))) as [v [Hv Fv]].
  - rewrite map_length, rangeN_length. lia.
  - apply in_map_iff in Hv. destruct Hv as [i [E Hi]]. apply rangeN0_In in Hi.
    exists i. split; [exact Hi|]. subst v. destruct (N.eqb_spec (sl_get t i) 0); [assumption|discriminate].
Qed.

Lemma sl_values_empty : forall size, sl_values sl_empty size = [].
Proof.
  intros. unfold sl_values. induction (rangeN (N.to_nat size) 0) as [|a l IH]; cbn [map filter]; [reflexivity|].
  rewrite sl_get_empty. cbn. exact IH.
Qed.

(* ---------- iteration ---------- *)
Section IterLemmas.
  Context {S R : Type} (step : S -> R + S).

  Lemma iter_until_nat_add : forall a b s,
    iter_until_nat step (a + b) s =
    match iter_until_nat step a s with inl r => inl r | inr s' => iter_until_nat step b s' end.
  Proof.
    induction a as [|a IH]; intros b s; cbn [Nat.add iter_until_nat]; [reflexivity|].
    destruct (step s) as [r|s1]; [reflexivity|]. apply IH.
  Qed.

  Lemma iter_until_nat_eq : forall p s, iter_until step p s = iter_until_nat step (Pos.to_nat p) s.
  Proof.
    induction p as [q IH|q IH|]; intros s; cbn [iter_until].
    - rewrite Pos2Nat.inj_xI.
      replace (Datatypes.S (2 * Pos.to_nat q))%nat with (Datatypes.S (Pos.to_nat q + Pos.to_nat q))%nat by lia.
      cbn [iter_until_nat].
      destruct (step s) as [r|s1]; [reflexivity|].
      rewrite iter_until_nat_add, <- IH. destruct (iter_until step q s1); [reflexivity|apply IH].
    - rewrite Pos2Nat.inj_xO.
      replace (2 * Pos.to_nat q)%nat with (Pos.to_nat q + Pos.to_nat q)%nat by lia.
      rewrite iter_until_nat_add, <- IH. destruct (iter_until step q s); [reflexivity|apply IH].
    - change (Pos.to_nat 1) with 1%nat. cbn [iter_until_nat]. destruct (step s); reflexivity.
  Qed.
End IterLemmas.

(* ---------- sorting ---------- *)
Lemma sortN_perm : forall l, Permutation l (sortN l).
Proof. intros. apply NSort.Permuted_sort. Qed.

Lemma sortN_length : forall l, length (sortN l) = length l.
Proof. intros. symmetry. apply Permutation_length, sortN_perm. Qed.

Lemma sortN_In : forall l x, In x (sortN l) <-> In x l.
Proof.
  intros. split; intro H.
  - eapply Permutation_in; [apply Permutation_sym, sortN_perm|exact H].
  - eapply Permutation_in; [apply sortN_perm|exact H].
Qed.

Lemma StronglySorted_impl : forall (A : Type) (R1 R2 : A -> A -> Prop) (l : list A),
  (forall x y, R1 x y -> R2 x y) -> StronglySorted R1 l -> StronglySorted R2 l.
Proof.
  intros A R1 R2 l Himp H. induction H as [|a r Hs IH Hall]; constructor; [exact IH|].
  eapply Forall_impl; [|exact Hall]. intros b Hb. now apply Himp.
Qed.

Lemma sortN_sorted : forall l, StronglySorted N.le (sortN l).
Proof.
  intros l. pose proof (NSort.Sorted_sort l) as H.
  apply Sorted_StronglySorted in H.
  - unfold sortN. eapply StronglySorted_impl; [|exact H].
    intros x y Hxy. unfold is_true, NOrder.leb in Hxy. now apply N.leb_le.
  - intros x y z. unfold is_true, NOrder.leb. rewrite !N.leb_le. lia.
Qed.

Lemma sortN_NoDup : forall l, NoDup l -> NoDup (sortN l).
Proof. intros l H. eapply Permutation_NoDup; [apply sortN_perm|exact H]. Qed.

Lemma NoDup_app_l : forall (A : Type) (l l' : list A), NoDup (l ++ l') -> NoDup l.
Proof.
  induction l as [|a l IH]; intros l' H; [constructor|].
  cbn [app] in H. inversion H as [|? ? Hn Hd]; subst. constructor.
  - intro Hin. apply Hn. apply in_or_app. now left.
  - eapply IH. exact Hd.
Qed.

(* a strongly sorted list splits around its k-th element *)
Lemma sorted_split : forall (s : list N) k d,
  StronglySorted N.le s -> (k < length s)%nat ->
  (forall x, In x (firstn k s) -> x <= nth k s d) /\
  (forall x, In x (skipn (Datatypes.S k) s) -> nth k s d <= x).
Proof.
  intros s k d Hs. revert k. induction Hs as [|a r Hs IH Hall]; intros k Hk; [cbn in Hk; lia|].
  destruct k as [|k].
  - cbn [firstn nth skipn]. split; [intros x []|]. intros x Hx.
    rewrite Forall_forall in Hall. now apply Hall.
  - cbn [length] in Hk. destruct (IH k) as [H1 H2]; [lia|]. cbn [firstn nth skipn]. split.
    + intros x [E|Hx]; [|now apply H1]. subst x.
      rewrite Forall_forall in Hall. apply Hall. apply nth_In. lia.
    + exact H2.
Qed.

Lemma list_split_nth : forall (s : list N) k d, (k < length s)%nat ->
  s = firstn k s ++ nth k s d :: skipn (Datatypes.S k) s.
Proof.
  induction s as [|a s IH]; intros k d Hk; [cbn in Hk; lia|].
  destruct k as [|k]; cbn [firstn nth skipn app]; [reflexivity|].
  f_equal. apply IH. cbn [length] in Hk. lia.
Qed.

(* The k smallest of a duplicate-free list: with s = sortN l and th = the k-th (0-based)
   element of s, the first k elements of s are exactly the elements of l below th. *)
Lemma k_smallest : forall (l : list N) k,
  NoDup l -> (k < length l)%nat ->
  let s := sortN l in let th := nth k s 0 in
  In th l /\
  (forall x, In x (firstn k s) <-> In x l /\ x < th) /\
  NoDup (firstn k s) /\ length (firstn k s) = k.
Proof.
  intros l k ND Hk s th.
  assert (Hlen : (k < length s)%nat) by (unfold s; rewrite sortN_length; exact Hk).
  assert (NDs : NoDup s) by (apply sortN_NoDup; exact ND).
  pose proof (list_split_nth s k 0 Hlen) as Hsplit. fold th in Hsplit.
  destruct (sorted_split s k 0 (sortN_sorted l) Hlen) as [Hlo Hhi]. fold th in Hlo, Hhi.
  assert (NDsplit : NoDup (firstn k s ++ th :: skipn (Datatypes.S k) s)) by (rewrite <- Hsplit; exact NDs).
  assert (Hth_notin : ~ In th (firstn k s)).
  { intro Hin. apply NoDup_remove_2 in NDsplit. apply NDsplit. apply in_or_app. now left. }
  split; [|split; [|split]].
  - apply (sortN_In l). unfold th. apply nth_In. exact Hlen.
  - intros x. split.
    + intros Hx. split.
      * apply (sortN_In l). fold s. rewrite Hsplit. apply in_or_app. now left.
      * pose proof (Hlo x Hx). assert (x <> th) by (intro E; subst x; contradiction). lia.
    + intros [Hx Hlt]. apply (sortN_In l) in Hx. fold s in Hx. rewrite Hsplit in Hx.
      apply in_app_or in Hx. destruct Hx as [Hx|[E|Hx]]; [exact Hx|lia|].
      pose proof (Hhi x Hx). lia.
  - apply NoDup_app_l in NDsplit. exact NDsplit.
  - apply firstn_length_le. lia.
Qed.
