(* Preservation of the CPC invariant by update_sparse, move_window, update_windowed, row_col_update. *)
From DS Require Import Base.Prelude Model.Cpc Proofs.CpcBits Proofs.CpcSpec Proofs.CpcProofs Proofs.CpcInv Proofs.CpcStep.
From Coq Require Import ZifyBool ZifyNat ZifyN.
Ltac Zify.zify_post_hook ::= Z.div_mod_to_equations.
Open Scope N_scope.

Lemma pow_split5 : forall lgk, 5 <= lgk -> 2 ^ lgk = 32 * 2 ^ (lgk - 5).
Proof.
  intros lgk H. replace lgk with (5 + (lgk - 5)) at 1 by lia. rewrite N.pow_add_r. reflexivity.
Qed.

Lemma pow_ge16 : forall lgk, 4 <= lgk -> 16 <= 2 ^ lgk.
Proof.
  intros lgk H. replace lgk with (4 + (lgk - 4)) by lia. rewrite N.pow_add_r. change (2 ^ 4) with 16.
  pose proof (pow_pos (lgk - 4)). lia.
Qed.

(* ---------- update_sparse ---------- *)
Lemma sparse_step : forall lgk s M rc t,
  Inv lgk s M -> windowed s = false -> c_table s = Some t -> valid lgk rc ->
  fits lgk (spec_update M rc) (pop_rows (spec_update M rc) (Knat lgk)) ->
  exists s', update_sparse s rc = Ok s' /\ Inv lgk s' (spec_update M rc).
Proof.
  intros lgk s M rc t I Hw Ht [Hrow Hrc] Hfits.
  pose proof I as I0.
  destruct I as [R Hl Hrg Hoff Hwin Hfl Hfic Hnm].
  pose proof (rep_wf s M R) as W.
  pose proof (pow_ge16 lgk ltac:(lia)) as HK16.
  assert (Htl : tlist s = t) by (unfold tlist; rewrite Ht; reflexivity).
  assert (Hoff0 : c_off s = 0) by (apply (wf_sparse_off s W Hw)).
  assert (Hsp : 32 * c_num s < 3 * 2 ^ lgk).
  { destruct (N.lt_ge_cases (32 * c_num s) (3 * 2 ^ lgk)) as [L|L]; [exact L|].
    apply Hwin in L. congruence. }
  assert (Hsk : forall r c, sk_bit s r c = memN (r * 64 + c) t).
  { intros r c. unfold sk_bit. rewrite Hw, Htl. reflexivity. }
  unfold update_sparse. consts. rewrite Hl, Ht.
  assert (c_num s * 32 <? 3 * 2 ^ lgk = true) as -> by lia. cbn [negb].
  unfold tbl_insert. assert (rc =? U32MAX = false) as -> by (apply N.eqb_neq; exact Hrc). cbn [orb].
  destruct (memN rc t) eqn:Emem.
  - (* already present *)
    cbn [obind]. eexists. split; [reflexivity|]. apply inv_dup; try assumption.
    rewrite <- (rep_bits s M R) by (rewrite ?Hl; try exact Hrow; lia).
    rewrite Hsk, rc_recompose. exact Emem.
  - (* novel *)
    set (s1 := update_hip (set_num (set_table s (Some (rc :: t))) (c_num s + 1)) rc).
    assert (W1 : Wf s1).
    { destruct W. constructor; unfold s1, tlist, windowed in *; proj; rewrite ?Ht in *.
      - constructor; [apply memN_false; exact Emem|assumption].
      - intros x [Hx|Hx]; [subst x; rewrite Hl; exact Hrow|apply wf_rows; exact Hx].
      - intros x [Hx|Hx]; [subst x; exact Hrc|apply wf_nomax; exact Hx].
      - intros H. congruence.
      - intros H. congruence.
      - intros _. exact Hoff0.
      - assumption.
      - discriminate.
      - lia. }
    assert (R1 : Rep s1 (spec_update M rc)).
    { apply (rep_novel s s1 M rc R W1); unfold s1; proj; try reflexivity.
      - rewrite Hl. exact Hrow.
      - rewrite Hsk, rc_recompose. exact Emem.
      - intros r c Hr Hc. unfold sk_bit, windowed, tlist in *. proj. rewrite Hw, Ht.
        rewrite memN_cons, (N.eqb_sym (r * 64 + c) rc), pair_eqb by exact Hc.
        rewrite (N.eqb_sym (rc mod 64) c). apply orb_comm. }
    assert (Hw1 : windowed s1 = false) by (unfold s1, windowed in *; proj; exact Hw).
    assert (Hn1 : c_num s1 = c_num s + 1) by reflexivity.
    assert (Hfull : tbl_full lgk (N.of_nat (length t) + 1) = false).
    { pose proof (table_load s1 _ R1) as TL. rewrite Hw1 in TL.
      assert (El : tlist s1 = rc :: t) by reflexivity. rewrite El in TL. cbn [length] in TL.
      assert (Eo : c_off s1 = 0) by exact Hoff0. assert (Ek : c_lgk s1 = lgk) by exact Hl. rewrite Eo, Ek in TL.
      destruct Hfits as [Hf1 _].
      pose proof (rep_num s1 _ R1) as Hn'. rewrite Ek, Hn1 in Hn'. rewrite <- Hn' in Hf1.
      replace (N.of_nat (length t) + 1) with (N.of_nat (S (length t))) by lia. rewrite TL. apply Hf1. lia. }
    rewrite Hfull. cbn [obind]. fold s1.
    assert (Hl1 : c_lgk s1 = lgk) by exact Hl.
    rewrite Hn1.
    destruct (3 * 2 ^ lgk <=? (c_num s + 1) * 32) eqn:Ethr.
    + (* promote *)
      destruct (promote_ok s1 (spec_update M rc) (rc :: t) R1 Hw1 eq_refl ltac:(lia)) as [s2 [E2 [R2 [Hw2 [Hl2 [Hn2 [Ho2 Hf2]]]]]]].
      { rewrite Hl1, Hn1. destruct (N.eq_dec lgk 4) as [->|Hne].
        - change (2 ^ 4) with 16 in *. right. split; [reflexivity|lia].
        - left. rewrite (pow_split5 lgk) in * by lia. lia. }
      exists s2. split; [exact E2|].
      constructor; try assumption.
      * rewrite Hl2. exact Hl1.
      * rewrite Ho2, Hn2, Hn1. symmetry. apply coff_small. lia.
      * rewrite Hn2, Hn1. split; [lia|intros _; exact Hw2].
      * rewrite Hf2, Ho2. unfold s1. proj. lia.
      * intros r c Hr Hc. rewrite Hf2 in Hc. unfold s1 in Hc. proj. lia.
      * apply Mnomax_update; assumption.
    + exists s1. split; [reflexivity|].
      constructor; try assumption.
      * unfold s1 at 1. proj. rewrite Hoff0, Hn1. symmetry. apply coff_small. lia.
      * rewrite Hw1, Hn1. split; [discriminate|lia].
      * intros r c Hr Hc. unfold s1 in Hc. proj. lia.
      * apply Mnomax_update; assumption.
Qed.

(* ---------- move_window ---------- *)
Lemma build_word64 : forall s m, (length m = Knat (c_lgk s)) ->
  (forall r c, r < 2 ^ c_lgk s -> N.testbit (nthN m r 0) c = if c <? 64 then sk_bit s r c else false) ->
  Forall word64 m.
Proof.
  intros s m Hlen H. apply Forall_forall. intros w Hw.
  destruct (In_nth m w 0 Hw) as [i [Hi E]].
  intros c Hc. specialize (H (N.of_nat i) c). unfold nthN in H. rewrite Nat2N.id, E in H.
  rewrite H by (rewrite <- Knat_N, <- Hlen; lia).
  assert (c <? 64 = false) as -> by lia. reflexivity.
Qed.

Lemma move_window_ok : forall lgk s M,
  Rep s M -> c_lgk s = lgk -> 4 <= lgk <= 26 -> c_table s <> None -> Mnomax lgk M -> c_num s <> 0 ->
  c_off s + 1 = coff (2 ^ lgk) (c_num s) -> 8 * c_num s < 475 * 2 ^ lgk ->
  tbl_full lgk (load lgk M true (c_off s + 1)) = false ->
  exists s2, move_window s = Ok s2 /\ Rep s2 M /\ c_lgk s2 = lgk /\ c_num s2 = c_num s /\
     c_off s2 = c_off s + 1 /\ windowed s2 = true /\ c_fic s2 <= c_off s2 /\
     (forall r c, r < 2 ^ lgk -> c < c_fic s2 -> N.testbit (M r) c = true).
Proof.
  intros lgk s M R Hl Hrg Htab Hnm HC Hco Hdom Hfit.
  pose proof (pow_pos lgk) as HK.
  pose proof (coff_le56 (2 ^ lgk) (c_num s) HK Hdom) as H56.
  unfold move_window. consts. rewrite Hl.
  assert (c_off s + 1 <=? 56 = true) as -> by lia. cbn [negb].
  rewrite (dco_coff lgk (c_num s) Hdom), <- Hco, N.eqb_refl. cbn [negb].
  destruct (build_bits s (rep_wf s M R)) as [m [Em [Hlen Hbits]]].
  rewrite Em. cbn [obind]. rewrite Hl in Hlen, Hbits.
  destruct (c_table s) as [t|] eqn:Et; [|congruence].
  assert (Hm64 : Forall word64 m) by (apply (build_word64 s); rewrite ?Hl; assumption).
  assert (HmM : forall r c, r < 2 ^ lgk -> c < 64 -> N.testbit (nthN m r 0) c = N.testbit (M r) c).
  { intros r c Hr Hc. rewrite (Hbits r c Hr). assert (c <? 64 = true) as -> by lia.
    apply (rep_bits s M R); rewrite ?Hl; assumption. }
  assert (Hmnm : forall r c, r < 2 ^ lgk -> c < 64 -> N.testbit (nthN m r 0) c = true -> r * 64 + c <> U32MAX).
  { intros r c Hr Hc Hb. apply Hnm; try assumption. rewrite <- HmM; assumption. }
  change MW_FF with 255. change MW_FF2 with 255.
  assert (Hfit' : tbl_full lgk (load lgk (fun r => nthN m r 0) true (c_off s + 1)) = false).
  { rewrite <- Hfit. f_equal. unfold load. f_equal. f_equal. apply filter_ext_in. intros x Hx.
    apply positions_In in Hx. unfold surp.
    assert (Hr : x / 64 < 2 ^ lgk) by lia. assert (Hc : x mod 64 < 64) by lia.
    rewrite (HmM _ _ Hr Hc). reflexivity. }
  destruct (from_matrix_succeeds lgk m (c_off s + 1) Hlen ltac:(lia) Hmnm Hfit') as [win [tab [fic Efm]]].
  rewrite Efm. cbn [obind].
  eexists. split; [reflexivity|].
  destruct (from_matrix_state lgk m (c_off s + 1) (c_num s) fic (c_merge s)
              (if N.land (c_off s + 1) 7 =? 0 then refresh_kxp m else c_kxp s) (c_hip s) win tab fic
              Hlen Hm64 ltac:(lia) HC Hmnm Efm) as [W2 [Hw2 Hb2]].
  split.
  { constructor; proj.
    - exact W2.
    - intros r c Hr Hc. rewrite Hb2 by assumption. apply HmM; assumption.
    - pose proof (rep_num s M R) as Hn. rewrite Hl in Hn. exact Hn. }
  proj. repeat split; try reflexivity; try exact Hw2.
  - rewrite (from_matrix_fic _ _ _ _ _ _ _ _ Efm). apply (fm_fic_ok lgk m (c_off s + 1) Hlen ltac:(lia)).
  - intros r c Hr Hc. rewrite (from_matrix_fic _ _ _ _ _ _ _ _ Efm) in Hc.
    assert (c < 64).
    { pose proof (proj1 (fm_fic_ok lgk m (c_off s + 1) Hlen ltac:(lia))). lia. }
    rewrite <- HmM by assumption.
    apply (fm_fic_ok lgk m (c_off s + 1) Hlen ltac:(lia)); assumption.
Qed.

(* ---------- update_windowed ---------- *)
(* the `if is_novel` tail of update_windowed, for the state [s'] with the new bit recorded *)
Definition uw_finish (lgk : N) (s s' : cpc) (rc : N) : outcome cpc :=
  if (27 + c_off s * 8) * 2 ^ lgk <=? c_num (update_hip (set_num s' (c_num s + 1)) rc) * 8
  then
    obind (move_window (update_hip (set_num s' (c_num s + 1)) rc))
      (fun s2 : cpc =>
       if negb ((1 <=? c_off s2) && (c_off s2 <=? 56)) then Stuck
       else if negb (c_num (update_hip (set_num s' (c_num s + 1)) rc) * 8 <? (27 + c_off s2 * 8) * 2 ^ lgk)
            then Stuck else Ok s2)
  else Ok (update_hip (set_num s' (c_num s + 1)) rc).

Lemma finish_ok : forall lgk s s' M rc,
  Inv lgk s M -> windowed s = true -> valid lgk rc ->
  Rep (update_hip (set_num s' (c_num s + 1)) rc) (spec_update M rc) ->
  windowed s' = true -> c_off s' = c_off s -> c_fic s' = c_fic s -> c_lgk s' = lgk -> c_table s' <> None ->
  8 * pop_rows (spec_update M rc) (Knat lgk) < 475 * 2 ^ lgk ->
  fits lgk (spec_update M rc) (pop_rows (spec_update M rc) (Knat lgk)) ->
  exists s2, uw_finish lgk s s' rc = Ok s2 /\ Inv lgk s2 (spec_update M rc).
Proof.
  intros lgk s s' M rc I Hw [Hrow Hrc] R1 Hw1 Ho1 Hf1 Hl1 Ht1 Hdom Hfits.
  destruct I as [R Hl Hrg Hoff Hwin Hfl Hfic Hnm].
  pose proof (pow_pos lgk) as HK.
  unfold uw_finish.
  set (s1 := update_hip (set_num s' (c_num s + 1)) rc) in *.
  assert (Hn1 : c_num s1 = c_num s + 1) by reflexivity.
  assert (Hl1' : c_lgk s1 = lgk) by exact Hl1.
  assert (Hdom1 : 8 * (c_num s + 1) < 475 * 2 ^ lgk).
  { rewrite <- Hn1, (rep_num s1 _ R1), Hl1'. exact Hdom. }
  assert (Hnm1 : Mnomax lgk (spec_update M rc)) by (apply Mnomax_update; assumption).
  assert (H3K : 3 * 2 ^ lgk <= 32 * c_num s) by (apply Hwin; exact Hw).
  rewrite Hn1.
  destruct ((27 + c_off s * 8) * 2 ^ lgk <=? (c_num s + 1) * 8) eqn:Ethr.
  - (* the window moves *)
    assert (Hmv : coff (2 ^ lgk) (c_num s + 1) = coff (2 ^ lgk) (c_num s) + 1).
    { apply coff_move; [exact HK|]. rewrite <- Hoff. lia. }
    destruct (move_window_ok lgk s1 (spec_update M rc) R1 Hl1' Hrg Ht1 Hnm1 ltac:(lia)) as
      [s2 [E2 [R2 [Hl2 [Hn2 [Ho2 [Hw2 [Hfl2 Hfic2]]]]]]]].
    { rewrite Hn1, Hmv, <- Hoff. unfold s1. proj. rewrite Ho1. reflexivity. }
    { rewrite Hn1. exact Hdom1. }
    { assert (Ep : pop_rows (spec_update M rc) (Knat lgk) = c_num s + 1).
      { rewrite <- Hn1, (rep_num s1 _ R1), Hl1'. reflexivity. }
      destruct Hfits as [_ Hf2']. rewrite Ep in Hf2'. destruct (Hf2' ltac:(lia)) as [_ Hb].
      rewrite Hmv, <- Hoff in Hb. unfold s1. proj. rewrite Ho1. exact Hb. }
    rewrite E2. cbn [obind].
    assert (Ho2' : c_off s2 = coff (2 ^ lgk) (c_num s + 1)).
    { rewrite Ho2, Hmv, <- Hoff. unfold s1. proj. rewrite Ho1. reflexivity. }
    pose proof (coff_le56 (2 ^ lgk) (c_num s + 1) HK Hdom1) as H56.
    pose proof (coff_bound (2 ^ lgk) (c_num s + 1) HK) as Hbd.
    assert ((1 <=? c_off s2) && (c_off s2 <=? 56) = true) as -> by lia. cbn [negb].
    assert ((c_num s + 1) * 8 <? (27 + c_off s2 * 8) * 2 ^ lgk = true) as ->.
    { rewrite Ho2'. apply N.ltb_lt. lia. }
    cbn [negb]. exists s2. split; [reflexivity|].
    constructor; try assumption.
    + rewrite Hn2, Hn1. exact Ho2'.
    + rewrite Hn2, Hn1. split; [lia|intros _; exact Hw2].
  - (* no move *)
    exists s1. split; [reflexivity|].
    assert (Hst : coff (2 ^ lgk) (c_num s + 1) = coff (2 ^ lgk) (c_num s)).
    { apply coff_stay; [exact HK|]. rewrite <- Hoff. lia. }
    constructor; try assumption.
    + rewrite Hn1, Hst, <- Hoff. unfold s1. proj. exact Ho1.
    + rewrite Hn1. split; [lia|]. intros _. unfold s1, windowed in *. proj. exact Hw1.
    + unfold s1. proj. rewrite Hf1, Ho1. exact Hfl.
    + intros r c Hr Hc. unfold s1 in Hc. proj. rewrite Hf1 in Hc. apply spec_update_mono. apply Hfic; assumption.
Qed.

Lemma memN_removeN : forall x y l, NoDup l -> memN x (removeN y l) = memN x l && negb (x =? y).
Proof.
  intros x y l ND. destruct (memN x (removeN y l)) eqn:E.
  - apply memN_In in E. apply removeN_In in E; [|exact ND]. destruct E as [E1 E2].
    apply memN_In in E1. rewrite E1. assert (x =? y = false) as -> by (apply N.eqb_neq; exact E2). reflexivity.
  - symmetry. apply andb_false_iff. destruct (memN x l) eqn:E1; [right|left; reflexivity].
    destruct (x =? y) eqn:E2; [reflexivity|]. exfalso. apply memN_false in E. apply E.
    apply removeN_In; [exact ND|]. split; [apply memN_In; exact E1|apply N.eqb_neq; exact E2].
Qed.

Lemma set_table_same : forall s t, c_table s = Some t -> set_table s (Some t) = s.
Proof. intros [a b c d e f g h i] t H. cbn in *. subst. reflexivity. Qed.

Lemma Forall_set_nthN : forall (P : N -> Prop) i v l, P v -> Forall P l -> Forall P (set_nthN i v l).
Proof.
  intros P i v l Hv. unfold set_nthN. generalize (N.to_nat i). intros n. revert l.
  induction n as [|n IHn]; intros [|a l] HF; cbn [set_nth]; try assumption.
  - inversion HF; subst. constructor; assumption.
  - inversion HF; subst. constructor; [assumption|]. apply IHn; assumption.
Qed.

Lemma sk_bit_windowed : forall s r c, windowed s = true ->
  sk_bit s r c = if c <? c_off s then negb (memN (r * 64 + c) (tlist s))
                 else if c <? c_off s + 8 then N.testbit (nthN (c_win s) r 0) (c - c_off s)
                 else memN (r * 64 + c) (tlist s).
Proof. intros s r c H. unfold sk_bit. rewrite H. reflexivity. Qed.

Lemma windowed_step : forall lgk s M rc,
  Inv lgk s M -> windowed s = true -> valid lgk rc ->
  8 * pop_rows (spec_update M rc) (Knat lgk) < 475 * 2 ^ lgk ->
  fits lgk (spec_update M rc) (pop_rows (spec_update M rc) (Knat lgk)) ->
  exists s', update_windowed s rc = Ok s' /\ Inv lgk s' (spec_update M rc).
Proof.
  intros lgk s M rc I Hw V Hdom Hfits. pose proof V as [Hrow Hrc]. pose proof I as I0.
  destruct I as [R Hl Hrg Hoff Hwin Hfl Hfic Hnm].
  pose proof (rep_wf s M R) as W. pose proof (pow_pos lgk) as HK.
  destruct (c_table s) as [t|] eqn:Ht.
  2:{ pose proof (wf_tab s W Ht) as H0. destruct (wf_empty s W H0) as [_ H]. congruence. }
  assert (Htl : tlist s = t) by (unfold tlist; rewrite Ht; reflexivity).
  assert (H3K : 3 * 2 ^ lgk <= 32 * c_num s) by (apply Hwin; exact Hw).
  pose proof (coff_bound (2 ^ lgk) (c_num s) HK) as Hbd. rewrite <- Hoff in Hbd.
  pose proof (wf_off s W) as H56.
  pose proof (wf_nodup s W) as ND. rewrite Htl in ND.
  destruct (wf_win s W Hw) as [Hwlen Hwbytes].
  unfold update_windowed. consts. cbv zeta. rewrite Hl, Ht.
  assert (c_off s <=? 56 = true) as -> by lia. cbn [negb].
  assert (3 * 2 ^ lgk <=? c_num s * 32 = true) as -> by lia. cbn [negb].
  assert (c_num s * 8 <? (27 + c_off s * 8) * 2 ^ lgk = true) as -> by lia. cbn [negb].
  assert (Hcol : rc mod 64 < 64) by lia.
  assert (Hrow' : rc / 64 < 2 ^ c_lgk s) by (rewrite Hl; exact Hrow).
  pose proof (sk_bit_windowed s (rc / 64) (rc mod 64) Hw) as Hsk0. rewrite rc_recompose, Htl in Hsk0.
  assert (HMb : N.testbit (M (rc / 64)) (rc mod 64) = sk_bit s (rc / 64) (rc mod 64)).
  { symmetry. apply (rep_bits s M R); assumption. }
  destruct (rc mod 64 <? c_off s) eqn:E1.
  - (* early zone: inverted logic *)
    unfold tbl_delete. assert (rc =? U32MAX = false) as -> by (apply N.eqb_neq; exact Hrc).
    destruct (memN rc t) eqn:Emem.
    + (* a surprising zero disappears: novel *)
      change (exists s', uw_finish lgk s (set_table s (Some (removeN rc t))) rc = Ok s' /\ Inv lgk s' (spec_update M rc)).
      apply finish_ok; try assumption; proj; try reflexivity; try discriminate.
      set (s1 := update_hip (set_num (set_table s (Some (removeN rc t))) (c_num s + 1)) rc).
      assert (Hw1 : windowed s1 = true) by exact Hw.
      apply (rep_novel s s1 M rc R); try assumption; try reflexivity.
      * destruct W. constructor; rewrite ?Hw1; unfold s1, tlist in *; proj; rewrite ?Ht in *.
        -- apply removeN_NoDup. exact ND.
        -- intros x Hx. apply removeN_In in Hx; [|exact ND]. apply wf_rows. tauto.
        -- intros x Hx. apply removeN_In in Hx; [|exact ND]. apply wf_nomax. tauto.
        -- intros _ x Hx. apply removeN_In in Hx; [|exact ND]. apply wf_zone; tauto.
        -- intros _. apply wf_win. exact Hw.
        -- discriminate.
        -- assumption.
        -- discriminate.
        -- lia.
      * intros r c Hr Hc. rewrite (sk_bit_windowed s1 r c Hw1), (sk_bit_windowed s r c Hw).
        unfold s1, tlist. proj. rewrite Ht, (memN_removeN _ _ _ ND), (N.eqb_sym (r * 64 + c) rc), pair_eqb by exact Hc.
        destruct (c <? c_off s) eqn:Ec1.
        -- rewrite (N.eqb_sym (rc mod 64) c).
           destruct (memN (r * 64 + c) t), (r =? rc / 64), (c =? rc mod 64); reflexivity.
        -- assert (c =? rc mod 64 = false) as -> by lia. rewrite andb_false_r, orb_false_r.
           destruct (c <? c_off s + 8); [reflexivity|].
           assert (rc mod 64 =? c = false) as -> by lia. rewrite andb_false_r. cbn [negb]. apply andb_true_r.
    + (* the bit is already set *)
      cbv iota beta. rewrite (set_table_same s t Ht). eexists. split; [reflexivity|].
      apply inv_dup; try assumption. rewrite HMb, Hsk0. reflexivity.
  - destruct (rc mod 64 <? c_off s + 8) eqn:E2.
    + (* inside the window *)
      rewrite lor_bit_same.
      destruct (N.testbit (nthN (c_win s) (rc / 64) 0) (rc mod 64 - c_off s)) eqn:Eb.
      * eexists. split; [reflexivity|]. apply inv_dup; try assumption. rewrite HMb, Hsk0. reflexivity.
      * set (nb := N.lor (nthN (c_win s) (rc / 64) 0) (2 ^ (rc mod 64 - c_off s))).
        change (exists s', uw_finish lgk s (set_win s (set_nthN (rc / 64) nb (c_win s))) rc = Ok s' /\ Inv lgk s' (spec_update M rc)).
        assert (Hrl : rc / 64 < N.of_nat (length (c_win s))) by (rewrite Hwlen, Knat_N; exact Hrow').
        assert (Hne : set_nthN (rc / 64) nb (c_win s) <> []).
        { apply length_nonempty. rewrite set_nthN_length, Hwlen. apply Knat_pos. }
        assert (Hw0 : windowed (set_win s (set_nthN (rc / 64) nb (c_win s))) = true) by (apply windowed_true; exact Hne).
        apply finish_ok; try assumption; proj; try reflexivity; try congruence.
        set (s1 := update_hip (set_num (set_win s (set_nthN (rc / 64) nb (c_win s))) (c_num s + 1)) rc).
        assert (Hw1 : windowed s1 = true) by exact Hw0.
        apply (rep_novel s s1 M rc R); try assumption; try reflexivity.
        -- destruct W. constructor; rewrite ?Hw1; unfold s1, tlist in *; proj; rewrite ?Ht in *.
           ++ assumption.
           ++ assumption.
           ++ assumption.
           ++ intros _. apply wf_zone. exact Hw.
           ++ intros _. split; [rewrite set_nthN_length; exact Hwlen|].
              apply Forall_set_nthN; [|exact Hwbytes]. apply lor_bit_byte; [|lia].
              apply nthN_Forall; [exact Hwbytes|exact Hrl].
           ++ discriminate.
           ++ assumption.
           ++ congruence.
           ++ lia.
        -- intros r c Hr Hc. rewrite (sk_bit_windowed s1 r c Hw1), (sk_bit_windowed s r c Hw).
           unfold s1, tlist. proj. rewrite Ht.
           destruct (c <? c_off s) eqn:Ec1.
           ++ assert (c =? rc mod 64 = false) as -> by lia. rewrite andb_false_r, orb_false_r. reflexivity.
           ++ destruct (c <? c_off s + 8) eqn:Ec2.
              ** rewrite set_nthN_nthN by exact Hrl. destruct (r =? rc / 64) eqn:Er; cbn [andb].
                 --- apply N.eqb_eq in Er. subst r. unfold nb. rewrite N.lor_spec, N.pow2_bits_eqb. f_equal. lia.
                 --- rewrite orb_false_r. reflexivity.
              ** assert (c =? rc mod 64 = false) as -> by lia. rewrite andb_false_r, orb_false_r. reflexivity.
    + (* late zone: normal logic *)
      unfold tbl_insert. assert (rc =? U32MAX = false) as -> by (apply N.eqb_neq; exact Hrc). cbn [orb].
      destruct (memN rc t) eqn:Emem.
      * cbn [obind]. cbv iota beta. rewrite (set_table_same s t Ht). eexists. split; [reflexivity|].
        apply inv_dup; try assumption. rewrite HMb, Hsk0. reflexivity.
      * set (s1 := update_hip (set_num (set_table s (Some (rc :: t))) (c_num s + 1)) rc).
        assert (Hw1 : windowed s1 = true) by exact Hw.
        assert (R1 : Rep s1 (spec_update M rc)).
        { apply (rep_novel s s1 M rc R); try assumption; try reflexivity.
          - destruct W. constructor; rewrite ?Hw1; unfold s1, tlist in *; proj; rewrite ?Ht in *.
            + constructor; [apply memN_false; exact Emem|exact ND].
            + intros x [Hx|Hx]; [subst x; exact Hrow'|apply wf_rows; exact Hx].
            + intros x [Hx|Hx]; [subst x; exact Hrc|apply wf_nomax; exact Hx].
            + intros _ x [Hx|Hx]; [subst x; right; lia|apply wf_zone; [exact Hw|exact Hx]].
            + intros _. apply wf_win. exact Hw.
            + discriminate.
            + assumption.
            + discriminate.
            + lia.
          - intros r c Hr Hc. rewrite (sk_bit_windowed s1 r c Hw1), (sk_bit_windowed s r c Hw).
            unfold s1, tlist. proj. rewrite Ht, memN_cons, (N.eqb_sym (r * 64 + c) rc), pair_eqb by exact Hc.
            rewrite (N.eqb_sym (rc mod 64) c).
            destruct (c <? c_off s) eqn:Ec1.
            + assert (c =? rc mod 64 = false) as -> by lia. rewrite andb_false_r, orb_false_r. reflexivity.
            + destruct (c <? c_off s + 8) eqn:Ec2.
              * assert (c =? rc mod 64 = false) as -> by lia. rewrite andb_false_r, orb_false_r. reflexivity.
              * apply orb_comm. }
        assert (Hfull : tbl_full lgk (N.of_nat (length t) + 1) = false).
        { pose proof (table_load s1 _ R1) as TL. rewrite Hw1 in TL.
          assert (El : tlist s1 = rc :: t) by reflexivity. rewrite El in TL. cbn [length] in TL.
          assert (Ek : c_lgk s1 = lgk) by exact Hl. assert (Eo : c_off s1 = c_off s) by reflexivity. rewrite Ek, Eo in TL.
          assert (Ep : pop_rows (spec_update M rc) (Knat lgk) = c_num s + 1).
          { pose proof (rep_num s1 _ R1) as Hn'. rewrite Ek in Hn'. rewrite <- Hn'. reflexivity. }
          destruct Hfits as [_ Hf2]. rewrite Ep in Hf2. destruct (Hf2 ltac:(lia)) as [Ha _].
          replace (c_num s + 1 - 1) with (c_num s) in Ha by lia. rewrite <- Hoff in Ha.
          replace (N.of_nat (length t) + 1) with (N.of_nat (S (length t))) by lia. rewrite TL. exact Ha. }
        rewrite Hfull. cbn [obind].
        change (exists s', uw_finish lgk s (set_table s (Some (rc :: t))) rc = Ok s' /\ Inv lgk s' (spec_update M rc)).
        apply finish_ok; try assumption; proj; try reflexivity; try discriminate.
Qed.
