(* ReversePurgeItemHashMap, insertion side (Model/Freq.v PART B): linear probing with a
   consistent hash function.  The probe-path invariant [tinv] is preserved by
   adjust_or_put_value, and under it the table is a finite map: a lookup returns the count
   stored for the key and [kv] (the active (key, value) pairs in table order) changes exactly
   as [cs_add] prescribes.  This is what deserialize relies on: it re-inserts the image's pairs
   into a fresh table.  (Deletion -- hash_delete during a purge -- is NOT covered here: the
   slot layout after purges is tied by the correspondence check only, DESIGN.md section 10.) *)
From DS Require Import Base.Prelude Model.Freq Proofs.FreqProofs.
From Coq Require Import Permutation.
Open Scope N_scope.

(* ---------- lists of slots ---------- *)
Lemma nthN_set_same {A} (l : list A) (i : N) (x d : A) :
  (N.to_nat i < length l)%nat -> nthN (set_nthN i x l) i d = x.
Proof.
  unfold nthN, set_nthN. generalize (N.to_nat i) as n. intros n. revert n.
  induction l as [|y l IH]; intros n Hn; cbn [length] in Hn; [lia|].
  destruct n as [|n]; cbn [set_nth nth]; [reflexivity|]. apply IH. lia.
Qed.

Lemma nth_set_other {A} (l : list A) (n m : nat) (x d : A) :
  n <> m -> nth m (set_nth n x l) d = nth m l d.
Proof.
  revert n m. induction l as [|y l IH]; intros n m Hne; [destruct n; reflexivity|].
  destruct n as [|n]; destruct m as [|m]; cbn [set_nth nth]; try reflexivity; try lia.
  apply IH. lia.
Qed.

Lemma nthN_set_other {A} (l : list A) (i j : N) (x d : A) :
  i <> j -> nthN (set_nthN i x l) j d = nthN l j d.
Proof. intros H. unfold nthN, set_nthN. apply nth_set_other. lia. Qed.

Lemma set_nth_length {A} (l : list A) n x : length (set_nth n x l) = length l.
Proof. revert n. induction l as [|y l IH]; intros [|n]; cbn [set_nth length]; auto. Qed.

Lemma set_nthN_length {A} (l : list A) i x : length (set_nthN i x l) = length l.
Proof. apply set_nth_length. Qed.

Lemma nthN_some_lt {A} (l : list (option A)) i e : nthN l i None = Some e -> (N.to_nat i < length l)%nat.
Proof.
  unfold nthN. intros H. destruct (Nat.lt_ge_cases (N.to_nat i) (length l)) as [Hlt|Hge]; [exact Hlt|].
  rewrite nth_overflow in H by exact Hge. discriminate.
Qed.

Definition entries_of (tab : list (option entry)) : list entry :=
  flat_map (fun s => match s with Some e => [e] | None => [] end) tab.

Lemma active_entries_eq t : active_entries t = entries_of (rp_tab t).
Proof. reflexivity. Qed.

Lemma entries_in tab e : In e (entries_of tab) <-> exists n, nth n tab None = Some e.
Proof.
  unfold entries_of. induction tab as [|s tab IH]; cbn [flat_map].
  - split; [intros []|intros [n H]; destruct n; discriminate].
  - rewrite in_app_iff, IH. split.
    + intros [H|[n H]].
      * destruct s as [e0|]; [|destruct H]. destruct H as [<-|[]]. exists 0%nat. reflexivity.
      * exists (S n). exact H.
    + intros [[|n] H]; cbn [nth] in H.
      * left. rewrite H. left. reflexivity.
      * right. exists n. exact H.
Qed.

(* filling an empty slot inserts one element; overwriting an occupied slot replaces it *)
Lemma entries_set_none tab n e :
  nth n tab None = None -> (n < length tab)%nat ->
  exists l1 l2, entries_of tab = l1 ++ l2 /\ entries_of (set_nth n (Some e) tab) = l1 ++ e :: l2.
Proof.
  revert n. induction tab as [|s tab IH]; intros n Hn Hlt; cbn [length] in Hlt; [lia|].
  destruct n as [|n]; cbn [nth] in Hn; cbn [set_nth].
  - subst s. exists [], (entries_of tab). split; reflexivity.
  - destruct (IH n Hn ltac:(lia)) as (l1 & l2 & E1 & E2).
    exists ((match s with Some e0 => [e0] | None => [] end) ++ l1), l2.
    unfold entries_of in *. cbn [flat_map]. rewrite E1, E2, <- !app_assoc. split; reflexivity.
Qed.

Lemma entries_set_some tab n e0 e :
  nth n tab None = Some e0 ->
  exists l1 l2, entries_of tab = l1 ++ e0 :: l2 /\ entries_of (set_nth n (Some e) tab) = l1 ++ e :: l2.
Proof.
  revert n. induction tab as [|s tab IH]; intros n Hn; [destruct n; discriminate|].
  destruct n as [|n]; cbn [nth] in Hn; cbn [set_nth].
  - subst s. exists [], (entries_of tab). split; reflexivity.
  - destruct (IH n Hn) as (l1 & l2 & E1 & E2).
    exists ((match s with Some e1 => [e1] | None => [] end) ++ l1), l2.
    unfold entries_of in *. cbn [flat_map]. rewrite E1, E2, <- !app_assoc. split; reflexivity.
Qed.

(* distinct slots hold distinct keys => the key list has no duplicates *)
Lemma entries_nodup tab :
  (forall i j e e', nth i tab None = Some e -> nth j tab None = Some e' -> e_key e = e_key e' -> i = j) ->
  NoDup (map e_key (entries_of tab)).
Proof.
  induction tab as [|s tab IH]; intros Hd; [constructor|].
  assert (IHt : NoDup (map e_key (entries_of tab))).
  { apply IH. intros i j e e' Hi Hj E. specialize (Hd (S i) (S j) e e' Hi Hj E). lia. }
  unfold entries_of in *. cbn [flat_map]. destruct s as [e0|]; [|exact IHt].
  cbn [app map]. constructor; [|exact IHt].
  intros Hin. apply in_map_iff in Hin. destruct Hin as (e1 & Ek & Hin).
  apply (entries_in tab e1) in Hin. destruct Hin as [n Hn].
  specialize (Hd 0%nat (S n) e0 e1 eq_refl Hn (eq_sym Ek)). discriminate.
Qed.

(* ---------- the probe walk ---------- *)
Section Walk.
  Variable tab : list (option entry).
  Variable mask : N.
  Variable key : Z.

  (* [walk p q n]: n probe steps lead from p to q, over occupied slots that hold other keys *)
  Inductive walk : N -> N -> nat -> Prop :=
  | walk_0 : forall p, walk p p 0
  | walk_S : forall p q n e, nthN tab p None = Some e -> e_key e <> key ->
               walk (N.land (p + 1) mask) q n -> walk p q (S n).

  (* where the probe loop stops: an empty slot or the key *)
  Definition stop (q : N) : Prop :=
    match nthN tab q None with None => True | Some e => e_key e = key end.

  Lemma find_walk : forall p q n, walk p q n -> stop q ->
    forall fuel d, (n < fuel)%nat -> rp_find fuel tab mask key p d = (q, d + N.of_nat n).
  Proof.
    induction 1 as [p|p q n e He Hk Hw IH]; intros Hs fuel d Hf.
    - destruct fuel as [|f]; [lia|]. cbn [rp_find]. unfold stop in Hs.
      destruct (nthN tab p None) as [e|]; [|f_equal; lia].
      rewrite Hs, Z.eqb_refl. f_equal. lia.
    - destruct fuel as [|f]; [lia|]. cbn [rp_find]. rewrite He.
      destruct (Z.eqb_spec (e_key e) key) as [E|_]; [contradiction|].
      rewrite (IH Hs f (d + 1)) by lia. f_equal. lia.
  Qed.

  (* two walks from the same slot that both end at a stopping slot end at the same slot *)
  Lemma walk_stop_unique : forall p q n, walk p q n -> stop q ->
    forall q' n', walk p q' n' -> stop q' -> q = q' /\ n = n'.
  Proof.
    induction 1 as [p|p q n e He Hk Hw IH]; intros Hs q' n' Hw' Hs'.
    - inversion Hw' as [|? ? ? e' He' Hk' Hw'']; subst; [split; reflexivity|].
      unfold stop in Hs. rewrite He' in Hs. contradiction.
    - inversion Hw' as [|? ? ? e' He' Hk' Hw'']; subst.
      + unfold stop in Hs'. rewrite He in Hs'. contradiction.
      + destruct (IH Hs _ _ Hw'' Hs') as [-> ->]. split; reflexivity.
  Qed.
End Walk.

(* walks survive filling an empty slot and overwriting a slot with an entry of the same key *)
Lemma walk_set_none tab mask key q0 x : nthN tab q0 None = None ->
  forall p q n, walk tab mask key p q n -> walk (set_nthN q0 x tab) mask key p q n.
Proof.
  intros H0. induction 1 as [p|p q n e He Hk Hw IH]; [constructor|].
  apply (walk_S _ _ _ p q n e); [|exact Hk|exact IH].
  rewrite nthN_set_other; [exact He|]. intros ->. rewrite H0 in He. discriminate.
Qed.

Lemma walk_set_samekey tab mask key q0 e0 e1 : nthN tab q0 None = Some e0 -> e_key e1 = e_key e0 ->
  forall p q n, walk tab mask key p q n -> walk (set_nthN q0 (Some e1) tab) mask key p q n.
Proof.
  intros H0 Ek. induction 1 as [p|p q n e He Hk Hw IH]; [constructor|].
  destruct (N.eq_dec q0 p) as [->|Hne].
  - apply (walk_S _ _ _ p q n e1); [|congruence|exact IH].
    apply nthN_set_same. exact (nthN_some_lt _ _ _ H0).
  - apply (walk_S _ _ _ p q n e); [|exact Hk|exact IH]. rewrite nthN_set_other; [exact He|exact Hne].
Qed.

(* ---------- power-of-two table sizes: the mask is "mod len" ---------- *)
Lemma land_mask lg x : N.land x (2 ^ lg - 1) = x mod 2 ^ lg.
Proof. rewrite <- N.pred_sub, <- N.ones_equiv. apply N.land_ones. Qed.

(* with an empty slot somewhere, the probe loop stops within len steps *)
Lemma walk_exists tab lg key :
  N.of_nat (length tab) = 2 ^ lg ->
  forall q0, q0 < 2 ^ lg -> nthN tab q0 None = None ->
  forall p, p < 2 ^ lg ->
  exists q n, (n < length tab)%nat /\ walk tab (2 ^ lg - 1) key p q n /\ stop tab key q /\ q < 2 ^ lg.
Proof.
  intros Hlen q0 Hq0 Hnone p Hp.
  set (len := 2 ^ lg) in *.
  assert (Hlen0 : len <> 0) by (unfold len; apply N.pow_nonzero; lia).
  (* distance from p to the empty slot *)
  set (d := if p <=? q0 then q0 - p else q0 + len - p).
  assert (Hd : d < len) by (unfold d; destruct (N.leb_spec p q0); lia).
  assert (Hpd : (p + d) mod len = q0).
  { unfold d. destruct (N.leb_spec p q0).
    - replace (p + (q0 - p)) with q0 by lia. apply N.mod_small. exact Hq0.
    - replace (p + (q0 + len - p)) with (q0 + 1 * len) by lia. rewrite N.mod_add by exact Hlen0.
      apply N.mod_small. exact Hq0. }
  clearbody d.
  assert (G : forall dn p, p < len -> (p + N.of_nat dn) mod len = q0 ->
              exists q n, (n <= dn)%nat /\ walk tab (len - 1) key p q n /\ stop tab key q /\ q < len).
  { induction dn as [|dn IH]; intros p0 Hp0 E.
    - rewrite N.add_0_r, N.mod_small in E by exact Hp0. subst p0.
      exists q0, 0%nat. repeat split; [lia|constructor| |exact Hq0]. unfold stop. rewrite Hnone. exact I.
    - destruct (nthN tab p0 None) as [e|] eqn:He.
      + destruct (Z.eq_dec (e_key e) key) as [Ek|Hk].
        * exists p0, 0%nat. repeat split; [lia|constructor| |exact Hp0]. unfold stop. rewrite He. exact Ek.
        * assert (Hn : N.land (p0 + 1) (len - 1) < len).
          { unfold len. rewrite land_mask. apply N.mod_lt. exact Hlen0. }
          destruct (IH (N.land (p0 + 1) (len - 1)) Hn) as (q & n & Hle & Hw & Hs & Hq).
          { unfold len at 1. rewrite land_mask. fold len.
            rewrite N.add_mod_idemp_l by exact Hlen0. rewrite <- E. f_equal. lia. }
          exists q, (S n). repeat split; [lia| |exact Hs|exact Hq].
          apply (walk_S _ _ _ p0 q n e He Hk Hw).
      + exists p0, 0%nat. repeat split; [lia|constructor| |exact Hp0]. unfold stop. rewrite He. exact I. }
  destruct (G (N.to_nat d) p Hp) as (q & n & Hle & Hw & Hs & Hq).
  { rewrite N2Nat.id. exact Hpd. }
  exists q, n. repeat split; try assumption. lia.
Qed.

(* ---------- the invariant ---------- *)
Definition home (H : Z -> N) (t : rp) (k : Z) : N := N.land (H k) (rp_mask t).
Definition kv (t : rp) : counters := map (fun e => (e_key e, e_val e)) (active_entries t).

Record tinv (H : Z -> N) (t : rp) : Prop := {
  ti_len : rp_len t = 2 ^ rp_lg t;
  ti_slot : forall i e, nthN (rp_tab t) i None = Some e ->
              e_hash e = H (e_key e) /\
              exists n, (n < length (rp_tab t))%nat /\ walk (rp_tab t) (rp_mask t) (e_key e) (home H t (e_key e)) i n;
  ti_active : rp_active t = N.of_nat (length (active_entries t))
}.

(* at least one slot is empty *)
Definition room (t : rp) : Prop := N.of_nat (length (active_entries t)) < rp_len t.

Lemma entries_length_le tab : (length (entries_of tab) <= length tab)%nat.
Proof.
  unfold entries_of. induction tab as [|s tab IH]; cbn [flat_map length]; [lia|].
  rewrite app_length. destruct s; cbn [length]; lia.
Qed.

Lemma entries_full tab : length (entries_of tab) = length tab -> forall n, (n < length tab)%nat -> nth n tab None <> None.
Proof.
  unfold entries_of. induction tab as [|s tab IH]; intros Hl n Hn; cbn [length] in *; [lia|].
  cbn [flat_map] in Hl. rewrite app_length in Hl. pose proof (entries_length_le tab) as Hle. unfold entries_of in Hle.
  destruct s as [e|]; cbn [length] in Hl; [|lia].
  destruct n as [|n]; cbn [nth]; [discriminate|]. apply IH; lia.
Qed.

Lemma room_empty_slot t : room t -> exists q, q < rp_len t /\ nthN (rp_tab t) q None = None.
Proof.
  unfold room, rp_len. rewrite active_entries_eq. intros Hr.
  assert (Hlt : (length (entries_of (rp_tab t)) < length (rp_tab t))%nat) by lia. clear Hr.
  generalize dependent (rp_tab t). intros tab Hlt.
  assert (G : exists n, (n < length tab)%nat /\ nth n tab None = None).
  { induction tab as [|s tab IH]; cbn [length] in *; [unfold entries_of in Hlt; cbn in Hlt; lia|].
    destruct s as [e|].
    - unfold entries_of in Hlt. cbn [flat_map app length] in Hlt.
      destruct IH as (n & Hn & E); [unfold entries_of; lia|]. exists (S n). split; [lia|exact E].
    - exists 0%nat. split; [lia|reflexivity]. }
  destruct G as (n & Hn & E). exists (N.of_nat n). split; [lia|]. unfold nthN. rewrite Nat2N.id. exact E.
Qed.

Lemma mask_eq t : rp_len t = 2 ^ rp_lg t -> rp_mask t = 2 ^ rp_lg t - 1.
Proof. unfold rp_mask. intros ->. reflexivity. Qed.

Lemma home_lt H t k : rp_len t = 2 ^ rp_lg t -> home H t k < 2 ^ rp_lg t.
Proof.
  intros Hl. unfold home. rewrite (mask_eq t Hl), land_mask. apply N.mod_lt. apply N.pow_nonzero. lia.
Qed.

(* the probe loop of adjust_or_put_value / hash_probe, specified *)
Lemma find_spec H t k : tinv H t -> room t ->
  exists q n, rp_find (length (rp_tab t)) (rp_tab t) (rp_mask t) k (home H t k) 1 = (q, 1 + N.of_nat n) /\
              (n < length (rp_tab t))%nat /\
              walk (rp_tab t) (rp_mask t) k (home H t k) q n /\ stop (rp_tab t) k q /\ q < rp_len t.
Proof.
  intros [Hlen Hslot Hact] Hroom.
  destruct (room_empty_slot t Hroom) as (q0 & Hq0 & Hnone).
  pose proof (mask_eq t Hlen) as Hm.
  destruct (walk_exists (rp_tab t) (rp_lg t) k Hlen q0 ltac:(rewrite <- Hlen; exact Hq0) Hnone (home H t k) (home_lt H t k Hlen))
    as (q & n & Hn & Hw & Hs & Hq).
  rewrite <- Hm in Hw. exists q, n. repeat split; try assumption.
  - apply (find_walk _ _ _ _ _ _ Hw Hs). exact Hn.
  - rewrite Hlen. exact Hq.
Qed.

(* distinct slots hold distinct keys *)
Lemma tinv_distinct H t : tinv H t ->
  forall i j e e', nthN (rp_tab t) i None = Some e -> nthN (rp_tab t) j None = Some e' -> e_key e = e_key e' -> i = j.
Proof.
  intros [Hlen Hslot Hact] i j e e' Hi Hj Ek.
  destruct (Hslot i e Hi) as (_ & n & _ & Hw). destruct (Hslot j e' Hj) as (_ & n' & _ & Hw').
  rewrite <- Ek in Hw'.
  assert (Hs : stop (rp_tab t) (e_key e) i) by (unfold stop; rewrite Hi; reflexivity).
  assert (Hs' : stop (rp_tab t) (e_key e) j) by (unfold stop; rewrite Hj; symmetry; exact Ek).
  exact (proj1 (walk_stop_unique _ _ _ _ _ _ Hw Hs _ _ Hw' Hs')).
Qed.

Lemma tinv_nodup H t : tinv H t -> NoDup (keys (kv t)).
Proof.
  intros Hi. unfold keys, kv. rewrite map_map. cbn [fst]. rewrite active_entries_eq.
  apply entries_nodup. intros i j e e' Hi' Hj' Ek.
  assert (N.of_nat i = N.of_nat j); [|lia].
  apply (tinv_distinct H t Hi (N.of_nat i) (N.of_nat j) e e'); unfold nthN; rewrite ?Nat2N.id; assumption.
Qed.

Lemma kv_in t k v : In (k, v) (kv t) <-> exists i e, nthN (rp_tab t) i None = Some e /\ e_key e = k /\ e_val e = v.
Proof.
  unfold kv. rewrite in_map_iff. split.
  - intros (e & E & Hin). inversion E; subst. rewrite active_entries_eq in Hin.
    apply entries_in in Hin. destruct Hin as [n Hn]. exists (N.of_nat n), e. unfold nthN. rewrite Nat2N.id. auto.
  - intros (i & e & Hi & <- & <-). exists e. split; [reflexivity|]. rewrite active_entries_eq. apply entries_in.
    exists (N.to_nat i). exact Hi.
Qed.

(* hash_map.get is the finite map's lookup *)
Theorem get_spec H t k : tinv H t -> room t -> rp_get t k (H k) = cs_get (kv t) k.
Proof.
  intros Hi Hroom. destruct (find_spec H t k Hi Hroom) as (q & n & Hf & Hn & Hw & Hs & Hq).
  unfold rp_get. fold (home H t k). rewrite Hf. unfold stop in Hs.
  destruct (nthN (rp_tab t) q None) as [e|] eqn:Hq'.
  - symmetry. apply in_cs_get; [apply (tinv_nodup H t Hi)|]. apply kv_in. exists q, e. auto.
  - symmetry. apply cs_get_notin. intros Hin. unfold keys in Hin. apply in_map_iff in Hin.
    destruct Hin as ([k0 v0] & Ek & Hin). cbn [fst] in Ek. subst k0.
    apply kv_in in Hin. destruct Hin as (i & e & Hi' & Ek & _).
    destruct Hi as [Hlen Hslot Hact]. destruct (Hslot i e Hi') as (_ & n' & _ & Hw'). rewrite Ek in Hw'.
    assert (Hs' : stop (rp_tab t) k i) by (unfold stop; rewrite Hi'; exact Ek).
    assert (Hsq : stop (rp_tab t) k q) by (unfold stop; rewrite Hq'; exact I).
    destruct (walk_stop_unique _ _ _ _ _ _ Hw' Hs' _ _ Hw Hsq) as [-> _]. rewrite Hq' in Hi'. discriminate.
Qed.

(* ---------- cs_add on split lists ---------- *)
Lemma cs_add_notin cs k v : ~ In k (keys cs) -> cs_add cs k v = cs ++ [(k, v)].
Proof.
  induction cs as [|[k0 v0] r IH]; intros Hn; cbn [cs_add app]; [reflexivity|].
  cbn [keys map fst] in Hn. destruct (Z.eqb_spec k k0) as [->|Hne]; [exfalso; apply Hn; left; reflexivity|].
  rewrite IH; [reflexivity|]. intros Hin. apply Hn. right. exact Hin.
Qed.

Lemma cs_add_split l1 k v0 l2 v : ~ In k (keys l1) -> cs_add (l1 ++ (k, v0) :: l2) k v = l1 ++ (k, v0 + v) :: l2.
Proof.
  induction l1 as [|[k0 w0] r IH]; intros Hn; cbn [cs_add app].
  - rewrite Z.eqb_refl. reflexivity.
  - cbn [keys map fst] in Hn. destruct (Z.eqb_spec k k0) as [->|Hne]; [exfalso; apply Hn; left; reflexivity|].
    rewrite IH; [reflexivity|]. intros Hin. apply Hn. right. exact Hin.
Qed.

(* ---------- adjust_or_put_value preserves the invariant and is cs_add on the finite map ---------- *)
Theorem put_spec H t k v : tinv H t -> N.of_nat (length (active_entries t)) + 1 < rp_len t ->
  let t' := rp_adjust_or_put t k (H k) v in
  tinv H t' /\ Permutation (kv t') (cs_add (kv t) k v) /\
  rp_lg t' = rp_lg t /\ rp_thr t' = rp_thr t /\ rp_len t' = rp_len t.
Proof.
  intros Hi Hroom1. assert (Hroom : room t) by (unfold room; lia).
  destruct (find_spec H t k Hi Hroom) as (q & n & Hf & Hn & Hw & Hs & Hq).
  pose proof (tinv_nodup H t Hi) as Hnd.
  destruct Hi as [Hlen Hslot Hact].
  cbv zeta. unfold rp_adjust_or_put. fold (home H t k). rewrite Hf. unfold stop in Hs.
  assert (Hqn : (N.to_nat q < length (rp_tab t))%nat) by (unfold rp_len in Hq; lia).
  destruct (nthN (rp_tab t) q None) as [e|] eqn:Hq'.
  - (* the key is there: its value is adjusted *)
    set (e1 := mkEntry (e_key e) (e_hash e) (e_val e + v) (e_drift e)).
    set (t' := mkRp (rp_lg t) (rp_thr t) (set_nthN q (Some e1) (rp_tab t)) (rp_active t)).
    assert (Hlen' : rp_len t' = rp_len t) by (unfold rp_len, t'; cbn [rp_tab]; rewrite set_nthN_length; reflexivity).
    assert (Hmask' : rp_mask t' = rp_mask t) by (unfold rp_mask; rewrite Hlen'; reflexivity).
    destruct (entries_set_some (rp_tab t) (N.to_nat q) e e1 Hq') as (l1 & l2 & E1 & E2).
    assert (Hkv : kv t' = cs_add (kv t) k v).
    { unfold kv. rewrite !active_entries_eq. unfold t'. cbn [rp_tab]. unfold set_nthN. rewrite E1, E2.
      rewrite !map_app. cbn [map]. unfold e1. cbn [e_key e_val]. rewrite Hs.
      symmetry. apply cs_add_split.
      unfold keys, kv in Hnd. rewrite active_entries_eq, E1, !map_app in Hnd. cbn [map fst] in Hnd.
      apply NoDup_remove_2 in Hnd. rewrite Hs in Hnd. intros Hin. apply Hnd. apply in_or_app. left. exact Hin. }
    split; [|split; [|split; [reflexivity|split; [reflexivity|exact Hlen']]]].
    + constructor.
      * rewrite Hlen'. exact Hlen.
      * intros i e' Hi'.
        assert (Hhome : forall kk, home H t' kk = home H t kk) by (intros; unfold home; rewrite Hmask'; reflexivity).
        rewrite Hmask', Hhome. unfold t' in Hi' |- *. cbn [rp_tab] in Hi' |- *. rewrite set_nthN_length.
        destruct (N.eq_dec q i) as [<-|Hne].
        -- rewrite nthN_set_same in Hi' by exact Hqn. inversion Hi'; subst e'. unfold e1. cbn [e_key e_hash].
           destruct (Hslot q e Hq') as (Hh & n0 & Hn0 & Hw0). split; [exact Hh|]. exists n0. split; [exact Hn0|].
           apply (walk_set_samekey _ _ _ q e); [exact Hq'|reflexivity|exact Hw0].
        -- rewrite nthN_set_other in Hi' by exact Hne.
           destruct (Hslot i e' Hi') as (Hh & n0 & Hn0 & Hw0). split; [exact Hh|]. exists n0. split; [exact Hn0|].
           apply (walk_set_samekey _ _ _ q e); [exact Hq'|reflexivity|exact Hw0].
      * unfold t'. cbn [rp_active]. rewrite Hact, !active_entries_eq. cbn [rp_tab]. unfold set_nthN. rewrite E1, E2, !app_length. reflexivity.
    + rewrite Hkv. apply Permutation_refl.
  - (* a new key goes into the first empty slot of its probe sequence *)
    set (e1 := mkEntry k (H k) v (1 + N.of_nat n)).
    set (t' := mkRp (rp_lg t) (rp_thr t) (set_nthN q (Some e1) (rp_tab t)) (rp_active t + 1)).
    assert (Hlen' : rp_len t' = rp_len t) by (unfold rp_len, t'; cbn [rp_tab]; rewrite set_nthN_length; reflexivity).
    assert (Hmask' : rp_mask t' = rp_mask t) by (unfold rp_mask; rewrite Hlen'; reflexivity).
    destruct (entries_set_none (rp_tab t) (N.to_nat q) e1 Hq' Hqn) as (l1 & l2 & E1 & E2).
    assert (Hnotin : ~ In k (keys (kv t))).
    { intros Hin. unfold keys in Hin. apply in_map_iff in Hin. destruct Hin as ([k0 v0] & Ek & Hin). cbn [fst] in Ek. subst k0.
      apply kv_in in Hin. destruct Hin as (i & e & Hi' & Ek & _).
      destruct (Hslot i e Hi') as (_ & n' & _ & Hw'). rewrite Ek in Hw'.
      assert (Hs' : stop (rp_tab t) k i) by (unfold stop; rewrite Hi'; exact Ek).
      assert (Hsq : stop (rp_tab t) k q) by (unfold stop; rewrite Hq'; exact I).
      destruct (walk_stop_unique _ _ _ _ _ _ Hw' Hs' _ _ Hw Hsq) as [-> _]. rewrite Hq' in Hi'. discriminate. }
    split; [|split; [|split; [reflexivity|split; [reflexivity|exact Hlen']]]].
    + constructor.
      * rewrite Hlen'. exact Hlen.
      * intros i e' Hi'.
        assert (Hhome : forall kk, home H t' kk = home H t kk) by (intros; unfold home; rewrite Hmask'; reflexivity).
        rewrite Hmask', Hhome. unfold t' in Hi' |- *. cbn [rp_tab] in Hi' |- *. rewrite set_nthN_length.
        destruct (N.eq_dec q i) as [<-|Hne].
        -- rewrite nthN_set_same in Hi' by exact Hqn. inversion Hi'; subst e'. unfold e1. cbn [e_key e_hash].
           split; [reflexivity|]. exists n. split; [exact Hn|]. apply walk_set_none; [exact Hq'|exact Hw].
        -- rewrite nthN_set_other in Hi' by exact Hne.
           destruct (Hslot i e' Hi') as (Hh & n0 & Hn0 & Hw0). split; [exact Hh|]. exists n0. split; [exact Hn0|].
           apply walk_set_none; [exact Hq'|exact Hw0].
      * unfold t'. cbn [rp_active]. rewrite Hact, !active_entries_eq. cbn [rp_tab]. unfold set_nthN. rewrite E1, E2, !app_length.
        cbn [length]. lia.
    + rewrite (cs_add_notin _ _ _ Hnotin). unfold kv. rewrite !active_entries_eq. unfold t'. cbn [rp_tab]. unfold set_nthN.
      rewrite E1, E2, !map_app. cbn [map]. unfold e1 at 1 2. cbn [e_key e_val].
      rewrite <- app_assoc. apply Permutation_app_head. apply Permutation_cons_append.
Qed.

(* the empty table *)
Lemma entries_repeat_none n : entries_of (repeat None n) = [].
Proof. induction n as [|n IH]; cbn [repeat]; [reflexivity|]. unfold entries_of in *. cbn [flat_map app]. exact IH. Qed.

Lemma nth_repeat_none {A} n m : nth m (repeat (@None A) n) None = None.
Proof. revert m. induction n as [|n IH]; intros [|m]; cbn [repeat nth]; auto. Qed.

Lemma tinv_new H lg : tinv H (rp_new lg).
Proof.
  constructor.
  - unfold rp_len, rp_new. cbn [rp_tab rp_lg]. rewrite repeat_length. lia.
  - intros i e Hi. unfold rp_new, nthN in Hi. cbn [rp_tab] in Hi. rewrite nth_repeat_none in Hi. discriminate.
  - unfold rp_new. cbn [rp_active]. rewrite active_entries_eq. cbn [rp_tab]. rewrite entries_repeat_none. reflexivity.
Qed.

Lemma kv_new lg : kv (rp_new lg) = [].
Proof. unfold kv. rewrite active_entries_eq. unfold rp_new. cbn [rp_tab]. rewrite entries_repeat_none. reflexivity. Qed.

Lemma rp_len_new lg : rp_len (rp_new lg) = 2 ^ lg.
Proof. unfold rp_len, rp_new. cbn [rp_tab]. rewrite repeat_length. lia. Qed.

(* permutations of duplicate-free counter lists are the same finite map *)
Lemma cs_get_perm l l' k : NoDup (keys l) -> Permutation l l' -> cs_get l k = cs_get l' k.
Proof.
  intros Hnd P. rewrite <- (cnt_nodup l k Hnd).
  assert (Hnd' : NoDup (keys l')) by (unfold keys in *; eapply Permutation_NoDup; [apply Permutation_map; exact P|exact Hnd]).
  rewrite <- (cnt_nodup l' k Hnd'). apply cnt_perm. exact P.
Qed.

Lemma cs_add_perm l l' k v : NoDup (keys l) -> Permutation l l' -> Permutation (cs_add l k v) (cs_add l' k v).
Proof.
  intros Hnd P.
  assert (Hnd' : NoDup (keys l')) by (unfold keys in *; eapply Permutation_NoDup; [apply Permutation_map; exact P|exact Hnd]).
  destruct (in_dec Z.eq_dec k (keys l)) as [Hin|Hnin].
  - (* both lists hold k: split them around it *)
    assert (Hin' : In k (keys l')) by (unfold keys in *; eapply Permutation_in; [apply Permutation_map; exact P|exact Hin]).
    unfold keys in Hin, Hin'. apply in_map_iff in Hin. destruct Hin as ([k0 v0] & Ek & Hin). cbn [fst] in Ek. subst k0.
    apply in_split in Hin. destruct Hin as (a & b & ->).
    assert (Hin2 : In (k, v0) l') by (eapply Permutation_in; [exact P|apply in_or_app; right; left; reflexivity]).
    apply in_split in Hin2. destruct Hin2 as (a' & b' & ->).
    assert (Ha : ~ In k (keys a)).
    { unfold keys in Hnd. rewrite map_app in Hnd. cbn [map fst] in Hnd. apply NoDup_remove_2 in Hnd.
      intros Hx. apply Hnd. apply in_or_app. left. exact Hx. }
    assert (Ha' : ~ In k (keys a')).
    { unfold keys in Hnd'. rewrite map_app in Hnd'. cbn [map fst] in Hnd'. apply NoDup_remove_2 in Hnd'.
      intros Hx. apply Hnd'. apply in_or_app. left. exact Hx. }
    rewrite (cs_add_split a k v0 b v Ha), (cs_add_split a' k v0 b' v Ha').
    apply Permutation_app_inv in P.
    apply Permutation_trans with ((k, v0 + v) :: a ++ b); [apply Permutation_sym, Permutation_middle|].
    apply Permutation_trans with ((k, v0 + v) :: a' ++ b'); [constructor; exact P|apply Permutation_middle].
  - assert (Hnin' : ~ In k (keys l')).
    { intros Hx. apply Hnin. unfold keys in *. eapply Permutation_in; [apply Permutation_map, Permutation_sym; exact P|exact Hx]. }
    rewrite (cs_add_notin l k v Hnin), (cs_add_notin l' k v Hnin'). apply Permutation_app_tail. exact P.
Qed.
