(* Soundness of the executable invariant check (Model/CpcCheck.v): a state that passes it satisfies the C05
   invariant with respect to its own bit matrix, hence every further operation is safe (C14: Ok => wf => usable). *)
From DS Require Import Base.Prelude Model.Cpc Model.CpcUnion Model.CpcCheck Proofs.CpcBits Proofs.CpcSpec Proofs.CpcProofs Proofs.CpcInv
  Proofs.CpcStep Proofs.CpcUpdate Proofs.CpcMain Proofs.CpcUnionSpec Proofs.CpcUnionLemmas Proofs.CpcUnionProofs.
From Coq Require Import ZifyBool ZifyNat ZifyN.
Ltac Zify.zify_post_hook ::= Z.div_mod_to_equations.
Open Scope N_scope.

Lemma nodupb_NoDup : forall l, nodupb l = true -> NoDup l.
Proof.
  induction l as [|x l IH]; intros H; [constructor|].
  cbn [nodupb] in H. apply andb_true_iff in H. destruct H as [H1 H2]. constructor.
  - apply memN_false. destruct (memN x l); [discriminate|reflexivity].
  - apply IH. exact H2.
Qed.

Lemma rows_of_nthN : forall m, rows_of (fun r => nthN m r 0) (length m) = m.
Proof.
  intros m. apply list_eq_nth; [apply rows_of_length|].
  intros i Hi. rewrite rows_of_length in Hi. rewrite rows_of_nth by exact Hi. unfold nthN. rewrite Nat2N.id. reflexivity.
Qed.

Lemma tab_of_tlist : forall s, tab_of s = tlist s.
Proof. reflexivity. Qed.
Lemma has_window_b_windowed : forall s, has_window_b s = windowed s.
Proof. reflexivity. Qed.

Theorem inv_check_sound : forall s, inv_check s = true ->
  exists m, build_bit_matrix s = Ok m /\
            Inv (c_lgk s) s (fun r => nthN m r 0) /\ Mw64 (c_lgk s) (fun r => nthN m r 0).
Proof.
  intros s H. unfold inv_check in H.
  destruct (build_bit_matrix s) as [m| |] eqn:Em;
    [|rewrite !andb_false_r in H; discriminate|rewrite !andb_false_r in H; discriminate].
  apply andb_true_iff in H; destruct H as [H Hlast].
  apply andb_true_iff in Hlast; destruct Hlast as [Hlast C0].
  apply andb_true_iff in Hlast; destruct Hlast as [Ccnt C1].
  apply andb_true_iff in H; destruct H as [H C2].
  apply andb_true_iff in H; destruct H as [H C3].
  apply andb_true_iff in H; destruct H as [H C4].
  apply andb_true_iff in H; destruct H as [H C5].
  apply andb_true_iff in H; destruct H as [H C6].
  apply andb_true_iff in H; destruct H as [H C7].
  apply andb_true_iff in H; destruct H as [H C8].
  apply andb_true_iff in H; destruct H as [H C9].
  apply andb_true_iff in H; destruct H as [H C10].
  apply andb_true_iff in H; destruct H as [H Ccap].
  apply andb_true_iff in H; destruct H as [H C11].
  apply andb_true_iff in H; destruct H as [H C12].
  apply andb_true_iff in H; destruct H as [C14 C13].
  rewrite tab_of_tlist, has_window_b_windowed in *.
  pose proof (pow_pos (c_lgk s)) as HK.
  (* structural well-formedness *)
  assert (W : Wf s).
  { rewrite forallb_forall in C10.
    constructor.
    - apply nodupb_NoDup. exact C11.
    - intros x Hx. specialize (C10 x Hx). lia.
    - intros x Hx. specialize (C10 x Hx). lia.
    - intros Hw x Hx. specialize (C10 x Hx). rewrite Hw in C10. lia.
    - intros Hw. rewrite Hw in C9. cbn [negb orb] in C9. apply andb_true_iff in C9. destruct C9 as [L B].
      split; [unfold Knat; lia|]. apply Forall_forall. intros b Hb. rewrite forallb_forall in B. specialize (B b Hb). lia.
    - intros Hw. rewrite Hw in C8. lia.
    - lia.
    - intros Ht. rewrite Ht in C7. lia.
    - intros Hn. assert (E : (c_num s =? 0) = true) by lia. rewrite E in C6. cbn [negb orb] in C6.
      apply andb_true_iff in C6. destruct C6 as [T Wn]. split.
      + destruct (tlist s); [reflexivity|discriminate].
      + destruct (windowed s); [discriminate|reflexivity]. }
  destruct (build_bits s W) as [m' [Em' [Hlen Hbits]]]. rewrite Em in Em'. injection Em' as <-.
  exists m. split; [reflexivity|].
  set (M := fun r => nthN m r 0).
  assert (H64 : Mw64 (c_lgk s) M).
  { intros r Hr c Hc. unfold M. rewrite (Hbits r c Hr). assert (c <? 64 = false) as -> by lia. reflexivity. }
  split; [|exact H64].
  constructor.
  - constructor.
    + exact W.
    + intros r c Hr Hc. unfold M. rewrite (Hbits r c Hr). assert (c <? 64 = true) as -> by lia. reflexivity.
    + unfold M. rewrite <- Hlen. unfold pop_rows. rewrite rows_of_nthN. fold (count_bits_set_in_matrix m). lia.
  - reflexivity.
  - lia.
  - unfold coff. unfold coff_b in C4. lia.
  - destruct (windowed s) eqn:Ew; destruct (3 * 2 ^ c_lgk s <=? 32 * c_num s) eqn:Ed; cbn [Bool.eqb] in C3;
      try discriminate; split; intros; try lia; try discriminate; reflexivity.
  - lia.
  - intros r c Hr Hc. unfold M. rewrite forallb_forall in C1.
    assert (Hin : In (nthN m r 0) m). { unfold nthN. apply nth_In. rewrite Hlen. unfold Knat. lia. }
    specialize (C1 _ Hin). apply N.eqb_eq in C1.
    assert (T : N.testbit (N.land (nthN m r 0) (2 ^ c_fic s - 1)) c = true) by (rewrite C1, ones_bits; lia).
    rewrite N.land_spec in T. apply andb_true_iff in T. tauto.
  - intros r c Hr Hc Hb E. unfold U32MAX in E. assert (Er : r = 67108863) by lia. assert (Ec : c = 63) by lia.
    destruct (N.eq_dec (c_lgk s) 26) as [E26|N26].
    + assert (Et : (c_lgk s =? 26) = true) by lia. rewrite Et in C0. cbn [negb orb] in C0.
      unfold M in Hb. rewrite Er, Ec in Hb. rewrite Hb in C0. discriminate.
    + pose proof (pow_le_mono (c_lgk s) 25 ltac:(lia)) as P. change (2 ^ 25) with 33554432 in P. lia.
Qed.

(* a checked state is a valid union input and accepts every further valid pair inside the domain *)
Theorem checked_state_usable : forall s, inv_check s = true ->
  cpc_validate s = Ok true /\
  (exists M, Vin s (c_lgk s) M) /\
  (forall rc M, Vin s (c_lgk s) M -> valid (c_lgk s) rc -> 8 * (c_num s + 1) < 475 * 2 ^ c_lgk s ->
     fits (c_lgk s) (spec_update M rc) (pop_rows (spec_update M rc) (Knat (c_lgk s))) ->
     exists s', row_col_update s rc = Ok s').
Proof.
  intros s H. destruct (inv_check_sound s H) as [m [Em [I H64]]].
  set (M := fun r => nthN m r 0) in *.
  assert (Hd : 8 * c_num s < 475 * 2 ^ c_lgk s).
  { pose proof (inv_off _ s M I) as Ho. pose proof (rep_wf s M (inv_rep _ s M I)) as W.
    unfold inv_check in H. rewrite Em in H.
    repeat (apply andb_true_iff in H; let H' := fresh "Q" in destruct H as [H H']).
    repeat match goal with Hq : (_ <? _) = true |- _ => apply N.ltb_lt in Hq end. assumption. }
  destruct (inv_facts (c_lgk s) s M I H64 Hd) as [_ [_ [_ [_ [_ [_ [_ Hv]]]]]]].
  split; [exact Hv|]. split; [exists M; split; assumption|].
  intros rc M' [I' _] V Hd' Hfit.
  destruct (step_inv (c_lgk s) s M' rc I' V) as [s' [E _]]; [|exact Hfit|exists s'; exact E].
  pose proof (rep_num s M' (inv_rep _ s M' I')) as Hn. destruct V as [Hrow _].
  rewrite (pop_rows_step M' rc) by (rewrite Knat_N; exact Hrow). rewrite <- Hn.
  destruct (N.testbit (M' (rc / 64)) (rc mod 64)); lia.
Qed.
