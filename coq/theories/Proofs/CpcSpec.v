(* The Spec of C05: the k x 64 bit matrix of the offered (row, col) pairs.
   A pair is coded rc = row * 64 + col (the crate's `(row << 6) | col`). *)
From DS Require Import Base.Prelude Model.Cpc Proofs.CpcBits.
From Coq Require Import ZifyBool ZifyNat ZifyN.
Ltac Zify.zify_post_hook ::= Z.div_mod_to_equations.
Open Scope N_scope.

Definition matrix : Type := N -> N.       (* row -> 64-bit word *)

(* M[row] |= 2^col *)
Definition spec_update (M : matrix) (rc : N) : matrix :=
  fun r => if r =? rc / 64 then N.lor (M r) (2 ^ (rc mod 64)) else M r.

Definition spec (cs : list N) : matrix := fold_left spec_update cs (fun _ => 0).

Definition rows_of (M : matrix) (n : nat) : list N := map (fun i => M (N.of_nat i)) (seq 0 n).
(* number of set bits in the first n rows *)
Definition pop_rows (M : matrix) (n : nat) : N := sumN (map popcount (rows_of M n)).
(* number of distinct pairs of a stream *)
Definition distinct (cs : list N) : N := N.of_nat (length (nodup N.eq_dec cs)).

Definition Mwf (M : matrix) : Prop := forall r, word64 (M r).
Definition meq (M M' : matrix) : Prop := forall r, M r = M' r.

Definition Knat (lgk : N) : nat := N.to_nat (2 ^ lgk).

Lemma spec_update_bit : forall M rc r c,
  N.testbit (spec_update M rc r) c = N.testbit (M r) c || ((r =? rc / 64) && (c =? rc mod 64)).
Proof.
  intros M rc r c. unfold spec_update. destruct (r =? rc / 64) eqn:E; cbn [andb].
  - rewrite N.lor_spec, N.pow2_bits_eqb. rewrite (N.eqb_sym c). reflexivity.
  - rewrite orb_false_r. reflexivity.
Qed.

Lemma spec_update_same : forall M rc,
  N.testbit (M (rc / 64)) (rc mod 64) = true -> meq (spec_update M rc) M.
Proof.
  intros M rc H r. unfold spec_update. destruct (r =? rc / 64) eqn:E; [|reflexivity].
  apply N.eqb_eq in E. subst r. apply lor_bit_already. exact H.
Qed.

Lemma Mwf_update : forall M rc, Mwf M -> Mwf (spec_update M rc).
Proof.
  intros M rc H r c Hc. rewrite spec_update_bit, (H r c Hc).
  assert (c =? rc mod 64 = false) as -> by lia. rewrite andb_false_r. reflexivity.
Qed.

Lemma Mwf_zero : Mwf (fun _ => 0).
Proof. intros r c _. apply N.bits_0. Qed.

Lemma spec_snoc : forall cs x, spec (cs ++ [x]) = spec_update (spec cs) x.
Proof. intros. unfold spec. rewrite fold_left_app. reflexivity. Qed.

Lemma Mwf_spec : forall cs, Mwf (spec cs).
Proof.
  intros cs. induction cs as [|x cs IH] using rev_ind; [apply Mwf_zero|].
  rewrite spec_snoc. apply Mwf_update. exact IH.
Qed.

Lemma spec_bit_In : forall cs r c, c < 64 ->
  (N.testbit (spec cs r) c = true <-> In (r * 64 + c) cs).
Proof.
  intros cs r c Hc. induction cs as [|x cs IH] using rev_ind.
  - unfold spec. cbn [fold_left In]. rewrite N.bits_0. split; [discriminate|tauto].
  - rewrite spec_snoc, spec_update_bit, in_app_iff, orb_true_iff, IH. cbn [In].
    split.
    + intros [H|H]; [left; exact H|right; left]. lia.
    + intros [H|[H|[]]]; [left; exact H|right]. lia.
Qed.

(* ---------- sums over rows ---------- *)
Lemma rows_of_length : forall M n, length (rows_of M n) = n.
Proof. intros. unfold rows_of. rewrite map_length, seq_length. reflexivity. Qed.

Lemma rows_of_nth : forall M n i, (i < n)%nat -> nth i (rows_of M n) 0 = M (N.of_nat i).
Proof.
  intros M n i H. unfold rows_of.
  rewrite (nth_indep _ 0 (M (N.of_nat 0))) by (rewrite map_length, seq_length; exact H).
  rewrite (map_nth (fun i => M (N.of_nat i))). rewrite seq_nth by exact H. reflexivity.
Qed.

Lemma rows_of_S : forall M n, rows_of M (S n) = rows_of M n ++ [M (N.of_nat n)].
Proof. intros. unfold rows_of. rewrite seq_S, map_app. reflexivity. Qed.

Lemma sumN_app : forall a b, sumN (a ++ b) = sumN a + sumN b.
Proof. induction a as [|x a IH]; intros b; cbn [sumN app]; [lia|rewrite IH; lia]. Qed.

Lemma pop_rows_S : forall M n, pop_rows M (S n) = pop_rows M n + popcount (M (N.of_nat n)).
Proof.
  intros. unfold pop_rows. rewrite rows_of_S, map_app, sumN_app. cbn [map sumN]. lia.
Qed.

Lemma pop_rows_ext : forall M M' n, (forall i, (i < n)%nat -> M (N.of_nat i) = M' (N.of_nat i)) ->
  pop_rows M n = pop_rows M' n.
Proof.
  intros M M' n. induction n as [|n IH]; intros H; [reflexivity|].
  rewrite !pop_rows_S, IH, H; auto.
Qed.

Lemma pop_rows_update_above : forall M rc n, N.of_nat n <= rc / 64 ->
  pop_rows (spec_update M rc) n = pop_rows M n.
Proof.
  intros M rc n H. apply pop_rows_ext. intros i Hi. unfold spec_update.
  assert (N.of_nat i =? rc / 64 = false) as -> by lia. reflexivity.
Qed.

Lemma pop_rows_update : forall M rc n, rc / 64 < N.of_nat n ->
  N.testbit (M (rc / 64)) (rc mod 64) = false ->
  pop_rows (spec_update M rc) n = pop_rows M n + 1.
Proof.
  intros M rc n. induction n as [|n IH]; intros Hr Hb; [lia|].
  rewrite !pop_rows_S. destruct (N.eq_dec (rc / 64) (N.of_nat n)) as [E|E].
  - rewrite pop_rows_update_above by lia.
    unfold spec_update at 1. rewrite <- E, N.eqb_refl. rewrite popcount_set_bit by exact Hb. lia.
  - rewrite IH by (try exact Hb; lia). unfold spec_update at 1.
    assert (N.of_nat n =? rc / 64 = false) as -> by lia. lia.
Qed.

Lemma pop_rows_zero : forall n, pop_rows (fun _ => 0) n = 0.
Proof. induction n as [|n IH]; [reflexivity|]. rewrite pop_rows_S, IH. reflexivity. Qed.

(* the coupon count after one more pair *)
Lemma pop_rows_step : forall M rc n, rc / 64 < N.of_nat n ->
  pop_rows (spec_update M rc) n =
  pop_rows M n + (if N.testbit (M (rc / 64)) (rc mod 64) then 0 else 1).
Proof.
  intros M rc n Hr. destruct (N.testbit (M (rc / 64)) (rc mod 64)) eqn:E.
  - rewrite N.add_0_r. apply pop_rows_ext. intros i _. apply spec_update_same. exact E.
  - apply pop_rows_update; assumption.
Qed.

(* ---------- popcount of the spec = number of distinct pairs ---------- *)
Lemma nodup_snoc_length : forall (l : list N) x,
  length (nodup N.eq_dec (l ++ [x])) = (length (nodup N.eq_dec l) + (if in_dec N.eq_dec x l then 0 else 1))%nat.
Proof.
  induction l as [|a l IH]; intros x.
  - cbn. reflexivity.
  - cbn [app nodup]. specialize (IH x).
    destruct (in_dec N.eq_dec a (l ++ [x])) as [H|H];
    destruct (in_dec N.eq_dec a l) as [H'|H'];
    destruct (in_dec N.eq_dec x (a :: l)) as [H''|H''];
    destruct (in_dec N.eq_dec x l) as [Hx|Hx];
    cbn [length]; try lia; exfalso;
    rewrite ?in_app_iff in *; cbn [In] in *;
    repeat match goal with
    | H : _ \/ _ |- _ => destruct H
    | H : False |- _ => destruct H
    end; subst; tauto.
Qed.

Lemma pop_rows_spec_distinct : forall cs n, Forall (fun rc => rc / 64 < N.of_nat n) cs ->
  pop_rows (spec cs) n = distinct cs.
Proof.
  intros cs n. induction cs as [|x cs IH] using rev_ind; intros HF.
  - cbn. apply pop_rows_zero.
  - apply Forall_app in HF. destruct HF as [HF Hx]. inversion Hx as [|? ? Hx' _]; subst.
    rewrite spec_snoc, pop_rows_step by exact Hx'. rewrite (IH HF).
    unfold distinct. rewrite nodup_snoc_length.
    destruct (in_dec N.eq_dec x cs) as [Hin|Hin].
    + assert (N.testbit (spec cs (x / 64)) (x mod 64) = true) as ->.
      { apply spec_bit_In; [lia|]. rewrite <- rc_eq. exact Hin. }
      lia.
    + destruct (N.testbit (spec cs (x / 64)) (x mod 64)) eqn:E.
      * exfalso. apply Hin. apply spec_bit_In in E; [|lia]. rewrite <- rc_eq in E. exact E.
      * lia.
Qed.
