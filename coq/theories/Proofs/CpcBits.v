(* Bit-level lemmas for the CPC proofs: set-bit lists, popcount, trailing zeros, the three column
   zones of a row (early zone / window / late zone). *)
From DS Require Import Base.Prelude Model.Cpc.
From Coq Require Import Permutation.
From Coq Require Import ZifyBool ZifyNat ZifyN.
Ltac Zify.zify_post_hook ::= Z.div_mod_to_equations.
Open Scope N_scope.

(* ---------- memN ---------- *)
Lemma memN_In : forall x l, memN x l = true <-> In x l.
Proof.
  intros x l. unfold memN. rewrite existsb_exists. split.
  - intros [y [Hy E]]. apply N.eqb_eq in E. subst. exact Hy.
  - intros H. exists x. split; [exact H|apply N.eqb_refl].
Qed.

Lemma memN_false : forall x l, memN x l = false <-> ~ In x l.
Proof.
  intros x l. rewrite <- memN_In. destruct (memN x l); split; congruence.
Qed.

Lemma memN_cons : forall x y l, memN x (y :: l) = (x =? y) || memN x l.
Proof. reflexivity. Qed.

Lemma removeN_In : forall x y l, NoDup l -> (In y (removeN x l) <-> In y l /\ y <> x).
Proof.
  intros x y l. induction l as [|a l IH]; intros ND.
  - cbn. tauto.
  - inversion ND as [|? ? Ha ND']; subst. cbn [removeN].
    destruct (x =? a) eqn:E.
    + apply N.eqb_eq in E. subst a. cbn [In]. split.
      * intros H. split; [right; exact H|]. intros ->. contradiction.
      * intros [[H|H] Hn]; [congruence|exact H].
    + apply N.eqb_neq in E. cbn [In]. rewrite (IH ND'). split.
      * intros [H|[H Hn]]; [subst; split; [left; reflexivity|congruence]|split; [right; exact H|exact Hn]].
      * intros [[H|H] Hn]; [left; exact H|right; split; assumption].
Qed.

Lemma removeN_NoDup : forall x l, NoDup l -> NoDup (removeN x l).
Proof.
  intros x l. induction l as [|a l IH]; intros ND; [constructor|].
  inversion ND as [|? ? Ha ND']; subst. cbn [removeN].
  destruct (x =? a) eqn:E; [exact ND'|].
  constructor; [|apply IH; exact ND'].
  intros H. apply (removeN_In x a l ND') in H. tauto.
Qed.

(* ---------- bits_of ---------- *)
Lemma pos_bits_spec : forall p i c,
  In c (pos_bits p i) <-> i <= c /\ N.testbit (Npos p) (c - i) = true.
Proof.
  induction p as [q IH|q IH|]; intros i c; cbn [pos_bits].
  - cbn [In]. rewrite IH. split.
    + intros [H|[H1 H2]].
      * subst. split; [lia|]. rewrite N.sub_diag. reflexivity.
      * split; [lia|]. replace (c - i) with (N.succ (c - N.succ i)) by lia.
        change (N.pos q~1) with (2 * N.pos q + 1). rewrite N.testbit_odd_succ by lia. exact H2.
    + intros [H1 H2]. destruct (N.eq_dec i c) as [E|E]; [left; exact E|right].
      split; [lia|]. replace (c - i) with (N.succ (c - N.succ i)) in H2 by lia.
      change (N.pos q~1) with (2 * N.pos q + 1) in H2. rewrite N.testbit_odd_succ in H2 by lia. exact H2.
  - rewrite IH. split.
    + intros [H1 H2]. split; [lia|]. replace (c - i) with (N.succ (c - N.succ i)) by lia.
      change (N.pos q~0) with (2 * N.pos q). rewrite N.testbit_even_succ by lia. exact H2.
    + intros [H1 H2]. destruct (N.eq_dec i c) as [E|E].
      * subst. rewrite N.sub_diag in H2. cbn in H2. discriminate.
      * split; [lia|]. replace (c - i) with (N.succ (c - N.succ i)) in H2 by lia.
        change (N.pos q~0) with (2 * N.pos q) in H2. rewrite N.testbit_even_succ in H2 by lia. exact H2.
  - cbn [In]. split.
    + intros [H|[]]. subst. split; [lia|]. rewrite N.sub_diag. reflexivity.
    + intros [H1 H2]. left. destruct (N.eq_dec i c) as [E|E]; [exact E|].
      exfalso. replace (c - i) with (N.succ (c - N.succ i)) in H2 by lia.
      change 1 with (2 * 0 + 1) in H2. rewrite N.testbit_odd_succ in H2 by lia.
      rewrite N.bits_0 in H2. discriminate.
Qed.

Lemma bits_of_spec : forall n c, In c (bits_of n) <-> N.testbit n c = true.
Proof.
  intros [|p] c; cbn [bits_of].
  - rewrite N.bits_0. cbn. split; [tauto|discriminate].
  - rewrite pos_bits_spec. rewrite N.sub_0_r. split; [tauto|]. intros H. split; [lia|exact H].
Qed.

Lemma pos_bits_lb : forall p i c, In c (pos_bits p i) -> i <= c.
Proof. intros p i c H. apply pos_bits_spec in H. tauto. Qed.

Lemma pos_bits_NoDup : forall p i, NoDup (pos_bits p i).
Proof.
  induction p as [q IH|q IH|]; intros i; cbn [pos_bits].
  - constructor; [|apply IH]. intros H. apply pos_bits_lb in H. lia.
  - apply IH.
  - constructor; [tauto|constructor].
Qed.

Lemma bits_of_NoDup : forall n, NoDup (bits_of n).
Proof. intros [|p]; [constructor|apply pos_bits_NoDup]. Qed.

(* ---------- popcount ---------- *)
Lemma popcount_set_bit : forall w c, N.testbit w c = false ->
  popcount (N.lor w (2 ^ c)) = popcount w + 1.
Proof.
  intros w c H. unfold popcount.
  assert (P : Permutation (bits_of (N.lor w (2 ^ c))) (c :: bits_of w)).
  { apply NoDup_Permutation.
    - apply bits_of_NoDup.
    - constructor; [|apply bits_of_NoDup]. rewrite bits_of_spec. congruence.
    - intros x. cbn [In]. rewrite !bits_of_spec, N.lor_spec, N.pow2_bits_eqb.
      destruct (N.testbit w x); cbn [orb].
      + split; [intros _; right; reflexivity|reflexivity].
      + split.
        * intros E. apply N.eqb_eq in E. left. exact E.
        * intros [E|E]; [subst; apply N.eqb_refl|discriminate]. }
  rewrite (Permutation_length P). cbn [length]. lia.
Qed.

Lemma lor_bit_already : forall w c, N.testbit w c = true -> N.lor w (2 ^ c) = w.
Proof.
  intros w c H. apply N.bits_inj. intros x. rewrite N.lor_spec, N.pow2_bits_eqb.
  destruct (c =? x) eqn:E; [apply N.eqb_eq in E; subst; rewrite H; reflexivity|apply orb_false_r].
Qed.

Lemma popcount_0 : popcount 0 = 0.
Proof. reflexivity. Qed.

(* ---------- trailing zeros ---------- *)
Lemma pos_ctz_spec : forall p,
  N.testbit (Npos p) (pos_ctz p) = true /\ forall j, j < pos_ctz p -> N.testbit (Npos p) j = false.
Proof.
  induction p as [q IH|q IH|]; cbn [pos_ctz].
  - split; [reflexivity|]. intros j Hj. lia.
  - destruct IH as [IH1 IH2]. split.
    + change (N.pos q~0) with (2 * N.pos q). rewrite N.testbit_even_succ by lia. exact IH1.
    + intros j Hj. destruct (N.eq_dec j 0) as [->|Hn]; [reflexivity|].
      replace j with (N.succ (N.pred j)) by lia.
      change (N.pos q~0) with (2 * N.pos q). rewrite N.testbit_even_succ by lia. apply IH2. lia.
  - split; [reflexivity|]. intros j Hj. lia.
Qed.

Lemma tz64_nonzero : forall n, n <> 0 ->
  N.testbit n (tz64 n) = true /\ forall j, j < tz64 n -> N.testbit n j = false.
Proof. intros [|p] H; [congruence|]. apply pos_ctz_spec. Qed.

Lemma tz64_zero : tz64 0 = 64.
Proof. reflexivity. Qed.

(* every bit below tz64 is clear (also for 0, where tz64 = 64 and all bits are clear) *)
Lemma tz64_below : forall n j, j < tz64 n -> N.testbit n j = false.
Proof.
  intros n j H. destruct (N.eq_dec n 0) as [->|Hn]; [apply N.bits_0|].
  apply (tz64_nonzero n Hn). exact H.
Qed.

(* ---------- words below 2^64 ---------- *)
Definition word64 (w : N) : Prop := forall c, 64 <= c -> N.testbit w c = false.

Lemma word64_lt : forall w, w < 2 ^ 64 -> word64 w.
Proof.
  intros w H c Hc. destruct (N.eq_dec w 0) as [->|Hn]; [apply N.bits_0|].
  apply N.bits_above_log2. apply N.log2_lt_pow2 in H; lia.
Qed.

Lemma ones_bits : forall n c, N.testbit (2 ^ n - 1) c = (c <? n).
Proof.
  intros n c. rewrite <- N.pred_sub, <- N.ones_equiv.
  destruct (c <? n) eqn:E.
  - apply N.ones_spec_low. lia.
  - apply N.ones_spec_high. lia.
Qed.

Lemma byte_bits_high : forall b j, b < 256 -> 8 <= j -> N.testbit b j = false.
Proof.
  intros b j Hb Hj. destruct (N.eq_dec b 0) as [->|Hn]; [apply N.bits_0|].
  apply N.bits_above_log2. change 256 with (2 ^ 8) in Hb. apply N.log2_lt_pow2 in Hb; lia.
Qed.

Lemma shiftl_bits : forall b n c, N.testbit (N.shiftl b n) c = if c <? n then false else N.testbit b (c - n).
Proof.
  intros b n c. destruct (c <? n) eqn:E.
  - apply N.shiftl_spec_low. lia.
  - apply N.shiftl_spec_high'. lia.
Qed.

(* ---------- the three column zones of a row ---------- *)
Lemma MW_FF_eq : MW_FF = 255. Proof. reflexivity. Qed.
Lemma MW_FF2_eq : MW_FF2 = 255. Proof. reflexivity. Qed.

Lemma mask64_bits : forall c, N.testbit MASK64 c = (c <? 64).
Proof. intros c. change MASK64 with (2 ^ 64 - 1). apply ones_bits. Qed.

Lemma ff_bits : forall c, N.testbit 255 c = (c <? 8).
Proof. intros c. change 255 with (2 ^ 8 - 1). apply ones_bits. Qed.

(* the pattern of surprising values of a row at window offset [o]:
   early zone (c < o) inverted, window (o <= c < o+8) cleared, late zone kept *)
Lemma fm_pattern_bits : forall o p c, o <= 56 ->
  N.testbit (fm_pattern 255 o p) c =
    if c <? o then negb (N.testbit p c)
    else if c <? o + 8 then false
    else if c <? 64 then N.testbit p c else false.
Proof.
  intros o p c Ho. unfold fm_pattern.
  rewrite N.lxor_spec, N.land_spec, N.lxor_spec, N.land_spec, shiftl_bits, ff_bits, mask64_bits, ones_bits.
  destruct (c <? o) eqn:E1.
  - assert (c <? 64 = true) as -> by lia. cbn [xorb andb]. rewrite andb_true_r. apply xorb_true_r.
  - destruct (c <? o + 8) eqn:E2.
    + assert (c - o <? 8 = true) as -> by lia. assert (c <? 64 = true) as -> by lia.
      cbn [xorb]. rewrite andb_false_r. reflexivity.
    + assert (c - o <? 8 = false) as -> by lia.
      destruct (c <? 64); cbn [xorb]; rewrite ?andb_true_r, ?andb_false_r, xorb_false_r; reflexivity.
Qed.

Lemma fm_pattern_word64 : forall o p, o <= 56 -> word64 (fm_pattern 255 o p).
Proof.
  intros o p Ho c Hc. rewrite fm_pattern_bits by exact Ho.
  assert (c <? o = false) as -> by lia. assert (c <? o + 8 = false) as -> by lia.
  assert (c <? 64 = false) as -> by lia. reflexivity.
Qed.

Lemma window_byte_bits : forall p o j,
  N.testbit (N.land (N.shiftr p o) 255) j = N.testbit p (j + o) && (j <? 8).
Proof. intros p o j. rewrite N.land_spec, N.shiftr_spec', ff_bits. reflexivity. Qed.

Lemma window_byte_lt : forall p o, N.land (N.shiftr p o) 255 < 256.
Proof.
  intros p o. change 255 with (N.ones 8). rewrite N.land_ones. change 256 with (2 ^ 8).
  apply N.mod_lt. discriminate.
Qed.

(* row/col coding *)
Lemma rc_div : forall r c, c < 64 -> (r * 64 + c) / 64 = r.
Proof. intros. lia. Qed.
Lemma rc_mod : forall r c, c < 64 -> (r * 64 + c) mod 64 = c.
Proof. intros. lia. Qed.
Lemma rc_eq : forall x, x = (x / 64) * 64 + x mod 64.
Proof. intros. lia. Qed.
Lemma rc_inj : forall r c r' c', c < 64 -> c' < 64 -> r * 64 + c = r' * 64 + c' -> r = r' /\ c = c'.
Proof. intros. lia. Qed.

(* ---------- lists indexed by N ---------- *)
Lemma set_nth_length : forall {A} n (x : A) l, length (set_nth n x l) = length l.
Proof.
  intros A n x l. revert n. induction l as [|y l IH]; intros [|n]; cbn [set_nth length]; try reflexivity.
  rewrite IH. reflexivity.
Qed.

Lemma set_nth_nth : forall {A} n (x : A) l m d, (n < length l)%nat ->
  nth m (set_nth n x l) d = if Nat.eqb m n then x else nth m l d.
Proof.
  intros A n x l. revert n. induction l as [|y l IH]; intros [|n] m d H; cbn [length] in H; try lia.
  - destruct m; reflexivity.
  - destruct m as [|m]; cbn [set_nth nth Nat.eqb]; [reflexivity|]. apply IH. lia.
Qed.

Lemma set_nthN_length : forall {A} i (x : A) l, length (set_nthN i x l) = length l.
Proof. intros. apply set_nth_length. Qed.

Lemma set_nthN_nthN : forall {A} i (x : A) l j d, i < N.of_nat (length l) ->
  nthN (set_nthN i x l) j d = if j =? i then x else nthN l j d.
Proof.
  intros A i x l j d H. unfold nthN, set_nthN. rewrite set_nth_nth by lia.
  destruct (j =? i) eqn:E.
  - assert (Nat.eqb (N.to_nat j) (N.to_nat i) = true) as -> by (apply Nat.eqb_eq; lia). reflexivity.
  - assert (Nat.eqb (N.to_nat j) (N.to_nat i) = false) as -> by (apply Nat.eqb_neq; lia). reflexivity.
Qed.

Lemma nthN_repeat : forall {A} (x : A) n i d, i < N.of_nat n -> nthN (repeat x n) i d = x.
Proof.
  intros A x n i d H. unfold nthN.
  assert (G : forall n j, (j < n)%nat -> nth j (repeat x n) d = x).
  { clear. induction n as [|n IH]; intros [|j] H; cbn; try lia; [reflexivity|apply IH; lia]. }
  apply G. lia.
Qed.

Lemma nthN_map : forall {A B} (f : A -> B) l i d d', i < N.of_nat (length l) ->
  nthN (map f l) i d' = f (nthN l i d).
Proof.
  intros A B f l i d d' H. unfold nthN.
  rewrite (nth_indep _ d' (f d)) by (rewrite map_length; lia). apply map_nth.
Qed.

Lemma nthN_Forall : forall {A} (P : A -> Prop) l i d, Forall P l -> i < N.of_nat (length l) -> P (nthN l i d).
Proof.
  intros A P l i d HF H. unfold nthN. rewrite Forall_forall in HF. apply HF. apply nth_In. lia.
Qed.

Lemma pair_eqb : forall x r c, c < 64 -> (x =? r * 64 + c) = ((r =? x / 64) && (x mod 64 =? c)).
Proof. intros. lia. Qed.

(* ---------- xor_bit: flipping the table's bits into the matrix ---------- *)
Lemma xor_bit_length : forall m rc, length (xor_bit m rc) = length m.
Proof. intros. unfold xor_bit. apply set_nthN_length. Qed.

Lemma xor_bit_row : forall m rc r, rc / 64 < N.of_nat (length m) ->
  nthN (xor_bit m rc) r 0 = if r =? rc / 64 then N.lxor (nthN m r 0) (2 ^ (rc mod 64)) else nthN m r 0.
Proof.
  intros m rc r H. unfold xor_bit. rewrite set_nthN_nthN by exact H.
  destruct (r =? rc / 64) eqn:E; [apply N.eqb_eq in E; subst; reflexivity|reflexivity].
Qed.

Lemma fold_xor_length : forall t m, length (fold_left xor_bit t m) = length m.
Proof.
  induction t as [|x t IH]; intros m; cbn [fold_left]; [reflexivity|].
  rewrite IH. apply xor_bit_length.
Qed.

Lemma fold_xor_bits : forall t m, NoDup t -> (forall x, In x t -> x / 64 < N.of_nat (length m)) ->
  forall r c,
  N.testbit (nthN (fold_left xor_bit t m) r 0) c =
    if c <? 64 then xorb (N.testbit (nthN m r 0) c) (memN (r * 64 + c) t)
    else N.testbit (nthN m r 0) c.
Proof.
  induction t as [|x t IH]; intros m ND Hr r c; cbn [fold_left].
  - cbn [memN existsb]. rewrite xorb_false_r. destruct (c <? 64); reflexivity.
  - inversion ND as [|? ? Hx ND']; subst.
    rewrite IH; [|exact ND'|intros y Hy; rewrite xor_bit_length; apply Hr; right; exact Hy].
    rewrite xor_bit_row by (apply Hr; left; reflexivity).
    destruct (c <? 64) eqn:Ec.
    + rewrite memN_cons, (N.eqb_sym (r * 64 + c) x), pair_eqb by lia.
      destruct (r =? x / 64) eqn:E1; cbn [andb].
      * rewrite N.lxor_spec, N.pow2_bits_eqb.
        destruct (x mod 64 =? c) eqn:E2; cbn [orb].
        -- assert (memN (r * 64 + c) t = false) as ->.
           { apply memN_false. intros Hin. apply Hx. replace x with (r * 64 + c) by lia. exact Hin. }
           rewrite xorb_false_r. reflexivity.
        -- rewrite xorb_false_r. reflexivity.
      * reflexivity.
    + destruct (r =? x / 64) eqn:E1; [|reflexivity].
      rewrite N.lxor_spec, N.pow2_bits_eqb. assert (x mod 64 =? c = false) as -> by lia.
      apply xorb_false_r.
Qed.

(* ---------- OR of a list of words ---------- *)
Lemma fold_lor_bits : forall l a c,
  N.testbit (fold_left N.lor l a) c = N.testbit a c || existsb (fun p => N.testbit p c) l.
Proof.
  induction l as [|p l IH]; intros a c; cbn [fold_left existsb].
  - rewrite orb_false_r. reflexivity.
  - rewrite IH, N.lor_spec, orb_assoc. reflexivity.
Qed.

(* ---------- lists of words are determined by their bits ---------- *)
Lemma list_eq_nth : forall (l l' : list N), length l = length l' ->
  (forall i, (i < length l)%nat -> nth i l 0 = nth i l' 0) -> l = l'.
Proof.
  induction l as [|x l IH]; intros [|y l'] HL H; cbn [length] in *; try lia; [reflexivity|].
  f_equal.
  - apply (H 0%nat). lia.
  - apply IH; [lia|]. intros i Hi. apply (H (S i)). lia.
Qed.

Lemma list_eq_bits : forall (l l' : list N), length l = length l' ->
  (forall r c, r < N.of_nat (length l) -> N.testbit (nthN l r 0) c = N.testbit (nthN l' r 0) c) -> l = l'.
Proof.
  intros l l' HL H. apply list_eq_nth; [exact HL|]. intros i Hi.
  apply N.bits_inj. intros c. specialize (H (N.of_nat i) c ltac:(lia)).
  unfold nthN in H. rewrite Nat2N.id in H. exact H.
Qed.

(* ---------- the pairs listed by the from_matrix loop ---------- *)
Lemma fm_pairs_In : forall pats i x, Forall word64 pats ->
  (In x (fm_pairs i pats) <->
   i <= x / 64 /\ x / 64 < i + N.of_nat (length pats) /\ N.testbit (nthN pats (x / 64 - i) 0) (x mod 64) = true).
Proof.
  induction pats as [|p pats IH]; intros i x HF; cbn [fm_pairs].
  - cbn [In length]. split; [tauto|]. intros [H1 [H2 _]]. lia.
  - inversion HF as [|? ? Hp HF']; subst. rewrite in_app_iff, in_map_iff, (IH (i + 1) x HF').
    cbn [length]. split.
    + intros [[c [E Hc]]|[H1 [H2 H3]]].
      * apply bits_of_spec in Hc.
        assert (c < 64). { destruct (N.lt_ge_cases c 64) as [L|L]; [exact L|]. rewrite (Hp c L) in Hc. discriminate. }
        subst x. rewrite rc_div, rc_mod by assumption. split; [lia|]. split; [lia|].
        rewrite N.sub_diag. exact Hc.
      * split; [lia|]. split; [lia|].
        unfold nthN in *. replace (N.to_nat (x / 64 - i)) with (S (N.to_nat (x / 64 - (i + 1)))) by lia.
        exact H3.
    + intros [H1 [H2 H3]]. destruct (N.eq_dec (x / 64) i) as [E|E].
      * left. exists (x mod 64). split; [rewrite <- E; symmetry; apply rc_eq|].
        apply bits_of_spec. rewrite E, N.sub_diag in H3. exact H3.
      * right. split; [lia|]. split; [lia|].
        unfold nthN in *. replace (N.to_nat (x / 64 - i)) with (S (N.to_nat (x / 64 - (i + 1)))) in H3 by lia.
        exact H3.
Qed.

Lemma fm_pairs_NoDup : forall pats i, Forall word64 pats -> NoDup (fm_pairs i pats).
Proof.
  induction pats as [|p pats IH]; intros i HF; cbn [fm_pairs]; [constructor|].
  inversion HF as [|? ? Hp HF']; subst.
  assert (Hlt : forall c, In c (bits_of p) -> c < 64).
  { intros c Hc. apply bits_of_spec in Hc. destruct (N.lt_ge_cases c 64) as [L|L]; [exact L|].
    rewrite (Hp c L) in Hc. discriminate. }
  assert (ND1 : NoDup (map (fun c => i * 64 + c) (bits_of p))).
  { pose proof (bits_of_NoDup p) as ND. revert Hlt ND. generalize (bits_of p). clear.
    induction l as [|a l IH]; intros Hlt ND; cbn [map]; [constructor|].
    inversion ND as [|? ? Ha ND']; subst. constructor.
    - rewrite in_map_iff. intros [c [E Hc]]. assert (c = a) by lia. subst. contradiction.
    - apply IH; [intros c Hc; apply Hlt; right; exact Hc|exact ND']. }
  revert ND1. generalize (IH (i + 1) HF').
  intros ND2 ND1.
  assert (Hdisj : forall x, In x (map (fun c => i * 64 + c) (bits_of p)) -> ~ In x (fm_pairs (i + 1) pats)).
  { intros x Hx Hx2. apply in_map_iff in Hx. destruct Hx as [c [E Hc]]. apply Hlt in Hc.
    apply (fm_pairs_In pats (i + 1) x HF') in Hx2. subst x. rewrite rc_div in Hx2 by exact Hc. lia. }
  revert ND1 Hdisj. generalize (map (fun c => i * 64 + c) (bits_of p)).
  induction l as [|a l IHl]; intros ND1 Hdisj; cbn [app]; [exact ND2|].
  inversion ND1 as [|? ? Ha ND1']; subst. constructor.
  - rewrite in_app_iff. intros [H|H]; [contradiction|]. apply (Hdisj a); [left; reflexivity|exact H].
  - apply IHl; [exact ND1'|]. intros x Hx. apply Hdisj. right. exact Hx.
Qed.

(* ---------- small facts about bytes and single bits ---------- *)
Lemma lt_pow2_bits : forall w n, (forall c, n <= c -> N.testbit w c = false) -> w < 2 ^ n.
Proof.
  intros w n H. destruct (N.eq_dec w 0) as [->|Hn]; [apply N.neq_0_lt_0, N.pow_nonzero; discriminate|].
  apply N.log2_lt_pow2; [lia|].
  destruct (N.lt_ge_cases (N.log2 w) n) as [L|L]; [exact L|].
  specialize (H (N.log2 w) L). rewrite (N.bit_log2 w Hn) in H. discriminate.
Qed.

Lemma lor_bit_byte : forall b j, b < 256 -> j < 8 -> N.lor b (2 ^ j) < 256.
Proof.
  intros b j Hb Hj. change 256 with (2 ^ 8). apply lt_pow2_bits. intros c Hc.
  rewrite N.lor_spec, N.pow2_bits_eqb, byte_bits_high by (try exact Hb; lia).
  assert (j =? c = false) as -> by lia. reflexivity.
Qed.

Lemma lor_bit_same : forall w j, (w =? N.lor w (2 ^ j)) = N.testbit w j.
Proof.
  intros w j. destruct (N.testbit w j) eqn:E.
  - rewrite lor_bit_already by exact E. apply N.eqb_refl.
  - apply N.eqb_neq. intros H. rewrite H, N.lor_spec, N.pow2_bits_eqb, N.eqb_refl, orb_true_r in E. discriminate.
Qed.
