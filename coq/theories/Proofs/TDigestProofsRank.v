(* TDigestView::rank over exact rationals: case characterisation, range, end values, monotonicity. *)
From Coq Require Import QArith Qabs Lia Lqa Qfield.
From DS Require Import Base.Prelude Model.TDigest Spec.TDigestSpec Proofs.TDigestProofsBase.
Open Scope Q_scope.

Lemma wdelta cs l u : (l <= u)%nat ->
  inject_Z (sumw (firstn (u - l) (skipn l cs))) - c_w (nthc cs l) / 2 + c_w (nthc cs u) / 2
  == centre cs u - centre cs l.
Proof.
  intros H. unfold centre. rewrite (W_split cs l u H), inject_Z_plus. q2. lra.
Qed.

(* the weight attributed to the sample at min / max: min(1, w/2) *)
Definition atm (c : centroid) : Q := fmin (c_w c / 2) 1.

Lemma atm_bounds c : 1 # 2 <= atm c /\ atm c <= 1 /\ atm c <= c_w c / 2.
Proof.
  unfold atm, fmin. pose proof (c_w_ge1 c) as H. destruct (Qltb 1 (c_w c / 2)) eqn:E; qb E; q2; repeat split; lra.
Qed.

Lemma atm_heavy c : 1 < c_w c -> atm c == 1.
Proof.
  intros H. apply c_w_gt1 in H. apply c_w_ge2 in H. unfold atm, fmin.
  destruct (Qltb 1 (c_w c / 2)) eqn:E; qb E; q2; lra.
Qed.

Section Rank.
Variable v : view.
Hypothesis Hwf : wf_view v.
Notation cs := (v_cs v).
Notation n := (length (v_cs v)).
Notation T := (tq v).
Notation m i := (c_mean (nthc (v_cs v) i)).
Notation w i := (c_w (nthc (v_cs v) i)).
Notation C i := (centre (v_cs v) i).

Lemma n_pos : (1 <= n)%nat. Proof. apply wf_len; auto. Qed.
Lemma Hsorted : sortedP cs. Proof. apply wf_sorted; auto. Qed.
Lemma T_sum : T == inject_Z (sumw cs). Proof. unfold tq. rewrite (wf_total _ Hwf). reflexivity. Qed.
Lemma T_ge_n : inject_Z (Z.of_nat n) <= T. Proof. apply wf_T_ge; auto. Qed.
Lemma T_pos : 1 <= T.
Proof. pose proof T_ge_n as H. pose proof n_pos as Hn. assert (1 <= inject_Z (Z.of_nat n)); [|lra].
  change 1 with (inject_Z 1). rewrite <- Zle_Qle. lia. Qed.
Lemma T_ge2 : (2 <= n)%nat -> 2 <= T.
Proof. intros Hn. pose proof T_ge_n as H. assert (2 <= inject_Z (Z.of_nat n)); [|lra].
  change 2 with (inject_Z 2). rewrite <- Zle_Qle. lia. Qed.
Lemma min_le_m0 : v_min v <= m 0. Proof. apply (wf_min _ Hwf). Qed.
Lemma mlast_le_max : m (n - 1) <= v_max v. Proof. apply (wf_max _ Hwf). Qed.
Lemma m_mono i j : (i <= j)%nat -> (j < n)%nat -> m i <= m j.
Proof. apply sortedP_nth, Hsorted. Qed.
Lemma min_le_max : v_min v <= v_max v.
Proof. pose proof min_le_m0. pose proof mlast_le_max. pose proof n_pos. pose proof (m_mono 0 (n - 1) ltac:(lia) ltac:(lia)). lra. Qed.

Lemma C0 : C 0 == w 0 / 2. Proof. apply centre_0. Qed.
Lemma Clast : C (n - 1) == T - w (n - 1) / 2.
Proof. rewrite T_sum. apply centre_last. apply (wf_ne _ Hwf). Qed.
Lemma C_le i j : (i <= j)%nat -> (j < n)%nat -> C i <= C j. Proof. apply centre_le. Qed.
Lemma w_le_T i : (i < n)%nat -> w i <= T.
Proof. intros H. rewrite T_sum. unfold c_w. rewrite <- Zle_Qle. apply sumw_ge_nth; auto. Qed.
Lemma w2_le_T i j : (i < j)%nat -> (j < n)%nat -> w i + w j <= T.
Proof. intros H1 H2. rewrite T_sum. unfold c_w. rewrite <- inject_Z_plus, <- Zle_Qle. apply sumw_ge_two; auto. Qed.

(* ---------------- the interior branch ---------------- *)
(* either x is a mean and l..u is the maximal block of centroids with that mean (answer: midpoint of the
   two centres), or x lies strictly between the means of l and u = l+1 (linear interpolation of centres) *)
Definition inner_desc (x r : Q) (l u : nat) : Prop :=
  (m l == x /\ m u == x /\ (forall i, (i < l)%nat -> m i < x) /\ (forall i, (u < i)%nat -> (i < n)%nat -> x < m i) /\
   r * T == (C l + C u) / 2) \/
  (u = S l /\ m l < x /\ x < m u /\
   exists t, t * (m u - m l) == x - m l /\ r * T == C l + (C u - C l) * t).

Lemma rank_interior_char x : m 0 <= x -> x <= m (n - 1) ->
  exists l u r, (l <= u)%nat /\ (u < n)%nat /\ rank_interior v x = Ok r /\ inner_desc x r l u.
Proof.
  intros H0 H1. pose proof n_pos as Hn. pose proof Hsorted as Hs. pose proof T_pos as HT.
  unfold rank_interior. fold (pl cs x) (pu cs x).
  pose proof (pl_le_pu cs x Hs) as Hab. pose proof (pl_len cs x) as Ha. pose proof (pu_len cs x) as Hb.
  set (a := pl cs x) in *. set (b := pu cs x) in *.
  assert (Han : (a < n)%nat).
  { destruct (Nat.eq_dec a n) as [E|E]; [|lia]. pose proof (pl_below cs x (n - 1)%nat ltac:(fold a; lia)). lra. }
  assert (Hb0 : (0 < b)%nat).
  { destruct (Nat.eq_dec b 0) as [E|E]; [|lia]. pose proof (pu_at cs x ltac:(fold b; lia)) as H. fold b in H. rewrite E in H. lra. }
  replace (a =? n)%nat with false by (symmetry; apply Nat.eqb_neq; lia).
  replace (b =? 0)%nat with false by (symmetry; apply Nat.eqb_neq; lia).
  destruct (Nat.eq_dec a b) as [Eab|Nab].
  - (* x is not a mean: between a-1 and a *)
    assert (Hxa : x < m a) by (rewrite Eab; apply pu_at; fold b; lia).
    assert (Hax : m (a - 1) < x) by (apply pl_below; fold a; lia).
    assert (E1 : Qltb x (m a) = true) by (apply Qltb_true; auto). rewrite E1.
    replace (a =? 0)%nat with false by (symmetry; apply Nat.eqb_neq; lia). cbn [andb].
    replace (b =? n)%nat with false by (symmetry; apply Nat.eqb_neq; lia). cbn [orb].
    assert (E2 : Qle_bool x (m (b - 1)) = false) by (apply Qleb_false; rewrite <- Eab; auto). rewrite E2.
    rewrite <- Eab.
    assert (E3 : Qltb 0 (m a - m (a - 1)) = true) by (apply Qltb_true; lra). rewrite E3.
    exists (a - 1)%nat, a. eexists. split; [lia|]. split; [lia|]. split; [reflexivity|]. right.
    split; [lia|]. split; [auto|]. split; [auto|].
    exists ((x - m (a - 1)) / (m a - m (a - 1))). split.
    + field. lra.
    + rewrite (wdelta cs (a - 1) a ltac:(lia)). change (inject_Z (sumw (firstn (a - 1) cs)) + w (a - 1) / 2) with (C (a - 1)).
      field. split; lra.
  - (* x is a mean: the block a .. b-1 *)
    assert (Hax : m a <= x) by (apply pu_below; fold b; lia).
    assert (Hxa : x <= m a) by (apply pl_at; fold a; lia).
    assert (Hbx : m (b - 1) <= x) by (apply pu_below; fold b; lia).
    assert (Hxb : x <= m (b - 1)) by (apply (pl_above cs x); auto; fold a; lia).
    assert (E1 : Qltb x (m a) = false) by (apply Qltb_false; auto). rewrite E1. cbn [andb].
    assert (E2 : Qle_bool x (m (b - 1)) = true) by (apply Qle_bool_iff; auto). rewrite E2, orb_true_r.
    assert (E3 : Qltb 0 (m (b - 1) - m a) = false) by (apply Qltb_false; lra). rewrite E3.
    exists a, (b - 1)%nat. eexists. split; [lia|]. split; [lia|]. split; [reflexivity|]. left.
    split; [lra|]. split; [lra|].
    split; [intros i Hi; apply pl_below; fold a; lia|].
    split; [intros i Hi Hi2; apply (pu_above cs x); auto; fold b; lia|].
    rewrite (wdelta cs a (b - 1) ltac:(lia)). change (inject_Z (sumw (firstn a cs)) + w a / 2) with (C a).
    field. lra.
Qed.

(* ---------------- the cases of rank ---------------- *)
Inductive rank_case (x r : Q) : Prop :=
| RC_below : x < v_min v -> r == 0 -> rank_case x r
| RC_above : v_min v <= x -> v_max v < x -> r == 1 -> rank_case x r
| RC_single : v_min v <= x -> x <= v_max v -> n = 1%nat -> r == 1 # 2 -> rank_case x r
| RC_left t : (2 <= n)%nat -> v_min v <= x -> x < m 0 ->
    t * (m 0 - v_min v) == x - v_min v -> 0 <= t -> t < 1 ->
    ((t == 0 /\ r * T == atm (nthc cs 0) / 2) \/
     (0 < t /\ r * T == atm (nthc cs 0) + t * (w 0 / 2 - atm (nthc cs 0)))) -> rank_case x r
| RC_right t : (2 <= n)%nat -> m (n - 1) < x -> x <= v_max v ->
    t * (v_max v - m (n - 1)) == v_max v - x -> 0 <= t -> t < 1 ->
    ((t == 0 /\ r * T == T - atm (nthc cs (n - 1)) / 2) \/
     (0 < t /\ r * T == T - (atm (nthc cs (n - 1)) + t * (w (n - 1) / 2 - atm (nthc cs (n - 1)))))) -> rank_case x r
| RC_inner l u : (2 <= n)%nat -> (l <= u)%nat -> (u < n)%nat -> m 0 <= x -> x <= m (n - 1) ->
    inner_desc x r l u -> rank_case x r.

Lemma rank_cases x : exists r, rank v x = Ok (Some r) /\ rank_case x r.
Proof.
  pose proof n_pos as Hn. pose proof T_pos as HT. pose proof min_le_m0 as Hmin. pose proof mlast_le_max as Hmax.
  unfold rank. destruct (v_cs v) as [|c0 rest] eqn:Ecs; [cbn in Hn; lia|]. rewrite <- Ecs in Hn, Hmin, Hmax |- *.
  assert (Ec0 : c0 = nthc cs 0) by (rewrite Ecs; reflexivity). rewrite Ec0. clear Ec0.
  destruct (Qltb x (v_min v)) eqn:E1; qb E1.
  { eexists; split; [reflexivity|]. apply RC_below; auto. reflexivity. }
  destruct (Qltb (v_max v) x) eqn:E2; qb E2.
  { eexists; split; [reflexivity|]. apply RC_above; auto. reflexivity. }
  destruct (n =? 1)%nat eqn:E3.
  { apply Nat.eqb_eq in E3. eexists; split; [reflexivity|]. apply RC_single; auto. reflexivity. }
  apply Nat.eqb_neq in E3. assert (Hn2 : (2 <= n)%nat) by lia.
  destruct (Qltb x (m 0)) eqn:E4; qb E4.
  { (* left tail *)
    assert (E5 : Qltb 0 (m 0 - v_min v) = true) by (apply Qltb_true; lra). rewrite E5. cbv zeta. fold (atm (nthc cs 0)).
    eexists; split; [reflexivity|].
    apply (RC_left _ _ ((x - v_min v) / (m 0 - v_min v))); auto.
    - field. lra.
    - apply Qle_shift_div_l; lra.
    - apply Qlt_shift_div_r; lra.
    - destruct (Qeq_bool x (v_min v)) eqn:E6; qb E6.
      + left. split; [rewrite E6; field; lra|]. field. lra.
      + right. split; [apply Qlt_shift_div_l; lra|]. field. lra. }
  destruct (Qltb (m (n - 1)) x) eqn:E5; qb E5.
  { (* right tail *)
    assert (E6 : Qltb 0 (v_max v - m (n - 1)) = true) by (apply Qltb_true; lra). rewrite E6. cbv zeta. fold (atm (nthc cs (n - 1))).
    eexists; split; [reflexivity|].
    apply (RC_right _ _ ((v_max v - x) / (v_max v - m (n - 1)))); auto.
    - field. lra.
    - apply Qle_shift_div_l; lra.
    - apply Qlt_shift_div_r; lra.
    - destruct (Qeq_bool x (v_max v)) eqn:E7; qb E7.
      + left. split; [rewrite E7; field; lra|]. field. lra.
      + right. split; [apply Qlt_shift_div_l; lra|]. field. lra. }
  destruct (rank_interior_char x E4 E5) as (l & u & r & Hlu & Hun & Hr & Hc).
  rewrite Hr. cbn [obind]. eexists; split; [reflexivity|]. apply (RC_inner _ _ l u); auto.
Qed.

Lemma rank_total x : exists r, rank v x = Ok (Some r).
Proof. destruct (rank_cases x) as (r & H & _). eauto. Qed.

Lemma rank_case_of x r : rank v x = Ok (Some r) -> rank_case x r.
Proof. intros H. destruct (rank_cases x) as (r' & H' & Hc). rewrite H in H'. inversion H'; subst. exact Hc. Qed.

Lemma rank_below_min x : x < v_min v -> rank v x = Ok (Some 0).
Proof.
  intros H. pose proof n_pos as Hn. unfold rank. destruct (v_cs v) as [|c0 rest]; [cbn in Hn; lia|].
  apply Qltb_true in H. rewrite H. reflexivity.
Qed.

Lemma rank_above_max x : v_max v < x -> rank v x = Ok (Some 1).
Proof.
  intros H. pose proof n_pos as Hn. pose proof min_le_max as Hmm. unfold rank. destruct (v_cs v) as [|c0 rest]; [cbn in Hn; lia|].
  assert (E : Qltb x (v_min v) = false) by (apply Qltb_false; lra). rewrite E.
  apply Qltb_true in H. rewrite H. reflexivity.
Qed.

(* from r * T == e to bounds on r *)
Lemma scale_le r r' : r * T <= r' * T -> r <= r'.
Proof. pose proof T_pos as HT. intros H. nra. Qed.

Lemma inner_bounds x r l u : (l <= u)%nat -> (u < n)%nat -> inner_desc x r l u ->
  C l <= r * T /\ r * T <= C u.
Proof.
  intros Hlu Hun Hc. pose proof (C_le l u Hlu Hun) as HC.
  destruct Hc as [(_ & _ & _ & _ & Hr)|(_ & Hlx & Hxu & t & Ht & Hr)].
  - rewrite Hr. q2. split; lra.
  - assert (0 <= t /\ t <= 1) as [Ht0 Ht1] by (split; nra). rewrite Hr. split; nra.
Qed.

Lemma C_ge_half i : (i < n)%nat -> 1 # 2 <= C i.
Proof.
  intros H. pose proof (C_le 0 i ltac:(lia) H) as A1. pose proof C0 as A2. pose proof (c_w_ge1 (nthc cs 0)) as A3. q2. lra.
Qed.

Lemma C_le_T i : (i < n)%nat -> C i <= T - (1 # 2).
Proof.
  intros H. pose proof (C_le i (n - 1) ltac:(lia) ltac:(lia)) as A1. pose proof Clast as A2. pose proof (c_w_ge1 (nthc cs (n - 1))) as A3. q2. lra.
Qed.

Theorem rank_range x r : rank v x = Ok (Some r) -> 0 <= r /\ r <= 1.
Proof.
  intros H. apply rank_case_of in H. pose proof T_pos as HT.
  destruct H as [? Hr|? ? Hr|? ? ? Hr|t Hn2 ? ? Ht Ht0 Ht1 Hr|t Hn2 ? ? Ht Ht0 Ht1 Hr|l u Hn2 Hlu Hun ? ? Hc].
  - rewrite Hr. lra.
  - rewrite Hr. lra.
  - rewrite Hr. lra.
  - pose proof (T_ge2 Hn2). pose proof (c_w_ge1 (nthc cs 0)). pose proof (w_le_T 0 ltac:(lia)).
    destruct (atm_bounds (nthc cs 0)) as (S1 & S2 & S3). set (s0 := atm (nthc cs 0)) in *.
    assert (0 <= r * T /\ r * T <= T) as [A B]; [|split; nra].
    destruct Hr as [[_ Hr]|[_ Hr]]; rewrite Hr; q2; split; try lra; nra.
  - pose proof (T_ge2 Hn2). pose proof (c_w_ge1 (nthc cs (n - 1))). pose proof (w_le_T (n - 1) ltac:(lia)).
    destruct (atm_bounds (nthc cs (n - 1))) as (S1 & S2 & S3). set (s0 := atm (nthc cs (n - 1))) in *.
    assert (0 <= r * T /\ r * T <= T) as [A B]; [|split; nra].
    destruct Hr as [[_ Hr]|[_ Hr]]; rewrite Hr; q2; split; try lra; nra.
  - destruct (inner_bounds x r l u Hlu Hun Hc) as [A B].
    pose proof (C_ge_half l ltac:(lia)). pose proof (C_le_T u Hun). split; nra.
Qed.

(* ---------------- monotonicity ---------------- *)
Lemma left_bounds r t : (2 <= n)%nat -> 0 <= t -> t < 1 ->
  ((t == 0 /\ r * T == atm (nthc cs 0) / 2) \/ (0 < t /\ r * T == atm (nthc cs 0) + t * (w 0 / 2 - atm (nthc cs 0)))) ->
  r * T <= C 0.
Proof.
  intros Hn2 Ht0 Ht1 Hr. destruct (atm_bounds (nthc cs 0)) as (S1 & S2 & S3). set (s0 := atm (nthc cs 0)) in *. rewrite C0.
  destruct Hr as [[_ Hr]|[_ Hr]]; rewrite Hr; q2; nra.
Qed.

Lemma right_bounds r t : (2 <= n)%nat -> 0 <= t -> t < 1 ->
  ((t == 0 /\ r * T == T - atm (nthc cs (n - 1)) / 2) \/
   (0 < t /\ r * T == T - (atm (nthc cs (n - 1)) + t * (w (n - 1) / 2 - atm (nthc cs (n - 1)))))) -> C (n - 1) <= r * T.
Proof.
  intros Hn2 Ht0 Ht1 Hr. destruct (atm_bounds (nthc cs (n - 1))) as (S1 & S2 & S3). set (s0 := atm (nthc cs (n - 1))) in *. rewrite Clast.
  destruct Hr as [[_ Hr]|[_ Hr]]; rewrite Hr; q2; nra.
Qed.

Theorem rank_mono x y r r' : x <= y -> rank v x = Ok (Some r) -> rank v y = Ok (Some r') -> r <= r'.
Proof.
  intros Hxy Hx Hy. destruct (rank_range x r Hx) as [Rx0 Rx1]. destruct (rank_range y r' Hy) as [Ry0 Ry1].
  apply rank_case_of in Hx. apply rank_case_of in Hy. pose proof T_pos as HT.
  pose proof min_le_m0 as Hmin. pose proof mlast_le_max as Hmax. pose proof n_pos as Hn.
  pose proof (m_mono 0 (n - 1) ltac:(lia) ltac:(lia)) as Hm0l.
  destruct Hx as [? Hr|? ? Hr|? ? En Hr|t Hn2 X1 X2 Ht Ht0 Ht1 Hr|t Hn2 X1 X2 Ht Ht0 Ht1 Hr|l u Hn2 Hlu Hun X1 X2 Hc].
  - rewrite Hr. lra.
  - destruct Hy as [? Hr'|? ? Hr'|? ? ? Hr'|t' ? Y1 Y2 Ht' Ht0' Ht1' Hr'|t' ? Y1 Y2 Ht' Ht0' Ht1' Hr'|l' u' ? Hlu' Hun' Y1 Y2 Hc'];
      lra.
  - destruct Hy as [? Hr'|? ? Hr'|? ? ? Hr'|t' ? Y1 Y2 Ht' Ht0' Ht1' Hr'|t' ? Y1 Y2 Ht' Ht0' Ht1' Hr'|l' u' ? Hlu' Hun' Y1 Y2 Hc'];
      try lra; lia.
  - (* x in the left tail *)
    pose proof (left_bounds r t Hn2 Ht0 Ht1 Hr) as HB.
    destruct Hy as [? Hr'|? ? Hr'|? ? ? Hr'|t' ? Y1 Y2 Ht' Ht0' Ht1' Hr'|t' ? Y1 Y2 Ht' Ht0' Ht1' Hr'|l' u' ? Hlu' Hun' Y1 Y2 Hc'].
    + lra.
    + lra.
    + lia.
    + apply scale_le. destruct (atm_bounds (nthc cs 0)) as (S1 & S2 & S3). set (s0 := atm (nthc cs 0)) in *.
      assert (t <= t') by (apply (div_mono t t' (m 0 - v_min v) (x - v_min v) (y - v_min v)); auto; lra).
      destruct Hr as [[E Hr]|[E Hr]], Hr' as [[E' Hr']|[E' Hr']]; rewrite Hr, Hr'; q2; try lra; nra.
    + apply scale_le. pose proof (right_bounds r' t' Hn2 Ht0' Ht1' Hr'). pose proof (C_le 0 (n - 1) ltac:(lia) ltac:(lia)). lra.
    + apply scale_le. destruct (inner_bounds y r' l' u' Hlu' Hun' Hc') as [A B].
      pose proof (C_le 0 l' ltac:(lia) ltac:(lia)). lra.
  - (* x in the right tail *)
    pose proof (right_bounds r t Hn2 Ht0 Ht1 Hr) as HB.
    destruct Hy as [? Hr'|? ? Hr'|? ? ? Hr'|t' ? Y1 Y2 Ht' Ht0' Ht1' Hr'|t' ? Y1 Y2 Ht' Ht0' Ht1' Hr'|l' u' ? Hlu' Hun' Y1 Y2 Hc'].
    + lra.
    + lra.
    + lia.
    + lra.
    + apply scale_le. destruct (atm_bounds (nthc cs (n - 1))) as (S1 & S2 & S3). set (s0 := atm (nthc cs (n - 1))) in *.
      assert (t' <= t) by (apply (div_mono t' t (v_max v - m (n - 1)) (v_max v - y) (v_max v - x)); auto; lra).
      destruct Hr as [[E Hr]|[E Hr]], Hr' as [[E' Hr']|[E' Hr']]; rewrite Hr, Hr'; q2; try lra; nra.
    + lra.
  - (* x in the interior *)
    destruct (inner_bounds x r l u Hlu Hun Hc) as [A B].
    destruct Hy as [? Hr'|? ? Hr'|? ? ? Hr'|t' ? Y1 Y2 Ht' Ht0' Ht1' Hr'|t' ? Y1 Y2 Ht' Ht0' Ht1' Hr'|l' u' ? Hlu' Hun' Y1 Y2 Hc'].
    + lra.
    + lra.
    + lia.
    + lra.
    + apply scale_le. pose proof (right_bounds r' t' Hn2 Ht0' Ht1' Hr'). pose proof (C_le u (n - 1) ltac:(lia) ltac:(lia)). lra.
    + apply scale_le. destruct (inner_bounds y r' l' u' Hlu' Hun' Hc') as [A' B'].
      destruct (Nat.le_gt_cases u l') as [Hul|Hul].
      { pose proof (C_le u l' Hul ltac:(lia)). lra. }
      (* l' < u: only possible when both sit in the same block or the same gap *)
      destruct Hc as [(Ml & Mu & Xl & Xu & Hr)|(Eu & Mlx & Mxu & tx & Htx & Hr)];
      destruct Hc' as [(Ml' & Mu' & Xl' & Xu' & Hr')|(Eu' & Mlx' & Mxu' & ty & Hty & Hr')].
      * pose proof (m_mono l' u ltac:(lia) Hun). assert (Exy : x == y) by lra.
        assert (l = l').
        { destruct (Nat.lt_trichotomy l l') as [Hc|[Hc|Hc]]; auto.
          - specialize (Xl' l Hc). lra.
          - specialize (Xl l' Hc). lra. }
        assert (u = u').
        { destruct (Nat.lt_trichotomy u u') as [Hc|[Hc|Hc]]; auto.
          - specialize (Xu u' Hc Hun'). lra.
          - specialize (Xu' u Hc Hun). lra. }
        subst l' u'. rewrite Hr, Hr'. lra.
      * pose proof (m_mono u' u ltac:(lia) Hun). lra.
      * pose proof (m_mono l' l ltac:(lia) ltac:(lia)). lra.
      * assert (l' = l).
        { destruct (Nat.eq_dec l' l) as [|Hne]; auto. pose proof (m_mono u' l ltac:(lia) ltac:(lia)). lra. }
        subst l' u' u.
        pose proof (C_le l (S l) Hlu Hun). assert (tx <= ty) by (apply (div_mono tx ty (m (S l) - m l) (x - m l) (y - m l)); auto; lra). rewrite Hr, Hr'. nra.
Qed.

End Rank.
