(* t-digest serialization: round trip (C11), the reader is total, never stuck, and what it accepts is
   well-shaped with allocation justified by the input (C14), image size (C18). *)
From DS Require Import Base.Prelude Base.Bytes Base.TDigestBits Model.TDigestCodec.
From DS Require Gen.GenTDigest Gen.GenCodec.
From Coq Require Import ZifyBool ZifyNat ZifyN.
Open Scope N_scope.

Definition P64 : N := 18446744073709551616.

(* ---------------- readers on freshly written fields ---------------- *)
Lemma rd_le_app n x rest : x < 256 ^ N.of_nat n -> rd_le n (le_bytes n x ++ rest) = Ok (x, rest).
Proof.
  intros H. unfold rd_le. rewrite app_length, le_bytes_length.
  replace (n + length rest <? n)%nat with false by (symmetry; apply Nat.ltb_ge; lia).
  rewrite firstn_app_exact, skipn_app_exact by apply le_bytes_length.
  rewrite le_val_le_bytes_small by auto. reflexivity.
Qed.

Lemma rd_le_byte b rest : rd_le 1 (b :: rest) = Ok (b, rest).
Proof. unfold rd_le. cbn [length Nat.ltb Nat.leb firstn skipn le_val]. f_equal. f_equal. lia. Qed.

Lemma rd_be_app n x rest : x < 256 ^ N.of_nat n -> rd_be n (rev (le_bytes n x) ++ rest) = Ok (x, rest).
Proof.
  intros H. unfold rd_be. rewrite app_length, rev_length, le_bytes_length.
  replace (n + length rest <? n)%nat with false by (symmetry; apply Nat.ltb_ge; lia).
  rewrite firstn_app_exact, skipn_app_exact by (rewrite rev_length; apply le_bytes_length).
  rewrite rev_involutive, le_val_le_bytes_small by auto. reflexivity.
Qed.

Lemma p8 : 256 ^ N.of_nat 8 = P64. Proof. reflexivity. Qed.
Lemma p4 : 256 ^ N.of_nat 4 = 4294967296. Proof. reflexivity. Qed.
Lemma p2 : 256 ^ N.of_nat 2 = 65536. Proof. reflexivity. Qed.

(* ---------------- flags ---------------- *)
Definition flagsN (e sg r : bool) : N := (if e then F_EMPTY else 0) + (if sg then F_SINGLE else 0) + (if r then F_REV else 0).
Lemma flag_empty e sg r : negb (N.land (flagsN e sg r) F_EMPTY =? 0) = e.
Proof. destruct e, sg, r; reflexivity. Qed.
Lemma flag_single e sg r : negb (N.land (flagsN e sg r) F_SINGLE =? 0) = sg.
Proof. destruct e, sg, r; reflexivity. Qed.
Lemma flag_rev e sg r : negb (N.land (flagsN e sg r) F_REV =? 0) = r.
Proof. destruct e, sg, r; reflexivity. Qed.

(* ---------------- serializable states ---------------- *)
Definition centroid_ok (c : N * N) : Prop := fst c < P64 /\ finite_ok (fst c) = true /\ 1 <= snd c /\ snd c < P64.

Record wfb (s : tdb) : Prop := {
  wb_k : MINK <= b_k s /\ b_k s < 65536;
  wb_buf : b_buf s = [];                                   (* serialize() compresses first *)
  wb_cs : Forall centroid_ok (b_cs s);
  wb_n : N.of_nat (length (b_cs s)) < 4294967296;
  wb_cw : b_cw s = sumwN (b_cs s) /\ b_cw s < P64;
  wb_min : b_min s < P64 /\ is_nan64 (b_min s) = false;
  wb_max : b_max s < P64 /\ is_nan64 (b_max s) = false;
  wb_empty : b_cs s = [] -> b_min s = PINF /\ b_max s = NINF /\ b_rev s = false;
  wb_single : b_cw s = 1 -> b_cs s = [(b_min s, 1)] /\ b_max s = b_min s
}.

Lemma sumwN_cons c cs : sumwN (c :: cs) = snd c + sumwN cs.
Proof. reflexivity. Qed.

Lemma flat_centroids_length cs : length (flat_map enc_centroid cs) = (16 * length cs)%nat.
Proof.
  induction cs as [|c cs IH]; [reflexivity|]. cbn [flat_map length]. unfold enc_centroid at 1.
  rewrite !app_length, !le_bytes_length, IH. lia.
Qed.

Lemma read_centroids_flat : forall cs rest cw,
  Forall centroid_ok cs -> cw + sumwN cs < P64 ->
  read_centroids false (length cs) (flat_map enc_centroid cs ++ rest) cw = Ok (cs, cw + sumwN cs, rest).
Proof.
  induction cs as [|c cs IH]; intros rest cw Hall Hs.
  - replace (cw + sumwN []) with cw by (unfold sumwN; cbn [fold_right]; lia). reflexivity.
  - inversion Hall as [|? ? (H1 & H2 & H3 & H4) Hall']; subst.
    rewrite sumwN_cons in Hs. cbn [length read_centroids flat_map]. unfold enc_centroid at 1. rewrite <- !app_assoc.
    unfold rd_float_le. rewrite rd_le_app by (rewrite p8; exact H1). cbn [obind fst snd].
    rewrite rd_le_app by (rewrite p8; exact H4). cbn [obind fst snd].
    rewrite H2. cbn [negb].
    replace (snd c =? 0) with false by lia.
    replace (U64MAX <? cw + snd c) with false by (unfold U64MAX, P64 in *; lia).
    rewrite IH by (auto; lia). cbn [obind]. rewrite sumwN_cons.
    replace (cw + snd c + sumwN cs) with (cw + (snd c + sumwN cs)) by lia. destruct c. reflexivity.
Qed.

(* ---------------- C11: deserialize (serialize s) = s ---------------- *)
Ltac flag_eval :=
  repeat match goal with
         | |- context [negb (N.land ?a ?b =? 0)] =>
             let v := eval vm_compute in (negb (N.land a b =? 0)) in change (negb (N.land a b =? 0)) with v
         end.
Ltac rd1 := rewrite rd_le_byte; cbn [obind fst snd].

Theorem tdb_roundtrip s : wfb s -> tdb_dec false (tdb_enc s) = Ok s.
Proof.
  intros [[Hk1 Hk2] Hbuf Hcs Hn [Hcw Hcwb] [Hmin Hminn] [Hmax Hmaxn] Hempty Hsingle].
  destruct s as [k rv mn mx cs cw buf]. cbn [b_k b_rev b_min b_max b_cs b_cw b_buf] in *. subst buf.
  unfold tdb_enc, enc_flags, tdb_is_empty, tdb_is_single, tdb_total.
  cbn [b_k b_rev b_min b_max b_cs b_cw b_buf length].
  replace (cw + N.of_nat 0) with cw by lia.
  assert (HM : MINK = 10) by reflexivity.
  destruct cs as [|c0 cs'].
  - (* empty *)
    destruct (Hempty eq_refl) as (-> & -> & ->). unfold sumwN in Hcw. cbn [fold_right] in Hcw. subst cw.
    change (0 <=? 1) with true. change (0 =? 1) with false. cbn [app]. unfold tdb_dec.
    do 3 rd1. rewrite !N.eqb_refl. cbn [negb].
    rewrite rd_le_app by (rewrite p2; lia). cbn [obind fst snd].
    replace (k <? MINK) with false by lia.
    rd1. flag_eval. cbn [orb]. rewrite N.eqb_refl. cbn [negb].
    rewrite rd_le_app by (rewrite p2; lia). cbn [obind fst snd].
    reflexivity.
  - destruct (N.eqb_spec cw 1) as [E1|E1].
    + (* single value *)
      destruct (Hsingle E1) as [Ecs Emx]. inversion Ecs; subst c0 cs'. subst mx. clear Hcw. subst cw.
      change (1 <=? 1) with true. destruct rv; cbn [app]; unfold tdb_dec.
      all: do 3 rd1; rewrite !N.eqb_refl; cbn [negb].
      all: rewrite rd_le_app by (rewrite p2; lia); cbn [obind fst snd].
      all: replace (k <? MINK) with false by lia.
      all: rd1; flag_eval; cbn [orb]; rewrite N.eqb_refl; cbn [negb].
      all: rewrite rd_le_app by (rewrite p2; lia); cbn [obind fst snd].
      all: unfold rd_float_le; rewrite (app_nil_end (le_bytes 8 mn)); rewrite rd_le_app by (rewrite p8; lia); cbn [obind fst snd].
      all: inversion Hcs as [|? ? (_ & Hf & _) _]; subst; cbn [fst] in Hf; rewrite Hf; cbn [negb]; reflexivity.
    + (* general form *)
      assert (Hc2 : 2 <= cw).
      { inversion Hcs as [|? ? (_ & _ & Hw & _) Hall']; subst. rewrite sumwN_cons in *.
        destruct cs' as [|c1 cs''].
        - unfold sumwN in *. cbn [fold_right] in *. lia.
        - inversion Hall' as [|? ? (_ & _ & Hw1 & _) _]; subst. rewrite sumwN_cons in *. lia. }
      replace (cw <=? 1) with false by lia. destruct rv; cbn [app]; unfold tdb_dec.
      all: do 3 rd1; rewrite !N.eqb_refl; cbn [negb].
      all: rewrite rd_le_app by (rewrite p2; lia); cbn [obind fst snd].
      all: replace (k <? MINK) with false by lia.
      all: rd1; flag_eval; cbn [orb]; rewrite N.eqb_refl; cbn [negb].
      all: rewrite rd_le_app by (rewrite p2; lia); cbn [obind fst snd].
      all: rewrite rd_le_app by (rewrite p4; exact Hn); cbn [obind fst snd].
      all: rewrite rd_le_app by (rewrite p4; lia); cbn [obind fst snd].
      all: unfold rd_float_le; rewrite rd_le_app by (rewrite p8; lia); cbn [obind fst snd].
      all: rewrite rd_le_app by (rewrite p8; lia); cbn [obind fst snd].
      all: rewrite Hminn, Hmaxn; cbn [orb].
      all: rewrite flat_centroids_length.
      all: replace (N.of_nat (16 * length (c0 :: cs')) <? N.of_nat (length (c0 :: cs')) * (8 + 8) + 0 * 8) with false by lia.
      all: rewrite Nat2N.id.
      all: rewrite (app_nil_end (flat_map enc_centroid (c0 :: cs'))).
      all: rewrite read_centroids_flat by (auto; lia); cbn [obind]; cbv beta iota.
      all: replace (U64MAX <? 0 + sumwN (c0 :: cs') + 0) with false by (unfold U64MAX, P64 in *; lia).
      all: change (N.to_nat 0) with 0%nat; cbn [read_values obind fst snd].
      all: replace (0 + sumwN (c0 :: cs')) with cw by lia; reflexivity.
Qed.

Lemma tdb_reserialize s s' : wfb s -> tdb_dec false (tdb_enc s) = Ok s' -> tdb_enc s' = tdb_enc s.
Proof. intros W H. rewrite (tdb_roundtrip s W) in H. congruence. Qed.

(* example used in Props/C11_tdigest.v: k = 100, reverse_merge set, centroids (1.0, w1) (2.5, w7) (4.0, w1) *)
Definition c11_example_state : tdb :=
  mkTdb 100 true 0x3ff0000000000000 0x4010000000000000
        [(0x3ff0000000000000, 1); (0x4004000000000000, 7); (0x4010000000000000, 1)] 9 [].

(* ---------------- C14: never stuck ---------------- *)
Lemma obind_ns {A B} (x : outcome A) (f : A -> outcome B) :
  x <> Stuck -> (forall a, f a <> Stuck) -> obind x f <> Stuck.
Proof. intros Hx Hf. destruct x; cbn [obind]; auto; discriminate. Qed.

Lemma rd_le_ns n bs : rd_le n bs <> Stuck.
Proof. unfold rd_le. destruct (_ <? _)%nat; discriminate. Qed.
Lemma rd_be_ns n bs : rd_be n bs <> Stuck.
Proof. unfold rd_be. destruct (_ <? _)%nat; discriminate. Qed.
Lemma rd_float_ns f bs : rd_float_le f bs <> Stuck.
Proof. unfold rd_float_le. destruct f; [apply obind_ns; [apply rd_le_ns|discriminate]|apply rd_le_ns]. Qed.

Ltac ns :=
  repeat first
    [ discriminate
    | progress cbv zeta
    | apply rd_le_ns | apply rd_be_ns | apply rd_float_ns
    | apply obind_ns; [|intros ?]
    | match goal with |- (if ?c then _ else _) <> Stuck => destruct c end
    | match goal with |- (match ?p with _ => _ end) <> Stuck => destruct p end ].

Lemma read_centroids_ns f : forall n bs cw, read_centroids f n bs cw <> Stuck.
Proof. induction n as [|n IH]; intros bs cw; cbn [read_centroids]; ns. apply IH. Qed.
Lemma read_values_ns f : forall n bs, read_values f n bs <> Stuck.
Proof. induction n as [|n IH]; intros bs; cbn [read_values]; ns. apply IH. Qed.
Lemma read_compat_ns f : forall n bs cw, read_compat f n bs cw <> Stuck.
Proof. induction n as [|n IH]; intros bs cw; cbn [read_compat]; ns. apply IH. Qed.

Lemma dec_compat_ns bs : tdb_dec_compat bs <> Stuck.
Proof. unfold tdb_dec_compat. cbv zeta. ns; apply read_compat_ns. Qed.

Theorem tdb_dec_never_stuck f bs : tdb_dec f bs <> Stuck.
Proof.
  unfold tdb_dec. cbv zeta. ns; try apply dec_compat_ns; try apply read_centroids_ns; try apply read_values_ns;
    try apply read_compat_ns.
Qed.

(* ---------------- C14: whatever is accepted is well-shaped ---------------- *)
Lemma rd_le_len n bs v r : rd_le n bs = Ok (v, r) -> (length r + n = length bs)%nat.
Proof. unfold rd_le. destruct (Nat.ltb_spec (length bs) n); [discriminate|]. intros E. inversion E; subst. rewrite skipn_length. lia. Qed.
Lemma rd_be_len n bs v r : rd_be n bs = Ok (v, r) -> (length r + n = length bs)%nat.
Proof. unfold rd_be. destruct (Nat.ltb_spec (length bs) n); [discriminate|]. intros E. inversion E; subst. rewrite skipn_length. lia. Qed.
Lemma rd_float_len f bs v r : rd_float_le f bs = Ok (v, r) -> (length r + (if f then 4 else 8) = length bs)%nat.
Proof.
  unfold rd_float_le. destruct f.
  - destruct (rd_le 4 bs) as [[v0 r0]| |] eqn:E; cbn [obind]; try discriminate. intros H; inversion H; subst. apply rd_le_len in E. cbn [snd]. lia.
  - intros H. apply rd_le_len in H. lia.
Qed.

Definition value_ok (b : N) : Prop := finite_ok b = true.

Lemma read_centroids_shape f : forall n bs cw cs cw' rest,
  read_centroids f n bs cw = Ok (cs, cw', rest) ->
  length cs = n /\ cw' = cw + sumwN cs /\
  Forall (fun c => value_ok (fst c) /\ 1 <= snd c) cs /\ (cw <= U64MAX -> cw' <= U64MAX) /\
  (length rest + (if f then 8 else 16) * n = length bs)%nat.
Proof.
  induction n as [|n IH]; intros bs cw cs cw' rest H; cbn [read_centroids] in H.
  - inversion H; subst. cbn [sumwN fold_right length]. repeat split; auto; lia.
  - destruct (rd_float_le f bs) as [[m r1]| |] eqn:E1; cbn [obind fst snd] in H; try discriminate.
    destruct (rd_le (if f then 4 else 8) r1) as [[w r2]| |] eqn:E2; cbn [obind fst snd] in H; try discriminate.
    destruct (finite_ok m) eqn:Ef; cbn [negb] in H; [|discriminate].
    destruct (N.eqb_spec w 0); [discriminate|].
    destruct (N.ltb_spec U64MAX (cw + w)); [discriminate|].
    destruct (read_centroids f n r2 (cw + w)) as [[[cs0 cw0] rest0]| |] eqn:E3; cbn [obind] in H; try discriminate.
    inversion H; subst. apply IH in E3 as (L & S1 & F & B & Len).
    assert (Hlen : (length r2 + (if f then 8 else 16) = length bs)%nat).
    { apply rd_float_len in E1. apply rd_le_len in E2. destruct f; lia. }
    rewrite sumwN_cons. cbn [fst snd length]. repeat split; auto; try lia.
    constructor; [cbn [fst snd]; split; [exact Ef|lia]|exact F].
Qed.

Lemma read_values_shape f : forall n bs vs rest,
  read_values f n bs = Ok (vs, rest) -> length vs = n /\ Forall value_ok vs /\ (length rest + (if f then 4 else 8) * n = length bs)%nat.
Proof.
  induction n as [|n IH]; intros bs vs rest H; cbn [read_values] in H.
  - inversion H; subst. repeat split; auto; cbn; lia.
  - destruct (rd_float_le f bs) as [[v r1]| |] eqn:E1; cbn [obind fst snd] in H; try discriminate.
    destruct (finite_ok v) eqn:Ef; cbn [negb] in H; [|discriminate].
    destruct (read_values f n r1) as [[vs0 rest0]| |] eqn:E3; cbn [obind fst snd] in H; try discriminate.
    inversion H; subst. apply IH in E3 as (L & F & Len).
    assert (Hlen : (length r1 + (if f then 4 else 8) = length bs)%nat) by (apply rd_float_len in E1; exact E1).
    cbn [length]. repeat split; auto; try lia.
Qed.

Lemma read_compat_shape f : forall n bs cw cs cw',
  read_compat f n bs cw = Ok (cs, cw') ->
  length cs = n /\ cw' = cw + sumwN cs /\ Forall (fun c => value_ok (fst c) /\ 1 <= snd c) cs /\
  (cw <= U64MAX -> cw' <= U64MAX) /\ ((if f then 8 else 16) * n <= length bs)%nat.
Proof.
  induction n as [|n IH]; intros bs cw cs cw' H; cbn [read_compat] in H.
  - inversion H; subst. cbn [sumwN fold_right length]. repeat split; auto; lia.
  - destruct (rd_be (if f then 4%nat else 8%nat) bs) as [[w r1]| |] eqn:E1; cbn [obind fst snd] in H; try discriminate.
    destruct (rd_be (if f then 4%nat else 8%nat) r1) as [[m r2]| |] eqn:E2; cbn [obind fst snd] in H; try discriminate.
    set (wv := uint_of_f64 U64MAX (if f then f64_of_f32 w else w)) in *.
    set (mv := if f then f64_of_f32 m else m) in *.
    destruct (N.eqb_spec wv 0); [discriminate|].
    destruct (finite_ok mv) eqn:Ef; cbn [negb] in H; [|discriminate].
    destruct (N.ltb_spec U64MAX (cw + wv)); [discriminate|].
    destruct (read_compat f n r2 (cw + wv)) as [[cs0 cw0]| |] eqn:E3; cbn [obind fst snd] in H; try discriminate.
    inversion H; subst. apply IH in E3 as (L & S1 & F & B & Len).
    assert (Hlen : (length r2 + (if f then 8 else 16) = length bs)%nat).
    { apply rd_be_len in E1, E2. destruct f; lia. }
    rewrite sumwN_cons. cbn [fst snd length]. repeat split; auto; try lia.
    constructor; [cbn [fst snd]; split; [exact Ef|lia]|exact F].
Qed.

(* what an accepted image is: the shape every later operation relies on *)
Record shaped (s : tdb) (inlen : nat) : Prop := {
  sh_k : MINK <= b_k s;
  sh_cs : Forall (fun c => value_ok (fst c) /\ 1 <= snd c) (b_cs s);
  sh_buf : Forall value_ok (b_buf s);
  sh_cw : b_cw s = sumwN (b_cs s);
  sh_total : tdb_total s <= U64MAX;                       (* total_weight() cannot overflow *)
  sh_minmax : tdb_is_empty s = false -> is_nan64 (b_min s) = false /\ is_nan64 (b_max s) = false;
  sh_input : (8 * length (b_cs s) + 4 * length (b_buf s) <= inlen)%nat   (* every item was present in the input *)
}.

Theorem dec_compat_shape bs s : tdb_dec_compat bs = Ok s -> shaped s (length bs).
Proof.
  unfold tdb_dec_compat.
  destruct (rd_be 4 bs) as [[ty r0]| |] eqn:E0; cbn [obind fst snd]; try discriminate.
  apply rd_be_len in E0.
  destruct (ty =? COMPAT_DOUBLE).
  - destruct (rd_be 8 r0) as [[mn r1]| |] eqn:E1; cbn [obind fst snd]; try discriminate.
    destruct (rd_be 8 r1) as [[mx r2]| |] eqn:E2; cbn [obind fst snd]; try discriminate.
    destruct (is_nan64 mn || is_nan64 mx) eqn:En; [discriminate|]. apply orb_false_elim in En as [En1 En2].
    destruct (rd_be 8 r2) as [[kb r3]| |] eqn:E3; cbn [obind fst snd]; try discriminate.
    destruct (N.ltb_spec (uint_of_f64 U16MAX kb) MINK); [discriminate|].
    destruct (rd_be 4 r3) as [[n r4]| |] eqn:E4; cbn [obind fst snd]; try discriminate.
    destruct (_ <? _); [discriminate|].
    destruct (read_compat false (N.to_nat n) r4 0) as [[cs cw]| |] eqn:E5; cbn [obind fst snd]; try discriminate.
    intros HH; inversion HH; subst. apply read_compat_shape in E5 as (L & S1 & F & B & Len).
    apply rd_be_len in E1, E2, E3, E4.
    constructor; unfold tdb_total, tdb_is_empty; cbn [b_k b_cs b_buf b_cw b_min b_max length]; auto; try lia.
    all: try (specialize (B ltac:(unfold U64MAX; lia)); lia).
  - destruct (ty =? COMPAT_FLOAT); [|discriminate].
    destruct (rd_be 8 r0) as [[mn r1]| |] eqn:E1; cbn [obind fst snd]; try discriminate.
    destruct (rd_be 8 r1) as [[mx r2]| |] eqn:E2; cbn [obind fst snd]; try discriminate.
    destruct (is_nan64 mn || is_nan64 mx) eqn:En; [discriminate|]. apply orb_false_elim in En as [En1 En2].
    destruct (rd_be 4 r2) as [[kb r3]| |] eqn:E3; cbn [obind fst snd]; try discriminate.
    destruct (N.ltb_spec (uint_of_f64 U16MAX (f64_of_f32 kb)) MINK); [discriminate|].
    destruct (rd_be 4 r3) as [[un r4]| |] eqn:E4; cbn [obind fst snd]; try discriminate.
    destruct (rd_be 2 r4) as [[n r5]| |] eqn:E6; cbn [obind fst snd]; try discriminate.
    destruct (read_compat true (N.to_nat n) r5 0) as [[cs cw]| |] eqn:E5; cbn [obind fst snd]; try discriminate.
    intros HH; inversion HH; subst. apply read_compat_shape in E5 as (L & S1 & F & B & Len).
    apply rd_be_len in E1, E2, E3, E4, E6.
    constructor; unfold tdb_total, tdb_is_empty; cbn [b_k b_cs b_buf b_cw b_min b_max length]; auto; try lia.
    all: try (specialize (B ltac:(unfold U64MAX; lia)); lia).
Qed.

Theorem tdb_dec_shape f bs s : tdb_dec f bs = Ok s -> shaped s (length bs).
Proof.
  unfold tdb_dec.
  destruct (rd_le 1 bs) as [[pre r0]| |] eqn:E0; cbn [obind fst snd]; try discriminate.
  destruct (rd_le 1 r0) as [[ver r1]| |] eqn:E1; cbn [obind fst snd]; try discriminate.
  destruct (rd_le 1 r1) as [[fam r2]| |] eqn:E2; cbn [obind fst snd]; try discriminate.
  destruct (negb (fam =? FAMID)).
  { destruct (_ && _); [apply dec_compat_shape|discriminate]. }
  destruct (negb (ver =? SERVER)); [discriminate|].
  destruct (rd_le 2 r2) as [[k r3]| |] eqn:E3; cbn [obind fst snd]; try discriminate.
  destruct (N.ltb_spec k MINK); [discriminate|].
  destruct (rd_le 1 r3) as [[flags r4]| |] eqn:E4; cbn [obind fst snd]; try discriminate.
  destruct (negb (pre =? _)); [discriminate|].
  destruct (rd_le 2 r4) as [[un r5]| |] eqn:E5; cbn [obind fst snd]; try discriminate.
  apply rd_le_len in E0, E1, E2, E3, E4, E5.
  destruct (negb (N.land flags F_EMPTY =? 0)).
  { intros HH; inversion HH; subst. constructor; cbn; auto; try lia; try discriminate. }
  destruct (negb (N.land flags F_SINGLE =? 0)).
  { destruct (rd_float_le f r5) as [[v r6]| |] eqn:E6; cbn [obind fst snd]; try discriminate.
    destruct (finite_ok v) eqn:Ef; cbn [negb]; [|discriminate].
    intros HH; inversion HH; subst. apply rd_float_len in E6.
    assert (Hlen6 : (4 <= length r5)%nat) by (destruct f; lia).
    unfold finite_ok in Ef. apply andb_prop in Ef as [Ef1 Ef2]. apply negb_true_iff in Ef1.
    constructor; unfold tdb_total, tdb_is_empty, sumwN; cbn [b_k b_cs b_buf b_cw b_min b_max length fold_right fst snd]; auto; try lia.
    - constructor; [|constructor]. split; [unfold value_ok, finite_ok; cbn [fst]; rewrite Ef1, Ef2; reflexivity|cbn; lia].
    - unfold U64MAX. lia. }
  destruct (rd_le 4 r5) as [[nc r6]| |] eqn:E6; cbn [obind fst snd]; try discriminate.
  destruct (rd_le 4 r6) as [[nb r7]| |] eqn:E7; cbn [obind fst snd]; try discriminate.
  destruct (rd_float_le f r7) as [[mn r8]| |] eqn:E8; cbn [obind fst snd]; try discriminate.
  destruct (rd_float_le f r8) as [[mx r9]| |] eqn:E9; cbn [obind fst snd]; try discriminate.
  destruct (is_nan64 mn || is_nan64 mx) eqn:En; [discriminate|]. apply orb_false_elim in En as [En1 En2].
  destruct (_ <? _); [discriminate|].
  destruct (read_centroids f (N.to_nat nc) r9 0) as [[[cs cw] rest]| |] eqn:E10; cbn [obind]; try discriminate.
  destruct (N.ltb_spec U64MAX (cw + nb)); [discriminate|].
  destruct (read_values f (N.to_nat nb) rest) as [[vs rest']| |] eqn:E11; cbn [obind fst snd]; try discriminate.
  intros HH; inversion HH; subst.
  apply read_centroids_shape in E10 as (L & S1 & F & B & Len).
  apply read_values_shape in E11 as (L2 & F2 & Len2).
  apply rd_le_len in E6, E7. apply rd_float_len in E8, E9.
  constructor; unfold tdb_total, tdb_is_empty; cbn [b_k b_cs b_buf b_cw b_min b_max]; auto; try lia.
  destruct f; lia.
Qed.

(* the sizes the readers hand to Vec::with_capacity are covered by the input *)
Theorem tdb_requests_linear f bs : tdb_requests f bs <= 2 * N.of_nat (length bs).
Proof.
  unfold tdb_requests. destruct (nth 2 bs 0 =? FAMID).
  - set (nc := le_val _). set (nb := le_val _). destruct f.
    + destruct (N.ltb_spec (N.of_nat (length bs) - (16 + 4 + 4)) (nc * (4 + 4) + nb * 4)); lia.
    + destruct (N.ltb_spec (N.of_nat (length bs) - (16 + 8 + 8)) (nc * (8 + 8) + nb * 8)); lia.
  - set (n := le_val _). destruct (N.ltb_spec (N.of_nat (length bs) - 32) (n * 16)); lia.
Qed.

(* ---------------- C18: the image size is a function of the number of centroids ---------------- *)
Theorem tdb_image_size s : b_buf s = [] ->
  length (tdb_enc s) =
  if tdb_is_empty s then 8%nat else if tdb_is_single s then 16%nat else (32 + 16 * length (b_cs s))%nat.
Proof.
  intros Hb. unfold tdb_enc. rewrite !app_length, !le_bytes_length. cbn [length].
  destruct (tdb_is_empty s); [cbn [length]; lia|].
  destruct (tdb_is_single s); [rewrite le_bytes_length; lia|].
  rewrite !app_length, !le_bytes_length, flat_centroids_length. lia.
Qed.
