(* t-digest serialization: round trip (C11), the reader is total, never stuck, and what it accepts is
   well-shaped with allocation justified by the input (C14), image size (C18). *)
From DS Require Import Base.Prelude Base.Bytes Base.TDigestBits Model.TDigestCodec.
From DS Require Gen.GenTDigest Gen.GenCodec.
From Coq Require Import ZifyBool ZifyNat ZifyN.
Open Scope N_scope.

Definition P64 : N := 18446744073709551616.

(* ---------------- readers on freshly written fields ---------------- *)
Lemma rd_le_app n x rest : x < 256 ^ N.of_nat n -> rd_le n (le_bytes n x ++ rest) = Ok (x, rest).
Proof.
  intros H. unfold rd_le. rewrite app_length, le_bytes_length.
  replace (n + length rest <? n)%nat with false by (symmetry; apply Nat.ltb_ge; lia).
  rewrite firstn_app_exact, skipn_app_exact by apply le_bytes_length.
  rewrite le_val_le_bytes_small by auto. reflexivity.
Qed.

Lemma rd_le_byte b rest : rd_le 1 (b :: rest) = Ok (b, rest).
Proof. unfold rd_le. cbn [length Nat.ltb Nat.leb firstn skipn le_val]. f_equal. f_equal. lia. Qed.

Lemma rd_be_app n x rest : x < 256 ^ N.of_nat n -> rd_be n (rev (le_bytes n x) ++ rest) = Ok (x, rest).
Proof.
  intros H. unfold rd_be. rewrite app_length, rev_length, le_bytes_length.
  replace (n + length rest <? n)%nat with false by (symmetry; apply Nat.ltb_ge; lia).
  rewrite firstn_app_exact, skipn_app_exact by (rewrite rev_length; apply le_bytes_length).
  rewrite rev_involutive, le_val_le_bytes_small by auto. reflexivity.
Qed.

Lemma p8 : 256 ^ N.of_nat 8 = P64. Proof. reflexivity. Qed.
Lemma p4 : 256 ^ N.of_nat 4 = 4294967296. Proof. reflexivity. Qed.
Lemma p2 : 256 ^ N.of_nat 2 = 65536. Proof. reflexivity. Qed.

(* ---------------- flags ---------------- *)
Definition flagsN (e sg r : bool) : N := (if e then F_EMPTY else 0) + (if sg then F_SINGLE else 0) + (if r then F_REV else 0).
Lemma flag_empty e sg r : negb (N.land (flagsN e sg r) F_EMPTY =? 0) = e.
Proof. destruct e, sg, r; reflexivity. Qed.
Lemma flag_single e sg r : negb (N.land (flagsN e sg r) F_SINGLE =? 0) = sg.
Proof. destruct e, sg, r; reflexivity. Qed.
Lemma flag_rev e sg r : negb (N.land (flagsN e sg r) F_REV =? 0) = r.
Proof. destruct e, sg, r; reflexivity. Qed.

(* ---------------- TDigestMut::make ---------------- *)
Lemma make_ok k rv mn mx cs cw buf : (k <? MINK) = false -> (cs <> [] \/ buf <> []) ->
  tdb_make k rv mn mx cs cw buf = Ok (mkTdb k rv mn mx cs cw buf).
Proof.
  intros Hk Hne. unfold tdb_make. rewrite Hk. destruct cs as [|c cs]; [|reflexivity]. destruct buf as [|b buf]; [|reflexivity].
  destruct Hne; congruence.
Qed.

Lemma make_new k rv mn mx cw : (k <? MINK) = false -> tdb_make k rv mn mx [] cw [] = Ok (mkTdb k rv PINF NINF [] cw []).
Proof. intros Hk. unfold tdb_make. rewrite Hk. reflexivity. Qed.

Lemma make_ns k rv mn mx cs cw buf : (k <? MINK) = false -> tdb_make k rv mn mx cs cw buf <> Stuck.
Proof. intros Hk. unfold tdb_make. rewrite Hk. destruct cs, buf; discriminate. Qed.

Lemma make_inv k rv mn mx cs cw buf s : tdb_make k rv mn mx cs cw buf = Ok s ->
  MINK <= k /\ b_k s = k /\ b_rev s = rv /\ b_cs s = cs /\ b_cw s = cw /\ b_buf s = buf /\
  ((cs = [] /\ buf = [] /\ b_min s = PINF /\ b_max s = NINF) \/ ((cs <> [] \/ buf <> []) /\ b_min s = mn /\ b_max s = mx)).
Proof.
  unfold tdb_make. destruct (N.ltb_spec k MINK) as [|Hk]; [discriminate|].
  destruct cs as [|c cs]; [destruct buf as [|b buf]|]; intros E; injection E; intros <-;
    cbn [b_k b_rev b_min b_max b_cs b_cw b_buf]; repeat split; auto.
  - right. split; [right; discriminate|auto].
  - right. split; [left; discriminate|auto].
Qed.

Definition no_items_b (cs : list (N * N)) (buf : list N) : bool := match cs, buf with [], [] => true | _, _ => false end.
Lemma make_eq k rv mn mx cs cw buf s : tdb_make k rv mn mx cs cw buf = Ok s ->
  MINK <= k /\ s = mkTdb k rv (if no_items_b cs buf then PINF else mn) (if no_items_b cs buf then NINF else mx) cs cw buf.
Proof.
  unfold tdb_make. destruct (N.ltb_spec k MINK) as [|Hk]; [discriminate|].
  destruct cs as [|c cs]; [destruct buf as [|b buf]|]; intros E; split; auto; cbn [no_items_b]; congruence.
Qed.

(* ---------------- serializable states ---------------- *)
Definition centroid_ok (c : N * N) : Prop := fst c < P64 /\ finite_ok (fst c) = true /\ 1 <= snd c /\ snd c < P64.

Record wfb (s : tdb) : Prop := {
  wb_k : MINK <= b_k s /\ b_k s < 65536;
  wb_buf : b_buf s = [];                                   (* serialize() compresses first *)
  wb_cs : Forall centroid_ok (b_cs s);
  wb_n : N.of_nat (length (b_cs s)) < 4294967296;
  wb_cw : b_cw s = sumwN (b_cs s) /\ b_cw s < P64;
  wb_min : b_min s < P64 /\ is_nan64 (b_min s) = false;
  wb_max : b_max s < P64 /\ is_nan64 (b_max s) = false;
  wb_empty : b_cs s = [] -> b_min s = PINF /\ b_max s = NINF /\ b_rev s = false
}.

Lemma sumwN_cons c cs : sumwN (c :: cs) = snd c + sumwN cs.
Proof. reflexivity. Qed.

Lemma flat_centroids_length cs : length (flat_map enc_centroid cs) = (16 * length cs)%nat.
Proof.
  induction cs as [|c cs IH]; [reflexivity|]. cbn [flat_map length]. unfold enc_centroid at 1.
  rewrite !app_length, !le_bytes_length, IH. lia.
Qed.

Lemma read_centroids_flat : forall cs rest cw,
  Forall centroid_ok cs -> cw + sumwN cs < P64 ->
  read_centroids false (length cs) (flat_map enc_centroid cs ++ rest) cw = Ok (cs, cw + sumwN cs, rest).
Proof.
  induction cs as [|c cs IH]; intros rest cw Hall Hs.
  - replace (cw + sumwN []) with cw by (unfold sumwN; cbn [fold_right]; lia). reflexivity.
  - inversion Hall as [|? ? (H1 & H2 & H3 & H4) Hall']; subst.
    rewrite sumwN_cons in Hs. cbn [length read_centroids flat_map]. unfold enc_centroid at 1. rewrite <- !app_assoc.
    unfold rd_float_le. rewrite rd_le_app by (rewrite p8; exact H1). cbn [obind fst snd].
    rewrite rd_le_app by (rewrite p8; exact H4). cbn [obind fst snd].
    rewrite H2. cbn [negb].
    replace (snd c =? 0) with false by lia.
    replace (U64MAX <? cw + snd c) with false by (unfold U64MAX, P64 in *; lia).
    rewrite IH by (auto; lia). cbn [obind]. rewrite sumwN_cons.
    replace (cw + snd c + sumwN cs) with (cw + (snd c + sumwN cs)) by lia. destruct c. reflexivity.
Qed.

(* ---------------- C11: deserialize (serialize s) = s ---------------- *)
Ltac flag_eval :=
  repeat match goal with
         | |- context [negb (N.land ?a ?b =? 0)] =>
             let v := eval vm_compute in (negb (N.land a b =? 0)) in change (negb (N.land a b =? 0)) with v
         end.
Ltac rd1 := rewrite rd_le_byte; cbn [obind fst snd].

Theorem tdb_roundtrip s : wfb s -> tdb_dec false (tdb_enc s) = Ok s.
Proof.
  intros [[Hk1 Hk2] Hbuf Hcs Hn [Hcw Hcwb] [Hmin Hminn] [Hmax Hmaxn] Hempty].
  destruct s as [k rv mn mx cs cw buf]. cbn [b_k b_rev b_min b_max b_cs b_cw b_buf] in *. subst buf.
  unfold tdb_enc, enc_flags.
  assert (HM : MINK = 10) by reflexivity.
  destruct cs as [|c0 cs'].
  - (* empty *)
    destruct (Hempty eq_refl) as (-> & -> & ->). unfold sumwN in Hcw. cbn [fold_right] in Hcw. subst cw.
    unfold tdb_is_empty, tdb_is_single, tdb_total. cbn [b_k b_rev b_min b_max b_cs b_cw b_buf length].
    change (0 + N.of_nat 0 =? 1) with false. cbn [andb orb]. cbn [app]. unfold tdb_dec.
    do 3 rd1. rewrite !N.eqb_refl. cbn [negb].
    rewrite rd_le_app by (rewrite p2; lia). cbn [obind fst snd].
    replace (k <? MINK) with false by lia.
    rd1. flag_eval. cbn [orb]. rewrite N.eqb_refl. cbn [negb].
    rewrite rd_le_app by (rewrite p2; lia). cbn [obind fst snd].
    apply make_new. apply N.ltb_ge. lia.
  - replace (tdb_is_empty (mkTdb k rv mn mx (c0 :: cs') cw [])) with false by reflexivity. cbn [orb].
    destruct (tdb_is_single (mkTdb k rv mn mx (c0 :: cs') cw [])) eqn:Es;
      cbn [b_k b_rev b_min b_max b_cs b_cw b_buf].
    + (* single value: the one sample is min, max and the centroid *)
      unfold tdb_is_single, tdb_total in Es. cbn [b_min b_max b_cs b_cw b_buf length] in Es.
      apply andb_prop in Es as [Es E3]. apply andb_prop in Es as [E1 E2].
      apply N.eqb_eq in E1, E2, E3. replace (cw + N.of_nat 0) with cw in E1 by lia. subst mx.
      assert (Hone : cs' = [] /\ snd c0 = 1).
      { inversion Hcs as [|? ? (_ & _ & Hw & _) Hall']; subst. rewrite sumwN_cons in *.
        destruct cs' as [|c1 cs''].
        - unfold sumwN in *. cbn [fold_right] in *. split; [reflexivity|lia].
        - inversion Hall' as [|? ? (_ & _ & Hw1 & _) _]; subst. rewrite sumwN_cons in *. lia. }
      destruct Hone as [-> Hw0]. destruct c0 as [m0 w0]. cbn [fst snd] in *. subst m0 w0. subst cw.
      destruct rv; cbn [app]; unfold tdb_dec.
      all: do 3 rd1; rewrite !N.eqb_refl; cbn [negb].
      all: rewrite rd_le_app by (rewrite p2; lia); cbn [obind fst snd].
      all: replace (k <? MINK) with false by lia.
      all: rd1; flag_eval; cbn [orb]; rewrite N.eqb_refl; cbn [negb].
      all: rewrite rd_le_app by (rewrite p2; lia); cbn [obind fst snd].
      all: unfold rd_float_le; rewrite (app_nil_end (le_bytes 8 mn)); rewrite rd_le_app by (rewrite p8; lia); cbn [obind fst snd].
      all: inversion Hcs as [|? ? (_ & Hf & _) _]; subst; cbn [fst] in Hf; rewrite Hf; cbn [negb].
      all: apply make_ok; [apply N.ltb_ge; lia|left; discriminate].
    + (* general form (also for a one-sample digest whose min, max and centroid disagree) *)
      destruct rv; cbn [app]; unfold tdb_dec.
      all: do 3 rd1; rewrite !N.eqb_refl; cbn [negb].
      all: rewrite rd_le_app by (rewrite p2; lia); cbn [obind fst snd].
      all: replace (k <? MINK) with false by lia.
      all: rd1; flag_eval; cbn [orb]; rewrite N.eqb_refl; cbn [negb].
      all: rewrite rd_le_app by (rewrite p2; lia); cbn [obind fst snd].
      all: rewrite rd_le_app by (rewrite p4; exact Hn); cbn [obind fst snd].
      all: rewrite rd_le_app by (rewrite p4; lia); cbn [obind fst snd].
      all: unfold rd_float_le; rewrite rd_le_app by (rewrite p8; lia); cbn [obind fst snd].
      all: rewrite rd_le_app by (rewrite p8; lia); cbn [obind fst snd].
      all: rewrite Hminn, Hmaxn; cbn [orb].
      all: rewrite flat_centroids_length.
      all: replace (N.of_nat (16 * length (c0 :: cs')) <? N.of_nat (length (c0 :: cs')) * (8 + 8) + 0 * 8) with false by lia.
      all: rewrite Nat2N.id.
      all: rewrite (app_nil_end (flat_map enc_centroid (c0 :: cs'))).
      all: rewrite read_centroids_flat by (auto; lia); cbn [obind]; cbv beta iota.
      all: replace (U64MAX <? 0 + sumwN (c0 :: cs') + 0) with false by (unfold U64MAX, P64 in *; lia).
      all: change (N.to_nat 0) with 0%nat; cbn [read_values obind fst snd].
      all: replace (0 + sumwN (c0 :: cs')) with cw by lia; apply make_ok; [apply N.ltb_ge; lia|left; discriminate].
Qed.

Lemma tdb_reserialize s s' : wfb s -> tdb_dec false (tdb_enc s) = Ok s' -> tdb_enc s' = tdb_enc s.
Proof. intros W H. rewrite (tdb_roundtrip s W) in H. congruence. Qed.

(* example used in Props/C11_tdigest.v: k = 100, reverse_merge set, centroids (1.0, w1) (2.5, w7) (4.0, w1) *)
Definition c11_example_state : tdb :=
  mkTdb 100 true 0x3ff0000000000000 0x4010000000000000
        [(0x3ff0000000000000, 1); (0x4004000000000000, 7); (0x4010000000000000, 1)] 9 [].

(* ---------------- C14: never stuck ---------------- *)
Lemma obind_ns {A B} (x : outcome A) (f : A -> outcome B) :
  x <> Stuck -> (forall a, f a <> Stuck) -> obind x f <> Stuck.
Proof. intros Hx Hf. destruct x; cbn [obind]; auto; discriminate. Qed.

Lemma rd_le_ns n bs : rd_le n bs <> Stuck.
Proof. unfold rd_le. destruct (_ <? _)%nat; discriminate. Qed.
Lemma rd_be_ns n bs : rd_be n bs <> Stuck.
Proof. unfold rd_be. destruct (_ <? _)%nat; discriminate. Qed.
Lemma rd_float_ns f bs : rd_float_le f bs <> Stuck.
Proof. unfold rd_float_le. destruct f; [apply obind_ns; [apply rd_le_ns|discriminate]|apply rd_le_ns]. Qed.

Ltac ns :=
  repeat first
    [ discriminate
    | progress cbv zeta
    | apply rd_le_ns | apply rd_be_ns | apply rd_float_ns
    | apply obind_ns; [|intros ?]
    | apply make_ns; assumption
    | match goal with |- (if ?c then _ else _) <> Stuck => destruct c eqn:? end
    | match goal with |- (match ?p with _ => _ end) <> Stuck => destruct p end ].

Lemma read_centroids_ns f : forall n bs cw, read_centroids f n bs cw <> Stuck.
Proof. induction n as [|n IH]; intros bs cw; cbn [read_centroids]; ns. apply IH. Qed.
Lemma read_values_ns f : forall n bs, read_values f n bs <> Stuck.
Proof. induction n as [|n IH]; intros bs; cbn [read_values]; ns. apply IH. Qed.
Lemma read_compat_ns f : forall n bs cw, read_compat f n bs cw <> Stuck.
Proof. induction n as [|n IH]; intros bs cw; cbn [read_compat]; ns. apply IH. Qed.

Lemma dec_compat_ns bs : tdb_dec_compat bs <> Stuck.
Proof. unfold tdb_dec_compat. cbv zeta. ns; apply read_compat_ns. Qed.

Theorem tdb_dec_never_stuck f bs : tdb_dec f bs <> Stuck.
Proof.
  unfold tdb_dec. cbv zeta. ns; try apply dec_compat_ns; try apply read_centroids_ns; try apply read_values_ns;
    try apply read_compat_ns.
Qed.

(* ---------------- C14: whatever is accepted is well-shaped ---------------- *)
Lemma rd_le_len n bs v r : rd_le n bs = Ok (v, r) -> (length r + n = length bs)%nat.
Proof. unfold rd_le. destruct (Nat.ltb_spec (length bs) n); [discriminate|]. intros E. inversion E; subst. rewrite skipn_length. lia. Qed.
Lemma rd_be_len n bs v r : rd_be n bs = Ok (v, r) -> (length r + n = length bs)%nat.
Proof. unfold rd_be. destruct (Nat.ltb_spec (length bs) n); [discriminate|]. intros E. inversion E; subst. rewrite skipn_length. lia. Qed.
Lemma rd_float_len f bs v r : rd_float_le f bs = Ok (v, r) -> (length r + (if f then 4 else 8) = length bs)%nat.
Proof.
  unfold rd_float_le. destruct f.
  - destruct (rd_le 4 bs) as [[v0 r0]| |] eqn:E; cbn [obind]; try discriminate. intros H; inversion H; subst. apply rd_le_len in E. cbn [snd]. lia.
  - intros H. apply rd_le_len in H. lia.
Qed.

Definition value_ok (b : N) : Prop := finite_ok b = true.

Lemma read_centroids_shape f : forall n bs cw cs cw' rest,
  read_centroids f n bs cw = Ok (cs, cw', rest) ->
  length cs = n /\ cw' = cw + sumwN cs /\
  Forall (fun c => value_ok (fst c) /\ 1 <= snd c) cs /\ (cw <= U64MAX -> cw' <= U64MAX) /\
  (length rest + (if f then 8 else 16) * n = length bs)%nat.
Proof.
  induction n as [|n IH]; intros bs cw cs cw' rest H; cbn [read_centroids] in H.
  - inversion H; subst. cbn [sumwN fold_right length]. repeat split; auto; lia.
  - destruct (rd_float_le f bs) as [[m r1]| |] eqn:E1; cbn [obind fst snd] in H; try discriminate.
    destruct (rd_le (if f then 4 else 8) r1) as [[w r2]| |] eqn:E2; cbn [obind fst snd] in H; try discriminate.
    destruct (finite_ok m) eqn:Ef; cbn [negb] in H; [|discriminate].
    destruct (N.eqb_spec w 0); [discriminate|].
    destruct (N.ltb_spec U64MAX (cw + w)); [discriminate|].
    destruct (read_centroids f n r2 (cw + w)) as [[[cs0 cw0] rest0]| |] eqn:E3; cbn [obind] in H; try discriminate.
    inversion H; subst. apply IH in E3 as (L & S1 & F & B & Len).
    assert (Hlen : (length r2 + (if f then 8 else 16) = length bs)%nat).
    { apply rd_float_len in E1. apply rd_le_len in E2. destruct f; lia. }
    rewrite sumwN_cons. cbn [fst snd length]. repeat split; auto; try lia.
    constructor; [cbn [fst snd]; split; [exact Ef|lia]|exact F].
Qed.

Lemma read_values_shape f : forall n bs vs rest,
  read_values f n bs = Ok (vs, rest) -> length vs = n /\ Forall value_ok vs /\ (length rest + (if f then 4 else 8) * n = length bs)%nat.
Proof.
  induction n as [|n IH]; intros bs vs rest H; cbn [read_values] in H.
  - inversion H; subst. repeat split; auto; cbn; lia.
  - destruct (rd_float_le f bs) as [[v r1]| |] eqn:E1; cbn [obind fst snd] in H; try discriminate.
    destruct (finite_ok v) eqn:Ef; cbn [negb] in H; [|discriminate].
    destruct (read_values f n r1) as [[vs0 rest0]| |] eqn:E3; cbn [obind fst snd] in H; try discriminate.
    inversion H; subst. apply IH in E3 as (L & F & Len).
    assert (Hlen : (length r1 + (if f then 4 else 8) = length bs)%nat) by (apply rd_float_len in E1; exact E1).
    cbn [length]. repeat split; auto; try lia.
Qed.

Lemma read_compat_shape f : forall n bs cw cs cw',
  read_compat f n bs cw = Ok (cs, cw') ->
  length cs = n /\ cw' = cw + sumwN cs /\ Forall (fun c => value_ok (fst c) /\ 1 <= snd c) cs /\
  (cw <= U64MAX -> cw' <= U64MAX) /\ ((if f then 8 else 16) * n <= length bs)%nat.
Proof.
  induction n as [|n IH]; intros bs cw cs cw' H; cbn [read_compat] in H.
  - inversion H; subst. cbn [sumwN fold_right length]. repeat split; auto; lia.
  - destruct (rd_be (if f then 4%nat else 8%nat) bs) as [[w r1]| |] eqn:E1; cbn [obind fst snd] in H; try discriminate.
    destruct (rd_be (if f then 4%nat else 8%nat) r1) as [[m r2]| |] eqn:E2; cbn [obind fst snd] in H; try discriminate.
    set (wv := uint_of_f64 U64MAX (if f then f64_of_f32 w else w)) in *.
    set (mv := if f then f64_of_f32 m else m) in *.
    destruct (N.eqb_spec wv 0); [discriminate|].
    destruct (finite_ok mv) eqn:Ef; cbn [negb] in H; [|discriminate].
    destruct (N.ltb_spec U64MAX (cw + wv)); [discriminate|].
    destruct (read_compat f n r2 (cw + wv)) as [[cs0 cw0]| |] eqn:E3; cbn [obind fst snd] in H; try discriminate.
    inversion H; subst. apply IH in E3 as (L & S1 & F & B & Len).
    assert (Hlen : (length r2 + (if f then 8 else 16) = length bs)%nat).
    { apply rd_be_len in E1, E2. destruct f; lia. }
    rewrite sumwN_cons. cbn [fst snd length]. repeat split; auto; try lia.
    constructor; [cbn [fst snd]; split; [exact Ef|lia]|exact F].
Qed.

(* what an accepted image is: the shape every later operation relies on *)
Record shaped (s : tdb) (inlen : nat) : Prop := {
  sh_k : MINK <= b_k s;
  sh_cs : Forall (fun c => value_ok (fst c) /\ 1 <= snd c) (b_cs s);
  sh_buf : Forall value_ok (b_buf s);
  sh_cw : b_cw s = sumwN (b_cs s);
  sh_total : tdb_total s <= U64MAX;                       (* total_weight() cannot overflow *)
  sh_minmax : tdb_is_empty s = false -> is_nan64 (b_min s) = false /\ is_nan64 (b_max s) = false;
  sh_input : (8 * length (b_cs s) + 4 * length (b_buf s) <= inlen)%nat   (* every item was present in the input *)
}.

Lemma shaped_of_make k rv mn mx cs cw buf s inlen : tdb_make k rv mn mx cs cw buf = Ok s ->
  Forall (fun c => value_ok (fst c) /\ 1 <= snd c) cs -> Forall value_ok buf -> cw = sumwN cs ->
  cw + N.of_nat (length buf) <= U64MAX -> is_nan64 mn = false -> is_nan64 mx = false ->
  (8 * length cs + 4 * length buf <= inlen)%nat -> shaped s inlen.
Proof.
  intros HM Fc Fb Ecw' Htot Hmn Hmx Hlen. apply make_inv in HM as (Hk & Ek & Erv & Ecs & Ecw & Ebuf & Hmm).
  constructor; unfold tdb_total, tdb_is_empty; rewrite ?Ek, ?Ecs, ?Ecw, ?Ebuf; auto.
  destruct Hmm as [(A & B & _)|(Hne & Emn & Emx)].
  - subst cs buf. rewrite A, B. discriminate.
  - intros _. rewrite Emn, Emx. auto.
Qed.

Theorem dec_compat_shape bs s : tdb_dec_compat bs = Ok s -> shaped s (length bs).
Proof.
  unfold tdb_dec_compat.
  destruct (rd_be 4 bs) as [[ty r0]| |] eqn:E0; cbn [obind fst snd]; try discriminate.
  apply rd_be_len in E0.
  destruct (ty =? COMPAT_DOUBLE).
  - destruct (rd_be 8 r0) as [[mn r1]| |] eqn:E1; cbn [obind fst snd]; try discriminate.
    destruct (rd_be 8 r1) as [[mx r2]| |] eqn:E2; cbn [obind fst snd]; try discriminate.
    destruct (is_nan64 mn || is_nan64 mx) eqn:En; [discriminate|]. apply orb_false_elim in En as [En1 En2].
    destruct (rd_be 8 r2) as [[kb r3]| |] eqn:E3; cbn [obind fst snd]; try discriminate.
    destruct (N.ltb_spec (uint_of_f64 U16MAX kb) MINK); [discriminate|].
    destruct (rd_be 4 r3) as [[n r4]| |] eqn:E4; cbn [obind fst snd]; try discriminate.
    destruct (_ <? _); [discriminate|].
    destruct (read_compat false (N.to_nat n) r4 0) as [[cs cw]| |] eqn:E5; cbn [obind fst snd]; try discriminate.
    intros HH. apply read_compat_shape in E5 as (L & S1 & F & B & Len).
    apply rd_be_len in E1, E2, E3, E4. specialize (B ltac:(unfold U64MAX; lia)).
    apply (shaped_of_make _ _ _ _ _ _ _ _ _ HH); cbn [length]; auto; lia.
  - destruct (ty =? COMPAT_FLOAT); [|discriminate].
    destruct (rd_be 8 r0) as [[mn r1]| |] eqn:E1; cbn [obind fst snd]; try discriminate.
    destruct (rd_be 8 r1) as [[mx r2]| |] eqn:E2; cbn [obind fst snd]; try discriminate.
    destruct (is_nan64 mn || is_nan64 mx) eqn:En; [discriminate|]. apply orb_false_elim in En as [En1 En2].
    destruct (rd_be 4 r2) as [[kb r3]| |] eqn:E3; cbn [obind fst snd]; try discriminate.
    destruct (N.ltb_spec (uint_of_f64 U16MAX (f64_of_f32 kb)) MINK); [discriminate|].
    destruct (rd_be 4 r3) as [[un r4]| |] eqn:E4; cbn [obind fst snd]; try discriminate.
    destruct (rd_be 2 r4) as [[n r5]| |] eqn:E6; cbn [obind fst snd]; try discriminate.
    destruct (read_compat true (N.to_nat n) r5 0) as [[cs cw]| |] eqn:E5; cbn [obind fst snd]; try discriminate.
    intros HH. apply read_compat_shape in E5 as (L & S1 & F & B & Len).
    apply rd_be_len in E1, E2, E3, E4, E6. specialize (B ltac:(unfold U64MAX; lia)).
    apply (shaped_of_make _ _ _ _ _ _ _ _ _ HH); cbn [length]; auto; lia.
Qed.

Theorem tdb_dec_shape f bs s : tdb_dec f bs = Ok s -> shaped s (length bs).
Proof.
  unfold tdb_dec.
  destruct (rd_le 1 bs) as [[pre r0]| |] eqn:E0; cbn [obind fst snd]; try discriminate.
  destruct (rd_le 1 r0) as [[ver r1]| |] eqn:E1; cbn [obind fst snd]; try discriminate.
  destruct (rd_le 1 r1) as [[fam r2]| |] eqn:E2; cbn [obind fst snd]; try discriminate.
  destruct (negb (fam =? FAMID)).
  { destruct (_ && _); [apply dec_compat_shape|discriminate]. }
  destruct (negb (ver =? SERVER)); [discriminate|].
  destruct (rd_le 2 r2) as [[k r3]| |] eqn:E3; cbn [obind fst snd]; try discriminate.
  destruct (N.ltb_spec k MINK); [discriminate|].
  destruct (rd_le 1 r3) as [[flags r4]| |] eqn:E4; cbn [obind fst snd]; try discriminate.
  destruct (negb (pre =? _)); [discriminate|].
  destruct (rd_le 2 r4) as [[un r5]| |] eqn:E5; cbn [obind fst snd]; try discriminate.
  apply rd_le_len in E0, E1, E2, E3, E4, E5.
  destruct (negb (N.land flags F_EMPTY =? 0)).
  { intros HH. apply (shaped_of_make _ _ _ _ _ _ _ _ _ HH); cbn [length]; auto; try reflexivity; try lia.
    all: try (unfold sumwN, U64MAX; cbn; lia). }
  destruct (negb (N.land flags F_SINGLE =? 0)).
  { destruct (rd_float_le f r5) as [[v r6]| |] eqn:E6; cbn [obind fst snd]; try discriminate.
    destruct (finite_ok v) eqn:Ef; cbn [negb]; [|discriminate].
    intros HH. apply rd_float_len in E6.
    assert (Hlen6 : (4 <= length r5)%nat) by (destruct f; lia).
    assert (Ef' := Ef). unfold finite_ok in Ef'. apply andb_prop in Ef' as [Ef1 Ef2]. apply negb_true_iff in Ef1.
    apply (shaped_of_make _ _ _ _ _ _ _ _ _ HH); cbn [length]; auto; try lia.
    - constructor; [|constructor]. split; [exact Ef|cbn [snd]; lia].
    - unfold U64MAX. lia. }
  destruct (rd_le 4 r5) as [[nc r6]| |] eqn:E6; cbn [obind fst snd]; try discriminate.
  destruct (rd_le 4 r6) as [[nb r7]| |] eqn:E7; cbn [obind fst snd]; try discriminate.
  destruct (rd_float_le f r7) as [[mn r8]| |] eqn:E8; cbn [obind fst snd]; try discriminate.
  destruct (rd_float_le f r8) as [[mx r9]| |] eqn:E9; cbn [obind fst snd]; try discriminate.
  destruct (is_nan64 mn || is_nan64 mx) eqn:En; [discriminate|]. apply orb_false_elim in En as [En1 En2].
  destruct (_ <? _); [discriminate|].
  destruct (read_centroids f (N.to_nat nc) r9 0) as [[[cs cw] rest]| |] eqn:E10; cbn [obind]; try discriminate.
  destruct (N.ltb_spec U64MAX (cw + nb)); [discriminate|].
  destruct (read_values f (N.to_nat nb) rest) as [[vs rest']| |] eqn:E11; cbn [obind fst snd]; try discriminate.
  intros HH.
  apply read_centroids_shape in E10 as (L & S1 & F & B & Len).
  apply read_values_shape in E11 as (L2 & F2 & Len2).
  apply rd_le_len in E6, E7. apply rd_float_len in E8, E9.
  apply (shaped_of_make _ _ _ _ _ _ _ _ _ HH); auto; try lia.
  destruct f; lia.
Qed.

(* ---------------- C14: what the readers ask the allocator for ---------------- *)
(* the instrumented readers have the outcome of the plain ones *)
Ltac lockstep :=
  repeat first
    [ reflexivity
    | match goal with
      | |- context [obind2 ?x _] => destruct x as [[? ?]| |]; cbn [obind obind2 fst snd with_req]
      | |- context [if ?c then _ else _] => destruct c
      end ].

Lemma tdb_dec_compat_req_outcome bs : fst (tdb_dec_compat_req bs) = tdb_dec_compat bs.
Proof. unfold tdb_dec_compat_req, tdb_dec_compat. cbv zeta. lockstep. Qed.

Theorem tdb_dec_req_outcome f bs : fst (tdb_dec_req f bs) = tdb_dec f bs.
Proof. unfold tdb_dec_req, tdb_dec. cbv zeta. lockstep; apply tdb_dec_compat_req_outcome. Qed.

(* the image-sized requests are covered by the input: at most 2 bytes per input byte, plus the
   16 * 65535 bytes the reference float reader may reserve for its u16 count *)
Ltac reqstep :=
  match goal with
  | |- context [obind2 (rd_le ?n ?X) _] =>
      let E := fresh "E" in destruct (rd_le n X) as [[? ?]| |] eqn:E; [apply rd_le_len in E|idtac|idtac]; cbn [obind2 fst snd]
  | |- context [obind2 (rd_be ?n ?X) _] =>
      let E := fresh "E" in destruct (rd_be n X) as [[? ?]| |] eqn:E; [apply rd_be_len in E|idtac|idtac]; cbn [obind2 fst snd]
  | |- context [obind2 (rd_float_le ?f ?X) _] =>
      let E := fresh "E" in destruct (rd_float_le f X) as [[? ?]| |] eqn:E; [apply rd_float_len in E|idtac|idtac]; cbn [obind2 fst snd]
  | |- context [if ?c then _ else _] => let E := fresh "C" in destruct c eqn:E
  end.

Lemma bytes_ok_skipn : forall n l, bytes_ok l = true -> bytes_ok (skipn n l) = true.
Proof.
  induction n as [|n IH]; intros [|x l] H; cbn [skipn]; auto. apply IH. cbn [bytes_ok forallb] in H. apply andb_prop in H. tauto.
Qed.
Lemma bytes_ok_firstn : forall n l, bytes_ok l = true -> bytes_ok (firstn n l) = true.
Proof.
  induction n as [|n IH]; intros [|x l] H; cbn [firstn]; auto. cbn [bytes_ok forallb] in *. apply andb_prop in H as [H1 H2].
  rewrite H1. cbn [andb]. apply IH. exact H2.
Qed.
Lemma bytes_ok_rev l : bytes_ok l = true -> bytes_ok (rev l) = true.
Proof.
  intros H. unfold bytes_ok in *. apply forallb_forall. intros x Hx. apply in_rev in Hx. rewrite forallb_forall in H. auto.
Qed.

Lemma rd_be_bytes n X v r : bytes_ok X = true -> rd_be n X = Ok (v, r) ->
  bytes_ok r = true /\ (length r + n = length X)%nat /\ v < 256 ^ N.of_nat n.
Proof.
  intros Hb E. pose proof (rd_be_len _ _ _ _ E) as L. unfold rd_be in E. destruct (Nat.ltb_spec (length X) n); [discriminate|].
  assert (Ev : v = le_val (rev (firstn n X))) by congruence. assert (Er : r = skipn n X) by congruence. subst.
  split; [apply bytes_ok_skipn; auto|]. split; [exact L|].
  pose proof (le_val_bound (rev (firstn n X)) (bytes_ok_rev _ (bytes_ok_firstn n X Hb))) as B.
  rewrite rev_length, firstn_length in B. replace (Nat.min n (length X)) with n in B by lia. exact B.
Qed.

Lemma compat_req_bound bs : bytes_ok bs = true -> snd (tdb_dec_compat_req bs) <= 2 * N.of_nat (length bs) + 16 * 65535.
Proof.
  intros Hb. unfold tdb_dec_compat_req. cbv zeta.
  destruct (rd_be 4 bs) as [[ty r0]| |] eqn:E0; cbn [obind2 fst snd]; try lia.
  apply rd_be_bytes in E0 as (B0 & L0 & _); auto.
  destruct (ty =? COMPAT_DOUBLE).
  - destruct (rd_be 8 r0) as [[mn r1]| |] eqn:E1; cbn [obind2 fst snd]; try lia. apply rd_be_len in E1.
    destruct (rd_be 8 r1) as [[mx r2]| |] eqn:E2; cbn [obind2 fst snd]; try lia. apply rd_be_len in E2.
    destruct (_ || _); cbn [snd]; try lia.
    destruct (rd_be 8 r2) as [[kb r3]| |] eqn:E3; cbn [obind2 fst snd]; try lia. apply rd_be_len in E3.
    destruct (_ <? MINK); cbn [snd]; try lia.
    destruct (rd_be 4 r3) as [[n r4]| |] eqn:E4; cbn [obind2 fst snd]; try lia. apply rd_be_len in E4.
    destruct (N.ltb_spec (N.of_nat (length r4)) (n * 16)); cbn [with_req snd]; lia.
  - destruct (ty =? COMPAT_FLOAT); cbn [snd]; try lia.
    destruct (rd_be 8 r0) as [[mn r1]| |] eqn:E1; cbn [obind2 fst snd]; try lia. apply rd_be_bytes in E1 as (B1 & L1 & _); auto.
    destruct (rd_be 8 r1) as [[mx r2]| |] eqn:E2; cbn [obind2 fst snd]; try lia. apply rd_be_bytes in E2 as (B2 & L2 & _); auto.
    destruct (_ || _); cbn [snd]; try lia.
    destruct (rd_be 4 r2) as [[kb r3]| |] eqn:E3; cbn [obind2 fst snd]; try lia. apply rd_be_bytes in E3 as (B3 & L3 & _); auto.
    destruct (_ <? MINK); cbn [snd]; try lia.
    destruct (rd_be 4 r3) as [[un r4]| |] eqn:E4; cbn [obind2 fst snd]; try lia. apply rd_be_bytes in E4 as (B4 & L4 & _); auto.
    destruct (rd_be 2 r4) as [[n r5]| |] eqn:E5; cbn [obind2 fst snd]; try lia. apply rd_be_bytes in E5 as (B5 & L5 & Hn); auto.
    cbn [with_req snd]. rewrite p2 in Hn. lia.
Qed.

Theorem tdb_requests_linear f bs : bytes_ok bs = true ->
  tdb_requests f bs <= 2 * N.of_nat (length bs) + 16 * 65535.
Proof.
  intros Hb. unfold tdb_requests, tdb_dec_req. cbv zeta.
  destruct (rd_le 1 bs) as [[pre r0]| |] eqn:E0; cbn [obind2 fst snd]; try lia. apply rd_le_len in E0.
  destruct (rd_le 1 r0) as [[ver r1]| |] eqn:E1; cbn [obind2 fst snd]; try lia. apply rd_le_len in E1.
  destruct (rd_le 1 r1) as [[fam r2]| |] eqn:E2; cbn [obind2 fst snd]; try lia. apply rd_le_len in E2.
  destruct (negb (fam =? FAMID)).
  { destruct (_ && _); cbn [snd]; [apply compat_req_bound; auto|lia]. }
  destruct (negb (ver =? SERVER)); cbn [snd]; try lia.
  destruct (rd_le 2 r2) as [[k r3]| |] eqn:E3; cbn [obind2 fst snd]; try lia. apply rd_le_len in E3.
  destruct (k <? MINK); cbn [snd]; try lia.
  destruct (rd_le 1 r3) as [[flags r4]| |] eqn:E4; cbn [obind2 fst snd]; try lia. apply rd_le_len in E4.
  destruct (negb (pre =? _)); cbn [snd]; try lia.
  destruct (rd_le 2 r4) as [[un r5]| |] eqn:E5; cbn [obind2 fst snd]; try lia. apply rd_le_len in E5.
  destruct (negb (N.land flags F_EMPTY =? 0)); cbn [snd]; try lia.
  destruct (negb (N.land flags F_SINGLE =? 0)).
  { destruct (rd_float_le f r5) as [[v r6]| |]; cbn [obind2 fst snd]; try lia. destruct (negb _); cbn [snd]; lia. }
  destruct (rd_le 4 r5) as [[nc r6]| |] eqn:E6; cbn [obind2 fst snd]; try lia. apply rd_le_len in E6.
  destruct (rd_le 4 r6) as [[nb r7]| |] eqn:E7; cbn [obind2 fst snd]; try lia. apply rd_le_len in E7.
  destruct (rd_float_le f r7) as [[mn r8]| |] eqn:E8; cbn [obind2 fst snd]; try lia. apply rd_float_len in E8.
  destruct (rd_float_le f r8) as [[mx r9]| |] eqn:E9; cbn [obind2 fst snd]; try lia. apply rd_float_len in E9.
  destruct (_ || _); cbn [snd]; try lia.
  destruct f.
  - destruct (N.ltb_spec (N.of_nat (length r9)) (nc * (4 + 4) + nb * 4)); cbn [with_req snd]; lia.
  - destruct (N.ltb_spec (N.of_nat (length r9)) (nc * (8 + 8) + nb * 8)); cbn [with_req snd]; lia.
Qed.

(* ---------------- C18: the image size is a function of the number of centroids ---------------- *)
Theorem tdb_image_size s : b_buf s = [] ->
  length (tdb_enc s) =
  if tdb_is_empty s then 8%nat else if tdb_is_single s then 16%nat else (32 + 16 * length (b_cs s))%nat.
Proof.
  intros Hb. unfold tdb_enc. rewrite !app_length, !le_bytes_length. cbn [length].
  destruct (tdb_is_empty s); [cbn [length]; lia|].
  destruct (tdb_is_single s); [rewrite le_bytes_length; lia|].
  rewrite !app_length, !le_bytes_length, flat_centroids_length. lia.
Qed.
