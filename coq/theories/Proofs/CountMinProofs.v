(* Proofs about Model/CountMin.v: the table is the exact sum of hashed weights, the
   estimate never under-counts, merge adds tables, halve/decay keep the one-sided
   guarantee.  Everything is for an ARBITRARY bucket function. *)
From DS Require Import Base.Prelude Model.CountMin.
From Coq Require Import ZifyBool ZifyNat ZifyN.
Ltac Zify.zify_post_hook ::= Z.div_mod_to_equations.
Open Scope N_scope.

(* ---------- generic list lemmas over N indices ---------- *)
Lemma set_nth_length {A} n (x : A) l : length (set_nth n x l) = length l.
Proof. revert n; induction l as [|y l IH]; intros [|n]; cbn; auto. Qed.

Lemma nth_set_nth_eq {A} n (x d : A) l : (n < length l)%nat -> nth n (set_nth n x l) d = x.
Proof. revert n; induction l as [|y l IH]; intros [|n] H; cbn in *; try lia; auto. apply IH; lia. Qed.

Lemma nth_set_nth_neq {A} n m (x d : A) l : n <> m -> nth m (set_nth n x l) d = nth m l d.
Proof. revert n m; induction l as [|y l IH]; intros [|n] [|m] H; cbn; auto; try congruence. Qed.

Lemma nthN_set_nthN_eq {A} i (x d : A) l : (N.to_nat i < length l)%nat -> nthN (set_nthN i x l) i d = x.
Proof. apply nth_set_nth_eq. Qed.

Lemma nthN_set_nthN_neq {A} i j (x d : A) l : i <> j -> nthN (set_nthN i x l) j d = nthN l j d.
Proof. intros H. apply nth_set_nth_neq. lia. Qed.

Lemma nth_repeat0 n i : nth i (repeat 0 n) 0 = 0.
Proof. revert i; induction n; intros [|i]; cbn; auto. Qed.

Ltac csimpl := cbn [cm_counts cm_total cm_nh cm_nb cm_max cm_seed_hash length].

(* ---------- the setting ---------- *)
Section CM.
Variable nh nb mx sh : N.
Hypothesis Hnb : 0 < nb.
(* the bucket of item x in row r; only its range matters *)
Variable bucket : N -> N -> N.
Hypothesis bucket_range : forall x r, bucket x r < nb.

Definition bk_of (x : N) : list N := map (bucket x) (map N.of_nat (seq 0 (N.to_nat nh))).

Definition cell (cs : list N) (r b : N) : N := nthN cs (r * nb + b) 0.

Definition wf (s : cm) : Prop :=
  cm_nh s = nh /\ cm_nb s = nb /\ cm_max s = mx /\ cm_seed_hash s = sh /\
  length (cm_counts s) = N.to_nat (nh * nb).

Lemma idx_inj r b r' b' : b < nb -> b' < nb -> r * nb + b = r' * nb + b' -> r = r' /\ b = b'.
Proof. intros Hb Hb' E. apply (N.div_mod_unique nb r r' b b'); auto. lia. Qed.

Lemma idx_lt r b : r < nh -> b < nb -> (N.to_nat (r * nb + b) < N.to_nat (nh * nb))%nat.
Proof. intros. nia. Qed.

(* ---------- add_rows ---------- *)
(* effect of add_rows on a row segment starting at r0 with buckets (bucket x r0 ..) *)
Lemma add_rows_spec w x : forall n r0 cs cs',
  r0 + N.of_nat n <= nh ->
  length cs = N.to_nat (nh * nb) ->
  add_rows mx nb w r0 (map (bucket x) (map N.of_nat (seq (N.to_nat r0) n))) cs = Ok cs' ->
  length cs' = length cs /\
  forall r b, r < nh -> b < nb ->
    cell cs' r b = cell cs r b + (if (r0 <=? r) && (r <? r0 + N.of_nat n) && (bucket x r =? b) then w else 0).
Proof.
  induction n as [|n IH]; intros r0 cs cs' Hr Hlen H; cbn [seq map add_rows] in H.
  - inversion H; subst. split; auto. intros. replace (r <? r0 + N.of_nat 0) with (negb (r0 <=? r)) by lia.
    destruct (r0 <=? r); cbn; lia.
  - rewrite N2Nat.id in H.
    unfold obind in H at 1. destruct (tadd mx _ w) as [v| |] eqn:Et; try discriminate.
    replace (S (N.to_nat r0)) with (N.to_nat (r0 + 1)) in H by lia.
    apply IH in H; [| lia | unfold set_nthN; rewrite set_nth_length; auto ].
    destruct H as [Hl Hc]. unfold set_nthN in Hl. rewrite set_nth_length in Hl. split; auto.
    intros r b Hr' Hb. rewrite Hc by auto. unfold cell.
    unfold tadd in Et. destruct (_ <=? mx); try discriminate. inversion Et; subst v; clear Et.
    pose proof (bucket_range x r0) as Hb0.
    destruct (N.eq_dec (r0 * nb + bucket x r0) (r * nb + b)) as [E|E].
    + apply idx_inj in E; auto. destruct E; subst r b.
      rewrite nthN_set_nthN_eq by (rewrite Hlen; apply idx_lt; lia).
      replace (r0 + 1 <=? r0) with false by lia. replace (r0 <=? r0) with true by lia.
      replace (r0 <? r0 + N.of_nat (S n)) with true by lia. rewrite N.eqb_refl. cbn. lia.
    + rewrite nthN_set_nthN_neq by auto.
      destruct (N.eq_dec r r0) as [->|Hne].
      * assert (bucket x r0 <> b) by (intros Hx; subst b; apply E; reflexivity).
        replace (bucket x r0 =? b) with false by lia. rewrite !andb_false_r. lia.
      * replace ((r0 + 1 <=? r) && (r <? r0 + 1 + N.of_nat n)) with ((r0 <=? r) && (r <? r0 + N.of_nat (S n))) by lia.
        lia.
Qed.

(* add_rows cannot get stuck when every not-yet-visited cell plus w stays within the type *)
Lemma add_rows_ok w x : forall n r0 cs,
  r0 + N.of_nat n <= nh ->
  length cs = N.to_nat (nh * nb) ->
  (forall r b, r0 <= r -> r < nh -> b < nb -> cell cs r b + w <= mx) ->
  exists cs', add_rows mx nb w r0 (map (bucket x) (map N.of_nat (seq (N.to_nat r0) n))) cs = Ok cs'.
Proof.
  induction n as [|n IH]; intros r0 cs Hr Hlen Hfit; cbn [seq map add_rows].
  - eauto.
  - rewrite N2Nat.id. pose proof (bucket_range x r0) as Hb0.
    unfold tadd. pose proof (Hfit r0 (bucket x r0) ltac:(lia) ltac:(lia) Hb0) as Hf. unfold cell in Hf.
    replace (_ <=? mx) with true by lia. cbn [obind].
    replace (S (N.to_nat r0)) with (N.to_nat (r0 + 1)) by lia.
    apply IH; [lia | unfold set_nthN; rewrite set_nth_length; auto |].
    intros r b Hr0 Hr' Hb. unfold cell.
    rewrite nthN_set_nthN_neq; [apply Hfit; lia|].
    intros E. apply idx_inj in E; auto. lia.
Qed.

(* ---------- histories and the specification ---------- *)
(* a history is the list of (item, weight) updates whose effect a sketch holds *)
Definition hist := list (N * N).

Fixpoint cell_spec (h : hist) (r b : N) : N :=
  match h with
  | [] => 0
  | (x, w) :: h' => (if bucket x r =? b then w else 0) + cell_spec h' r b
  end.

Fixpoint truth (h : hist) (x : N) : N :=
  match h with
  | [] => 0
  | (y, w) :: h' => (if y =? x then w else 0) + truth h' x
  end.

Fixpoint weight (h : hist) : N :=
  match h with [] => 0 | (_, w) :: h' => w + weight h' end.

Lemma cell_spec_app h1 h2 r b : cell_spec (h1 ++ h2) r b = cell_spec h1 r b + cell_spec h2 r b.
Proof. induction h1 as [|[x w] h IH]; cbn; lia. Qed.
Lemma truth_app h1 h2 x : truth (h1 ++ h2) x = truth h1 x + truth h2 x.
Proof. induction h1 as [|[y w] h IH]; cbn; lia. Qed.
Lemma weight_app h1 h2 : weight (h1 ++ h2) = weight h1 + weight h2.
Proof. induction h1 as [|[y w] h IH]; cbn; lia. Qed.

Lemma truth_le_cell h x r : truth h x <= cell_spec h r (bucket x r).
Proof.
  induction h as [|[y w] h IH]; cbn; [lia|].
  destruct (N.eqb_spec y x) as [->|]; [rewrite N.eqb_refl; lia | lia].
Qed.

Lemma cell_le_weight h r b : cell_spec h r b <= weight h.
Proof. induction h as [|[y w] h IH]; cbn; [lia|]. destruct (_ =? b); lia. Qed.

(* [Rep s h]: the sketch state s holds exactly the history h *)
Definition Rep (s : cm) (h : hist) : Prop :=
  wf s /\ cm_total s = weight h /\
  forall r b, r < nh -> b < nb -> cell (cm_counts s) r b = cell_spec h r b.

Lemma rep_new : nh <> 0 -> Rep (cm_make nh nb mx sh (nh * nb)) [].
Proof.
  intros Hnh. unfold Rep, wf, cm_make; cbn. rewrite repeat_length. repeat split; auto.
  intros. unfold cell, nthN. apply nth_repeat0.
Qed.

(* ---------- update ---------- *)
Theorem update_rep s h x w :
  Rep s h -> weight h + w <= mx ->
  exists s', cm_update s w (bk_of x) = Ok s' /\ Rep s' (h ++ [(x, w)]).
Proof.
  intros (Hwf & Ht & Hc) Hfit. destruct Hwf as (Hnh & Hnb' & Hmx & Hsh & Hlen).
  unfold cm_update. destruct (N.eqb_spec w 0) as [->|Hw].
  - exists s. split; auto. repeat split; auto.
    + rewrite weight_app; cbn; lia.
    + intros. rewrite cell_spec_app, Hc by auto. cbn. destruct (_ =? b); lia.
  - rewrite Hmx, Hnb', Ht. unfold tadd at 1. replace (_ <=? mx) with true by lia. cbn [obind].
    unfold bk_of.
    destruct (add_rows_ok w x (N.to_nat nh) 0 (cm_counts s)) as [cs' Hcs']; [lia | auto | |].
    { intros r b _ Hr Hb. rewrite Hc by auto. pose proof (cell_le_weight h r b). lia. }
    change (N.to_nat 0) with 0%nat in Hcs'. rewrite Hcs'. cbn [obind].
    eexists; split; [reflexivity|].
    apply add_rows_spec in Hcs'; [| lia | auto]. destruct Hcs' as [Hl Hcell].
    repeat split; csimpl; auto; try lia.
    + rewrite weight_app; cbn; lia.
    + intros r b Hr Hb. rewrite Hcell, cell_spec_app, Hc by auto. cbn.
      replace (0 <=? r) with true by lia. replace (r <? 0 + N.of_nat (N.to_nat nh)) with true by lia.
      cbn. lia.
Qed.

(* ---------- estimate ---------- *)
Lemma min_rows_spec cs x : forall n r0 acc,
  min_rows nb r0 (map (bucket x) (map N.of_nat (seq (N.to_nat r0) n))) cs acc <= acc /\
  (forall r, r0 <= r < r0 + N.of_nat n ->
     min_rows nb r0 (map (bucket x) (map N.of_nat (seq (N.to_nat r0) n))) cs acc <= cell cs r (bucket x r)) /\
  (forall m, m <= acc -> (forall r, r0 <= r < r0 + N.of_nat n -> m <= cell cs r (bucket x r)) ->
     m <= min_rows nb r0 (map (bucket x) (map N.of_nat (seq (N.to_nat r0) n))) cs acc).
Proof.
  induction n as [|n IH]; intros r0 acc; cbn [seq map min_rows].
  - repeat split; intros; lia.
  - rewrite N2Nat.id. replace (S (N.to_nat r0)) with (N.to_nat (r0 + 1)) by lia.
    set (v := nthN cs (r0 * nb + bucket x r0) 0).
    destruct (IH (r0 + 1) (if v <? acc then v else acc)) as (H1 & H2 & H3).
    repeat split.
    + destruct (v <? acc) eqn:E; lia.
    + intros r Hr. destruct (N.eq_dec r r0) as [->|Hne].
      * fold (cell cs r0 (bucket x r0)) in v. destruct (v <? acc) eqn:E; subst v; lia.
      * apply H2; lia.
    + intros m Hm Hall. apply H3.
      * pose proof (Hall r0 ltac:(lia)). fold (cell cs r0 (bucket x r0)) in v. destruct (v <? acc); subst v; lia.
      * intros r Hr. apply Hall; lia.
Qed.

Theorem estimate_bounds s h x :
  Rep s h -> nh <> 0 -> weight h <= mx ->
  truth h x <= cm_estimate s (bk_of x) /\ cm_estimate s (bk_of x) <= cm_total s.
Proof.
  intros (Hwf & Ht & Hc) Hnh Hfit. destruct Hwf as (Hnh' & Hnb' & Hmx & Hsh & Hlen).
  unfold cm_estimate, bk_of. rewrite Hnb', Hmx.
  destruct (min_rows_spec (cm_counts s) x (N.to_nat nh) 0 mx) as (H1 & H2 & H3).
  change (N.to_nat 0) with 0%nat in *. split.
  - apply H3.
    + pose proof (truth_le_cell h x 0). pose proof (cell_le_weight h 0 (bucket x 0)). lia.
    + intros r Hr. rewrite Hc by (auto; lia). apply truth_le_cell.
  - etransitivity; [apply (H2 0); lia|]. rewrite Hc by (auto; lia). rewrite Ht. apply cell_le_weight.
Qed.

(* ---------- merge ---------- *)
Lemma add_lists_spec : forall a b,
  length a = length b ->
  (forall i, nth i a 0 + nth i b 0 <= mx) ->
  exists c, add_lists mx a b = Ok c /\ length c = length a /\ forall i, nth i c 0 = nth i a 0 + nth i b 0.
Proof.
  induction a as [|x a IH]; intros [|y b] Hl Hfit; cbn in Hl; try discriminate.
  - exists []. cbn. repeat split; auto. intros [|i]; reflexivity.
  - cbn [add_lists]. unfold tadd. pose proof (Hfit 0%nat) as H0; cbn in H0.
    replace (_ <=? mx) with true by lia. cbn [obind].
    destruct (IH b ltac:(lia)) as (c & Hc & Hlc & Hn).
    { intros i. apply (Hfit (S i)). }
    rewrite Hc. cbn [obind]. eexists; split; [reflexivity|]. cbn. split; [lia|].
    intros [|i]; auto.
Qed.

Theorem merge_rep s o h1 h2 :
  Rep s h1 -> Rep o h2 -> weight h1 + weight h2 <= mx ->
  exists s', cm_merge s o = Ok s' /\ Rep s' (h1 ++ h2).
Proof.
  intros (Hwf1 & Ht1 & Hc1) (Hwf2 & Ht2 & Hc2) Hfit.
  destruct Hwf1 as (Hnh1 & Hnb1 & Hmx1 & Hsh1 & Hlen1). destruct Hwf2 as (Hnh2 & Hnb2 & Hmx2 & Hsh2 & Hlen2).
  unfold cm_merge. rewrite Hnh1, Hnh2, Hnb1, Hnb2, Hsh1, Hsh2, !N.eqb_refl. cbn [andb negb].
  rewrite Hmx1.
  destruct (add_lists_spec (cm_counts s) (cm_counts o)) as (c & Hc & Hlc & Hn); [lia| |].
  { intros i. destruct (Nat.lt_ge_cases i (N.to_nat (nh * nb))) as [Hi|Hi].
    - set (r := N.of_nat i / nb). set (b := N.of_nat i mod nb).
      assert (Hr : r < nh) by (subst r; apply N.div_lt_upper_bound; lia).
      assert (Hb : b < nb) by (subst b; apply N.mod_lt; lia).
      assert (Hi' : N.of_nat i = r * nb + b) by (subst r b; rewrite (N.mul_comm _ nb); apply N.div_mod'). 
      pose proof (Hc1 r b Hr Hb) as E1. pose proof (Hc2 r b Hr Hb) as E2.
      unfold cell, nthN in E1, E2. rewrite <- Hi', Nat2N.id in E1, E2.
      rewrite E1, E2. pose proof (cell_le_weight h1 r b). pose proof (cell_le_weight h2 r b). lia.
    - rewrite !nth_overflow by lia. lia. }
  rewrite Hc. cbn [obind]. unfold tadd. rewrite Ht1, Ht2. replace (_ <=? mx) with true by lia. cbn [obind].
  eexists; split; [reflexivity|]. repeat split; csimpl; auto; try lia.
  - rewrite weight_app; lia.
  - intros r b Hr Hb. unfold cell, nthN. rewrite Hn, cell_spec_app.
    rewrite <- Hc1, <- Hc2 by auto. reflexivity.
Qed.

(* ---------- halve / decay: the one-sided guarantee under any monotone scaling ---------- *)
(* [LB s f]: f x is a lower bound of every cell of x (f is the "scaled truth") and no
   cell exceeds the (scaled) total *)
Definition LB (s : cm) (f : N -> N) : Prop :=
  wf s /\
  (forall x r, r < nh -> f x <= cell (cm_counts s) r (bucket x r)) /\
  (forall r b, r < nh -> b < nb -> cell (cm_counts s) r b <= cm_total s).

Lemma rep_lb s h : Rep s h -> LB s (truth h).
Proof.
  intros (Hwf & Ht & Hc). split; auto. split.
  - intros x r Hr. rewrite Hc by auto. apply truth_le_cell.
  - intros r b Hr Hb. rewrite Hc, Ht by auto. apply cell_le_weight.
Qed.

Lemma cell_map g cs r b : g 0 = 0 -> cell (map g cs) r b = g (cell cs r b).
Proof.
  intros Hg. unfold cell, nthN. destruct (Nat.lt_ge_cases (N.to_nat (r * nb + b)) (length cs)).
  - rewrite <- Hg at 1. apply map_nth.
  - rewrite !nth_overflow; auto. rewrite map_length; auto.
Qed.

Theorem scale_lb g s f :
  (forall a b, a <= b -> g a <= g b) -> g 0 = 0 ->
  LB s f -> LB (cm_scale g s) (fun x => g (f x)).
Proof.
  intros Hmono Hg0 (Hwf & Hlo & Hhi). destruct Hwf as (Hnh' & Hnb' & Hmx & Hsh & Hlen).
  unfold cm_scale. repeat split; csimpl; auto.
  - rewrite map_length; auto.
  - intros x r Hr. rewrite cell_map by auto. apply Hmono, Hlo; auto.
  - intros r b Hr Hb. rewrite cell_map by auto. apply Hmono, Hhi; auto.
Qed.

Theorem halve_lb s f : LB s f -> LB (cm_halve s) (fun x => f x / 2).
Proof.
  intros H. change (cm_halve s) with (cm_scale (fun c => c / 2) s).
  apply (scale_lb (fun c => c / 2)); auto. intros a b Hab. lia.
Qed.

Theorem update_lb s f x w :
  LB s f -> cm_total s + w <= mx ->
  exists s', cm_update s w (bk_of x) = Ok s' /\ LB s' (fun y => (if y =? x then w else 0) + f y).
Proof.
  intros (Hwf & Hlo & Hhi) Hfit. destruct Hwf as (Hnh' & Hnb' & Hmx & Hsh & Hlen).
  unfold cm_update. destruct (N.eqb_spec w 0) as [->|Hw].
  - exists s. split; auto. repeat split; auto. intros y r Hr. specialize (Hlo y r Hr). destruct (y =? x); lia.
  - rewrite Hmx, Hnb'. unfold tadd at 1. replace (_ <=? mx) with true by lia. cbn [obind]. unfold bk_of.
    destruct (add_rows_ok w x (N.to_nat nh) 0 (cm_counts s)) as [cs' Hcs']; [lia | auto | |].
    { intros r b _ Hr Hb. specialize (Hhi r b Hr Hb). lia. }
    change (N.to_nat 0) with 0%nat in Hcs'. rewrite Hcs'. cbn [obind].
    eexists; split; [reflexivity|].
    apply add_rows_spec in Hcs'; [| lia | auto]. destruct Hcs' as [Hl Hcell].
    repeat split; csimpl; auto; try lia.
    + intros y r Hr. rewrite Hcell by auto.
      replace (0 <=? r) with true by lia. replace (r <? 0 + N.of_nat (N.to_nat nh)) with true by lia.
      cbn [andb]. specialize (Hlo y r Hr).
      destruct (N.eqb_spec y x) as [->|]; [rewrite N.eqb_refl|]; lia.
    + intros r b Hr Hb. rewrite Hcell by auto. specialize (Hhi r b Hr Hb). destruct (_ && _); lia.
Qed.

Theorem estimate_lb s f x :
  LB s f -> nh <> 0 -> cm_total s <= mx ->
  f x <= cm_estimate s (bk_of x) /\ cm_estimate s (bk_of x) <= cm_total s.
Proof.
  intros (Hwf & Hlo & Hhi) Hnh Hfit. destruct Hwf as (Hnh' & Hnb' & Hmx & Hsh & Hlen).
  unfold cm_estimate, bk_of. rewrite Hnb', Hmx.
  destruct (min_rows_spec (cm_counts s) x (N.to_nat nh) 0 mx) as (H1 & H2 & H3).
  change (N.to_nat 0) with 0%nat in *. split.
  - apply H3.
    + pose proof (Hlo x 0 ltac:(lia)). pose proof (Hhi 0 (bucket x 0) ltac:(lia) (bucket_range _ _)). lia.
    + intros r Hr. apply Hlo; lia.
  - etransitivity; [apply (H2 0); lia|]. apply Hhi; [lia | apply bucket_range].
Qed.

(* ---------- lifting to arbitrary operation sequences ---------- *)
Fixpoint run_updates (s : cm) (h : hist) : outcome cm :=
  match h with
  | [] => Ok s
  | (x, w) :: h' => obind (cm_update s w (bk_of x)) (fun s' => run_updates s' h')
  end.

Theorem run_updates_rep : forall h s h0,
  Rep s h0 -> weight h0 + weight h <= mx ->
  exists s', run_updates s h = Ok s' /\ Rep s' (h0 ++ h).
Proof.
  induction h as [|[x w] h IH]; intros s h0 HR Hfit; cbn [run_updates].
  - exists s. rewrite app_nil_r. auto.
  - cbn [weight] in Hfit. destruct (update_rep s h0 x w HR ltac:(lia)) as (s1 & E1 & R1).
    rewrite E1. cbn [obind]. destruct (IH s1 (h0 ++ [(x, w)]) R1) as (s2 & E2 & R2).
    { rewrite weight_app. cbn. lia. }
    exists s2. split; auto. rewrite <- app_assoc in R2. exact R2.
Qed.

(* mixed histories: updates, halve, and decay by any monotone non-increasing scaling *)
Inductive sop := SUpd (x w : N) | SHalve | SScale (g : N -> N).

Definition sop_ok (o : sop) : Prop :=
  match o with
  | SScale g => (forall a b, a <= b -> g a <= g b) /\ g 0 = 0 /\ (forall c, g c <= c)
  | _ => True
  end.

Definition run_sop (s : cm) (o : sop) : outcome cm :=
  match o with
  | SUpd x w => cm_update s w (bk_of x)
  | SHalve => Ok (cm_halve s)
  | SScale g => Ok (cm_scale g s)
  end.

Fixpoint run_sops (s : cm) (ops : list sop) : outcome cm :=
  match ops with
  | [] => Ok s
  | o :: r => obind (run_sop s o) (fun s' => run_sops s' r)
  end.

(* the correspondingly scaled truth of item y: the same operations applied to y's own weight *)
Definition truth_sop (f : N -> N) (o : sop) : N -> N :=
  match o with
  | SUpd x w => fun y => (if y =? x then w else 0) + f y
  | SHalve => fun y => f y / 2
  | SScale g => fun y => g (f y)
  end.
Definition truth_sops (f : N -> N) (ops : list sop) : N -> N := fold_left truth_sop ops f.

Fixpoint sum_w (ops : list sop) : N :=
  match ops with
  | [] => 0
  | SUpd _ w :: r => w + sum_w r
  | _ :: r => sum_w r
  end.

Theorem run_sops_lb : forall ops s f,
  LB s f -> Forall sop_ok ops -> cm_total s + sum_w ops <= mx ->
  exists s', run_sops s ops = Ok s' /\ LB s' (truth_sops f ops) /\ cm_total s' <= mx.
Proof.
  induction ops as [|o ops IH]; intros s f HL Hok Hfit; cbn [run_sops truth_sops fold_left].
  - exists s. cbn [sum_w] in Hfit. split; [reflexivity|]. split; [exact HL|]. lia.
  - inversion Hok as [|? ? Ho Hok']; subst. destruct o as [x w| |g]; cbn [run_sop sum_w] in *.
    + destruct (update_lb s f x w HL ltac:(lia)) as (s1 & E1 & L1). rewrite E1. cbn [obind].
      assert (Ht : cm_total s1 = if w =? 0 then cm_total s else cm_total s + w).
      { unfold cm_update in E1. destruct (w =? 0); [inversion E1; auto|].
        destruct (tadd _ _ w) as [t| |] eqn:Et; cbn [obind] in E1; try discriminate.
        destruct (add_rows _ _ _ _ _ _); cbn [obind] in E1; try discriminate. inversion E1; subst; cbn.
        unfold tadd in Et. destruct (_ <=? _); inversion Et; auto. }
      apply (IH s1 _ L1 Hok'). destruct (w =? 0); lia.
    + cbn [obind]. apply (IH _ _ (halve_lb s f HL) Hok'). unfold cm_halve; csimpl. pose proof (N.div_le_upper_bound (cm_total s) 2 (cm_total s)). lia.
    + cbn [obind]. destruct Ho as (Hm & H0 & Hle).
      apply (IH _ _ (scale_lb g s f Hm H0 HL) Hok'). unfold cm_scale; csimpl. specialize (Hle (cm_total s)). lia.
Qed.

End CM.

(* ---------- end-to-end corollaries (statements used by Props/C08.v) ---------- *)
Definition cm_fresh (nh nb mx sh : N) : cm := cm_make nh nb mx sh (nh * nb).

Lemma cm_new_fresh nh nb mx sh :
  nh <> 0 -> 3 <= nb -> nh * nb < zN Gen.GenCountMin.MAX_TABLE_ENTRIES -> sh <> 0 ->
  cm_new nh nb mx sh = Ok (cm_fresh nh nb mx sh).
Proof.
  intros. unfold cm_new, entries_for_config.
  replace (nh =? 0) with false by lia. replace (nb <? 3) with false by lia.
  replace (_ <=? nh * nb) with false by lia. cbn [obind]. replace (sh =? 0) with false by lia. reflexivity.
Qed.

(* outside the documented ranges the constructor panics *)
Lemma cm_new_stuck nh nb mx sh :
  nh = 0 \/ nb < 3 \/ zN Gen.GenCountMin.MAX_TABLE_ENTRIES <= nh * nb \/ sh = 0 -> cm_new nh nb mx sh = Stuck.
Proof.
  intros H. unfold cm_new, entries_for_config.
  destruct (N.eqb_spec nh 0); [reflexivity|]. destruct (N.ltb_spec nb 3); [reflexivity|].
  destruct (N.leb_spec (zN Gen.GenCountMin.MAX_TABLE_ENTRIES) (nh * nb)); [reflexivity|]. cbn [obind].
  destruct (N.eqb_spec sh 0); [reflexivity|]. lia.
Qed.

(* the repaired decay c -> min(f c, c) is an admissible scaling as soon as the float part f is monotone
   (g 0 = 0 and g c <= c hold by the clamp, for ANY f) *)
Lemma decay_clamp_ok (f : N -> N) :
  (forall a b, a <= b -> f a <= f b) -> sop_ok (SScale (decay_clamp f)).
Proof.
  intros Hm. unfold sop_ok, decay_clamp. repeat split.
  - intros a b Hab. specialize (Hm a b Hab). lia.
  - lia.
  - intros c. lia.
Qed.

Lemma decay_clamp_le (f : N -> N) c : decay_clamp f c <= c.
Proof. unfold decay_clamp. lia. Qed.

Theorem stream_exact nh nb mx sh (bucket : N -> N -> N) :
  nh <> 0 -> 0 < nb -> (forall x r, bucket x r < nb) ->
  forall h, weight h <= mx ->
  exists s, run_updates nh bucket (cm_fresh nh nb mx sh) h = Ok s /\
    cm_total s = weight h /\
    (forall r b, r < nh -> b < nb -> cell nb (cm_counts s) r b = cell_spec bucket h r b) /\
    (forall x, truth h x <= cm_estimate s (bk_of nh bucket x) /\ cm_estimate s (bk_of nh bucket x) <= cm_total s).
Proof.
  intros Hnh Hnb Hb h Hfit.
  destruct (run_updates_rep nh nb mx sh Hnb bucket Hb h (cm_fresh nh nb mx sh) [] (rep_new nh nb mx sh bucket Hnh) ltac:(cbn; lia))
    as (s & E & R).
  exists s. split; auto. cbn [app] in R. pose proof R as (Hwf & Ht & Hc). repeat split; auto.
  - apply (estimate_bounds nh nb mx sh Hnb bucket Hb s h x R Hnh Hfit).
  - apply (estimate_bounds nh nb mx sh Hnb bucket Hb s h x R Hnh Hfit).
Qed.

Theorem mixed_one_sided nh nb mx sh (bucket : N -> N -> N) :
  nh <> 0 -> 0 < nb -> (forall x r, bucket x r < nb) ->
  forall ops, Forall sop_ok ops -> sum_w ops <= mx ->
  exists s, run_sops nh bucket (cm_fresh nh nb mx sh) ops = Ok s /\
    forall x, truth_sops (fun _ => 0) ops x <= cm_estimate s (bk_of nh bucket x) /\
              cm_estimate s (bk_of nh bucket x) <= cm_total s.
Proof.
  intros Hnh Hnb Hb ops Hok Hfit.
  pose proof (rep_lb nh nb mx sh Hnb bucket Hb _ _ (rep_new nh nb mx sh bucket Hnh)) as L0.
  destruct (run_sops_lb nh nb mx sh Hnb bucket Hb ops _ _ L0 Hok ltac:(cbn; lia)) as (s & E & L & Ht).
  exists s. split; auto. intros x.
  apply (estimate_lb nh nb mx sh Hnb bucket Hb s _ x L Hnh Ht).
Qed.
