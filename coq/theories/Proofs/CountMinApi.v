(* C17 for Count-Min: no valid sequence of public API calls reaches a modelled panic site.
   The model makes the counter type's fixed-width arithmetic explicit ([tadd]: Stuck when a
   sum leaves [0, T::MAX], which is the debug profile's overflow check; [tsat_add] for the
   repaired upper_bound).  "Valid" = the documented preconditions: configuration in the
   constructor's range, merge partners of the same configuration, decay factors in (0, 1]
   (any monotone g with g 0 = 0 and g c <= c), and a total weight that fits the counter type. *)
From DS Require Import Base.Prelude Model.CountMin Proofs.CountMinProofs Proofs.CountMinCodec.
From DS Require Gen.GenCountMin.
From Coq Require Import ZifyBool ZifyNat ZifyN.
Ltac Zify.zify_post_hook ::= Z.div_mod_to_equations.
Open Scope N_scope.

(* ---------- upper_bound in the fixed-width model ---------- *)
Lemma min_rows_le_acc nb : forall bk row cs acc, min_rows nb row bk cs acc <= acc.
Proof.
  induction bk as [|b bk IH]; intros row cs acc; cbn [min_rows]; [lia|].
  etransitivity; [apply IH|]. destruct (_ <? acc) eqn:E; lia.
Qed.

Lemma estimate_le_max s bk : cm_estimate s bk <= cm_max s.
Proof. apply min_rows_le_acc. Qed.

(* the repaired upper_bound: never below the estimate (= lower_bound), never outside the type,
   and equal to estimate + error whenever that fits; for EVERY error term of the type *)
Theorem upper_bound_sound s bk err :
  cm_lower_bound s bk <= cm_upper_bound s bk err /\
  cm_upper_bound s bk err <= cm_max s /\
  (cm_estimate s bk + err <= cm_max s -> cm_upper_bound s bk err = cm_estimate s bk + err) /\
  (cm_max s < cm_estimate s bk + err -> cm_upper_bound s bk err = cm_max s).
Proof.
  unfold cm_upper_bound, cm_lower_bound, tsat_add. pose proof (estimate_le_max s bk). repeat split; lia.
Qed.

(* the code before the repair is stuck exactly when the sum does not fit (D15) ... *)
Theorem upper_bound_before_fix_stuck s bk err :
  cm_upper_bound_before_fix s bk err = Stuck <-> cm_max s < cm_estimate s bk + err.
Proof.
  unfold cm_upper_bound_before_fix, tadd. destruct (N.leb_spec (cm_estimate s bk + err) (cm_max s)); split; intros; try discriminate; try lia; auto.
Qed.

(* ... which a valid use reaches: CountMinSketch::<u8>::new(1, 3), one update of weight 200
   (bucket 0), error term trunc(e/3 * 200) = 181 *)
Theorem upper_bound_before_fix_refuted :
  exists s, cm_update (cm_fresh 1 3 255 0) 200 [0] = Ok s /\ cm_total s = 200 /\
            cm_upper_bound_before_fix s [0] 181 = Stuck /\ cm_upper_bound s [0] 181 = 255.
Proof. eexists. split; [vm_compute; reflexivity|]. repeat split. Qed.

(* ---------- API programs ---------- *)
Section API.
Variable nh nb mx sh : N.
Hypothesis Hnh : 1 <= nh < 256.
Hypothesis Hnb : 3 <= nb < 4294967296.
Hypothesis Hent : nh * nb < zN GenCountMin.MAX_TABLE_ENTRIES.
Hypothesis Hsh : 0 < sh < 65536.
Hypothesis Hmx : mx < M64.
Variable bucket : N -> N -> N.
Hypothesis bucket_range : forall x r, bucket x r < nb.

Let Hnb0 : 0 < nb. Proof. lia. Qed.

(* an expression over the public API that builds one sketch; both operands of a merge are
   programs again (any merge tree); PRound is serialize followed by deserialize *)
Inductive prog : Type :=
| PNew
| PUpd (p : prog) (x w : N)
| PMerge (p q : prog)
| PHalve (p : prog)
| PScale (g : N -> N) (p : prog)
| PRound (p : prog)
| PImage (bs : list N).             (* deserialize(bs) for ARBITRARY bytes (C14: "any value returned as Ok can be used") *)

Fixpoint eval (p : prog) : outcome cm :=
  match p with
  | PNew => cm_new nh nb mx sh
  | PUpd p x w => obind (eval p) (fun s => cm_update s w (bk_of nh bucket x))
  | PMerge p q => obind (eval p) (fun s => obind (eval q) (fun o => cm_merge s o))
  | PHalve p => obind (eval p) (fun s => Ok (cm_halve s))
  | PScale g p => obind (eval p) (fun s => Ok (cm_scale g s))
  | PRound p => obind (eval p) (fun s => cm_deserialize mx sh (cm_serialize s))
  | PImage bs => cm_deserialize mx sh bs
  end.

(* the weight a program feeds in (an upper bound of its sketch's total weight) *)
Fixpoint pweight (p : prog) : N :=
  match p with
  | PNew => 0
  | PUpd p _ w => pweight p + w
  | PMerge p q => pweight p + pweight q
  | PHalve p | PScale _ p | PRound p => pweight p
  | PImage bs => match cm_deserialize mx sh bs with Ok s => cm_total s | _ => 0 end
  end.

(* documented preconditions on the arguments: decay scales down monotonically *)
Fixpoint pok (p : prog) : Prop :=
  match p with
  | PNew => True
  | PUpd p _ _ | PHalve p | PRound p => pok p
  | PMerge p q => pok p /\ pok q
  | PScale g p => (forall a b, a <= b -> g a <= g b) /\ g 0 = 0 /\ (forall c, g c <= c) /\ pok p
  (* compatible merge partners: an accepted image has this program's configuration *)
  | PImage bs => forall s, cm_deserialize mx sh bs = Ok s -> cm_nh s = nh /\ cm_nb s = nb
  end.

Fixpoint has_image (p : prog) : Prop :=
  match p with
  | PNew => False
  | PUpd p _ _ | PHalve p | PScale _ p | PRound p => has_image p
  | PMerge p q => has_image p \/ has_image q
  | PImage _ => True
  end.

(* the correspondingly scaled truth of item y under a program: the same operations applied to y's own
   weight (updates add, merges add the partner's, halve / decay scale); an image leaf contributes
   nothing that is known about its items *)
Fixpoint ptruth (p : prog) (y : N) : N :=
  match p with
  | PNew => 0
  | PUpd p x w => (if y =? x then w else 0) + ptruth p y
  | PMerge p q => ptruth p y + ptruth q y
  | PHalve p => ptruth p y / 2
  | PScale g p => g (ptruth p y)
  | PRound p => ptruth p y
  | PImage _ => 0
  end.

Local Notation LB := (LB nh nb mx sh bucket).

Lemma LB_ext s f g : (forall x, f x = g x) -> LB s f -> LB s g.
Proof.
  intros E (Hwf & Hlo & Hhi). split; [exact Hwf|]. split; [|exact Hhi].
  intros x r Hr. rewrite <- E. apply Hlo; exact Hr.
Qed.

(* every index update / estimate compute is inside the table (`counts[row * num_buckets + bucket]`) *)
Lemma lb_indices s f : LB s f ->
  forall x r, r < nh -> (N.to_nat (r * nb + bucket x r) < length (cm_counts s))%nat.
Proof.
  intros ((_ & _ & _ & _ & Hlen) & _) x r Hr. rewrite Hlen.
  apply (idx_lt nh nb Hnb0 bucket bucket_range); [exact Hr|apply bucket_range].
Qed.

(* every position of the table is bounded by the total (from the row/bucket form of LB) *)
Lemma lb_cells s f : LB s f -> forall i, nth i (cm_counts s) 0 <= cm_total s.
Proof.
  intros ((_ & _ & _ & _ & Hlen) & _ & Hhi) i.
  destruct (Nat.lt_ge_cases i (N.to_nat (nh * nb))) as [Hi|Hi].
  - set (r := N.of_nat i / nb). set (b := N.of_nat i mod nb).
    assert (Hr : r < nh) by (subst r; apply N.div_lt_upper_bound; lia).
    assert (Hb : b < nb) by (subst b; apply N.mod_lt; lia).
    assert (Hi' : N.of_nat i = r * nb + b) by (subst r b; rewrite (N.mul_comm _ nb); apply N.div_mod').
    pose proof (Hhi r b Hr Hb) as E. unfold cell, nthN in E. rewrite <- Hi', Nat2N.id in E. exact E.
  - rewrite nth_overflow by lia. lia.
Qed.

Lemma lb_wfc s f : LB s f -> cm_total s <= mx -> wfc mx sh s.
Proof.
  intros HL Ht. pose proof (lb_cells s f HL) as Hc. destruct HL as ((En & Eb & Em & Es & Hlen) & _ & _).
  constructor; rewrite ?En, ?Eb; auto; try lia.
  - apply Forall_nth_le. intros i _. specialize (Hc i). lia.
  - apply Forall_nth_le. intros i _. exact (Hc i).
  - intros Ht0. apply all_nth_zero_repeat; [exact Hlen|]. intros i _. specialize (Hc i). lia.
Qed.

Lemma update_total s w bk s' :
  cm_update s w bk = Ok s' -> cm_total s' = if w =? 0 then cm_total s else cm_total s + w.
Proof.
  unfold cm_update. destruct (w =? 0); [intros H; inversion H; auto|].
  destruct (tadd _ _ w) as [t| |] eqn:Et; cbn [obind]; try discriminate.
  destruct (add_rows _ _ _ _ _ _); cbn [obind]; try discriminate. intros H; inversion H; subst; cbn.
  unfold tadd in Et. destruct (_ <=? _); inversion Et; auto.
Qed.

Theorem merge_lb s o f g :
  LB s f -> LB o g -> cm_total s + cm_total o <= mx ->
  exists s', cm_merge s o = Ok s' /\ LB s' (fun x => f x + g x) /\ cm_total s' = cm_total s + cm_total o.
Proof.
  intros L1 L2 Hfit. pose proof (lb_cells s f L1) as C1. pose proof (lb_cells o g L2) as C2.
  destruct L1 as ((Hnh1 & Hnb1 & Hmx1 & Hsh1 & Hlen1) & Hlo1 & Hhi1).
  destruct L2 as ((Hnh2 & Hnb2 & Hmx2 & Hsh2 & Hlen2) & Hlo2 & Hhi2).
  unfold cm_merge. rewrite Hnh1, Hnh2, Hnb1, Hnb2, Hsh1, Hsh2, !N.eqb_refl. cbn [andb negb]. rewrite Hmx1.
  destruct (add_lists_spec nb mx Hnb0 bucket bucket_range (cm_counts s) (cm_counts o)) as (c & Hc & Hlc & Hn); [lia| |].
  { intros i. specialize (C1 i). specialize (C2 i). lia. }
  rewrite Hc. cbn [obind]. unfold tadd. replace (_ <=? mx) with true by lia. cbn [obind].
  eexists; split; [reflexivity|]. split; [|reflexivity].
  repeat split; cbn [cm_counts cm_total cm_nh cm_nb cm_max cm_seed_hash]; auto; try lia.
  - intros x r Hr. unfold cell, nthN. rewrite Hn. specialize (Hlo1 x r Hr). specialize (Hlo2 x r Hr).
    unfold cell, nthN in Hlo1, Hlo2. lia.
  - intros r b Hr Hb. unfold cell, nthN. rewrite Hn. specialize (Hhi1 r b Hr Hb). specialize (Hhi2 r b Hr Hb).
    unfold cell, nthN in Hhi1, Hhi2. lia.
Qed.

(* whatever the (repaired) reader accepts satisfies the invariant the API relies on *)
Lemma deserialize_lb bs s :
  cm_deserialize mx sh bs = Ok s -> cm_nh s = nh -> cm_nb s = nb -> LB s (fun _ => 0) /\ cm_total s <= mx.
Proof.
  intros E En Eb. pose proof (deserialize_ok_shape mx sh bs s E) as (_ & _ & _ & Hlen & _ & Ht & Em & Es & _).
  pose proof (deserialize_ok_bounded mx sh bs s E) as Hb. rewrite En, Eb in Hlen.
  split; [|exact Ht]. repeat split; auto.
  - intros; lia.
  - intros r b Hr Hb'. unfold cell, nthN. rewrite Forall_forall in Hb.
    destruct (Nat.lt_ge_cases (N.to_nat (r * nb + b)) (length (cm_counts s))) as [Hi|Hi].
    + apply Hb. apply nth_In. exact Hi.
    + rewrite nth_overflow by lia. lia.
Qed.

(* every valid program runs to completion: no constructor assertion, no counter or total
   overflow, no merge assertion; the only way not to finish with Ok is that an image leaf is
   rejected by the reader (Err, never Stuck); the result is well-formed *)
Theorem api_no_stuck_general : forall p, pok p -> pweight p <= mx ->
  (exists s, eval p = Ok s /\ LB s (ptruth p) /\ cm_total s <= pweight p /\ wfc mx sh s) \/
  (eval p = Err /\ has_image p).
Proof.
  assert (Hwfc : forall s f w, LB s f -> cm_total s <= w -> w <= mx -> wfc mx sh s).
  { intros s f w HL H1 H2. apply (lb_wfc s f HL). lia. }
  induction p as [|p IH x w|p IHp q IHq|p IH|g p IH|p IH|bs]; cbn [eval pweight pok has_image]; intros Hok Hfit.
  - left. rewrite cm_new_fresh by lia. exists (cm_fresh nh nb mx sh).
    pose proof (rep_lb nh nb mx sh Hnb0 bucket bucket_range _ _ (rep_new nh nb mx sh bucket ltac:(lia))) as L0.
    apply (LB_ext _ _ (ptruth PNew)) in L0; [|intros x; reflexivity].
    split; [reflexivity|]. split; [exact L0|].
    change (cm_total (cm_fresh nh nb mx sh)) with 0.
    split; [apply N.le_refl|]. apply (Hwfc _ _ 0 L0); [apply N.le_refl | apply N.le_0_l].
  - destruct (IH Hok ltac:(lia)) as [(s & E & L & Ht & _)|[E Hi]]; [|right; rewrite E; auto]. left.
    rewrite E. cbn [obind].
    destruct (update_lb nh nb mx sh Hnb0 bucket bucket_range s _ x w L ltac:(lia)) as (s1 & E1 & L1).
    exists s1. split; [exact E1|]. split; [exact L1|].
    pose proof (update_total _ _ _ _ E1) as T1.
    assert (cm_total s1 <= pweight p + w) by (destruct (w =? 0); lia).
    split; [assumption|]. apply (Hwfc _ _ (pweight p + w) L1); lia.
  - destruct Hok as [Hp Hq].
    destruct (IHp Hp ltac:(lia)) as [(s & E & L & Ht & _)|[E Hi]]; [|right; rewrite E; auto].
    destruct (IHq Hq ltac:(lia)) as [(o & Eo & Lo & Hto & _)|[Eo Hi]]; [|right; rewrite E, Eo; auto].
    left. rewrite E, Eo. cbn [obind].
    destruct (merge_lb s o _ _ L Lo ltac:(lia)) as (s1 & E1 & L1 & T1).
    exists s1. split; [exact E1|]. split; [exact L1|]. split; [lia|].
    apply (Hwfc _ _ (pweight p + pweight q) L1); lia.
  - destruct (IH Hok Hfit) as [(s & E & L & Ht & _)|[E Hi]]; [|right; rewrite E; auto]. left.
    rewrite E. cbn [obind].
    pose proof (halve_lb nh nb mx sh Hnb0 bucket bucket_range s _ L) as L1.
    assert (cm_total (cm_halve s) <= pweight p).
    { unfold cm_halve; cbn [cm_total]. pose proof (N.div_le_upper_bound (cm_total s) 2 (cm_total s)). lia. }
    eexists. split; [reflexivity|]. split; [exact L1|]. split; [assumption|]. apply (Hwfc _ _ (pweight p) L1); lia.
  - destruct Hok as (Hm & H0 & Hle & Hp).
    destruct (IH Hp Hfit) as [(s & E & L & Ht & _)|[E Hi]]; [|right; rewrite E; auto]. left.
    rewrite E. cbn [obind].
    pose proof (scale_lb nh nb mx sh bucket g s _ Hm H0 L) as L1.
    assert (cm_total (cm_scale g s) <= pweight p).
    { unfold cm_scale; cbn [cm_total]. specialize (Hle (cm_total s)). lia. }
    eexists. split; [reflexivity|]. split; [exact L1|]. split; [assumption|]. apply (Hwfc _ _ (pweight p) L1); lia.
  - destruct (IH Hok Hfit) as [(s & E & L & Ht & W)|[E Hi]]; [|right; rewrite E; auto]. left.
    rewrite E. cbn [obind].
    rewrite (roundtrip mx sh s W). exists s. split; [reflexivity|]. split; [exact L|]. split; [exact Ht|exact W].
  - pose proof (deserialize_never_stuck mx sh bs) as Hns.
    destruct (cm_deserialize mx sh bs) as [s| |] eqn:E; [left|right; auto|congruence].
    destruct (Hok s eq_refl) as [En Eb]. destruct (deserialize_lb bs s E En Eb) as [L Ht].
    exists s. split; [reflexivity|]. split; [exact L|]. split; [apply N.le_refl|].
    apply (lb_wfc s _ L Ht).
Qed.

(* ... with every table index inside the table *)
Theorem api_no_stuck : forall p, pok p -> pweight p <= mx -> ~ has_image p ->
  exists s, eval p = Ok s /\ LB s (ptruth p) /\ cm_total s <= pweight p /\ wfc mx sh s /\
            (forall x r, r < nh -> (N.to_nat (r * nb + bucket x r) < length (cm_counts s))%nat).
Proof.
  intros p Hok Hfit Hni. destruct (api_no_stuck_general p Hok Hfit) as [(s & E & L & Ht & W)|[_ Hi]]; [|contradiction].
  exists s. split; [exact E|]. split; [exact L|]. split; [exact Ht|]. split; [exact W|]. apply (lb_indices s _ L).
Qed.

Theorem api_never_stuck : forall p, pok p -> pweight p <= mx -> eval p <> Stuck.
Proof.
  intros p Hok Hfit. destruct (api_no_stuck_general p Hok Hfit) as [(s & E & _)|[E _]]; rewrite E; discriminate.
Qed.

(* C08 for programs: merges interleaved with halve / decay keep the one-sided guarantee: for every item,
   its correspondingly scaled true weight <= estimate <= total weight *)
Theorem api_one_sided : forall p s x, pok p -> pweight p <= mx -> eval p = Ok s ->
  ptruth p x <= cm_estimate s (bk_of nh bucket x) /\ cm_estimate s (bk_of nh bucket x) <= cm_total s.
Proof.
  intros p s x Hok Hfit E. destruct (api_no_stuck_general p Hok Hfit) as [(s' & E' & L & Ht & W)|[E' _]]; [|congruence].
  rewrite E in E'. inversion E'; subst s'.
  apply (estimate_lb nh nb mx sh Hnb0 bucket bucket_range s _ x L ltac:(lia) ltac:(lia)).
Qed.

(* the queries are total functions of the state; on the result of a valid program they are
   ordered  f x <= lower_bound = estimate <= upper_bound <= T::MAX  and estimate <= total *)
Theorem api_queries_ordered : forall p s x err, pok p -> pweight p <= mx -> eval p = Ok s ->
  cm_lower_bound s (bk_of nh bucket x) <= cm_total s /\
  cm_lower_bound s (bk_of nh bucket x) <= cm_upper_bound s (bk_of nh bucket x) err /\
  cm_upper_bound s (bk_of nh bucket x) err <= mx.
Proof.
  intros p s x err Hok Hfit E. destruct (api_no_stuck_general p Hok Hfit) as [(s' & E' & L & Ht & W)|[E' _]]; [|congruence].
  rewrite E in E'. inversion E'; subst s'.
  pose proof (estimate_lb nh nb mx sh Hnb0 bucket bucket_range s _ x L ltac:(lia) ltac:(lia)) as [_ H2].
  pose proof (upper_bound_sound s (bk_of nh bucket x) err) as (U1 & U2 & _).
  destruct L as ((_ & _ & Em & _) & _). rewrite Em in U2. unfold cm_lower_bound in *. repeat split; auto.
Qed.

End API.
