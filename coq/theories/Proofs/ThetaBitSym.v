(* Reflection for the bit expressions of theta/bit_pack.rs (Base/BitExp.v).

   [sym vw e] evaluates an expression symbolically: the result is a list of 64 symbolic bits
   (LSB first), each either constant 0 ([None]) or bit b of variable v ([Some (v, b)]).  It
   fails ([None]) when two different symbolic bits would have to be OR-ed (never the case in
   bit packing code, where fields do not overlap).  [sym_sound]: for EVERY environment whose
   variables are below 2^vw, bit t of [den rho e] is the value of the t-th symbolic bit.
   So comparing [sym vw e] with an expected layout (a [vm_compute] over the translated
   functions) proves the function correct for all 2^64-valued inputs. *)
From Coq Require Import List NArith Nnat Bool Lia PeanoNat.
From DS Require Import Base.BitExp.
Import ListNotations.
Open Scope N_scope.

Definition sbit := option (nat * nat).

Definition zeros (n : nat) : list sbit := repeat None n.

Fixpoint seqbits (v from n : nat) : list sbit :=
  match n with O => [] | S m => Some (v, from) :: seqbits v (S from) m end.

Definition sbit_eqb (a b : nat * nat) : bool := Nat.eqb (fst a) (fst b) && Nat.eqb (snd a) (snd b).

Fixpoint zip_or (a b : list sbit) : option (list sbit) :=
  match a, b with
  | [], [] => Some []
  | x :: a', y :: b' =>
      match zip_or a' b' with
      | None => None
      | Some r =>
          match x, y with
          | None, _ => Some (y :: r)
          | _, None => Some (x :: r)
          | Some p, Some q => if sbit_eqb p q then Some (x :: r) else None
          end
      end
  | _, _ => None
  end.

Fixpoint mask_bits (l : list sbit) (m : N) (i : nat) : list sbit :=
  match l with
  | [] => []
  | x :: r => (if N.testbit m (N.of_nat i) then x else None) :: mask_bits r m (S i)
  end.

Definition var_bits (vw i : nat) : list sbit := seqbits i 0 vw ++ zeros (64 - vw).
Arguments var_bits : simpl never.

(* [vw] = width of the variables: 64 for packers (u64 values), 8 for unpackers (u8 bytes) *)
Fixpoint sym (vw : nat) (e : exp) : option (list sbit) :=
  match e with
  | Var i => if (vw <=? 64)%nat then Some (var_bits vw i) else None
  | Zero => Some (zeros 64)
  | Shl e n =>
      match sym vw e with
      | None => None
      | Some l => if 64 <=? n then Some (zeros 64) else Some (firstn 64 (zeros (N.to_nat n) ++ l))
      end
  | Shr e n =>
      match sym vw e with
      | None => None
      | Some l => if 64 <=? n then Some (zeros 64) else Some (skipn (N.to_nat n) l ++ zeros (N.to_nat n))
      end
  | And e m => match sym vw e with None => None | Some l => Some (mask_bits l m 0) end
  | Or a b => match sym vw a, sym vw b with Some x, Some y => zip_or x y | _, _ => None end
  | Cast8 e => match sym vw e with None => None | Some l => Some (firstn 8 l ++ zeros 56) end
  | Cast64 e => sym vw e
  end.

(* ---------- meaning of symbolic bits ---------- *)
Definition bitval (rho : nat -> N) (s : sbit) : bool :=
  match s with None => false | Some (v, b) => N.testbit (rho v) (N.of_nat b) end.

Definition agrees (rho : nat -> N) (x : N) (l : list sbit) : Prop :=
  length l = 64%nat /\ forall t, N.testbit x (N.of_nat t) = bitval rho (nth t l None).

Lemma nth_zeros : forall n t, nth t (zeros n) None = (None : sbit).
Proof. intros. unfold zeros. destruct (Nat.lt_ge_cases t n); [apply nth_repeat|apply nth_overflow; rewrite repeat_length; lia]. Qed.

Lemma zeros_length : forall n, length (zeros n) = n.
Proof. intros. apply repeat_length. Qed.

Lemma seqbits_length : forall v from n, length (seqbits v from n) = n.
Proof. intros v from n. revert from. induction n as [|n IH]; intros; cbn [seqbits length]; [reflexivity|now rewrite IH]. Qed.

Lemma nth_seqbits : forall v n from t, (t < n)%nat -> nth t (seqbits v from n) None = Some (v, (from + t)%nat).
Proof.
  intros v n. induction n as [|n IH]; intros from t Ht; [lia|].
  cbn [seqbits]. destruct t as [|t]; cbn [nth]; [f_equal; f_equal; lia|].
  rewrite IH by lia. f_equal. f_equal. lia.
Qed.

Lemma testbit_high : forall x k t, x < 2 ^ k -> k <= t -> N.testbit x t = false.
Proof.
  intros x k t Hx Hk. destruct (N.eq_dec x 0) as [->|Hnz]; [apply N.bits_0|].
  apply N.bits_above_log2. apply N.log2_lt_pow2 in Hx; lia.
Qed.

Lemma mask_bits_length : forall l m i, length (mask_bits l m i) = length l.
Proof. induction l as [|x r IH]; intros; cbn [mask_bits length]; [reflexivity|now rewrite IH]. Qed.

Lemma nth_mask_bits : forall l m i t,
  nth t (mask_bits l m i) None = if N.testbit m (N.of_nat (i + t)) then nth t l None else None.
Proof.
  induction l as [|x r IH]; intros m i t; cbn [mask_bits].
  - destruct t; cbn; now destruct (N.testbit m _).
  - destruct t as [|t]; cbn [nth].
    + now rewrite Nat.add_0_r.
    + rewrite IH. now replace (S i + t)%nat with (i + S t)%nat by lia.
Qed.

Lemma zip_or_spec : forall a b r, zip_or a b = Some r ->
  length r = length a /\ length b = length a /\
  forall rho t, bitval rho (nth t r None) = bitval rho (nth t a None) || bitval rho (nth t b None).
Proof.
  induction a as [|x a IH]; intros [|y b] r H; cbn [zip_or] in H; try discriminate.
  - inversion H. subst. repeat split. intros rho t. destruct t; reflexivity.
  - destruct (zip_or a b) as [r0|] eqn:E; [|discriminate].
    destruct (IH b r0 E) as [L1 [L2 Hb]].
    assert (Hcons : forall z, (forall rho, bitval rho z = bitval rho x || bitval rho y) ->
              length (z :: r0) = length (x :: a) /\ length (y :: b) = length (x :: a) /\
              forall rho t, bitval rho (nth t (z :: r0) None) = bitval rho (nth t (x :: a) None) || bitval rho (nth t (y :: b) None)).
    { intros z Hz. cbn [length]. repeat split; try lia. intros rho [|t]; cbn [nth]; [apply Hz|apply Hb]. }
    destruct x as [p|]; destruct y as [q|].
    + destruct (sbit_eqb p q) eqn:Epq; [|discriminate]. injection H as <-. apply Hcons.
      intros rho. unfold sbit_eqb in Epq. apply andb_prop in Epq as [E1 E2].
      apply Nat.eqb_eq in E1, E2. destruct p, q. cbn in *. subst. now rewrite orb_diag.
    + injection H as <-. apply Hcons. intros. cbn. now rewrite orb_false_r.
    + injection H as <-. apply Hcons. intros. reflexivity.
    + injection H as <-. apply Hcons. intros. reflexivity.
Qed.

Lemma agrees_zeros : forall rho, agrees rho 0 (zeros 64).
Proof. intros. split; [apply zeros_length|]. intros t. rewrite N.bits_0, nth_zeros. reflexivity. Qed.

Lemma agrees_lt : forall rho x l, agrees rho x l -> x < TWO64.
Proof.
  intros rho x l [Hl Hb]. destruct (N.lt_ge_cases x TWO64) as [|Hge]; [assumption|exfalso].
  assert (Hnz : x <> 0) by (unfold TWO64 in Hge; lia).
  pose proof (N.bit_log2 x Hnz) as Hbit.
  assert (Hlog : 64 <= N.log2 x) by (change 64 with (N.log2 TWO64); now apply N.log2_le_mono).
  specialize (Hb (N.to_nat (N.log2 x))). rewrite N2Nat.id, Hbit in Hb.
  rewrite nth_overflow in Hb by lia. discriminate.
Qed.

Lemma nth_firstn_lt : forall (A : Type) (l : list A) n t d, (t < n)%nat -> nth t (firstn n l) d = nth t l d.
Proof.
  induction l as [|a l IH]; intros n t d H; [rewrite firstn_nil; reflexivity|].
  destruct n as [|n]; [lia|]. destruct t as [|t]; cbn [firstn nth]; [reflexivity|]. apply IH. lia.
Qed.

Lemma nth_skipn_add : forall (A : Type) (l : list A) n t d, nth t (skipn n l) d = nth (n + t) l d.
Proof.
  induction l as [|a l IH]; intros n t d; [rewrite skipn_nil; destruct t, n; reflexivity|].
  destruct n as [|n]; cbn [skipn Nat.add nth]; [reflexivity|]. apply IH.
Qed.

Lemma Some_inj : forall (A : Type) (a b : A), Some a = Some b -> a = b.
Proof. intros A a b H. congruence. Qed.

Lemma sym_Var vw i : sym vw (Var i) = if (vw <=? 64)%nat then Some (var_bits vw i) else None. Proof. reflexivity. Qed.
Lemma sym_Zero vw : sym vw Zero = Some (zeros 64). Proof. reflexivity. Qed.
Lemma sym_Shl vw e n : sym vw (Shl e n) =
  match sym vw e with
  | None => None
  | Some l => if 64 <=? n then Some (zeros 64) else Some (firstn 64 (zeros (N.to_nat n) ++ l))
  end. Proof. reflexivity. Qed.
Lemma sym_Shr vw e n : sym vw (Shr e n) =
  match sym vw e with
  | None => None
  | Some l => if 64 <=? n then Some (zeros 64) else Some (skipn (N.to_nat n) l ++ zeros (N.to_nat n))
  end. Proof. reflexivity. Qed.
Lemma sym_And vw e m : sym vw (And e m) = match sym vw e with None => None | Some l => Some (mask_bits l m 0) end.
Proof. reflexivity. Qed.
Lemma sym_Or vw a b : sym vw (Or a b) = match sym vw a, sym vw b with Some x, Some y => zip_or x y | _, _ => None end.
Proof. reflexivity. Qed.
Lemma sym_Cast8 vw e : sym vw (Cast8 e) = match sym vw e with None => None | Some l => Some (firstn 8 l ++ zeros 56) end.
Proof. reflexivity. Qed.
Lemma sym_Cast64 vw e : sym vw (Cast64 e) = sym vw e. Proof. reflexivity. Qed.
Lemma den_Var rho i : den rho (Var i) = rho i. Proof. reflexivity. Qed.
Lemma den_Zero rho : den rho Zero = 0. Proof. reflexivity. Qed.
Lemma den_Shl rho e n : den rho (Shl e n) = (N.shiftl (den rho e) n) mod TWO64. Proof. reflexivity. Qed.
Lemma den_Shr rho e n : den rho (Shr e n) = N.shiftr (den rho e) n. Proof. reflexivity. Qed.
Lemma den_And rho e m : den rho (And e m) = N.land (den rho e) m. Proof. reflexivity. Qed.
Lemma den_Or rho a b : den rho (Or a b) = N.lor (den rho a) (den rho b). Proof. reflexivity. Qed.
Lemma den_Cast8 rho e : den rho (Cast8 e) = (den rho e) mod 256. Proof. reflexivity. Qed.
Lemma den_Cast64 rho e : den rho (Cast64 e) = den rho e. Proof. reflexivity. Qed.

Theorem sym_sound : forall vw rho e l,
  (forall i, rho i < 2 ^ N.of_nat vw) -> sym vw e = Some l -> agrees rho (den rho e) l.
Proof.
  intros vw rho e. induction e as [i| |e IH n|e IH n|e IH m|a IHa b IHb|e IH|e IH]; intros l Hrho H;
    [rewrite sym_Var in H|rewrite sym_Zero in H|rewrite sym_Shl in H|rewrite sym_Shr in H|rewrite sym_And in H
    |rewrite sym_Or in H|rewrite sym_Cast8 in H|rewrite sym_Cast64 in H];
    [rewrite den_Var|rewrite den_Zero|rewrite den_Shl|rewrite den_Shr|rewrite den_And|rewrite den_Or|rewrite den_Cast8|rewrite den_Cast64].
  - (* Var *)
    destruct (Nat.leb_spec vw 64) as [Hvw|]; [|discriminate]. apply Some_inj in H; subst l. unfold var_bits. split.
    + rewrite app_length, seqbits_length, zeros_length. lia.
    + intros t. destruct (Nat.lt_ge_cases t vw) as [Ht|Ht].
      * rewrite app_nth1 by (rewrite seqbits_length; exact Ht). rewrite nth_seqbits by exact Ht. reflexivity.
      * rewrite app_nth2 by (rewrite seqbits_length; exact Ht). rewrite nth_zeros. cbn [bitval].
        apply (testbit_high _ (N.of_nat vw)); [apply Hrho|lia].
  - (* Zero *) apply Some_inj in H; subst l. apply agrees_zeros.
  - (* Shl *)
    destruct (sym vw e) as [l0|] eqn:E; [|discriminate]. destruct (IH l0 Hrho eq_refl) as [L0 B0].
    destruct (N.leb_spec 64 n) as [Hn|Hn]; apply Some_inj in H; subst l.
    + replace (N.shiftl (den rho e) n mod TWO64) with 0; [apply agrees_zeros|].
      symmetry. apply N.bits_inj_0. intros t. change TWO64 with (2 ^ 64).
      destruct (N.lt_ge_cases t 64) as [Ht|Ht].
      * rewrite N.mod_pow2_bits_low by exact Ht. apply N.shiftl_spec_low. lia.
      * apply N.mod_pow2_bits_high. exact Ht.
    + split.
      * rewrite firstn_length, app_length, zeros_length. lia.
      * intros t. change TWO64 with (2 ^ 64). destruct (Nat.lt_ge_cases t 64) as [Ht|Ht].
        -- rewrite N.mod_pow2_bits_low by lia.
           rewrite nth_firstn_lt by exact Ht.
           destruct (Nat.lt_ge_cases t (N.to_nat n)) as [Htn|Htn].
           ++ rewrite app_nth1 by (rewrite zeros_length; exact Htn). rewrite nth_zeros. cbn [bitval].
              apply N.shiftl_spec_low. lia.
           ++ rewrite app_nth2 by (rewrite zeros_length; exact Htn). rewrite zeros_length.
              rewrite N.shiftl_spec_high' by lia. rewrite <- B0. f_equal. lia.
        -- rewrite N.mod_pow2_bits_high by lia. rewrite nth_overflow; [reflexivity|].
           rewrite firstn_length, app_length, zeros_length. lia.
  - (* Shr *)
    destruct (sym vw e) as [l0|] eqn:E; [|discriminate]. pose proof (IH l0 Hrho eq_refl) as A0.
    pose proof (agrees_lt _ _ _ A0) as Hlt. destruct A0 as [L0 B0].
    destruct (N.leb_spec 64 n) as [Hn|Hn]; apply Some_inj in H; subst l.
    + replace (N.shiftr (den rho e) n) with 0; [apply agrees_zeros|].
      symmetry. apply N.bits_inj_0. intros t. rewrite N.shiftr_spec'. apply (testbit_high _ 64); [exact Hlt|lia].
    + split.
      * rewrite app_length, skipn_length, zeros_length. lia.
      * intros t. rewrite N.shiftr_spec'.
        replace (N.of_nat t + n) with (N.of_nat (t + N.to_nat n)) by lia. rewrite B0.
        destruct (Nat.lt_ge_cases t (64 - N.to_nat n)) as [Ht|Ht].
        -- rewrite app_nth1 by (rewrite skipn_length; lia). rewrite nth_skipn_add. f_equal. f_equal. lia.
        -- rewrite app_nth2 by (rewrite skipn_length; lia). rewrite nth_zeros.
           rewrite nth_overflow by lia. reflexivity.
  - (* And *)
    destruct (sym vw e) as [l0|] eqn:E; [|discriminate]. destruct (IH l0 Hrho eq_refl) as [L0 B0].
    apply Some_inj in H; subst l. split; [rewrite mask_bits_length; exact L0|].
    intros t. rewrite N.land_spec, nth_mask_bits, B0. cbn [Nat.add].
    destruct (N.testbit m (N.of_nat t)); [apply andb_true_r|apply andb_false_r].
  - (* Or *)
    destruct (sym vw a) as [la|] eqn:Ea; [|discriminate]. destruct (sym vw b) as [lb|] eqn:Eb; [|discriminate].
    destruct (IHa la Hrho eq_refl) as [La Ba]. destruct (IHb lb Hrho eq_refl) as [Lb Bb].
    destruct (zip_or_spec la lb l H) as [L1 [_ Hb]]. split; [lia|].
    intros t. rewrite N.lor_spec, Hb, Ba, Bb. reflexivity.
  - (* Cast8 *)
    destruct (sym vw e) as [l0|] eqn:E; [|discriminate]. destruct (IH l0 Hrho eq_refl) as [L0 B0].
    apply Some_inj in H; subst l. split; [rewrite app_length, firstn_length, zeros_length; lia|].
    intros t. change 256 with (2 ^ 8). destruct (Nat.lt_ge_cases t 8) as [Ht|Ht].
    + rewrite N.mod_pow2_bits_low by lia. rewrite app_nth1 by (rewrite firstn_length; lia).
      rewrite nth_firstn_lt by exact Ht. apply B0.
    + rewrite N.mod_pow2_bits_high by lia. rewrite app_nth2 by (rewrite firstn_length; lia).
      rewrite nth_zeros. reflexivity.
  - (* Cast64 *) apply IH; assumption.
Qed.

(* ---------- numbers from bit functions ---------- *)
Lemma N_of_bits_lt : forall f n, N_of_bits f n < 2 ^ N.of_nat n.
Proof.
  induction n as [|n IH]; cbn [N_of_bits]; [cbn; lia|].
  rewrite Nat2N.inj_succ, N.pow_succ_r'. destruct (f n); lia.
Qed.

Lemma add_pow2_bits : forall x k t, x < 2 ^ k ->
  N.testbit (x + 2 ^ k) t = if t =? k then true else N.testbit x t.
Proof.
  intros x k t Hx. assert (Hp : 2 ^ k <> 0) by (apply N.pow_nonzero; lia).
  destruct (N.eqb_spec t k) as [->|Hne].
  - apply N.testbit_true. replace (x + 2 ^ k) with (x + 1 * 2 ^ k) by lia.
    rewrite N.div_add by exact Hp. rewrite N.div_small by exact Hx. reflexivity.
  - destruct (N.lt_ge_cases t k) as [Hlt|Hge].
    + rewrite <- (N.mod_pow2_bits_low (x + 2 ^ k) k t) by exact Hlt.
      replace (x + 2 ^ k) with (x + 1 * 2 ^ k) by lia. rewrite N.mod_add by exact Hp.
      rewrite N.mod_small by exact Hx. reflexivity.
    + rewrite (testbit_high x k t Hx Hge). apply (testbit_high _ (N.succ k)); [|lia].
      rewrite N.pow_succ_r'. lia.
Qed.

Lemma N_of_bits_spec : forall f n t,
  N.testbit (N_of_bits f n) (N.of_nat t) = if (t <? n)%nat then f t else false.
Proof.
  induction n as [|n IH]; intros t; cbn [N_of_bits].
  - rewrite N.bits_0. reflexivity.
  - pose proof (N_of_bits_lt f n) as Hlt.
    assert (Hcases : (t < n \/ t = n \/ n < t)%nat) by lia.
    destruct (f n) eqn:Efn.
    + rewrite add_pow2_bits by exact Hlt. rewrite IH.
      destruct Hcases as [H|[H|H]].
      * destruct (N.eqb_spec (N.of_nat t) (N.of_nat n)); [lia|].
        destruct (Nat.ltb_spec t n); [|lia]. destruct (Nat.ltb_spec t (S n)); [reflexivity|lia].
      * subst t. rewrite N.eqb_refl. destruct (Nat.ltb_spec n (S n)); [now rewrite Efn|lia].
      * destruct (N.eqb_spec (N.of_nat t) (N.of_nat n)); [lia|].
        destruct (Nat.ltb_spec t n); [lia|]. destruct (Nat.ltb_spec t (S n)); [lia|reflexivity].
    + rewrite N.add_0_r, IH.
      destruct Hcases as [H|[H|H]].
      * destruct (Nat.ltb_spec t n); [|lia]. destruct (Nat.ltb_spec t (S n)); [reflexivity|lia].
      * subst t. destruct (Nat.ltb_spec n n); [lia|]. destruct (Nat.ltb_spec n (S n)); [now rewrite Efn|lia].
      * destruct (Nat.ltb_spec t n); [lia|]. destruct (Nat.ltb_spec t (S n)); [lia|reflexivity].
Qed.

Lemma testbit_nat_inj : forall x y, (forall t, N.testbit x (N.of_nat t) = N.testbit y (N.of_nat t)) -> x = y.
Proof. intros x y H. apply N.bits_inj. intros n. rewrite <- (N2Nat.id n). apply H. Qed.

(* an expression whose symbolic value is the layout [lay] (n meaningful low bits, zeros above)
   denotes the number with those bits *)
Definition layout (lay : nat -> sbit) (n : nat) : list sbit := map lay (seq 0 n) ++ zeros (64 - n).

Lemma nth_layout : forall lay n t, (n <= 64)%nat ->
  nth t (layout lay n) None = if (t <? n)%nat then lay t else None.
Proof.
  intros lay n t Hn. unfold layout. destruct (Nat.ltb_spec t n) as [Ht|Ht].
  - rewrite app_nth1 by (rewrite map_length, seq_length; exact Ht).
    rewrite (nth_indep _ None (lay 0%nat)) by (rewrite map_length, seq_length; exact Ht).
    rewrite map_nth, seq_nth by exact Ht. reflexivity.
  - rewrite app_nth2 by (rewrite map_length, seq_length; exact Ht). apply nth_zeros.
Qed.

Fixpoint sbits_eqb (a b : list sbit) : bool :=
  match a, b with
  | [], [] => true
  | x :: a', y :: b' =>
      (match x, y with None, None => true | Some p, Some q => sbit_eqb p q | _, _ => false end) && sbits_eqb a' b'
  | _, _ => false
  end.

Lemma sbits_eqb_eq : forall a b, sbits_eqb a b = true -> a = b.
Proof.
  induction a as [|x a IH]; intros [|y b] H; cbn [sbits_eqb] in H; try discriminate; [reflexivity|].
  apply andb_prop in H as [H1 H2]. f_equal; [|now apply IH].
  destruct x as [[v1 b1]|], y as [[v2 b2]|]; try discriminate; [|reflexivity].
  unfold sbit_eqb in H1. cbn in H1. apply andb_prop in H1 as [E1 E2].
  apply Nat.eqb_eq in E1, E2. now subst.
Qed.

(* the reflection step: one boolean check gives the value of [den] for all environments *)
Definition check_exp (vw : nat) (e : exp) (lay : nat -> sbit) (n : nat) : bool :=
  (n <=? 64)%nat && match sym vw e with Some l => sbits_eqb l (layout lay n) | None => false end.

Theorem check_exp_sound : forall vw e lay n rho,
  check_exp vw e lay n = true -> (forall i, rho i < 2 ^ N.of_nat vw) ->
  den rho e = N_of_bits (fun t => bitval rho (lay t)) n.
Proof.
  intros vw e lay n rho H Hrho. unfold check_exp in H. apply andb_prop in H as [Hn H].
  apply Nat.leb_le in Hn. destruct (sym vw e) as [l|] eqn:E; [|discriminate].
  apply sbits_eqb_eq in H. subst l. destruct (sym_sound vw rho e _ Hrho E) as [_ Hb].
  apply testbit_nat_inj. intros t. rewrite Hb, nth_layout by exact Hn. rewrite N_of_bits_spec.
  destruct (t <? n)%nat; reflexivity.
Qed.
