(* Base lemmas for the t-digest proofs: boolean comparisons on Q, weights, cumulative weights and
   centres, sorted means by index, partition points. *)
From Coq Require Import QArith Qabs Lia Lqa Qfield.
From DS Require Import Base.Prelude Model.TDigest Spec.TDigestSpec.
Open Scope Q_scope.

(* `x / 2` is not understood by lra: turn constant divisions into multiplications *)
Ltac q2 := unfold Qdiv in *; change (/ 2) with (1#2) in *.

(* ---------- boolean comparisons ---------- *)
Lemma Qltb_true a b : Qltb a b = true <-> a < b.
Proof.
  unfold Qltb. rewrite negb_true_iff. split; intros H.
  - apply Qnot_le_lt. intros L. apply Qle_bool_iff in L. congruence.
  - destruct (Qle_bool b a) eqn:E; auto. apply Qle_bool_iff in E. lra.
Qed.

Lemma Qltb_false a b : Qltb a b = false <-> b <= a.
Proof.
  unfold Qltb. rewrite negb_false_iff. apply Qle_bool_iff.
Qed.

Lemma Qleb_false a b : Qle_bool a b = false <-> b < a.
Proof.
  split; intros H.
  - apply Qnot_le_lt. intros L. apply Qle_bool_iff in L. congruence.
  - destruct (Qle_bool a b) eqn:E; auto. apply Qle_bool_iff in E. lra.
Qed.

Lemma Qeqb_false a b : Qeq_bool a b = false <-> ~ a == b.
Proof.
  split; intros H.
  - apply Qeq_bool_neq; auto.
  - destruct (Qeq_bool a b) eqn:E; auto. apply Qeq_bool_iff in E. contradiction.
Qed.

(* case analysis on the model's boolean tests, leaving Prop facts *)
Ltac qb H := first
  [ apply Qltb_true in H | apply Qltb_false in H | apply Qle_bool_iff in H | apply Qleb_false in H
  | apply Qeq_bool_iff in H | apply Qeqb_false in H ].

(* t = a / d and t' = a' / d with a <= a' *)
Lemma div_mono t t' d a a' : 0 < d -> t * d == a -> t' * d == a' -> a <= a' -> t <= t'.
Proof.
  intros Hd H1 H2 Ha. destruct (Qlt_le_dec t' t) as [L|L]; auto. exfalso.
  assert (0 < (t - t') * d) by (apply Qmult_lt_0_compat; lra). lra.
Qed.

Lemma div_01 t d a : 0 < d -> t * d == a -> 0 <= a -> a <= d -> 0 <= t /\ t <= 1.
Proof.
  intros Hd H1 H2 H3. split.
  - apply (div_mono 0 t d 0 a); auto; lra.
  - apply (div_mono t 1 d a d); auto; lra.
Qed.

(* ---------- weights ---------- *)
Lemma c_wz_pos c : (1 <= c_wz c)%Z.
Proof. unfold c_wz. lia. Qed.

Lemma c_w_ge1 c : 1 <= c_w c.
Proof. unfold c_w. change 1 with (inject_Z 1). rewrite <- Zle_Qle. apply c_wz_pos. Qed.

Lemma c_w_unit c : snd c = 1%positive -> c_w c == 1.
Proof. unfold c_w, c_wz. intros ->. reflexivity. Qed.

Lemma c_w_ge2 c : snd c <> 1%positive -> 2 <= c_w c.
Proof. unfold c_w, c_wz. intros H. change 2 with (inject_Z 2). rewrite <- Zle_Qle. lia. Qed.

Lemma pos_eqb_1 p : Pos.eqb p 1 = true <-> p = 1%positive.
Proof. apply Pos.eqb_eq. Qed.

Lemma c_w_gt1 c : 1 < c_w c <-> snd c <> 1%positive.
Proof.
  split; intros H.
  - intros E. rewrite (c_w_unit _ E) in H. lra.
  - pose proof (c_w_ge2 _ H). lra.
Qed.

Lemma sumw_cons c a : sumw (c :: a) = (c_wz c + sumw a)%Z.
Proof. reflexivity. Qed.

Lemma sumw_nil : sumw [] = 0%Z.
Proof. reflexivity. Qed.

Lemma sumw_app a b : sumw (a ++ b) = (sumw a + sumw b)%Z.
Proof.
  induction a as [|c a IH]; [rewrite sumw_nil; cbn [app]; lia|].
  cbn [app]. rewrite !sumw_cons, IH. lia.
Qed.

Lemma sumw_nonneg a : (0 <= sumw a)%Z.
Proof. induction a as [|c a IH]; [cbn; lia|]. rewrite sumw_cons. pose proof (c_wz_pos c). lia. Qed.

(* ---------- nth / firstn ---------- *)
Lemma nthc_cons_S c cs i : nthc (c :: cs) (S i) = nthc cs i.
Proof. reflexivity. Qed.

Lemma firstn_S_nthc : forall cs i, (i < length cs)%nat -> firstn (S i) cs = firstn i cs ++ [nthc cs i].
Proof.
  induction cs as [|c cs IH]; intros [|i] H; cbn [length] in H; try lia; auto.
  rewrite !firstn_cons. rewrite IH by lia. reflexivity.
Qed.

Lemma W_0 cs : Wbefore cs 0 = 0%Z.
Proof. reflexivity. Qed.

Lemma W_S cs i : (i < length cs)%nat -> Wbefore cs (S i) = (Wbefore cs i + c_wz (nthc cs i))%Z.
Proof.
  intros H. unfold Wbefore. rewrite firstn_S_nthc by auto. rewrite sumw_app. rewrite sumw_cons. cbn. lia.
Qed.

Lemma W_all cs : Wbefore cs (length cs) = sumw cs.
Proof. unfold Wbefore. rewrite firstn_all. reflexivity. Qed.

Lemma W_cons c cs i : Wbefore (c :: cs) (S i) = (c_wz c + Wbefore cs i)%Z.
Proof. reflexivity. Qed.

Lemma W_mono cs : forall i j, (i <= j)%nat -> (j <= length cs)%nat -> (Wbefore cs i <= Wbefore cs j)%Z.
Proof.
  intros i j Hij. induction Hij as [|j Hij IH]; intros Hj; [lia|].
  rewrite W_S by lia. pose proof (c_wz_pos (nthc cs j)). specialize (IH ltac:(lia)). lia.
Qed.

Lemma firstn_split {A} : forall l (cs : list A) u, (l <= u)%nat ->
  firstn u cs = firstn l cs ++ firstn (u - l) (skipn l cs).
Proof.
  induction l as [|l IH]; intros cs u H.
  - cbn [firstn skipn app]. rewrite Nat.sub_0_r. reflexivity.
  - destruct cs as [|c cs].
    + cbn [skipn]. rewrite !firstn_nil. reflexivity.
    + destruct u as [|u]; [lia|]. rewrite !firstn_cons. cbn [skipn].
      rewrite (IH cs u) by lia. replace (S u - S l)%nat with (u - l)%nat by lia. reflexivity.
Qed.

Lemma W_split cs l u : (l <= u)%nat ->
  Wbefore cs u = (Wbefore cs l + sumw (firstn (u - l) (skipn l cs)))%Z.
Proof.
  intros H. unfold Wbefore. rewrite <- sumw_app. f_equal. apply firstn_split; auto.
Qed.

(* doubled centre, an integer *)
Definition cen2 (cs : list centroid) (i : nat) : Z := (2 * Wbefore cs i + c_wz (nthc cs i))%Z.

Lemma centre_cen2 cs i : centre cs i == inject_Z (cen2 cs i) / 2.
Proof.
  unfold centre, cen2, c_w. rewrite inject_Z_plus, inject_Z_mult. change (inject_Z 2) with 2. q2. lra.
Qed.

Lemma cen2_S cs i : (S i < length cs)%nat ->
  cen2 cs (S i) = (cen2 cs i + c_wz (nthc cs i) + c_wz (nthc cs (S i)))%Z.
Proof. intros H. unfold cen2. rewrite W_S by lia. lia. Qed.

Lemma cen2_lt cs : forall i j, (i < j)%nat -> (j < length cs)%nat -> (cen2 cs i + 2 <= cen2 cs j)%Z.
Proof.
  intros i j Hij. induction Hij as [|j Hij IH]; intros Hj.
  - rewrite cen2_S by lia. pose proof (c_wz_pos (nthc cs i)). pose proof (c_wz_pos (nthc cs (S i))). lia.
  - rewrite cen2_S by lia. pose proof (c_wz_pos (nthc cs j)). pose proof (c_wz_pos (nthc cs (S j))).
    specialize (IH ltac:(lia)). lia.
Qed.

Lemma cen2_le cs i j : (i <= j)%nat -> (j < length cs)%nat -> (cen2 cs i <= cen2 cs j)%Z.
Proof.
  intros Hij Hj. destruct (Nat.eq_dec i j) as [->|Hne]; [lia|].
  pose proof (cen2_lt cs i j ltac:(lia) Hj). lia.
Qed.

Lemma cen2_0 cs : cen2 cs 0 = c_wz (nthc cs 0).
Proof. unfold cen2. rewrite W_0. lia. Qed.

Lemma cen2_last cs : cs <> [] -> cen2 cs (length cs - 1) = (2 * sumw cs - c_wz (nthc cs (length cs - 1)))%Z.
Proof.
  intros H. assert (0 < length cs)%nat by (destruct cs; cbn; [congruence|lia]).
  pose proof (W_S cs (length cs - 1) ltac:(lia)) as HS.
  replace (S (length cs - 1)) with (length cs) in HS by lia. rewrite W_all in HS. unfold cen2. lia.
Qed.

Lemma centre_le cs i j : (i <= j)%nat -> (j < length cs)%nat -> centre cs i <= centre cs j.
Proof.
  intros Hij Hj. rewrite !centre_cen2. pose proof (cen2_le cs i j Hij Hj) as H.
  rewrite Zle_Qle in H. q2. lra.
Qed.

Lemma centre_lt cs i j : (i < j)%nat -> (j < length cs)%nat -> centre cs i + 1 <= centre cs j.
Proof.
  intros Hij Hj. rewrite !centre_cen2. pose proof (cen2_lt cs i j Hij Hj) as H.
  rewrite Zle_Qle in H. rewrite inject_Z_plus in H. change (inject_Z 2) with 2 in H. q2. lra.
Qed.

Lemma centre_S cs i : (S i < length cs)%nat ->
  centre cs (S i) == centre cs i + (c_w (nthc cs i) + c_w (nthc cs (S i))) / 2.
Proof.
  intros H. rewrite !centre_cen2, cen2_S by auto. unfold c_w. rewrite !inject_Z_plus. q2. lra.
Qed.

Lemma centre_0 cs : centre cs 0 == c_w (nthc cs 0) / 2.
Proof. rewrite centre_cen2, cen2_0. reflexivity. Qed.

Lemma centre_last cs : cs <> [] ->
  centre cs (length cs - 1) == inject_Z (sumw cs) - c_w (nthc cs (length cs - 1)) / 2.
Proof.
  intros H. rewrite centre_cen2, cen2_last by auto. unfold c_w, Z.sub.
  rewrite inject_Z_plus, inject_Z_mult, inject_Z_opp. change (inject_Z 2) with 2. q2. lra.
Qed.

(* ---------- sorted means, by index ---------- *)
Lemma sortedP_tail c cs : sortedP (c :: cs) -> sortedP cs.
Proof. destruct cs; cbn; tauto. Qed.

Lemma sortedP_nth : forall cs, sortedP cs ->
  forall i j, (i <= j)%nat -> (j < length cs)%nat -> c_mean (nthc cs i) <= c_mean (nthc cs j).
Proof.
  induction cs as [|c cs IH]; intros S i j Hij Hj; [cbn in Hj; lia|].
  destruct j as [|j].
  - replace i with 0%nat by lia. lra.
  - destruct i as [|i].
    + assert (c_mean c <= c_mean (nthc cs 0)) as H0.
      { destruct cs as [|b cs]; [cbn in Hj; lia|]. destruct S as [S1 _]. exact S1. }
      rewrite nthc_cons_S. change (nthc (c :: cs) 0) with c.
      eapply Qle_trans; [exact H0|]. apply IH; [eapply sortedP_tail; eauto|lia|cbn in Hj; lia].
    + rewrite !nthc_cons_S. apply IH; [eapply sortedP_tail; eauto|lia|cbn in Hj; lia].
Qed.

Lemma strictP_sortedP cs : strictP cs -> sortedP cs.
Proof.
  induction cs as [|a [|b cs] IH]; cbn; auto. intros [H1 H2]. split; [lra|]. apply IH; exact H2.
Qed.

Lemma strictP_tail c cs : strictP (c :: cs) -> strictP cs.
Proof. destruct cs; cbn; tauto. Qed.

Lemma strictP_nth : forall cs, strictP cs ->
  forall i j, (i < j)%nat -> (j < length cs)%nat -> c_mean (nthc cs i) < c_mean (nthc cs j).
Proof.
  induction cs as [|c cs IH]; intros S i j Hij Hj; [cbn in Hj; lia|].
  destruct j as [|j]; [lia|].
  destruct i as [|i].
  - assert (c_mean c < c_mean (nthc cs 0)) as H0.
    { destruct cs as [|b cs]; [cbn in Hj; lia|]. destruct S as [S1 _]. exact S1. }
    rewrite nthc_cons_S. change (nthc (c :: cs) 0) with c.
    eapply Qlt_le_trans; [exact H0|].
    apply sortedP_nth; [apply strictP_sortedP; eapply strictP_tail; eauto|lia|cbn in Hj; lia].
  - rewrite !nthc_cons_S. apply IH; [eapply strictP_tail; eauto|lia|cbn in Hj; lia].
Qed.

(* ---------- partition points ---------- *)
Lemma pp_le p cs : (part_point p cs <= length cs)%nat.
Proof. induction cs as [|c cs IH]; cbn; [lia|]. destruct (p c); lia. Qed.

Lemma pp_true p : forall cs i, (i < part_point p cs)%nat -> p (nthc cs i) = true.
Proof.
  induction cs as [|c cs IH]; intros i H; cbn in H; [lia|].
  destruct (p c) eqn:E; [|lia]. destruct i as [|i]; [exact E|]. rewrite nthc_cons_S. apply IH. lia.
Qed.

Lemma pp_false p : forall cs, (part_point p cs < length cs)%nat -> p (nthc cs (part_point p cs)) = false.
Proof.
  induction cs as [|c cs IH]; intros H; cbn in H; [lia|].
  cbn [part_point]. destruct (p c) eqn:E.
  - rewrite nthc_cons_S. apply IH. lia.
  - exact E.
Qed.

(* [pl cs x]: number of means < x, [pu cs x]: number of means <= x (Spec/TDigestSpec.v) *)

Lemma pl_below cs x i : (i < pl cs x)%nat -> c_mean (nthc cs i) < x.
Proof. intros H. apply pp_true in H. qb H. exact H. Qed.

Lemma pl_at cs x : (pl cs x < length cs)%nat -> x <= c_mean (nthc cs (pl cs x)).
Proof. intros H. apply pp_false in H. qb H. exact H. Qed.

Lemma pu_below cs x i : (i < pu cs x)%nat -> c_mean (nthc cs i) <= x.
Proof. intros H. apply pp_true in H. apply negb_true_iff in H. qb H. exact H. Qed.

Lemma pu_at cs x : (pu cs x < length cs)%nat -> x < c_mean (nthc cs (pu cs x)).
Proof. intros H. apply pp_false in H. apply negb_false_iff in H. qb H. exact H. Qed.

Lemma pl_above cs x i : sortedP cs -> (pl cs x <= i)%nat -> (i < length cs)%nat -> x <= c_mean (nthc cs i).
Proof.
  intros Hs H1 H2. eapply Qle_trans; [apply (pl_at cs x); lia|]. apply sortedP_nth; auto.
Qed.

Lemma pu_above cs x i : sortedP cs -> (pu cs x <= i)%nat -> (i < length cs)%nat -> x < c_mean (nthc cs i).
Proof.
  intros Hs H1 H2. eapply Qlt_le_trans; [apply (pu_at cs x); lia|]. apply sortedP_nth; auto.
Qed.

Lemma pl_le_pu cs x : sortedP cs -> (pl cs x <= pu cs x)%nat.
Proof.
  intros Hs. destruct (Nat.le_gt_cases (pl cs x) (pu cs x)) as [H|H]; auto.
  pose proof (pp_le (fun c => Qltb (c_mean c) x) cs) as Hl. fold (pl cs x) in Hl.
  pose proof (pl_below cs x (pu cs x) H). pose proof (pu_at cs x ltac:(lia)). lra.
Qed.

Lemma pl_len cs x : (pl cs x <= length cs)%nat. Proof. apply pp_le. Qed.
Lemma pu_len cs x : (pu cs x <= length cs)%nat. Proof. apply pp_le. Qed.

(* ---------- well-formed views ---------- *)
Lemma wf_len v : wf_view v -> (1 <= length (v_cs v))%nat.
Proof. intros [H _ _ _ _]. destruct (v_cs v); cbn; [congruence|lia]. Qed.

Lemma wf_T_ge v : wf_view v -> inject_Z (Z.of_nat (length (v_cs v))) <= tq v.
Proof.
  intros H. unfold tq. rewrite (wf_total _ H). rewrite <- Zle_Qle.
  clear H. induction (v_cs v) as [|c cs IH]; [cbn; lia|].
  rewrite sumw_cons. cbn [length]. pose proof (c_wz_pos c). lia.
Qed.

Lemma sumw_ge_nth cs i : (i < length cs)%nat -> (c_wz (nthc cs i) <= sumw cs)%Z.
Proof.
  revert i; induction cs as [|c cs IH]; intros i H; [cbn in H; lia|].
  rewrite sumw_cons. destruct i as [|i].
  - change (nthc (c :: cs) 0) with c. pose proof (sumw_nonneg cs). lia.
  - rewrite nthc_cons_S. specialize (IH i ltac:(cbn in H; lia)). pose proof (c_wz_pos c). lia.
Qed.

Lemma sumw_ge_two cs i j : (i < j)%nat -> (j < length cs)%nat ->
  (c_wz (nthc cs i) + c_wz (nthc cs j) <= sumw cs)%Z.
Proof.
  intros Hij Hj. pose proof (cen2_lt cs i j Hij Hj) as H1.
  rewrite <- W_all. pose proof (W_mono cs (S j) (length cs) ltac:(lia) ltac:(lia)) as H2.
  rewrite W_S in H2 by lia. unfold cen2 in H1.
  pose proof (W_mono cs (S i) j ltac:(lia) ltac:(lia)) as H3. rewrite W_S in H3 by lia.
  pose proof (W_mono cs 0 i ltac:(lia) ltac:(lia)) as H4. rewrite W_0 in H4. lia.
Qed.
