(* HLL proofs, part 5: the coupon list (hll/list.rs) and the coupon hash set (hll/hash_set.rs,
   an instance of the generic open-addressing development of HllOpenAddr.v). *)
From DS Require Import Base.Prelude Model.Hll Proofs.HllBase Proofs.HllOpenAddr.
From Coq Require Import ZifyBool ZifyNat ZifyN Permutation.
Open Scope N_scope.
Ltac Zify.zify_post_hook ::= Z.div_mod_to_equations.

Lemma COUPON_EMPTY_0 : COUPON_EMPTY = 0. Proof. reflexivity. Qed.

Lemma nonzero_true : forall v, nonzero v = true <-> v <> 0.
Proof. intros. unfold nonzero. lia. Qed.

Lemma NoDup_app_one : forall {A} (l : list A) x, NoDup l -> ~ In x l -> NoDup (l ++ [x]).
Proof.
  intros A l x Hnd Hin. apply (Permutation_NoDup (l := x :: l)); [apply Permutation_cons_append|].
  now constructor.
Qed.

(* ================= the coupon list ================= *)
Lemma list_scan_in : forall ds z c, ~ In 0 ds -> In c ds -> list_scan (ds ++ z) c = (ds ++ z, false).
Proof.
  induction ds; intros z c H0 Hin; [destruct Hin|]. cbn [app list_scan]. rewrite COUPON_EMPTY_0.
  destruct (N.eqb_spec a 0) as [E|E]; [exfalso; apply H0; now left|].
  destruct (N.eqb_spec a c) as [Ec|Ec]; [reflexivity|].
  destruct Hin as [Hin|Hin]; [contradiction|].
  rewrite (IHds z c); [reflexivity| |assumption]. intros H. apply H0. now right.
Qed.

Lemma list_scan_new : forall ds n c, ~ In 0 ds -> ~ In c ds ->
  list_scan (ds ++ repeat 0 (S n)) c = (ds ++ c :: repeat 0 n, true).
Proof.
  induction ds; intros n c H0 Hin.
  - cbn [app repeat list_scan]. rewrite COUPON_EMPTY_0. reflexivity.
  - cbn [app list_scan]. rewrite COUPON_EMPTY_0.
    destruct (N.eqb_spec a 0) as [E|E]; [exfalso; apply H0; now left|].
    destruct (N.eqb_spec a c) as [Ec|Ec]; [exfalso; apply Hin; now left|].
    rewrite (IHds n c); [reflexivity| |]; intros H; [apply H0|apply Hin]; now right.
Qed.

Lemma filter_nonzero_app_zeros : forall ds n, ~ In 0 ds -> filter nonzero (ds ++ repeat 0 n) = ds.
Proof.
  induction ds; intros n H0; cbn [app filter].
  - induction n; cbn [repeat filter]; [reflexivity|]. assumption.
  - assert (Ha : nonzero a = true) by (apply nonzero_true; intros E; apply H0; now left).
    rewrite Ha. f_equal. apply IHds. intros H. apply H0. now right.
Qed.

(* the list holds the distinct coupons [ds] in arrival order, then empty cells *)
Definition ListInv (l : hlist) (ds : list N) : Prop :=
  hl_coupons l = ds ++ repeat 0 (8 - length ds) /\ hl_len l = N.of_nat (length ds) /\
  NoDup ds /\ ~ In 0 ds /\ (length ds <= 8)%nat /\ hl_lg l = 3.

Lemma list_new_inv : ListInv (list_new LG_INIT_LIST_SIZE) [].
Proof.
  unfold ListInv. cbn [app length]. split; [reflexivity|]. split; [reflexivity|].
  split; [constructor|]. split; [tauto|]. split; [lia|reflexivity].
Qed.

Lemma list_iter_inv : forall l ds, ListInv l ds -> list_iter l = ds.
Proof. intros l ds (Hc & _ & _ & H0 & _). unfold list_iter. rewrite Hc. now apply filter_nonzero_app_zeros. Qed.

Lemma list_full_inv : forall l ds, ListInv l ds -> list_is_full l = (length ds =? 8)%nat.
Proof.
  intros l ds (Hc & Hl & _ & _ & Hle & _). unfold list_is_full. rewrite Hc, Hl, app_length, repeat_length.
  destruct (Nat.eqb_spec (length ds) 8); lia.
Qed.

Lemma list_update_old : forall l ds c, ListInv l ds -> In c ds -> list_update l c = l.
Proof.
  intros l ds c (Hc & Hl & Hnd & H0 & Hle & _) Hin. unfold list_update. rewrite Hc.
  rewrite list_scan_in by assumption. rewrite <- Hc. now destruct l.
Qed.

Lemma list_update_new : forall l ds c, ListInv l ds -> ~ In c ds -> c <> 0 -> (length ds < 8)%nat ->
  ListInv (list_update l c) (ds ++ [c]).
Proof.
  intros l ds c (Hc & Hl & Hnd & H0 & Hle & Hlg3) Hin Hc0 Hlt. unfold list_update. rewrite Hc.
  replace (8 - length ds)%nat with (S (7 - length ds)) by lia.
  rewrite list_scan_new by assumption. unfold ListInv. cbn [hl_coupons hl_len hl_lg].
  rewrite app_length. cbn [length]. split; [|split; [|split; [|split; [|split; [|exact Hlg3]]]]].
  - rewrite <- app_assoc. cbn [app]. do 3 f_equal. lia.
  - lia.
  - apply NoDup_app_one; assumption.
  - rewrite in_app_iff. cbn [In]. intros [H|[H|[]]]; [contradiction|congruence].
  - lia.
Qed.

(* ================= the coupon hash set ================= *)
Lemma odd_lor_1 : forall x, N.odd (N.lor x 1) = true.
Proof. intros. rewrite <- N.bit0_odd, N.lor_spec. apply orb_true_r. Qed.

Section SetInst.
Variable lg : N.
Definition skey (e : N) : N := e.
Definition sstart (c : N) : N := N.land c (2 ^ lg - 1).
Definition sstride (c : N) : N := N.lor (N.shiftr (N.land c KEY_MASK) lg) 1.

Lemma sstart_lt : forall c, sstart c < 2 ^ lg.
Proof. intros. unfold sstart. rewrite land_mask. apply N.mod_lt. apply N.pow_nonzero. lia. Qed.
Lemma sstride_odd : forall c, N.odd (sstride c) = true.
Proof. intros. apply odd_lor_1. Qed.

Definition SInv (tab : arr) : Prop := OAInv lg skey sstart sstride tab.

(* the table holds exactly the set S; len is its cardinality *)
Definition SetRep (st : hset) (S : list N) : Prop :=
  hs_lg st = lg /\ SInv (hs_tab st) /\ hs_len st = oa_count lg (hs_tab st) /\
  (forall c, In c (entries lg (hs_tab st)) <-> In c S).

Lemma set_new_rep : SetRep (set_new lg) [].
Proof.
  unfold SetRep, set_new. cbn [hs_lg hs_tab hs_len]. split; [reflexivity|]. split; [apply OAInv_empty|].
  split; [now rewrite oa_count_empty|]. intros c. rewrite entries_empty. tauto.
Qed.

Lemma set_update_unfold : forall st c, hs_lg st = lg ->
  set_update st c =
  match find lg skey sstart sstride (hs_tab st) c with
  | Ok (i, false) => Ok (mkSet (hs_lg st) (aset (hs_tab st) i c) (hs_len st + 1))
  | Ok (_, true) => Ok st
  | _ => Stuck
  end.
Proof. intros st c E. unfold set_update. rewrite E. reflexivity. Qed.

(* HashSet::update: never stuck while the table has an empty cell; inserts iff new *)
Lemma set_update_spec : forall st S c, SetRep st S -> hs_len st < 2 ^ lg -> c <> 0 ->
  exists st', set_update st c = Ok st' /\ SetRep st' (c :: S) /\
    (In c S -> st' = st) /\ (~ In c S -> hs_len st' = hs_len st + 1).
Proof.
  intros st S c (Hlg & HI & Hlen & Hent) Hlt Hc0.
  assert (He : has_empty lg (hs_tab st)) by (apply has_empty_of_count; fold (size lg); unfold size; lia).
  rewrite (set_update_unfold st c Hlg).
  destruct (find_spec lg skey sstart sstride sstart_lt sstride_odd (hs_tab st) c HI He)
    as (i & Hi & [(Hz & Hf & Hnone & n1 & Hn1 & Hp & Hpre)|(Hnz & Hk & Hf)]); rewrite Hf.
  - assert (Hnin : ~ In c S).
    { intros Hin. apply Hent in Hin. apply entries_In in Hin. destruct Hin as (_ & j & Hj & Hg).
      apply (Hnone j Hj); [congruence|]. unfold skey. assumption. }
    eexists. split; [reflexivity|]. split; [|split; [tauto|intros _; reflexivity]].
    unfold SetRep. cbn [hs_lg hs_tab hs_len]. split; [assumption|]. split; [|split].
    + subst i. apply (OA_insert lg skey sstart sstride sstart_lt sstride_odd); try assumption. reflexivity.
    + rewrite oa_count_insert by assumption. now rewrite Hlen.
    + intros c'. rewrite entries_aset_In by assumption. cbn [In]. rewrite <- Hent, entries_In. split.
      * intros [[-> _]|(Hnz' & j & Hj & _ & Hg)]; [now left|]. right. split; [assumption|]. now exists j.
      * intros [<-|(Hnz' & j & Hj & Hg)]; [left; now split|]. right. split; [assumption|].
        exists j. split; [assumption|]. split; [congruence|assumption].
  - unfold skey in Hk.
    assert (Hin : In c S) by (apply Hent; apply entries_In; split; [assumption|]; exists i; now split).
    exists st. split; [reflexivity|]. split; [|split; [reflexivity|contradiction]].
    unfold SetRep. split; [assumption|]. split; [assumption|]. split; [assumption|].
    intros c'. rewrite Hent. cbn [In]. split; [tauto|]. intros [<-|H]; assumption.
Qed.

(* inserting a list of fresh, distinct, non-empty coupons *)
Lemma set_update_all_fresh : forall cs st S, SetRep st S -> NoDup cs ->
  (forall c, In c cs -> c <> 0 /\ ~ In c S) -> hs_len st + N.of_nat (length cs) <= 2 ^ lg ->
  exists st', set_update_all cs st = Ok st' /\ SetRep st' (rev cs ++ S) /\
              hs_len st' = hs_len st + N.of_nat (length cs).
Proof.
  induction cs as [|c r IH]; intros st S HR Hnd Hfresh Hlen; cbn [set_update_all rev app length].
  - exists st. split; [reflexivity|]. split; [assumption|lia].
  - inversion Hnd as [|? ? Hnin Hnd']; subst. destruct (Hfresh c (or_introl eq_refl)) as [Hc0 HcS].
    destruct (set_update_spec st S c HR ltac:(cbn [length] in Hlen; lia) Hc0) as (st1 & Hu & HR1 & _ & Hl1).
    rewrite Hu. cbn [obind]. specialize (Hl1 HcS).
    destruct (IH st1 (c :: S) HR1 Hnd') as (st' & Hall & HR' & Hl').
    + intros c' Hc'. destruct (Hfresh c' (or_intror Hc')) as [A B]. split; [assumption|].
      cbn [In]. intros [<-|H]; [contradiction|contradiction].
    + cbn [length] in Hlen. lia.
    + exists st'. split; [assumption|]. split; [|cbn [length]; lia].
      rewrite <- app_assoc. cbn [app]. assumption.
Qed.

(* Container::iter of a hash set *)
Lemma set_iter_entries : forall st, hs_lg st = lg -> set_iter st = entries lg (hs_tab st).
Proof. intros st E. unfold set_iter, entries, size. now rewrite E. Qed.

Lemma set_iter_NoDup : forall st S, SetRep st S -> NoDup (set_iter st).
Proof.
  intros st S (Hlg & HI & _). rewrite (set_iter_entries st Hlg).
  pose proof (entries_NoDup_keys lg skey sstart sstride sstart_lt sstride_odd _ HI) as H.
  unfold skey in H. now rewrite map_id in H.
Qed.

Lemma set_iter_In : forall st S c, SetRep st S -> (In c (set_iter st) <-> In c S).
Proof. intros st S c (Hlg & _ & _ & Hent). rewrite (set_iter_entries st Hlg). apply Hent. Qed.

Lemma set_iter_nonzero : forall st c, hs_lg st = lg -> In c (set_iter st) -> c <> 0.
Proof. intros st c E H. rewrite (set_iter_entries st E) in H. apply entries_In in H. tauto. Qed.

Lemma set_len_card : forall st S, SetRep st S -> hs_len st = N.of_nat (length (set_iter st)).
Proof. intros st S (Hlg & _ & Hl & _). rewrite (set_iter_entries st Hlg), entries_length. assumption. Qed.

End SetInst.
