(* Compact theta images against the format specification (Spec/ThetaLayout.v):
   - the specification is consistent: its decoder inverts its encoder on every variant;
   - the bytes the modelled writers emit ARE the specification's encoding (C12);
   - the modelled reader reads every variant of the specification back to the encoded state (C13). *)
From Coq Require Import List NArith Nnat Bool Lia PeanoNat Sorted.
From Coq Require Import ZifyBool ZifyNat ZifyN.
From DS Require Import Base.Prelude Base.Bytes Base.ThetaLib Base.BitExp Model.Theta Model.ThetaCodec Spec.ThetaLayout.
From DS Require Import Proofs.ThetaBitSym Proofs.ThetaBitPack Proofs.ThetaCodec.
From DS Require Gen.GenTheta Gen.GenCodec.
Import ListNotations.
Open Scope N_scope.

Ltac Zify.zify_post_hook ::= Z.div_mod_to_equations.

Definition abs_of (c : csk) : tabs := mkAbs (ce_entries c) (ce_theta c) (ce_seed_hash c) (ce_ordered c) (ce_empty c).
Definition conc (a : tabs) : csk := mkC (a_entries a) (a_theta a) (a_seed_hash a) (a_ordered a) (a_empty a).

Lemma abs_conc : forall a, abs_of (conc a) = a.
Proof. destruct a; reflexivity. Qed.

(* the constants of the specification are the constants of the crate *)
Lemma layout_constants :
  S_MAX_THETA = MAX_THETA /\ S_FAMILY_THETA = zN GenCodec.FAMILY_THETA_ID /\
  S_READ_ONLY = zN GenTheta.FLAGS_IS_READ_ONLY /\ S_EMPTY = zN GenTheta.FLAGS_IS_EMPTY /\
  S_COMPACT = zN GenTheta.FLAGS_IS_COMPACT /\ S_ORDERED = zN GenTheta.FLAGS_IS_ORDERED /\
  zN GenTheta.UNCOMPRESSED_SERIAL_VERSION = 3 /\ zN GenTheta.COMPRESSED_SERIAL_VERSION = 4 /\
  zN GenCodec.FAMILY_THETA_MIN_PRE_LONGS = 1 /\ zN GenCodec.FAMILY_THETA_MAX_PRE_LONGS = 3 /\
  zN GenTheta.V2_PREAMBLE_EMPTY = 1 /\ zN GenTheta.V2_PREAMBLE_PRECISE = 2 /\ zN GenTheta.V2_PREAMBLE_ESTIMATE = 3 /\
  BLOCK_WIDTH = 8.
Proof. repeat split; reflexivity. Qed.

(* ---------- abs_okb <-> c_wf ---------- *)
Lemma abs_ok_wf : forall sh a, abs_okb a = true -> (a_empty a = false -> a_seed_hash a = sh) -> c_wf sh (conc a).
Proof.
  intros sh a H Hseed. unfold abs_okb in H.
  repeat (apply andb_prop in H as [H ?]).
  constructor; cbn [conc ce_entries ce_theta ce_seed_hash ce_ordered ce_empty].
  - apply Forall_forall. intros x Hx. rewrite forallb_forall in H. specialize (H x Hx). lia.
  - rewrite max_theta_val. unfold S_MAX_THETA in *. lia.
  - split; [lia|exact Hseed].
  - intros Ho. rewrite Ho in *. cbn [negb orb] in *. now rewrite <- asc_ascending_b.
  - intros He. rewrite He in *. cbn [negb orb] in *. apply andb_prop in H3 as [H3a H3b].
    split; [destruct (a_entries a); [reflexivity|discriminate]|]. rewrite max_theta_val. unfold S_MAX_THETA in *. lia.
  - unfold M32. lia.
Qed.

Lemma wf_abs_ok : forall sh c, c_wf sh c -> abs_okb (abs_of c) = true.
Proof.
  intros sh c [Hent [Hth0 Hth] [Hsh _] Hord Hemp Hlen]. unfold abs_okb, abs_of.
  cbn [a_entries a_theta a_seed_hash a_ordered a_empty]. rewrite max_theta_val in Hth.
  repeat (apply andb_true_intro; split).
  - apply forallb_forall. intros x Hx. rewrite Forall_forall in Hent. specialize (Hent x Hx). lia.
  - lia.
  - unfold S_MAX_THETA. lia.
  - destruct (ce_empty c); [|reflexivity]. destruct (Hemp eq_refl) as [-> ->]. reflexivity.
  - destruct (ce_ordered c); [|reflexivity]. cbn [negb orb]. rewrite asc_ascending_b. now apply Hord.
  - lia.
  - unfold M32 in Hlen. lia.
Qed.

(* ---------- the uncompressed writer emits the specification's serVer 3 image ---------- *)
Theorem model_v3_is_spec : forall sh c, c_wf sh c -> c_serialize c = enc_v3 false (abs_of c).
Proof.
  intros sh c [Hent [Hth0 Hth] _ _ Hemp _].
  unfold c_serialize, enc_v3, c_preamble_longs, is_single, est, cnt_of, entry_bytes, abs_of, c_is_estimation_mode, c_num_retained.
  cbn [a_entries a_theta a_seed_hash a_ordered a_empty andb].
  change S_MAX_THETA with MAX_THETA.
  destruct (ce_empty c) eqn:Ee.
  - destruct (Hemp eq_refl) as [E0 Et]. rewrite E0, Et, N.ltb_irrefl. destruct (ce_ordered c); reflexivity.
  - cbn [orb negb]. destruct (ce_theta c <? MAX_THETA) eqn:Et.
    + destruct (ce_ordered c); reflexivity.
    + cbn [negb andb]. rewrite andb_true_r.
      destruct (N.of_nat (length (ce_entries c)) =? 1); destruct (ce_ordered c); reflexivity.
Qed.

(* ---------- the bit stream of several chunks ---------- *)
Lemma pack_stream_app8 : forall w a b, (1 <= w)%nat -> length a = 8%nat ->
  pack_stream w (a ++ b) = pack_stream w a ++ pack_stream w b.
Proof.
  intros w a b Hw Ha.
  assert (La : length (pack_stream w a) = w).
  { rewrite pack_stream_length, Ha. replace (8 * w + 7)%nat with (7 + w * 8)%nat by lia. rewrite Nat.div_add by lia. cbn. lia. }
  assert (Ltot : length (pack_stream w (a ++ b)) = (w + length (pack_stream w b))%nat).
  { rewrite !pack_stream_length, app_length, Ha.
    replace ((8 + length b) * w + 7)%nat with ((length b * w + 7) + w * 8)%nat by lia. rewrite Nat.div_add by lia. lia. }
  apply (nth_ext _ _ 0 0); [rewrite app_length, La; exact Ltot|].
  intros j Hj. rewrite Ltot in Hj.
  unfold pack_stream at 1. rewrite (nth_indep _ 0 (stream_byte w (a ++ b) 0)) by (rewrite map_length, seq_length, <- pack_stream_length, Ltot; exact Hj).
  rewrite map_nth, seq_nth by (rewrite <- pack_stream_length, Ltot; exact Hj). cbn [Nat.add].
  destruct (Nat.lt_ge_cases j w) as [Hjw|Hjw].
  - rewrite app_nth1 by (rewrite La; exact Hjw). unfold pack_stream.
    rewrite (nth_indep _ 0 (stream_byte w a 0)) by (rewrite map_length, seq_length, <- pack_stream_length, La; exact Hjw).
    rewrite map_nth, seq_nth by (rewrite <- pack_stream_length, La; exact Hjw). cbn [Nat.add].
    unfold stream_byte. apply N_of_bits_ext. intros t Ht. unfold field_bit.
    assert (Hp : ((8 * j + (7 - t)) / w < 8)%nat) by (apply Nat.div_lt_upper_bound; nia).
    rewrite app_nth1 by lia. reflexivity.
  - rewrite app_nth2 by (rewrite La; exact Hjw). rewrite La. unfold pack_stream.
    rewrite (nth_indep _ 0 (stream_byte w b 0)) by (rewrite map_length, seq_length, <- pack_stream_length; lia).
    rewrite map_nth, seq_nth by (rewrite <- pack_stream_length; lia). cbn [Nat.add].
    unfold stream_byte. apply N_of_bits_ext. intros t Ht. unfold field_bit.
    set (p := (8 * j + (7 - t))%nat).
    assert (Ep : (8 * (j - w) + (7 - t) = p - 8 * w)%nat) by (unfold p; lia).
    rewrite Ep.
    assert (Hpw : (8 * w <= p)%nat) by (unfold p; lia).
    assert (Hdiv : (p / w = (p - 8 * w) / w + 8)%nat).
    { replace p with ((p - 8 * w) + 8 * w)%nat at 1 by lia. rewrite Nat.div_add by lia. reflexivity. }
    assert (Hmod : (p mod w = (p - 8 * w) mod w)%nat).
    { replace p with ((p - 8 * w) + 8 * w)%nat at 1 by lia. rewrite Nat.mod_add by lia. reflexivity. }
    rewrite Hdiv, Hmod. rewrite app_nth2 by (rewrite Ha; apply Nat.le_add_l). rewrite Ha. f_equal. f_equal. apply Nat.add_sub.
Qed.

Lemma pack_deltas_stream : forall f w ds,
  (1 <= w <= 63)%nat -> Forall (fun x => x < 2 ^ 64) ds -> (length ds / 8 < f)%nat ->
  pack_deltas f (N.of_nat w) ds = Ok (pack_stream w ds).
Proof.
  induction f as [|f IH]; intros w ds Hw Hds Hf; [lia|].
  cbn [pack_deltas]. rewrite block_width. change (N.to_nat 8) with 8%nat. rewrite short_spec.
  destruct (Nat.lt_ge_cases (length ds) 8) as [Hshort|Hlong].
  - destruct (Nat.ltb_spec (length ds) 8); [|lia]. cbn [negb].
    destruct ds as [|d0 dr] eqn:Eds; [reflexivity|]. rewrite <- Eds in *.
    apply pack_tail_correct; [exact Hw|rewrite Eds in *; cbn [length] in *; lia|exact Hds].
  - destruct (Nat.ltb_spec (length ds) 8); [lia|]. cbn [negb].
    assert (Ha : length (firstn 8 ds) = 8%nat) by (rewrite firstn_length; lia).
    rewrite pack_block_correct; [|exact Hw|exact Ha|apply Forall_firstn; exact Hds]. cbn [obind].
    rewrite IH; [|exact Hw|apply Forall_skipn; exact Hds|].
    + cbn [obind]. rewrite <- pack_stream_app8 by (lia || exact Ha). rewrite firstn_skipn. reflexivity.
    + rewrite skipn_length. replace (length ds) with ((length ds - 8) + 1 * 8)%nat in Hf by lia.
      rewrite Nat.div_add in Hf by lia. lia.
Qed.

(* ---------- the compressed writer emits the specification's serVer 4 image ---------- *)
Theorem model_v4_is_spec : forall sh c, c_wf sh c -> c_is_suitable_for_compression c = true ->
  c_serialize_v4 c = Ok (enc_v4 (abs_of c)).
Proof.
  intros sh c Hwf Hsuit.
  destruct (v4_facts c (wf_safe sh c Hwf) Hsuit) as [Hch [Hne [Ho [Hceb [Hdel [Hw1 [Hw63 [Hds Hdl]]]]]]]].
  destruct Hwf as [Hent [Hth0 Hth] [Hsh Hseed] Hord Hemp Hlen].
  unfold c_serialize_v4. rewrite Hceb, Hdel. cbn [obind].
  set (ds := deltas 0 (ce_entries c)) in *. set (w := N.size (fold_left N.lor ds 0)) in *.
  assert (Hww : w = N.of_nat (N.to_nat w)) by (now rewrite N2Nat.id).
  rewrite Hww at 1. rewrite pack_deltas_stream.
  - cbn [obind]. f_equal.
    unfold enc_v4, abs_of, est, cnt_of, width_of, count_bytes, c_is_estimation_mode, c_num_retained, num_entries_bytes, c_flags_v4.
    cbn [a_entries a_theta a_seed_hash a_ordered a_empty]. fold ds. fold w.
    change S_MAX_THETA with MAX_THETA.
    rewrite (N.mod_small _ _ Hlen). rewrite N2Nat.id.
    rewrite (N2Nat.id ((N.size (N.of_nat (length (ce_entries c))) + 7) / 8)).
    destruct (ce_theta c <? MAX_THETA); reflexivity.
  - lia.
  - eapply Forall_impl; [|exact Hds]. intros d Hd. cbv beta in *.
    assert (2 ^ w <= 2 ^ 64) by (apply N.pow_le_mono_r; lia). lia.
  - assert (length ds / 8 <= length ds)%nat by (apply Nat.div_le_upper_bound; lia). lia.
Qed.

(* ---------- the specification's decoder inverts its encoder ---------- *)
Lemma u_app : forall n off pre x rest, length pre = off -> x < 256 ^ N.of_nat n ->
  u n off (pre ++ le_bytes n x ++ rest) = x.
Proof.
  intros n off pre x rest Hl Hx. unfold u. rewrite skipn_app_exact by exact Hl.
  rewrite firstn_app_exact by apply le_bytes_length. now apply le_val_le_bytes_small.
Qed.

Lemma hashes_flat : forall es pre rest off, length pre = off -> Forall (fun h => h < M64) es ->
  hashes (length es) off (pre ++ flat_map (le_bytes 8) es ++ rest) = es.
Proof.
  induction es as [|e es IH]; intros pre rest off Hl Hall; [reflexivity|].
  inversion Hall as [|? ? He Hall']; subst. unfold hashes. cbn [length seq map flat_map].
  f_equal.
  - rewrite Nat.mul_0_r, Nat.add_0_r. rewrite <- app_assoc. apply u_app; [reflexivity|exact He].
  - rewrite <- seq_shift, map_map.
    specialize (IH (pre ++ le_bytes 8 e) rest (length pre + 8)%nat).
    unfold hashes in IH. rewrite <- IH at 2; [|rewrite app_length, le_bytes_length; reflexivity|exact Hall'].
    apply map_ext. intros i. rewrite <- !app_assoc. f_equal. lia.
Qed.

Lemma has_len : forall n bs, has n bs = true <-> (n <= length bs)%nat.
Proof. intros. unfold has. apply Nat.leb_le. Qed.

Lemma prefix_sums_deltas : forall es prev, chain prev es -> prefix_sums prev (deltas prev es) = es.
Proof.
  induction es as [|e es IH]; intros prev H; cbn [deltas prefix_sums]; [reflexivity|].
  destruct H as [H1 H2]. replace (prev + (e - prev)) with e by lia. rewrite IH by exact H2. reflexivity.
Qed.

Lemma spec_flags_decode : forall e o s : bool,
  let flags := S_READ_ONLY + S_COMPACT + (if e then S_EMPTY else 0) + (if o then S_ORDERED else 0) + (if s then S_SINGLE_ITEM else 0) in
  flag flags S_EMPTY = e /\ flag flags S_ORDERED = o /\
  flag_set flags (zN GenTheta.FLAGS_IS_EMPTY) = e /\ flag_set flags (zN GenTheta.FLAGS_IS_ORDERED) = o.
Proof. intros [|] [|] [|]; vm_compute; repeat split; reflexivity. Qed.

Lemma has_true : forall n bs, (n <= length bs)%nat -> has n bs = true.
Proof. intros. now apply has_len. Qed.

Lemma abs_ok_parts : forall a, abs_okb a = true ->
  Forall (fun h => 0 < h /\ h < a_theta a) (a_entries a) /\ 0 < a_theta a /\ a_theta a <= S_MAX_THETA /\
  (a_empty a = true -> a_entries a = [] /\ a_theta a = S_MAX_THETA) /\
  (a_ordered a = true -> asc (a_entries a) = true) /\ a_seed_hash a < 65536 /\ cnt_of a < 4294967296.
Proof.
  intros a H. unfold abs_okb in H. repeat (apply andb_prop in H as [H ?]).
  split; [apply Forall_forall; intros x Hx; rewrite forallb_forall in H; specialize (H x Hx); lia|].
  split; [lia|]. split; [lia|]. split.
  { intros He. rewrite He in *. cbn [negb orb] in *. apply andb_prop in H3 as [H3a H3b].
    split; [destruct (a_entries a); [reflexivity|discriminate]|lia]. }
  split; [intros Ho; rewrite Ho in *; assumption|]. unfold cnt_of. split; lia.
Qed.

Lemma entries_lt64 : forall a, abs_okb a = true -> Forall (fun h => h < M64) (a_entries a).
Proof.
  intros a H. destruct (abs_ok_parts a H) as [Hent [_ [Hth _]]].
  eapply Forall_impl; [|exact Hent]. intros h [_ Hh]. cbv beta. unfold S_MAX_THETA, M64 in *. lia.
Qed.

Lemma tabs_eq : forall a es th sd od em,
  es = a_entries a -> th = a_theta a -> sd = a_seed_hash a -> od = a_ordered a -> em = a_empty a ->
  Some (mkAbs es th sd od em) = Some a.
Proof. intros [] * -> -> -> -> ->. reflexivity. Qed.

Theorem spec_roundtrip_v3 : forall sh sf a, abs_okb a = true -> dec_spec_body sh (enc_v3 sf a) = Some a.
Proof.
  intros sh sf a Hok. destruct (abs_ok_parts a Hok) as [Hent [Hth0 [Hth [Hemp [Hord [Hsd Hcnt]]]]]].
  pose proof (entries_lt64 a Hok) as H64.
  unfold enc_v3.
  set (pre := if a_empty a then 1 else if est a then 3 else if is_single a then 1 else 2).
  set (flags := S_READ_ONLY + S_COMPACT + (if a_empty a then S_EMPTY else 0) + (if a_ordered a then S_ORDERED else 0)
                + (if sf && is_single a then S_SINGLE_ITEM else 0)).
  destruct (spec_flags_decode (a_empty a) (a_ordered a) (sf && is_single a)) as [Fe [Fo _]]. fold flags in Fe, Fo.
  set (body := if a_empty a then [] else
                 (if pre =? 1 then [] else le_bytes 4 (cnt_of a) ++ [0; 0; 0; 0]) ++
                 (if pre =? 3 then le_bytes 8 (a_theta a) else []) ++ entry_bytes a).
  unfold dec_spec_body. cbn [app].
  rewrite has_true by (cbn [length]; rewrite app_length, le_bytes_length; lia).
  cbn [negb nth]. change (S_FAMILY_THETA =? S_FAMILY_THETA) with true. cbn [negb].
  change (3 =? 3) with true. cbv iota. unfold dec_v3. cbn [nth].
  assert (Hseed : u 2 6 (pre :: 3 :: S_FAMILY_THETA :: 0 :: 0 :: flags :: le_bytes 2 (a_seed_hash a) ++ body) = a_seed_hash a).
  { change (pre :: 3 :: S_FAMILY_THETA :: 0 :: 0 :: flags :: le_bytes 2 (a_seed_hash a) ++ body)
      with ([pre; 3; S_FAMILY_THETA; 0; 0; flags] ++ le_bytes 2 (a_seed_hash a) ++ body).
    apply u_app; [reflexivity|exact Hsd]. }
  rewrite Hseed, Fe, Fo.
  destruct (a_empty a) eqn:Ee.
  - destruct (Hemp eq_refl) as [E0 Et]. apply tabs_eq; congruence.
  - unfold body. unfold pre. unfold is_single. rewrite Ee. cbn [negb andb]. rewrite andb_true_r.
    unfold est. destruct (N.ltb_spec (a_theta a) S_MAX_THETA) as [Hest|Hex].
    + (* estimating *)
      change (3 =? 1) with false. change (3 =? 2) with false. change (3 =? 3) with true. cbv iota.
      set (img := 3 :: 3 :: S_FAMILY_THETA :: 0 :: 0 :: flags :: le_bytes 2 (a_seed_hash a) ++
                  (le_bytes 4 (cnt_of a) ++ [0; 0; 0; 0]) ++ le_bytes 8 (a_theta a) ++ entry_bytes a).
      assert (Ec : u 4 8 img = cnt_of a).
      { unfold img. change (3 :: 3 :: S_FAMILY_THETA :: 0 :: 0 :: flags :: le_bytes 2 (a_seed_hash a) ++ ?l)
          with (([3; 3; S_FAMILY_THETA; 0; 0; flags] ++ le_bytes 2 (a_seed_hash a)) ++ l).
        rewrite <- (app_assoc (le_bytes 4 (cnt_of a))).
        apply u_app; [rewrite app_length, le_bytes_length; reflexivity|exact Hcnt]. }
      assert (Et : u 8 16 img = a_theta a).
      { unfold img. change (3 :: 3 :: S_FAMILY_THETA :: 0 :: 0 :: flags :: le_bytes 2 (a_seed_hash a) ++ (le_bytes 4 (cnt_of a) ++ [0; 0; 0; 0]) ++ ?l)
          with (([3; 3; S_FAMILY_THETA; 0; 0; flags] ++ le_bytes 2 (a_seed_hash a) ++ le_bytes 4 (cnt_of a) ++ [0; 0; 0; 0]) ++ l).
        apply u_app; [rewrite !app_length, !le_bytes_length; reflexivity|]. change (256 ^ N.of_nat 8) with M64. unfold M64, S_MAX_THETA in *. lia. }
      assert (Eh : hashes (length (a_entries a)) 24 img = a_entries a).
      { unfold img, entry_bytes. change (3 :: 3 :: S_FAMILY_THETA :: 0 :: 0 :: flags :: le_bytes 2 (a_seed_hash a) ++ (le_bytes 4 (cnt_of a) ++ [0; 0; 0; 0]) ++ le_bytes 8 (a_theta a) ++ ?l)
          with (([3; 3; S_FAMILY_THETA; 0; 0; flags] ++ le_bytes 2 (a_seed_hash a) ++ le_bytes 4 (cnt_of a) ++ [0; 0; 0; 0] ++ le_bytes 8 (a_theta a)) ++ l).
        rewrite <- (app_nil_r (flat_map (le_bytes 8) (a_entries a))).
        apply hashes_flat; [rewrite !app_length, !le_bytes_length; reflexivity|exact H64]. }
      fold img. rewrite Ec. unfold cnt_of. rewrite Nat2N.id.
      rewrite has_true.
      * rewrite Et, Eh. apply tabs_eq; congruence.
      * unfold img, entry_bytes. cbn [length]. rewrite !app_length, !le_bytes_length, flat_map_le8_length. cbn [length]. lia.
    + destruct (N.eqb_spec (cnt_of a) 1) as [E1|N1].
      * (* single item *)
        cbn [andb negb]. change (1 =? 1) with true. change (1 =? 3) with false. cbv iota. cbn [app].
        assert (El : length (a_entries a) = 1%nat) by (unfold cnt_of in E1; lia).
        destruct (a_entries a) as [|e [|e2 r]] eqn:Ees; try (cbn [length] in El; lia).
        unfold entry_bytes. rewrite Ees. cbn [flat_map]. rewrite app_nil_r.
        rewrite has_true by (cbn [length]; rewrite !app_length, !le_bytes_length; lia).
        assert (Ev : u 8 8 (1 :: 3 :: S_FAMILY_THETA :: 0 :: 0 :: flags :: le_bytes 2 (a_seed_hash a) ++ le_bytes 8 e) = e).
        { change (1 :: 3 :: S_FAMILY_THETA :: 0 :: 0 :: flags :: le_bytes 2 (a_seed_hash a) ++ le_bytes 8 e)
            with (([1; 3; S_FAMILY_THETA; 0; 0; flags] ++ le_bytes 2 (a_seed_hash a)) ++ le_bytes 8 e).
          rewrite <- (app_nil_r (le_bytes 8 e)).
          apply u_app; [rewrite app_length, le_bytes_length; reflexivity|]. inversion H64; subst. assumption. }
        rewrite Ev. apply tabs_eq; try congruence. lia.
      * cbn [andb negb]. change (2 =? 1) with false. change (2 =? 2) with true. change (2 =? 3) with false. cbv iota. cbn [app].
        set (img := 2 :: 3 :: S_FAMILY_THETA :: 0 :: 0 :: flags :: le_bytes 2 (a_seed_hash a) ++
                    (le_bytes 4 (cnt_of a) ++ [0; 0; 0; 0]) ++ entry_bytes a).
        assert (Ec : u 4 8 img = cnt_of a).
        { unfold img. change (2 :: 3 :: S_FAMILY_THETA :: 0 :: 0 :: flags :: le_bytes 2 (a_seed_hash a) ++ ?l)
            with (([2; 3; S_FAMILY_THETA; 0; 0; flags] ++ le_bytes 2 (a_seed_hash a)) ++ l).
          rewrite <- (app_assoc (le_bytes 4 (cnt_of a))).
          apply u_app; [rewrite app_length, le_bytes_length; reflexivity|exact Hcnt]. }
        assert (Eh : hashes (length (a_entries a)) 16 img = a_entries a).
        { unfold img, entry_bytes. change (2 :: 3 :: S_FAMILY_THETA :: 0 :: 0 :: flags :: le_bytes 2 (a_seed_hash a) ++ (le_bytes 4 (cnt_of a) ++ [0; 0; 0; 0]) ++ ?l)
            with (([2; 3; S_FAMILY_THETA; 0; 0; flags] ++ le_bytes 2 (a_seed_hash a) ++ le_bytes 4 (cnt_of a) ++ [0; 0; 0; 0]) ++ l).
          rewrite <- (app_nil_r (flat_map (le_bytes 8) (a_entries a))).
          apply hashes_flat; [rewrite !app_length, !le_bytes_length; reflexivity|exact H64]. }
        fold img. rewrite Ec. unfold cnt_of. rewrite Nat2N.id.
        rewrite has_true.
        -- rewrite Eh. apply tabs_eq; try congruence. lia.
        -- unfold img, entry_bytes. cbn [length]. rewrite !app_length, !le_bytes_length, flat_map_le8_length. cbn [length]. lia.
Qed.

(* ---------- reading the fields sequentially is reading them by position ---------- *)
Lemma byte_bits_length : forall b, length (byte_bits b) = 8%nat.
Proof. intros. unfold byte_bits. now rewrite map_length, seq_length. Qed.

Lemma nth_bits_of : forall bs p, nth p (bits_of bs) false = stream_bit bs p.
Proof.
  induction bs as [|b r IH]; intros p.
  - cbn [bits_of]. unfold stream_bit. destruct p; cbn [nth]; destruct (_ / 8)%nat; cbn [nth]; now rewrite N.bits_0.
  - cbn [bits_of]. destruct (Nat.lt_ge_cases p 8) as [Hp|Hp].
    + rewrite app_nth1 by (rewrite byte_bits_length; exact Hp). unfold byte_bits, stream_bit.
      rewrite (nth_indep _ false (N.testbit b (N.of_nat (7 - 0)))) by (rewrite map_length, seq_length; exact Hp).
      rewrite (map_nth (fun t => N.testbit b (N.of_nat (7 - t)))), seq_nth by exact Hp. cbn [Nat.add].
      rewrite Nat.div_small, Nat.mod_small by exact Hp. reflexivity.
    + rewrite app_nth2 by (rewrite byte_bits_length; exact Hp). rewrite byte_bits_length, IH. unfold stream_bit.
      assert (Hd : (p / 8 = S ((p - 8) / 8))%nat).
      { replace p with ((p - 8) + 1 * 8)%nat at 1 by lia. rewrite Nat.div_add by lia. lia. }
      assert (Hm : (p mod 8 = (p - 8) mod 8)%nat).
      { replace p with ((p - 8) + 1 * 8)%nat at 1 by lia. rewrite Nat.mod_add by lia. reflexivity. }
      rewrite Hd, Hm. reflexivity.
Qed.

Lemma bits_of_length : forall bs, length (bits_of bs) = (8 * length bs)%nat.
Proof. induction bs as [|b r IH]; [reflexivity|]. cbn [bits_of length]. rewrite app_length, byte_bits_length, IH. lia. Qed.

Lemma msb_val_spec : forall l acc,
  msb_val acc l = acc * 2 ^ N.of_nat (length l) + N_of_bits (fun b => nth (length l - 1 - b) l false) (length l).
Proof.
  induction l as [|x r IH]; intros acc; cbn [msb_val length].
  - cbn [N_of_bits]. change (2 ^ N.of_nat 0) with 1. lia.
  - rewrite IH. cbn [N_of_bits]. rewrite Nat2N.inj_succ, N.pow_succ_r'.
    replace (S (length r) - 1 - length r)%nat with 0%nat by lia. cbn [nth].
    rewrite (N_of_bits_ext (fun b => nth (S (length r) - 1 - b) (x :: r) false) (fun b => nth (length r - 1 - b) r false)).
    + destruct x; lia.
    + intros t Ht. replace (S (length r) - 1 - t)%nat with (S (length r - 1 - t)) by lia. reflexivity.
Qed.

Lemma nth_firstn_skipn : forall (l : list bool) off w k, (k < w)%nat -> (off + w <= length l)%nat ->
  nth k (firstn w (skipn off l)) false = nth (off + k) l false.
Proof.
  intros l off w k Hk Hl. rewrite nth_firstn_lt by exact Hk. apply nth_skipn_add.
Qed.

Lemma skipn_skipn_local : forall (A : Type) (a b : nat) (l : list A), skipn a (skipn b l) = skipn (b + a) l.
Proof.
  intros A a b. revert a. induction b as [|b IH]; intros a l; [reflexivity|].
  destruct l as [|x l]; [now rewrite !skipn_nil|]. cbn [skipn Nat.add]. apply IH.
Qed.

Lemma fields_seq_spec : forall cnt w all off, (off + cnt * w <= length all)%nat ->
  fields_seq cnt w (skipn off all) =
  map (fun i => N_of_bits (fun b => nth (off + i * w + (w - 1 - b)) all false) w) (seq 0 cnt).
Proof.
  induction cnt as [|c IH]; intros w all off Hl; [reflexivity|].
  cbn [fields_seq seq map]. f_equal.
  - rewrite msb_val_spec.
    assert (Hlen : length (firstn w (skipn off all)) = w) by (rewrite firstn_length, skipn_length; lia).
    rewrite Hlen. apply N_of_bits_ext. intros b Hb.
    rewrite nth_firstn_skipn by lia. f_equal. lia.
  - rewrite skipn_skipn_local.
    rewrite IH by lia. rewrite <- seq_shift, map_map. apply map_ext. intros i.
    apply N_of_bits_ext. intros b Hb. f_equal. lia.
Qed.

Theorem fields_seq_field : forall cnt w bs, (cnt * w <= 8 * length bs)%nat ->
  fields_seq cnt w (bits_of bs) = map (field w bs) (seq 0 cnt).
Proof.
  intros cnt w bs H. change (bits_of bs) with (skipn 0 (bits_of bs)).
  rewrite fields_seq_spec by (rewrite bits_of_length; lia).
  apply map_ext. intros i. unfold field. apply N_of_bits_ext. intros b Hb. cbn [Nat.add]. apply nth_bits_of.
Qed.

Lemma expressible_v4_suitable : forall a, expressible V4 a = true -> c_is_suitable_for_compression (conc a) = true.
Proof.
  intros a. unfold expressible, c_is_suitable_for_compression, c_num_retained, c_is_estimation_mode, conc, cnt_of, est.
  cbn [ce_entries ce_theta ce_ordered].
  destruct (a_ordered a); [|discriminate]. destruct (N.of_nat (length (a_entries a)) =? 0); [discriminate|].
  destruct (a_empty a); [discriminate|]. cbn [negb andb]. intros H. exact H.
Qed.

Theorem spec_roundtrip_v4 : forall sh a, abs_okb a = true -> expressible V4 a = true ->
  dec_spec_body sh (enc_v4 a) = Some a.
Proof.
  intros sh a Hok Hex.
  assert (Hwf : c_wf (a_seed_hash a) (conc a)) by (apply abs_ok_wf; [exact Hok|reflexivity]).
  pose proof (expressible_v4_suitable a Hex) as Hsuit.
  destruct (v4_facts (conc a) (wf_safe _ _ Hwf) Hsuit) as [Hch [Hne [Ho [_ [_ [Hw1 [Hw63 [Hds Hdl]]]]]]]].
  cbn [conc ce_entries ce_ordered] in *.
  destruct (abs_ok_parts a Hok) as [Hent [Hth0 [Hth [Hemp [Hord [Hsd Hcnt]]]]]].
  assert (Hnemp : a_empty a = false).
  { destruct (a_empty a) eqn:E; [|reflexivity]. destruct (Hemp eq_refl). contradiction. }
  set (ds := deltas 0 (a_entries a)) in *. set (wN := N.size (fold_left N.lor ds 0)) in *.
  unfold enc_v4. fold ds. unfold width_of. fold wN.
  set (w := N.to_nat wN). set (neb := count_bytes (cnt_of a)).
  assert (Hw : (1 <= w <= 63)%nat) by (unfold w; lia).
  assert (Hcnt1 : 1 <= cnt_of a) by (unfold cnt_of; destruct (a_entries a); [contradiction|cbn [length]; lia]).
  assert (Hneb : (1 <= neb <= 4)%nat).
  { unfold neb, count_bytes. assert (1 <= N.size (cnt_of a)) by (apply size_pos; lia).
    assert (N.size (cnt_of a) <= 32) by (apply size_le; exact Hcnt). lia. }
  assert (Hfit : cnt_of a < 256 ^ N.of_nat neb) by (unfold neb, count_bytes; apply count_fits).
  set (pre := if est a then 2 else 1).
  set (flags := S_READ_ONLY + S_COMPACT + S_ORDERED).
  unfold dec_spec_body. cbn [app].
  rewrite has_true by (cbn [length]; rewrite app_length, le_bytes_length; lia).
  cbn [negb nth]. change (S_FAMILY_THETA =? S_FAMILY_THETA) with true. cbn [negb].
  change (4 =? 3) with false. change (4 =? 4) with true. cbv iota. unfold dec_v4. cbn [nth].
  rewrite !Nat2N.id.
  destruct (Nat.leb_spec 1 w); [|lia]. destruct (Nat.leb_spec w 63); [|lia].
  destruct (Nat.leb_spec 1 neb); [|lia]. destruct (Nat.leb_spec neb 4); [|lia]. cbn [andb negb].
  assert (Hseed : forall l, u 2 6 (pre :: 4 :: S_FAMILY_THETA :: N.of_nat w :: N.of_nat neb :: flags :: le_bytes 2 (a_seed_hash a) ++ l) = a_seed_hash a).
  { intros l. change (pre :: 4 :: S_FAMILY_THETA :: N.of_nat w :: N.of_nat neb :: flags :: le_bytes 2 (a_seed_hash a) ++ l)
      with ([pre; 4; S_FAMILY_THETA; N.of_nat w; N.of_nat neb; flags] ++ le_bytes 2 (a_seed_hash a) ++ l).
    apply u_app; [reflexivity|exact Hsd]. }
  rewrite Hseed.
  assert (Hfields : prefix_sums 0 (fields_seq (length (a_entries a)) w (bits_of (pack_stream w ds))) = a_entries a).
  { rewrite fields_seq_field.
    2:{ rewrite pack_stream_length, Hdl.
        pose proof (Nat.div_mod (length (a_entries a) * w + 7) 8 ltac:(lia)) as Hq.
        pose proof (Nat.mod_upper_bound (length (a_entries a) * w + 7) 8 ltac:(lia)). lia. }
    rewrite <- Hdl. rewrite pack_unpack_generic by lia. rewrite mod_small_all.
    - apply prefix_sums_deltas. exact Hch.
    - unfold w. rewrite N2Nat.id. exact Hds. }
  unfold pre, est. destruct (N.ltb_spec (a_theta a) S_MAX_THETA) as [Hest|Hexact].
  - change ((2 =? 1) || (2 =? 2)) with true. change (2 =? 2) with true. cbv iota. cbn [negb].
    set (img := 2 :: 4 :: S_FAMILY_THETA :: N.of_nat w :: N.of_nat neb :: flags :: le_bytes 2 (a_seed_hash a) ++
                le_bytes 8 (a_theta a) ++ le_bytes neb (cnt_of a) ++ pack_stream w ds).
    rewrite has_true by (unfold img; cbn [length]; rewrite !app_length, !le_bytes_length; lia).
    cbn [negb].
    assert (Et : u 8 8 img = a_theta a).
    { unfold img. change (2 :: 4 :: S_FAMILY_THETA :: N.of_nat w :: N.of_nat neb :: flags :: le_bytes 2 (a_seed_hash a) ++ ?l)
        with (([2; 4; S_FAMILY_THETA; N.of_nat w; N.of_nat neb; flags] ++ le_bytes 2 (a_seed_hash a)) ++ l).
      apply u_app; [rewrite app_length, le_bytes_length; reflexivity|]. change (256 ^ N.of_nat 8) with M64. unfold M64, S_MAX_THETA in *. lia. }
    assert (Ec : u neb 16 img = cnt_of a).
    { unfold img. change (2 :: 4 :: S_FAMILY_THETA :: N.of_nat w :: N.of_nat neb :: flags :: le_bytes 2 (a_seed_hash a) ++ le_bytes 8 (a_theta a) ++ ?l)
        with (([2; 4; S_FAMILY_THETA; N.of_nat w; N.of_nat neb; flags] ++ le_bytes 2 (a_seed_hash a) ++ le_bytes 8 (a_theta a)) ++ l).
      apply u_app; [rewrite !app_length, !le_bytes_length; reflexivity|exact Hfit]. }
    assert (Ed : skipn (16 + neb) img = pack_stream w ds).
    { unfold img. change (2 :: 4 :: S_FAMILY_THETA :: N.of_nat w :: N.of_nat neb :: flags :: le_bytes 2 (a_seed_hash a) ++ le_bytes 8 (a_theta a) ++ le_bytes neb (cnt_of a) ++ ?l)
        with (([2; 4; S_FAMILY_THETA; N.of_nat w; N.of_nat neb; flags] ++ le_bytes 2 (a_seed_hash a) ++ le_bytes 8 (a_theta a) ++ le_bytes neb (cnt_of a)) ++ l).
      apply skipn_app_exact. rewrite !app_length, !le_bytes_length. reflexivity. }
    rewrite Ec, Ed. unfold cnt_of. rewrite Nat2N.id.
    rewrite has_true by (rewrite pack_stream_length, Hdl; lia). cbn [negb].
    rewrite Hfields, Et. apply tabs_eq; congruence.
  - change ((1 =? 1) || (1 =? 2)) with true. change (1 =? 2) with false. cbv iota. cbn [negb app].
    set (img := 1 :: 4 :: S_FAMILY_THETA :: N.of_nat w :: N.of_nat neb :: flags :: le_bytes 2 (a_seed_hash a) ++
                le_bytes neb (cnt_of a) ++ pack_stream w ds).
    rewrite has_true by (unfold img; cbn [length]; rewrite !app_length, !le_bytes_length; lia).
    cbn [negb].
    assert (Ec : u neb 8 img = cnt_of a).
    { unfold img. change (1 :: 4 :: S_FAMILY_THETA :: N.of_nat w :: N.of_nat neb :: flags :: le_bytes 2 (a_seed_hash a) ++ ?l)
        with (([1; 4; S_FAMILY_THETA; N.of_nat w; N.of_nat neb; flags] ++ le_bytes 2 (a_seed_hash a)) ++ l).
      apply u_app; [rewrite !app_length, !le_bytes_length; reflexivity|exact Hfit]. }
    assert (Ed : skipn (8 + neb) img = pack_stream w ds).
    { unfold img. change (1 :: 4 :: S_FAMILY_THETA :: N.of_nat w :: N.of_nat neb :: flags :: le_bytes 2 (a_seed_hash a) ++ le_bytes neb (cnt_of a) ++ ?l)
        with (([1; 4; S_FAMILY_THETA; N.of_nat w; N.of_nat neb; flags] ++ le_bytes 2 (a_seed_hash a) ++ le_bytes neb (cnt_of a)) ++ l).
      apply skipn_app_exact. rewrite !app_length, !le_bytes_length. reflexivity. }
    rewrite Ec, Ed. unfold cnt_of. rewrite Nat2N.id.
    rewrite has_true by (rewrite pack_stream_length, Hdl; lia). cbn [negb].
    rewrite Hfields. apply tabs_eq; try congruence. lia.
Qed.

(* ====================== the writers conform (C12) ====================== *)
Theorem writer_conforms : forall sh c, c_wf sh c -> dec_spec_body sh (c_serialize c) = Some (abs_of c).
Proof.
  intros sh c Hwf. rewrite (model_v3_is_spec sh c Hwf). apply spec_roundtrip_v3. eapply wf_abs_ok; eauto.
Qed.

Lemma suitable_expressible : forall sh c, c_wf sh c -> c_is_suitable_for_compression c = true -> expressible V4 (abs_of c) = true.
Proof.
  intros sh c Hwf. pose proof (wf_empty _ _ Hwf) as Hemp.
  unfold c_is_suitable_for_compression, expressible, abs_of, cnt_of, est, c_num_retained, c_is_estimation_mode.
  cbn [a_entries a_theta a_ordered a_empty].
  destruct (ce_ordered c); [|discriminate]. destruct (N.of_nat (length (ce_entries c)) =? 0) eqn:E0; [discriminate|].
  cbn [negb andb]. intros H.
  destruct (ce_empty c) eqn:Ee.
  - destruct (Hemp eq_refl) as [E _]. rewrite E in E0. discriminate.
  - cbn [negb andb]. exact H.
Qed.

Theorem compressed_writer_conforms : forall sh c bs, c_wf sh c -> c_serialize_compressed c = Ok bs ->
  dec_spec_body sh bs = Some (abs_of c).
Proof.
  intros sh c bs Hwf H. unfold c_serialize_compressed in H.
  destruct (c_is_suitable_for_compression c) eqn:E.
  - rewrite (model_v4_is_spec sh c Hwf E) in H. inversion H. subst.
    apply spec_roundtrip_v4; [eapply wf_abs_ok; eauto|eapply suitable_expressible; eauto].
  - inversion H. subst. now apply writer_conforms.
Qed.

(* ====================== the reader reads every variant (C13) ====================== *)
Definition seed_ok (sh : N) (a : tabs) : Prop := a_empty a = false -> a_seed_hash a = sh.

Lemma conc_wf : forall sh a, abs_okb a = true -> seed_ok sh a -> c_wf sh (conc a).
Proof. intros. now apply abs_ok_wf. Qed.

Lemma abs_of_conc_serialize : forall a, abs_of (conc a) = a.
Proof. exact abs_conc. Qed.

Theorem reads_v3_plain : forall sh a, abs_okb a = true -> seed_ok sh a ->
  c_deser_body sh (enc_v3 false a) = Ok (conc a).
Proof.
  intros sh a Hok Hs. pose proof (conc_wf sh a Hok Hs) as Hwf.
  rewrite <- (abs_conc a) at 1. rewrite <- (model_v3_is_spec sh _ Hwf). now apply roundtrip_v3.
Qed.

Theorem reads_v4 : forall sh a, abs_okb a = true -> seed_ok sh a -> expressible V4 a = true ->
  c_deser_body sh (enc_v4 a) = Ok (conc a).
Proof.
  intros sh a Hok Hs Hex. pose proof (conc_wf sh a Hok Hs) as Hwf.
  pose proof (expressible_v4_suitable a Hex) as Hsuit.
  destruct (roundtrip_v4 sh (conc a) Hwf Hsuit) as [bs [Hser Hde]].
  rewrite (model_v4_is_spec sh _ Hwf Hsuit) in Hser. inversion Hser. subst bs. rewrite abs_conc in Hde. exact Hde.
Qed.

(* the SINGLE_ITEM flag (bit 5) that Java sets on one-entry sketches is ignored by the reader *)
Lemma v3_flags_irrelevant : forall sh pre b3 b4 f1 f2 rest,
  flag_set f1 (zN GenTheta.FLAGS_IS_EMPTY) = flag_set f2 (zN GenTheta.FLAGS_IS_EMPTY) ->
  flag_set f1 (zN GenTheta.FLAGS_IS_ORDERED) = flag_set f2 (zN GenTheta.FLAGS_IS_ORDERED) ->
  c_deser_body sh (pre :: 3 :: 3 :: b3 :: b4 :: f1 :: rest) = c_deser_body sh (pre :: 3 :: 3 :: b3 :: b4 :: f2 :: rest).
Proof.
  intros sh pre b3 b4 f1 f2 rest He Ho. unfold c_deser_body.
  do 3 (rewrite rd_cons; cbn [obind]). do 3 (rewrite rd_cons; cbn [obind]).
  destruct (negb (3 =? _)); [reflexivity|]. destruct (negb (_ && _)); [reflexivity|].
  change (3 =? 1) with false. change (3 =? 2) with false. change (3 =? 3) with true. cbv iota.
  unfold deserialize_v3.
  change (b3 :: b4 :: f1 :: rest) with ([b3; b4] ++ f1 :: rest). change (b3 :: b4 :: f2 :: rest) with ([b3; b4] ++ f2 :: rest).
  rewrite !(rd_app 2 [b3; b4]) by reflexivity. cbn [obind]. rewrite !rd_cons. cbn [obind].
  rewrite He, Ho. reflexivity.
Qed.

Theorem reads_v3 : forall sh sf a, abs_okb a = true -> seed_ok sh a ->
  c_deser_body sh (enc_v3 sf a) = Ok (conc a).
Proof.
  intros sh sf a Hok Hs. rewrite <- (reads_v3_plain sh a Hok Hs).
  unfold enc_v3. cbn [app]. change S_FAMILY_THETA with 3.
  destruct (spec_flags_decode (a_empty a) (a_ordered a) (sf && is_single a)) as [_ [_ [E1 O1]]].
  destruct (spec_flags_decode (a_empty a) (a_ordered a) (false && is_single a)) as [_ [_ [E2 O2]]].
  apply v3_flags_irrelevant; congruence.
Qed.

Lemma expressible_12 : forall a, a_ordered a && Bool.eqb (a_empty a) ((cnt_of a =? 0) && negb (est a)) = true ->
  a_ordered a = true /\ a_empty a = ((cnt_of a =? 0) && negb (est a)).
Proof. intros a H. apply andb_prop in H as [H1 H2]. apply Bool.eqb_prop in H2. auto. Qed.

Theorem reads_v1 : forall sh a, abs_okb a = true -> expressible V1 a = true -> a_seed_hash a = sh ->
  c_deser_body sh (enc_v1 a) = Ok (conc a).
Proof.
  intros sh a Hok Hex Hseed. destruct (expressible_12 a Hex) as [Ho Hem].
  destruct (abs_ok_parts a Hok) as [Hent [Hth0 [Hth [Hemp [Hord [Hsd Hcnt]]]]]].
  unfold enc_v1, c_deser_body. cbn [app]. change S_FAMILY_THETA with 3.
  do 3 (rewrite rd_cons; cbn [obind]).
  change (negb (3 =? zN GenCodec.FAMILY_THETA_ID)) with false. cbv iota.
  change (negb ((zN GenCodec.FAMILY_THETA_MIN_PRE_LONGS <=? 3) && (3 <=? zN GenCodec.FAMILY_THETA_MAX_PRE_LONGS))) with false. cbv iota.
  change (1 =? 1) with true. cbv iota. unfold deserialize_v1.
  rewrite rd_cons; cbn [obind].
  change (0 :: 0 :: 0 :: 0 :: ?l) with ([0; 0; 0; 0] ++ l). rewrite (rd_app 4 [0; 0; 0; 0]) by reflexivity. cbn [obind].
  rewrite rd_le by exact Hcnt. cbn [obind].
  change (0 :: 0 :: 0 :: 0 :: ?l) with ([0; 0; 0; 0] ++ l). rewrite (rd_app 4 [0; 0; 0; 0]) by reflexivity. cbn [obind].
  rewrite rd_le by (change (256 ^ N.of_nat 8) with M64; unfold M64, S_MAX_THETA in *; lia). cbn [obind].
  unfold ensure_theta. change MAX_THETA with S_MAX_THETA.
  destruct (N.eqb_spec (a_theta a) 0); [lia|]. destruct (N.ltb_spec S_MAX_THETA (a_theta a)); [lia|]. cbn [orb obind].
  unfold est in Hem.
  destruct (N.eqb_spec (cnt_of a) 0) as [E0|N0]; destruct (N.eqb_spec (a_theta a) S_MAX_THETA) as [Et|Nt]; cbn [andb].
  - rewrite Et, N.ltb_irrefl in Hem. cbn in Hem. destruct (Hemp Hem) as [Ees _].
    unfold conc. rewrite Ees, Hem, Ho, Hseed, Et. reflexivity.
  - destruct (N.ltb_spec (a_theta a) S_MAX_THETA) as [_|]; [|lia]. cbn in Hem.
    assert (Ees : a_entries a = []) by (unfold cnt_of in E0; destruct (a_entries a); [reflexivity|cbn [length] in E0; lia]).
    unfold entry_bytes. rewrite E0, Ees. cbn [flat_map]. unfold read_entries. cbn [length].
    change (N.of_nat 0 / 8 <? 0) with false. cbv iota. cbn [N.to_nat read_hashes obind ensure_ordered ascending_b].
    unfold conc. rewrite Ees, Hem, Ho, Hseed. reflexivity.
  - rewrite andb_false_l in Hem. unfold entry_bytes, cnt_of.
    rewrite read_entries_flat; [|unfold M64, S_MAX_THETA in *; lia|exact Hent]. cbn [obind].
    unfold ensure_ordered. rewrite <- asc_ascending_b, (Hord Ho). cbn [obind].
    unfold conc. rewrite Hem, Ho, Hseed. reflexivity.
  - rewrite andb_false_l in Hem. unfold entry_bytes, cnt_of.
    rewrite read_entries_flat; [|unfold M64, S_MAX_THETA in *; lia|exact Hent]. cbn [obind].
    unfold ensure_ordered. rewrite <- asc_ascending_b, (Hord Ho). cbn [obind].
    unfold conc. rewrite Hem, Ho, Hseed. reflexivity.
Qed.

Theorem reads_v2 : forall sh a, abs_okb a = true -> expressible V2 a = true -> a_seed_hash a = sh ->
  c_deser_body sh (enc_v2 a) = Ok (conc a).
Proof.
  intros sh a Hok Hex Hseed. subst sh. destruct (expressible_12 a Hex) as [Ho Hem].
  destruct (abs_ok_parts a Hok) as [Hent [Hth0 [Hth [Hemp [Hord [Hsd Hcnt]]]]]].
  unfold enc_v2, c_deser_body. set (pre := if est a then 3 else if a_empty a then 1 else 2).
  assert (Hpre : 1 <= pre /\ pre <= 3) by (unfold pre; destruct (est a); [lia|destruct (a_empty a); lia]).
  cbn [app]. change S_FAMILY_THETA with 3.
  do 3 (rewrite rd_cons; cbn [obind]).
  change (negb (3 =? zN GenCodec.FAMILY_THETA_ID)) with false. cbv iota.
  change (zN GenCodec.FAMILY_THETA_MIN_PRE_LONGS) with 1. change (zN GenCodec.FAMILY_THETA_MAX_PRE_LONGS) with 3.
  destruct (N.leb_spec 1 pre); [|lia]. destruct (N.leb_spec pre 3); [|lia]. cbn [andb negb].
  change (2 =? 1) with false. change (2 =? 2) with true. cbv iota. unfold deserialize_v2.
  rewrite rd_cons; cbn [obind].
  change (0 :: 0 :: ?l) with ([0; 0] ++ l). rewrite (rd_app 2 [0; 0]) by reflexivity. cbn [obind].
  rewrite rd_le by exact Hsd. cbn [obind]. rewrite N.eqb_refl. cbn [negb].
  change (zN GenTheta.V2_PREAMBLE_EMPTY) with 1. change (zN GenTheta.V2_PREAMBLE_PRECISE) with 2.
  change (zN GenTheta.V2_PREAMBLE_ESTIMATE) with 3.
  unfold pre. unfold est in *. change MAX_THETA with S_MAX_THETA.
  destruct (N.ltb_spec (a_theta a) S_MAX_THETA) as [Hest|Hex2].
  - (* estimating *)
    change (3 =? 1) with false. change (3 =? 2) with false. change (3 =? 3) with true. cbv iota.
    cbn [negb] in Hem. rewrite andb_false_r in Hem.
    rewrite <- app_assoc. rewrite rd_le by exact Hcnt. cbn [obind app].
    change (0 :: 0 :: 0 :: 0 :: ?l) with ([0; 0; 0; 0] ++ l). rewrite (rd_app 4 [0; 0; 0; 0]) by reflexivity. cbn [obind].
    rewrite rd_le by (change (256 ^ N.of_nat 8) with M64; unfold M64, S_MAX_THETA in *; lia). cbn [obind].
    unfold ensure_theta. change MAX_THETA with S_MAX_THETA.
    destruct (N.eqb_spec (a_theta a) 0); [lia|]. destruct (N.ltb_spec S_MAX_THETA (a_theta a)); [lia|]. cbn [orb obind].
    unfold entry_bytes, cnt_of. rewrite read_entries_flat; [|unfold M64, S_MAX_THETA in *; lia|exact Hent]. cbn [obind].
    unfold ensure_ordered. rewrite <- asc_ascending_b, (Hord Ho). cbn [obind].
    destruct (N.eqb_spec (a_theta a) S_MAX_THETA); [lia|]. rewrite andb_false_r.
    unfold conc. rewrite Hem, Ho. reflexivity.
  - assert (Et : a_theta a = S_MAX_THETA) by lia. cbn [negb] in Hem. rewrite andb_true_r in Hem.
    destruct (a_empty a) eqn:Ee.
    + (* empty *)
      change (1 =? 1) with true. cbv iota. destruct (Hemp eq_refl) as [Ees _].
      unfold conc. rewrite Ees, Ee, Ho, Et. reflexivity.
    + change (2 =? 1) with false. change (2 =? 2) with true. change (2 =? 3) with false. cbv iota.
      rewrite app_nil_l. rewrite <- app_assoc. rewrite rd_le by exact Hcnt. cbn [obind app].
      change (0 :: 0 :: 0 :: 0 :: ?l) with ([0; 0; 0; 0] ++ l). rewrite (rd_app 4 [0; 0; 0; 0]) by reflexivity. cbn [obind].
      unfold entry_bytes, cnt_of. rewrite <- Et.
      rewrite read_entries_flat; [|unfold M64, S_MAX_THETA in *; lia|exact Hent]. cbn [obind].
      unfold ensure_ordered. rewrite <- asc_ascending_b, (Hord Ho). cbn [obind].
      unfold cnt_of in Hem. rewrite <- Hem.
      unfold conc. rewrite Ee, Ho. reflexivity.
Qed.

(* serVer 3 written with more preamble longs than necessary (one entry with a count field; exact mode with
   theta = 2^63-1 stored): read back to the same state *)
Lemma expressible_v3l : forall pre a, expressible (V3L pre) a = true ->
  a_empty a = false /\ ((pre = 2 /\ est a = false) \/ pre = 3).
Proof.
  intros pre a H. unfold expressible in H. apply andb_prop in H as [H1 H2].
  split; [now apply negb_true_iff in H1|]. apply orb_prop in H2 as [H2|H2].
  - apply andb_prop in H2 as [Ha Hb]. left. split; [now apply N.eqb_eq|now apply negb_true_iff].
  - right. now apply N.eqb_eq.
Qed.

Theorem reads_v3_long : forall sh pre a, abs_okb a = true -> expressible (V3L pre) a = true -> a_seed_hash a = sh ->
  c_deser_body sh (enc_v3_long pre a) = Ok (conc a).
Proof.
  intros sh pre a Hok Hex Hseed. subst sh. destruct (expressible_v3l pre a Hex) as [Hne Hpre].
  destruct (abs_ok_parts a Hok) as [Hent [Hth0 [Hth [Hemp [Hord [Hsd Hcnt]]]]]].
  unfold enc_v3_long, c_deser_body.
  set (flags := S_READ_ONLY + S_COMPACT + (if a_ordered a then S_ORDERED else 0)).
  assert (HF : flag_set flags (zN GenTheta.FLAGS_IS_EMPTY) = false /\ flag_set flags (zN GenTheta.FLAGS_IS_ORDERED) = a_ordered a).
  { unfold flags. destruct (a_ordered a); vm_compute; split; reflexivity. }
  destruct HF as [Fe Fo].
  assert (Hp : pre = 2 \/ pre = 3) by (destruct Hpre as [[E2 _] | E3]; auto).
  cbn [app]. change S_FAMILY_THETA with 3.
  do 3 (rewrite rd_cons; cbn [obind]).
  change (negb (3 =? zN GenCodec.FAMILY_THETA_ID)) with false. cbv iota.
  change (zN GenCodec.FAMILY_THETA_MIN_PRE_LONGS) with 1. change (zN GenCodec.FAMILY_THETA_MAX_PRE_LONGS) with 3.
  destruct (N.leb_spec 1 pre); [|lia]. destruct (N.leb_spec pre 3); [|lia]. cbn [andb negb].
  change (3 =? 1) with false. change (3 =? 2) with false. change (3 =? 3) with true. cbv iota.
  unfold deserialize_v3.
  change (0 :: 0 :: flags :: ?l) with ([0; 0] ++ flags :: l).
  rewrite (rd_app 2 [0; 0]) by reflexivity. cbn [obind]. rewrite rd_cons. cbn [obind].
  rewrite rd_le by exact Hsd. cbn [obind]. rewrite Fe, Fo, N.eqb_refl. cbn [negb].
  assert (Hord' : a_ordered a = true -> ascending_b (a_entries a) = true) by (intros Ho; rewrite <- asc_ascending_b; auto).
  destruct Hp as [-> | ->].
  - (* preLongs 2 *)
    destruct Hpre as [[_ Hest]|Hbad]; [|discriminate]. unfold est in Hest.
    assert (Eth : a_theta a = S_MAX_THETA) by (apply N.ltb_ge in Hest; lia).
    change (2 =? 1) with false. change (2 <? 2) with false. change (2 =? 3) with false. cbv iota. cbn [app].
    rewrite rd_le by exact Hcnt. cbn [obind].
    change (0 :: 0 :: 0 :: 0 :: ?l) with ([0; 0; 0; 0] ++ l). rewrite (rd_app 4 [0; 0; 0; 0]) by reflexivity. cbn [obind].
    assert (Hent' : Forall (fun h => 0 < h /\ h < MAX_THETA) (a_entries a)).
    { eapply Forall_impl; [|exact Hent]. intros h Hh. cbv beta in *. rewrite Eth in Hh. exact Hh. }
    unfold entry_bytes, cnt_of.
    rewrite (read_entries_flat MAX_THETA); [|rewrite max_theta_val; unfold M64; lia|exact Hent']. cbn [obind].
    rewrite ensure_ordered_ok by exact Hord'. cbn [obind]. unfold conc. rewrite Hne, Eth. reflexivity.
  - (* preLongs 3 *)
    change (3 =? 1) with false. change (2 <? 3) with true. change (3 =? 3) with true. cbv iota.
    rewrite rd_le by exact Hcnt. cbn [obind].
    change (0 :: 0 :: 0 :: 0 :: ?l) with ([0; 0; 0; 0] ++ l). rewrite (rd_app 4 [0; 0; 0; 0]) by reflexivity. cbn [obind].
    rewrite rd_le by (change (256 ^ N.of_nat 8) with M64; unfold M64, S_MAX_THETA in *; lia). cbn [obind].
    unfold ensure_theta. change MAX_THETA with S_MAX_THETA.
    destruct (N.eqb_spec (a_theta a) 0); [lia|]. destruct (N.ltb_spec S_MAX_THETA (a_theta a)); [lia|]. cbn [orb obind].
    unfold entry_bytes, cnt_of. rewrite read_entries_flat; [|unfold M64, S_MAX_THETA in *; lia|exact Hent]. cbn [obind].
    rewrite ensure_ordered_ok by exact Hord'. cbn [obind]. unfold conc. rewrite Hne. reflexivity.
Qed.

(* every variant, in one statement *)
Theorem reads_every_variant : forall sh v a, abs_okb a = true -> expressible v a = true ->
  a_seed_hash a = sh -> c_deser_body sh (enc_spec v a) = Ok (conc a) /\ abs_of (conc a) = a.
Proof.
  intros sh v a Hok Hex Hseed. split; [|apply abs_conc].
  destruct v as [| |sf|pre|]; cbn [enc_spec].
  - now apply reads_v1.
  - now apply reads_v2.
  - apply reads_v3; [exact Hok|intros _; exact Hseed].
  - now apply reads_v3_long.
  - apply reads_v4; [exact Hok|intros _; exact Hseed|exact Hex].
Qed.

(* ---------- the specification is consistent for serVer 1 and 2 as well ---------- *)
Theorem spec_roundtrip_v1 : forall sh a, abs_okb a = true -> expressible V1 a = true -> a_seed_hash a = sh ->
  dec_spec_body sh (enc_v1 a) = Some a.
Proof.
  intros sh a Hok Hex Hseed. destruct (expressible_12 a Hex) as [Ho Hem].
  destruct (abs_ok_parts a Hok) as [Hent [Hth0 [Hth [Hemp [Hord [Hsd Hcnt]]]]]].
  pose proof (entries_lt64 a Hok) as H64.
  unfold enc_v1.
  set (img := [3; 1; S_FAMILY_THETA; 0; 0; 0; 0; 0] ++ le_bytes 4 (cnt_of a) ++ [0; 0; 0; 0] ++ le_bytes 8 (a_theta a) ++ entry_bytes a).
  assert (Hlen : length img = (24 + 8 * length (a_entries a))%nat).
  { unfold img, entry_bytes. rewrite !app_length, !le_bytes_length, flat_map_le8_length. cbn [length]. lia. }
  assert (Ec : u 4 8 img = cnt_of a) by (unfold img; apply u_app; [reflexivity|exact Hcnt]).
  assert (Et : u 8 16 img = a_theta a).
  { unfold img. rewrite !app_assoc. rewrite <- (app_assoc _ (le_bytes 8 (a_theta a))).
    apply u_app; [rewrite !app_length, !le_bytes_length; reflexivity|]. change (256 ^ N.of_nat 8) with M64. unfold M64, S_MAX_THETA in *. lia. }
  assert (Eh : hashes (length (a_entries a)) 24 img = a_entries a).
  { unfold img, entry_bytes. rewrite !app_assoc. rewrite <- (app_nil_r (flat_map (le_bytes 8) (a_entries a))). rewrite app_assoc.
    rewrite <- app_assoc. apply hashes_flat; [rewrite !app_length, !le_bytes_length; reflexivity|exact H64]. }
  unfold dec_spec_body. rewrite has_true by lia. cbn [negb].
  assert (E2 : nth 2 img 0 = S_FAMILY_THETA) by reflexivity. assert (E1 : nth 1 img 0 = 1) by reflexivity.
  rewrite E2, E1. change (S_FAMILY_THETA =? S_FAMILY_THETA) with true. cbn [negb].
  change (1 =? 3) with false. change (1 =? 4) with false. change (1 =? 2) with false. change (1 =? 1) with true. cbv iota.
  unfold dec_v1. rewrite has_true by lia. cbn [negb].
  assert (Hcn : N.to_nat (cnt_of a) = length (a_entries a)) by (unfold cnt_of; apply Nat2N.id).
  rewrite Ec, Hcn. rewrite has_true by lia. rewrite Et, Eh.
  apply tabs_eq; try congruence. rewrite Hem. unfold cnt_of, est.
  destruct (a_entries a) as [|e0 r0]; cbn [length Nat.eqb]; [|reflexivity].
  change (N.of_nat 0 =? 0) with true. cbn [andb].
  destruct (N.ltb_spec (a_theta a) S_MAX_THETA); destruct (N.eqb_spec (a_theta a) S_MAX_THETA); try reflexivity; lia.
Qed.

Theorem spec_roundtrip_v2 : forall sh a, abs_okb a = true -> expressible V2 a = true ->
  dec_spec_body sh (enc_v2 a) = Some a.
Proof.
  intros sh a Hok Hex. destruct (expressible_12 a Hex) as [Ho Hem].
  destruct (abs_ok_parts a Hok) as [Hent [Hth0 [Hth [Hemp [Hord [Hsd Hcnt]]]]]].
  pose proof (entries_lt64 a Hok) as H64.
  assert (Hcn : N.to_nat (cnt_of a) = length (a_entries a)) by (unfold cnt_of; apply Nat2N.id).
  unfold enc_v2. unfold est in *.
  destruct (N.ltb_spec (a_theta a) S_MAX_THETA) as [Hest|Hex2].
  - (* estimating: preLongs 3 *)
    change (3 =? 1) with false. change (3 =? 3) with true. cbv iota.
    set (img := [3; 2; S_FAMILY_THETA; 0; 0; 0] ++ le_bytes 2 (a_seed_hash a) ++ (le_bytes 4 (cnt_of a) ++ [0; 0; 0; 0]) ++ le_bytes 8 (a_theta a) ++ entry_bytes a).
    assert (Hlen : length img = (24 + 8 * length (a_entries a))%nat).
    { unfold img, entry_bytes. rewrite !app_length, !le_bytes_length, flat_map_le8_length. cbn [length]. lia. }
    assert (Es : u 2 6 img = a_seed_hash a) by (unfold img; apply u_app; [reflexivity|exact Hsd]).
    assert (Ec : u 4 8 img = cnt_of a).
    { unfold img. rewrite (app_assoc [3; 2; S_FAMILY_THETA; 0; 0; 0]). rewrite <- (app_assoc (le_bytes 4 (cnt_of a))).
      apply u_app; [rewrite app_length, le_bytes_length; reflexivity|exact Hcnt]. }
    assert (Et : u 8 16 img = a_theta a).
    { unfold img. rewrite !app_assoc. rewrite <- (app_assoc _ (le_bytes 8 (a_theta a))).
      apply u_app; [rewrite !app_length, !le_bytes_length; reflexivity|]. change (256 ^ N.of_nat 8) with M64. unfold M64, S_MAX_THETA in *. lia. }
    assert (Eh : hashes (length (a_entries a)) 24 img = a_entries a).
    { unfold img, entry_bytes. rewrite !app_assoc. rewrite <- (app_nil_r (flat_map (le_bytes 8) (a_entries a))). rewrite app_assoc.
      rewrite <- app_assoc. apply hashes_flat; [rewrite !app_length, !le_bytes_length; reflexivity|exact H64]. }
    unfold dec_spec_body. rewrite has_true by lia. cbn [negb].
    assert (E2 : nth 2 img 0 = S_FAMILY_THETA) by reflexivity. assert (E1 : nth 1 img 0 = 2) by reflexivity.
    assert (E0 : nth 0 img 0 = 3) by reflexivity.
    rewrite E2, E1. change (S_FAMILY_THETA =? S_FAMILY_THETA) with true. cbn [negb].
    change (2 =? 3) with false. change (2 =? 4) with false. change (2 =? 2) with true. cbv iota.
    unfold dec_v2. rewrite E0. change (3 =? 1) with false. change (3 =? 2) with false. change (3 =? 3) with true. cbv iota.
    rewrite Ec, Hcn. rewrite has_true by lia. rewrite Et, Eh, Es.
    apply tabs_eq; try congruence. rewrite Hem.
    destruct (N.eqb_spec (a_theta a) S_MAX_THETA); [lia|]. cbn [negb]. now rewrite !andb_false_r.
  - assert (Eth : a_theta a = S_MAX_THETA) by lia. cbn [negb] in Hem. rewrite andb_true_r in Hem.
    destruct (a_empty a) eqn:Ee.
    + (* empty: preLongs 1 *)
      change (1 =? 1) with true. change (1 =? 3) with false. cbv iota.
      destruct (Hemp eq_refl) as [Ees _]. unfold entry_bytes. rewrite Ees. cbn [flat_map]. rewrite !app_nil_r.
      set (img := [1; 2; S_FAMILY_THETA; 0; 0; 0] ++ le_bytes 2 (a_seed_hash a)).
      assert (Es : u 2 6 img = a_seed_hash a).
      { unfold img. rewrite <- (app_nil_r (le_bytes 2 (a_seed_hash a))). apply u_app; [reflexivity|exact Hsd]. }
      unfold dec_spec_body. rewrite has_true by (unfold img; rewrite app_length, le_bytes_length; cbn [length]; lia). cbn [negb].
      assert (E2 : nth 2 img 0 = S_FAMILY_THETA) by reflexivity. assert (E1 : nth 1 img 0 = 2) by reflexivity.
      assert (E0 : nth 0 img 0 = 1) by reflexivity.
      rewrite E2, E1. change (S_FAMILY_THETA =? S_FAMILY_THETA) with true. cbn [negb].
      change (2 =? 3) with false. change (2 =? 4) with false. change (2 =? 2) with true. cbv iota.
      unfold dec_v2. rewrite E0. change (1 =? 1) with true. cbv iota. rewrite Es.
      apply tabs_eq; congruence.
    + (* exact: preLongs 2 *)
      change (2 =? 1) with false. change (2 =? 3) with false. cbv iota. rewrite app_nil_l.
      set (img := [2; 2; S_FAMILY_THETA; 0; 0; 0] ++ le_bytes 2 (a_seed_hash a) ++ (le_bytes 4 (cnt_of a) ++ [0; 0; 0; 0]) ++ entry_bytes a).
      assert (Hlen : length img = (16 + 8 * length (a_entries a))%nat).
      { unfold img, entry_bytes. rewrite !app_length, !le_bytes_length, flat_map_le8_length. cbn [length]. lia. }
      assert (Es : u 2 6 img = a_seed_hash a) by (unfold img; apply u_app; [reflexivity|exact Hsd]).
      assert (Ec : u 4 8 img = cnt_of a).
      { unfold img. rewrite (app_assoc [2; 2; S_FAMILY_THETA; 0; 0; 0]). rewrite <- (app_assoc (le_bytes 4 (cnt_of a))).
        apply u_app; [rewrite app_length, le_bytes_length; reflexivity|exact Hcnt]. }
      assert (Eh : hashes (length (a_entries a)) 16 img = a_entries a).
      { unfold img, entry_bytes. rewrite !app_assoc. rewrite <- (app_nil_r (flat_map (le_bytes 8) (a_entries a))). rewrite app_assoc.
        rewrite <- app_assoc. apply hashes_flat; [rewrite !app_length, !le_bytes_length; reflexivity|exact H64]. }
      unfold dec_spec_body. rewrite has_true by lia. cbn [negb].
      assert (E2 : nth 2 img 0 = S_FAMILY_THETA) by reflexivity. assert (E1 : nth 1 img 0 = 2) by reflexivity.
      assert (E0 : nth 0 img 0 = 2) by reflexivity.
      rewrite E2, E1. change (S_FAMILY_THETA =? S_FAMILY_THETA) with true. cbn [negb].
      change (2 =? 3) with false. change (2 =? 4) with false. change (2 =? 2) with true. cbv iota.
      unfold dec_v2. rewrite E0. change (2 =? 1) with false. change (2 =? 2) with true. cbv iota.
      rewrite Ec, Hcn. rewrite has_true by lia. rewrite Eh, Es.
      apply tabs_eq; try congruence.
      unfold cnt_of in Hem. destruct (a_entries a); cbn [length Nat.eqb] in *; [discriminate|congruence].
Qed.

Theorem spec_roundtrip_v3_long : forall sh pre a, abs_okb a = true -> expressible (V3L pre) a = true ->
  dec_spec_body sh (enc_v3_long pre a) = Some a.
Proof.
  intros sh pre a Hok Hex. destruct (expressible_v3l pre a Hex) as [Hne Hpre].
  destruct (abs_ok_parts a Hok) as [Hent [Hth0 [Hth [Hemp [Hord [Hsd Hcnt]]]]]].
  pose proof (entries_lt64 a Hok) as H64.
  assert (Hcn : N.to_nat (cnt_of a) = length (a_entries a)) by (unfold cnt_of; apply Nat2N.id).
  unfold enc_v3_long.
  set (flags := S_READ_ONLY + S_COMPACT + (if a_ordered a then S_ORDERED else 0)).
  assert (HF : flag flags S_EMPTY = false /\ flag flags S_ORDERED = a_ordered a).
  { unfold flags. destruct (a_ordered a); vm_compute; split; reflexivity. }
  destruct HF as [Fe Fo].
  destruct Hpre as [[-> Hest] | ->].
  - unfold est in Hest. assert (Eth : a_theta a = S_MAX_THETA) by (apply N.ltb_ge in Hest; lia).
    change (2 =? 3) with false. cbv iota. rewrite app_nil_l.
    set (img := [2; 3; S_FAMILY_THETA; 0; 0; flags] ++ le_bytes 2 (a_seed_hash a) ++ le_bytes 4 (cnt_of a) ++ [0; 0; 0; 0] ++ entry_bytes a).
    assert (Hlen : length img = (16 + 8 * length (a_entries a))%nat).
    { unfold img, entry_bytes. rewrite !app_length, !le_bytes_length, flat_map_le8_length. cbn [length]. lia. }
    assert (Es : u 2 6 img = a_seed_hash a) by (unfold img; apply u_app; [reflexivity|exact Hsd]).
    assert (Ec : u 4 8 img = cnt_of a).
    { unfold img. rewrite (app_assoc [2; 3; S_FAMILY_THETA; 0; 0; flags]).
      apply u_app; [rewrite app_length, le_bytes_length; reflexivity|exact Hcnt]. }
    assert (Eh : hashes (length (a_entries a)) 16 img = a_entries a).
    { unfold img, entry_bytes. rewrite !app_assoc. rewrite <- (app_nil_r (flat_map (le_bytes 8) (a_entries a))). rewrite app_assoc.
      rewrite <- app_assoc. apply hashes_flat; [rewrite !app_length, !le_bytes_length; reflexivity|exact H64]. }
    unfold dec_spec_body. rewrite has_true by lia. cbn [negb].
    assert (E2 : nth 2 img 0 = S_FAMILY_THETA) by reflexivity. assert (E1 : nth 1 img 0 = 3) by reflexivity.
    assert (E0 : nth 0 img 0 = 2) by reflexivity. assert (E5 : nth 5 img 0 = flags) by reflexivity.
    rewrite E2, E1. change (S_FAMILY_THETA =? S_FAMILY_THETA) with true. cbn [negb].
    change (3 =? 3) with true. cbv iota.
    unfold dec_v3. rewrite E0, E5, Fe, Fo, Es. change (2 =? 1) with false. change (2 =? 2) with true. cbv iota.
    rewrite Ec, Hcn. rewrite has_true by lia. rewrite Eh.
    apply tabs_eq; congruence.
  - change (3 =? 3) with true. cbv iota.
    set (img := [3; 3; S_FAMILY_THETA; 0; 0; flags] ++ le_bytes 2 (a_seed_hash a) ++ le_bytes 4 (cnt_of a) ++ [0; 0; 0; 0] ++ le_bytes 8 (a_theta a) ++ entry_bytes a).
    assert (Hlen : length img = (24 + 8 * length (a_entries a))%nat).
    { unfold img, entry_bytes. rewrite !app_length, !le_bytes_length, flat_map_le8_length. cbn [length]. lia. }
    assert (Es : u 2 6 img = a_seed_hash a) by (unfold img; apply u_app; [reflexivity|exact Hsd]).
    assert (Ec : u 4 8 img = cnt_of a).
    { unfold img. rewrite (app_assoc [3; 3; S_FAMILY_THETA; 0; 0; flags]).
      apply u_app; [rewrite app_length, le_bytes_length; reflexivity|exact Hcnt]. }
    assert (Et : u 8 16 img = a_theta a).
    { unfold img. rewrite !app_assoc. rewrite <- (app_assoc _ (le_bytes 8 (a_theta a))).
      apply u_app; [rewrite !app_length, !le_bytes_length; reflexivity|]. change (256 ^ N.of_nat 8) with M64. unfold M64, S_MAX_THETA in *. lia. }
    assert (Eh : hashes (length (a_entries a)) 24 img = a_entries a).
    { unfold img, entry_bytes. rewrite !app_assoc. rewrite <- (app_nil_r (flat_map (le_bytes 8) (a_entries a))). rewrite app_assoc.
      rewrite <- app_assoc. apply hashes_flat; [rewrite !app_length, !le_bytes_length; reflexivity|exact H64]. }
    unfold dec_spec_body. rewrite has_true by lia. cbn [negb].
    assert (E2 : nth 2 img 0 = S_FAMILY_THETA) by reflexivity. assert (E1 : nth 1 img 0 = 3) by reflexivity.
    assert (E0 : nth 0 img 0 = 3) by reflexivity. assert (E5 : nth 5 img 0 = flags) by reflexivity.
    rewrite E2, E1. change (S_FAMILY_THETA =? S_FAMILY_THETA) with true. cbn [negb].
    change (3 =? 3) with true. cbv iota.
    unfold dec_v3. rewrite E0, E5, Fe, Fo, Es. change (3 =? 1) with false. change (3 =? 2) with false. change (3 =? 3) with true. cbv iota.
    rewrite Ec, Hcn. rewrite has_true by lia. rewrite Eh, Et.
    apply tabs_eq; congruence.
Qed.

Theorem spec_roundtrip : forall sh v a, abs_okb a = true -> expressible v a = true -> a_seed_hash a = sh ->
  dec_spec_body sh (enc_spec v a) = Some a.
Proof.
  intros sh v a Hok Hex Hseed. destruct v as [| |sf|pre|]; cbn [enc_spec].
  - now apply spec_roundtrip_v1.
  - now apply spec_roundtrip_v2.
  - now apply spec_roundtrip_v3.
  - now apply spec_roundtrip_v3_long.
  - now apply spec_roundtrip_v4.
Qed.

(* ====================== the entry points ======================
   [c_deserialize] (seed check first) and [dec_spec] (preamble-longs byte in 1..3 first). *)
Lemma enc_spec_pre_ok : forall v a, expressible v a = true ->
  let pre := nth 0 (enc_spec v a) 0 in (1 <=? pre) && (pre <=? 3) = true.
Proof.
  intros v a Hex. destruct v as [| |sf|pre|]; cbn [enc_spec].
  - reflexivity.
  - unfold enc_v2. cbn [app nth]. destruct (est a); [reflexivity|]. destruct (a_empty a); reflexivity.
  - unfold enc_v3. cbn [app nth]. destruct (a_empty a); [reflexivity|]. destruct (est a); [reflexivity|]. destruct (is_single a); reflexivity.
  - destruct (expressible_v3l pre a Hex) as [_ [[-> _] | ->]]; reflexivity.
  - unfold enc_v4. cbn [app nth]. destruct (est a); reflexivity.
Qed.

Lemma dec_spec_ep : forall sh bs, (1 <=? nth 0 bs 0) && (nth 0 bs 0 <=? 3) = true -> dec_spec sh bs = dec_spec_body sh bs.
Proof. intros sh bs H. unfold dec_spec. cbv zeta. now rewrite H. Qed.

Theorem ep_spec_roundtrip : forall sh v a, abs_okb a = true -> expressible v a = true -> a_seed_hash a = sh ->
  dec_spec sh (enc_spec v a) = Some a.
Proof.
  intros sh v a Hok Hex Hs. rewrite dec_spec_ep by (apply enc_spec_pre_ok; exact Hex). now apply spec_roundtrip.
Qed.

Lemma serialize_pre_ok : forall c, let pre := nth 0 (c_serialize c) 0 in (1 <=? pre) && (pre <=? 3) = true.
Proof.
  intros c. unfold c_serialize. cbn [app nth]. unfold c_preamble_longs.
  destruct (c_is_estimation_mode c); [reflexivity|]. destruct (_ || _); reflexivity.
Qed.

Theorem ep_writer_conforms : forall sh c, c_wf sh c -> dec_spec sh (c_serialize c) = Some (abs_of c).
Proof. intros sh c Hwf. rewrite dec_spec_ep by apply serialize_pre_ok. now apply writer_conforms. Qed.

Theorem ep_compressed_writer_conforms : forall sh c bs, c_wf sh c -> c_serialize_compressed c = Ok bs ->
  dec_spec sh bs = Some (abs_of c).
Proof.
  intros sh c bs Hwf H. rewrite dec_spec_ep; [now apply (compressed_writer_conforms sh c)|].
  unfold c_serialize_compressed in H. destruct (c_is_suitable_for_compression c) eqn:E.
  - rewrite (model_v4_is_spec sh c Hwf E) in H. inversion H.
    apply (enc_spec_pre_ok V4). eapply suitable_expressible; eauto.
  - inversion H. apply serialize_pre_ok.
Qed.

Theorem ep_reads_every_variant : forall sh v a, sh <> 0 -> abs_okb a = true -> expressible v a = true ->
  a_seed_hash a = sh -> c_deserialize sh (enc_spec v a) = Ok (conc a) /\ abs_of (conc a) = a.
Proof. intros sh v a H0 Hok Hex Hs. rewrite deser_ep by exact H0. now apply reads_every_variant. Qed.

Theorem ep_reads_v3 : forall sh sf a, sh <> 0 -> abs_okb a = true -> (a_empty a = false -> a_seed_hash a = sh) ->
  c_deserialize sh (enc_v3 sf a) = Ok (conc a).
Proof. intros sh sf a H0 Hok Hs. rewrite deser_ep by exact H0. now apply reads_v3. Qed.
