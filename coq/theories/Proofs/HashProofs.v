(* C16: the streaming hashers equal the one-shot references for every seed, byte string
   and chunking.  Invariant (DESIGN.md Appendix B.1): after writes whose concatenation is
   B, (accumulators, buffer) = absorb_all init B and the length bookkeeping matches |B|. *)
From DS Require Import Base.Prelude Base.Absorb Model.Murmur Model.XxHash.
From DS Require Gen.GenHash.
From Coq Require Import ZifyBool ZifyNat ZifyN.
Open Scope N_scope.

(* ------------------------------------------------------------------ Murmur *)
Definition m_inv (seed : N) (B : list N) (s : mstate) : Prop :=
  (m_h s, m_buf s) = absorb_all 16 m_block (seed, seed) B /\
  m_total s + N.of_nat (length (m_buf s)) = N.of_nat (length B).

Lemma m_inv_init seed : m_inv seed [] (m_init seed).
Proof. split; reflexivity. Qed.

Lemma m_buf_lt seed B s : m_inv seed B s -> (length (m_buf s) < 16)%nat.
Proof.
  intros [H _]. pose proof (absorb_all_rest_lt 16 ltac:(lia) m_block (seed, seed) B) as Hl.
  rewrite <- H in Hl. exact Hl.
Qed.

Lemma m_write_inv seed B s bytes :
  m_inv seed B s -> m_inv seed (B ++ bytes) (m_write s bytes).
Proof.
  intros Hinv. pose proof (m_buf_lt _ _ _ Hinv) as Hb. destruct Hinv as [Hh Ht].
  assert (Happ : absorb_all 16 m_block (seed, seed) (B ++ bytes) = absorb_all 16 m_block (m_h s) (m_buf s ++ bytes)).
  { rewrite (absorb_all_app 16 ltac:(lia) m_block (length B) B bytes (seed, seed) (le_n _)). rewrite <- Hh. reflexivity. }
  unfold m_write.
  destruct (Nat.ltb_spec (length (m_buf s) + length bytes) 16) as [Hlt|Hge].
  - (* region 1: append only *)
    split; cbn [m_h m_buf m_total].
    + rewrite Happ. rewrite (absorb_all_small 16 ltac:(lia)); [reflexivity | rewrite app_length; lia].
    + rewrite !app_length. lia.
  - destruct (m_buf s) as [|b0 buf] eqn:Eb.
    + (* empty buffer: whole blocks straight from the input *)
      cbn [app] in Happ. cbn [length] in Ht.
      unfold m_absorb. rewrite (absorb_enough 16 ltac:(lia) m_block (length bytes / 16)) by lia.
      pose proof (absorb_all_length 16 ltac:(lia) m_block (m_h s) bytes) as Hl.
      destruct (absorb_all 16 m_block (m_h s) bytes) as [h rest] eqn:Ea.
      split; cbn [m_h m_buf m_total snd] in *.
      * rewrite Happ. reflexivity.
      * rewrite app_length. lia.
    + (* top up the partial block, then whole blocks *)
      set (bf := b0 :: buf) in *.
      set (wanted := (16 - length bf)%nat).
      assert (Hw : (wanted <= length bytes)%nat) by (subst wanted; lia).
      assert (Hstep : absorb_all 16 m_block (m_h s) (bf ++ bytes) =
                      absorb_all 16 m_block (m_block (m_h s) (bf ++ firstn wanted bytes)) (skipn wanted bytes)).
      { rewrite (absorb_all_step 16 ltac:(lia) m_block) by (rewrite app_length; lia).
        rewrite firstn_app, skipn_app.
        rewrite (firstn_all2 bf) by lia. rewrite (skipn_all2 bf) by lia. reflexivity. }
      unfold m_absorb. rewrite (absorb_enough 16 ltac:(lia) m_block (length (skipn wanted bytes) / 16)) by lia.
      pose proof (absorb_all_length 16 ltac:(lia) m_block (m_block (m_h s) (bf ++ firstn wanted bytes)) (skipn wanted bytes)) as Hl.
      destruct (absorb_all 16 m_block (m_block (m_h s) (bf ++ firstn wanted bytes)) (skipn wanted bytes)) as [h rest] eqn:Ea.
      split; cbn [m_h m_buf m_total snd] in *.
      * rewrite Happ, Hstep. reflexivity.
      * rewrite skipn_length in Hl. rewrite app_length. rewrite skipn_length. lia.
Qed.

Lemma m_fold_inv seed : forall chunks B s,
  m_inv seed B s -> m_inv seed (B ++ concat chunks) (fold_left m_write chunks s).
Proof.
  induction chunks as [|c cs IH]; intros B s H; cbn [fold_left concat].
  - rewrite app_nil_r. exact H.
  - rewrite app_assoc. apply IH. apply m_write_inv. exact H.
Qed.

Theorem murmur_chunking seed chunks :
  m_hash_chunks seed chunks = murmur3_x64_128 seed (concat chunks).
Proof.
  unfold m_hash_chunks, m_finish, murmur3_x64_128, m_absorb_all.
  pose proof (m_fold_inv seed chunks [] (m_init seed) (m_inv_init seed)) as [Hh Ht].
  cbn [app] in Hh, Ht.
  change (m_absorb (length (concat chunks)) (seed, seed) (concat chunks))
    with (absorb_all 16 m_block (seed, seed) (concat chunks)).
  rewrite <- Hh, Ht. reflexivity.
Qed.

(* ------------------------------------------------------------------ XXH64 *)
Definition x_inv (seed : N) (B : list N) (s : xstate) : Prop :=
  x_seed s = seed /\
  (x_v s, x_buf s) = absorb_all 32 x_block (x_init_vs seed) B /\
  x_total s = wrap64 (N.of_nat (length B)).

Lemma x_inv_init seed : x_inv seed [] (x_init seed).
Proof. repeat split. Qed.

Lemma x_buf_lt seed B s : x_inv seed B s -> (length (x_buf s) < 32)%nat.
Proof.
  intros (_ & H & _). pose proof (absorb_all_rest_lt 32 ltac:(lia) x_block (x_init_vs seed) B) as Hl.
  rewrite <- H in Hl. exact Hl.
Qed.

Lemma wrap_add a b : add64 (wrap64 a) b = wrap64 (a + b).
Proof. unfold add64, wrap64. rewrite N.add_mod_idemp_l; [reflexivity | unfold M64; lia]. Qed.

Lemma x_write_inv seed B s bytes :
  x_inv seed B s -> x_inv seed (B ++ bytes) (x_write s bytes).
Proof.
  intros Hinv. pose proof (x_buf_lt _ _ _ Hinv) as Hb. destruct Hinv as (Hs & Hh & Ht).
  assert (Happ : absorb_all 32 x_block (x_init_vs seed) (B ++ bytes) = absorb_all 32 x_block (x_v s) (x_buf s ++ bytes)).
  { rewrite (absorb_all_app 32 ltac:(lia) x_block (length B) B bytes (x_init_vs seed) (le_n _)). rewrite <- Hh. reflexivity. }
  assert (Htot : add64 (x_total s) (N.of_nat (length bytes)) = wrap64 (N.of_nat (length (B ++ bytes)))).
  { rewrite Ht, wrap_add, app_length. f_equal. lia. }
  unfold x_write. rewrite Htot.
  destruct (Nat.ltb_spec (length (x_buf s) + length bytes) 32) as [Hlt|Hge].
  - repeat split; cbn [x_seed x_v x_buf x_total]; auto.
    rewrite Happ. rewrite (absorb_all_small 32 ltac:(lia)); [reflexivity | rewrite app_length; lia].
  - destruct (x_buf s) as [|b0 buf] eqn:Eb.
    + cbn [app] in Happ.
      unfold x_absorb. rewrite (absorb_enough 32 ltac:(lia) x_block (length bytes / 32)) by lia.
      destruct (absorb_all 32 x_block (x_v s) bytes) as [v rest] eqn:Ea.
      repeat split; cbn [x_seed x_v x_buf x_total]; auto; rewrite Happ; reflexivity.
    + set (bf := b0 :: buf) in *.
      set (needed := (32 - length bf)%nat).
      assert (Hw : (needed <= length bytes)%nat) by (subst needed; lia).
      assert (Hstep : absorb_all 32 x_block (x_v s) (bf ++ bytes) =
                      absorb_all 32 x_block (x_block (x_v s) (bf ++ firstn needed bytes)) (skipn needed bytes)).
      { rewrite (absorb_all_step 32 ltac:(lia) x_block) by (rewrite app_length; lia).
        rewrite firstn_app, skipn_app.
        rewrite (firstn_all2 bf) by lia. rewrite (skipn_all2 bf) by lia. reflexivity. }
      unfold x_absorb. rewrite (absorb_enough 32 ltac:(lia) x_block (length (skipn needed bytes) / 32)) by lia.
      destruct (absorb_all 32 x_block (x_block (x_v s) (bf ++ firstn needed bytes)) (skipn needed bytes)) as [v rest] eqn:Ea.
      repeat split; cbn [x_seed x_v x_buf x_total]; auto; rewrite Happ, Hstep; reflexivity.
Qed.

Lemma x_fold_inv seed : forall chunks B s,
  x_inv seed B s -> x_inv seed (B ++ concat chunks) (fold_left x_write chunks s).
Proof.
  induction chunks as [|c cs IH]; intros B s H; cbn [fold_left concat].
  - rewrite app_nil_r. exact H.
  - rewrite app_assoc. apply IH. apply x_write_inv. exact H.
Qed.

Theorem xxh64_chunking seed chunks :
  x_hash_chunks seed chunks = xxh64 seed (concat chunks).
Proof.
  unfold x_hash_chunks, x_finish, xxh64, x_absorb_all.
  pose proof (x_fold_inv seed chunks [] (x_init seed) (x_inv_init seed)) as (Hs & Hh & Ht).
  cbn [app] in Hh, Ht.
  change (x_absorb (length (concat chunks)) (x_init_vs seed) (concat chunks))
    with (absorb_all 32 x_block (x_init_vs seed) (concat chunks)).
  rewrite <- Hh, Hs, Ht. reflexivity.
Qed.

(* hash_u64 is XXH64 of the 8 little-endian bytes *)
Lemma le_val_le_bytes8 x : x < M64 -> le_val (le_bytes 8 x) = x.
Proof.
  intros H. unfold M64 in H. cbn [le_bytes le_val].
  repeat match goal with |- context [(?a / 256)] => let q := fresh "q" in set (q := a / 256) in * end.
  Ltac Zify.zify_post_hook ::= Z.div_mod_to_equations.
  subst. lia.
Qed.

Theorem xxh64_hash_u64 input seed :
  input < M64 -> x_hash_u64 input seed = xxh64 seed (le_bytes 8 input).
Proof.
  intros H. unfold xxh64, x_absorb_all.
  change (length (le_bytes 8 input)) with 8%nat.
  unfold x_absorb.
  change (absorb 32 x_block 8 (x_init_vs seed) (le_bytes 8 input)) with
    (absorb_all 32 x_block (x_init_vs seed) (le_bytes 8 input)).
  rewrite (absorb_all_small 32 ltac:(lia)) by (cbn; lia).
  unfold x_final, x_init_vs.
  change (wrap64 (N.of_nat 8)) with 8. change (32 <=? 8) with false. cbn iota.
  change 4%nat with (S 3). cbn [x_tail8].
  change (length (le_bytes 8 input) <? 8)%nat with false. cbn iota.
  change (firstn 8 (le_bytes 8 input)) with (le_bytes 8 input).
  change (skipn 8 (le_bytes 8 input)) with (@nil N).
  cbn [x_tail8 length Nat.ltb Nat.leb]. unfold x_tail4. cbn [length Nat.ltb Nat.leb x_tail1].
  rewrite le_val_le_bytes8 by exact H. reflexivity.
Qed.

(* ------------------------------------------------------------------ glue: the inline literals
   of the Rust function bodies are the ones the model uses (re-checked against the source on
   every run: a changed rotation, multiplier or mask breaks one of these) *)
Open Scope Z_scope.
Lemma lit_murmur_update : GenHash.LIT_update = [31; 27; 5; 0x52dce729; 33; 31; 5; 0x38495ab5; 16].
Proof. reflexivity. Qed.
Lemma lit_murmur_fmix64 : GenHash.LIT_fmix64 = [33; 0xff51afd7ed558ccd; 33; 0xc4ceb9fe1a85ec53; 33].
Proof. reflexivity. Qed.
Lemma lit_murmur_finish128 : GenHash.LIT_finish128 = [0; 8; 33; 8; 31].
Proof. reflexivity. Qed.
Lemma lit_murmur_write : GenHash.LIT_write = [16; 0; 16; 0; 4; 4; 8; 8; 16; 0].
Proof. reflexivity. Qed.
Lemma lit_murmur_consts : GenHash.C1 = 0x87c37b91114253d5 /\ GenHash.C2 = 0x4cf5ad432745937f.
Proof. split; reflexivity. Qed.
Lemma lit_xxh_consts :
  GenHash.P1 = 0x9E3779B185EBCA87 /\ GenHash.P2 = 0xC2B2AE3D27D4EB4F /\ GenHash.P3 = 0x165667B19E3779F9 /\
  GenHash.P4 = 0x85EBCA77C2B2AE63 /\ GenHash.P5 = 0x27D4EB2F165667C5.
Proof. repeat split; reflexivity. Qed.
Lemma lit_xxh_finish64 : GenHash.LIT_finish64 = [32; 1; 7; 12; 18; 0; 8; 8; 31; 27; 8; 4; 4; 23; 4; 11; 1].
Proof. reflexivity. Qed.
Lemma lit_xxh_rounds : GenHash.LIT_round = [31] /\ GenHash.LIT_merge_round = [31] /\ GenHash.LIT_finalize = [33; 29; 32] /\
  GenHash.LIT_hash_u64 = [8; 31; 27] /\ GenHash.LIT_with_seed = [0; 0; 32; 0].
Proof. repeat split; reflexivity. Qed.
Lemma lit_seed_hash : GenHash.LIT_compute_seed_hash = [0; 65535; 0] /\ GenHash.DEFAULT_UPDATE_SEED = 9001.
Proof. split; reflexivity. Qed.

Definition hash_literals_ok : Prop :=
  GenHash.LIT_update = [31; 27; 5; 0x52dce729; 33; 31; 5; 0x38495ab5; 16] /\
  GenHash.LIT_fmix64 = [33; 0xff51afd7ed558ccd; 33; 0xc4ceb9fe1a85ec53; 33] /\
  GenHash.LIT_finish128 = [0; 8; 33; 8; 31] /\
  GenHash.LIT_write = [16; 0; 16; 0; 4; 4; 8; 8; 16; 0] /\
  (GenHash.C1 = 0x87c37b91114253d5 /\ GenHash.C2 = 0x4cf5ad432745937f) /\
  (GenHash.P1 = 0x9E3779B185EBCA87 /\ GenHash.P2 = 0xC2B2AE3D27D4EB4F /\ GenHash.P3 = 0x165667B19E3779F9 /\
   GenHash.P4 = 0x85EBCA77C2B2AE63 /\ GenHash.P5 = 0x27D4EB2F165667C5) /\
  GenHash.LIT_finish64 = [32; 1; 7; 12; 18; 0; 8; 8; 31; 27; 8; 4; 4; 23; 4; 11; 1] /\
  (GenHash.LIT_round = [31] /\ GenHash.LIT_merge_round = [31] /\ GenHash.LIT_finalize = [33; 29; 32] /\
   GenHash.LIT_hash_u64 = [8; 31; 27] /\ GenHash.LIT_with_seed = [0; 0; 32; 0]) /\
  (GenHash.LIT_compute_seed_hash = [0; 65535; 0] /\ GenHash.DEFAULT_UPDATE_SEED = 9001).
Lemma hash_literals : hash_literals_ok.
Proof.
  unfold hash_literals_ok.
  repeat split; first [ exact lit_murmur_update | exact lit_murmur_fmix64 | reflexivity ].
Qed.

(* ------------------------------------------------------------------ derived quantities: ranges *)
Open Scope N_scope.
From DS Require Import Model.Derive.

Lemma land_lt_pow2 a n : N.land a (2 ^ n - 1) < 2 ^ n.
Proof.
  replace (2 ^ n - 1) with (N.ones n) by (rewrite N.ones_equiv; lia).
  rewrite N.land_ones. apply N.mod_lt. apply N.pow_nonzero. lia.
Qed.

Lemma lor_shiftl_lt v a n : a < 2 ^ n -> N.lor (N.shiftl v n) a = v * 2 ^ n + a.
Proof.
  intros Ha. rewrite N.shiftl_mul_pow2.
  rewrite <- N.lxor_lor.
  - rewrite <- N.add_nocarry_lxor; [reflexivity|].
    apply N.bits_inj. intros i. rewrite N.land_spec, N.bits_0.
    destruct (N.lt_ge_cases i n) as [Hi|Hi].
    + rewrite N.mul_pow2_bits_low by exact Hi. reflexivity.
    + destruct (N.eq_dec a 0) as [->|Hnz]; [rewrite N.bits_0; apply andb_false_r|].
      rewrite (N.bits_above_log2 a i); [apply andb_false_r|].
      apply N.log2_lt_pow2 in Ha; [lia|lia].
  - apply N.bits_inj. intros i. rewrite N.land_spec, N.bits_0.
    destruct (N.lt_ge_cases i n) as [Hi|Hi].
    + rewrite N.mul_pow2_bits_low by exact Hi. reflexivity.
    + destruct (N.eq_dec a 0) as [->|Hnz]; [rewrite N.bits_0; apply andb_false_r|].
      rewrite (N.bits_above_log2 a i); [apply andb_false_r|].
      apply N.log2_lt_pow2 in Ha; [lia|lia].
Qed.

(* HLL coupon: slot below 2^26 and 1 <= value <= 63 *)
Theorem hll_coupon_range h :
  let c := hll_coupon_of h in
  c mod 2 ^ 26 < 2 ^ 26 /\ 1 <= c / 2 ^ 26 <= 63.
Proof.
  destruct h as [lo hi]. cbn zeta. unfold hll_coupon_of.
  assert (Ha : N.land lo 0x3ffffff < 2 ^ 26) by (change 0x3ffffff with (2 ^ 26 - 1); apply land_lt_pow2).
  rewrite lor_shiftl_lt by exact Ha.
  split; [apply N.mod_lt; lia|].
  rewrite N.div_add_l by lia. rewrite (N.div_small _ _ Ha). lia.
Qed.

(* ... and exactly: slot = the low 26 bits of h1, value = min(leading zeros of h2, 62) + 1 *)
Theorem hll_coupon_fields h :
  let c := hll_coupon_of h in
  c mod 2 ^ 26 = fst h mod 2 ^ 26 /\ c / 2 ^ 26 = N.min (lz64 (snd h)) 62 + 1.
Proof.
  destruct h as [lo hi]. cbn zeta. unfold hll_coupon_of. cbn [fst snd].
  assert (Hm : N.land lo 0x3ffffff = lo mod 2 ^ 26) by (change 0x3ffffff with (N.ones 26); apply N.land_ones).
  assert (Ha : N.land lo 0x3ffffff < 2 ^ 26) by (rewrite Hm; apply N.mod_lt; lia).
  rewrite lor_shiftl_lt by exact Ha. split.
  - rewrite N.add_comm, N.mod_add by lia. rewrite (N.mod_small _ _ Ha). exact Hm.
  - rewrite N.div_add_l by lia. rewrite (N.div_small _ _ Ha). lia.
Qed.

Theorem theta_hash_range h : fst h < M64 -> theta_hash_of h < 2 ^ 63.
Proof.
  intros H. unfold theta_hash_of. rewrite N.shiftr_div_pow2.
  apply N.div_lt_upper_bound; [lia|]. unfold M64 in H. lia.
Qed.

Theorem cm_bucket_range seed row nb item : nb <> 0 -> cm_bucket seed row nb item < nb.
Proof. intros H. unfold cm_bucket. apply N.mod_lt. exact H. Qed.

Theorem bloom_position_range h0 h1 i cap : cap <> 0 -> bloom_position h0 h1 i cap < cap.
Proof. intros H. unfold bloom_position. apply N.mod_lt. exact H. Qed.

(* CPC: row below k, column at most 63, never the table's "empty" marker u32::MAX *)
Theorem cpc_row_col_range lg_k h :
  lg_k <= 26 ->
  let rc := cpc_row_col_of lg_k h in
  rc <> 0xffffffff /\ rc mod 64 <= 63 /\ rc / 64 < 2 ^ lg_k.
Proof.
  intros Hk. destruct h as [h1 h2]. cbn zeta. unfold cpc_row_col_of.
  rewrite N.shiftl_1_l.
  set (row := N.land h1 (2 ^ lg_k - 1)). set (col := N.min (lz64 h2) 63).
  assert (Hrow : row < 2 ^ lg_k) by apply land_lt_pow2.
  assert (Hcol : col < 2 ^ 6) by (subst col; change (2 ^ 6) with 64; lia).
  rewrite lor_shiftl_lt by exact Hcol. change (2 ^ 6) with 64.
  assert (Hk' : 2 ^ lg_k <= 2 ^ 26) by (apply N.pow_le_mono_r; lia).
  change (2 ^ 26) with 67108864 in Hk'.
  destruct (N.eqb_spec (row * 64 + col) 0xffffffff) as [E|E].
  - (* row = 2^26 - 1, col = 63: flip bit 6 *)
    assert (Hr : row = 67108863) by lia. assert (Hc : col = 63) by lia.
    rewrite Hr, Hc. change (N.lxor (67108863 * 64 + 63) 64) with 4294967231.
    repeat split; try (vm_compute; congruence).
    change (4294967231 / 64) with 67108862. lia.
  - split; [exact E|]. split.
    + pose proof (N.mod_lt (row * 64 + col) 64 ltac:(lia)). lia.
    + rewrite N.div_add_l by lia. rewrite (N.div_small col 64) by (change (2^6) with 64 in Hcol; lia). lia.
Qed.
