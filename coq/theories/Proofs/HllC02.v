(* HLL proofs, part 9: the statements of Props/C02.v in their final form (wrappers that hide
   unused section arguments), and the concrete witnesses of the non-vacuity examples. *)
From DS Require Import Base.Prelude Model.Hll Proofs.HllBase Proofs.HllArray8 Proofs.HllArray6
  Proofs.HllOpenAddr Proofs.HllSet Proofs.HllAux Proofs.HllArray4 Proofs.HllRefine.
From Coq Require Import ZifyBool ZifyNat ZifyN.
Open Scope N_scope.
Ltac Zify.zify_post_hook ::= Z.div_mod_to_equations.

(* ---------- open addressing, generic ---------- *)
Lemma oa_probe_permutation : forall lg (start stride : N -> N),
  (forall x, start x < 2 ^ lg) -> (forall x, N.odd (stride x) = true) ->
  forall x,
    (forall n m, n < 2 ^ lg -> m < 2 ^ lg -> pos lg start stride x n = pos lg start stride x m -> n = m) /\
    (forall i, i < 2 ^ lg -> exists n, n < 2 ^ lg /\ pos lg start stride x n = i).
Proof.
  intros lg start stride Hs Ho x. split.
  - intros n m. apply (pos_inj lg (fun e => e) start stride Hs Ho).
  - intros i. apply (pos_surj lg (fun e => e) start stride Hs Ho).
Qed.

Lemma oa_find_spec : forall lg (key start stride : N -> N),
  (forall x, start x < 2 ^ lg) -> (forall x, N.odd (stride x) = true) ->
  forall tab x, OAInv lg key start stride tab -> has_empty lg tab ->
  exists i, i < 2 ^ lg /\
    ((aget tab i = 0 /\ find lg key start stride tab x = Ok (i, false) /\
      (forall j, j < 2 ^ lg -> aget tab j <> 0 -> key (aget tab j) <> x) /\
      exists n1, n1 < 2 ^ lg /\ pos lg start stride x n1 = i /\
        forall m, m < n1 -> aget tab (pos lg start stride x m) <> 0 /\ key (aget tab (pos lg start stride x m)) <> x)
     \/ (aget tab i <> 0 /\ key (aget tab i) = x /\ find lg key start stride tab x = Ok (i, true))).
Proof. exact find_spec. Qed.

Lemma oa_insert_keeps_inv : forall lg (key start stride : N -> N),
  (forall x, start x < 2 ^ lg) -> (forall x, N.odd (stride x) = true) ->
  forall tab x e n1, OAInv lg key start stride tab -> n1 < 2 ^ lg -> aget tab (pos lg start stride x n1) = 0 ->
  (forall m, m < n1 -> aget tab (pos lg start stride x m) <> 0 /\ key (aget tab (pos lg start stride x m)) <> x) ->
  e <> 0 -> key e = x -> OAInv lg key start stride (aset tab (pos lg start stride x n1) e).
Proof. exact OA_insert. Qed.

Lemma oa_no_duplicate_keys : forall lg (key start stride : N -> N) tab i j,
  OAInv lg key start stride tab -> i < 2 ^ lg -> j < 2 ^ lg -> aget tab i <> 0 -> aget tab j <> 0 ->
  key (aget tab i) = key (aget tab j) -> i = j.
Proof. exact OA_distinct. Qed.

(* ---------- instances ---------- *)
Lemma hashset_update_spec : forall lg st S c, SetRep lg st S -> hs_len st < 2 ^ lg -> c <> 0 ->
  exists st', set_update st c = Ok st' /\ SetRep lg st' (c :: S) /\
    (In c S -> st' = st) /\ (~ In c S -> hs_len st' = hs_len st + 1).
Proof. exact set_update_spec. Qed.

(* ---------- Array4 ---------- *)
Lemma array4_inv_new : forall E lgk (e : E), Inv4 lgk (fun _ => 0) (a4_new lgk e) /\ 0 < a4_num (a4_new lgk e).
Proof. intros. split; [apply inv4_new|]. unfold a4_new. cbn [a4_num]. apply pow2_pos. Qed.

Lemma array4_inv_update : forall E (eupd : N -> N -> N -> E -> E) lgk regs a c,
  4 <= lgk <= 21 -> Inv4 lgk regs a -> 0 < a4_num a -> (forall j, j < 2 ^ lgk -> regs j <= 63) -> valid c ->
  exists a', a4_update eupd a c = Ok a' /\
    Inv4 lgk (upd_regs regs (cslot lgk c) (cvalue c)) a' /\ 0 < a4_num a' /\
    a4_est a' = (if regs (cslot lgk c) <? cvalue c then eupd lgk (regs (cslot lgk c)) (cvalue c) (a4_est a) else a4_est a).
Proof. exact a4_update_spec. Qed.

Lemma array4_inv_shift : forall E lgk regs (a : arr4 E), 4 <= lgk <= 21 -> Inv4 lgk regs a -> a4_num a = 0 ->
  exists a', a4_shift_to_bigger_cur_min a = Ok a' /\ Inv4 lgk regs a' /\
             a4_cur_min a' = a4_cur_min a + 1 /\ a4_est a' = a4_est a.
Proof. intros E. exact (shift_step E (fun _ _ _ x => x)). Qed.

Lemma array4_shift_loop_terminates : forall E lgk regs, 4 <= lgk <= 21 -> (forall j, j < 2 ^ lgk -> regs j <= 63) ->
  forall fuel (a : arr4 E), Inv4 lgk regs a -> 64 <= N.of_nat fuel + a4_cur_min a ->
  exists a', a4_shift_loop fuel a = Ok a' /\ Inv4 lgk regs a' /\ 0 < a4_num a' /\ a4_est a' = a4_est a /\
             a4_cur_min a <= a4_cur_min a'.
Proof. intros E. exact (shift_loop_spec E (fun _ _ _ x => x)). Qed.

Lemma array4_get_value : forall E lgk regs (a : arr4 E) j, Inv4 lgk regs a -> j < 2 ^ lgk -> a4_get a j = Ok (regs j).
Proof. intros E. exact (a4_get_regs E (fun _ _ _ x => x)). Qed.

Lemma array4_nibble_get_put : forall b s v, WFb b -> v <= 15 ->
  a4_get_raw (a4_put_raw b s v) s = v /\
  (forall s', s' <> s -> a4_get_raw (a4_put_raw b s v) s' = a4_get_raw b s') /\ WFb (a4_put_raw b s v).
Proof.
  intros b s v W Hv. split; [now apply a4_get_put_same|]. split; [|now apply a4_put_WF].
  intros s' Hs. now apply a4_get_put_other.
Qed.

Lemma array6_get_put : forall b s v, WFb b -> v < 64 ->
  a6_get_raw (a6_put_raw b s v) s = v /\
  (forall s', s' <> s -> a6_get_raw (a6_put_raw b s v) s' = a6_get_raw b s') /\ WFb (a6_put_raw b s v).
Proof.
  intros b s v W Hv. split; [now apply a6_get_put_same|]. split; [|now apply a6_put_WF].
  intros s' Hs. now apply a6_get_put_other.
Qed.

(* ---------- witnesses for the examples ---------- *)
Definition validb (c : N) : bool := (1 <=? cvalue c) && (cvalue c <=? 63).
Lemma validb_Forall : forall cs, forallb validb cs = true -> Forall valid cs.
Proof.
  intros cs H. rewrite forallb_forall in H. apply Forall_forall. intros c Hc. specialize (H c Hc).
  unfold validb, valid in *. lia.
Qed.

(* lg_k = 4, Hll4: registers 0..14 reach 3, slots 0 and 1 become exceptions (40, 50), then the
   last register reaches 3 and cur_min shifts 0 -> 3 with a live aux map *)
Definition ex_stream : list N :=
  map (fun j => pack_coupon j 3) (Nseq 0 15) ++ [pack_coupon 0 40; pack_coupon 1 50; pack_coupon 15 3].
(* lg_k = 10: 200 distinct coupons: list -> set(5) -> set(6) -> set(7) -> array *)
Definition ex_stream2 : list N := map (fun j => pack_coupon (j * 37) (1 + j mod 5)) (Nseq 0 200).

Lemma ex_stream_valid : Forall valid ex_stream /\ Forall valid ex_stream2.
Proof. split; apply validb_Forall; vm_compute; reflexivity. Qed.

Definition urun := run_stream (fun _ : N => tt) (fun _ _ _ (e : unit) => e) (fun _ (e : unit) => e).

Lemma ex_stream_state : exists a m, urun 4 T4 ex_stream = Ok (mkSketch 4 (MArr4 a)) /\
  a4_cur_min a = 3 /\ a4_num a = 14 /\ a4_aux a = Some m /\ length (aux_pairs m) = 2%nat.
Proof. vm_compute. eexists. eexists. repeat split; reflexivity. Qed.

Lemma ex_stream2_modes :
  (exists st t, urun 10 T6 (firstn 20 ex_stream2) = Ok (mkSketch 10 (MSet st t)) /\ hs_lg st = 5 /\ hs_len st = 20) /\
  (exists st t, urun 10 T6 (firstn 60 ex_stream2) = Ok (mkSketch 10 (MSet st t)) /\ hs_lg st = 7 /\ hs_len st = 60) /\
  (exists a, urun 10 T6 ex_stream2 = Ok (mkSketch 10 (MArr6 a)) /\ a6_nz a = 824).
Proof. vm_compute. repeat split; eexists; try eexists; repeat split; reflexivity. Qed.
