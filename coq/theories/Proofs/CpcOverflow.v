(* C17 (CPC part): the fixed-width arithmetic of determine_flavor / determine_pseudo_phase.
   The repaired u64 computations equal the unbounded ones on the whole domain (lg_k <= 26, any u32 coupon
   count) and never trip the overflow check; the u32 computations did not. *)
From DS Require Import Base.Prelude Model.Cpc Model.CpcPhase Proofs.CpcBits Proofs.CpcSpec Proofs.CpcProofs.
From Coq Require Import ZifyBool ZifyNat ZifyN.
Ltac Zify.zify_post_hook ::= Z.div_mod_to_equations.
Open Scope N_scope.

Ltac pconsts :=
  change PP_A0 with 1000 in *; change PP_B0 with 2375 in *; change PP_A1 with 4 in *; change PP_B1 with 3 in *;
  change PP_A2 with 10 in *; change PP_B2 with 11 in *; change PP_A3 with 100 in *; change PP_B3 with 132 in *;
  change PP_A4 with 3 in *; change PP_B4 with 5 in *; change PP_A5 with 1000 in *; change PP_B5 with 1965 in *;
  change PP_A6 with 1000 in *; change PP_B6 with 2275 in *;
  change PP_T1 with 16 in *; change PP_T2 with 17 in *; change PP_T3 with 18 in *; change PP_T4 with 19 in *;
  change PP_T5 with 20 in *; change PP_T6 with 21 in *; change PP_T7 with 6 in *;
  change PP_MINLG with 4 in *; change PP_SUB with 4 in *; change PP_MASK with 15 in *.

Lemma phase_literals : Gen.GenCpcPhase.LIT_determine_pseudo_phase =
  [1; 1000; 2375; 4; 3; 16; 10; 11; 16; 1; 100; 132; 16; 2; 3; 5; 16; 3; 1000; 1965; 16; 4; 1000; 2275; 16; 5; 6; 4; 4; 15]%Z.
Proof. reflexivity. Qed.

Lemma pow_le_26 : forall lgk, lgk <= 26 -> 0 < 2 ^ lgk <= 67108864.
Proof.
  intros lgk H. split; [apply pow_pos|]. change 67108864 with (2 ^ 26). apply N.pow_le_mono_r; lia.
Qed.

(* no product of the u64 computation overflows, so it is the unbounded function *)
Lemma ltw_exact : forall W a c b k kt kf, a * c < W -> b * k < W ->
  ltw W a c b k kt kf = if a * c <? b * k then kt else kf.
Proof.
  intros W a c b k kt kf H1 H2. unfold ltw.
  assert ((W <=? a * c) || (W <=? b * k) = false) as -> by lia. reflexivity.
Qed.

Theorem pseudo_phase_u64_exact : forall lgk c, lgk <= 26 -> c < 2 ^ 32 ->
  determine_pseudo_phase_w (2 ^ 64) lgk c = determine_pseudo_phase lgk c.
Proof.
  intros lgk c Hl Hc. pose proof (pow_le_26 lgk Hl) as HK.
  change (2 ^ 32) with 4294967296 in Hc.
  unfold determine_pseudo_phase_w, determine_pseudo_phase. pconsts.
  set (k := 2 ^ lgk) in *. change (2 ^ 64) with 18446744073709551616.
  rewrite !ltw_exact by lia. reflexivity.
Qed.

Theorem pseudo_phase_no_stuck : forall lgk c, 4 <= lgk <= 26 -> c < 2 ^ 32 ->
  exists p, determine_pseudo_phase_w (2 ^ 64) lgk c = Ok p /\ p < 22.
Proof.
  intros lgk c Hl Hc. rewrite pseudo_phase_u64_exact by lia.
  unfold determine_pseudo_phase, true_phase. pconsts.
  assert (lgk <? 4 = false) as -> by lia.
  assert (Hm : N.land (c / 2 ^ (lgk - 4)) 15 < 22).
  { change 15 with (N.ones 4). rewrite N.land_ones. change (2 ^ 4) with 16.
    pose proof (N.mod_lt (c / 2 ^ (lgk - 4)) 16 ltac:(lia)). lia. }
  repeat match goal with |- context [if ?b then _ else _] => destruct b end; eexists; (split; [reflexivity|]); try lia; exact Hm.
Qed.

Theorem flavor_u64_exact : forall lgk c, lgk <= 26 -> c < 2 ^ 32 ->
  determine_flavor_w (2 ^ 64) lgk c = Ok (determine_flavor lgk c).
Proof.
  intros lgk c Hl Hc. pose proof (pow_le_26 lgk Hl) as HK.
  change (2 ^ 32) with 4294967296 in Hc.
  unfold determine_flavor_w, determine_flavor. consts.
  set (k := 2 ^ lgk) in *. change (2 ^ 64) with 18446744073709551616.
  rewrite !N.mod_small by lia.
  assert (18446744073709551616 <=? 3 * k = false) as -> by lia.
  assert (18446744073709551616 <=? 27 * k = false) as -> by lia.
  destruct (c =? 0); [reflexivity|]. destruct (c * 32 <? 3 * k); [reflexivity|].
  destruct (c * 2 <? k); [reflexivity|]. destruct (c * 8 <? 27 * k); reflexivity.
Qed.

(* the u32 computations agree with the unbounded ones only on part of the domain ... *)
Theorem flavor_u32_exact_small : forall lgk c, lgk <= 26 -> c < 2 ^ 27 ->
  determine_flavor_w (2 ^ 32) lgk c = Ok (determine_flavor lgk c).
Proof.
  intros lgk c Hl Hc. pose proof (pow_le_26 lgk Hl) as HK.
  change (2 ^ 27) with 134217728 in Hc.
  unfold determine_flavor_w, determine_flavor. consts.
  set (k := 2 ^ lgk) in *. change (2 ^ 32) with 4294967296.
  rewrite !N.mod_small by lia.
  assert (4294967296 <=? 3 * k = false) as -> by lia.
  assert (4294967296 <=? 27 * k = false) as -> by lia.
  destruct (c =? 0); [reflexivity|]. destruct (c * 32 <? 3 * k); [reflexivity|].
  destruct (c * 2 <? k); [reflexivity|]. destruct (c * 8 <? 27 * k); reflexivity.
Qed.

Theorem pseudo_phase_u32_exact_small : forall lgk c, lgk <= 20 -> 1000 * c < 2 ^ 32 ->
  determine_pseudo_phase_w (2 ^ 32) lgk c = determine_pseudo_phase lgk c.
Proof.
  intros lgk c Hl Hc. assert (HK : 0 < 2 ^ lgk <= 1048576).
  { split; [apply pow_pos|]. change 1048576 with (2 ^ 20). apply N.pow_le_mono_r; lia. }
  change (2 ^ 32) with 4294967296 in *.
  unfold determine_pseudo_phase_w, determine_pseudo_phase. pconsts.
  set (k := 2 ^ lgk) in *.
  rewrite !ltw_exact by lia. reflexivity.
Qed.

(* ... and fail outside it: the defects repaired in /repo (known_findings.d/c17-cpc-flavor-phase-u32.json) *)
Theorem flavor_u32_refuted : exists lgk c, lgk <= 26 /\ c < 2 ^ 32 /\
  determine_flavor_w (2 ^ 32) lgk c = Ok SPARSE /\ determine_flavor lgk c = PINNED.
Proof. exists 26, (2 ^ 27). repeat split; vm_compute; congruence. Qed.

Theorem pseudo_phase_u32_refuted :
  (exists lgk c, 4 <= lgk <= 26 /\ c < 2 ^ 32 /\ determine_pseudo_phase_w (2 ^ 32) lgk c = Stuck /\
                 determine_pseudo_phase_wrap (2 ^ 32) lgk c = Ok 8 /\ determine_pseudo_phase lgk c = Ok 16) /\
  (exists lgk c, 4 <= lgk <= 20 /\ c < 2 ^ 32 /\ determine_pseudo_phase_w (2 ^ 32) lgk c = Stuck).
Proof.
  split.
  - exists 21, 1049576. repeat split; vm_compute; congruence.
  - exists 17, 4400000. repeat split; vm_compute; congruence.
Qed.

(* the old u32 determine_flavor of Model/Cpc.v is the W = 2^32 instance *)
Lemma flavor_u32_same : forall lgk c, lgk <= 26 ->
  determine_flavor_w (2 ^ 32) lgk c = Ok (determine_flavor_u32 lgk c).
Proof.
  intros lgk c Hl. pose proof (pow_le_26 lgk Hl) as HK.
  unfold determine_flavor_w, determine_flavor_u32, M32. consts.
  set (k := 2 ^ lgk) in *. change (2 ^ 32) with 4294967296.
  assert (4294967296 <=? 3 * k = false) as -> by lia.
  assert (4294967296 <=? 27 * k = false) as -> by lia.
  destruct (c =? 0); [reflexivity|]. destruct (_ <? 3 * k); [reflexivity|].
  destruct (_ <? k); [reflexivity|]. destruct (_ <? 27 * k); reflexivity.
Qed.
