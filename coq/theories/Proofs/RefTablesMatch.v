(* Glue: the estimator tables and constants the translator read from the Rust source on THIS run equal the frozen
   reference (Spec/RefTables.v).  A changed table entry, correction factor, threshold or error constant breaks one of
   these equalities. *)
From Coq Require Import List ZArith.
From DS Require Spec.RefTables.
From DS Require Gen.GenBoundsHll Gen.GenBoundsComposite Gen.GenBoundsCpc Gen.GenBoundsTheta Gen.GenHll.

Lemma ref_GenBoundsHll_HIP_LB : GenBoundsHll.HIP_LB = RefTables.GenBoundsHll.HIP_LB.
Proof. vm_compute. reflexivity. Qed.
Lemma ref_GenBoundsHll_HIP_UB : GenBoundsHll.HIP_UB = RefTables.GenBoundsHll.HIP_UB.
Proof. vm_compute. reflexivity. Qed.
Lemma ref_GenBoundsHll_NON_HIP_LB : GenBoundsHll.NON_HIP_LB = RefTables.GenBoundsHll.NON_HIP_LB.
Proof. vm_compute. reflexivity. Qed.
Lemma ref_GenBoundsHll_NON_HIP_UB : GenBoundsHll.NON_HIP_UB = RefTables.GenBoundsHll.NON_HIP_UB.
Proof. vm_compute. reflexivity. Qed.
Lemma ref_GenBoundsHll_LIT_get_rel_err : GenBoundsHll.LIT_get_rel_err = RefTables.GenBoundsHll.LIT_get_rel_err.
Proof. vm_compute. reflexivity. Qed.
Lemma ref_GenBoundsHll_LIT_get_raw_estimate : GenBoundsHll.LIT_get_raw_estimate = RefTables.GenBoundsHll.LIT_get_raw_estimate.
Proof. vm_compute. reflexivity. Qed.
Lemma ref_GenBoundsHll_LIT_get_composite_estimate : GenBoundsHll.LIT_get_composite_estimate = RefTables.GenBoundsHll.LIT_get_composite_estimate.
Proof. vm_compute. reflexivity. Qed.
Lemma ref_GenBoundsHll_FLIT_get_rel_err : GenBoundsHll.FLIT_get_rel_err = RefTables.GenBoundsHll.FLIT_get_rel_err.
Proof. vm_compute. reflexivity. Qed.
Lemma ref_GenBoundsHll_FLIT_get_raw_estimate : GenBoundsHll.FLIT_get_raw_estimate = RefTables.GenBoundsHll.FLIT_get_raw_estimate.
Proof. vm_compute. reflexivity. Qed.
Lemma ref_GenBoundsHll_FLIT_get_composite_estimate : GenBoundsHll.FLIT_get_composite_estimate = RefTables.GenBoundsHll.FLIT_get_composite_estimate.
Proof. vm_compute. reflexivity. Qed.
Lemma ref_GenBoundsComposite_NUM_X_VALUES : GenBoundsComposite.NUM_X_VALUES = RefTables.GenBoundsComposite.NUM_X_VALUES.
Proof. vm_compute. reflexivity. Qed.
Lemma ref_GenBoundsComposite_Y_STRIDES : GenBoundsComposite.Y_STRIDES = RefTables.GenBoundsComposite.Y_STRIDES.
Proof. vm_compute. reflexivity. Qed.
Lemma ref_GenBoundsComposite_ARRAYS : GenBoundsComposite.ARRAYS = RefTables.GenBoundsComposite.ARRAYS.
Proof. vm_compute. reflexivity. Qed.
Lemma ref_GenBoundsComposite_NUM_EXACT : GenBoundsComposite.NUM_EXACT = RefTables.GenBoundsComposite.NUM_EXACT.
Proof. vm_compute. reflexivity. Qed.
Lemma ref_GenBoundsComposite_EULER_MASCHERONI_bits : GenBoundsComposite.EULER_MASCHERONI_bits = RefTables.GenBoundsComposite.EULER_MASCHERONI_bits.
Proof. vm_compute. reflexivity. Qed.
Lemma ref_GenBoundsComposite_EXACT_HARMONIC : GenBoundsComposite.EXACT_HARMONIC = RefTables.GenBoundsComposite.EXACT_HARMONIC.
Proof. vm_compute. reflexivity. Qed.
Lemma ref_GenBoundsCpc_ICON_ERROR_CONSTANT_bits : GenBoundsCpc.ICON_ERROR_CONSTANT_bits = RefTables.GenBoundsCpc.ICON_ERROR_CONSTANT_bits.
Proof. vm_compute. reflexivity. Qed.
Lemma ref_GenBoundsCpc_ICON_LOW_SIDE_DATA : GenBoundsCpc.ICON_LOW_SIDE_DATA = RefTables.GenBoundsCpc.ICON_LOW_SIDE_DATA.
Proof. vm_compute. reflexivity. Qed.
Lemma ref_GenBoundsCpc_ICON_HIGH_SIDE_DATA : GenBoundsCpc.ICON_HIGH_SIDE_DATA = RefTables.GenBoundsCpc.ICON_HIGH_SIDE_DATA.
Proof. vm_compute. reflexivity. Qed.
Lemma ref_GenBoundsCpc_HIP_ERROR_CONSTANT_bits : GenBoundsCpc.HIP_ERROR_CONSTANT_bits = RefTables.GenBoundsCpc.HIP_ERROR_CONSTANT_bits.
Proof. vm_compute. reflexivity. Qed.
Lemma ref_GenBoundsCpc_HIP_LOW_SIDE_DATA : GenBoundsCpc.HIP_LOW_SIDE_DATA = RefTables.GenBoundsCpc.HIP_LOW_SIDE_DATA.
Proof. vm_compute. reflexivity. Qed.
Lemma ref_GenBoundsCpc_HIP_HIGH_SIDE_DATA : GenBoundsCpc.HIP_HIGH_SIDE_DATA = RefTables.GenBoundsCpc.HIP_HIGH_SIDE_DATA.
Proof. vm_compute. reflexivity. Qed.
Lemma ref_GenBoundsCpc_ICON_MIN_LOG_K : GenBoundsCpc.ICON_MIN_LOG_K = RefTables.GenBoundsCpc.ICON_MIN_LOG_K.
Proof. vm_compute. reflexivity. Qed.
Lemma ref_GenBoundsCpc_ICON_MAX_LOG_K : GenBoundsCpc.ICON_MAX_LOG_K = RefTables.GenBoundsCpc.ICON_MAX_LOG_K.
Proof. vm_compute. reflexivity. Qed.
Lemma ref_GenBoundsCpc_ICON_POLYNOMIAL_DEGREE : GenBoundsCpc.ICON_POLYNOMIAL_DEGREE = RefTables.GenBoundsCpc.ICON_POLYNOMIAL_DEGREE.
Proof. vm_compute. reflexivity. Qed.
Lemma ref_GenBoundsCpc_ICON_POLYNOMIAL_NUM_COEFFICIENTS : GenBoundsCpc.ICON_POLYNOMIAL_NUM_COEFFICIENTS = RefTables.GenBoundsCpc.ICON_POLYNOMIAL_NUM_COEFFICIENTS.
Proof. vm_compute. reflexivity. Qed.
Lemma ref_GenBoundsCpc_ICON_TABLE_SIZE : GenBoundsCpc.ICON_TABLE_SIZE = RefTables.GenBoundsCpc.ICON_TABLE_SIZE.
Proof. vm_compute. reflexivity. Qed.
Lemma ref_GenBoundsCpc_ICON_POLYNOMIAL_COEFFICIENTS : GenBoundsCpc.ICON_POLYNOMIAL_COEFFICIENTS = RefTables.GenBoundsCpc.ICON_POLYNOMIAL_COEFFICIENTS.
Proof. vm_compute. reflexivity. Qed.
Lemma ref_GenBoundsCpc_LIT_hip_confidence_lb : GenBoundsCpc.LIT_hip_confidence_lb = RefTables.GenBoundsCpc.LIT_hip_confidence_lb.
Proof. vm_compute. reflexivity. Qed.
Lemma ref_GenBoundsCpc_LIT_hip_confidence_ub : GenBoundsCpc.LIT_hip_confidence_ub = RefTables.GenBoundsCpc.LIT_hip_confidence_ub.
Proof. vm_compute. reflexivity. Qed.
Lemma ref_GenBoundsCpc_LIT_icon_confidence_lb : GenBoundsCpc.LIT_icon_confidence_lb = RefTables.GenBoundsCpc.LIT_icon_confidence_lb.
Proof. vm_compute. reflexivity. Qed.
Lemma ref_GenBoundsCpc_LIT_icon_confidence_ub : GenBoundsCpc.LIT_icon_confidence_ub = RefTables.GenBoundsCpc.LIT_icon_confidence_ub.
Proof. vm_compute. reflexivity. Qed.
Lemma ref_GenBoundsCpc_LIT_icon_estimate : GenBoundsCpc.LIT_icon_estimate = RefTables.GenBoundsCpc.LIT_icon_estimate.
Proof. vm_compute. reflexivity. Qed.
Lemma ref_GenBoundsCpc_FLIT_hip_confidence_lb : GenBoundsCpc.FLIT_hip_confidence_lb = RefTables.GenBoundsCpc.FLIT_hip_confidence_lb.
Proof. vm_compute. reflexivity. Qed.
Lemma ref_GenBoundsCpc_FLIT_hip_confidence_ub : GenBoundsCpc.FLIT_hip_confidence_ub = RefTables.GenBoundsCpc.FLIT_hip_confidence_ub.
Proof. vm_compute. reflexivity. Qed.
Lemma ref_GenBoundsCpc_FLIT_icon_confidence_lb : GenBoundsCpc.FLIT_icon_confidence_lb = RefTables.GenBoundsCpc.FLIT_icon_confidence_lb.
Proof. vm_compute. reflexivity. Qed.
Lemma ref_GenBoundsCpc_FLIT_icon_confidence_ub : GenBoundsCpc.FLIT_icon_confidence_ub = RefTables.GenBoundsCpc.FLIT_icon_confidence_ub.
Proof. vm_compute. reflexivity. Qed.
Lemma ref_GenBoundsCpc_FLIT_icon_estimate : GenBoundsCpc.FLIT_icon_estimate = RefTables.GenBoundsCpc.FLIT_icon_estimate.
Proof. vm_compute. reflexivity. Qed.
Lemma ref_GenBoundsTheta_LB_EQUIV_TABLE : GenBoundsTheta.LB_EQUIV_TABLE = RefTables.GenBoundsTheta.LB_EQUIV_TABLE.
Proof. vm_compute. reflexivity. Qed.
Lemma ref_GenBoundsTheta_UB_EQUIV_TABLE : GenBoundsTheta.UB_EQUIV_TABLE = RefTables.GenBoundsTheta.UB_EQUIV_TABLE.
Proof. vm_compute. reflexivity. Qed.
Lemma ref_GenBoundsTheta_LIT_compute_approx_binomial_lower_bound : GenBoundsTheta.LIT_compute_approx_binomial_lower_bound = RefTables.GenBoundsTheta.LIT_compute_approx_binomial_lower_bound.
Proof. vm_compute. reflexivity. Qed.
Lemma ref_GenBoundsTheta_LIT_compute_approx_binomial_upper_bound : GenBoundsTheta.LIT_compute_approx_binomial_upper_bound = RefTables.GenBoundsTheta.LIT_compute_approx_binomial_upper_bound.
Proof. vm_compute. reflexivity. Qed.
Lemma ref_GenBoundsTheta_FLIT_cont_classic_lb : GenBoundsTheta.FLIT_cont_classic_lb = RefTables.GenBoundsTheta.FLIT_cont_classic_lb.
Proof. vm_compute. reflexivity. Qed.
Lemma ref_GenBoundsTheta_FLIT_cont_classic_ub : GenBoundsTheta.FLIT_cont_classic_ub = RefTables.GenBoundsTheta.FLIT_cont_classic_ub.
Proof. vm_compute. reflexivity. Qed.
Lemma ref_GenBoundsTheta_FLIT_compute_approx_binomial_lower_bound : GenBoundsTheta.FLIT_compute_approx_binomial_lower_bound = RefTables.GenBoundsTheta.FLIT_compute_approx_binomial_lower_bound.
Proof. vm_compute. reflexivity. Qed.
Lemma ref_GenBoundsTheta_FLIT_compute_approx_binomial_upper_bound : GenBoundsTheta.FLIT_compute_approx_binomial_upper_bound = RefTables.GenBoundsTheta.FLIT_compute_approx_binomial_upper_bound.
Proof. vm_compute. reflexivity. Qed.
Lemma ref_GenBoundsTheta_DELTA_OF_NUM_STD_DEVS : GenBoundsTheta.DELTA_OF_NUM_STD_DEVS = RefTables.GenBoundsTheta.DELTA_OF_NUM_STD_DEVS.
Proof. vm_compute. reflexivity. Qed.
Lemma ref_GenHll_COUPON_RSE_FACTOR_bits : GenHll.COUPON_RSE_FACTOR_bits = RefTables.GenHll.COUPON_RSE_FACTOR_bits.
Proof. vm_compute. reflexivity. Qed.
Lemma ref_GenHll_X_ARR : GenHll.X_ARR = RefTables.GenHll.X_ARR.
Proof. vm_compute. reflexivity. Qed.
Lemma ref_GenHll_Y_ARR : GenHll.Y_ARR = RefTables.GenHll.Y_ARR.
Proof. vm_compute. reflexivity. Qed.

Theorem estimator_tables_are_reference :
  GenBoundsHll.HIP_LB = RefTables.GenBoundsHll.HIP_LB /\
  GenBoundsHll.HIP_UB = RefTables.GenBoundsHll.HIP_UB /\
  GenBoundsHll.NON_HIP_LB = RefTables.GenBoundsHll.NON_HIP_LB /\
  GenBoundsHll.NON_HIP_UB = RefTables.GenBoundsHll.NON_HIP_UB /\
  GenBoundsHll.LIT_get_rel_err = RefTables.GenBoundsHll.LIT_get_rel_err /\
  GenBoundsHll.LIT_get_raw_estimate = RefTables.GenBoundsHll.LIT_get_raw_estimate /\
  GenBoundsHll.LIT_get_composite_estimate = RefTables.GenBoundsHll.LIT_get_composite_estimate /\
  GenBoundsHll.FLIT_get_rel_err = RefTables.GenBoundsHll.FLIT_get_rel_err /\
  GenBoundsHll.FLIT_get_raw_estimate = RefTables.GenBoundsHll.FLIT_get_raw_estimate /\
  GenBoundsHll.FLIT_get_composite_estimate = RefTables.GenBoundsHll.FLIT_get_composite_estimate /\
  GenBoundsComposite.NUM_X_VALUES = RefTables.GenBoundsComposite.NUM_X_VALUES /\
  GenBoundsComposite.Y_STRIDES = RefTables.GenBoundsComposite.Y_STRIDES /\
  GenBoundsComposite.ARRAYS = RefTables.GenBoundsComposite.ARRAYS /\
  GenBoundsComposite.NUM_EXACT = RefTables.GenBoundsComposite.NUM_EXACT /\
  GenBoundsComposite.EULER_MASCHERONI_bits = RefTables.GenBoundsComposite.EULER_MASCHERONI_bits /\
  GenBoundsComposite.EXACT_HARMONIC = RefTables.GenBoundsComposite.EXACT_HARMONIC /\
  GenBoundsCpc.ICON_ERROR_CONSTANT_bits = RefTables.GenBoundsCpc.ICON_ERROR_CONSTANT_bits /\
  GenBoundsCpc.ICON_LOW_SIDE_DATA = RefTables.GenBoundsCpc.ICON_LOW_SIDE_DATA /\
  GenBoundsCpc.ICON_HIGH_SIDE_DATA = RefTables.GenBoundsCpc.ICON_HIGH_SIDE_DATA /\
  GenBoundsCpc.HIP_ERROR_CONSTANT_bits = RefTables.GenBoundsCpc.HIP_ERROR_CONSTANT_bits /\
  GenBoundsCpc.HIP_LOW_SIDE_DATA = RefTables.GenBoundsCpc.HIP_LOW_SIDE_DATA /\
  GenBoundsCpc.HIP_HIGH_SIDE_DATA = RefTables.GenBoundsCpc.HIP_HIGH_SIDE_DATA /\
  GenBoundsCpc.ICON_MIN_LOG_K = RefTables.GenBoundsCpc.ICON_MIN_LOG_K /\
  GenBoundsCpc.ICON_MAX_LOG_K = RefTables.GenBoundsCpc.ICON_MAX_LOG_K /\
  GenBoundsCpc.ICON_POLYNOMIAL_DEGREE = RefTables.GenBoundsCpc.ICON_POLYNOMIAL_DEGREE /\
  GenBoundsCpc.ICON_POLYNOMIAL_NUM_COEFFICIENTS = RefTables.GenBoundsCpc.ICON_POLYNOMIAL_NUM_COEFFICIENTS /\
  GenBoundsCpc.ICON_TABLE_SIZE = RefTables.GenBoundsCpc.ICON_TABLE_SIZE /\
  GenBoundsCpc.ICON_POLYNOMIAL_COEFFICIENTS = RefTables.GenBoundsCpc.ICON_POLYNOMIAL_COEFFICIENTS /\
  GenBoundsCpc.LIT_hip_confidence_lb = RefTables.GenBoundsCpc.LIT_hip_confidence_lb /\
  GenBoundsCpc.LIT_hip_confidence_ub = RefTables.GenBoundsCpc.LIT_hip_confidence_ub /\
  GenBoundsCpc.LIT_icon_confidence_lb = RefTables.GenBoundsCpc.LIT_icon_confidence_lb /\
  GenBoundsCpc.LIT_icon_confidence_ub = RefTables.GenBoundsCpc.LIT_icon_confidence_ub /\
  GenBoundsCpc.LIT_icon_estimate = RefTables.GenBoundsCpc.LIT_icon_estimate /\
  GenBoundsCpc.FLIT_hip_confidence_lb = RefTables.GenBoundsCpc.FLIT_hip_confidence_lb /\
  GenBoundsCpc.FLIT_hip_confidence_ub = RefTables.GenBoundsCpc.FLIT_hip_confidence_ub /\
  GenBoundsCpc.FLIT_icon_confidence_lb = RefTables.GenBoundsCpc.FLIT_icon_confidence_lb /\
  GenBoundsCpc.FLIT_icon_confidence_ub = RefTables.GenBoundsCpc.FLIT_icon_confidence_ub /\
  GenBoundsCpc.FLIT_icon_estimate = RefTables.GenBoundsCpc.FLIT_icon_estimate /\
  GenBoundsTheta.LB_EQUIV_TABLE = RefTables.GenBoundsTheta.LB_EQUIV_TABLE /\
  GenBoundsTheta.UB_EQUIV_TABLE = RefTables.GenBoundsTheta.UB_EQUIV_TABLE /\
  GenBoundsTheta.LIT_compute_approx_binomial_lower_bound = RefTables.GenBoundsTheta.LIT_compute_approx_binomial_lower_bound /\
  GenBoundsTheta.LIT_compute_approx_binomial_upper_bound = RefTables.GenBoundsTheta.LIT_compute_approx_binomial_upper_bound /\
  GenBoundsTheta.FLIT_cont_classic_lb = RefTables.GenBoundsTheta.FLIT_cont_classic_lb /\
  GenBoundsTheta.FLIT_cont_classic_ub = RefTables.GenBoundsTheta.FLIT_cont_classic_ub /\
  GenBoundsTheta.FLIT_compute_approx_binomial_lower_bound = RefTables.GenBoundsTheta.FLIT_compute_approx_binomial_lower_bound /\
  GenBoundsTheta.FLIT_compute_approx_binomial_upper_bound = RefTables.GenBoundsTheta.FLIT_compute_approx_binomial_upper_bound /\
  GenBoundsTheta.DELTA_OF_NUM_STD_DEVS = RefTables.GenBoundsTheta.DELTA_OF_NUM_STD_DEVS /\
  GenHll.COUPON_RSE_FACTOR_bits = RefTables.GenHll.COUPON_RSE_FACTOR_bits /\
  GenHll.X_ARR = RefTables.GenHll.X_ARR /\
  GenHll.Y_ARR = RefTables.GenHll.Y_ARR.
Proof. repeat split; vm_compute; reflexivity. Qed.
