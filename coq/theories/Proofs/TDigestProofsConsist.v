(* rank (quantile q) stays within the digest's resolution of q:
     | rank (quantile q) - q |  <=  (weights of the centroids whose centres straddle q * total) / (2 * total)
   for every well-formed view with pairwise distinct means. *)
From Coq Require Import QArith Qabs Lia Lqa Qfield.
From DS Require Import Base.Prelude Model.TDigest Spec.TDigestSpec Proofs.TDigestProofsBase Proofs.TDigestProofsRank
  Proofs.TDigestProofsQuantile.
Open Scope Q_scope.

Lemma straddle_from_cons ci cj r acc2 wt :
  straddle_from (ci :: cj :: r) acc2 wt =
  if Qltb wt (inject_Z (acc2 + c_wz ci + c_wz cj) / 2) then (c_wz ci + c_wz cj)%Z
  else straddle_from (cj :: r) (acc2 + c_wz ci + c_wz cj)%Z wt.
Proof. reflexivity. Qed.

Section Consist.
Variable v : view.
Hypothesis Hwf : wf_view v.
Notation cs := (v_cs v).
Notation n := (length (v_cs v)).
Notation T := (tq v).
Notation m i := (c_mean (nthc (v_cs v) i)).
Notation w i := (c_w (nthc (v_cs v) i)).
Notation C i := (centre (v_cs v) i).

(* ---------------- the straddling weights ---------------- *)
Lemma straddle_from_char : forall suf pre, cs = pre ++ suf -> suf <> [] -> forall wt, C (length pre) <= wt ->
  (exists i, (length pre <= i)%nat /\ (S i < n)%nat /\ C i <= wt /\ wt < C (S i) /\
             straddle_from suf (cen2 cs (length pre)) wt = (c_wz (nthc cs i) + c_wz (nthc cs (S i)))%Z) \/
  (C (n - 1) <= wt /\ straddle_from suf (cen2 cs (length pre)) wt = c_wz (nthc cs (n - 1))).
Proof.
  induction suf as [|ci suf IH]; intros pre E Hne wt Hw; [congruence|].
  assert (Eci : ci = nthc cs (length pre)).
  { unfold nthc. rewrite E. replace (length pre) with (length pre + 0)%nat at 1 by lia. rewrite nth_app_at. reflexivity. }
  destruct suf as [|cj suf'].
  - right. assert (En : (n - 1 = length pre)%nat) by (rewrite E, app_length; cbn [length]; lia).
    rewrite En. split; [exact Hw|]. cbn [straddle_from]. rewrite Eci. reflexivity.
  - assert (Ecj : cj = nthc cs (S (length pre))).
    { unfold nthc. rewrite E. replace (S (length pre)) with (length pre + 1)%nat by lia. rewrite nth_app_at. reflexivity. }
    assert (Hlen : (S (length pre) < n)%nat) by (rewrite E, app_length; cbn [length]; lia).
    rewrite straddle_from_cons.
    pose proof (centre_cen2 cs (S (length pre))) as HC1. rewrite cen2_S in HC1 by auto. rewrite <- Eci, <- Ecj in HC1.
    destruct (Qltb wt _) eqn:EQ; qb EQ.
    + left. exists (length pre). split; [lia|]. split; [auto|]. split; [auto|]. split; [rewrite HC1; exact EQ|].
      rewrite <- Eci, <- Ecj. reflexivity.
    + specialize (IH (pre ++ [ci])). rewrite <- app_assoc in IH. cbn [app] in IH. specialize (IH E ltac:(congruence) wt).
      rewrite app_length in IH. cbn [length] in IH. replace (length pre + 1)%nat with (S (length pre)) in IH by lia.
      rewrite cen2_S in IH by auto. rewrite <- Eci, <- Ecj in IH.
      specialize (IH ltac:(rewrite HC1; exact EQ)).
      destruct IH as [(i & I1 & I2 & I3 & I4 & I5)|[I1 I2]].
      * left. exists i. split; [lia|]. auto.
      * right. auto.
Qed.

Lemma straddle_char q :
  (q * T < C 0 /\ straddle v q = c_wz (nthc cs 0)) \/
  (exists i, (S i < n)%nat /\ C i <= q * T /\ q * T < C (S i) /\ straddle v q = (c_wz (nthc cs i) + c_wz (nthc cs (S i)))%Z) \/
  (C (n - 1) <= q * T /\ straddle v q = c_wz (nthc cs (n - 1))).
Proof.
  pose proof (n_pos v Hwf) as Hn. unfold straddle.
  destruct (v_cs v) as [|c0 rest] eqn:Ecs; [cbn in Hn; lia|]. rewrite <- Ecs.
  assert (Ec0 : c0 = nthc cs 0) by (rewrite Ecs; reflexivity). rewrite Ec0. clear Ec0.
  pose proof (C0 v) as HC0.
  destruct (Qltb (q * T) (w 0 / 2)) eqn:E; qb E.
  - left. split; [rewrite HC0; exact E|reflexivity].
  - right. pose proof (straddle_from_char cs [] eq_refl ltac:(rewrite Ecs; congruence) (q * T) ltac:(rewrite HC0; exact E)) as H.
    cbn [length] in H. rewrite cen2_0 in H.
    destruct H as [(i & _ & I2 & I3 & I4 & I5)|[I1 I2]].
    + left. exists i. auto.
    + right. auto.
Qed.

Lemma straddle_ge1 q : 1 <= inject_Z (straddle v q).
Proof.
  change 1 with (inject_Z 1). rewrite <- Zle_Qle.
  destruct (straddle_char q) as [[_ ->]|[(i & _ & _ & _ & ->)|[_ ->]]];
    try pose proof (c_wz_pos (nthc cs 0)); try pose proof (c_wz_pos (nthc cs i)); try pose proof (c_wz_pos (nthc cs (S i)));
    try pose proof (c_wz_pos (nthc cs (n - 1))); lia.
Qed.

(* the resolution never exceeds 1/2 *)
Lemma resolution_le_half q : resolution v q <= 1 # 2.
Proof.
  pose proof (T_pos v Hwf) as HT. pose proof (n_pos v Hwf) as Hn. unfold resolution.
  assert (HS : inject_Z (straddle v q) <= T).
  { destruct (straddle_char q) as [[_ ->]|[(i & I & _ & _ & ->)|[_ ->]]].
    - apply (w_le_T v Hwf). lia.
    - rewrite inject_Z_plus. apply (w2_le_T v Hwf i (S i)); lia.
    - apply (w_le_T v Hwf). lia. }
  apply Qle_shift_div_r; [lra|]. lra.
Qed.

(* ---------------- rank at known positions ---------------- *)
Hypothesis Hstrict : strictP (v_cs v).

Lemma m_strict i j : (i < j)%nat -> (j < n)%nat -> m i < m j.
Proof. apply strictP_nth, Hstrict. Qed.

Lemma m_inj i j : (i < n)%nat -> (j < n)%nat -> m i == m j -> i = j.
Proof.
  intros Hi Hj E. destruct (Nat.lt_trichotomy i j) as [H|[H|H]]; auto.
  - pose proof (m_strict i j H Hj). lra.
  - pose proof (m_strict j i H Hi). lra.
Qed.

(* value of rank * total at a centroid mean (>= 2 centroids): the centre of that centroid *)
Lemma rank_at_mean x rho i : (2 <= n)%nat -> (i < n)%nat -> x == m i -> rank v x = Ok (Some rho) -> rho * T == C i.
Proof.
  intros Hn2 Hi Ex Hr. apply (rank_case_of v Hwf) in Hr.
  destruct (m_in_range v Hwf i Hi) as [M0 M1].
  pose proof (m_mono v Hwf 0 i ltac:(lia) Hi) as A0. pose proof (m_mono v Hwf i (n - 1) ltac:(lia) ltac:(lia)) as A1.
  destruct Hr as [? Hr|? ? Hr|? ? ? Hr|t ? X1 X2 Ht Ht0 Ht1 Hr|t ? X1 X2 Ht Ht0 Ht1 Hr|l u ? Hlu Hun X1 X2 Hc];
    try lra; try lia.
  destruct Hc as [(Ml & Mu & _ & _ & Hr)|(Eu & Mlx & Mxu & _)].
  - assert (l = i) by (apply m_inj; try lia; lra). assert (u = i) by (apply m_inj; try lia; lra). subst l u.
    rewrite Hr. q2. lra.
  - exfalso. destruct (Nat.le_gt_cases i l) as [K|K].
    + pose proof (m_mono v Hwf i l K ltac:(lia)). lra.
    + pose proof (m_mono v Hwf u i ltac:(lia) Hi). lra.
Qed.

(* strictly inside the gap (i, i+1) *)
Lemma rank_in_gap x rho i t : (S i < n)%nat -> m i < x -> x < m (S i) -> t * (m (S i) - m i) == x - m i ->
  rank v x = Ok (Some rho) -> rho * T == C i + (C (S i) - C i) * t.
Proof.
  intros Hi Hx1 Hx2 Ht Hr. apply (rank_case_of v Hwf) in Hr.
  destruct (m_in_range v Hwf i ltac:(lia)) as [M0 M1]. destruct (m_in_range v Hwf (S i) Hi) as [N0 N1].
  pose proof (m_mono v Hwf 0 i ltac:(lia) ltac:(lia)) as A0. pose proof (m_mono v Hwf (S i) (n - 1) ltac:(lia) ltac:(lia)) as A1.
  destruct Hr as [? Hr|? ? Hr|? ? ? Hr|t' ? X1 X2 Ht' Ht0 Ht1 Hr|t' ? X1 X2 Ht' Ht0 Ht1 Hr|l u ? Hlu Hun X1 X2 Hc];
    try lra; try lia.
  destruct Hc as [(Ml & Mu & _ & _ & Hr)|(Eu & Mlx & Mxu & t' & Ht' & Hr)].
  - exfalso. destruct (Nat.le_gt_cases l i) as [K|K].
    + pose proof (m_mono v Hwf l i K ltac:(lia)). lra.
    + pose proof (m_mono v Hwf (S i) l ltac:(lia) ltac:(lia)). lra.
  - assert (l = i).
    { destruct (Nat.lt_trichotomy l i) as [K|[K|K]]; auto; exfalso.
      - pose proof (m_mono v Hwf u i ltac:(lia) ltac:(lia)). lra.
      - pose proof (m_mono v Hwf (S i) l ltac:(lia) ltac:(lia)). lra. }
    subst l u. assert (t' == t).
    { assert (t' <= t) by (apply (div_mono t' t (m (S i) - m i) (x - m i) (x - m i)); auto; lra).
      assert (t <= t') by (apply (div_mono t t' (m (S i) - m i) (x - m i) (x - m i)); auto; lra). lra. }
    rewrite Hr. nra.
Qed.

(* the left tail *)
Lemma rank_left_tail x rho t : (2 <= n)%nat -> v_min v <= x -> x < m 0 -> t * (m 0 - v_min v) == x - v_min v ->
  rank v x = Ok (Some rho) ->
  (x == v_min v /\ rho * T == atm (nthc cs 0) / 2) \/ (v_min v < x /\ rho * T == atm (nthc cs 0) + t * (w 0 / 2 - atm (nthc cs 0))).
Proof.
  intros Hn2 H1 H2 Ht Hr. apply (rank_case_of v Hwf) in Hr.
  pose proof (mlast_le_max v Hwf) as Hmax. pose proof (m_mono v Hwf 0 (n - 1) ltac:(lia) ltac:(lia)) as A1.
  destruct Hr as [? Hr|? ? Hr|? ? ? Hr|t' ? X1 X2 Ht' Ht0 Ht1 Hr|t' ? X1 X2 Ht' Ht0 Ht1 Hr|l u ? Hlu Hun X1 X2 Hc];
    try lra; try lia.
  assert (t' == t).
  { assert (t' <= t) by (apply (div_mono t' t (m 0 - v_min v) (x - v_min v) (x - v_min v)); auto; lra).
    assert (t <= t') by (apply (div_mono t t' (m 0 - v_min v) (x - v_min v) (x - v_min v)); auto; lra). lra. }
  destruct Hr as [[E Hr]|[E Hr]].
  - left. split; [nra|exact Hr].
  - right. split; [nra|]. rewrite Hr. nra.
Qed.

(* the right tail *)
Lemma rank_right_tail x rho t : (2 <= n)%nat -> m (n - 1) < x -> x <= v_max v -> t * (v_max v - m (n - 1)) == v_max v - x ->
  rank v x = Ok (Some rho) ->
  (x == v_max v /\ rho * T == T - atm (nthc cs (n - 1)) / 2) \/
  (x < v_max v /\ rho * T == T - (atm (nthc cs (n - 1)) + t * (w (n - 1) / 2 - atm (nthc cs (n - 1))))).
Proof.
  intros Hn2 H1 H2 Ht Hr. apply (rank_case_of v Hwf) in Hr.
  pose proof (min_le_m0 v Hwf) as Hmin. pose proof (m_mono v Hwf 0 (n - 1) ltac:(lia) ltac:(lia)) as A1.
  destruct Hr as [? Hr|? ? Hr|? ? ? Hr|t' ? X1 X2 Ht' Ht0 Ht1 Hr|t' ? X1 X2 Ht' Ht0 Ht1 Hr|l u ? Hlu Hun X1 X2 Hc];
    try lra; try lia.
  assert (t' == t).
  { assert (t' <= t) by (apply (div_mono t' t (v_max v - m (n - 1)) (v_max v - x) (v_max v - x)); auto; lra).
    assert (t <= t') by (apply (div_mono t t' (v_max v - m (n - 1)) (v_max v - x) (v_max v - x)); auto; lra). lra. }
  destruct Hr as [[E Hr]|[E Hr]].
  - left. split; [nra|exact Hr].
  - right. split; [nra|]. rewrite Hr. nra.
Qed.

Lemma rank_single x rho : n = 1%nat -> v_min v <= x -> x <= v_max v -> rank v x = Ok (Some rho) -> rho == 1 # 2.
Proof.
  intros Hn1 H1 H2 Hr. apply (rank_case_of v Hwf) in Hr.
  destruct Hr as [? Hr|? ? Hr|? ? ? Hr|t' ? X1 X2 Ht' Ht0 Ht1 Hr|t' ? X1 X2 Ht' Ht0 Ht1 Hr|l u ? Hlu Hun X1 X2 Hc];
    try lra; try lia.
Qed.

(* ---------------- the main bound, in weight units ---------------- *)
Lemma consist_weight q x rho : 0 <= q -> q <= 1 ->
  quantile v q = Ok (Some x) -> rank v x = Ok (Some rho) ->
  - (inject_Z (straddle v q) / 2) <= rho * T - q * T /\ rho * T - q * T <= inject_Z (straddle v q) / 2.
Proof.
  intros Hq0 Hq1 HQ HR. pose proof (T_pos v Hwf) as HT. pose proof (n_pos v Hwf) as Hn.
  pose proof (straddle_ge1 q) as HS1.
  pose proof (min_le_m0 v Hwf) as Hmin. pose proof (mlast_le_max v Hwf) as Hmax. pose proof (min_le_max v Hwf) as Hmm.
  pose proof (Clast v Hwf) as HCl. pose proof (C0 v) as HC0.
  assert (Hw0 : 0 <= q * T) by nra. assert (HwT : q * T <= T) by nra.
  pose proof (straddle_char q) as HSC.
  apply (quant_case_of v Hwf) in HQ. set (wt := q * T) in *.
  destruct HQ as [W Hx|W1 W2 Hx|En W1 W2 Hx|t Hn2 W1 W2 A B Ht Hx|t Hn2 W1 W2 A B Ht Hx|i s Hn2 W1 W2 Hi Ci Cj S0 S1 G Hx].
  - (* wt < 1, x = min *)
    destruct (Nat.eq_dec n 1) as [En|En].
    + pose proof (rank_single x rho En ltac:(lra) ltac:(lra) HR) as Hr.
      assert (ET : T == w 0).
      { rewrite (T_sum v Hwf), <- W_all, En. rewrite W_S by lia. rewrite W_0. reflexivity. }
      assert (ERT : rho * T == w 0 / 2) by (rewrite Hr, ET; q2; lra).
      pose proof (c_w_ge1 (nthc cs 0)) as Hw1.
      destruct HSC as [[D ->]|[(j & J & _)|[D ->]]]; try lia; fold (w 0); try (replace (n - 1)%nat with 0%nat by lia; fold (w 0));
        rewrite ERT; q2; split; try lra.
      all: try (replace (n - 1)%nat with 0%nat in D by lia; lra).
    + assert (Hn2 : (2 <= n)%nat) by lia.
      destruct (Qlt_le_dec (v_min v) (m 0)) as [L|L].
      * destruct (rank_left_tail x rho 0 Hn2 ltac:(lra) ltac:(lra) ltac:(lra) HR) as [[_ Hr]|[F _]]; [|lra].
        rewrite Hr. destruct (atm_bounds (nthc cs 0)) as (S1 & S2 & S3). set (s0 := atm (nthc cs 0)) in *.
        pose proof (c_w_ge1 (nthc cs 0)) as Hw1.
        destruct HSC as [[D ->]|[(j & J & D1 & D2 & ->)|[D E]]].
        -- fold (w 0). q2. split; lra.
        -- rewrite inject_Z_plus. fold (w j) (w (S j)). pose proof (c_w_ge1 (nthc cs j)). pose proof (c_w_ge1 (nthc cs (S j))). q2. split; lra.
        -- exfalso. pose proof (centre_lt cs 0 (n - 1) ltac:(lia) ltac:(lia)). q2. lra.
      * pose proof (rank_at_mean x rho 0 Hn2 ltac:(lia) ltac:(lra) HR) as Hr. rewrite Hr, HC0.
        pose proof (c_w_ge1 (nthc cs 0)) as Hw1.
        destruct HSC as [[D ->]|[(j & J & D1 & D2 & E)|[D E]]].
        -- fold (w 0). q2. split; lra.
        -- pose proof (C_le v 0 j ltac:(lia) ltac:(lia)). q2. split; lra.
        -- pose proof (C_le v 0 (n - 1) ltac:(lia) ltac:(lia)). q2. split; lra.
  - (* wt >= T - 1, x = max *)
    destruct (Nat.eq_dec n 1) as [En|En].
    + pose proof (rank_single x rho En ltac:(lra) ltac:(lra) HR) as Hr.
      assert (ET : T == w 0).
      { rewrite (T_sum v Hwf), <- W_all, En. rewrite W_S by lia. rewrite W_0. reflexivity. }
      assert (ERT : rho * T == w 0 / 2) by (rewrite Hr, ET; q2; lra).
      pose proof (c_w_ge1 (nthc cs 0)) as Hw1.
      destruct HSC as [[D ->]|[(j & J & _)|[D ->]]]; try lia; fold (w 0); try (replace (n - 1)%nat with 0%nat by lia; fold (w 0));
        rewrite ERT; q2; split; lra.
    + assert (Hn2 : (2 <= n)%nat) by lia.
      destruct (Qlt_le_dec (m (n - 1)) (v_max v)) as [L|L].
      * destruct (rank_right_tail x rho 0 Hn2 ltac:(lra) ltac:(lra) ltac:(lra) HR) as [[_ Hr]|[F _]]; [|lra].
        rewrite Hr. destruct (atm_bounds (nthc cs (n - 1))) as (S1 & S2 & S3). set (s0 := atm (nthc cs (n - 1))) in *.
        pose proof (c_w_ge1 (nthc cs (n - 1))) as Hw1.
        destruct HSC as [[D E]|[(j & J & D1 & D2 & ->)|[D ->]]].
        -- exfalso. pose proof (centre_lt cs 0 (n - 1) ltac:(lia) ltac:(lia)). q2. lra.
        -- rewrite inject_Z_plus. fold (w j) (w (S j)). pose proof (c_w_ge1 (nthc cs j)). pose proof (c_w_ge1 (nthc cs (S j))). q2. split; lra.
        -- fold (w (n - 1)). q2. split; lra.
      * pose proof (rank_at_mean x rho (n - 1) Hn2 ltac:(lia) ltac:(lra) HR) as Hr. rewrite Hr, HCl.
        pose proof (c_w_ge1 (nthc cs (n - 1))) as Hw1.
        destruct HSC as [[D E]|[(j & J & D1 & D2 & E)|[D ->]]].
        -- pose proof (C_le v 0 (n - 1) ltac:(lia) ltac:(lia)). q2. split; lra.
        -- pose proof (C_le v (S j) (n - 1) ltac:(lia) ltac:(lia)). q2. split; lra.
        -- fold (w (n - 1)). q2. split; lra.
  - (* one centroid, 1 <= wt < T - 1 *)
    destruct (m_in_range v Hwf 0 ltac:(lia)).
    pose proof (rank_single x rho En ltac:(lra) ltac:(lra) HR) as Hr.
    assert (ET : T == w 0).
    { rewrite (T_sum v Hwf), <- W_all, En. rewrite W_S by lia. rewrite W_0. reflexivity. }
    assert (ERT : rho * T == w 0 / 2) by (rewrite Hr, ET; q2; lra).
    destruct HSC as [[D ->]|[(j & J & _)|[D ->]]]; try lia; fold (w 0); try (replace (n - 1)%nat with 0%nat by lia; fold (w 0));
      rewrite ERT; q2; split; lra.
  - (* left tail of the first centroid *)
    destruct (left_case_bounds v wt t W1 A B Ht) as [T0 T1].
    assert (ES : inject_Z (straddle v q) == w 0).
    { destruct HSC as [[D ->]|[(j & J & D1 & D2 & E)|[D E]]]; [reflexivity| |]; exfalso.
      - pose proof (C_le v 0 j ltac:(lia) ltac:(lia)). lra.
      - pose proof (C_le v 0 (n - 1) ltac:(lia) ltac:(lia)). lra. }
    rewrite ES.
    destruct (Qlt_le_dec (v_min v) (m 0)) as [L|L].
    + assert (X0 : v_min v <= x) by (rewrite Hx; nra). assert (X1 : x < m 0) by (rewrite Hx; nra).
      pose proof (atm_heavy (nthc cs 0) A) as Hs1.
      destruct (rank_left_tail x rho t Hn2 X0 X1 ltac:(rewrite Hx; lra) HR) as [[E Hr]|[E Hr]].
      * assert (t == 0) by nra. assert (wt == 1) by nra. rewrite Hr, Hs1. q2. split; lra.
      * rewrite Hr, Hs1. q2. split; nra.
    + assert (x == m 0) by (rewrite Hx; nra).
      pose proof (rank_at_mean x rho 0 Hn2 ltac:(lia) ltac:(lra) HR) as Hr. rewrite Hr, HC0. q2. split; lra.
  - (* right tail of the last centroid *)
    destruct (right_case_bounds v wt t W2 A B Ht) as [T0 T1].
    assert (ES : inject_Z (straddle v q) == w (n - 1)).
    { destruct HSC as [[D E]|[(j & J & D1 & D2 & E)|[D ->]]]; [| |reflexivity]; exfalso.
      - pose proof (C_le v 0 (n - 1) ltac:(lia) ltac:(lia)). q2. lra.
      - pose proof (C_le v (S j) (n - 1) ltac:(lia) ltac:(lia)). q2. lra. }
    rewrite ES.
    destruct (Qlt_le_dec (m (n - 1)) (v_max v)) as [L|L].
    + assert (X0 : x <= v_max v) by (rewrite Hx; nra).
      destruct (Qlt_le_dec t 1) as [L1|L1].
      * assert (X1 : m (n - 1) < x) by (rewrite Hx; nra).
        pose proof (atm_heavy (nthc cs (n - 1)) A) as Hs1.
        destruct (rank_right_tail x rho t Hn2 X1 X0 ltac:(rewrite Hx; lra) HR) as [[E Hr]|[E Hr]].
        -- exfalso. rewrite Hx in E. nra.
        -- rewrite Hr, Hs1. q2. split; nra.
      * assert (t == 1) by lra. assert (x == m (n - 1)) by (rewrite Hx; nra).
        pose proof (rank_at_mean x rho (n - 1) Hn2 ltac:(lia) ltac:(lra) HR) as Hr. rewrite Hr, HCl. q2. split; nra.
    + assert (x == m (n - 1)) by (rewrite Hx; nra).
      pose proof (rank_at_mean x rho (n - 1) Hn2 ltac:(lia) ltac:(lra) HR) as Hr. rewrite Hr, HCl. q2. split; lra.
  - (* a gap *)
    assert (ES : inject_Z (straddle v q) == w i + w (S i)).
    { destruct HSC as [[D E]|[(j & J & D1 & D2 & E)|[D E]]].
      - exfalso. pose proof (C_le v 0 i ltac:(lia) ltac:(lia)). lra.
      - assert (j = i).
        { destruct (Nat.lt_trichotomy j i) as [H|[H|H]]; auto; exfalso.
          - pose proof (C_le v (S j) i ltac:(lia) ltac:(lia)). lra.
          - pose proof (C_le v (S i) j ltac:(lia) ltac:(lia)). lra. }
        subst j. rewrite E. unfold c_w. rewrite inject_Z_plus. reflexivity.
      - exfalso. pose proof (C_le v (S i) (n - 1) ltac:(lia) ltac:(lia)). lra. }
    rewrite ES. pose proof (c_w_ge1 (nthc cs i)) as Hwi. pose proof (c_w_ge1 (nthc cs (S i))) as Hwj.
    pose proof (m_strict i (S i) ltac:(lia) Hi) as Hms.
    pose proof (centre_S cs i Hi) as HCS.
    unfold gap_s in G.
    destruct (half_if_unit_cases (nthc cs i)) as [(_ & Elw & _)|(_ & Elw & _)];
    destruct (half_if_unit_cases (nthc cs (S i))) as [(_ & Erw & _)|(_ & Erw & _)];
    rewrite Elw, Erw in G; clear Elw Erw;
    (destruct G as [(G1 & Es)|[(G1 & G2 & Es)|(G1 & G2 & Es)]];
     [ assert (Ex : x == m i) by (rewrite Hx; nra);
       pose proof (rank_at_mean x rho i Hn2 ltac:(lia) Ex HR) as Hr; rewrite Hr; q2; split; lra
     | assert (Ex : x == m (S i)) by (rewrite Hx; nra);
       pose proof (rank_at_mean x rho (S i) Hn2 Hi Ex HR) as Hr; rewrite Hr, HCS; q2; split; lra
     | destruct (Qlt_le_dec 0 s) as [Ls|Ls];
       [ assert (X1 : m i < x) by (rewrite Hx; nra);
         assert (X2 : x < m (S i)) by (rewrite Hx; q2; nra);
         pose proof (rank_in_gap x rho i s Hi X1 X2 ltac:(rewrite Hx; lra) HR) as Hr;
         rewrite Hr, HCS; q2; split; nra
       | assert (Es0 : s == 0) by lra;
         assert (Ex : x == m i) by (rewrite Hx; nra);
         pose proof (rank_at_mean x rho i Hn2 ltac:(lia) Ex HR) as Hr; rewrite Hr; q2; split; nra ] ]).
Qed.

Theorem rank_quantile_consistent q x rho : 0 <= q -> q <= 1 ->
  quantile v q = Ok (Some x) -> rank v x = Ok (Some rho) ->
  Qabs (rho - q) <= resolution v q.
Proof.
  intros Hq0 Hq1 HQ HR. pose proof (T_pos v Hwf) as HT.
  destruct (consist_weight q x rho Hq0 Hq1 HQ HR) as [A B].
  unfold resolution. apply Qabs_Qle_condition.
  set (S := inject_Z (straddle v q)) in *.
  assert (E : S / (2 * T) * (2 * T) == S) by (field; lra).
  set (R := S / (2 * T)) in *. q2. split; nra.
Qed.

End Consist.
