(* Frequent Items serialization (i64 items): round trip (C11), conformance to the cross-language
   layout (C12), the reader accepts every image the layout allows (C13), it is total and never
   reaches a panic site on any bytes (C14), and the image size is bounded by the configuration
   (C18).  The model is Model/Freq.v PART B (fc_serialize / fc_parse / fc_build / fc_deserialize);
   the table side rests on Proofs/FreqTable.v. *)
From DS Require Import Base.Prelude Base.Bytes Base.FloatBits Model.Freq Spec.FreqLayout Proofs.FreqProofs Proofs.FreqTable.
From DS Require Gen.GenFreq Gen.GenCodec.
From Coq Require Import Permutation ZifyBool ZifyNat ZifyN.
Open Scope N_scope.

Ltac splits := repeat match goal with |- _ /\ _ => split end.

(* ---------- constants and small arithmetic ---------- *)
Lemma layout_constants :
  zN GenFreq.PREAMBLE_LONGS_EMPTY = 1 /\ zN GenFreq.PREAMBLE_LONGS_NONEMPTY = 4 /\ zN GenFreq.SERIAL_VERSION = 1 /\
  zN GenCodec.FAMILY_FREQUENCY_ID = 10 /\ zN GenFreq.EMPTY_FLAG_MASK = 5 /\
  LG_MIN = 3 /\ LOAD_NUM = 3 /\ LOAD_DEN = 4.
Proof. repeat split; reflexivity. Qed.

Lemma M64_val : M64 = 2 ^ 64. Proof. reflexivity. Qed.

Lemma cap_alt lg : 3 <= lg -> 2 ^ lg / LOAD_DEN * LOAD_NUM = cap_of_lg lg.
Proof.
  intros H. rewrite (cap_val lg H), LOAD_DEN_val, LOAD_NUM_val, (pow2_split lg H).
  replace (8 * 2 ^ (lg - 3)) with ((2 * 2 ^ (lg - 3)) * 4) by lia. rewrite N.div_mul by lia. lia.
Qed.

Lemma spec_capacity_cap lg : 3 <= lg -> spec_capacity lg = cap_of_lg lg.
Proof.
  intros H. unfold spec_capacity. rewrite (cap_val lg H), (pow2_split lg H).
  replace (3 * (8 * 2 ^ (lg - 3))) with ((6 * 2 ^ (lg - 3)) * 4) by lia. apply N.div_mul. lia.
Qed.

Lemma cap_lt_len lg : 3 <= lg -> cap_of_lg lg + 1 < 2 ^ lg.
Proof. intros H. rewrite (cap_val lg H), (pow2_split lg H). pose proof (pow2_pos (lg - 3)). lia. Qed.

Lemma pow2_le_62 lg : lg <= 62 -> 2 ^ lg * 3 < M64.
Proof.
  intros H. assert (2 ^ lg <= 2 ^ 62) by (apply N.pow_le_mono_r; lia).
  change (2 ^ 62) with 4611686018427387904 in H0. unfold M64. lia.
Qed.

Lemma pow2_ge_63 lg : 63 <= lg -> M64 <= 2 ^ lg * 3.
Proof.
  intros H. assert (2 ^ 63 <= 2 ^ lg) by (apply N.pow_le_mono_r; lia).
  change (2 ^ 63) with 9223372036854775808 in H0. unfold M64. lia.
Qed.

Lemma seqN_in a n x : In x (seqN a n) <-> a <= x < a + n.
Proof.
  unfold seqN. rewrite in_map_iff. split.
  - intros (m & <- & Hin). apply in_seq in Hin. lia.
  - intros Hx. exists (N.to_nat x). split; [lia|]. apply in_seq. lia.
Qed.

(* (map_size as f64 * 0.75) as usize is three quarters of the map size: a finite sweep over the
   sixty map sizes 2^3 .. 2^62 a usize-indexed table can have *)
Lemma load_threshold_sweep : forallb (fun lg => load_threshold (2 ^ lg) =? cap_of_lg lg) (seqN 3 60) = true.
Proof. vm_compute. reflexivity. Qed.

Lemma load_threshold_cap lg : 3 <= lg <= 62 -> load_threshold (2 ^ lg) = cap_of_lg lg.
Proof.
  intros H. pose proof load_threshold_sweep as S. rewrite forallb_forall in S.
  specialize (S lg). apply N.eqb_eq. apply S. apply seqN_in. lia.
Qed.

(* flag test: the model masks with EMPTY_FLAG_MASK = 5, the specification names bits 0 and 2 *)
Lemma flag_sweep : forallb (fun f => Bool.eqb (N.land f 5 =? 0) (negb (N.testbit f 0 || N.testbit f 2))) (seqN 0 256) = true.
Proof. vm_compute. reflexivity. Qed.

Lemma flag_bits f : f < 256 -> (N.land f 5 =? 0) = negb (N.testbit f 0 || N.testbit f 2).
Proof.
  intros H. pose proof flag_sweep as S. rewrite forallb_forall in S. specialize (S f).
  apply Bool.eqb_prop. apply S. apply seqN_in. lia.
Qed.

Lemma land63 x : N.land x 63 = x mod 64.
Proof. change 63 with (N.ones 6). rewrite N.land_ones. reflexivity. Qed.

(* ---------- i64 <-> u64 ---------- *)
Definition i64_ok (z : Z) : Prop := (- 9223372036854775808 <= z < 9223372036854775808)%Z.

Lemma u64_of_i64_lt z : u64_of_i64 z < M64.
Proof. unfold u64_of_i64, zN, M64. pose proof (Z.mod_pos_bound z 18446744073709551616 ltac:(lia)). lia. Qed.

Lemma i64_of_u64_of_i64 z : i64_ok z -> i64_of_u64 (u64_of_i64 z) = z.
Proof.
  unfold i64_ok, i64_of_u64, u64_of_i64, zN, Nz. intros H.
  destruct (Z.ltb_spec z 0).
  - replace (z mod 18446744073709551616)%Z with (z + 18446744073709551616)%Z.
    2:{ symmetry. rewrite <- (Z.mod_add z 1) by lia. apply Z.mod_small. lia. }
    destruct (N.ltb_spec (Z.to_N (z + 18446744073709551616)) 9223372036854775808); lia.
  - rewrite Z.mod_small by lia.
    destruct (N.ltb_spec (Z.to_N z) 9223372036854775808); lia.
Qed.

Lemma i64_of_u64_ok n : n < M64 -> i64_ok (i64_of_u64 n).
Proof. unfold i64_ok, i64_of_u64, M64, Nz. intros H. destruct (N.ltb_spec n 9223372036854775808); lia. Qed.

Lemma spec_i64_eq n : spec_i64 n = i64_of_u64 n.
Proof. reflexivity. Qed.

Lemma spec_u64_eq z : spec_u64 z = u64_of_i64 z.
Proof. reflexivity. Qed.

(* ---------- reading 64-bit words ---------- *)
Lemma flat_map_le8_length (cs : list N) : length (flat_map (le_bytes 8) cs) = (8 * length cs)%nat.
Proof. induction cs as [|c cs IH]; cbn [flat_map length]; [reflexivity|]. rewrite app_length, le_bytes_length, IH. lia. Qed.

Lemma flat_map_map {A B C} (f : B -> list C) (g : A -> B) l : flat_map f (map g l) = flat_map (fun x => f (g x)) l.
Proof. induction l as [|x l IH]; cbn [map flat_map]; [reflexivity|]. rewrite IH. reflexivity. Qed.

Lemma read_u64s_flat : forall vs rest, Forall (fun v => v < M64) vs ->
  read_u64s (length vs) (flat_map (le_bytes 8) vs ++ rest) = Some (vs, rest).
Proof.
  induction vs as [|v vs IH]; intros rest Hall; cbn [length read_u64s flat_map]; [reflexivity|].
  inversion Hall as [|? ? Hv Hall']; subst. rewrite <- app_assoc.
  destruct (Nat.ltb_spec (length (le_bytes 8 v ++ flat_map (le_bytes 8) vs ++ rest)) 8) as [Hl|Hl].
  { rewrite app_length, le_bytes_length in Hl. lia. }
  rewrite firstn_app_exact by apply le_bytes_length.
  rewrite skipn_app_exact by apply le_bytes_length.
  rewrite IH by exact Hall'.
  rewrite le_val_le_bytes_small by (unfold M64 in Hv; change (256 ^ N.of_nat 8) with 18446744073709551616; lia).
  reflexivity.
Qed.

Lemma spec_longs_flat : forall vs rest, Forall (fun v => v < M64) vs ->
  spec_longs (length vs) (flat_map (le_bytes 8) vs ++ rest) = Some (vs, rest).
Proof.
  induction vs as [|v vs IH]; intros rest Hall; cbn [length spec_longs flat_map]; [reflexivity|].
  inversion Hall as [|? ? Hv Hall']; subst. rewrite <- app_assoc.
  destruct (Nat.ltb_spec (length (le_bytes 8 v ++ flat_map (le_bytes 8) vs ++ rest)) 8) as [Hl|Hl].
  { rewrite app_length, le_bytes_length in Hl. lia. }
  rewrite firstn_app_exact by apply le_bytes_length.
  rewrite skipn_app_exact by apply le_bytes_length.
  rewrite IH by exact Hall'.
  rewrite le_val_le_bytes_small by (unfold M64 in Hv; change (256 ^ N.of_nat 8) with 18446744073709551616; lia).
  reflexivity.
Qed.

Lemma bytes_ok_firstn n l : bytes_ok l = true -> bytes_ok (firstn n l) = true.
Proof.
  unfold bytes_ok. revert n. induction l as [|b l IH]; intros [|n] H; cbn [firstn forallb] in *; auto.
  apply andb_prop in H as [Hb Hl]. rewrite Hb, (IH n Hl). reflexivity.
Qed.

Lemma bytes_ok_skipn n l : bytes_ok l = true -> bytes_ok (skipn n l) = true.
Proof.
  unfold bytes_ok. revert n. induction l as [|b l IH]; intros [|n] H; cbn [skipn forallb] in *; auto.
  apply andb_prop in H as [Hb Hl]. apply IH. exact Hl.
Qed.

Lemma le_val_lt l n : bytes_ok l = true -> (length l <= n)%nat -> le_val l < 256 ^ N.of_nat n.
Proof.
  intros Hb Hl. pose proof (le_val_bound l Hb) as B.
  assert (256 ^ N.of_nat (length l) <= 256 ^ N.of_nat n) by (apply N.pow_le_mono_r; lia). lia.
Qed.

Lemma skipn_add {A} (l : list A) n m : skipn n (skipn m l) = skipn (m + n) l.
Proof.
  revert l. induction m as [|m IH]; intros l; [reflexivity|].
  destruct l as [|x l]; cbn [skipn Nat.add]; [destruct n; reflexivity|]. apply IH.
Qed.

Lemma read_u64s_ok : forall n bs vs rest, read_u64s n bs = Some (vs, rest) ->
  length vs = n /\ (length bs = 8 * n + length rest)%nat /\ rest = skipn (8 * n)%nat bs /\
  (bytes_ok bs = true -> Forall (fun v => v < M64) vs).
Proof.
  induction n as [|n IH]; intros bs vs rest H; cbn [read_u64s] in H.
  - inversion H; subst. split; [reflexivity|]. split; [cbn [length]; lia|]. split; [reflexivity|]. intros _. constructor.
  - assert (Hw : bytes_ok bs = true -> le_val (firstn 8 bs) < M64).
    { intros Hok. unfold M64. change 18446744073709551616 with (256 ^ N.of_nat 8).
      apply le_val_lt; [apply bytes_ok_firstn, Hok|rewrite firstn_length; lia]. }
    destruct (Nat.ltb_spec (length bs) 8) as [|Hl]; [discriminate|].
    destruct (read_u64s n (skipn 8 bs)) as [[vs' rest']|] eqn:E; [|discriminate].
    inversion H; subst. apply IH in E as (Hlen & Hb & Hr & Hall). rewrite skipn_length in Hb.
    split; [cbn [length]; lia|]. split; [lia|]. split.
    + rewrite Hr, skipn_add. f_equal. lia.
    + intros Hok. constructor; [exact (Hw Hok)|apply Hall, bytes_ok_skipn, Hok].
Qed.

(* ---------- with_lg_map_sizes ---------- *)
Definition fresh_fc (lgm lgc : N) : fc :=
  let m := rp_new (N.max lgc LG_MIN) in
  mkFc (N.max lgm LG_MIN) (rp_thr m) 0 0 (N.min SAMPLE_SIZE (cap_of_lg (N.max lgm LG_MIN))) m.

Lemma with_lg_ok lgm lgc : lgc <= lgm -> lgm <= 62 -> fc_with_lg lgm lgc = Ok (fresh_fc lgm lgc).
Proof.
  intros H1 H2. unfold fc_with_lg, fresh_fc. rewrite LG_MIN_val, LOAD_NUM_val.
  destruct (N.ltb_spec (N.max lgm 3) (N.max lgc 3)); [lia|].
  pose proof (pow2_le_62 (N.max lgm 3) ltac:(lia)).
  destruct (N.leb_spec M64 (2 ^ N.max lgm 3 * 3)); [lia|]. reflexivity.
Qed.

Lemma with_lg_not_stuck lgm lgc : lgc <= lgm -> lgm <= 62 -> fc_with_lg lgm lgc <> Stuck.
Proof. intros H1 H2. rewrite (with_lg_ok lgm lgc H1 H2). discriminate. Qed.

Lemma fresh_cur_cap lgm lgc : lgc <= lgm -> lgm <= 62 -> fc_cur_cap (fresh_fc lgm lgc) = cap_of_lg (N.max lgc LG_MIN).
Proof.
  intros H1 H2. unfold fresh_fc, rp_new. cbn [fc_cur_cap rp_thr]. apply load_threshold_cap. rewrite LG_MIN_val. lia.
Qed.

(* ---------- the update loop of deserialize ---------- *)
Definition cs_add0 (cs : counters) (k : Z) (v : N) : counters := if v =? 0 then cs else cs_add cs k v.
Fixpoint cs_load (cs : counters) (items : list Z) (values : list N) : counters :=
  match items, values with
  | k :: items', v :: values' => cs_load (cs_add0 cs k v) items' values'
  | _, _ => cs
  end.

Lemma put_active_le t k h v : rp_active (rp_adjust_or_put t k h v) <= rp_active t + 1.
Proof.
  unfold rp_adjust_or_put. destruct (rp_find _ _ _ _ _ _) as [p d].
  destruct (nthN (rp_tab t) p None); cbn [rp_active]; lia.
Qed.

Lemma put_lg t k h v : rp_lg (rp_adjust_or_put t k h v) = rp_lg t /\ rp_thr (rp_adjust_or_put t k h v) = rp_thr t.
Proof.
  unfold rp_adjust_or_put. destruct (rp_find _ _ _ _ _ _) as [p d].
  destruct (nthN (rp_tab t) p None); cbn [rp_lg rp_thr]; split; reflexivity.
Qed.

(* one update that neither resizes nor purges *)
Lemma update_plain c k h w : w <> 0 -> rp_active (fc_map c) + 1 <= fc_cur_cap c ->
  fc_update c k h w =
  Ok (mkFc (fc_lg_max c) (fc_cur_cap c) (fc_offset c) (fc_weight c + w) (fc_sample_size c) (rp_adjust_or_put (fc_map c) k h w), []).
Proof.
  intros Hw Hcap. unfold fc_update. destruct (N.eqb_spec w 0); [contradiction|].
  unfold fc_resize_or_purge, fc_num_active. cbn [fc_cur_cap fc_map].
  pose proof (put_active_le (fc_map c) k h w).
  destruct (N.ltb_spec (fc_cur_cap c) (rp_active (rp_adjust_or_put (fc_map c) k h w))); [lia|]. reflexivity.
Qed.

(* the loop never reaches a resize, a purge or a panic site when the counters fit the current capacity *)
Lemma load_total : forall items hashes values c,
  rp_active (fc_map c) + N.of_nat (length values) <= fc_cur_cap c ->
  exists c', fc_load c items hashes values = Ok c' /\
    fc_lg_max c' = fc_lg_max c /\ fc_cur_cap c' = fc_cur_cap c /\ fc_offset c' = fc_offset c /\
    fc_sample_size c' = fc_sample_size c /\ rp_lg (fc_map c') = rp_lg (fc_map c) /\ rp_thr (fc_map c') = rp_thr (fc_map c) /\
    rp_active (fc_map c') <= rp_active (fc_map c) + N.of_nat (length values).
Proof.
  induction items as [|k items IH]; intros hashes values c Hcap.
  - exists c. cbn [fc_load]. repeat split; try reflexivity. lia.
  - destruct values as [|v values].
    + exists c. cbn [fc_load]. repeat split; try reflexivity. lia.
    + cbn [fc_load length] in *. destruct (N.eq_dec v 0) as [->|Hv].
      * unfold fc_update at 1. cbn [N.eqb obind fst]. change (0 =? 0) with true. cbn [obind fst].
        destruct (IH (tl hashes) values c ltac:(lia)) as (c' & E & H1 & H2 & H3 & H4 & H5 & H6 & H7).
        exists c'. rewrite E. repeat split; try assumption. lia.
      * rewrite (update_plain c k (hd 0 hashes) v Hv ltac:(lia)). cbn [obind fst].
        set (c1 := mkFc _ _ _ _ _ _).
        pose proof (put_active_le (fc_map c) k (hd 0 hashes) v) as Ha.
        pose proof (put_lg (fc_map c) k (hd 0 hashes) v) as [Hl Ht].
        destruct (IH (tl hashes) values c1) as (c' & E & H1 & H2 & H3 & H4 & H5 & H6 & H7).
        { unfold c1. cbn [fc_map fc_cur_cap]. lia. }
        exists c'. rewrite E. unfold c1 in *. cbn [fc_lg_max fc_cur_cap fc_offset fc_sample_size fc_map] in *.
        repeat split; try assumption; try congruence. lia.
Qed.

Lemma nodup_add0 cs k v : NoDup (keys cs) -> NoDup (keys (cs_add0 cs k v)).
Proof. intros H. unfold cs_add0. destruct (v =? 0); [exact H|apply nodup_add; exact H]. Qed.

Lemma cs_load_perm : forall items values l l', NoDup (keys l) -> Permutation l l' ->
  Permutation (cs_load l items values) (cs_load l' items values).
Proof.
  induction items as [|k items IH]; intros values l l' Hnd P; [exact P|].
  destruct values as [|v values]; [exact P|]. cbn [cs_load]. apply IH.
  - apply nodup_add0. exact Hnd.
  - unfold cs_add0. destruct (v =? 0); [exact P|apply cs_add_perm; assumption].
Qed.

(* with consistent hashes the loaded table is the finite map [cs_load] builds *)
Lemma load_spec H : forall items values c,
  tinv H (fc_map c) -> fc_cur_cap c + 1 < rp_len (fc_map c) ->
  rp_active (fc_map c) + N.of_nat (length values) <= fc_cur_cap c ->
  exists c', fc_load c items (map H items) values = Ok c' /\
    tinv H (fc_map c') /\ Permutation (kv (fc_map c')) (cs_load (kv (fc_map c)) items values) /\
    fc_lg_max c' = fc_lg_max c /\ fc_cur_cap c' = fc_cur_cap c /\ fc_offset c' = fc_offset c /\
    fc_sample_size c' = fc_sample_size c /\ rp_lg (fc_map c') = rp_lg (fc_map c) /\ rp_thr (fc_map c') = rp_thr (fc_map c) /\
    rp_len (fc_map c') = rp_len (fc_map c).
Proof.
  induction items as [|k items IH]; intros values c Hi Hlen Hcap.
  - exists c. cbn [fc_load cs_load]. splits; try reflexivity; try assumption.
  - destruct values as [|v values].
    + exists c. cbn [fc_load cs_load]. splits; try reflexivity; try assumption.
    + cbn [fc_load length map hd tl cs_load] in *. unfold cs_add0. destruct (N.eqb_spec v 0) as [->|Hv].
      * unfold fc_update at 1. change (0 =? 0) with true. cbn [obind fst].
        apply (IH values c Hi Hlen). lia.
      * rewrite (update_plain c k (H k) v Hv ltac:(lia)). cbn [obind fst].
        set (c1 := mkFc _ _ _ _ _ _).
        assert (Hact : rp_active (fc_map c) = N.of_nat (length (active_entries (fc_map c)))) by (destruct Hi; assumption).
        destruct (put_spec H (fc_map c) k v Hi ltac:(lia)) as (Hi1 & P1 & Hl1 & Ht1 & Hn1).
        pose proof (put_active_le (fc_map c) k (H k) v) as Ha.
        destruct (IH values c1) as (c' & E & Hi' & P' & H1 & H2 & H3 & H4 & H5 & H6 & H7).
        { exact Hi1. }
        { unfold c1. cbn [fc_map fc_cur_cap]. rewrite Hn1. exact Hlen. }
        { unfold c1. cbn [fc_map fc_cur_cap]. lia. }
        exists c'. rewrite E. unfold c1 in *. cbn [fc_lg_max fc_cur_cap fc_offset fc_sample_size fc_map] in *.
        split; [reflexivity|]. split; [exact Hi'|]. split.
        { eapply Permutation_trans; [exact P'|]. apply cs_load_perm; [apply (tinv_nodup H _ Hi1)|exact P1]. }
        splits; try assumption; congruence.
Qed.

(* loading distinct keys with positive counts into the empty map gives back the list *)
Lemma cs_load_distinct : forall items values l,
  length items = length values -> NoDup (keys l ++ items) -> Forall (fun v => v <> 0) values ->
  cs_load l items values = l ++ combine items values.
Proof.
  induction items as [|k items IH]; intros values l Hlen Hnd Hpos; destruct values as [|v values]; cbn [length] in Hlen; try lia.
  - cbn [cs_load combine]. rewrite app_nil_r. reflexivity.
  - inversion Hpos as [|? ? Hv Hpos']; subst. cbn [cs_load combine]. unfold cs_add0.
    destruct (N.eqb_spec v 0); [contradiction|].
    assert (Hnin : ~ In k (keys l)).
    { apply NoDup_remove_2 in Hnd. intros Hx. apply Hnd. apply in_or_app. left. exact Hx. }
    rewrite (cs_add_notin l k v Hnin). rewrite IH; [rewrite <- app_assoc; reflexivity|lia| |exact Hpos'].
    unfold keys in *. rewrite map_app. cbn [map fst]. rewrite <- app_assoc. cbn [app].
    apply NoDup_remove_1 in Hnd as Hnd1. apply NoDup_remove_2 in Hnd as Hnd2.
    apply (Permutation_NoDup (l := k :: map fst l ++ items)).
    + apply Permutation_middle.
    + constructor; assumption.
Qed.

(* ---------- the two image forms, as byte lists ---------- *)
Definition img_full (b0 lgm lgc fl u16 n u32 w off : N) (vals items trail : list N) : list N :=
  [b0; 1; 10; lgm; lgc; fl] ++ le_bytes 2 u16 ++ le_bytes 4 n ++ le_bytes 4 u32 ++ le_bytes 8 w ++ le_bytes 8 off
  ++ (flat_map (le_bytes 8) vals ++ flat_map (le_bytes 8) items ++ trail).
Definition img_empty (b0 lgm lgc fl u16 : N) (trail : list N) : list N :=
  [b0; 1; 10; lgm; lgc; fl] ++ le_bytes 2 u16 ++ trail.

Lemma le4_fold n : [n mod 256; n / 256 mod 256; n / 256 / 256 mod 256; n / 256 / 256 / 256 mod 256] = le_bytes 4 n.
Proof. reflexivity. Qed.
Lemma le8_fold n : [n mod 256; n / 256 mod 256; n / 256 / 256 mod 256; n / 256 / 256 / 256 mod 256;
                    n / 256 / 256 / 256 / 256 mod 256; n / 256 / 256 / 256 / 256 / 256 mod 256;
                    n / 256 / 256 / 256 / 256 / 256 / 256 mod 256; n / 256 / 256 / 256 / 256 / 256 / 256 / 256 mod 256] = le_bytes 8 n.
Proof. reflexivity. Qed.

Lemma parse_full b0 lgm lgc fl u16 n u32 w off vals items trail :
  N.land b0 63 = 4 -> lgc <= lgm -> lgm <= 62 -> N.land fl 5 = 0 ->
  n = N.of_nat (length vals) -> length items = length vals -> n < 2 ^ 32 -> w < M64 -> off < M64 ->
  Forall (fun v => v < M64) vals -> Forall (fun v => v < M64) items ->
  n <= 2 ^ N.max lgc LG_MIN / LOAD_DEN * LOAD_NUM -> off + sumN vals <= w ->
  fc_parse (img_full b0 lgm lgc fl u16 n u32 w off vals items trail) = Ok (ImgFull lgm lgc w off vals items).
Proof.
  intros Hb0 Hlg Hlgm Hfl Hn Hli Hn32 Hw Hoff Hvals Hitems Hcap Hsum.
  destruct layout_constants as (Cpe & Cpn & Csv & Cfam & Cmask & _).
  unfold fc_parse, img_full.
  set (payload := flat_map (le_bytes 8) vals ++ flat_map (le_bytes 8) items ++ trail).
  cbn [le_bytes app length nth firstn skipn Nat.ltb Nat.leb].
  rewrite Hb0, Cpe, Cpn, Csv, Cfam, Cmask, Hfl. rewrite !N.eqb_refl. cbn [negb].
  destruct (N.ltb_spec lgm lgc); [lia|].
  pose proof (pow2_le_62 lgm Hlgm). change LOAD_NUM with 3 in *.
  destruct (N.leb_spec M64 (2 ^ lgm * 3)); [lia|].
  change (4 =? 1) with false. cbn [negb].
  rewrite !le4_fold, !le8_fold.
  rewrite (le_val_le_bytes_small 4) by (change (256 ^ N.of_nat 4) with (2 ^ 32); exact Hn32).
  rewrite !(le_val_le_bytes_small 8) by (change (256 ^ N.of_nat 8) with 18446744073709551616; unfold M64 in *; assumption).
  assert (Hpl : length payload = (16 * length vals + length trail)%nat).
  { unfold payload. rewrite !app_length, !flat_map_le8_length. lia. }
  rewrite Hpl.
  match goal with |- context [?a / 8 <? n] => destruct (N.ltb_spec (a / 8) n) as [Hbad|_] end.
  { exfalso. assert (n <= (N.of_nat (S (S (S (S (S (S (S (S (S (S (S (S (S (S (S (S (S (S (S (S (S (S (S (S (S (S (S (S (S (S (S (S (16 * length vals + length trail))))))))))))))))))))))))))))))))) - 4 * 8) / 8).
    { apply N.div_le_lower_bound; lia. }
    lia. }
  destruct (N.ltb_spec (2 ^ N.max lgc LG_MIN / LOAD_DEN * 3) n); [lia|].
  replace (N.to_nat n) with (length vals) by lia.
  unfold payload. rewrite (read_u64s_flat vals _ Hvals).
  destruct (N.ltb_spec w (off + sumN vals)); [lia|].
  rewrite <- Hli. rewrite (read_u64s_flat items _ Hitems). reflexivity.
Qed.

Lemma parse_empty b0 lgm lgc fl u16 trail :
  N.land b0 63 = 1 -> lgc <= lgm -> lgm <= 62 -> N.land fl 5 <> 0 ->
  fc_parse (img_empty b0 lgm lgc fl u16 trail) = Ok (ImgEmpty lgm lgc).
Proof.
  intros Hb0 Hlg Hlgm Hfl.
  destruct layout_constants as (Cpe & Cpn & Csv & Cfam & Cmask & _).
  unfold fc_parse, img_empty.
  cbn [le_bytes app length nth firstn skipn Nat.ltb Nat.leb].
  rewrite Hb0, Cpe, Csv, Cfam, Cmask. rewrite !N.eqb_refl. cbn [negb].
  destruct (N.ltb_spec lgm lgc); [lia|].
  pose proof (pow2_le_62 lgm Hlgm). change LOAD_NUM with 3 in *.
  destruct (N.leb_spec M64 (2 ^ lgm * 3)); [lia|].
  destruct (N.eqb_spec (N.land fl 5) 0); [contradiction|]. reflexivity.
Qed.
